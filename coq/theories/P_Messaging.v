(* P_Messaging.v -- proofs about M_Messaging (C18) *)
From PyDcop Require Import Base P_Base M_Messaging.
From Coq Require Import Permutation Sorted.

(* ---------- equality on messages ---------- *)
Lemma cmsg_eq_dec : forall a b : cmsg, {a = b} + {a <> b}.
Proof. decide equality; apply Z.eq_dec. Qed.

Lemma cmsg_eqb_eq a b : cmsg_eqb a b = true <-> a = b.
Proof.
  destruct a as [a1 a2 a3 a4], b as [b1 b2 b3 b4]. unfold cmsg_eqb. simpl.
  rewrite !andb_true_iff, !Z.eqb_eq. split.
  - intros [[[-> ->] ->] ->]. reflexivity.
  - intros H. inversion H. auto.
Qed.

Lemma cmsg_eta m : mkMsg (m_src m) (m_dest m) (m_id m) (m_type m) = m.
Proof. now destruct m. Qed.

(* ---------- the queue is sorted ---------- *)
Definition kle (a b : qent) : Prop := key_leb a b = true.

Ltac kb := unfold kle, key_leb in *;
  rewrite ?orb_true_iff, ?orb_false_iff, ?andb_true_iff, ?andb_false_iff,
          ?Z.ltb_lt, ?Z.ltb_ge, ?Z.eqb_eq, ?Z.eqb_neq, ?Z.leb_le, ?Z.leb_gt in *.

Lemma kle_trans a b c : kle a b -> kle b c -> kle a c.
Proof. kb. lia. Qed.

Lemma kle_total a b : key_leb a b = false -> kle b a.
Proof. kb. lia. Qed.

Lemma kle_type a b : kle a b -> q_type a <= q_type b.
Proof. kb. lia. Qed.

Lemma Forall_qinsert (P : qent -> Prop) x l : Forall P l -> P x -> Forall P (qinsert x l).
Proof.
  induction 1 as [|y r Hy Hr IH]; intros Hx; simpl; auto.
  destruct (key_leb y x); auto.
Qed.

Lemma qinsert_sorted x l : StronglySorted kle l -> StronglySorted kle (qinsert x l).
Proof.
  induction 1 as [|y r Hs IH Hy]; simpl.
  - constructor; constructor.
  - destruct (key_leb y x) eqn:E.
    + constructor; auto. apply Forall_qinsert; auto.
    + apply kle_total in E. constructor; [constructor; auto|].
      constructor; auto. eapply Forall_impl; [|exact Hy]. intros z Hz. eapply kle_trans; eauto.
Qed.

(* ---------- frame facts for post_msg / replay ---------- *)
Lemma post_queue_sorted st s d i t :
  StronglySorted kle (queue st) -> StronglySorted kle (queue (fst (post_msg st s d i t))).
Proof.
  intros H. unfold post_msg. destruct (shut st); simpl; auto.
  destruct (zlookup d (disc st)) as [ag|]; simpl; auto.
  destruct (ag =? me st); simpl; [now apply qinsert_sorted|].
  destruct (zlookup s (disc st)); simpl; auto.
Qed.

Lemma replay_queue_sorted c snap : forall st,
  StronglySorted kle (queue st) -> StronglySorted kle (queue (fst (replay c snap st))).
Proof.
  induction snap as [|f r IH]; intros st H; simpl; auto.
  destruct (negb (m_dest f =? c)); auto.
  destruct (post_msg st (m_src f) (m_dest f) (m_id f) (Some (m_type f))) as [st1 o] eqn:E.
  assert (H1 : StronglySorted kle (queue st1)).
  { replace st1 with (fst (post_msg st (m_src f) (m_dest f) (m_id f) (Some (m_type f)))) by now rewrite E.
    now apply post_queue_sorted. }
  destruct o; simpl; auto; apply IH; simpl; auto.
Qed.

Lemma sorted_tail (e : qent) r : StronglySorted kle (e :: r) -> StronglySorted kle r.
Proof. intros H. now inversion H. Qed.

Lemma drain_fuel_sorted n : forall st,
  StronglySorted kle (queue st) -> StronglySorted kle (queue (drain_fuel n st)).
Proof.
  induction n as [|n IH]; intros st H; simpl; auto.
  destruct (queue st) as [|e r] eqn:E; [now rewrite E|].
  apply IH. unfold next. rewrite E. simpl. eapply sorted_tail; eauto.
Qed.

Definition reg_disc (st : mstate) (c ag : Z) : mstate := set_disc st (dict_set Z.eqb c ag (disc st)).

Lemma register_cases st c ag :
  let st1 := reg_disc st c ag in
  let st2 := fst (replay c (failed st1) st1) in
  fst (register st c ag) = st1 \/ fst (register st c ag) = st2 \/
  fst (register st c ag) = set_subs st2 (del_sub c (subs st2)).
Proof.
  intros st1 st2. unfold register. cbv zeta.
  change (set_disc st (dict_set Z.eqb c ag (disc st))) with st1.
  match goal with |- context [if ?b then _ else _] => destruct b end; [|left; reflexivity].
  right. unfold st2. destruct (replay c (failed st1) st1) as [x ok]. simpl. destruct ok; auto.
Qed.

Lemma step_sorted st o :
  StronglySorted kle (queue st) -> StronglySorted kle (queue (fst (step st o))).
Proof.
  intros H. destruct o; simpl.
  - now apply post_queue_sorted.
  - pose proof (replay_queue_sorted c (failed (reg_disc st c ag)) (reg_disc st c ag) H) as H2.
    destruct (register_cases st c ag) as [E|[E|E]]; rewrite E; simpl; auto.
  - unfold unregister. destruct (zlookup c (disc st)); simpl; auto. destruct publish; simpl; auto.
  - unfold next. destruct (queue st) as [|e r] eqn:E; simpl; [now rewrite E|]. eapply sorted_tail; eauto.
  - auto.
  - unfold drain. now apply drain_fuel_sorted.
Qed.

Lemma exec_cons st o r : exec st (o :: r) = exec (fst (step st o)) r.
Proof.
  unfold exec. simpl. destruct (step st o) as [st1 x]. simpl.
  destruct (run st1 r). reflexivity.
Qed.

Lemma exec_sorted ops : forall st,
  StronglySorted kle (queue st) -> StronglySorted kle (queue (exec st ops)).
Proof.
  induction ops as [|o r IH]; intros st H; [exact H|].
  rewrite exec_cons. apply IH. now apply step_sorted.
Qed.

Lemma queue_sorted_by_priority_l a d ops : StronglySorted kle (queue (exec (init a d) ops)).
Proof. apply exec_sorted. simpl. constructor. Qed.

Lemma next_takes_least_l a d ops e r :
  let st := exec (init a d) ops in
  queue st = e :: r ->
  snd (next st) = OHandled (q_msg e) /\ queue (fst (next st)) = r /\
  Forall (fun y => kle e y /\ q_type e <= q_type y) r.
Proof.
  intros st E. pose proof (queue_sorted_by_priority_l a d ops) as H. fold st in H.
  unfold next. rewrite E in *. simpl. repeat split; auto.
  inversion H; subst. eapply Forall_impl; [|eassumption].
  intros y Hy. split; auto. now apply kle_type.
Qed.

(* ---------- exactly once: counting ---------- *)
Definition C (x : cmsg) (l : list cmsg) : nat := count_occ cmsg_eq_dec l x.

Definition Total (st : mstate) (x : cmsg) : nat :=
  (C x (map q_msg (queue st)) + C x (failed st) + C x (map snd (outbox st))
   + C x (handled st) + C x (lost st))%nat.

Arguments C : simpl never.

Lemma C_app x a b : C x (a ++ b) = (C x a + C x b)%nat.
Proof. apply count_occ_app. Qed.

Lemma C_cons x y l : C x (y :: l) = (C x [y] + C x l)%nat.
Proof. unfold C. simpl. destruct (cmsg_eq_dec y x); lia. Qed.

Lemma C_qinsert x e q : C x (map q_msg (qinsert e q)) = (C x [q_msg e] + C x (map q_msg q))%nat.
Proof.
  induction q as [|y r IH]; cbn [qinsert map].
  - unfold C. simpl. lia.
  - destruct (key_leb y e); cbn [map].
    + rewrite (C_cons x (q_msg y) (map q_msg (qinsert e r))), IH, (C_cons x (q_msg y) (map q_msg r)). lia.
    + apply C_cons.
Qed.

Lemma C_remove_first x f l :
  In f l -> C x l = (C x (remove_first f l) + C x [f])%nat.
Proof.
  induction l as [|y r IH]; simpl; [tauto|]. intros Hin.
  destruct (cmsg_eqb f y) eqn:E.
  - apply cmsg_eqb_eq in E. subst y. unfold C. simpl.
    destruct (cmsg_eq_dec f x); lia.
  - destruct Hin as [->|Hin]; [rewrite (proj2 (cmsg_eqb_eq f f) eq_refl) in E; discriminate|].
    specialize (IH Hin). unfold C in *. simpl in *.
    destruct (cmsg_eq_dec y x), (cmsg_eq_dec f x); lia.
Qed.

Lemma post_total st s d i t x :
  Total (fst (post_msg st s d i t)) x = (Total st x + C x [mkMsg s d i (with_type t)])%nat.
Proof.
  unfold post_msg. destruct (shut st); simpl.
  - unfold Total; simpl. rewrite C_app. lia.
  - destruct (zlookup d (disc st)) as [ag|]; simpl.
    + destruct (ag =? me st); simpl.
      * unfold Total; simpl. rewrite C_qinsert. simpl. lia.
      * destruct (zlookup s (disc st)); simpl; unfold Total; simpl.
        -- rewrite map_app, C_app. simpl. lia.
        -- rewrite C_app. lia.
    + unfold Total; simpl. rewrite C_app. lia.
Qed.

Lemma post_failed_incl st s d i t x : (C x (failed st) <= C x (failed (fst (post_msg st s d i t))))%nat.
Proof.
  unfold post_msg. destruct (shut st); simpl; auto.
  destruct (zlookup d (disc st)) as [ag|]; simpl.
  - destruct (ag =? me st); simpl; auto. destruct (zlookup s (disc st)); simpl; auto.
  - rewrite C_app. lia.
Qed.

Lemma C_pos_In x l : (1 <= C x l)%nat -> In x l.
Proof. intros H. apply (count_occ_In cmsg_eq_dec). unfold C in H. lia. Qed.

Lemma replay_total c x snap : forall st,
  (forall y, (C y snap <= C y (failed st))%nat) ->
  Total (fst (replay c snap st)) x = Total st x.
Proof.
  induction snap as [|f r IH]; intros st Hsub; simpl; auto.
  assert (Hr : forall y, (C y r <= C y (failed st))%nat).
  { intros y. specialize (Hsub y). unfold C in *. simpl in Hsub. destruct (cmsg_eq_dec f y); lia. }
  destruct (negb (m_dest f =? c)); [now apply IH|].
  pose proof (post_total st (m_src f) (m_dest f) (m_id f) (Some (m_type f)) x) as HT.
  pose proof (fun y => post_failed_incl st (m_src f) (m_dest f) (m_id f) (Some (m_type f)) y) as HF.
  destruct (post_msg st (m_src f) (m_dest f) (m_id f) (Some (m_type f))) as [st1 o].
  simpl in HT, HF. rewrite cmsg_eta in HT.
  assert (Hin : In f (failed st1)).
  { apply C_pos_In. specialize (Hsub f). specialize (HF f). unfold C in *. simpl in Hsub.
    destruct (cmsg_eq_dec f f); [lia|congruence]. }
  assert (Hgo : Total (fst (replay c r (set_failed st1 (remove_first f (failed st1))))) x = Total st x).
  { rewrite IH.
    - unfold Total in *. simpl. rewrite (C_remove_first x f _ Hin) in HT. lia.
    - intros y. simpl. specialize (Hsub y). specialize (HF y).
      rewrite (C_remove_first y f _ Hin) in HF. unfold C in *. simpl in *.
      destruct (cmsg_eq_dec f y); lia. }
  destruct o; simpl; auto.
Qed.

Lemma register_total st c ag x : Total (fst (register st c ag)) x = Total st x.
Proof.
  pose proof (replay_total c x (failed (reg_disc st c ag)) (reg_disc st c ag) (fun y => le_n _)) as H.
  destruct (register_cases st c ag) as [E|[E|E]]; rewrite E; auto.
Qed.

Lemma next_total st x : Total (fst (next st)) x = Total st x.
Proof.
  unfold next. destruct (queue st) as [|e r] eqn:E; simpl; auto.
  unfold Total; simpl. rewrite E. simpl. rewrite C_app. unfold C. simpl.
  destruct (cmsg_eq_dec (q_msg e) x); lia.
Qed.

Lemma drain_fuel_total n x : forall st, Total (drain_fuel n st) x = Total st x.
Proof.
  induction n as [|n IH]; intros st; simpl; auto.
  destruct (queue st); auto. rewrite IH. apply next_total.
Qed.

Definition posted_msgs (ops : list op) : list cmsg :=
  flat_map (fun o => match o with Post s d i t => [mkMsg s d i (with_type t)] | _ => [] end) ops.

Lemma step_total st o x :
  Total (fst (step st o)) x = (Total st x + C x (posted_msgs [o]))%nat.
Proof.
  destruct o; simpl; rewrite ?Nat.add_0_r.
  - rewrite post_total. reflexivity.
  - apply register_total.
  - unfold unregister. destruct (zlookup c (disc st)); simpl; auto. destruct publish; reflexivity.
  - apply next_total.
  - reflexivity.
  - apply drain_fuel_total.
Qed.

Lemma exec_total ops x : forall st,
  Total (exec st ops) x = (Total st x + C x (posted_msgs ops))%nat.
Proof.
  induction ops as [|o r IH]; intros st.
  - unfold exec, C. simpl. lia.
  - rewrite exec_cons, IH, step_total.
    assert (E : posted_msgs (o :: r) = posted_msgs [o] ++ posted_msgs r).
    { unfold posted_msgs. simpl. now rewrite app_nil_r. }
    rewrite E, C_app. lia.
Qed.

Definition places (st : mstate) : list cmsg :=
  map q_msg (queue st) ++ failed st ++ map snd (outbox st) ++ handled st ++ lost st.

Lemma delivered_exactly_once_l a d ops :
  Permutation (posted_msgs ops) (places (exec (init a d) ops)).
Proof.
  apply (Permutation_count_occ cmsg_eq_dec). intros x.
  pose proof (exec_total ops x (init a d)) as H. unfold Total in H. simpl in H.
  unfold places. rewrite !count_occ_app. unfold C in H. lia.
Qed.

(* ---------- clean shutdown ---------- *)
Lemma drain_fuel_spec n : forall st,
  (List.length (queue st) <= n)%nat ->
  queue (drain_fuel n st) = [] /\
  handled (drain_fuel n st) = handled st ++ map q_msg (queue st) /\
  shut (drain_fuel n st) = shut st.
Proof.
  induction n as [|n IH]; intros st Hn; simpl.
  - destruct (queue st); simpl in *; [|lia]. rewrite app_nil_r. auto.
  - destruct (queue st) as [|e r] eqn:E; simpl.
    + rewrite E. simpl. rewrite app_nil_r. auto.
    + unfold next. rewrite E. simpl.
      destruct (IH (set_handled (set_queue st r (cnt st)) (handled st ++ [q_msg e]))) as (H1 & H2 & H3).
      { simpl in *. lia. }
      simpl in *. rewrite H1, H2, H3. rewrite <- app_assoc. auto.
Qed.

Lemma drain_spec st :
  queue (drain st) = [] /\ handled (drain st) = handled st ++ map q_msg (queue st) /\
  shut (drain st) = shut st.
Proof. unfold drain. apply drain_fuel_spec. lia. Qed.

Definition pending_view (st : mstate) : list cmsg := handled st ++ map q_msg (queue st).

Lemma post_shut st s d i t :
  shut st = true ->
  let st' := fst (post_msg st s d i t) in
  shut st' = true /\ queue st' = queue st /\ handled st' = handled st.
Proof. intros H. unfold post_msg. rewrite H. simpl. auto. Qed.

Lemma replay_shut c snap : forall st,
  shut st = true ->
  let st' := fst (replay c snap st) in
  shut st' = true /\ queue st' = queue st /\ handled st' = handled st.
Proof.
  induction snap as [|f r IH]; intros st H; simpl; auto.
  destruct (negb (m_dest f =? c)); [now apply IH|].
  unfold post_msg. rewrite H. simpl.
  destruct (IH (set_failed (set_lost st (lost st ++ [mkMsg (m_src f) (m_dest f) (m_id f) (m_type f)]))
                  (remove_first f (failed st)))) as (H1 & H2 & H3); simpl; auto.
Qed.

Lemma step_shut st o :
  shut st = true ->
  shut (fst (step st o)) = true /\ pending_view (fst (step st o)) = pending_view st.
Proof.
  intros H. unfold pending_view. destruct o; simpl.
  - destruct (post_shut st src dest id ty H) as (H1 & H2 & H3). now rewrite H1, H2, H3.
  - pose proof (replay_shut c (failed (reg_disc st c ag)) (reg_disc st c ag) H) as HR.
    pose proof (register_cases st c ag) as HC. cbv zeta in HR, HC.
    set (st2 := fst (replay c (failed (reg_disc st c ag)) (reg_disc st c ag))) in *.
    destruct HR as (H1 & H2 & H3).
    change (queue (reg_disc st c ag)) with (queue st) in H2.
    change (handled (reg_disc st c ag)) with (handled st) in H3.
    destruct HC as [E|[E|E]]; rewrite E.
    + split; [exact H|reflexivity].
    + now rewrite H1, H2, H3.
    + change (shut st2 = true /\ handled st2 ++ map q_msg (queue st2) = handled st ++ map q_msg (queue st)).
      now rewrite H1, H2, H3.
  - unfold unregister. destruct (zlookup c (disc st)); simpl; auto. destruct publish; simpl; auto.
  - unfold next. destruct (queue st) as [|e r] eqn:E; simpl; [rewrite E; auto|].
    rewrite <- app_assoc. auto.
  - auto.
  - destruct (drain_spec st) as (H1 & H2 & H3). rewrite H1, H2, H3. simpl. now rewrite app_nil_r.
Qed.

Lemma exec_shut ops : forall st,
  shut st = true ->
  shut (exec st ops) = true /\ pending_view (exec st ops) = pending_view st.
Proof.
  induction ops as [|o r IH]; intros st H; [auto|].
  rewrite exec_cons. destruct (step_shut st o H) as (H1 & H2).
  destruct (IH _ H1) as (H3 & H4). split; auto. congruence.
Qed.

Lemma exec_app st a b : exec st (a ++ b) = exec (exec st a) b.
Proof.
  revert st. induction a as [|o r IH]; intros st; [reflexivity|].
  simpl. rewrite !exec_cons. apply IH.
Qed.

(* after clean_shutdown, whatever else happens, the loop's drain leaves an empty queue and has
   handled exactly the messages that were queued at shutdown time, in queue order *)
Lemma shutdown_drains_l st ops :
  let st0 := fst (step st Shutdown) in
  let st1 := exec st0 (ops ++ [Drain]) in
  queue st1 = [] /\ handled st1 = handled st ++ map q_msg (queue st).
Proof.
  intros st0 st1. unfold st1. rewrite exec_app.
  assert (H0 : shut st0 = true) by reflexivity.
  destruct (exec_shut ops st0 H0) as (H1 & H2).
  change (exec (exec st0 ops) [Drain]) with (drain (exec st0 ops)).
  destruct (drain_spec (exec st0 ops)) as (D1 & D2 & D3).
  split; auto. rewrite D2. exact H2.
Qed.

(* ---------- real threads: the queue discipline on the serialised put/get log ---------- *)
Fixpoint qafter (q : list qent) (evs : list qevent) : list qent :=
  match evs with
  | [] => q
  | QPut e :: r => qafter (qinsert e q) r
  | QGet :: r => match q with [] => qafter q r | _ :: q' => qafter q' r end
  end.

Lemma qafter_sorted evs : forall q, StronglySorted kle q -> StronglySorted kle (qafter q evs).
Proof.
  induction evs as [|[e|] r IH]; intros q H; simpl; auto.
  - apply IH. now apply qinsert_sorted.
  - destruct q as [|x q']; auto. apply IH. eapply sorted_tail; eauto.
Qed.

(* every Get returns an entry that is least among those present *)
Lemma threads_queue_discipline_l evs1 evs2 e q' :
  qafter [] evs1 = e :: q' ->
  qrun (qafter [] evs1) (QGet :: evs2) = q_msg e :: qrun q' evs2 /\
  Forall (fun y => kle e y /\ q_type e <= q_type y) q'.
Proof.
  intros E. rewrite E. simpl. split; auto.
  pose proof (qafter_sorted evs1 [] (SSorted_nil _)) as H. rewrite E in H.
  inversion H; subst. eapply Forall_impl; [|eassumption].
  intros y Hy. split; auto. now apply kle_type.
Qed.

(* ---------- the counter race ---------- *)
Lemma counter_race_possible_l :
  exists sched c,
    program_order true sched = true /\ program_order false sched = true /\
    r_drawn (micro_run sched) = [(true, c); (false, c)].
Proof.
  exists [MLoad true; MStore true; MLoad false; MStore false; MRead true; MRead false], 2.
  vm_compute. repeat split; reflexivity.
Qed.

(* ====================================================================== *)
(* FIFO per destination and type, including deferred messages              *)
(* ====================================================================== *)
Notation SS := (StronglySorted Z.lt).

Lemma ss_app_iff a b :
  SS (a ++ b) <-> SS a /\ SS b /\ (forall x y, In x a -> In y b -> x < y).
Proof.
  induction a as [|h a IH]; simpl.
  - split; [intros H; repeat split; auto; [constructor | intros ? ? []] | tauto].
  - split.
    + intros H. inversion H as [|? ? Hs Hf]; subst. apply IH in Hs as (Ha & Hb & Hab).
      rewrite Forall_app in Hf. destruct Hf as [Hfa Hfb]. repeat split; auto.
      * constructor; auto.
      * intros x y [<-|Hx] Hy; auto. rewrite Forall_forall in Hfb. auto.
    + intros (Ha & Hb & Hab). inversion Ha as [|? ? Hs Hf]; subst. constructor.
      * apply IH. repeat split; auto.
      * apply Forall_app. split; auto. apply Forall_forall. intros y Hy. apply Hab; auto.
Qed.

Lemma ss_single x : SS [x].
Proof. constructor; constructor. Qed.

Lemma ss_bound l lo lo' : SS (l ++ [lo]) -> lo <= lo' -> SS (l ++ [lo']).
Proof.
  rewrite !ss_app_iff. intros (H1 & _ & H3) Hle. repeat split; auto using ss_single.
  intros x y Hx [<-|[]]. specialize (H3 x lo Hx (or_introl eq_refl)). lia.
Qed.

Lemma ss_snoc l lo i : SS (l ++ [lo]) -> lo <= i -> SS ((l ++ [i]) ++ [i + 1]).
Proof.
  rewrite !ss_app_iff. intros (H1 & _ & H3) Hle. repeat split; auto using ss_single.
  - intros x y Hx [<-|[]]. specialize (H3 x lo Hx (or_introl eq_refl)). lia.
  - intros x y Hx [<-|[]]. apply in_app_iff in Hx as [Hx|[<-|[]]]; [|lia].
    specialize (H3 x lo Hx (or_introl eq_refl)). lia.
Qed.

Lemma ss_remove a x b : SS (a ++ x :: b) -> SS (a ++ b).
Proof.
  rewrite !ss_app_iff. intros (H1 & H2 & H3). inversion H2; subst. repeat split; auto.
  intros u v Hu Hv. apply H3; simpl; auto.
Qed.

Definition P (c t : Z) (m : cmsg) : bool := (m_dest m =? c) && (m_type m =? t).
Definition ids (l : list cmsg) : list Z := map m_id l.
Definition hq (c t : Z) (st : mstate) : list Z :=
  ids (filter (P c t) (handled st)) ++ ids (filter (P c t) (map q_msg (queue st))).
Definition fd (c t : Z) (st : mstate) : list Z := ids (filter (P c t) (failed st)).

Lemma P_true c t m : P c t m = true <-> m_dest m = c /\ m_type m = t.
Proof. unfold P. now rewrite andb_true_iff, !Z.eqb_eq. Qed.

Lemma ids_app a b : ids (a ++ b) = ids a ++ ids b.
Proof. apply map_app. Qed.

Definition qok (n : Z) (e : qent) : Prop := q_cnt e <= n /\ q_type e = m_type (q_msg e).

Lemma filter_qinsert_other (f : cmsg -> bool) x q :
  f (q_msg x) = false -> filter f (map q_msg (qinsert x q)) = filter f (map q_msg q).
Proof.
  intros Hx. induction q as [|y r IH]; simpl.
  - now rewrite Hx.
  - destruct (key_leb y x); simpl.
    + now rewrite IH.
    + now rewrite Hx.
Qed.

Lemma filter_qinsert_same c t x q n :
  P c t (q_msg x) = true -> q_type x = m_type (q_msg x) -> q_cnt x = n + 1 ->
  StronglySorted kle q -> Forall (qok n) q ->
  filter (P c t) (map q_msg (qinsert x q)) = filter (P c t) (map q_msg q) ++ [q_msg x].
Proof.
  intros Hx Hc Hn Hs Hq. apply P_true in Hx as [Hd Ht].
  induction q as [|y r IH]; simpl.
  - assert (P c t (q_msg x) = true) as -> by (apply P_true; auto). reflexivity.
  - inversion Hs as [|? ? Hs' Hy]; subst. inversion Hq as [|? ? [Hy1 Hy2] Hq']; subst.
    destruct (key_leb y x) eqn:E; simpl.
    + rewrite IH; auto. destruct (P (m_dest (q_msg x)) (m_type (q_msg x)) (q_msg y)); reflexivity.
    + assert (P (m_dest (q_msg x)) (m_type (q_msg x)) (q_msg x) = true) as -> by (apply P_true; auto).
      assert (Hty : q_type x < q_type y).
      { unfold key_leb in E. rewrite orb_false_iff, andb_false_iff, Z.ltb_ge, Z.eqb_neq, Z.leb_gt in E. lia. }
      assert (Hnone : forall z, In z (y :: r) -> P (m_dest (q_msg x)) (m_type (q_msg x)) (q_msg z) = false).
      { intros z Hz. destruct (P (m_dest (q_msg x)) (m_type (q_msg x)) (q_msg z)) eqn:Ez; auto.
        apply P_true in Ez as [_ Ez]. exfalso.
        assert (Hz2 : q_type z = m_type (q_msg z)).
        { destruct Hz as [<-|Hz]; auto. rewrite Forall_forall in Hq'. apply Hq' in Hz. apply Hz. }
        assert (q_type y <= q_type z).
        { destruct Hz as [<-|Hz]; [lia|]. rewrite Forall_forall in Hy. apply kle_type. auto. }
        lia. }
      assert (Hnil : filter (P (m_dest (q_msg x)) (m_type (q_msg x))) (map q_msg (y :: r)) = []).
      { clear - Hnone. induction (y :: r) as [|z l IHl]; simpl; auto.
        rewrite Hnone by (simpl; auto). apply IHl. intros w Hw. apply Hnone. simpl; auto. }
      simpl in Hnil. rewrite Hnil. reflexivity.
Qed.

Record FI (st : mstate) (lo : Z) : Prop := {
  I1 : forall c t, SS ((hq c t st ++ fd c t st) ++ [lo]);
  I2 : forall f, In f (failed st) ->
         zlookup (m_dest f) (disc st) = None /\ zmem (m_dest f) (subs st) = true;
  I3 : StronglySorted kle (queue st) /\ Forall (qok (cnt st)) (queue st) }.

Lemma qok_mono n n' e : n <= n' -> qok n e -> qok n' e.
Proof. unfold qok. intros ? [? ?]. split; auto. lia. Qed.

Lemma enqueue_I3 st m :
  StronglySorted kle (queue st) /\ Forall (qok (cnt st)) (queue st) ->
  StronglySorted kle (queue (enqueue st m)) /\ Forall (qok (cnt (enqueue st m))) (queue (enqueue st m)).
Proof.
  intros [Hs Hq]. simpl. split; [now apply qinsert_sorted|].
  apply Forall_qinsert.
  - eapply Forall_impl; [|exact Hq]. intros e. apply qok_mono. lia.
  - split; simpl; auto. lia.
Qed.

Lemma enqueue_hq st m c t :
  StronglySorted kle (queue st) /\ Forall (qok (cnt st)) (queue st) ->
  hq c t (enqueue st m) = if P c t m then hq c t st ++ [m_id m] else hq c t st.
Proof.
  intros [Hs Hq]. unfold hq. simpl. destruct (P c t m) eqn:E.
  - rewrite (filter_qinsert_same c t _ _ (cnt st)); auto.
    rewrite ids_app. simpl. now rewrite app_assoc.
  - rewrite filter_qinsert_other; auto.
Qed.

Lemma zmem_add_sub x d l : zmem x l = true -> zmem x (add_sub d l) = true.
Proof.
  unfold add_sub. destruct (zmem d l); auto. intros H. apply zmem_In. apply in_or_app. left.
  now apply zmem_In.
Qed.

Lemma zmem_add_sub_same d l : zmem d (add_sub d l) = true.
Proof.
  unfold add_sub. destruct (zmem d l) eqn:E; auto. apply zmem_In. apply in_or_app. right. simpl; auto.
Qed.

Lemma zmem_del_sub x c l : x <> c -> zmem x l = true -> zmem x (del_sub c l) = true.
Proof.
  intros Hne H. apply zmem_In. apply zmem_In in H. unfold del_sub. apply filter_In. split; auto.
  apply negb_true_iff. now apply Z.eqb_neq.
Qed.

Lemma zlookup_set_other (k c v : Z) l : k <> c -> zlookup k (dict_set Z.eqb c v l) = zlookup k l.
Proof. intros H. unfold zlookup. apply lookup_dict_set_other; auto. apply Z.eqb_eq. Qed.

Lemma zlookup_set_same (c v : Z) l : zlookup c (dict_set Z.eqb c v l) = Some v.
Proof. unfold zlookup. apply lookup_dict_set_same. apply Z.eqb_eq. Qed.

Lemma zlookup_remove_none (k c : Z) (l : list (Z * Z)) :
  zlookup k l = None -> zlookup k (dict_remove Z.eqb c l) = None.
Proof.
  unfold zlookup. induction l as [|[k' v] r IH]; simpl; auto.
  destruct (k =? k') eqn:E; [discriminate|]. intros H.
  destruct (c =? k'); simpl; auto. now rewrite E, IH.
Qed.

Lemma fd_none c t st :
  (forall f, In f (failed st) -> m_dest f <> c) -> fd c t st = [].
Proof.
  unfold fd. intros H. induction (failed st) as [|f r IH]; simpl; auto.
  destruct (P c t f) eqn:E.
  - apply P_true in E as [E _]. exfalso. apply (H f); simpl; auto.
  - apply IH. intros g Hg. apply H. simpl; auto.
Qed.

(* --- a post --- *)
Lemma post_FI st s d i t lo :
  FI st lo -> lo <= i -> FI (fst (post_msg st s d i t)) (i + 1).
Proof.
  intros [H1 H2 H3] Hle. unfold post_msg.
  assert (Hb : forall c t0, SS ((hq c t0 st ++ fd c t0 st) ++ [i + 1])).
  { intros c t0. eapply ss_bound; [apply H1|lia]. }
  destruct (shut st); simpl; [constructor; auto|].
  destruct (zlookup d (disc st)) as [ag|] eqn:Ed; simpl.
  - destruct (ag =? me st); simpl.
    + set (m := mkMsg s d i (with_type t)). constructor.
      * intros c t0. rewrite (enqueue_hq st m c t0 H3).
        change (fd c t0 (enqueue st m)) with (fd c t0 st).
        destruct (P c t0 m) eqn:E; auto.
        apply P_true in E as [E1 E2]. simpl in E1. subst c.
        assert (Hf : fd d t0 st = []).
        { apply fd_none. intros f Hf Hd. apply H2 in Hf as [Hf _]. rewrite Hd in Hf. congruence. }
        rewrite Hf, app_nil_r. specialize (H1 d t0). rewrite Hf, app_nil_r in H1.
        change (m_id m) with i. now apply (ss_snoc _ lo).
      * exact H2.
      * now apply enqueue_I3.
    + destruct (zlookup s (disc st)); simpl; constructor; auto.
  - set (m := mkMsg s d i (with_type t)). constructor; simpl.
    + intros c t0. unfold hq, fd. simpl. rewrite filter_app, ids_app. simpl.
      destruct (P c t0 m) eqn:E; simpl.
      * rewrite app_assoc. apply (ss_snoc _ lo); auto. apply H1.
      * rewrite app_nil_r. apply Hb.
    + intros f Hf. apply in_app_iff in Hf as [Hf|[<-|[]]].
      * destruct (H2 f Hf) as [Ha Hb2]. split; auto. now apply zmem_add_sub.
      * simpl. split; auto. apply zmem_add_sub_same.
    + exact H3.
Qed.

(* --- the agent loop pops one message --- *)
Lemma next_hq st c t : hq c t (fst (next st)) = hq c t st.
Proof.
  unfold next. destruct (queue st) as [|e r] eqn:E; simpl; auto.
  unfold hq. simpl. rewrite E. simpl. rewrite filter_app, ids_app. simpl.
  destruct (P c t (q_msg e)); simpl; rewrite <- app_assoc; reflexivity.
Qed.

Lemma next_FI st lo : FI st lo -> FI (fst (next st)) lo.
Proof.
  intros [H1 H2 H3]. constructor.
  - intros c t. rewrite next_hq.
    replace (fd c t (fst (next st))) with (fd c t st); [apply H1|].
    unfold next. destruct (queue st); reflexivity.
  - unfold next. destruct (queue st); simpl; auto.
  - destruct H3 as [Hs Hq]. unfold next. destruct (queue st) as [|e r] eqn:E.
    + simpl. rewrite E. split; constructor.
    + simpl. inversion Hs; subst. inversion Hq; subst. auto.
Qed.

Lemma drain_fuel_FI n : forall st lo, FI st lo -> FI (drain_fuel n st) lo.
Proof.
  induction n as [|n IH]; intros st lo H; simpl; auto.
  destruct (queue st) eqn:E; auto. apply IH. now apply next_FI.
Qed.

(* --- the registration replay --- *)
Record RI (c : Z) (st : mstate) (snap kept : list cmsg) (lo : Z) : Prop := {
  R0 : failed st = kept ++ snap;
  R1 : Forall (fun f => m_dest f <> c) kept;
  R2 : forall c' t, SS ((hq c' t st ++ fd c' t st) ++ [lo]);
  R3 : forall f, In f (failed st) -> m_dest f <> c ->
         zlookup (m_dest f) (disc st) = None /\ zmem (m_dest f) (subs st) = true;
  R4 : StronglySorted kle (queue st) /\ Forall (qok (cnt st)) (queue st);
  R5 : exists ag, zlookup c (disc st) = Some ag }.

Lemma remove_first_kept f kept r :
  Forall (fun g => m_dest g <> m_dest f) kept -> remove_first f (kept ++ f :: r) = kept ++ r.
Proof.
  induction 1 as [|g kept Hg Hk IH]; simpl.
  - now rewrite (proj2 (cmsg_eqb_eq f f) eq_refl).
  - destruct (cmsg_eqb f g) eqn:E; [apply cmsg_eqb_eq in E; subst; congruence|]. now rewrite IH.
Qed.

Lemma fd_kept_step c t kept f r :
  Forall (fun g => m_dest g <> m_dest f) kept ->
  ids (filter (P c t) (kept ++ f :: r)) =
  if P c t f then m_id f :: ids (filter (P c t) (kept ++ r)) else ids (filter (P c t) (kept ++ r)).
Proof.
  intros Hk. rewrite !filter_app, !ids_app. simpl.
  destruct (P c t f) eqn:E; auto. simpl.
  assert (Hn : filter (P c t) kept = []).
  { apply P_true in E as [E _]. clear - Hk E. induction Hk as [|g kept Hg Hk IH]; simpl; auto.
    destruct (P c t g) eqn:Eg; auto. apply P_true in Eg as [Eg _]. congruence. }
  rewrite Hn. reflexivity.
Qed.

Lemma replay_RI c snap : forall st kept lo st',
  RI c st snap kept lo -> replay c snap st = (st', true) ->
  RI c st' [] (kept ++ filter (fun f => negb (m_dest f =? c)) snap) lo.
Proof.
  induction snap as [|f r IH]; intros st kept lo st' HR Hrun; simpl in *.
  - inversion Hrun; subst. now rewrite app_nil_r.
  - destruct (negb (m_dest f =? c)) eqn:Ec.
    + (* kept *)
      replace (kept ++ f :: filter (fun f0 => negb (m_dest f0 =? c)) r)
        with ((kept ++ [f]) ++ filter (fun f0 => negb (m_dest f0 =? c)) r)
        by (now rewrite <- app_assoc).
      apply (IH st (kept ++ [f]) lo st'); auto.
      destruct HR as [A0 A1 A2 A3 A4 A5]. constructor; auto.
      * now rewrite <- app_assoc.
      * apply Forall_app. split; auto. constructor; auto.
        apply negb_true_iff, Z.eqb_neq in Ec. auto.
    + (* replayed *) apply negb_false_iff, Z.eqb_eq in Ec.
      destruct HR as [A0 A1 A2 A3 A4 [ag A5]].
      assert (Hk : Forall (fun g => m_dest g <> m_dest f) kept) by (now rewrite Ec).
      assert (A5' : zlookup (m_dest f) (disc st) = Some ag) by (now rewrite Ec).
      unfold post_msg in Hrun.
      destruct (shut st) eqn:Es.
      * (* dropped *)
        simpl in Hrun. apply (IH _ kept lo st') in Hrun; auto.
        constructor; simpl; auto.
        -- rewrite A0. now apply remove_first_kept.
        -- intros c' t. specialize (A2 c' t). unfold fd in *. simpl.
           change (hq c' t (set_failed (set_lost st _) _)) with (hq c' t st).
           rewrite A0, remove_first_kept by auto. rewrite A0, fd_kept_step in A2 by auto.
           destruct (P c' t f); auto. rewrite <- app_assoc in A2. simpl in A2.
           rewrite <- app_assoc. eapply ss_remove. exact A2.
        -- intros g Hg. apply A3. rewrite A0 in *. rewrite remove_first_kept in Hg by auto.
           apply in_app_iff in Hg as [Hg|Hg]; apply in_or_app; simpl; auto.
        -- eauto.
      * rewrite A5' in Hrun.
        destruct (ag =? me st) eqn:Ea.
        -- (* enqueued *)
           simpl in Hrun. rewrite cmsg_eta in Hrun.
           apply (IH _ kept lo st') in Hrun; auto.
           constructor; simpl; auto.
           ++ rewrite A0. now apply remove_first_kept.
           ++ intros c' t. specialize (A2 c' t). unfold fd in *. simpl.
              change (hq c' t (set_failed (enqueue st f) (remove_first f (failed st))))
                with (hq c' t (enqueue st f)).
              rewrite (enqueue_hq st f c' t A4).
              rewrite A0, remove_first_kept by auto. rewrite A0, fd_kept_step in A2 by auto.
              destruct (P c' t f); auto.
              rewrite <- !app_assoc. simpl. rewrite <- app_assoc in A2. simpl in A2. exact A2.
           ++ intros g Hg. apply A3. rewrite A0 in *. rewrite remove_first_kept in Hg by auto.
              apply in_app_iff in Hg as [Hg|Hg]; apply in_or_app; simpl; auto.
           ++ now apply enqueue_I3.
           ++ eauto.
        -- destruct (zlookup (m_src f) (disc st)) eqn:Esrc; [|discriminate].
           (* sent to the remote agent *)
           simpl in Hrun. apply (IH _ kept lo st') in Hrun; auto.
           constructor; simpl; auto.
           ++ rewrite A0. now apply remove_first_kept.
           ++ intros c' t. specialize (A2 c' t). unfold fd in *. simpl.
              change (hq c' t (set_failed (set_outbox st _) _)) with (hq c' t st).
              rewrite A0, remove_first_kept by auto. rewrite A0, fd_kept_step in A2 by auto.
              destruct (P c' t f); auto. rewrite <- app_assoc in A2. simpl in A2.
              rewrite <- app_assoc. eapply ss_remove. exact A2.
           ++ intros g Hg. apply A3. rewrite A0 in *. rewrite remove_first_kept in Hg by auto.
              apply in_app_iff in Hg as [Hg|Hg]; apply in_or_app; simpl; auto.
           ++ eauto.
Qed.

(* --- registration --- *)
Lemma register_FI st c ag lo :
  FI st lo -> snd (register st c ag) <> ORaised ->
  FI (fst (register st c ag)) lo /\
  (forall f, In f (failed (fst (register st c ag))) -> m_dest f <> c).
Proof.
  intros [H1 H2 H3] Hnr. unfold register in *. cbv zeta in *.
  change (set_disc st (dict_set Z.eqb c ag (disc st))) with (reg_disc st c ag) in *.
  set (st1 := reg_disc st c ag) in *.
  assert (Hother : forall f, In f (failed st) -> m_dest f <> c ->
            zlookup (m_dest f) (disc st1) = None /\ zmem (m_dest f) (subs st1) = true).
  { intros f Hf Hne. destruct (H2 f Hf) as [Ha Hb]. simpl. split; auto.
    now rewrite zlookup_set_other. }
  destruct (negb (option_eqb Z.eqb (zlookup c (disc st)) (Some ag)) && zmem c (subs st1)) eqn:Econd.
  - (* replay *)
    destruct (replay c (failed st1) st1) as [st2 ok] eqn:Er.
    destruct ok; [|simpl in Hnr; congruence]. simpl.
    assert (HRI : RI c st1 (failed st1) [] lo).
    { constructor.
      - reflexivity.
      - constructor.
      - intros c' t. apply H1.
      - intros f Hf Hne. apply (Hother f Hf Hne).
      - exact H3.
      - exists ag. apply zlookup_set_same. }
    pose proof (replay_RI c (failed st1) st1 [] lo st2 HRI Er) as [B0 B1 B2 B3 B4 B5].
    simpl in B0, B1. rewrite app_nil_r in B0.
    assert (Hdest : forall f, In f (failed st2) -> m_dest f <> c).
    { intros f Hf. rewrite B0 in Hf. rewrite Forall_forall in B1. auto. }
    split; [constructor; simpl; auto|exact Hdest].
    intros f Hf. pose proof (Hdest f Hf) as Hne. destruct (B3 f Hf Hne) as [Ha Hb]. split; auto.
    now apply zmem_del_sub.
  - (* no callback fires: nothing was deferred for c *)
    simpl.
    assert (Hdest : forall f, In f (failed st) -> m_dest f <> c).
    { intros f Hf Hd. destruct (H2 f Hf) as [Ha Hb]. rewrite Hd in Ha, Hb.
      simpl in Econd. rewrite Ha, Hb in Econd. simpl in Econd. discriminate. }
    split; [constructor; simpl; auto; intros f Hf; apply (Hother f Hf); auto|exact Hdest].
Qed.

Lemma unregister_FI st c p lo : FI st lo -> FI (unregister st c p) lo.
Proof.
  intros [H1 H2 H3]. unfold unregister. destruct (zlookup c (disc st)) eqn:Ec; [|constructor; auto].
  assert (Hne : forall f, In f (failed st) -> m_dest f <> c).
  { intros f Hf Hd. destruct (H2 f Hf) as [Ha _]. rewrite Hd in Ha. congruence. }
  destruct p; constructor; simpl; auto; intros f Hf; destruct (H2 f Hf) as [Ha Hb]; split;
    auto using zlookup_remove_none.
  apply zmem_del_sub; auto.
Qed.

Definition nlo (lo : Z) (o : op) : Z := match o with Post _ _ i _ => i + 1 | _ => lo end.

(* the message ids (payloads) of the posts increase along the history: id = posting index *)
Fixpoint ids_ok (lo : Z) (ops : list op) : Prop :=
  match ops with
  | [] => True
  | o :: r => match o with Post _ _ i _ => lo <= i | _ => True end /\ ids_ok (nlo lo o) r
  end.

Definition noraise (l : list outcome) : bool :=
  forallb (fun x => match x with ORaised => false | _ => true end) l.

Lemma step_FI st o lo :
  FI st lo -> match o with Post _ _ i _ => lo <= i | _ => True end -> snd (step st o) <> ORaised ->
  FI (fst (step st o)) (nlo lo o).
Proof.
  intros H Hid Hnr. destruct o as [s0 d0 i0 t0|c ag|c p| | |]; simpl in *.
  - apply (post_FI st s0 d0 i0 t0 lo H Hid).
  - apply (register_FI st c ag lo H Hnr).
  - now apply unregister_FI.
  - now apply next_FI.
  - destruct H as [H1 H2 H3]. constructor; auto.
  - unfold drain. now apply drain_fuel_FI.
Qed.

Lemma run_cons st o r :
  run st (o :: r) = (fst (run (fst (step st o)) r), snd (step st o) :: snd (run (fst (step st o)) r)).
Proof. simpl. destruct (step st o) as [st1 x]. simpl. destruct (run st1 r). reflexivity. Qed.

Lemma exec_FI ops : forall st lo,
  FI st lo -> ids_ok lo ops -> noraise (snd (run st ops)) = true -> exists lo', FI (exec st ops) lo'.
Proof.
  induction ops as [|o r IH]; intros st lo H Hid Hnr.
  - exists lo. exact H.
  - rewrite exec_cons. rewrite run_cons in Hnr. simpl in Hnr, Hid.
    apply andb_true_iff in Hnr as [Hn1 Hn2]. destruct Hid as [Hi1 Hi2].
    apply (IH _ (nlo lo o)); auto. apply step_FI; auto.
    intros E. rewrite E in Hn1. discriminate.
Qed.

Lemma init_FI a d lo : FI (init a d) lo.
Proof.
  constructor; simpl.
  - intros c t. apply ss_single.
  - intros f [].
  - split; constructor.
Qed.

Lemma FI_handled st lo c t : FI st lo -> SS (ids (filter (P c t) (handled st))).
Proof.
  intros [H1 _ _]. specialize (H1 c t). unfold hq in H1.
  apply ss_app_iff in H1 as (H1 & _). apply ss_app_iff in H1 as (H1 & _).
  apply ss_app_iff in H1 as (H1 & _). exact H1.
Qed.

Lemma fifo_per_destination_and_type_l a d lo ops :
  ids_ok lo ops -> noraise (snd (run (init a d) ops)) = true ->
  forall c t, SS (ids (filter (P c t) (handled (exec (init a d) ops)))).
Proof.
  intros Hid Hnr c t. destruct (exec_FI ops _ lo (init_FI a d lo) Hid Hnr) as [lo' H].
  eapply FI_handled; eauto.
Qed.

Lemma ids_ok_app lo a b : ids_ok lo (a ++ b) -> ids_ok lo a.
Proof.
  revert lo. induction a as [|o r IH]; intros lo H; simpl in *; auto.
  destruct H. split; auto.
Qed.

Lemma noraise_run_app st a b :
  noraise (snd (run st (a ++ b))) = true ->
  noraise (snd (run st a)) = true /\ noraise (snd (run (exec st a) b)) = true.
Proof.
  revert st. induction a as [|o r IH]; intros st H.
  - simpl in *. auto.
  - rewrite <- app_comm_cons in H. rewrite run_cons in *. simpl in *.
    apply andb_true_iff in H as [H1 H2]. apply IH in H2 as [H2 H3].
    rewrite H1, H2. rewrite exec_cons. auto.
Qed.

Lemma ids_ok_last lo a b : ids_ok lo (a ++ b) -> exists lo', ids_ok lo' b /\ forall st,
  FI st lo -> noraise (snd (run st a)) = true -> FI (exec st a) lo'.
Proof.
  revert lo. induction a as [|o r IH]; intros lo H.
  - exists lo. split; [exact H|]. intros st HFI _. exact HFI.
  - simpl in H. destruct H as [H1 H2]. destruct (IH _ H2) as (lo' & Hb & Hf). exists lo'. split; auto.
    intros st HFI Hnr. rewrite run_cons in Hnr. simpl in Hnr. apply andb_true_iff in Hnr as [Hn1 Hn2].
    rewrite exec_cons. apply Hf; auto. apply step_FI; auto.
    intros E. rewrite E in Hn1. discriminate.
Qed.

(* messages posted to a computation that registers later: once it registers on this agent
   (and the loop drains), none is left deferred or queued and they were handled in posting order *)
Lemma late_registration_in_order_l a d lo ops c :
  ids_ok lo ops ->
  noraise (snd (run (init a d) (ops ++ [Register c a; Drain]))) = true ->
  let st := exec (init a d) (ops ++ [Register c a; Drain]) in
  (forall f, In f (failed st) -> m_dest f <> c) /\ queue st = [] /\
  forall t, SS (ids (filter (P c t) (handled st))).
Proof.
  intros Hid Hnr st.
  apply noraise_run_app in Hnr as [Hn1 Hn2].
  destruct (exec_FI ops _ lo (init_FI a d lo) Hid Hn1) as [lo' H].
  unfold st. rewrite exec_app. set (s0 := exec (init a d) ops) in *.
  rewrite run_cons in Hn2. simpl in Hn2. apply andb_true_iff in Hn2 as [Hr _].
  assert (Hr' : snd (register s0 c a) <> ORaised) by (intros E; rewrite E in Hr; discriminate).
  destruct (register_FI s0 c a lo' H Hr') as [HF Hd].
  rewrite exec_cons. simpl. change (exec (fst (register s0 c a)) [Drain]) with (drain (fst (register s0 c a))).
  destruct (drain_spec (fst (register s0 c a))) as (D1 & D2 & D3).
  assert (Hfail : failed (drain (fst (register s0 c a))) = failed (fst (register s0 c a))).
  { unfold drain. generalize (List.length (queue (fst (register s0 c a)))).
    intros n. generalize (fst (register s0 c a)). induction n as [|n IHn]; intros s; simpl; auto.
    destruct (queue s) eqn:E; auto. rewrite IHn. unfold next. rewrite E. reflexivity. }
  split; [now rewrite Hfail|]. split; auto.
  intros t. eapply FI_handled. unfold drain. apply drain_fuel_FI. exact HF.
Qed.
