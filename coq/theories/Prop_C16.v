(* Prop_C16.v -- C16: computation graphs faithfully mirror the DCOP.
   Only statements; each closed by an exact lemma from P_Graphs.
   A DCOP = variable list [vars] (any length) + constraints [cs] (name, scope), see M_Graphs.v. *)
From PyDcop Require Import Base M_Graphs P_Graphs.
From Coq Require Import Permutation Sorting.Sorted.

(* ---------- constraints hyper-graph ---------- *)
(* one node per variable, in order, all variable nodes *)
Theorem chg_nodes : forall vars cs,
  map n_name (chg_build vars cs) = vars /\
  (forall n, In n (chg_build vars cs) -> n_kind n = VarNode).
Proof. exact chg_nodes_l. Qed.

(* each node lists exactly the constraints containing its variable (in constraint order) *)
Theorem chg_constraints_exact : forall vars cs n, In n (chg_build vars cs) ->
  n_constraints n = map c_name (find_dependent (n_name n) cs) /\
  (forall c, In c (find_dependent (n_name n) cs) <-> In c cs /\ In (n_name n) (c_scope c)).
Proof. exact chg_constraints_exact_l. Qed.

(* its links are one hyper-edge per such constraint, over exactly the constraint's scope *)
Theorem chg_links_exact : forall vars cs n, In n (chg_build vars cs) ->
  n_links n = map (fun c => CLink (c_name c) (fset (c_scope c))) (find_dependent (n_name n) cs) /\
  (forall l x, In x (fset l) <-> In x l).
Proof. exact chg_links_exact_l. Qed.

(* neighbourhood = 'shares a constraint' *)
Theorem chg_neighbors_iff_share : forall vars cs n, In n (chg_build vars cs) ->
  forall w, In w (n_neighbors n) <->
    w <> n_name n /\ exists c, In c cs /\ In (n_name n) (c_scope c) /\ In w (c_scope c).
Proof. exact chg_neighbors_iff_share_l. Qed.

(* ... and is symmetric *)
Theorem chg_neighbors_sym : forall vars cs n m,
  In n (chg_build vars cs) -> In m (chg_build vars cs) ->
  (In (n_name m) (n_neighbors n) <-> In (n_name n) (n_neighbors m)).
Proof. exact chg_neighbors_sym_l. Qed.

Theorem chg_neighbors_nodup : forall vars cs n, In n (chg_build vars cs) ->
  NoDup (n_neighbors n) /\ ~ In (n_name n) (n_neighbors n).
Proof. exact chg_neighbors_nodup_l. Qed.

(* ---------- factor graph ---------- *)
(* the builder raises KeyError exactly when two computations would share a name *)
Theorem fg_rejects_iff_duplicate_names : forall vars cs,
  fg_build vars cs = None <-> ~ NoDup (vars ++ map c_name cs).
Proof. exact fg_rejects_iff_duplicate_names_l. Qed.

(* one variable node per variable, then one factor node per constraint *)
Theorem fg_nodes_one_per_variable_and_constraint : forall vars cs g,
  fg_build vars cs = Some g ->
  map (fun n => (n_name n, n_kind n)) g =
    map (fun v => (v, VarNode)) vars ++ map (fun c => (c_name c, FactorNode)) cs.
Proof. exact fg_nodes_one_per_l. Qed.

(* bipartite: neighbours are always of the other kind, and every link joins a factor and a
   variable of its scope.  [scopes_closed]: every scope variable is a variable of the DCOP. *)
Theorem fg_bipartite : forall vars cs g, fg_build vars cs = Some g -> scopes_closed vars cs ->
  (forall n m, In n g -> In m g -> In (n_name m) (n_neighbors n) -> n_kind n <> n_kind m) /\
  (forall n l, In n g -> In l (n_links n) ->
     exists c x, l = FLink (c_name c) x /\ In c cs /\ In x vars /\ In x (c_scope c) /\
                 (n_name n = x \/ n_name n = c_name c)).
Proof. exact fg_bipartite_l. Qed.

(* x and f are linked (seen from either side) iff x is in the scope of f *)
Theorem fg_link_iff_scope : forall vars cs g v c, fg_build vars cs = Some g ->
  In v vars -> In c cs ->
  find_node g v = Some (fg_var_node cs v) /\
  find_node g (c_name c) = Some (fg_factor_node c) /\
  (In (c_name c) (n_neighbors (fg_var_node cs v)) <-> In v (c_scope c)) /\
  (In v (n_neighbors (fg_factor_node c)) <-> In v (c_scope c)).
Proof. exact fg_link_iff_scope_l. Qed.

(* graph.links is exactly one link per (factor, scope variable) pair *)
Theorem fg_graph_links_iff_scope : forall vars cs g,
  fg_build vars cs = Some g -> scopes_closed vars cs ->
  forall l, In l (graph_links g) <->
            exists c x, In c cs /\ In x (c_scope c) /\ l = FLink (c_name c) x.
Proof. exact fg_graph_links_iff_scope_l. Qed.

(* ---------- ordered graph ---------- *)
(* same nodes, constraints and neighbours as the hyper-graph; links = constraint links ++ order links *)
Theorem og_nodes_as_hypergraph : forall vars cs,
  map n_name (og_build vars cs) = vars /\
  forall v, n_name (og_node vars cs v) = v /\
            n_kind (og_node vars cs v) = VarNode /\
            n_constraints (og_node vars cs v) = n_constraints (chg_node cs v) /\
            n_neighbors (og_node vars cs v) = n_neighbors (chg_node cs v) /\
            n_links (og_node vars cs v) = n_links (chg_node cs v) ++ order_links vars v.
Proof. exact og_nodes_as_hypergraph_l. Qed.

(* the chain: s = the variables in strictly increasing (= lexical) order; the node at
   position i has next = s[i+1] and previous = s[i-1] (None at the ends) *)
Theorem ordered_chain : forall vars cs, NoDup vars ->
  let s := isort Z.leb vars in
  Permutation s vars /\ StronglySorted Z.lt s /\
  forall i v, nth_error s i = Some v ->
    get_next (og_node vars cs v) = nth_error s (S i) /\
    get_previous (og_node vars cs v) = match i with O => None | S j => nth_error s j end.
Proof. exact ordered_chain_l. Qed.

Theorem ordered_next_previous_inverse : forall vars cs a b,
  NoDup vars -> In a vars -> In b vars ->
  (get_next (og_node vars cs a) = Some b <-> get_previous (og_node vars cs b) = Some a).
Proof. exact ordered_next_previous_inverse_l. Qed.

(* following next from the first node visits every variable exactly once, in order *)
Theorem ordered_chain_visits_all_once : forall vars cs, NoDup vars ->
  let s := walk (fun v => get_next (og_node vars cs v)) (List.length vars)
                (hd_error (isort Z.leb vars)) in
  Permutation s vars /\ NoDup s /\ StronglySorted Z.lt s.
Proof. exact ordered_chain_visits_all_once_l. Qed.

(* non-vacuity: 4 variables (3 isolated from 9), a ternary, a binary and a unary constraint *)
Example c16_nonvacuous :
  let vars := [3; 1; 9; 2] in
  let cs := [mkC 20 [1; 2; 3]; mkC 21 [3; 2]; mkC 22 [1]] in
  map (fun n => isort Z.leb (n_neighbors n)) (chg_build vars cs) = [[1; 2]; [2; 3]; []; [1; 3]] /\
  map n_constraints (chg_build vars cs) = [[20; 21]; [20; 22]; []; [20; 21]] /\
  scopes_closed vars cs /\
  (exists g, fg_build vars cs = Some g /\ List.length g = 7%nat /\ List.length (graph_links g) = 6%nat) /\
  map get_next (og_build vars cs) = [Some 9; Some 2; None; Some 3] /\
  map get_previous (og_build vars cs) = [Some 2; None; Some 3; Some 1] /\
  fg_build [1; 2] [mkC 2 [1]] = None.
Proof.
  vm_compute. repeat split; try reflexivity.
  - intros c x [<-|[<-|[<-|[]]]]; simpl; intuition.
  - eexists. repeat split.
Qed.
