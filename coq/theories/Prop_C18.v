(* Prop_C18.v -- C18: agent messaging delivers each message once, by priority, FIFO per sender.
   Only statements; each closed by an exact lemma from P_Messaging.

   Model (M_Messaging.v): one Messaging instance with the discovery data it uses and the agent
   loop.  A history is any list of
     Post src dest id type | Register c agent | Unregister c publish | Next | Shutdown | Drain
   ([Next] = next_msg + dispatch to the destination's on_message; [Drain] = the loop until the
   queue is empty).  post_msg is atomic here: the theorems quantify over all SEQUENTIAL
   histories (every interleaving of atomic posts), not over thread schedules inside post_msg.

   FULL STATEMENT of C18 also quantifies over real thread interleavings.  First part of this file:
   sequential histories, plus [threads_queue_discipline] / [counter_race_possible].  Second part
   ("Deepening", below): a micro-step model of the threads and theorems for EVERY interleaving
   (exactly once, priority, FIFO per sender and type, clean shutdown), with the witnesses that
   refute them for the code before the repairs 8217f85 / a22cc0c.  What remains false of the
   code: a registration racing with a deferring post ([mt_late_registration_refuted], finding
   C18-registration-races-with-deferring-post). *)
From PyDcop Require Import Base M_Messaging P_Messaging.
From Coq Require Import Permutation Sorted.

(* Exactly once: every posted message is, at any time, in exactly one of: the queue, the
   deferred list, the messages handed to the communication layer, the handled log, or the
   rejected posts (dropped after shutdown / post_msg raised). *)
Theorem delivered_exactly_once : forall a d ops,
  Permutation (posted_msgs ops) (places (exec (init a d) ops)).
Proof. exact delivered_exactly_once_l. Qed.

(* The queue is always sorted by (type, counter) ... *)
Theorem queue_sorted_by_priority : forall a d ops,
  StronglySorted kle (queue (exec (init a d) ops)).
Proof. exact queue_sorted_by_priority_l. Qed.

(* ... and the loop takes its head: a least entry, so no queued message has a lower type. *)
Theorem next_takes_least : forall a d ops e r,
  let st := exec (init a d) ops in
  queue st = e :: r ->
  snd (next st) = OHandled (q_msg e) /\ queue (fst (next st)) = r /\
  Forall (fun y => kle e y /\ q_type e <= q_type y) r.
Proof. exact next_takes_least_l. Qed.

(* FIFO: if the payload ids grow along the history (id = posting index) and no call raised
   UnknownComputation, the messages handled for one destination and one type are in posting
   order -- whatever their senders (hence per sender), whether they were queued directly or
   deferred until the destination registered. *)
Theorem fifo_per_destination_and_type : forall a d lo ops,
  ids_ok lo ops -> noraise (snd (run (init a d) ops)) = true ->
  forall c t, StronglySorted Z.lt (ids (filter (P c t) (handled (exec (init a d) ops)))).
Proof. exact fifo_per_destination_and_type_l. Qed.

(* Late registration: after the destination registers on this agent and the loop drains, no
   message for it is left deferred or queued, and they were handled in posting order. *)
Theorem late_registration_in_order : forall a d lo ops c,
  ids_ok lo ops ->
  noraise (snd (run (init a d) (ops ++ [Register c a; Drain]))) = true ->
  let st := exec (init a d) (ops ++ [Register c a; Drain]) in
  (forall f, In f (failed st) -> m_dest f <> c) /\ queue st = [] /\
  forall t, StronglySorted Z.lt (ids (filter (P c t) (handled st))).
Proof. exact late_registration_in_order_l. Qed.

(* Clean shutdown: whatever happens after it, the loop's drain leaves an empty queue having
   handled exactly the messages queued at shutdown time, in queue order (nothing is added). *)
Theorem shutdown_drains : forall st ops,
  let st0 := fst (step st Shutdown) in
  let st1 := exec st0 (ops ++ [Drain]) in
  queue st1 = [] /\ handled st1 = handled st ++ map q_msg (queue st).
Proof. exact shutdown_drains_l. Qed.

(* Real threads, partial: on ANY sequence of PriorityQueue put/get operations (as serialised by
   the queue's lock, with whatever counters the threads drew) every get returns a least entry. *)
Theorem threads_queue_discipline : forall evs1 evs2 e q',
  qafter [] evs1 = e :: q' ->
  qrun (qafter [] evs1) (QGet :: evs2) = q_msg e :: qrun q' evs2 /\
  Forall (fun y => kle e y /\ q_type e <= q_type y) q'.
Proof. exact threads_queue_discipline_l. Qed.

(* msg_queue_count += 1 followed by reading it for the queue tuple is not atomic: two threads
   that each run load; store; read in program order can put the same counter. *)
Theorem counter_race_possible :
  exists sched c,
    program_order true sched = true /\ program_order false sched = true /\
    r_drawn (micro_run sched) = [(true, c); (false, c)].
Proof. exact counter_race_possible_l. Qed.

(* non-vacuity: a history with two priorities, a destination that registers late and a clean
   shutdown; it meets the hypotheses of the FIFO theorem *)
Example c18_nonvacuous :
  let ops := [Register 10 1; Post 31 10 1 None; Post 31 12 2 None; Post 32 10 3 (Some 10);
              Post 31 12 4 (Some 10); Post 31 12 5 None; Next; Register 12 1; Post 32 12 6 None;
              Shutdown; Post 31 10 7 None; Drain] in
  let st := exec (init 1 [(31, 1); (32, 1)]) ops in
  ids_ok 0 ops /\ noraise (snd (run (init 1 [(31, 1); (32, 1)]) ops)) = true /\
  map m_id (handled st) = [3; 4; 1; 2; 5; 6] /\ queue st = [] /\ failed st = [] /\
  map m_id (lost st) = [7].
Proof. vm_compute. repeat split; try reflexivity; discriminate. Qed.

(* ====================================================================== *)
(* Deepening: ALL thread interleavings (M_MessagingMT.v / P_MessagingMT.v) *)
(* ====================================================================== *)
(* Model: any number of poster threads, each a sequential program of posts to local registered
   destinations, executed one shared-memory access at a time (read _shutdown; read the clock;
   acquire _post_lock; load, store, re-read msg_queue_count; put (atomic); release), the agent
   thread (read the shutdown event; atomic get-or-Empty + dispatch), the thread calling
   clean_shutdown (set the event; set Messaging._shutdown) and the clock.  An execution is ANY
   list of choices [CTick | CAgent | CCtl | CPost i]; a choice of a finished / blocked /
   non-existent thread is a no-op.  [mkCfg lock flagfirst] selects the code: [mkCfg true true]
   is /repo after the two C18 repairs; [false] = the code before the respective repair.
   The queue order is the tuple order on (msg_type, msg_queue_count, now). *)
From PyDcop Require M_MessagingMT P_MessagingMT P_MessagingMT2.
Module MT := M_MessagingMT.
Module PMT := P_MessagingMT.
Module PMT2 := P_MessagingMT2.

(* (1) exactly once, for every configuration and interleaving: the entries put are pairwise
   distinct posts of the programs (thread, index), each entry put is either still queued or was
   handed over once, nothing handled was not put, a post is dropped only after Messaging.shutdown,
   and at quiescence (all programs finished, queue drained) every post of every program has been
   handled or dropped -- exactly once, by the NoDup. *)
Theorem mt_delivered_exactly_once : forall c progs ctl sched,
  let st := MT.exec c progs ctl sched in
  NoDup (map MT.ident (MT.g_puts st)) /\
  (forall e, In e (MT.g_puts st) ->
     nth_error (nth (MT.e_tid e) progs []) (MT.e_seq e)
       = Some (MT.mkPost (MT.e_dest e) (MT.e_type e) (MT.e_id e))) /\
  Permutation (MT.g_puts st) (MT.g_handled st ++ MT.g_queue st) /\
  NoDup (map MT.ident (MT.g_handled st) ++ MT.g_dropped st) /\
  (MT.g_shut st = false -> MT.g_dropped st = []) /\
  (MT.quiescent st = true -> forall i k, (k < List.length (nth i progs []))%nat ->
     In (i, k) (map MT.ident (MT.g_handled st) ++ MT.g_dropped st)).
Proof. exact PMT.mt_delivered_exactly_once_l. Qed.

(* (2) priority, for every configuration and interleaving: when the agent's get returns [e],
   every entry put before that get and not yet handed over is >= e in the tuple order, so none
   has a lower message type. *)
Theorem mt_priority : forall c progs ctl sched e,
  let st := MT.exec c progs ctl sched in
  MT.g_handled (MT.step c st MT.CAgent) = MT.g_handled st ++ [e] ->
  forall e', In e' (MT.g_puts st) -> ~ In e' (MT.g_handled st) ->
  PMT.kle e e' /\ MT.e_type e <= MT.e_type e'.
Proof. exact PMT.mt_priority_l. Qed.

(* (3) FIFO per sender thread and type, with the post lock, for every interleaving: the
   messages of one thread and one type are handled in the order the thread posted them.  What
   makes it work is the COUNTER component alone: under the lock each put draws a counter above
   all earlier puts (the clock component never decides). *)
Theorem mt_fifo_per_sender_type : forall ff progs ctl sched i ty,
  let st := MT.exec (MT.mkCfg true ff) progs ctl sched in
  StronglySorted lt
    (map MT.e_seq (filter (fun e => Nat.eqb (MT.e_tid e) i && (MT.e_type e =? ty)) (MT.g_handled st))).
Proof. exact PMT.mt_fifo_per_sender_type_l. Qed.

(* ... and it is false of the code before the repair (fix 1): a thread pre-empted between the
   load and the store of `msg_queue_count += 1` sets the counter back, and another thread's
   next message overtakes that thread's own earlier one (no two equal keys involved). *)
Theorem mt_fifo_unlocked_refuted :
  exists progs sched i ty,
    let st := MT.exec (MT.mkCfg false true) progs [] sched in
    MT.g_tie st = false /\
    map MT.e_seq (filter (fun e => Nat.eqb (MT.e_tid e) i && (MT.e_type e =? ty)) (MT.g_handled st))
      = [0; 1; 3; 2]%nat.
Proof. exact PMT.mt_fifo_unlocked_refuted_l. Qed.

(* (4) clean shutdown, repaired loop, for every interleaving: every entry whose put completed
   before the shutdown event was set has been handled when the agent thread leaves its loop. *)
Theorem mt_shutdown_drains : forall lk progs ctl sched1 sched2,
  let c := MT.mkCfg lk true in
  let st1 := MT.exec c progs ctl sched1 in
  let st2 := MT.run c st1 sched2 in
  MT.g_evt st1 = false -> MT.g_adone st2 = true ->
  forall e, In e (MT.g_puts st1) -> In e (MT.g_handled st2).
Proof. exact PMT.mt_shutdown_drains_l. Qed.

(* ... and it is false of the loop before the repair (fix 2): the get finds the queue empty, a
   post completes, clean_shutdown sets the event, the loop then reads the event and leaves. *)
Theorem mt_shutdown_oldloop_refuted :
  exists progs sched1 sched2 e,
    let c := MT.mkCfg true false in
    let st1 := MT.exec c progs [MT.SetEvt; MT.SetShut] sched1 in
    let st2 := MT.run c st1 sched2 in
    MT.g_evt st1 = false /\ In e (MT.g_puts st1) /\ MT.g_adone st2 = true /\ MT.g_handled st2 = [].
Proof. exact PMT.mt_shutdown_oldloop_refuted_l. Qed.

(* with the lock, one type is handled in the order of the puts whoever the senders are: the
   counters of the puts grow strictly, and so do those of the handled messages of a type *)
Theorem mt_fifo_put_order : forall ff progs ctl sched ty,
  let st := MT.exec (MT.mkCfg true ff) progs ctl sched in
  StronglySorted Z.lt (map MT.e_cnt (MT.g_puts st)) /\
  StronglySorted Z.lt (map MT.e_cnt (filter (fun e => MT.e_type e =? ty) (MT.g_handled st))).
Proof. exact PMT2.mt_fifo_put_order_l. Qed.

(* the lock added by fix 1 brings no deadlock: in every reachable state its holder is a live
   thread inside the critical section and releases it within five of its own steps *)
Theorem mt_lock_released : forall ff progs ctl sched i,
  let c := MT.mkCfg true ff in
  let st := MT.exec c progs ctl sched in
  MT.g_lock st = Some i ->
  exists k, (k <= 5)%nat /\ MT.g_lock (MT.run c st (repeat (MT.CPost i) k)) = None.
Proof. exact PMT2.mt_lock_released_l. Qed.

(* [late_registration_in_order] does NOT lift to interleavings (finding
   C18-registration-races-with-deferring-post).  Micro-step model of posts to one late
   destination (look up; subscribe; append to _failed | put) against
   Discovery.register_computation (table write; per callback: snapshot _failed, replay = put +
   remove; drop the one-shot callbacks), the queue as the list of ids in put order:
   (a) the destination registers between a post's unknown-destination test and its deferral:
       everybody finishes, the destination is known, the message stays deferred;
   (b) the sender's next post goes in directly between the table write and the replay of its
       deferred one: handled 2 before 1. *)
Theorem mt_late_registration_refuted :
  (exists progs sched, let s := MT.rrun progs sched in
     MT.rfinished s = true /\ MT.r_known s = true /\ MT.r_failed s = [1] /\ MT.r_queue s = []) /\
  (exists sched, let s := MT.rrun [[1; 2]] sched in
     MT.rfinished s = true /\ MT.r_known s = true /\ MT.r_failed s = [] /\ MT.r_queue s = [2; 1]).
Proof. exact PMT2.mt_late_registration_refuted_l. Qed.

(* what does hold in that model, for every interleaving: nothing is lost or duplicated -- the
   posted ids are exactly the queued ones, the deferred ones and the ones not yet posted *)
Theorem mt_registration_conserves : forall progs sched,
  let s := MT.rrun progs sched in
  MT.r_rm s = None ->
  Permutation (List.concat progs) (MT.r_queue s ++ MT.r_failed s ++ PMT2.pending s).
Proof. exact PMT2.mt_reg_conservation_l. Qed.

(* non-vacuity: two threads contending for the lock, two types, a clean shutdown that lets one
   post through (its _shutdown test came first) and drops the last one; quiescent, loop left *)
Example c18_mt_nonvacuous :
  let progs := [[MT.mkPost 10 20 1; MT.mkPost 10 10 2];
                [MT.mkPost 11 20 3; MT.mkPost 11 20 4; MT.mkPost 11 20 5]] in
  let sched := repeat (MT.CPost 0) 3 ++ repeat (MT.CPost 1) 5 ++ repeat (MT.CPost 0) 5 ++ [MT.CTick]
               ++ repeat (MT.CPost 1) 6 ++ [MT.CAgent; MT.CAgent] ++ repeat (MT.CPost 0) 8 ++ [MT.CCtl]
               ++ repeat (MT.CPost 1) 2 ++ [MT.CCtl] ++ repeat (MT.CPost 1) 9 ++ repeat MT.CAgent 12 in
  let st := MT.exec (MT.mkCfg true true) progs [MT.SetEvt; MT.SetShut] sched in
  map MT.e_id (MT.g_handled st) = [1; 2; 3; 4] /\ map MT.e_cnt (MT.g_puts st) = [1; 2; 3; 4] /\
  MT.g_dropped st = [(1, 2)]%nat /\ MT.quiescent st = true /\ MT.g_adone st = true.
Proof. vm_compute. repeat split; reflexivity. Qed.
