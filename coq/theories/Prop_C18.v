(* Prop_C18.v -- C18: agent messaging delivers each message once, by priority, FIFO per sender.
   Only statements; each closed by an exact lemma from P_Messaging.

   Model (M_Messaging.v): one Messaging instance with the discovery data it uses and the agent
   loop.  A history is any list of
     Post src dest id type | Register c agent | Unregister c publish | Next | Shutdown | Drain
   ([Next] = next_msg + dispatch to the destination's on_message; [Drain] = the loop until the
   queue is empty).  post_msg is atomic here: the theorems quantify over all SEQUENTIAL
   histories (every interleaving of atomic posts), not over thread schedules inside post_msg.

   FULL STATEMENT of C18 also quantifies over real thread interleavings (non-atomic counter
   increment, registration racing with posts): that part is NOT a theorem.  It is covered by the
   perturbed real-thread runs of the harness (property oracle + [threads_queue_discipline]'s
   model on the serialised queue log) and [counter_race_possible] shows why it cannot be proved
   of the code as written. *)
From PyDcop Require Import Base M_Messaging P_Messaging.
From Coq Require Import Permutation Sorted.

(* Exactly once: every posted message is, at any time, in exactly one of: the queue, the
   deferred list, the messages handed to the communication layer, the handled log, or the
   rejected posts (dropped after shutdown / post_msg raised). *)
Theorem delivered_exactly_once : forall a d ops,
  Permutation (posted_msgs ops) (places (exec (init a d) ops)).
Proof. exact delivered_exactly_once_l. Qed.

(* The queue is always sorted by (type, counter) ... *)
Theorem queue_sorted_by_priority : forall a d ops,
  StronglySorted kle (queue (exec (init a d) ops)).
Proof. exact queue_sorted_by_priority_l. Qed.

(* ... and the loop takes its head: a least entry, so no queued message has a lower type. *)
Theorem next_takes_least : forall a d ops e r,
  let st := exec (init a d) ops in
  queue st = e :: r ->
  snd (next st) = OHandled (q_msg e) /\ queue (fst (next st)) = r /\
  Forall (fun y => kle e y /\ q_type e <= q_type y) r.
Proof. exact next_takes_least_l. Qed.

(* FIFO: if the payload ids grow along the history (id = posting index) and no call raised
   UnknownComputation, the messages handled for one destination and one type are in posting
   order -- whatever their senders (hence per sender), whether they were queued directly or
   deferred until the destination registered. *)
Theorem fifo_per_destination_and_type : forall a d lo ops,
  ids_ok lo ops -> noraise (snd (run (init a d) ops)) = true ->
  forall c t, StronglySorted Z.lt (ids (filter (P c t) (handled (exec (init a d) ops)))).
Proof. exact fifo_per_destination_and_type_l. Qed.

(* Late registration: after the destination registers on this agent and the loop drains, no
   message for it is left deferred or queued, and they were handled in posting order. *)
Theorem late_registration_in_order : forall a d lo ops c,
  ids_ok lo ops ->
  noraise (snd (run (init a d) (ops ++ [Register c a; Drain]))) = true ->
  let st := exec (init a d) (ops ++ [Register c a; Drain]) in
  (forall f, In f (failed st) -> m_dest f <> c) /\ queue st = [] /\
  forall t, StronglySorted Z.lt (ids (filter (P c t) (handled st))).
Proof. exact late_registration_in_order_l. Qed.

(* Clean shutdown: whatever happens after it, the loop's drain leaves an empty queue having
   handled exactly the messages queued at shutdown time, in queue order (nothing is added). *)
Theorem shutdown_drains : forall st ops,
  let st0 := fst (step st Shutdown) in
  let st1 := exec st0 (ops ++ [Drain]) in
  queue st1 = [] /\ handled st1 = handled st ++ map q_msg (queue st).
Proof. exact shutdown_drains_l. Qed.

(* Real threads, partial: on ANY sequence of PriorityQueue put/get operations (as serialised by
   the queue's lock, with whatever counters the threads drew) every get returns a least entry. *)
Theorem threads_queue_discipline : forall evs1 evs2 e q',
  qafter [] evs1 = e :: q' ->
  qrun (qafter [] evs1) (QGet :: evs2) = q_msg e :: qrun q' evs2 /\
  Forall (fun y => kle e y /\ q_type e <= q_type y) q'.
Proof. exact threads_queue_discipline_l. Qed.

(* msg_queue_count += 1 followed by reading it for the queue tuple is not atomic: two threads
   that each run load; store; read in program order can put the same counter. *)
Theorem counter_race_possible :
  exists sched c,
    program_order true sched = true /\ program_order false sched = true /\
    r_drawn (micro_run sched) = [(true, c); (false, c)].
Proof. exact counter_race_possible_l. Qed.

(* non-vacuity: a history with two priorities, a destination that registers late and a clean
   shutdown; it meets the hypotheses of the FIFO theorem *)
Example c18_nonvacuous :
  let ops := [Register 10 1; Post 31 10 1 None; Post 31 12 2 None; Post 32 10 3 (Some 10);
              Post 31 12 4 (Some 10); Post 31 12 5 None; Next; Register 12 1; Post 32 12 6 None;
              Shutdown; Post 31 10 7 None; Drain] in
  let st := exec (init 1 [(31, 1); (32, 1)]) ops in
  ids_ok 0 ops /\ noraise (snd (run (init 1 [(31, 1); (32, 1)]) ops)) = true /\
  map m_id (handled st) = [3; 4; 1; 2; 5; 6] /\ queue st = [] /\ failed st = [] /\
  map m_id (lost st) = [7].
Proof. vm_compute. repeat split; try reflexivity; discriminate. Qed.
