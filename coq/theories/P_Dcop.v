(* P_Dcop.v -- proofs about the cost-accounting model M_Dcop.v (C13). *)
From PyDcop Require Import Base ECost M_Dcop.

(* ------------------------------------------------------------------ *)
(* extended-cost arithmetic                                            *)
(* ------------------------------------------------------------------ *)
Lemma ec_add_comm a b : ec_add a b = ec_add b a.
Proof. destruct a, b; simpl; try reflexivity. f_equal; lia. Qed.

Lemma ec_add_assoc a b c : ec_add (ec_add a b) c = ec_add a (ec_add b c).
Proof. destruct a, b, c; simpl; try reflexivity. f_equal; lia. Qed.

Lemma ec_add_swap a b c d :
  ec_add (ec_add a b) (ec_add c d) = ec_add (ec_add a c) (ec_add b d).
Proof.
  rewrite !ec_add_assoc. f_equal. rewrite <- !ec_add_assoc. f_equal. apply ec_add_comm.
Qed.

Lemma ec_add_0_r a : ec_add a (Fin 0) = a.
Proof. rewrite ec_add_comm. apply ec_add_0_l. Qed.

(* the sum of a list of terms *)
Definition esum (l : list ecost) : ecost := fold_right ec_add (Fin 0) l.

Lemma esum_app l1 l2 : esum (l1 ++ l2) = ec_add (esum l1) (esum l2).
Proof.
  induction l1 as [|a r IH].
  - simpl app. change (esum []) with (Fin 0). now rewrite ec_add_0_l.
  - change (esum ((a :: r) ++ l2)) with (ec_add a (esum (r ++ l2))).
    change (esum (a :: r)) with (ec_add a (esum r)). now rewrite IH, ec_add_assoc.
Qed.

Lemma esum_cons a l : esum (a :: l) = ec_add a (esum l).
Proof. reflexivity. Qed.
Lemma esum_nil : esum [] = Fin 0.
Proof. reflexivity. Qed.

(* ------------------------------------------------------------------ *)
(* solution_cost                                                       *)
(* ------------------------------------------------------------------ *)
Definition dflt (o : option value) : value := match o with Some v => v | None => VNone end.
(* the values a relation is evaluated on *)
Definition arg_values (asg : assignment) (scope : list Z) : list value :=
  map (fun n => dflt (getv asg n)) scope.
(* a variable contributes a cost term iff its value is not None *)
Definition has_value (asg : assignment) (v : variable) : bool :=
  match getv asg (v_name v) with Some (VInt _) => true | _ => false end.
Definition var_term (asg : assignment) (v : variable) : ecost :=
  v_cost v (dflt (getv asg (v_name v))).
(* [ts] are the values of the constraints, in order *)
Definition rel_values (asg : assignment) (rels : list rel) (ts : list ecost) : Prop :=
  Forall2 (fun r t => r_eval r (arg_values asg (r_scope r)) = Some t) rels ts.
Definition count_inf (infinity : ecost) (terms : list ecost) : Z :=
  Z.of_nat (List.length (filter (fun c => ec_eqb c infinity) terms)).
Definition sum_others (infinity : ecost) (terms : list ecost) : ecost :=
  esum (filter (fun c => negb (ec_eqb c infinity)) terms).

Lemma mem_key_getv asg n : mem_key Z.eqb n asg = true <-> getv asg n <> None.
Proof.
  unfold mem_key, getv, zlookup. destruct (lookup Z.eqb n asg); split; intro H;
    try discriminate; try congruence; auto.
Qed.

Lemma incomplete_iff vars asg :
  incomplete vars asg = true <->
  (exists v, In v vars /\ getv asg (v_name v) = None) \/ List.length vars <> List.length asg.
Proof.
  unfold incomplete. rewrite orb_true_iff, existsb_exists, negb_true_iff, Nat.eqb_neq.
  split; (intros [[v [Hv H]]|H]; [left; exists v; split; auto|right; auto]).
  - apply negb_true_iff in H. destruct (getv asg (v_name v)) eqn:E; auto.
    assert (mem_key Z.eqb (v_name v) asg = true) by (apply mem_key_getv; congruence). congruence.
  - apply negb_true_iff. destruct (mem_key Z.eqb (v_name v) asg) eqn:E; auto.
    apply mem_key_getv in E. contradiction.
Qed.

Lemma rel_args_covered asg scope :
  (forall n, In n scope -> getv asg n <> None) -> rel_args asg scope = Some (arg_values asg scope).
Proof.
  induction scope as [|n r IH]; simpl; intro H; auto.
  rewrite IH by auto. destruct (getv asg n) eqn:E; simpl; auto.
  exfalso. apply (H n); auto.
Qed.

Lemma account_fold infinity l : forall h s,
  fold_left (account infinity) l (h, s) =
    (h + count_inf infinity l, ec_add s (sum_others infinity l)).
Proof.
  unfold count_inf, sum_others. induction l as [|c r IH]; intros h s; simpl.
  - now rewrite Z.add_0_r, ec_add_0_r.
  - unfold account at 2. simpl. destruct (ec_eqb c infinity); simpl; rewrite IH.
    + f_equal. lia.
    + f_equal. now rewrite ec_add_assoc.
Qed.

Lemma sc_rels_values infinity asg rels ts : forall acc,
  (forall r n, In r rels -> In n (r_scope r) -> getv asg n <> None) ->
  rel_values asg rels ts ->
  sc_rels infinity asg rels acc = Some (fold_left (account infinity) ts acc).
Proof.
  intros acc Hc Hv. revert acc. induction Hv as [|r t rels ts Hr Hv IH]; intro acc; simpl; auto.
  rewrite rel_args_covered by (intros n Hn; apply (Hc r n); simpl; auto).
  rewrite Hr. apply IH. intros r' n Hr' Hn. apply (Hc r' n); simpl; auto.
Qed.

Lemma sc_vars_terms infinity asg vars : forall acc,
  fold_left (sc_var infinity asg) vars acc =
  fold_left (account infinity) (map (var_term asg) (filter (has_value asg) vars)) acc.
Proof.
  induction vars as [|v r IH]; intro acc; simpl; auto.
  unfold sc_var at 2, has_value, var_term. destruct (getv asg (v_name v)) as [[|z]|] eqn:E; simpl; auto.
  rewrite E. simpl. apply IH.
Qed.

Lemma solution_cost_spec_l rels vars asg infinity ts :
  (forall v, In v vars -> getv asg (v_name v) <> None) ->
  List.length vars = List.length asg ->
  (forall r n, In r rels -> In n (r_scope r) -> getv asg n <> None) ->
  rel_values asg rels ts ->
  let terms := ts ++ map (var_term asg) (filter (has_value asg) vars) in
  solution_cost rels vars asg infinity = ScOk (count_inf infinity terms) (sum_others infinity terms).
Proof.
  intros Hv Hl Hc Hr terms. unfold solution_cost.
  destruct (incomplete vars asg) eqn:E.
  - apply incomplete_iff in E as [[v [Hin Hn]]|E]; [exfalso; eapply Hv; eauto | contradiction].
  - rewrite (sc_rels_values infinity asg rels ts _ Hc Hr), sc_vars_terms, <- fold_left_app.
    fold terms. rewrite account_fold. unfold fst, snd. now rewrite ec_add_0_l, Z.add_0_l.
Qed.

Lemma solution_cost_incomplete_l rels vars asg infinity v :
  In v vars -> getv asg (v_name v) = None -> solution_cost rels vars asg infinity = ScIncomplete.
Proof.
  intros Hv Hn. unfold solution_cost.
  assert (incomplete vars asg = true) as -> by (apply incomplete_iff; left; eauto). reflexivity.
Qed.

Lemma solution_cost_size_mismatch_l rels vars asg infinity :
  List.length vars <> List.length asg -> solution_cost rels vars asg infinity = ScIncomplete.
Proof.
  intros H. unfold solution_cost.
  assert (incomplete vars asg = true) as -> by (apply incomplete_iff; right; auto). reflexivity.
Qed.

Lemma solution_cost_ok_iff_l rels vars asg infinity :
  solution_cost rels vars asg infinity = ScIncomplete <->
  (exists v, In v vars /\ getv asg (v_name v) = None) \/ List.length vars <> List.length asg.
Proof.
  rewrite <- incomplete_iff. unfold solution_cost. destruct (incomplete vars asg).
  - tauto.
  - split; [|discriminate]. destruct (sc_rels infinity asg rels (0, Fin 0)); discriminate.
Qed.

(* ---- bounds ---- *)
Lemma account_hard infinity acc c :
  fst acc <= fst (account infinity acc c) <= fst acc + 1.
Proof. unfold account. destruct (ec_eqb c infinity); simpl; lia. Qed.

Lemma sc_rels_hard infinity asg rels : forall acc acc',
  sc_rels infinity asg rels acc = Some acc' ->
  fst acc <= fst acc' <= fst acc + Z.of_nat (List.length rels).
Proof.
  induction rels as [|r rest IH]; intros acc acc' H; simpl in H.
  - inversion H; subst. simpl. lia.
  - destruct (rel_args asg (r_scope r)); [|discriminate].
    destruct (r_eval r l); [|discriminate]. apply IH in H.
    pose proof (account_hard infinity acc e). simpl List.length. lia.
Qed.

Lemma sc_vars_hard infinity asg vars : forall acc,
  fst acc <= fst (fold_left (sc_var infinity asg) vars acc) <= fst acc + Z.of_nat (List.length vars).
Proof.
  induction vars as [|v rest IH]; intro acc; simpl fold_left.
  - simpl. lia.
  - specialize (IH (sc_var infinity asg acc v)).
    assert (fst acc <= fst (sc_var infinity asg acc v) <= fst acc + 1).
    { unfold sc_var. destruct (getv asg (v_name v)) as [[|z]|]; try lia. apply account_hard. }
    simpl List.length. lia.
Qed.

Lemma solution_cost_hard_bounds_l rels vars asg infinity h s :
  solution_cost rels vars asg infinity = ScOk h s ->
  0 <= h <= Z.of_nat (List.length rels) + Z.of_nat (List.length vars).
Proof.
  unfold solution_cost. destruct (incomplete vars asg); [discriminate|].
  destruct (sc_rels infinity asg rels (0, Fin 0)) as [acc|] eqn:E; [|discriminate].
  intro H; inversion H; subst. apply sc_rels_hard in E. simpl in E.
  pose proof (sc_vars_hard infinity asg vars acc). lia.
Qed.

(* with infinity = +inf the soft cost never becomes +inf: hard terms do not leak into it *)
Lemma account_soft_pinf acc c : snd acc <> PInf -> snd (account PInf acc c) <> PInf.
Proof.
  unfold account. destruct (ec_eqb c PInf) eqn:E; simpl; auto.
  destruct (snd acc), c; simpl in *; try discriminate; congruence.
Qed.

Lemma solution_cost_soft_not_infinite_l rels vars asg h s :
  solution_cost rels vars asg PInf = ScOk h s -> s <> PInf.
Proof.
  unfold solution_cost. destruct (incomplete vars asg); [discriminate|].
  destruct (sc_rels PInf asg rels (0, Fin 0)) as [acc|] eqn:E; [|discriminate].
  intro H; inversion H; subst. clear H.
  assert (Hacc : snd acc <> PInf).
  { assert (G : forall rels a a', snd a <> PInf -> sc_rels PInf asg rels a = Some a' -> snd a' <> PInf).
    { clear. induction rels as [|r rest IH]; intros a a' Ha H; simpl in H.
      - inversion H; subst; auto.
      - destruct (rel_args asg (r_scope r)); [|discriminate].
        destruct (r_eval r l); [|discriminate]. eapply IH; [|exact H]. now apply account_soft_pinf. }
    eapply G; [|exact E]. simpl. discriminate. }
  clear E. revert acc Hacc. induction vars as [|v rest IH]; intros acc Hacc; simpl; auto.
  apply IH. unfold sc_var. destruct (getv asg (v_name v)) as [[|z]|]; auto.
  now apply account_soft_pinf.
Qed.

(* ---- external variables ---- *)
Lemma merge_ext_other exts : forall asg n,
  ~ In n (map x_name exts) -> getv (merge_ext asg exts) n = getv asg n.
Proof.
  unfold merge_ext, getv, zlookup. induction exts as [|x r IH]; intros asg n H; simpl; auto.
  rewrite IH by (intro; apply H; simpl; auto).
  apply lookup_dict_set_other; [apply Z.eqb_eq|]. intro E. apply H. simpl; auto.
Qed.

Lemma merge_ext_in exts : forall asg x, NoDup (map x_name exts) -> In x exts ->
  getv (merge_ext asg exts) (x_name x) = Some (VInt (x_value x)).
Proof.
  induction exts as [|a r IH]; intros asg x Hn Hx; [contradiction|].
  simpl in Hn. inversion Hn; subst. destruct Hx as [->|Hx].
  - change (merge_ext asg (x :: r)) with (merge_ext (dict_set Z.eqb (x_name x) (VInt (x_value x)) asg) r).
    rewrite merge_ext_other by assumption.
    unfold getv, zlookup. apply lookup_dict_set_same. apply Z.eqb_eq.
  - change (merge_ext asg (a :: r)) with (merge_ext (dict_set Z.eqb (x_name a) (VInt (x_value a)) asg) r).
    now apply IH.
Qed.

Lemma dcop_solution_cost_external_l rels vars exts asg infinity :
  dcop_solution_cost rels vars exts asg infinity =
    solution_cost rels (vars ++ map ext_as_var exts) (merge_ext asg exts) infinity /\
  (NoDup (map x_name exts) -> forall x, In x exts ->
     getv (merge_ext asg exts) (x_name x) = Some (VInt (x_value x))) /\
  (forall n, ~ In n (map x_name exts) -> getv (merge_ext asg exts) n = getv asg n) /\
  (forall x a, var_term a (ext_as_var x) = Fin 0).
Proof.
  split; [reflexivity|]. split; [intros; now apply merge_ext_in|]. split; [intros; now apply merge_ext_other|].
  reflexivity.
Qed.

Lemma dcop_solution_cost_spec_l rels vars exts asg infinity ts :
  let full := merge_ext asg exts in
  let allv := vars ++ map ext_as_var exts in
  (forall v, In v allv -> getv full (v_name v) <> None) ->
  List.length allv = List.length full ->
  (forall r n, In r rels -> In n (r_scope r) -> getv full n <> None) ->
  rel_values full rels ts ->
  let terms := ts ++ map (var_term full) (filter (has_value full) allv) in
  dcop_solution_cost rels vars exts asg infinity =
    ScOk (count_inf infinity terms) (sum_others infinity terms).
Proof. intros full allv. apply solution_cost_spec_l. Qed.

(* ------------------------------------------------------------------ *)
(* assignment_cost                                                     *)
(* ------------------------------------------------------------------ *)
(* the distinct elements of [l] not in [seen], in order of first occurrence *)
Fixpoint distinct_from (seen : list Z) (l : list Z) : list Z :=
  match l with
  | [] => []
  | n :: r => if zmem n seen then distinct_from seen r else n :: distinct_from (seen ++ [n]) r
  end.
Definition distinct (l : list Z) : list Z := distinct_from [] l.

Lemma distinct_from_app l1 : forall seen l2,
  distinct_from seen (l1 ++ l2) =
  distinct_from seen l1 ++ distinct_from (seen ++ distinct_from seen l1) l2.
Proof.
  induction l1 as [|n r IH]; intros seen l2; simpl.
  - now rewrite app_nil_r.
  - destruct (zmem n seen); [apply IH|].
    simpl. f_equal. rewrite IH. now rewrite <- app_assoc.
Qed.

Lemma distinct_from_In l : forall seen n,
  In n (distinct_from seen l) <-> In n l /\ ~ In n seen.
Proof.
  induction l as [|a r IH]; intros seen n; simpl; [tauto|].
  destruct (zmem a seen) eqn:E.
  - apply zmem_In in E. rewrite IH. split; [tauto|]. intros [[->|H] Hn]; [contradiction|auto].
  - assert (~ In a seen) by (rewrite <- zmem_In; congruence).
    simpl. rewrite IH, in_app_iff. simpl. split.
    + intros [->|[H1 H2]]; [auto|]. split; auto.
    + intros [[->|H1] H2]; auto.
      destruct (Z.eq_dec a n) as [->|Hne]; auto. right. split; auto. intros [?|[?|[]]]; auto.
Qed.

Lemma distinct_from_NoDup l : forall seen, NoDup (distinct_from seen l).
Proof.
  induction l as [|a r IH]; intro seen; simpl; [constructor|].
  destruct (zmem a seen); auto. constructor; auto.
  rewrite distinct_from_In. intros [_ H]. apply H. apply in_or_app; simpl; auto.
Qed.

Lemma distinct_spec l : NoDup (distinct l) /\ forall n, In n (distinct l) <-> In n l.
Proof.
  split; [apply distinct_from_NoDup|]. intro n. unfold distinct. rewrite distinct_from_In. simpl; tauto.
Qed.

(* value used for a scope variable: assignment first, then kwargs *)
Definition av (asg kw : assignment) (n : Z) : option value :=
  match getv asg n with Some x => Some x | None => getv kw n end.
Definition ac_values (asg kw : assignment) (rels : list rel) (ts : list ecost) : Prop :=
  Forall2 (fun r t => r_eval r (map (fun n => dflt (av asg kw n)) (r_scope r)) = Some t) rels ts.
Definition vc (vcost : Z -> value -> ecost) (asg : assignment) (n : Z) : ecost :=
  vcost n (dflt (getv asg n)).

Lemma ac_scope_spec vcost consider asg kw scope : forall cost seen c' s' vals,
  ac_scope vcost consider asg kw scope cost seen = Some (c', s', vals) ->
  let D := if consider then distinct_from seen scope else [] in
  s' = seen ++ D /\ c' = ec_add cost (esum (map (vc vcost asg) D)) /\
  vals = map (fun n => dflt (av asg kw n)) scope.
Proof.
  induction scope as [|n rest IH]; intros cost seen c' s' vals H; simpl in H.
  - inversion H; subst. destruct consider; simpl; rewrite app_nil_r, ec_add_0_r; auto.
  - destruct (consider && negb (zmem n seen)) eqn:E.
    + apply andb_true_iff in E as [-> E]. apply negb_true_iff in E.
      destruct (getv asg n) as [x|] eqn:G; [|discriminate].
      destruct (ac_scope vcost true asg kw rest (ec_add cost (vcost n x)) (seen ++ [n]))
        as [[[c2 s2] v2]|] eqn:R; [|discriminate].
      inversion H; subst. apply IH in R. simpl in R. destruct R as [-> [-> ->]].
      simpl. rewrite E. simpl. split; [now rewrite <- app_assoc|]. split.
      * assert (vc vcost asg n = vcost n x) as -> by (unfold vc; now rewrite G).
        now rewrite ec_add_assoc.
      * assert (dflt (av asg kw n) = x) as -> by (unfold av; now rewrite G). reflexivity.
    + destruct (match getv asg n with Some x => Some x | None => getv kw n end) as [x|] eqn:G;
        [|discriminate].
      destruct (ac_scope vcost consider asg kw rest cost seen) as [[[c2 s2] v2]|] eqn:R; [|discriminate].
      inversion H; subst. apply IH in R. destruct R as [-> [-> ->]].
      split; [|split].
      * destruct consider; auto. simpl in E. apply negb_false_iff in E. simpl. now rewrite E.
      * destruct consider; auto. simpl in E. apply negb_false_iff in E. simpl. now rewrite E.
      * simpl. f_equal. unfold av. now rewrite G.
Qed.


Lemma ac_rels_spec vcost consider asg kw rels : forall cost seen c,
  ac_rels vcost consider asg kw rels cost seen = AcOk c ->
  exists ts, ac_values asg kw rels ts /\
    let D := if consider then distinct_from seen (flat_map r_scope rels) else [] in
    c = ec_add cost (ec_add (esum ts) (esum (map (vc vcost asg) D))).
Proof.
  induction rels as [|r rest IH]; intros cost seen c H; simpl in H.
  - inversion H; subst. exists []. split; [constructor|].
    destruct consider; simpl; now rewrite ec_add_0_r.
  - destruct (ac_scope vcost consider asg kw (r_scope r) cost seen) as [[[c1 s1] vals]|] eqn:S;
      [|discriminate].
    destruct (r_eval r vals) as [t|] eqn:T; [|discriminate].
    apply ac_scope_spec in S. destruct S as [-> [-> ->]].
    apply IH in H. destruct H as [ts [Hts ->]].
    exists (t :: ts). split; [constructor; auto|].
    destruct consider; simpl.
    + rewrite distinct_from_app, map_app, esum_app.
      set (A := esum (map (vc vcost asg) (distinct_from seen (r_scope r)))).
      set (B := esum ts).
      set (C := esum (map (vc vcost asg) _)).
      rewrite (ec_add_assoc cost A t), (ec_add_assoc cost).
      f_equal. rewrite (ec_add_comm A t). apply ec_add_swap.
    + rewrite !ec_add_0_r. rewrite !ec_add_assoc. reflexivity.
Qed.

Lemma assignment_cost_spec_l vcost consider asg kw rels c :
  assignment_cost vcost consider asg kw rels = AcOk c ->
  exists ts, ac_values asg kw rels ts /\
    c = ec_add (esum ts)
          (if consider then esum (map (vc vcost asg) (distinct (flat_map r_scope rels))) else Fin 0).
Proof.
  intro H. apply ac_rels_spec in H. destruct H as [ts [Hts ->]]. exists ts. split; auto.
  rewrite ec_add_0_l. destruct consider; reflexivity.
Qed.

(* when is it defined *)
Definition present (consider : bool) (asg kw : assignment) (n : Z) : Prop :=
  if consider then getv asg n <> None else av asg kw n <> None.

Lemma ac_scope_some vcost consider asg kw scope : forall cost seen,
  (forall n, In n scope -> present consider asg kw n) ->
  exists res, ac_scope vcost consider asg kw scope cost seen = Some res.
Proof.
  induction scope as [|n rest IH]; intros cost seen H; simpl; [eauto|].
  assert (Hn := H n (or_introl eq_refl)).
  assert (Hav : exists x, match getv asg n with Some x => Some x | None => getv kw n end = Some x).
  { unfold present, av in Hn. destruct consider.
    - destruct (getv asg n); [eauto|contradiction].
    - destruct (match getv asg n with Some x => Some x | None => getv kw n end); [eauto|contradiction]. }
  destruct Hav as [x Hx].
  destruct (consider && negb (zmem n seen)) eqn:E.
  - apply andb_true_iff in E as [-> _]. unfold present in Hn.
    destruct (getv asg n) as [y|] eqn:G; [|contradiction].
    destruct (IH (ec_add cost (vcost n y)) (seen ++ [n])) as [[[c2 s2] v2] R];
      [intros; apply H; simpl; auto|].
    rewrite R. eauto.
  - rewrite Hx. destruct (IH cost seen) as [[[c2 s2] v2] R]; [intros; apply H; simpl; auto|].
    rewrite R. eauto.
Qed.

Lemma ac_rels_no_keyerror vcost consider asg kw rels : forall cost seen,
  (forall n, In n (flat_map r_scope rels) -> present consider asg kw n) ->
  ac_rels vcost consider asg kw rels cost seen <> AcKeyError.
Proof.
  induction rels as [|r rest IH]; intros cost seen H; simpl; [discriminate|].
  destruct (ac_scope_some vcost consider asg kw (r_scope r) cost seen) as [[[c1 s1] vals] R].
  { intros n Hn. apply H. simpl. apply in_or_app; auto. }
  rewrite R. destruct (r_eval r vals); [|discriminate].
  apply IH. intros n Hn. apply H. simpl. apply in_or_app; auto.
Qed.

Lemma ac_scope_present vcost consider asg kw scope : forall cost seen res,
  (forall n, In n seen -> getv asg n <> None) ->
  ac_scope vcost consider asg kw scope cost seen = Some res ->
  (forall n, In n scope -> present consider asg kw n) /\
  (forall n, In n (snd (fst res)) -> getv asg n <> None).
Proof.
  induction scope as [|n rest IH]; intros cost seen res Hs H; simpl in H.
  - inversion H; subst. simpl. split; [intros ? []|auto].
  - destruct (consider && negb (zmem n seen)) eqn:E.
    + apply andb_true_iff in E as [-> E].
      destruct (getv asg n) as [x|] eqn:G; [|discriminate].
      destruct (ac_scope vcost true asg kw rest (ec_add cost (vcost n x)) (seen ++ [n]))
        as [[[c2 s2] v2]|] eqn:R; [|discriminate].
      inversion H; subst. apply IH in R.
      * destruct R as [R1 R2]. split; auto. intros m [<-|Hm]; auto. unfold present. congruence.
      * intros m Hm. apply in_app_or in Hm as [Hm|[<-|[]]]; auto. congruence.
    + destruct (match getv asg n with Some x => Some x | None => getv kw n end) as [x|] eqn:G;
        [|discriminate].
      destruct (ac_scope vcost consider asg kw rest cost seen) as [[[c2 s2] v2]|] eqn:R; [|discriminate].
      inversion H; subst. apply IH in R; auto. destruct R as [R1 R2]. split; auto.
      intros m [<-|Hm]; auto. unfold present. destruct consider.
      * simpl in E. apply negb_false_iff, zmem_In in E. auto.
      * unfold av. rewrite G. discriminate.
Qed.

Lemma ac_rels_ok_present vcost consider asg kw rels : forall cost seen c,
  (forall n, In n seen -> getv asg n <> None) ->
  ac_rels vcost consider asg kw rels cost seen = AcOk c ->
  forall n, In n (flat_map r_scope rels) -> present consider asg kw n.
Proof.
  induction rels as [|r rest IH]; intros cost seen c Hs H n Hn; simpl in *; [contradiction|].
  destruct (ac_scope vcost consider asg kw (r_scope r) cost seen) as [[[c1 s1] vals]|] eqn:S;
    [|discriminate].
  destruct (r_eval r vals) as [t|]; [|discriminate].
  apply ac_scope_present in S; auto. simpl in S. destruct S as [S1 S2].
  apply in_app_or in Hn as [Hn|Hn]; auto. eapply IH; eauto.
Qed.

Lemma assignment_cost_defined_iff_l vcost consider asg kw rels :
  ((forall n, In n (flat_map r_scope rels) -> present consider asg kw n) ->
     assignment_cost vcost consider asg kw rels <> AcKeyError) /\
  (forall c, assignment_cost vcost consider asg kw rels = AcOk c ->
     forall n, In n (flat_map r_scope rels) -> present consider asg kw n).
Proof.
  split.
  - apply ac_rels_no_keyerror.
  - intros c H. eapply ac_rels_ok_present; [|exact H]. intros ? [].
Qed.
