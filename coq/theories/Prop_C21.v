(* Prop_C21.v -- C21: an agent runs its computations on a single thread, one call at a time.
   Only statements; each closed by an exact lemma from P_Threads.

   Full statement: in any run of the orchestrated runtime in thread mode, every start, message
   handler, pause/resume and periodic action of a computation hosted on an agent runs on that
   agent's own thread, never concurrently with another callback of the same agent; discovery
   callbacks registered by those computations obey the same rule.

   PARTIAL.  M_Threads models the dispatch logic only (which entry point runs on which thread
   and which callbacks it can reach synchronously).  It cannot exhibit OS preemption, the GIL,
   or data races inside CPython; "never concurrently" is obtained as "always the same thread".
   The statement holds of the model under the guard [foreign_calls_only_post] (threads other
   than the agent's own only use entry points that post messages / set flags); the faithful
   model violates the unguarded statement at exactly one place, Orchestrator.start()
   (orch_start_refuted; recorded as finding C21-orchestrator-start-foreign-thread). *)
From PyDcop Require Import Base M_Threads P_Threads.

Theorem callbacks_on_owner_thread : forall it evs,
  exec it = Some evs -> foreign_calls_only_post it ->
  forall e, In e evs -> ce_thread e = TAgent (ce_agent e).
Proof. exact callbacks_on_owner_thread_l. Qed.

Theorem callbacks_never_concurrent : forall (p : list item),
  (forall it, In it p -> foreign_calls_only_post it) ->
  forall it1 it2 evs1 evs2 e1 e2,
    In it1 p -> In it2 p -> exec it1 = Some evs1 -> exec it2 = Some evs2 ->
    In e1 evs1 -> In e2 evs2 -> ce_agent e1 = ce_agent e2 -> ce_thread e1 = ce_thread e2.
Proof. exact callbacks_never_concurrent_l. Qed.

Theorem loop_callbacks_on_owner_thread : forall it evs,
  is_loop (i_root it) = true -> exec it = Some evs ->
  forall e, In e evs -> ce_thread e = TAgent (ce_agent e).
Proof. exact loop_callbacks_on_owner_thread_l. Qed.

Theorem posting_api_runs_no_callback : forall f t a calls evs,
  In f posting_api -> exec (mkItem (RApi f) t a calls) = Some evs -> evs = [].
Proof. exact posting_api_runs_no_callback_l. Qed.

(* the unguarded statement is false of the faithful model *)
Theorem orch_start_refuted :
  exists it evs e, i_root it = RApi ApiOrchStart /\ exec it = Some evs /\ In e evs /\
                   ce_thread e <> TAgent (ce_agent e) /\ ~ foreign_calls_only_post it.
Proof. exact orch_start_refuted_l. Qed.

(* non-vacuity: a run-computations management message handled by agent a1's loop starts two
   computations on a1's thread; a timer thread posting the stop request runs nothing *)
Example c21_nonvacuous :
  exec (mkItem (RLoopMgt MgRun) (TAgent "a1") "a1"
               [("a1", "_mgt_a1", KOnMessage); ("a1", "v1", KStart); ("a1", "v2", KStart)]%string)
  = Some [mkEv "a1" "_mgt_a1" KOnMessage (TAgent "a1"); mkEv "a1" "v1" KStart (TAgent "a1");
          mkEv "a1" "v2" KStart (TAgent "a1")]%string /\
  exec (mkItem (RApi ApiOrchOnTimeout) TTimer "orchestrator" []) = Some [] /\
  exec (mkItem (RApi ApiPostMsg) TMain "a1" [("a1", "v1", KOnMessage)]%string) = None /\
  exec (mkItem (RLoopMsg) TMain "a1" [("a1", "v1", KOnMessage)]%string) = None.
Proof. vm_compute. repeat split; reflexivity. Qed.
