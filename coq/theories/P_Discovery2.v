(* P_Discovery2.v -- C20 deepening, part 1: the infrastructure shared by the three sub-protocols.

   A. "replay": what a FIFO of pending notifications will make of a subscriber's entry, and the
      generic in-flight invariant [Jg] with its three preservation rules (agent side, directory
      frame, directory tells).
   B. network plumbing for an arbitrary history (no restriction on the operations): channel
      typing, the invariants of the directory node that need no guard, and [Q_step]: a predicate
      over (directory state, subscriber state, channel 0->a, channel a->0) is preserved by every
      network step as soon as it is preserved by the two handlers.
   C. what the handlers do to the agent table of a Discovery object.
   Used by P_Discovery2A (agents), P_Discovery2R (replicas), P_Discovery2C (computations with a
   named un-registration), P_Discovery2T (callbacks along a trace). *)
From PyDcop Require Import Base Net M_Discovery P_Discovery.
From Coq Require Import Lia.

Local Notation length := List.length.
Notation rS r := (fst (fst (fst r))).
Notation rO r := (snd (fst (fst r))).
Notation rE r := (snd (fst r)).
Notation rX r := (snd r).
Local Arguments bind : simpl never.

(* ------------------------------------------------------------------ A. replay *)
Section Replay.
  Context {W : Type}.
  (* what a message says about the item: None = nothing, Some None = "removed",
     Some (Some w) = "its value is w" *)
  Variable tell : msg -> option (option W).
  (* the pending own publications that the directory will not ignore while its value is w *)
  Variable about : W -> msg -> bool.

  Fixpoint replay (v : option W) (l : list msg) : option W :=
    match l with
    | [] => v
    | m :: q => replay (match tell m with Some u => u | None => v end) q
    end.

  Lemma replay_app v l l' : replay v (l ++ l') = replay (replay v l) l'.
  Proof. revert v; induction l; simpl; auto. Qed.

  Lemma replay_silent l : (forall m, In m l -> tell m = None) -> forall v, replay v l = v.
  Proof.
    induction l as [|m q IH]; simpl; intros H v; auto.
    rewrite (H m (or_introl eq_refl)). apply IH. intros; apply H; auto.
  Qed.

  Lemma replay_from_none l : forall w, replay None l = Some w -> forall v, replay v l = Some w.
  Proof.
    induction l as [|m q IH]; simpl; intros w H v; [discriminate|].
    destruct (tell m); eauto.
  Qed.

  Lemma replay_change l : forall v w, replay v l = Some w -> forall v', replay v' l = Some w \/ v = Some w.
  Proof.
    induction l as [|m q IH]; simpl; intros v w H v'; auto.
    destruct (tell m); auto.
  Qed.

  Lemma replay_burst l w :
    (forall m, In m l -> tell m = None \/ tell m = Some (Some w)) ->
    forall v, (v = Some w \/ exists m, In m l /\ tell m = Some (Some w)) -> replay v l = Some w.
  Proof.
    induction l as [|m q IH]; simpl; intros Hall v Hv.
    - destruct Hv as [H|[m [[] _]]]; auto.
    - destruct (Hall m (or_introl eq_refl)) as [E|E]; rewrite E.
      + apply IH; [intros; apply Hall; auto|]. destruct Hv as [H|[m' [[->|Hin] Hm']]]; auto.
        * congruence.
        * right; eauto.
      + apply IH; [intros; apply Hall; auto|]. auto.
  Qed.

  (* the generic in-flight invariant: if the subscriber is subscribed and the directory says w, then
     replaying the pending notifications on the subscriber's entry gives w, or a publication of the
     subscriber's own that the directory will act on is still travelling *)
  Definition Jg (sub : Prop) (D v : option W) (N O : list msg) : Prop :=
    forall w, sub -> D = Some w -> replay v N = Some w \/ existsb (about w) O = true.

  (* the subscriber handles message m (from the directory: the head of N; from its environment: an
     operation, N untouched) *)
  Lemma Jg_agent sub D v v' m N N' O outs :
    (N = m :: N') \/ (tell m = None /\ N' = N) ->
    match tell m with
    | Some (Some u) => v' = Some u
    | Some None => True
    | None => v' = v \/ (forall w, v = Some w -> existsb (about w) outs = true)
    end ->
    Jg sub D v N O -> Jg sub D v' N' (O ++ outs).
  Proof.
    intros Hc He HJ w Hs HD. destruct (HJ w Hs HD) as [H1|H3]; [|right; rewrite existsb_app, H3; auto].
    assert (Silent : tell m = None -> replay v N' = Some w -> replay v' N' = Some w \/ existsb (about w) (O ++ outs) = true).
    { intros Ht H. rewrite Ht in He. destruct He as [->|He]; auto.
      destruct (replay_change _ _ _ H v') as [H'|H']; auto.
      right. rewrite existsb_app, (He w H'), orb_true_r. auto. }
    destruct Hc as [->|[Ht ->]]; [|auto].
    simpl in H1. destruct (tell m) as [[u|]|] eqn:Et.
    - subst v'. auto.
    - left. eapply replay_from_none; eauto.
    - auto.
  Qed.

  (* the directory handles a message that changes nothing for this item *)
  Lemma Jg_frame (sub sub' : Prop) D v N O L O' :
    (sub' -> sub) -> (forall m, In m L -> tell m = None) ->
    (forall w, D = Some w -> existsb (about w) O = true -> existsb (about w) O' = true) ->
    Jg sub D v N O -> Jg sub' D v (N ++ L) O'.
  Proof.
    intros Hs HL HO HJ w Hs' HD. destruct (HJ w (Hs Hs') HD) as [H|H].
    - left. rewrite replay_app, replay_silent; auto.
    - right. eauto.
  Qed.

  (* the directory sets the value and tells the subscriber *)
  Lemma Jg_told (sub' : Prop) D' v N L O' :
    (forall w, sub' -> D' = Some w ->
       (exists m, In m L /\ tell m = Some (Some w)) /\
       (forall m, In m L -> tell m = None \/ tell m = Some (Some w))) ->
    Jg sub' D' v (N ++ L) O'.
  Proof.
    intros H w Hs HD. destruct (H w Hs HD) as [H1 H2]. left. rewrite replay_app. apply replay_burst; auto.
  Qed.
End Replay.

Lemma existsb_tail_gen {A} (f : A -> bool) m q : f m = false -> existsb f (m :: q) = true -> existsb f q = true.
Proof. simpl. intros ->. auto. Qed.

(* ------------------------------------------------------------------ C. agent tables *)
Definition va (s : dstate) (x : Z) : option Z := zlookup x (d_agents s).
Definition nodupk {V} (l : list (Z * V)) : Prop := NoDup (map fst l).

Ltac dm := repeat match goal with
  | |- context[match ?x with _ => _ end] => destruct x eqn:?
  end.

Lemma zset_keys {V} k (v : V) l : map fst (zset k v l) = if zmemk k l then map fst l else map fst l ++ [k].
Proof.
  unfold zset, zmemk, mem_key. induction l as [|[k' v'] r IH]; simpl; auto.
  destruct (k =? k') eqn:E; simpl; auto. rewrite IH. destruct (lookup Z.eqb k r); auto.
Qed.

Lemma zmemk_In {V} k (l : list (Z * V)) : zmemk k l = true <-> In k (map fst l).
Proof.
  unfold zmemk, mem_key. induction l as [|[k' v'] r IH]; simpl; [split; [discriminate|tauto]|].
  destruct (k =? k') eqn:E.
  - apply Z.eqb_eq in E. subst. split; auto.
  - apply Z.eqb_neq in E. rewrite IH. split; auto. intros [H|H]; auto. congruence.
Qed.

Lemma NoDup_snoc {A} (x : A) l : NoDup l -> ~ In x l -> NoDup (l ++ [x]).
Proof.
  induction l as [|y r IH]; simpl; intros H Hn.
  - constructor; auto.
  - inversion H; subst. constructor.
    + rewrite in_app_iff. simpl. intuition.
    + apply IH; auto.
Qed.

Lemma nodupk_zset {V} k (v : V) l : nodupk l -> nodupk (zset k v l).
Proof.
  unfold nodupk. rewrite zset_keys. destruct (zmemk k l) eqn:E; auto.
  intros H. apply NoDup_snoc; auto.
  intros Hin. apply zmemk_In in Hin. congruence.
Qed.

Lemma nodupk_filter {V} (f : Z * V -> bool) l : nodupk l -> nodupk (filter f l).
Proof.
  unfold nodupk. induction l as [|p r IH]; simpl; auto. intros H. inversion H; subst.
  destruct (f p); simpl; auto. constructor; auto. intros Hin. apply H2.
  apply in_map_iff in Hin as [q [E Hq]]. apply filter_In in Hq as [Hq _]. apply in_map_iff. eauto.
Qed.

Lemma nodupk_zdel {V} k (l : list (Z * V)) : nodupk l -> nodupk (zdel k l).
Proof. apply nodupk_filter. Qed.

Lemma reg_agent_agents s a ad p : d_agents (rS (d_register_agent s a ad p)) = zset a ad (d_agents s).
Proof. unfold d_register_agent. dm; reflexivity. Qed.

(* the last binding of x in a list of (agent, address) *)
Fixpoint lastb (x : Z) (l : list (Z * Z)) : option Z :=
  match l with
  | [] => None
  | (k, v) :: r => match lastb x r with Some w => Some w | None => if k =? x then Some v else None end
  end.

Lemma register_agents_va l : forall s x,
  va (rS (register_agents s l)) x = match lastb x l with Some w => Some w | None => va s x end.
Proof.
  induction l as [|[k v] r IH]; intros s x; simpl; auto.
  rewrite bind_S, reg_agent_X, IH. destruct (lastb x r); auto.
  unfold va. rewrite reg_agent_agents. destruct (k =? x) eqn:E.
  - apply Z.eqb_eq in E; subst. apply zlookup_zset_same.
  - apply zlookup_zset_other. apply Z.eqb_neq in E. congruence.
Qed.

Lemma lastb_nodup x l : nodupk l -> lastb x l = zlookup x l.
Proof.
  unfold nodupk, zlookup. induction l as [|[k v] r IH]; simpl; auto. intros H. inversion H; subst.
  rewrite IH by auto. rewrite (Z.eqb_sym k x). destruct (x =? k) eqn:E.
  - apply Z.eqb_eq in E; subst. destruct (lookup Z.eqb k r) eqn:El; auto.
    exfalso. apply H2. apply (zlookup_In k z r) in El. apply in_map_iff. exists (k, z). auto.
  - destruct (lookup Z.eqb x r); auto.
Qed.

Lemma zlookup_filter_key {V} (f : Z -> bool) x (l : list (Z * V)) : f x = true ->
  zlookup x (filter (fun p => f (fst p)) l) = zlookup x l.
Proof.
  intros Hf. unfold zlookup. induction l as [|[k v] r IH]; simpl; auto.
  destruct (f k) eqn:E; simpl; destruct (x =? k) eqn:E2; auto.
  apply Z.eqb_eq in E2; subst. congruence.
Qed.

Lemma unsub_comp_agents s c cb : d_agents (rS (d_unsubscribe_comp s c cb)) = d_agents s.
Proof. unfold d_unsubscribe_comp. dm; reflexivity. Qed.

Lemma unreg_comp_agents s c ag p : d_agents (rS (d_unregister_computation s c ag p)) = d_agents s.
Proof.
  unfold d_unregister_computation. dm; simpl; auto.
  rewrite !bind_S. simpl. dm; simpl; rewrite ?unsub_comp_agents; reflexivity.
Qed.

Lemma unregister_all_agents l a : forall s, d_agents (rS (unregister_all s l a)) = d_agents s.
Proof.
  induction l as [|c r IH]; intros s; simpl; auto.
  rewrite bind_S. destruct (rX (d_unregister_computation s c (Some a) false)); [|rewrite IH]; apply unreg_comp_agents.
Qed.

Lemma unreg_agent_agents s a p :
  d_agents (rS (d_unregister_agent s a p)) = d_agents s \/
  d_agents (rS (d_unregister_agent s a p)) = zdel a (d_agents s).
Proof.
  unfold d_unregister_agent.
  match goal with |- context[bind ?r _] => set (r1 := r) end.
  assert (H1 : d_agents (rS r1) = d_agents s).
  { subst r1. dm; try reflexivity. apply unregister_all_agents. }
  rewrite bind_S. destruct (rX r1); [left; auto|].
  dm; simpl; rewrite ?H1; auto.
Qed.

(* a published un-registration either changes nothing or emits exactly the un-publication *)
Lemma unreg_agent_pub s a :
  d_agents (rS (d_unregister_agent s a true)) = d_agents s \/ rO (d_unregister_agent s a true) = [MUnpubAgent a].
Proof.
  unfold d_unregister_agent. destruct (agent_computations s a false).
  - rewrite bind_S, bind_O. simpl. dm; simpl; auto.
  - rewrite bind_S. simpl. auto.
Qed.

Lemma reg_comp_agents s c ag addr p :
  d_agents (rS (d_register_computation s c ag addr p)) = d_agents s \/
  exists g ad, zmemk g (d_agents s) = false /\
    d_agents (rS (d_register_computation s c ag addr p)) = zset g ad (d_agents s).
Proof.
  unfold d_register_computation. destruct (is_none addr && _); [left; reflexivity|].
  rewrite bind_S.
  match goal with |- context[rX ?r] => set (r2 := r) end.
  assert (HX : rX r2 = None) by (subst r2; dm; simpl; auto; apply reg_agent_X).
  rewrite HX.
  assert (H2 : d_agents (rS r2) = d_agents s \/ exists g ad, zmemk g (d_agents s) = false /\ d_agents (rS r2) = zset g ad (d_agents s)).
  { subst r2. destruct addr as [ad|]; [|left; reflexivity]. simpl.
    destruct (zmemk _ _) eqn:E; [left; reflexivity|]. right. eexists _, ad. split; [exact E|].
    rewrite reg_agent_agents. reflexivity. }
  dm; simpl; exact H2.
Qed.

Lemma reg_rep_agents s r g p : d_agents (rS (d_register_replica s r g p)) = d_agents s.
Proof. unfold d_register_replica. dm; reflexivity. Qed.
Lemma unreg_rep_agents s r g p : d_agents (rS (d_unregister_replica s r g p)) = d_agents s.
Proof. unfold d_unregister_replica. dm; reflexivity. Qed.

Lemma subop_agents s o : is_subop o = true -> d_agents (rS (do_op s o)) = d_agents s.
Proof.
  destruct o; try discriminate; intros _; simpl;
    unfold d_subscribe_agent, d_unsubscribe_agent, d_subscribe_all, d_subscribe_comp, d_unsubscribe_comp,
           d_subscribe_rep, d_unsubscribe_rep, sub_cbs; dm; reflexivity.
Qed.

(* ------------------------------------------------------------------ sorted sets and maps *)
Fixpoint ssorted (l : list Z) : Prop :=
  match l with [] => True | x :: r => (forall y, In y r -> x < y) /\ ssorted r end.

Lemma set_add_sorted x l : ssorted l -> ssorted (set_add x l).
Proof.
  induction l as [|y r IH]; simpl; [intuition|]. intros [H1 H2].
  destruct (x =? y) eqn:E; [simpl; auto|]. apply Z.eqb_neq in E.
  destruct (x <? y) eqn:E2.
  - apply Z.ltb_lt in E2. simpl. repeat split; auto. intros z [->|Hz]; auto. specialize (H1 z Hz). lia.
  - apply Z.ltb_ge in E2. simpl. split; auto. intros z Hz. apply set_add_In in Hz as [->|Hz]; auto. lia.
Qed.

Lemma set_remove_sorted x l : ssorted l -> ssorted (set_remove x l).
Proof.
  induction l as [|y r IH]; simpl; auto. intros [H1 H2]. destruct (x =? y); auto.
  simpl. split; auto. intros z Hz. apply set_remove_In in Hz. auto.
Qed.

Lemma set_remove_notin x l : ssorted l -> ~ In x (set_remove x l).
Proof.
  induction l as [|y r IH]; simpl; auto. intros [H1 H2]. destruct (x =? y) eqn:E.
  - apply Z.eqb_eq in E; subst. intros H. specialize (H1 y H). lia.
  - apply Z.eqb_neq in E. intros [H|H]; [congruence|]. apply IH; auto.
Qed.

Lemma set_remove_other x y l : In y l -> y <> x -> In y (set_remove x l).
Proof.
  induction l as [|z r IH]; simpl; auto. intros [->|H] Hne.
  - destruct (x =? y) eqn:E; [apply Z.eqb_eq in E; congruence|]. left; auto.
  - destruct (x =? z); [auto|right; auto].
Qed.

Fixpoint ksorted (m : list (Z * list Z)) : Prop :=
  match m with [] => True | (k, _) :: r => (forall k', In k' (map fst r) -> k < k') /\ ksorted r end.

Lemma ksorted_filter f m : ksorted m -> ksorted (filter f m).
Proof.
  induction m as [|[k v] r IH]; simpl; auto. intros [H1 H2]. destruct (f (k, v)); simpl; auto.
  split; auto. intros k' Hk. apply H1. apply in_map_iff in Hk as [p [E Hp]]. apply filter_In in Hp as [Hp _].
  apply in_map_iff. eauto.
Qed.

Lemma sm_ins_keys k v m k' : In k' (map fst (sm_ins k v m)) -> k' = k \/ In k' (map fst m).
Proof.
  induction m as [|[k2 v2] r IH]; simpl; [intuition|].
  destruct (k =? k2) eqn:E; simpl; [apply Z.eqb_eq in E; subst; intuition|].
  destruct (k <? k2); simpl; intuition.
Qed.

Lemma sm_ins_sorted k v m : ksorted m -> ksorted (sm_ins k v m).
Proof.
  induction m as [|[k2 v2] r IH]; simpl; [intuition|]. intros [H1 H2].
  destruct (k =? k2) eqn:E; [apply Z.eqb_eq in E; subst; simpl; auto|]. apply Z.eqb_neq in E.
  destruct (k <? k2) eqn:E2; simpl.
  - apply Z.ltb_lt in E2. repeat split; auto. intros k' [<-|Hk]; auto. specialize (H1 k' Hk). lia.
  - apply Z.ltb_ge in E2. split; auto. intros k' Hk. apply sm_ins_keys in Hk as [->|Hk]; auto. lia.
Qed.

Lemma sm_put_sorted k v m : ksorted m -> ksorted (sm_put k v m).
Proof. unfold sm_put. destruct v; [apply ksorted_filter|apply sm_ins_sorted]. Qed.

Lemma zlookup_notin {V} k (l : list (Z * V)) : ~ In k (map fst l) -> zlookup k l = None.
Proof. intros H. apply zmemk_false. destruct (zmemk k l) eqn:E; auto. apply zmemk_In in E. contradiction. Qed.

Lemma sm_purge_keys x m k : In k (map fst (sm_purge x m)) -> In k (map fst m).
Proof.
  unfold sm_purge. intros H. apply in_map_iff in H as [p [E Hp]]. apply filter_In in Hp as [Hp _].
  apply in_map_iff in Hp as [q [E2 Hq]]. subst. simpl. apply in_map_iff. eauto.
Qed.

Lemma sm_purge_sorted x m : ksorted m -> ksorted (sm_purge x m).
Proof.
  induction m as [|[k v] r IH]; simpl; auto. intros [H1 H2].
  unfold sm_purge in *. simpl. destruct (set_remove x v); simpl; auto.
  split; auto. intros k' Hk. apply H1. eapply sm_purge_keys. exact Hk.
Qed.

Lemma sm_purge_get x m y n : ksorted m -> In n (sm_get y (sm_purge x m)) -> In n (sm_get y m).
Proof.
  unfold sm_get, get_or_nil. induction m as [|[k v] r IH]; simpl; auto. intros [H1 H2].
  assert (Hdrop : y = k -> zlookup y (sm_purge x r) = None).
  { intros ->. apply zlookup_notin. intros Hk. apply sm_purge_keys in Hk. specialize (H1 k Hk). lia. }
  unfold sm_purge in *. simpl. unfold zlookup in *. simpl.
  destruct (set_remove x v) as [|z t] eqn:Es; simpl.
  - destruct (y =? k) eqn:E.
    + apply Z.eqb_eq in E. rewrite (Hdrop E). intros [].
    + apply IH; auto.
  - destruct (y =? k) eqn:E.
    + rewrite <- Es. apply set_remove_In.
    + apply IH; auto.
Qed.

(* ------------------------------------------------------------------ B. directory node, any message *)
Definition Da (st : nst) (x : Z) : option Z := zlookup x (g_agents (n_dir st)).
Definition Sa (st : nst) (x : Z) : list Z := sm_get x (g_sub_agents (n_dir st)).
Definition Sall (st : nst) : list Z := g_sub_all (n_dir st).
Definition Sr (st : nst) (r : Z) : list Z := sm_get r (g_sub_reps (n_dir st)).
Definition dreps (s : dstate) (r : Z) : list Z := get_or_nil r (d_reps s).

Lemma unreg_comp_none_X s c p : rX (d_unregister_computation s c None p) = None.
Proof.
  unfold d_unregister_computation. destruct (zlookup c (d_comps s)); [|reflexivity]. simpl.
  destruct p; [|reflexivity]. rewrite !bind_X. simpl.
  unfold d_unsubscribe_comp.
  pose proof (unsub_none_noerr (d_ccbs (set_comps s (zdel c (d_comps s)))) c) as Hn.
  destruct (unsub_cbs _ c None) as [[t snd0] err]. simpl in Hn. subst err. reflexivity.
Qed.

Lemma unsub_comp_reps s c cb : d_reps (rS (d_unsubscribe_comp s c cb)) = d_reps s.
Proof. unfold d_unsubscribe_comp. dm; reflexivity. Qed.
Lemma unreg_comp_reps s c ag p : d_reps (rS (d_unregister_computation s c ag p)) = d_reps s.
Proof.
  unfold d_unregister_computation. dm; simpl; auto.
  rewrite !bind_S. simpl. dm; simpl; rewrite ?unsub_comp_reps; reflexivity.
Qed.
Lemma unreg_comp_comps_In s c ag p e :
  In e (d_comps (rS (d_unregister_computation s c ag p))) -> In e (d_comps s).
Proof.
  unfold d_unregister_computation. dm; simpl; auto.
  - rewrite !bind_S. simpl. dm; simpl; rewrite ?unsub_comp_comps; simpl; intros H; apply filter_In in H; tauto.
  - intros H; apply filter_In in H; tauto.
Qed.

(* only computations are removed: everything the agent / replica sub-protocols look at is kept *)
Definition compdel (st st' : nst) : Prop :=
  g_agents (n_dir st') = g_agents (n_dir st) /\ g_sub_agents (n_dir st') = g_sub_agents (n_dir st) /\
  g_sub_comps (n_dir st') = g_sub_comps (n_dir st) /\
  g_sub_reps (n_dir st') = g_sub_reps (n_dir st) /\ g_sub_all (n_dir st') = g_sub_all (n_dir st) /\
  d_agents (n_disc st') = d_agents (n_disc st) /\ d_reps (n_disc st') = d_reps (n_disc st) /\
  (forall e, In e (d_comps (n_disc st')) -> In e (d_comps (n_disc st))).

Lemma compdel_refl st : compdel st st.
Proof. unfold compdel. intuition. Qed.
Lemma compdel_trans st1 st2 st3 : compdel st1 st2 -> compdel st2 st3 -> compdel st1 st3.
Proof. unfold compdel. intros (A1&A2&A3&A4&A5&A6&A7&A8) (B1&B2&B3&B4&B5&B6&B7&B8). repeat split; try congruence. auto. Qed.

Definition compmsg (x : msg) : Prop := exists c, x = MSubComp c false \/ exists ag, x = MUnpubComp c ag.

Lemma dir_unreg_comp_spec st c ag :
  let r := dir_unregister_computation st c ag in
  compdel st (rS r) /\ (ag = None -> rX r = None) /\ forall d x, In (d, x) (rO r) -> compmsg x.
Proof.
  simpl. unfold dir_unregister_computation.
  destruct (stale_unpub st c ag); [split; [apply compdel_refl|split; auto; intros ? ? []]|].
  destruct (zmemk c _); [|split; [apply compdel_refl|split; auto; intros ? ? []]].
  pose proof (unreg_comp_O (n_disc st) c None false) as HO.
  pose proof (unreg_comp_none_X (n_disc st) c false) as HX.
  pose proof (unreg_comp_agents (n_disc st) c None false) as HA.
  pose proof (unreg_comp_reps (n_disc st) c None false) as HR.
  pose proof (unreg_comp_comps_In (n_disc st) c None false) as HC.
  destruct (d_unregister_computation (n_disc st) c None false) as [[[d1 o1] e1] x1]. simpl in *.
  split; [unfold compdel; simpl; intuition|]. split; auto.
  intros d x H. exists c. apply in_app_or in H as [H|H].
  - apply to_self_In in H as [_ H]. apply HO in H as [->| ->]; eauto.
  - apply to_all_In in H as [_ ->]. eauto.
Qed.

Lemma dir_unreg_all_spec l : forall st,
  let r := dir_unregister_all st l in
  compdel st (rS r) /\ rX r = None /\ forall d x, In (d, x) (rO r) -> compmsg x.
Proof.
  induction l as [|c t IH]; intros st; simpl.
  - split; [apply compdel_refl|]. split; auto. intros ? ? [].
  - destruct (dir_unreg_comp_spec st c None) as (A1 & A2 & A3).
    destruct (dir_unregister_computation st c None) as [[[st1 o1] e1] x1]. simpl in *.
    rewrite (A2 eq_refl). destruct (IH st1) as (B1 & B2 & B3).
    destruct (dir_unregister_all st1 t) as [[[st2 o2] e2] x2]. simpl in *.
    split; [eapply compdel_trans; eauto|]. split; auto.
    intros d x H. apply in_app_or in H as [H|H]; eauto.
Qed.

Lemma agent_computations_sub s s' x b :
  (forall e, In e (d_comps s') -> In e (d_comps s)) -> agent_computations s x b = [] -> agent_computations s' x b = [].
Proof.
  unfold agent_computations. intros Hsub H.
  destruct (filter _ (d_comps s')) as [|e t] eqn:E; auto. exfalso.
  assert (He : In e (filter (fun p => (x =? snd p) && (b || negb (is_technical (fst p)))) (d_comps s'))) by (rewrite E; left; auto).
  apply filter_In in He as [He1 He2].
  assert (He' : In (fst e) (map fst (filter (fun p => (x =? snd p) && (b || negb (is_technical (fst p)))) (d_comps s)))).
  { apply in_map. apply filter_In. auto. }
  rewrite H in He'. contradiction.
Qed.

(* Directory.unregister_agent: refused (nothing happens) or carried out *)
Lemma dir_unreg_agent_spec st x :
  let r := dir_unregister_agent st x in
  (agent_computations (n_disc st) x false <> [] /\ rS r = st /\ rO r = [])
  \/ (agent_computations (n_disc st) x false = [] /\
      g_sub_reps (n_dir (rS r)) = g_sub_reps (n_dir st) /\ d_reps (n_disc (rS r)) = d_reps (n_disc st) /\
      Da (rS r) x = None /\ (forall y, y <> x -> Da (rS r) y = Da st y /\ va (n_disc (rS r)) y = va (n_disc st) y) /\
      (nodupk (d_agents (n_disc st)) -> nodupk (d_agents (n_disc (rS r)))) /\
      (g_sub_agents (n_dir (rS r)) = g_sub_agents (n_dir st) \/
       g_sub_agents (n_dir (rS r)) = sm_purge x (g_sub_agents (n_dir st))) /\
      (forall n, In n (Sall (rS r)) -> In n (Sall st)) /\
      (forall d m, In (d, m) (rO r) -> m = MUnpubAgent x \/ compmsg m)).
Proof.
  simpl. unfold dir_unregister_agent.
  destruct (agent_computations (n_disc st) x false) eqn:Eac; [|left; repeat split; auto; discriminate].
  right. split; auto.
  destruct (dir_unreg_all_spec (agent_computations (n_disc st) x true) st) as (C & HX & HO).
  destruct (dir_unregister_all st (agent_computations (n_disc st) x true)) as [[[st1 o1] e1] x1]. simpl in *. subst x1.
  destruct C as (C1 & C2 & C3 & C4 & C5 & C6 & C7 & C8).
  unfold Da, va, Sall.
  destruct (zmemk x (g_agents (n_dir st1))) eqn:Ek.
  - pose proof (unreg_agent_agents (n_disc st1) x false) as HA.
    assert (HR : d_reps (rS (d_unregister_agent (n_disc st1) x false)) = d_reps (n_disc st1)).
    { unfold d_unregister_agent. rewrite (agent_computations_sub _ _ x false C8 Eac).
      rewrite bind_S. simpl. dm; reflexivity. }
    assert (HOut : rO (d_unregister_agent (n_disc st1) x false) = []).
    { unfold d_unregister_agent. rewrite (agent_computations_sub _ _ x false C8 Eac).
      rewrite bind_O. simpl. dm; reflexivity. }
    destruct (d_unregister_agent (n_disc st1) x false) as [[[d2 o2] e2] x2]. simpl in *. subst o2.
    repeat split.
    + congruence.
    + congruence.
    + apply zlookup_zdel_same.
    + rewrite zlookup_zdel_other by auto. congruence.
    + destruct HA as [HA|HA]; rewrite HA, C6; auto. apply zlookup_zdel_other; auto.
    + intros Hn. destruct HA as [HA|HA]; rewrite HA, C6; auto. now apply nodupk_zdel.
    + right. congruence.
    + intros n Hn. apply set_remove_In in Hn. congruence.
    + intros d m H. apply in_app_or in H as [H|H]; [right; eauto|]. simpl in H.
      apply to_all_In in H as [_ ->]. auto.
  - simpl. repeat split; try congruence; auto.
    + apply zmemk_false. congruence.
    + intros d m H. right; eauto.
Qed.

(* ---- what any message does to the agent tables and the subscription maps of the directory node *)
Lemma dir_recv_agents st s m :
  let r := dir_recv st s m in
  match m with
  | MPubAgent x ad => d_agents (n_disc (rS r)) = zset x ad (d_agents (n_disc st)) /\
                      g_agents (n_dir (rS r)) = zset x ad (g_agents (n_dir st))
  | MUnpubAgent x => True
  | MPubComp c g addr => g_agents (n_dir (rS r)) = g_agents (n_dir st) /\
      (d_agents (n_disc (rS r)) = d_agents (n_disc st) \/
       exists g' ad, zmemk g' (d_agents (n_disc st)) = false /\
                     d_agents (n_disc (rS r)) = zset g' ad (d_agents (n_disc st)))
  | _ => d_agents (n_disc (rS r)) = d_agents (n_disc st) /\ g_agents (n_dir (rS r)) = g_agents (n_dir st)
  end.
Proof.
  destruct m as [o|x ad|l|x|x b|c g addr|c ag|c b|r g b|r b]; simpl; auto.
  - unfold dir_register_agent. pose proof (reg_agent_agents (n_disc st) x ad false) as H.
    destruct (d_register_agent (n_disc st) x ad false) as [[[d1 o1] e1] x1]. simpl in *. auto.
  - destruct b; [destruct (x =? STAR)|]; simpl; auto.
  - unfold dir_register_computation. pose proof (reg_comp_agents (n_disc st) c (Some g) addr false) as H.
    destruct (d_register_computation (n_disc st) c (Some g) addr false) as [[[d1 o1] e1] [x1|]]; simpl in *; auto.
    destruct (match addr with Some x => Some x | None => _ end); simpl; auto.
  - destruct (dir_unreg_comp_spec st c ag) as (C & _). unfold compdel in C. simpl in C. tauto.
  - destruct b; simpl; auto.
  - destruct b; simpl.
    + pose proof (reg_rep_agents (n_disc st) r g false) as H.
      destruct (d_register_replica (n_disc st) r g false) as [[[d1 o1] e1] [x1|]]; simpl in *; auto.
    + pose proof (unreg_rep_agents (n_disc st) r g true) as H.
      destruct (d_unregister_replica (n_disc st) r g true) as [[[d1 o1] e1] x1]; simpl in *; auto.
  - destruct b; simpl; auto. destruct (zmemk r (d_comps (n_disc st))); simpl; auto.
    destruct (zmemk r (d_reps (n_disc st))); simpl; auto.
Qed.

Lemma dir_recv_subs st s m :
  let r := dir_recv st s m in
  g_sub_reps (n_dir (rS r)) =
    match m with
    | MSubRep r true => sm_add r s (g_sub_reps (n_dir st))
    | MSubRep r false => sm_del r s (g_sub_reps (n_dir st))
    | _ => g_sub_reps (n_dir st)
    end /\
  match m with
  | MSubAgent x true => g_sub_agents (n_dir (rS r)) =
        if x =? STAR then g_sub_agents (n_dir st) else sm_add x s (g_sub_agents (n_dir st))
  | MSubAgent x false => g_sub_agents (n_dir (rS r)) = sm_del x s (g_sub_agents (n_dir st))
  | MUnpubAgent x => g_sub_agents (n_dir (rS r)) = g_sub_agents (n_dir st) \/
                     g_sub_agents (n_dir (rS r)) = sm_purge x (g_sub_agents (n_dir st))
  | _ => g_sub_agents (n_dir (rS r)) = g_sub_agents (n_dir st)
  end.
Proof.
  destruct m as [o|x ad|l|x|x b|c g addr|c ag|c b|r g b|r b]; simpl; auto.
  - unfold dir_register_agent.
    destruct (d_register_agent (n_disc st) x ad false) as [[[d1 o1] e1] x1]. simpl in *. auto.
  - destruct (dir_unreg_agent_spec st x) as [(_ & E & _)|(_ & E1 & _ & _ & _ & _ & E2 & _)]; simpl in *.
    + rewrite E. auto.
    + auto.
  - destruct b; [destruct (x =? STAR)|]; simpl; auto.
  - unfold dir_register_computation.
    destruct (d_register_computation (n_disc st) c (Some g) addr false) as [[[d1 o1] e1] [x1|]]; simpl in *; auto.
    destruct (match addr with Some x => Some x | None => _ end); simpl; auto.
  - destruct (dir_unreg_comp_spec st c ag) as (C & _). unfold compdel in C. simpl in C. split; apply C.
  - destruct b; simpl; auto.
  - destruct b; simpl.
    + destruct (d_register_replica (n_disc st) r g false) as [[[d1 o1] e1] [x1|]]; simpl in *; auto.
    + destruct (d_unregister_replica (n_disc st) r g true) as [[[d1 o1] e1] x1]; simpl in *; auto.
  - destruct b; simpl; auto. destruct (zmemk r (d_comps (n_disc st))); simpl; auto.
Qed.

(* ---- invariants of the directory node that hold on every reachable configuration *)
Definition Binv (st : nst) : Prop :=
  nodupk (d_agents (n_disc st)) /\
  (forall x ad, Da st x = Some ad -> va (n_disc st) x = Some ad) /\
  ksorted (g_sub_agents (n_dir st)) /\
  (forall r, ssorted (Sr st r)).

Lemma sm_get_sorted_put k v m : (forall r, ssorted (sm_get r m)) -> ssorted v -> forall r, ssorted (sm_get r (sm_put k v m)).
Proof.
  intros H Hv r. destruct (Z.eq_dec r k) as [->|Hne].
  - now rewrite sm_get_put_same.
  - rewrite sm_get_put_other; auto.
Qed.

Lemma Binv_recv st s m : Binv st -> Binv (rS (dir_recv st s m)).
Proof.
  intros (B1 & B2 & B3 & B4).
  pose proof (dir_recv_agents st s m) as HA. pose proof (dir_recv_subs st s m) as [HR HS]. simpl in *.
  unfold Binv, Da, va, Sr in *. repeat split.
  - destruct m as [o|x ad|l|x|x b|c g addr|c ag|c b|r g b|r b]; simpl in *; try assumption; try (destruct HA as [-> _]; assumption).
    + destruct HA as [-> _]. now apply nodupk_zset.
    + destruct (dir_unreg_agent_spec st x) as [(_ & E & _)|(_ & _ & _ & _ & _ & E & _)]; simpl in *; [rewrite E|]; auto.
    + destruct HA as [_ [->|(g' & ad & _ & ->)]]; auto. now apply nodupk_zset.
  - intros y ad.
    destruct m as [o|x ad'|l|x|x b|c g addr|c ag|c b|r g b|r b]; simpl in *; try apply B2; try (destruct HA as [-> ->]; apply B2).
    + destruct HA as [-> ->]. destruct (Z.eq_dec y x) as [->|Hne].
      * now rewrite !zlookup_zset_same.
      * rewrite !zlookup_zset_other by auto. apply B2.
    + destruct (dir_unreg_agent_spec st x) as [(_ & E & _)|(_ & _ & _ & E1 & E2 & _)]; simpl in *.
      * rewrite E. apply B2.
      * unfold Da, va in *. destruct (Z.eq_dec y x) as [->|Hne]; [rewrite E1; discriminate|].
        destruct (E2 y Hne) as [-> ->]. apply B2.
    + destruct HA as [-> [->|(g' & ad0 & Hk & ->)]]; [apply B2|]. intros H. pose proof (B2 y ad H) as Hv.
      rewrite zlookup_zset_other; auto. intros ->. apply zmemk_false in Hk. congruence.
  - destruct m as [o|x ad|l|x|x b|c g addr|c ag|c b|r g b|r b]; simpl in *; try assumption; try (rewrite HS; assumption).
    + destruct HS as [->| ->]; auto. now apply sm_purge_sorted.
    + destruct b; rewrite HS; [destruct (x =? STAR); auto|]; apply sm_put_sorted; auto.
  - rewrite HR. destruct m as [o|x ad|l|x|x b|c g addr|c ag|c b|r g b|r b]; auto.
    destruct b; apply sm_get_sorted_put; auto; [apply set_add_sorted|apply set_remove_sorted]; apply B4.
Qed.

Lemma Binv_init : Binv (init_nst 0).
Proof.
  unfold Binv, Da, va, Sr. simpl. repeat split; auto.
  - unfold nodupk. simpl. repeat constructor. intros [].
  - discriminate.
Qed.

(* ------------------------------------------------------------------ B. network plumbing *)
Definition noaddrnone (m : msg) : bool := match m with MPubComp _ _ None => false | _ => true end.
(* only the directory talks to the agents, the environments only issue operations, and the
   directory always attaches an address to the publication of a computation *)
Definition ty (s d : node) (m : msg) : Prop :=
  (s <> 0 -> d <> 0 -> is_op m = true) /\ (s = 0 -> noaddrnone m = true).

Lemma dir_outs_addr st s m d x : In (d, x) (rO (dir_recv st s m)) -> noaddrnone x = true.
Proof.
  destruct m as [o|y ad|l|y|y b|c g addr|c ag|c b|r g b|r b]; simpl; try tauto.
  - unfold dir_register_agent. destruct (d_register_agent (n_disc st) y ad false) as [[[d1 o1] e1] x1]. simpl.
    intros H. apply in_app_or in H as [H|H]; apply to_all_In in H as [_ ->]; auto.
  - intros H. destruct (dir_unreg_agent_spec st y) as [(_ & _ & E)|(_ & _ & _ & _ & _ & _ & _ & _ & E)]; simpl in E.
    + rewrite E in H. contradiction.
    + apply E in H as [->|(c & [->|(ag & ->)])]; auto.
  - destruct b; [destruct (y =? STAR)|]; simpl; try tauto.
    + intros H. apply to_all_In in H as [_ ->]. auto.
    + destruct (zlookup y (g_agents (n_dir st))); simpl; [|tauto]. intros [H|[]]. inversion H; subst; auto.
  - unfold dir_register_computation.
    destruct (d_register_computation (n_disc st) c (Some g) addr false) as [[[d1 o1] e1] [x1|]]; simpl; [tauto|].
    destruct (match addr with Some x => Some x | None => _ end); simpl; [|tauto].
    intros H. apply to_all_In in H as [_ ->]. auto.
  - intros H. destruct (dir_unreg_comp_spec st c ag) as (_ & _ & E). apply E in H as (c' & [->|(ag' & ->)]); auto.
  - destruct b; simpl; [|tauto]. destruct (zlookup c (g_comps (n_dir st))); [|simpl; tauto].
    destruct (zlookup z (g_agents (n_dir st))); simpl; [|tauto]. intros [H|[]]. inversion H; subst; auto.
  - destruct b; simpl.
    + destruct (d_register_replica (n_disc st) r g false) as [[[d1 o1] e1] [x1|]]; simpl; [tauto|].
      intros H. apply to_all_In in H as [_ ->]. auto.
    + pose proof (unreg_rep_O (n_disc st) r g true) as HO.
      destruct (d_unregister_replica (n_disc st) r g true) as [[[d1 o1] e1] x1]; simpl in *.
      intros H. apply in_app_or in H as [H|H].
      * apply to_self_In in H as [_ H]. apply HO in H. subst; auto.
      * apply to_all_In in H as [_ ->]. auto.
  - destruct b; simpl; [|tauto]. destruct (zmemk r (d_comps (n_disc st))); simpl; [|tauto].
    unfold to_all_rep. intros H. apply in_map_iff in H as [i [E _]]. inversion E; subst; auto.
Qed.

Section Net2.
  Variable h : hist_t.
  Variable a : Z.
  Hypothesis a_pos : 0 < a.

  Notation P := (disc_proto h).
  Notation cfg := (config nst msg).

  Definition typed (cf : cfg) : Prop :=
    (forall s d m, In m (chan cf s d) -> ty s d m) /\
    (forall n s m, In (s, m) (w_held (nodes cf n)) -> ty s n m).

  Lemma node_outs_ty d st s m st' outs evs y x :
    node_recv d st s m = (st', outs, evs) -> In (y, x) outs -> ty d y x.
  Proof.
    unfold node_recv, ty. intros H Hin. destruct (d =? 0) eqn:E0.
    - apply Z.eqb_eq in E0. subst d.
      pose proof (dir_outs_addr st s m y x) as Hd.
      destruct (dir_recv st s m) as [[[st1 o1] e1] x1]. inversion H; subst. simpl in Hd. split; auto; congruence.
    - apply Z.eqb_neq in E0. destruct (0 <? d).
      + destruct (disc_recv (n_disc st) m) as [[[d1 o1] e1] x1]. inversion H; subst.
        apply to_self_In in Hin as [-> Hin]. split; congruence.
      + inversion H; subst. contradiction.
  Qed.

  Lemma typed_step act cf : typed cf -> typed (fst (step P cf act)).
  Proof.
    intros [Hc Hh]. destruct (step_cases h act cf) as [E|[(n & _ & Hr & outs & Ho & E)|[(s & d & m & q & _ & Hcd & Hr & st' & outs & evs & Hn & E)|(s & d & m & q & _ & Hcd & Hr & E)]]];
      rewrite E; clear E; [split; auto| | |].
    - split; simpl.
      + intros x y z Hz. apply reinject_all_In in Hz as [Hz|[-> Hz]].
        * rewrite send_all_spec in Hz. destruct (x =? n) eqn:Ex; [|auto].
          apply in_app_or in Hz as [Hz|Hz]; [auto|]. apply msgs_to_In in Hz.
          destruct Ho as [->|[Hn ->]]; [contradiction|]. apply in_map_iff in Hz as [o [Eo Hin]].
          inversion Eo; subst. apply Z.eqb_eq in Ex. subst x. split; [reflexivity|lia].
        * unfold reinject in Hz. apply Hh in Hz. auto.
      + intros k x z. unfold upd_node. destruct (k =? n) eqn:Ek; simpl; [contradiction|apply Hh].
    - split; simpl.
      + intros x y z Hz. rewrite send_all_spec in Hz. destruct (x =? d) eqn:Ex.
        * apply Z.eqb_eq in Ex; subst x. apply in_app_or in Hz as [Hz|Hz].
          -- eapply upd_chan_In in Hz; eauto.
          -- apply msgs_to_In in Hz. eapply node_outs_ty; eauto.
        * eapply upd_chan_In in Hz; eauto.
      + intros k x z. unfold upd_node. destruct (k =? d) eqn:Ek; simpl; [|apply Hh].
        apply Z.eqb_eq in Ek; subst k. apply Hh.
    - split; simpl.
      + intros x y z Hz. eapply upd_chan_In in Hz; eauto.
      + intros k x z. unfold upd_node. destruct (k =? d) eqn:Ek; simpl; [|apply Hh].
        apply Z.eqb_eq in Ek; subst k. intros Hz. apply in_app_or in Hz as [Hz|[Hz|[]]]; [auto|].
        inversion Hz; subst. apply Hc. rewrite Hcd. left; auto.
  Qed.

  (* the state of the directory node changes only by its handler *)
  Lemma dirst_step act cf : w_running (nodes cf 0) = true ->
    dirst (fst (step P cf act)) = dirst cf \/
    exists s m, dirst (fst (step P cf act)) = rS (dir_recv (dirst cf) s m).
  Proof.
    intros R0. destruct (step_cases h act cf) as [E|[(n & _ & Hr & outs & Ho & E)|[(s & d & m & q & _ & Hcd & Hr & st' & outs & evs & Hn & E)|(s & d & m & q & _ & Hcd & Hr & E)]]];
      rewrite E; clear E; auto; unfold dirst; simpl.
    - left. rewrite upd_node_other; auto. intros <-; congruence.
    - destruct (Z.eq_dec d 0) as [->|Hd].
      + right. exists s, m. rewrite upd_node_same. simpl. unfold node_recv in Hn. simpl in Hn.
        destruct (dir_recv (w_st (nodes cf 0)) s m) as [[[st1 o1] e1] x1]. inversion Hn; subst. reflexivity.
      + left. rewrite upd_node_other; auto.
    - left. rewrite upd_node_other; auto. intros <-; congruence.
  Qed.

  Lemma Binv_step act cf : w_running (nodes cf 0) = true -> Binv (dirst cf) -> Binv (dirst (fst (step P cf act))).
  Proof.
    intros R0 HB. destruct (dirst_step act cf R0) as [->|(s & m & ->)]; auto. now apply Binv_recv.
  Qed.

  (* a predicate over what the sub-protocol between the directory and subscriber a can see *)
  Variable Q : nst -> dstate -> list msg -> list msg -> Prop.
  Definition Qc (cf : cfg) : Prop := Q (dirst cf) (disc cf a) (chan cf 0 a) (chan cf a 0).

  Lemma Q_step act cf :
    w_running (nodes cf 0) = true -> w_running (nodes cf a) = true -> typed cf -> Qc cf ->
    (forall s m q, act = Deliver s 0 -> chan cf s 0 = m :: q ->
       Q (rS (dir_recv (dirst cf) s m)) (disc cf a)
         (chan cf 0 a ++ msgs_to a (rO (dir_recv (dirst cf) s m)))
         (if a =? s then q else chan cf a 0)) ->
    (forall s m q, act = Deliver s a -> chan cf s a = m :: q -> (s <> 0 -> is_op m = true) ->
       Q (dirst cf) (rS (disc_recv (disc cf a) m)) (if 0 =? s then q else chan cf 0 a)
         (chan cf a 0 ++ rO (disc_recv (disc cf a) m))) ->
    Qc (fst (step P cf act)).
  Proof.
    intros R0 Ra [Hc Hh] HQ Hdir Hag.
    assert (Same : forall cf' : cfg, dirst cf' = dirst cf -> disc cf' a = disc cf a ->
              chan cf' 0 a = chan cf 0 a -> chan cf' a 0 = chan cf a 0 -> Qc cf').
    { intros cf' E1 E2 E3 E4. unfold Qc. rewrite E1, E2, E3, E4. exact HQ. }
    destruct (step_cases h act cf) as [E|[(n & Ea & Hr & outs & Ho & E)|[(s & d & m & q & Ea & Hcd & Hr & st' & outs & evs & Hn & E)|(s & d & m & q & Ea & Hcd & Hr & E)]]].
    - rewrite E. exact HQ.
    - assert (n <> 0) by (intros ->; congruence). assert (n <> a) by (intros ->; congruence).
      rewrite E. apply Same; unfold dirst, disc; simpl.
      + rewrite upd_node_other; auto.
      + rewrite upd_node_other; auto.
      + rewrite reinject_all_other, send_all_spec by auto.
        assert (E0 : (0 =? n) = false) by (apply Z.eqb_neq; auto). now rewrite E0.
      + rewrite reinject_all_other, send_all_spec by auto.
        assert (E0 : (a =? n) = false) by (apply Z.eqb_neq; auto). now rewrite E0.
    - destruct (Z.eq_dec d 0) as [->|Hd0]; [|destruct (Z.eq_dec d a) as [->|Hda]].
      + unfold node_recv in Hn. simpl in Hn.
        destruct (dir_recv (w_st (nodes cf 0)) s m) as [[[st1 o1] e1] x1] eqn:Ed.
        inversion Hn; subst st' outs evs; clear Hn.
        specialize (Hdir s m q Ea Hcd). unfold dirst in Hdir. rewrite Ed in Hdir. simpl in Hdir.
        rewrite E. unfold Qc, dirst, disc. simpl.
        rewrite ?upd_node_same; rewrite upd_node_other by lia. simpl.
        rewrite !send_all_spec. simpl. rewrite upd_chan_other by lia.
        assert (E0 : (a =? 0) = false) by (apply Z.eqb_neq; lia). rewrite E0.
        rewrite upd_chan_at. exact Hdir.
      + unfold node_recv in Hn.
        assert (E0 : (a =? 0) = false) by (apply Z.eqb_neq; lia). rewrite E0 in Hn.
        assert (E1 : (0 <? a) = true) by (apply Z.ltb_lt; lia). rewrite E1 in Hn.
        destruct (disc_recv (n_disc (w_st (nodes cf a))) m) as [[[d1 o1] e1] x1] eqn:Ed.
        inversion Hn; subst st' outs evs; clear Hn.
        assert (Hop : s <> 0 -> is_op m = true).
        { intros Hs. apply (Hc s a m); [rewrite Hcd; left; auto|auto|lia]. }
        specialize (Hag s m q Ea Hcd Hop). unfold disc in Hag. rewrite Ed in Hag. simpl in Hag.
        rewrite E. unfold Qc, dirst, disc. simpl.
        rewrite ?upd_node_same; rewrite upd_node_other by lia. simpl.
        rewrite !send_all_spec. rewrite Z.eqb_refl.
        assert (E2 : (0 =? a) = false) by (apply Z.eqb_neq; lia). rewrite E2.
        rewrite upd_chan_at, upd_chan_other by lia. rewrite msgs_to_self. simpl. exact Hag.
      + rewrite E. apply Same; unfold dirst, disc; simpl.
        * rewrite upd_node_other; auto.
        * rewrite upd_node_other; auto.
        * rewrite send_all_spec. assert (E0 : (0 =? d) = false) by (apply Z.eqb_neq; auto).
          rewrite E0. apply upd_chan_other; auto.
        * rewrite send_all_spec. assert (E0 : (a =? d) = false) by (apply Z.eqb_neq; auto).
          rewrite E0. apply upd_chan_other; auto.
    - assert (d <> 0) by (intros ->; congruence). assert (d <> a) by (intros ->; congruence).
      rewrite E. apply Same; unfold dirst, disc; simpl.
      + rewrite upd_node_other; auto.
      + rewrite upd_node_other; auto.
      + apply upd_chan_other; auto.
      + apply upd_chan_other; auto.
  Qed.
End Net2.

(* ------------------------------------------------------------------ executions *)
Section Exec2.
  Variable h : hist_t.
  Variable a : Z.
  Hypothesis a_pos : 0 < a.

  Notation P := (disc_proto h).
  Notation cfg := (config nst msg).

  (* what holds of every configuration reached once nodes 0 and a run: no guard, any history *)
  Definition Base (cf : cfg) : Prop :=
    w_running (nodes cf 0) = true /\ w_running (nodes cf a) = true /\ typed cf /\ Binv (dirst cf).

  Lemma Base_step act cf : Base cf -> Base (fst (step P cf act)).
  Proof.
    intros (R0 & Ra & T & B). split; [now apply running_step|]. split; [now apply running_step|].
    split; [now apply typed_step|]. now apply Binv_step.
  Qed.

  (* a guard on single steps, required along a schedule *)
  Variable G : cfg -> action -> Prop.
  Fixpoint along (cf : cfg) (sched : list action) : Prop :=
    match sched with
    | [] => True
    | act :: r => G cf act /\ along (fst (step P cf act)) r
    end.

  Variable I : cfg -> Prop.
  Hypothesis I_step : forall act cf, Base cf -> I cf -> G cf act -> I (fst (step P cf act)).

  Lemma I_exec sched : forall cf, Base cf -> I cf -> along cf sched ->
    Base (fst (exec P cf sched)) /\ I (fst (exec P cf sched)).
  Proof.
    induction sched as [|act r IH]; intros cf HB HI HG; [split; assumption|].
    rewrite exec_cons. destruct HG as [G1 G2]. apply IH; auto. now apply Base_step.
  Qed.

  (* the configurations the runtime starts from: some nodes started, only operations queued *)
  Definition Kinit2 (cf : cfg) : Prop :=
    (forall n, w_held (nodes cf n) = [] /\ w_st (nodes cf n) = init_nst n) /\
    (forall s d m, In m (chan cf s d) -> exists o, m = MOp o /\ In o (hist_of h d) /\ s < 0 /\ d = - s).

  Lemma Kinit2_start n cf : Kinit2 cf -> Kinit2 (fst (step P cf (Start n))).
  Proof.
    intros [Kn Kc]. destruct (step_cases h (Start n) cf) as [E|[(k & Ek & Hr & outs & Ho & E)|[(s & d & m & q & Ek & _)|(s & d & m & q & Ek & _)]]];
      try discriminate; rewrite E; clear E; [split; auto|].
    inversion Ek; subst k. split; simpl.
    - intros x. unfold upd_node. destruct (x =? n) eqn:Ex; simpl; [|apply Kn].
      apply Z.eqb_eq in Ex; subst x. split; auto. apply Kn.
    - intros x y z Hz. destruct (Kn n) as [Hh _]. rewrite Hh in Hz. unfold reinject in Hz. simpl in Hz.
      rewrite send_all_spec in Hz. destruct (x =? n) eqn:Ex; [|auto].
      apply Z.eqb_eq in Ex; subst x. apply in_app_or in Hz as [Hz|Hz]; [auto|].
      apply msgs_to_In in Hz. destruct Ho as [->|[Hn ->]]; [contradiction|].
      apply in_map_iff in Hz as [o [Eo Hin]]. inversion Eo; subst. exists o. repeat split; auto.
  Qed.

  Lemma starts_spec2 ns : forall cf, Kinit2 cf ->
    Kinit2 (fst (exec P cf (map Start ns)))
    /\ forall n, In n ns -> w_running (nodes (fst (exec P cf (map Start ns))) n) = true.
  Proof.
    induction ns as [|k r IH]; intros cf HK; [split; auto; intros n []|].
    change (map Start (k :: r)) with (Start k :: map (@Start) r). rewrite exec_cons.
    destruct (IH _ (Kinit2_start k cf HK)) as [K1 K2]. split; auto.
    intros n [->|Hn]; auto. apply running_exec.
    unfold step. destruct (w_running (nodes cf n)) eqn:Er; [simpl; exact Er|].
    cbn [p_start disc_proto]. destruct (disc_start h n (w_st (nodes cf n))) as [[st' o] e]. simpl.
    now rewrite upd_node_same.
  Qed.

  Lemma Kinit2_init : Kinit2 (init P).
  Proof. split; simpl; auto. intros s d m []. Qed.

  Lemma Kinit2_Base cf : Kinit2 cf -> w_running (nodes cf 0) = true -> w_running (nodes cf a) = true -> Base cf.
  Proof.
    intros [Kn Kc] R0 Ra. split; auto. split; auto. split.
    - split.
      + intros s d m H. apply Kc in H as (o & -> & _ & Hs & _). split; [reflexivity|lia].
      + intros n s m H. destruct (Kn n) as [Hh _]. rewrite Hh in H. contradiction.
    - unfold dirst. destruct (Kn 0) as [_ ->]. apply Binv_init.
  Qed.

  (* nothing travels between the directory and a, and the directory is in its initial state *)
  Lemma Kinit2_quiet cf : Kinit2 cf -> dirst cf = init_nst 0 /\ chan cf 0 a = [] /\ chan cf a 0 = [].
  Proof.
    intros [Kn Kc]. split; [apply Kn|]. split.
    - destruct (chan cf 0 a) as [|m q] eqn:E; auto. destruct (Kc 0 a m) as (o & _ & _ & Hs & _); [rewrite E; left; auto|lia].
    - destruct (chan cf a 0) as [|m q] eqn:E; auto. destruct (Kc a 0 m) as (o & _ & _ & Hs & _); [rewrite E; left; auto|lia].
  Qed.
End Exec2.

(* ------------------------------------------------------------------ what the directory sends, per message *)
Lemma dir_outs_class st s m d x : In (d, x) (rO (dir_recv st s m)) ->
  match m with
  | MPubAgent y ad => x = MPubAgent y ad
  | MUnpubAgent y => x = MUnpubAgent y \/ compmsg x
  | MSubAgent y true =>
      if y =? STAR then x = MPubAgents (filter (fun p => negb (fst p =? 0)) (d_agents (n_disc st)))
      else d = s /\ exists ad, x = MPubAgent y ad /\ Da st y = Some ad
  | MPubComp c g addr => exists ad, x = MPubComp c g (Some ad)
  | MUnpubComp c ag => compmsg x
  | MSubComp c true => d = s /\ exists g ad, x = MPubComp c g (Some ad)
  | MPubRep r g b => x = MPubRep r g b
  | MSubRep r true => d = s /\ exists g, x = MPubRep r g true /\ In g (dreps (n_disc st) r)
  | _ => False
  end.
Proof.
  destruct m as [o|y ad|l|y|y b|c g addr|c ag|c b|r g b|r b]; simpl; try tauto.
  - unfold dir_register_agent. destruct (d_register_agent (n_disc st) y ad false) as [[[d1 o1] e1] x1]. simpl.
    intros H. apply in_app_or in H as [H|H]; apply to_all_In in H as [_ ->]; auto.
  - intros H. destruct (dir_unreg_agent_spec st y) as [(_ & _ & E)|(_ & _ & _ & _ & _ & _ & _ & _ & E)]; simpl in E.
    + rewrite E in H. contradiction.
    + apply E in H. exact H.
  - destruct b; [destruct (y =? STAR)|]; simpl; try tauto.
    + intros H. apply to_all_In in H as [_ ->]. auto.
    + unfold Da. destruct (zlookup y (g_agents (n_dir st))); simpl; [|tauto]. intros [H|[]]. inversion H; subst; eauto.
  - unfold dir_register_computation.
    destruct (d_register_computation (n_disc st) c (Some g) addr false) as [[[d1 o1] e1] [x1|]]; simpl; [tauto|].
    destruct (match addr with Some x => Some x | None => _ end); simpl; [|tauto].
    intros H. apply to_all_In in H as [_ ->]. eauto.
  - intros H. destruct (dir_unreg_comp_spec st c ag) as (_ & _ & E). eapply E; eauto.
  - destruct b; simpl; [|tauto]. destruct (zlookup c (g_comps (n_dir st))); [|simpl; tauto].
    destruct (zlookup z (g_agents (n_dir st))); simpl; [|tauto]. intros [H|[]]. inversion H; subst; eauto.
  - destruct b; simpl.
    + destruct (d_register_replica (n_disc st) r g false) as [[[d1 o1] e1] [x1|]]; simpl; [tauto|].
      intros H. apply to_all_In in H as [_ ->]. auto.
    + pose proof (unreg_rep_O (n_disc st) r g true) as HO.
      destruct (d_unregister_replica (n_disc st) r g true) as [[[d1 o1] e1] x1]; simpl in *.
      intros H. apply in_app_or in H as [H|H].
      * apply to_self_In in H as [_ H]. apply HO in H. subst; auto.
      * apply to_all_In in H as [_ ->]. auto.
  - destruct b; simpl; [|tauto]. destruct (zmemk r (d_comps (n_disc st))); simpl; [|tauto].
    unfold to_all_rep. intros H. apply in_map_iff in H as [i [E Hi]]. inversion E; subst. split; auto. exists i. auto.
Qed.

Lemma dir_recv_all st s m :
  match m with
  | MSubAgent y true => Sall (rS (dir_recv st s m)) = if y =? STAR then set_add s (Sall st) else Sall st
  | MUnpubAgent y => forall n, In n (Sall (rS (dir_recv st s m))) -> In n (Sall st)
  | _ => Sall (rS (dir_recv st s m)) = Sall st
  end.
Proof.
  unfold Sall.
  destruct m as [o|y ad|l|y|y b|c g addr|c ag|c b|r g b|r b]; simpl; auto.
  - unfold dir_register_agent.
    destruct (d_register_agent (n_disc st) y ad false) as [[[d1 o1] e1] x1]. simpl in *. auto.
  - destruct (dir_unreg_agent_spec st y) as [(_ & E & _)|(_ & _ & _ & _ & _ & _ & _ & E & _)]; simpl in *.
    + rewrite E. auto.
    + exact E.
  - destruct b; [destruct (y =? STAR)|]; simpl; auto.
  - unfold dir_register_computation.
    destruct (d_register_computation (n_disc st) c (Some g) addr false) as [[[d1 o1] e1] [x1|]]; simpl in *; auto.
    destruct (match addr with Some x => Some x | None => _ end); simpl; auto.
  - destruct (dir_unreg_comp_spec st c ag) as (C & _). unfold compdel in C. simpl in C. apply C.
  - destruct b; simpl; auto.
  - destruct b; simpl.
    + destruct (d_register_replica (n_disc st) r g false) as [[[d1 o1] e1] [x1|]]; simpl in *; auto.
    + destruct (d_unregister_replica (n_disc st) r g true) as [[[d1 o1] e1] x1]; simpl in *; auto.
  - destruct b; simpl; auto. destruct (zmemk r (d_comps (n_disc st))); simpl; auto.
Qed.
