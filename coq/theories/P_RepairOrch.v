(* P_RepairOrch.v -- proofs about the repair bookkeeping model (C27). *)
From PyDcop Require Import Base P_Base M_RepairOrch.

Lemma seqb_iff' a b : String.eqb a b = true <-> a = b.
Proof. apply String.eqb_eq. Qed.

(* ---------- folds of dict_set ---------- *)
Lemma fold_set_keeps {V} (v : V) (l : list string) : forall d c,
  slookup c d = Some v ->
  slookup c (fold_left (fun d x => dict_set String.eqb x v d) l d) = Some v.
Proof.
  induction l as [|x r IH]; simpl; intros d c H; auto.
  apply IH. unfold slookup. destruct (String.eqb c x) eqn:E.
  - apply String.eqb_eq in E; subst. apply lookup_dict_set_same, seqb_iff'.
  - rewrite lookup_dict_set_other; auto using seqb_iff'. apply String.eqb_neq in E; auto.
Qed.

Lemma fold_set_lookup_in {V} (v : V) (l : list string) : forall d c,
  In c l -> slookup c (fold_left (fun d x => dict_set String.eqb x v d) l d) = Some v.
Proof.
  induction l as [|x r IH]; simpl; intros d c H; [contradiction|].
  destruct H as [->|H]; auto.
  apply fold_set_keeps. unfold slookup. apply lookup_dict_set_same, seqb_iff'.
Qed.

Lemma fold_set_In {V} (v : V) (l : list string) : forall d c s,
  In (c, s) (fold_left (fun d x => dict_set String.eqb x v d) l d) ->
  In (c, s) d \/ (In c l /\ s = v).
Proof.
  induction l as [|x r IH]; simpl; intros d c s H; auto.
  apply IH in H as [H|[H ->]]; auto.
  apply (In_dict_set String.eqb seqb_iff') in H as [H|H]; auto.
  inversion H; subst. auto.
Qed.

Lemma filter_nil_iff {A} (p : A -> bool) l : filter p l = [] <-> forall x, In x l -> p x = false.
Proof.
  induction l as [|y r IH]; simpl; [tauto|]. destruct (p y) eqn:E; split.
  - discriminate.
  - intros H. specialize (H y (or_introl eq_refl)). congruence.
  - intros H x [->|Hx]; auto. apply IH; auto.
  - intros H. apply IH. auto.
Qed.

(* ---------- the status of a finished repair ---------- *)
Lemma finish_status resume agts comps dc agents b :
  In (ROStatus b) (snd (finish_repair resume agts comps dc agents)) ->
  (b = true <-> forall c s, In (c, s) comps -> s <> None).
Proof.
  unfold finish_repair; simpl. intros [H|H].
  - inversion H; subst; clear H.
    destruct (filter _ comps) as [|x r] eqn:F.
    + split; auto. intros _ c s Hin ->. rewrite filter_nil_iff in F. specialize (F _ Hin). discriminate.
    + split; [discriminate|]. intros Hall. exfalso.
      assert (In x (filter (fun kv : string * option string =>
                  match snd kv with None => true | Some _ => false end) comps)) as Hx
        by (rewrite F; left; reflexivity).
      apply filter_In in Hx as [Hx Hp]. destruct x as [c [a|]]; simpl in Hp; [discriminate|].
      now apply (Hall c None Hx).
  - destruct resume; simpl in H; [|contradiction].
    apply in_map_iff in H as [x [Hx _]]. discriminate.
Qed.

Lemma repair_status_ok_iff_l : forall ro st a sel ags b,
  In (ROStatus b) (snd (rstep ro st (RvRepairDone a sel ags))) ->
  (b = true <-> forall c s, In (c, s) (r_comps (fst (rstep ro st (RvRepairDone a sel ags)))) -> s <> None).
Proof.
  intros ro st a sel ags b. simpl.
  destruct (slookup a (r_agts st)) as [[]|]; simpl; try (intros []).
  destruct (with_state SRepairRun _).
  - intros H. exact (finish_status _ _ _ _ _ _ H).
  - simpl. intros [].
Qed.

Lemma repair_done_records_selection_l : forall ro st a sel ags c,
  slookup a (r_agts st) = Some SRepairRun -> In c sel ->
  slookup c (r_comps (fst (rstep ro st (RvRepairDone a sel ags)))) = Some (Some a).
Proof.
  intros ro st a sel ags c Ha Hc. simpl. rewrite Ha.
  destruct (with_state SRepairRun _); simpl; now apply fold_set_lookup_in.
Qed.

(* a repair_done of an agent that is not in state repair_run is dropped: nothing changes *)
Lemma repair_done_ignored_unless_running_l : forall ro st a sel ags,
  slookup a (r_agts st) <> Some SRepairRun -> rstep ro st (RvRepairDone a sel ags) = (st, []).
Proof.
  intros ro st a sel ags H. simpl. destruct (slookup a (r_agts st)) as [[]|]; auto. congruence.
Qed.

(* ---------- every "re-hosted" mark comes from an agent that selected the computation ---------- *)
Definition selected_by (tr : list rev) (c a : string) : Prop :=
  exists sel ags, In (RvRepairDone a sel ags) tr /\ In c sel.

Lemma rrun_snoc ro st tr e : rrun ro st (tr ++ [e]) = fst (rstep ro (rrun ro st tr) e).
Proof. unfold rrun. now rewrite fold_left_app. Qed.

Lemma comps_marks_selected_l : forall ro tr c a,
  In (c, Some a) (r_comps (rrun ro rinit tr)) -> selected_by tr c a.
Proof.
  intros ro tr. induction tr as [|e tr IH] using List.rev_ind; intros c a H.
  - contradiction.
  - rewrite rrun_snoc in H.
    assert (Hmono : forall c a, selected_by tr c a -> selected_by (tr ++ [e]) c a).
    { intros c0 a0 [sel [ags [H1 H2]]]. exists sel, ags. split; auto. apply in_or_app; auto. }
    set (st := rrun ro rinit tr) in *.
    destruct e as [ags|ags|x|lv ags orph cands|x|x sel ags]; simpl in H.
    + apply Hmono, IH, H.
    + apply Hmono, IH, H.
    + destruct (slookup x (r_agts st)) as [[]|]; simpl in H; apply Hmono, IH, H.
    + destruct orph as [|o r]; simpl in H; [apply Hmono, IH, H|].
      change (fold_left (fun d c0 => dict_set String.eqb c0 None d) r
                (dict_set String.eqb o None (r_comps st)))
        with (fold_left (fun d c0 => dict_set String.eqb c0 (@None string) d) (o :: r) (r_comps st)) in H.
      apply fold_set_In in H as [H|[_ H]]; [apply Hmono, IH, H | discriminate].
    + destruct (slookup x (r_agts st)) as [[]|]; simpl in H; try (apply Hmono, IH, H).
      destruct (with_state SRepairSetup _); simpl in H; apply Hmono, IH, H.
    + destruct (slookup x (r_agts st)) as [[]|] eqn:E; simpl in H; try (apply Hmono, IH, H).
      assert (Hc : In (c, Some a) (fold_left (fun d c0 => dict_set String.eqb c0 (Some x) d) sel (r_comps st))).
      { destruct (with_state SRepairRun _); simpl in H; exact H. }
      apply fold_set_In in Hc as [Hc|[Hc Heq]]; [apply Hmono, IH, Hc|].
      inversion Heq; subst. exists sel, ags. split; auto. apply in_or_app; right; left; reflexivity.
Qed.

(* OK is reported only if every computation recorded as orphaned was selected by some agent *)
Lemma repair_ok_every_orphan_selected_l : forall ro tr a sel ags,
  In (ROStatus true) (snd (rstep ro (rrun ro rinit tr) (RvRepairDone a sel ags))) ->
  forall c s, In (c, s) (r_comps (rrun ro rinit (tr ++ [RvRepairDone a sel ags]))) ->
  exists b, s = Some b /\ selected_by (tr ++ [RvRepairDone a sel ags]) c b.
Proof.
  intros ro tr a sel ags Hst c s Hin.
  pose proof (repair_status_ok_iff_l _ _ _ _ _ _ Hst) as [Hok _].
  rewrite rrun_snoc in Hin. specialize (Hok eq_refl c s Hin).
  destruct s as [b|]; [|congruence]. exists b. split; auto.
  apply (comps_marks_selected_l ro). now rewrite rrun_snoc.
Qed.

(* ---------- agent side ---------- *)
Lemma rehost_only_replica_holders_l : forall replicas orphaned a values c,
  map fst values = setup_candidates replicas orphaned a ->
  In c (agent_selected values) ->
  In a (replica_agents replicas c) /\ In c orphaned.
Proof.
  intros replicas orphaned a values c Hv Hc. unfold agent_selected in Hc.
  apply in_map_iff in Hc as [[c' v] [Hf Hin]]. simpl in Hf; subst c'.
  apply filter_In in Hin as [Hin _].
  assert (In c (map fst values)) as Hm by (change c with (fst (c, v)); now apply in_map).
  rewrite Hv in Hm. unfold setup_candidates in Hm. apply filter_In in Hm as [Ho Hr].
  split; auto. now apply smem_In.
Qed.

(* hosts of an orphaned computation after the repair = the agents that selected it *)
Lemma orphan_hosts_are_selectors_l : forall hosting leaving selections c,
  (forall a, In (c, a) hosting -> In a leaving) ->
  hosts_after hosting leaving selections c =
  map fst (filter (fun asel => smem c (snd asel)) selections).
Proof.
  intros hosting leaving selections c Horph. unfold hosts_after.
  assert (filter (fun ca : string * string => String.eqb (fst ca) c && negb (smem (snd ca) leaving)) hosting = []) as ->; auto.
  apply filter_nil_iff. intros [c' a] Hin. simpl.
  destruct (String.eqb c' c) eqn:E; auto. apply String.eqb_eq in E; subst c'.
  apply Horph in Hin. apply smem_In in Hin. now rewrite Hin.
Qed.

(* ---------- the full statement is false of the faithful model ---------- *)
Local Open Scope string_scope.
Lemma repair_ok_not_exactly_one_refuted_l :
  exists tr hosting leaving selections c,
    In (ROStatus true) (snd (rstep false (rrun false rinit tr)
                                   (RvRepairDone "a2" ["v1"] ["a1"; "a2"]))) /\
    selections = [("a1", ["v1"]); ("a2", ["v1"])]%string /\
    (forall a sel, In (a, sel) selections -> selected_by (tr ++ [RvRepairDone "a2" ["v1"] ["a1"; "a2"]]) "v1" a)%string /\
    hosts_after hosting leaving selections c = ["a1"; "a2"]%string.
Proof.
  exists [RvRun ["a0"; "a1"; "a2"]; RvRemoval ["a0"] ["a0"; "a1"; "a2"] ["v1"] ["a1"; "a2"];
          RvRepairReady "a1"; RvRepairReady "a2"; RvRepairDone "a1" ["v1"] ["a1"; "a2"]]%string.
  exists [("v1", "a0"); ("v2", "a1")]%string, ["a0"]%string,
         [("a1", ["v1"]); ("a2", ["v1"])]%string, "v1"%string.
  split; [vm_compute; left; reflexivity|]. split; [reflexivity|]. split; [|vm_compute; reflexivity].
  intros a sel [H|[H|[]]]; inversion H; subst; eexists; eexists; split;
    try (simpl; eauto 12); simpl; auto.
Qed.
