(* P_Ucs8.v -- C25 deepening, part 6: a bound on the number of messages ever handled by agents.
   Global measure Psi = sum over the messages in flight (channels between existing nodes + hold
   buffers) of a weight + the weight of the orchestrator's pending orders:
     weight(token m) = 1 + Phi m,   weight(replicate order for d) = 1 + #comps(d) * Phi0.
   Psi never increases along a step and strictly decreases whenever a running agent handles a
   message; so in EVERY schedule at most Psi(init) = sum_d (1 + #comps(d) * Phi0) messages are
   handled by agents (ucs_terminates_l).  No guard is needed. *)
From PyDcop Require Import Base P_Base Net M_Ucs P_Ucs P_Ucs2 P_Ucs3 P_Ucs4 P_Ucs6 P_Ucs7.
From Coq Require Import Lia ZifyBool.

Section Bound.
  Variable C : cfg.
  Notation P := (ucs_proto C).
  Notation U := (P_Ucs.U C).
  Notation inU := (P_Ucs.inU C).

  (* ---- weighted sums over the channels / hold buffers of the existing nodes *)
  Variable w : Z -> msg -> nat.
  Definition wl (d : Z) (l : list msg) : nat := list_sum (map (w d) l).
  Definition wcc (ch : node -> node -> list msg) : nat := lsum (fun s => lsum (fun d => wl d (ch s d)) U) U.
  Definition wchd (nd : node -> nwrap nstate msg) : nat := lsum (fun d => wl d (map snd (w_held (nd d)))) U.
  Definition wouts (outs : list (node * msg)) : nat := list_sum (map (fun dm => w (fst dm) (snd dm)) outs).

  Lemma wl_app d a b : wl d (a ++ b) = (wl d a + wl d b)%nat.
  Proof. unfold wl. rewrite map_app, list_sum_app. reflexivity. Qed.
  Lemma wl_cons d m l : wl d (m :: l) = (w d m + wl d l)%nat.
  Proof. reflexivity. Qed.

  Lemma wcc_upd ch s d q :
    (wcc (upd_chan ch s d q) + b2n (inU s && inU d) * wl d (ch s d)
     = wcc ch + b2n (inU s && inU d) * wl d q)%nat.
  Proof.
    set (A := wl d (ch s d)). set (B := wl d q).
    set (dl := fun x y => b2n ((x =? s) && (y =? d))).
    assert (PW : forall x y, (wl y (upd_chan ch s d q x y) + dl x y * A = wl y (ch x y) + dl x y * B)%nat).
    { intros x y. unfold upd_chan, dl. destruct (Z.eqb_spec x s), (Z.eqb_spec y d); simpl; subst; unfold A, B; lia. }
    assert (ROW : forall x, (lsum (fun y => wl y (upd_chan ch s d q x y)) U + lsum (dl x) U * A
                             = lsum (fun y => wl y (ch x y)) U + lsum (dl x) U * B)%nat).
    { intros x. rewrite <- !lsum_lin. apply lsum_ext. intros y _. apply PW. }
    assert (DL : forall x, lsum (dl x) U = (b2n (Z.eqb x s) * b2n (inU d))%nat).
    { intros x. unfold dl, P_Ucs.inU. rewrite <- (lsum_delta d U (U_NoDup C)), <- lsum_scale. apply lsum_ext.
      intros y _. destruct (x =? s), (y =? d); reflexivity. }
    assert (TOT : (wcc (upd_chan ch s d q) + lsum (fun x => lsum (dl x) U) U * A
                   = wcc ch + lsum (fun x => lsum (dl x) U) U * B)%nat).
    { unfold wcc. rewrite <- !lsum_lin. apply lsum_ext. intros x _. apply ROW. }
    assert (DD : lsum (fun x => lsum (dl x) U) U = b2n (inU s && inU d)).
    { rewrite (lsum_ext _ (fun x => b2n (inU d) * b2n (Z.eqb x s))%nat) by (intros x _; rewrite DL; lia).
      rewrite lsum_scale, (lsum_delta s U (U_NoDup C)). unfold P_Ucs.inU. destruct (zmem s U), (zmem d U); reflexivity. }
    rewrite DD in TOT. exact TOT.
  Qed.

  Lemma wchd_upd nd n wr :
    (wchd (upd_node nd n wr) + b2n (inU n) * wl n (map snd (w_held (nd n)))
     = wchd nd + b2n (inU n) * wl n (map snd (w_held wr)))%nat.
  Proof.
    set (A := wl n (map snd (w_held (nd n)))). set (B := wl n (map snd (w_held wr))).
    assert (PW : forall y, (wl y (map snd (w_held (upd_node nd n wr y))) + b2n (Z.eqb y n) * A
                            = wl y (map snd (w_held (nd y))) + b2n (Z.eqb y n) * B)%nat).
    { intros y. unfold upd_node. destruct (Z.eqb_spec y n); simpl; subst; unfold A, B; lia. }
    assert (TOT : (wchd (upd_node nd n wr) + lsum (fun y => b2n (Z.eqb y n)) U * A
                   = wchd nd + lsum (fun y => b2n (Z.eqb y n)) U * B)%nat).
    { unfold wchd. rewrite <- !lsum_lin. apply lsum_ext. intros y _. apply PW. }
    rewrite (lsum_delta n U (U_NoDup C)) in TOT. exact TOT.
  Qed.

  Lemma wcc_send_all outs : forall ch src, (wcc (send_all ch src outs) <= wcc ch + wouts outs)%nat.
  Proof.
    induction outs as [|[d m] r IH]; intros ch src; simpl; [unfold wouts; simpl; lia|].
    etransitivity; [apply IH|]. unfold wouts. simpl.
    pose proof (wcc_upd ch src d (ch src d ++ [m])) as E. rewrite wl_app in E.
    unfold wl at 3 in E. simpl in E. destruct (inU src && inU d); simpl in E; lia.
  Qed.

  Lemma wcc_reinject l : forall ch dst,
    (wcc (reinject_all ch dst l) <= wcc ch + b2n (inU dst) * wl dst (map snd l))%nat.
  Proof.
    unfold reinject_all. induction l as [|[s m] r IH]; intros ch dst; simpl; [unfold wl; simpl; lia|].
    set (c' := fold_right _ ch r).
    pose proof (wcc_upd c' s dst (m :: c' s dst)) as E. rewrite wl_cons in E.
    specialize (IH ch dst). fold c' in IH. rewrite wl_cons.
    destruct (inU s), (inU dst); simpl in *; lia.
  Qed.
End Bound.

Section Terminates.
  Variable C : cfg.
  Notation P := (ucs_proto C).
  Notation U := (P_Ucs.U C).
  Notation inU := (P_Ucs.inU C).
  Notation config := (Net.config nstate msg).

  Definition ncomps (d : Z) : nat := List.length (a_comps (agent C d)).
  Definition omega (d : Z) (m : msg) : nat :=
    match m with
    | MReplicate _ => S (ncomps d * Phi0 C)
    | _ => S (Phi C m)
    end.
  Definition Omega : nat := list_sum (map (fun a => S (ncomps a * Phi0 C)) (agent_ids C)).
  Definition Psi (cf : config) : nat :=
    (wcc C omega (chan cf) + wchd C omega (nodes cf) + b2n (negb (w_running (nodes cf ORCH))) * Omega)%nat.

  (* ---- sources are existing nodes *)
  Lemma step_src cf a : src_ok C cf -> src_ok C (fst (step P cf a)).
  Proof.
    intros [SC SH]. destruct a as [n|s d]; simpl.
    - destruct (w_running (nodes cf n)) eqn:Er; [split; auto|].
      change (p_start P n (w_st (nodes cf n))) with (ucs_start C n (w_st (nodes cf n))).
      pose proof (start_outs C n (w_st (nodes cf n))) as SO.
      destruct (ucs_start C n (w_st (nodes cf n))) as [[st' outs] evs]. simpl.
      assert (ON : forall x, In x outs -> n = ORCH) by (destruct SO as [->|[-> _]]; [intros x []|auto]).
      split.
      + intros s d m G. apply In_reinject_all in G as [G|[E G]].
        * apply In_send_all in G as [G|[E G]]; [eauto|]. subst. rewrite (ON _ G). reflexivity.
        * apply reinject_In in G. eauto.
      + intros d s m. simpl. unfold upd_node. cbv beta. destruct (d =? n); simpl; intros G; [destruct G|eauto].
    - destruct (chan cf s d) as [|m q] eqn:Ech; [split; auto|].
      assert (Us : inU s = true) by (apply (SC s d m); rewrite Ech; left; auto).
      assert (SUB : forall x y m', In m' (upd_chan (chan cf) s d q x y) -> inU x = true).
      { intros x y m' G. apply In_upd_chan in G as [(E1 & E2 & G)|G]; [subst; auto|eauto]. }
      destruct (w_running (nodes cf d)) eqn:Er.
      + change (p_recv P d (w_st (nodes cf d)) s m) with (ucs_recv C d (w_st (nodes cf d)) s m).
        pose proof (recv_outs_agent C d (w_st (nodes cf d)) s m) as RA.
        destruct (ucs_recv C d (w_st (nodes cf d)) s m) as [[st' outs] evs]. simpl in *. split.
        * intros x y m' G. apply In_send_all in G as [G|[E G]]; [eauto|]. subst. eauto.
        * intros y x m'. simpl. unfold upd_node. cbv beta. destruct (y =? d) eqn:Ey; simpl; intros G; [|eauto].
          apply Z.eqb_eq in Ey. subst. eauto.
      + simpl. split; [eauto|].
        intros y x m'. simpl. unfold upd_node. cbv beta. destruct (y =? d) eqn:Ey; simpl; intros G; [|eauto].
        apply Z.eqb_eq in Ey. subst. apply in_app_or in G as [G|[G|[]]]; [eauto|]. inversion G; subst. auto.
  Qed.

  Lemma reachable_src cf : reachable P cf -> src_ok C cf.
  Proof.
    induction 1 as [|cf a R IH]; [split; [intros s d m []|intros d s m []]|]. apply step_src; auto.
  Qed.

  (* ---- how many tokens a handler emits *)
  Lemma replicate_loop_len me k : forall comps s outs evs,
    (List.length (snd (fst (fst (replicate_loop C me k comps s outs evs)))) <= List.length outs + List.length comps)%nat.
  Proof.
    induction comps as [|x rest IH]; intros s outs evs; simpl; [lia|].
    destruct (psort _) as [|[c0 q0] r0]; [simpl; lia|].
    match goal with |- context [on_request C me s ?b ?sp ?rq ?p ?v ?cc ?fp ?cn ?h ?e] =>
      pose proof (on_request_outcome C false me s b sp rq p v cc fp cn h e) as O;
      destruct (on_request C me s b sp rq p v cc fp cn h e) as [[[s1 o1] e1] raised] end.
    destruct O as (evs1 & E & D).
    assert (L1 : (List.length o1 <= 1)%nat).
    { destruct D as [(_ & (d & m & -> & _) & _)|[(_ & -> & _)|(_ & -> & _)]]; simpl; lia. }
    destruct raised; simpl.
    - rewrite app_length. lia.
    - etransitivity; [apply IH|]. rewrite app_length. lia.
  Qed.

  Lemma replicate_len me s k :
    (List.length (snd (fst (fst (replicate C me s k)))) <= ncomps me)%nat.
  Proof.
    unfold replicate, ncomps. destruct (a_comps (agent C me)) as [|x0 r0] eqn:Ec; [simpl; lia|].
    destruct (neighbors C me); [simpl; lia|].
    pose proof (replicate_loop_len me k (x0 :: r0) (set_inprog s (fold_left tracker_add (map (@comp_name) (x0 :: r0)) (s_inprog s))) [] []) as L.
    simpl in *. lia.
  Qed.

  Lemma wouts_bound (outs : list (node * msg)) B :
    (forall d m, In (d, m) outs -> (omega d m <= B)%nat) -> (wouts omega outs <= List.length outs * B)%nat.
  Proof.
    unfold wouts. induction outs as [|[d m] r IH]; simpl; intros H; [lia|].
    pose proof (H d m (or_introl eq_refl)). assert (forall d' m', In (d', m') r -> (omega d' m' <= B)%nat) by (intros; apply H; right; auto).
    specialize (IH H1). lia.
  Qed.

  (* a running agent handling a message emits strictly less weight than it consumes *)
  Lemma recv_weight d st src m : is_agent C d = true -> mok3 C d m ->
    (wouts omega (snd (fst (ucs_recv C d st src m))) < omega d m)%nat.
  Proof.
    intros Ad MO. destruct (tok_of m) as [t|] eqn:T.
    - pose proof (recv_token C d st src m t Ad T) as RT. pose proof (ucs_recv_var C d st src m MO) as RV.
      destruct (ucs_recv C d st src m) as [[st' outs] e]. simpl in *.
      assert (OM : omega d m = S (Phi C m)) by (destruct m; simpl in T; try discriminate; reflexivity).
      destruct RT as [((d' & m' & -> & Tm') & _)|[(-> & _)|(-> & _)]]; try (unfold wouts; simpl; lia).
      destruct (RV d' m' (or_introl eq_refl)) as [_ H]. specialize (H t T).
      unfold wouts. simpl. destruct m' as [k|t'|t']; simpl in Tm'; try discriminate; simpl in *; lia.
    - destruct m as [k|t|t]; simpl in T; try discriminate. unfold ucs_recv. rewrite Ad. cbn [negb]. cbv beta iota.
      pose proof (replicate_len d st k) as L. pose proof (replicate_Phi0 C d st k Ad) as B.
      pose proof (replicate_outs_own C d st k) as TK.
      destruct (replicate C d st k) as [[[s' outs] e] b]. simpl in *.
      assert (W : (wouts omega outs <= List.length outs * Phi0 C)%nat).
      { apply wouts_bound. intros d' m' I. specialize (B d' m' I). destruct (TK d' m' I) as (c1 & _ & Tk).
        destruct m'; simpl in Tk; try discriminate; simpl in *; lia. }
      pose proof (Nat.mul_le_mono_r _ _ (Phi0 C) L). lia.
  Qed.

  (* ---- the global measure *)
  Definition handled (cf : config) (a : action) : bool :=
    match a with
    | Deliver s d => match chan cf s d with [] => false | _ :: _ => w_running (nodes cf d) && is_agent C d end
    | Start _ => false
    end.

  Lemma wouts_orders k : wouts omega (map (fun a => (a, MReplicate k)) (agent_ids C)) = Omega.
  Proof. unfold wouts, Omega. rewrite map_map. reflexivity. Qed.

  Lemma step_Psi cf a : src_ok C cf -> Inv3 C cf ->
    (Psi (fst (step P cf a)) + b2n (handled cf a) <= Psi cf)%nat.
  Proof.
    intros [SC SH] [IC IH]. destruct a as [n|s d]; simpl.
    - destruct (w_running (nodes cf n)) eqn:Er; [simpl; lia|].
      change (p_start P n (w_st (nodes cf n))) with (ucs_start C n (w_st (nodes cf n))).
      pose proof (start_outs C n (w_st (nodes cf n))) as SO.
      destruct (ucs_start C n (w_st (nodes cf n))) as [[st' outs] evs]. simpl.
      unfold Psi. simpl.
      pose proof (wcc_reinject C omega (reinject (w_held (nodes cf n))) (send_all (chan cf) n outs) n) as R1.
      unfold reinject in R1.
      pose proof (wcc_send_all C omega outs (chan cf) n) as S1.
      pose proof (wchd_upd C omega (nodes cf) n (mkWrap true [] st')) as H1. simpl in H1.
      change (wl omega n []) with 0%nat in H1.
      unfold reinject.
      assert (FL : (wouts omega outs + b2n (negb (w_running (upd_node (nodes cf) n (mkWrap true [] st') ORCH))) * Omega
                    <= b2n (negb (w_running (nodes cf ORCH))) * Omega)%nat).
      { unfold upd_node. destruct SO as [->|[-> ->]].
        - change (wouts omega []) with 0%nat. destruct (Z.eqb_spec ORCH n) as [<-|]; simpl; [rewrite Er; simpl; lia|lia].
        - rewrite Z.eqb_refl. simpl. rewrite Er. simpl. rewrite wouts_orders. lia. }
      lia.
    - destruct (chan cf s d) as [|m q] eqn:Ech; [simpl; lia|].
      assert (Us : inU s = true) by (apply (SC s d m); rewrite Ech; left; auto).
      assert (MOK : mok3 C d m) by (apply (IC s d); rewrite Ech; left; auto).
      pose proof (wcc_upd C omega (chan cf) s d q) as CU. rewrite Ech, wl_cons, Us in CU. simpl in CU.
      destruct (w_running (nodes cf d)) eqn:Er.
      + change (p_recv P d (w_st (nodes cf d)) s m) with (ucs_recv C d (w_st (nodes cf d)) s m).
        pose proof (recv_weight d (w_st (nodes cf d)) s m) as RW.
        assert (NA : is_agent C d = false -> snd (fst (ucs_recv C d (w_st (nodes cf d)) s m)) = []).
        { intros E. unfold ucs_recv. rewrite E. reflexivity. }
        destruct (ucs_recv C d (w_st (nodes cf d)) s m) as [[st' outs] evs]. simpl in *.
        unfold Psi. simpl.
        pose proof (wcc_send_all C omega outs (upd_chan (chan cf) s d q) d) as S1.
        pose proof (wchd_upd C omega (nodes cf) d (mkWrap true (w_held (nodes cf d)) st')) as H1. simpl in H1.
        assert (T : w_running (upd_node (nodes cf) d (mkWrap true (w_held (nodes cf d)) st') ORCH) = w_running (nodes cf ORCH)).
        { unfold upd_node. destruct (Z.eqb_spec ORCH d) as [<-|]; simpl; auto. }
        rewrite T. destruct (is_agent C d) eqn:Ad; simpl.
        * specialize (RW eq_refl MOK). rewrite (agent_inU C d Ad) in *. simpl in *. lia.
        * rewrite (NA eq_refl) in *. change (wouts omega []) with 0%nat in S1.
          destruct (inU d); simpl in *; lia.
      + simpl. unfold Psi. simpl.
        pose proof (wchd_upd C omega (nodes cf) d (mkWrap false (w_held (nodes cf d) ++ [(s, m)]) (w_st (nodes cf d)))) as H1.
        simpl in H1. rewrite map_app, wl_app in H1. simpl in H1. rewrite wl_cons in H1.
        change (wl omega d []) with 0%nat in H1.
        assert (T : w_running (upd_node (nodes cf) d (mkWrap false (w_held (nodes cf d) ++ [(s, m)]) (w_st (nodes cf d))) ORCH)
                    = w_running (nodes cf ORCH)).
        { unfold upd_node. destruct (Z.eqb_spec ORCH d) as [<-|]; simpl; auto. }
        rewrite T. destruct (inU d); simpl in *; lia.
  Qed.

  Fixpoint nhandled (cf : config) (sched : list action) : nat :=
    match sched with
    | [] => 0%nat
    | a :: r => (b2n (handled cf a) + nhandled (fst (step P cf a)) r)%nat
    end.

  Lemma exec_Psi sched : forall cf, reachable P cf ->
    (nhandled cf sched + Psi (fst (exec P cf sched)) <= Psi cf)%nat.
  Proof.
    induction sched as [|a r IH]; intros cf R; simpl; [lia|].
    pose proof (step_Psi cf a (reachable_src cf R) (reachable_inv3 C cf R)) as S1.
    assert (R1 : reachable P (fst (step P cf a))) by (constructor; auto).
    specialize (IH _ R1). destruct (step P cf a) as [cf1 e1]. simpl in *.
    destruct (exec P cf1 r) as [cf2 e2]. simpl in *. lia.
  Qed.

  Lemma Psi_init : Psi (init P) = Omega.
  Proof.
    unfold Psi, wcc, wchd. simpl. rewrite !lsum_zero; [lia|auto|]. intros x. apply lsum_zero. auto.
  Qed.

  (* in every schedule, at most Omega = sum_d (1 + #comps(d) * Phi0) messages are handled by agents *)
  Lemma ucs_terminates_l sched : (nhandled (init P) sched <= Omega)%nat.
  Proof.
    pose proof (exec_Psi sched (init P) (reach_init P)) as H. rewrite Psi_init in H. lia.
  Qed.
End Terminates.
