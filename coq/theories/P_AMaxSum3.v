(* P_AMaxSum3.v -- C05 deepening 2: stability 0 is an essential hypothesis of [amaxsum_tree_exact].
   A-Max-Sum with the DEFAULT stability 0.1 and start_messages = all on a chain of five binary variables (costs
   around 100): under the schedule below (found by running the real amaxsum computations under random FIFO
   schedules, transcribed verbatim) the approx_match / SAME_COUNT block withholds a message that still differs from
   the last one sent; the network becomes quiescent with every variable on 0 while the unique optimum is
   [1;0;0;0;0].  All the other hypotheses of the theorem hold.  (Known finding C05-stability-cutoff-freezes.) *)
From Coq Require Import QArith.
From PyDcop Require Import Base Net M_SyncMixin M_MaxSum P_MaxSum P_MaxSum2 P_MaxSum5 P_AMaxSum2.
Local Open Scope Z_scope.

Definition W_chain5 : dcop :=
  bin_chain [ztab [106; 106; 103; 108]; ztab [102; 107; 103; 101]; ztab [103; 109; 108; 101]; ztab [101; 103; 103; 107]].
Definition W_chain5_sched : list (@action) :=
  [
    Start 4; Start 100; Start 102; Start 0; Deliver 100 0; Start 3; Deliver 100 1; Deliver 3 102; Start 2;
    Deliver 2 102; Start 103; Start 1; Deliver 1 101; Deliver 100 1; Deliver 102 3; Deliver 2 101;
    Deliver 0 100; Deliver 102 3; Start 101; Deliver 1 100; Deliver 4 103; Deliver 101 2; Deliver 100 1;
    Deliver 102 2; Deliver 2 101; Deliver 100 0; Deliver 2 102; Deliver 103 3; Deliver 1 101; Deliver 102 3;
    Deliver 103 4; Deliver 2 101; Deliver 3 102; Deliver 1 101; Deliver 1 101; Deliver 102 2; Deliver 101 1;
    Deliver 101 2; Deliver 101 2; Deliver 101 1; Deliver 101 1; Deliver 3 103; Deliver 2 102; Deliver 1 100;
    Deliver 1 100; Deliver 101 2; Deliver 1 100; Deliver 102 2; Deliver 103 3; Deliver 100 0; Deliver 2 101;
    Deliver 102 3; Deliver 2 102; Deliver 103 4; Deliver 100 0; Deliver 2 102; Deliver 101 1; Deliver 100 0;
    Deliver 102 3; Deliver 3 103; Deliver 3 102; Deliver 1 100; Deliver 3 103; Deliver 102 2; Deliver 2 101;
    Deliver 103 4; Deliver 101 1; Deliver 1 100; Deliver 2 101; Deliver 3 103; Deliver 3 103; Deliver 103 4;
    Deliver 3 103; Deliver 103 4 ].

Lemma amaxsum_default_stability_freezes :
  exists G a H sched,
    let P := par (1 # 10) 2 in     (* min, stability 0.1 (the default), damping 0, start_messages = all *)
    wf_dcop G /\ (p_damp P == 0)%Q /\ spoken_ok P /\ unique_optimum (p_max P) G a /\ forest_ok_b G H = true /\
    (forall x vd, In (x, vd) (d_vars G) -> nbrs G x = [] -> v_init vd = None) /\
    let cf := fst (run (amaxsum_proto P G) sched) in
    quiescent G cf = true /\ selected_async G cf <> map Some a.
Proof.
  exists W_chain5, [1; 0; 0; 0; 0]%nat, 8%nat, W_chain5_sched. cbv zeta.
  split; [apply wf_dcop_b_sound; vm_compute; reflexivity|].
  split; [reflexivity|]. split; [right; reflexivity|].
  split; [apply unique_optimum_b_sound; vm_compute; reflexivity|].
  split; [vm_compute; reflexivity|].
  split.
  - intros x vd Hin. simpl in Hin.
    repeat (destruct Hin as [Hin|Hin]; [inversion Hin; reflexivity|]). contradiction.
  - split; [vm_compute; reflexivity|]. vm_compute. discriminate.
Qed.
