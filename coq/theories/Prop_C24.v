(* Prop_C24.v -- C24: the ILP-based methods return cost-minimal distributions.
   Only statements; each closed by an exact lemma from P_Ilp.

   Full statement: for every instance, the distribution returned by oilp_cgdp / ilp_fgdp has a
   minimal distribution_cost among all distributions satisfying the method's hard rules
   (capacities, hosted once, zero-hosting-cost pinning, for ilp_fgdp every agent hosts something).
   The solver is an oracle ("returns a feasible point minimising the objective it is given").
   Proved: [*_optimal_is_min_cost] under the exact guards below; the statement WITHOUT the guards
   is false of the code: [oilp_parallel_links_refuted], [fgdp_asymmetric_refuted].
   Not a theorem (checked by the correspondence run on every distribution of every generated
   instance): that the rows PuLP receives force each linearisation variable to the product of
   its x variables, i.e. that feasibility/objective of the real ILP at an integral point are the
   functions [*_feasible] / [*_obj] of M_Ilp. *)
From PyDcop Require Import Base M_Dist M_Ilp P_Ilp.

(* integral feasibility = the method's hard rules *)
Theorem oilp_feasible_iff_hard_rules : forall G D,
  oilp_feasible G D = true <->
  (forall g, In g (i_agents (g_inst G)) -> hosted_on (g_inst G) D (g_id g) <= g_cap g) /\
  (forall g nd, In g (i_agents (g_inst G)) -> In nd (i_nodes (g_inst G)) ->
                hosting_cost g (n_id nd) = 0 -> dget D (n_id nd) = g_id g).
Proof. exact oilp_feasible_iff_l. Qed.

Theorem fgdp_feasible_iff_hard_rules : forall G D,
  fgdp_feasible G D = true <->
  oilp_feasible G D = true /\
  (forall g, In g (i_agents (g_inst G)) ->
     exists nd, In nd (i_nodes (g_inst G)) /\ dget D (n_id nd) = g_id g).
Proof. exact fgdp_feasible_iff_l. Qed.

(* objective = distribution_cost *)
Theorem oilp_objective_is_cost : forall G D,
  NoDup (link_pairs G) -> oilp_obj G D = oilp_cost G D.
Proof. exact oilp_objective_is_cost_l. Qed.

Theorem fgdp_objective_is_cost : forall G D, two_ended G -> sym_load G ->
  fst (fgdp_cost G D) = fgdp_total G + fst (fgdp_obj G D).
Proof. exact fgdp_objective_is_cost_l. Qed.

(* hence: an optimal solution of the ILP is cost-minimal among the distributions satisfying
   the hard rules ([scal] = 5 * (0.8 comm + 0.2 hosting), exact in Z) *)
Theorem oilp_optimal_is_min_cost : forall G Dstar,
  NoDup (link_pairs G) -> oilp_feasible G Dstar = true ->
  (forall D, oilp_feasible G D = true -> scal (oilp_obj G Dstar) <= scal (oilp_obj G D)) ->
  forall D, oilp_feasible G D = true -> scal (oilp_cost G Dstar) <= scal (oilp_cost G D).
Proof. exact oilp_optimal_is_min_cost_l. Qed.

Theorem fgdp_optimal_is_min_cost : forall G Dstar,
  two_ended G -> sym_load G -> fgdp_feasible G Dstar = true ->
  (forall D, fgdp_feasible G D = true -> fst (fgdp_obj G Dstar) <= fst (fgdp_obj G D)) ->
  forall D, fgdp_feasible G D = true -> fst (fgdp_cost G Dstar) <= fst (fgdp_cost G D).
Proof. exact fgdp_optimal_is_min_cost_l. Qed.

(* the guards are needed *)
Theorem oilp_parallel_links_refuted :
  exists D, oilp_feasible witness_par D = true /\ oilp_obj witness_par D <> oilp_cost witness_par D.
Proof. exact oilp_parallel_links_refuted_l. Qed.

Theorem fgdp_asymmetric_refuted :
  exists D1 D2, fgdp_feasible witness_asym D1 = true /\ fgdp_feasible witness_asym D2 = true /\
    (forall D, fgdp_feasible witness_asym D = true ->
       In (dget D 0) [0;1] -> In (dget D 1) [0;1] -> In (dget D 102) [0;1] ->
       fst (fgdp_obj witness_asym D1) <= fst (fgdp_obj witness_asym D)) /\
    fst (fgdp_cost witness_asym D2) < fst (fgdp_cost witness_asym D1).
Proof. exact fgdp_asymmetric_refuted_l. Qed.

(* non-vacuity: an instance meeting the guards, with a feasible and an infeasible distribution
   and a non-zero cost *)
Example c24_nonvacuous :
  let G := mkG (mkInst [mkNode 0 0 2 [[0;1]]; mkNode 1 0 2 [[0;1]]]
                       [mkAg 0 3 1 [(0, 0)] 2 []; mkAg 1 3 1 [] 3 []] [((0,1),4)] 1 [] [])
               [[0;1]] in
  NoDup (link_pairs G) /\ oilp_feasible G [(0,0);(1,1)] = true /\ oilp_feasible G [(0,0);(1,0)] = false /\
  oilp_feasible G [(0,1);(1,0)] = false /\ oilp_cost G [(0,0);(1,1)] = (8, 1).
Proof. vm_compute. repeat split; auto. repeat constructor; simpl; intuition congruence. Qed.
