(* Prop_C24.v -- C24: the ILP-based methods return cost-minimal distributions.
   Only statements; each closed by an exact lemma from P_Ilp.

   Full statement: for every instance, the distribution returned by oilp_cgdp / ilp_fgdp has a
   minimal distribution_cost among all distributions satisfying the method's hard rules
   (capacities, hosted once, zero-hosting-cost pinning, for ilp_fgdp every agent hosts something).
   The solver is an oracle ("returns a feasible point minimising the objective it is given").
   Proved: [*_optimal_is_min_cost] under the exact guards below; the statement WITHOUT the guards
   is false of the code: [oilp_parallel_links_refuted], [fgdp_asymmetric_refuted].
   Not a theorem (checked by the correspondence run on every distribution of every generated
   instance): that the rows PuLP receives force each linearisation variable to the product of
   its x variables, i.e. that feasibility/objective of the real ILP at an integral point are the
   functions [*_feasible] / [*_obj] of M_Ilp. *)
From PyDcop Require Import Base M_Dist M_Ilp P_Ilp.

(* integral feasibility = the method's hard rules *)
Theorem oilp_feasible_iff_hard_rules : forall G D,
  oilp_feasible G D = true <->
  (forall g, In g (i_agents (g_inst G)) -> hosted_on (g_inst G) D (g_id g) <= g_cap g) /\
  (forall g nd, In g (i_agents (g_inst G)) -> In nd (i_nodes (g_inst G)) ->
                hosting_cost g (n_id nd) = 0 -> dget D (n_id nd) = g_id g).
Proof. exact oilp_feasible_iff_l. Qed.

Theorem fgdp_feasible_iff_hard_rules : forall G D,
  fgdp_feasible G D = true <->
  oilp_feasible G D = true /\
  (forall g, In g (i_agents (g_inst G)) ->
     exists nd, In nd (i_nodes (g_inst G)) /\ dget D (n_id nd) = g_id g).
Proof. exact fgdp_feasible_iff_l. Qed.

(* objective = distribution_cost *)
Theorem oilp_objective_is_cost : forall G D,
  NoDup (link_pairs G) -> oilp_obj G D = oilp_cost G D.
Proof. exact oilp_objective_is_cost_l. Qed.

Theorem fgdp_objective_is_cost : forall G D, two_ended G -> sym_load G ->
  fst (fgdp_cost G D) = fgdp_total G + fst (fgdp_obj G D).
Proof. exact fgdp_objective_is_cost_l. Qed.

(* hence: an optimal solution of the ILP is cost-minimal among the distributions satisfying
   the hard rules ([scal] = 5 * (0.8 comm + 0.2 hosting), exact in Z) *)
Theorem oilp_optimal_is_min_cost : forall G Dstar,
  NoDup (link_pairs G) -> oilp_feasible G Dstar = true ->
  (forall D, oilp_feasible G D = true -> scal (oilp_obj G Dstar) <= scal (oilp_obj G D)) ->
  forall D, oilp_feasible G D = true -> scal (oilp_cost G Dstar) <= scal (oilp_cost G D).
Proof. exact oilp_optimal_is_min_cost_l. Qed.

Theorem fgdp_optimal_is_min_cost : forall G Dstar,
  two_ended G -> sym_load G -> fgdp_feasible G Dstar = true ->
  (forall D, fgdp_feasible G D = true -> fst (fgdp_obj G Dstar) <= fst (fgdp_obj G D)) ->
  forall D, fgdp_feasible G D = true -> fst (fgdp_cost G Dstar) <= fst (fgdp_cost G D).
Proof. exact fgdp_optimal_is_min_cost_l. Qed.

(* the guards are needed *)
Theorem oilp_parallel_links_refuted :
  exists D, oilp_feasible witness_par D = true /\ oilp_obj witness_par D <> oilp_cost witness_par D.
Proof. exact oilp_parallel_links_refuted_l. Qed.

Theorem fgdp_asymmetric_refuted :
  exists D1 D2, fgdp_feasible witness_asym D1 = true /\ fgdp_feasible witness_asym D2 = true /\
    (forall D, fgdp_feasible witness_asym D = true ->
       In (dget D 0) [0;1] -> In (dget D 1) [0;1] -> In (dget D 102) [0;1] ->
       fst (fgdp_obj witness_asym D1) <= fst (fgdp_obj witness_asym D)) /\
    fst (fgdp_cost witness_asym D2) < fst (fgdp_cost witness_asym D1).
Proof. exact fgdp_asymmetric_refuted_l. Qed.

(* non-vacuity: an instance meeting the guards, with a feasible and an infeasible distribution
   and a non-zero cost *)
Example c24_nonvacuous :
  let G := mkG (mkInst [mkNode 0 0 2 [[0;1]]; mkNode 1 0 2 [[0;1]]]
                       [mkAg 0 3 1 [(0, 0)] 2 []; mkAg 1 3 1 [] 3 []] [((0,1),4)] 1 [] [])
               [[0;1]] in
  NoDup (link_pairs G) /\ oilp_feasible G [(0,0);(1,1)] = true /\ oilp_feasible G [(0,0);(1,0)] = false /\
  oilp_feasible G [(0,1);(1,0)] = false /\ oilp_cost G [(0,0);(1,1)] = (8, 1).
Proof. vm_compute. repeat split; auto. repeat constructor; simpl; intuition congruence. Qed.

(* ================================================================== Deepening: the ROWS
   M_IlpRows models, one record per `pb += ...` statement, the constraint rows and the linear
   objective that ilp_cgdp / factor_graph_lp_model hand to PuLP (compared row by row with the
   captured LpProblem on every check).  The theorems below discharge, for oilp_cgdp, the
   assumption the theorems above rest on ("feasibility/objective of the real ILP at an integral
   point are [oilp_feasible]/[oilp_obj]").
   Vocabulary (P_IlpRows / P_IlpRowsObj):
     rows_sat s rows      the 0/1 assignment s : lvar -> bool satisfies every row
     key_product s k      for k = (c1,a1,c2,a2):  s (VB c1 a1 c2 a2) = s (VX c1 a1) && s (VX c2 a2)
     valid_dist I D       D hosts every computation of I on a declared agent
     x_indicator I s D    s (VX c a) = (D c =? a) for every computation c and agent a of I
     betas_products G s   key_product s k for every beta the loop creates
     links_wf G           the ends of every link are computations of the graph
   Guards: agent names are pairwise distinct (NoDup (agent_ids _)), links_wf. *)
From PyDcop Require Import M_IlpRows P_IlpRows P_IlpRowsObj.

(* (1) every 0/1 assignment satisfying all rows has each beta equal to the product of its two x
   variables (pinned-end shortcut rows included): the vector is determined by its x part *)
Theorem oilp_rows_force_product : forall G s,
  rows_sat s (oilp_rows G) = true ->
  forall kb, In kb (beta_keys G) -> key_product s (fst kb).
Proof. exact oilp_rows_force_product_l. Qed.

(* (2) a 0/1 vector satisfies all rows iff its x part is the indicator of a distribution (read off
   by [oilp_decode]) meeting the hard rules [oilp_feasible] and the betas are the products *)
Theorem oilp_rows_feasible_iff : forall G s, NoDup (agent_ids (g_inst G)) ->
  (rows_sat s (oilp_rows G) = true <->
   valid_dist (g_inst G) (oilp_decode G s) /\ x_indicator (g_inst G) s (oilp_decode G s) /\
   oilp_feasible G (oilp_decode G s) = true /\ betas_products G s).
Proof. exact oilp_rows_feasible_iff_l. Qed.

(* conversely every distribution meeting the hard rules is a solution of the rows *)
Theorem oilp_rows_encode_sat : forall G D, NoDup (agent_ids (g_inst G)) ->
  valid_dist (g_inst G) D -> oilp_feasible G D = true ->
  rows_sat (oilp_encode D) (oilp_rows G) = true.
Proof. exact oilp_encode_sat_l. Qed.

(* the linear objective (coefficients of _objective, betas de-duplicated by the loop's
   `in betas: continue`) at the indicator of D is [oilp_obj G D] *)
Theorem oilp_rows_objective_is_obj : forall G D,
  NoDup (agent_ids (g_inst G)) -> links_wf G -> valid_dist (g_inst G) D ->
  oilp_lin_obj G (oilp_encode D) = oilp_obj G D.
Proof. exact oilp_lin_obj_encode_l. Qed.

(* (3) [oilp_optimal_is_min_cost] on top of the rows: the solver is an oracle returning a 0/1
   solution of the rows that minimises the linear objective; the distribution read off it meets
   the hard rules and is cost-minimal among all distributions meeting them *)
Theorem oilp_rows_optimal_is_min_cost : forall G sstar,
  NoDup (agent_ids (g_inst G)) -> links_wf G -> NoDup (link_pairs G) ->
  rows_sat sstar (oilp_rows G) = true ->
  (forall s, rows_sat s (oilp_rows G) = true ->
             scal (oilp_lin_obj G sstar) <= scal (oilp_lin_obj G s)) ->
  valid_dist (g_inst G) (oilp_decode G sstar) /\ oilp_feasible G (oilp_decode G sstar) = true /\
  forall D, valid_dist (g_inst G) D -> oilp_feasible G D = true ->
            scal (oilp_cost G (oilp_decode G sstar)) <= scal (oilp_cost G D).
Proof. exact oilp_rows_optimal_is_min_cost_l. Qed.

(* non-vacuity of the row-level statements: the instance of [c24_nonvacuous] (computation 0 pinned
   on agent 0) has 8 rows (two pins, two pinned-end shortcut rows, capacities, hosted-once) which
   accept the indicator of one distribution and reject two others, and a non-zero objective *)
Example c24_rows_nonvacuous :
  let G := mkG (mkInst [mkNode 0 0 2 [[0;1]]; mkNode 1 0 2 [[0;1]]]
                       [mkAg 0 3 1 [(0, 0)] 2 []; mkAg 1 3 1 [] 3 []] [((0,1),4)] 1 [] [])
               [[0;1]] in
  NoDup (agent_ids (g_inst G)) /\ links_wf G /\ List.length (oilp_rows G) = 8%nat /\
  rows_sat (oilp_encode [(0,0);(1,1)]) (oilp_rows G) = true /\
  rows_sat (oilp_encode [(0,0);(1,0)]) (oilp_rows G) = false /\
  rows_sat (oilp_encode [(0,1);(1,0)]) (oilp_rows G) = false /\
  oilp_lin_obj G (oilp_encode [(0,0);(1,1)]) = (8, 1).
Proof.
  vm_compute. repeat split; auto.
  - repeat constructor; simpl; intuition congruence.
  - intros l c [<-|[]] [<-|[<-|[]]]; auto.
Qed.

(* ------------------------------------------------------------------ ilp_fgdp rows (P_IlpRows2)
   [fgdp_rows G] is None exactly when two agents have a zero hosting cost for the same computation
   (no ILP is built: ImpossibleDistributionException), else Some [fgdp_rows_of G].  Computations
   with a zero-cost agent are pre-hosted and have no x/f variable.
     on_var / on_fac I s c k   "end c is on agent k" as the rows see it (x/f variable, or the
                               pre-hosting agent)
     alpha_product I s l k     s (VA i j k) = on_var I s i k && on_fac I s j k, (i, j) = the variable
                               and factor ends of link l
     fg_wf G                   agent names distinct, computation names distinct, every node is a
                               variable or a factor computation, no conflicting zero hosting costs
     fg_links_wf G             every link joins a variable and a factor computation of the graph
     nf_indicator I s D        for every computation c that is not pre-hosted and every agent a:
                               (s (VX c a) or s (VF c a), by kind) = (D c =? a) *)
From PyDcop Require Import P_IlpRows2.

(* (1) no hypothesis on the instance *)
Theorem fgdp_rows_force_product : forall G s,
  rows_sat s (fgdp_rows_of G) = true ->
  forall l g, In l (g_links G) -> In g (i_agents (g_inst G)) -> alpha_product (g_inst G) s l (g_id g).
Proof. exact fgdp_rows_force_product_l. Qed.

(* (2) *)
Theorem fgdp_rows_feasible_iff : forall G s, fg_wf G ->
  (rows_sat s (fgdp_rows_of G) = true <->
   valid_dist (g_inst G) (fgdp_decode G s) /\ nf_indicator (g_inst G) s (fgdp_decode G s) /\
   fgdp_feasible G (fgdp_decode G s) = true /\ alphas_products G s).
Proof. exact fgdp_rows_feasible_iff_l. Qed.

Theorem fgdp_rows_encode_sat : forall G D, fg_wf G -> fg_links_wf G ->
  valid_dist (g_inst G) D -> fgdp_feasible G D = true ->
  rows_sat (fgdp_encode D) (fgdp_rows_of G) = true.
Proof. exact fgdp_encode_sat_l. Qed.

(* the linear objective (- load(variable, factor) per alpha) at any solution whose x/f part is the
   indicator of D is [fgdp_obj G D] *)
Theorem fgdp_rows_objective_is_obj : forall G s D, fg_wf G -> fg_links_wf G ->
  valid_dist (g_inst G) D -> nf_indicator (g_inst G) s D -> fixed_ok (g_inst G) D ->
  alphas_products G s -> fgdp_lin_obj G s = fst (fgdp_obj G D).
Proof. exact fgdp_lin_obj_at. Qed.

(* (3) [fgdp_optimal_is_min_cost] on top of the rows *)
Theorem fgdp_rows_optimal_is_min_cost : forall G sstar, fg_wf G -> fg_links_wf G -> sym_load G ->
  rows_sat sstar (fgdp_rows_of G) = true ->
  (forall s, rows_sat s (fgdp_rows_of G) = true -> fgdp_lin_obj G sstar <= fgdp_lin_obj G s) ->
  valid_dist (g_inst G) (fgdp_decode G sstar) /\ fgdp_feasible G (fgdp_decode G sstar) = true /\
  forall D, valid_dist (g_inst G) D -> fgdp_feasible G D = true ->
            fst (fgdp_cost G (fgdp_decode G sstar)) <= fst (fgdp_cost G D).
Proof. exact fgdp_rows_optimal_is_min_cost_l. Qed.

(* non-vacuity: two variables, one factor, two agents; variable 0 is pre-hosted on agent 0 (zero
   hosting cost), so its link uses the pinned-end shortcut rows; one distribution is accepted,
   one violating "every agent hosts something" and one moving the pre-hosted variable are not *)
Example c24_fgdp_rows_nonvacuous :
  let G := mkG (mkInst [mkNode 0 0 1 [[102;0]]; mkNode 1 0 1 [[1;102]]; mkNode 102 1 1 [[102;0];[1;102]]]
                       [mkAg 0 2 1 [(0, 0)] 1 []; mkAg 1 2 1 [] 1 []]
                       [((0, 102), 5); ((102, 0), 5); ((1, 102), 2); ((102, 1), 2)] 0 [] [])
               [[102;0];[1;102]] in
  fg_wf G /\ fg_links_wf G /\ sym_load G /\ fgdp_rows G = Some (fgdp_rows_of G) /\
  List.length (fgdp_rows_of G) = 13%nat /\
  rows_sat (fgdp_encode [(0,0);(1,1);(102,0)]) (fgdp_rows_of G) = true /\
  rows_sat (fgdp_encode [(0,0);(1,0);(102,0)]) (fgdp_rows_of G) = false /\
  fgdp_decode G (fgdp_encode [(0,1);(1,0);(102,0)]) = [(0,0);(1,0);(102,0)] /\
  fgdp_lin_obj G (fgdp_encode [(0,0);(1,1);(102,0)]) = -5.
Proof.
  cbv zeta. split; [|split; [|split; [|repeat split; vm_compute; reflexivity]]].
  - constructor.
    + vm_compute. repeat constructor; simpl; intuition congruence.
    + vm_compute. repeat constructor; simpl; intuition congruence.
    + intros nd [<-|[<-|[<-|[]]]]; vm_compute; auto.
    + vm_compute; reflexivity.
  - intros l [<-|[<-|[]]]; (split; [eexists; eexists; reflexivity|]).
    + split; [exists (mkNode 0 0 1 [[102;0]]) | exists (mkNode 102 1 1 [[102;0];[1;102]])];
        vm_compute; auto 6.
    + split; [exists (mkNode 1 0 1 [[1;102]]) | exists (mkNode 102 1 1 [[102;0];[1;102]])];
        vm_compute; auto 6.
  - intros x y [E|[E|[]]]; inversion E; subst; reflexivity.
Qed.

(* the guards are evaluated as booleans on every generated instance by the correspondence run
   (M_IlpRows.guardsb inside check_case); they imply the hypotheses of the theorems above *)
From PyDcop Require Import P_IlpRows3.
Theorem oilp_guardsb_sound : forall G,
  oilp_guardsb G = true -> NoDup (agent_ids (g_inst G)) /\ links_wf G.
Proof. exact oilp_guardsb_sound_l. Qed.

Theorem fgdp_guardsb_sound : forall G,
  fgdp_guardsb G = true -> fixed_conflict (g_inst G) = false -> fg_wf G /\ fg_links_wf G.
Proof. exact fgdp_guardsb_sound_l. Qed.
