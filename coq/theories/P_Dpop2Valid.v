(* P_Dpop2Valid.v -- C01: soundness of the executable hypothesis checker M_DpopValid.dpop_check
   (it implies the tree validity dvalid used by P_Dpop2.v and that the ownership filter is a
   partition of the constraints), the cost of P_Dpop2 = the cost of the dcop, and the final
   statement of the all-schedules theorem in terms of dpop_check and dcop_cost. *)
From PyDcop Require Import Base Net M_Dpop P_Dpop M_DpopValid P_Dpop2Net P_Dpop2Tree P_Dpop2Aux P_Dpop2.
From Coq Require Import ZifyBool Permutation.
Local Open Scope list_scope.

Lemma nodupb_NoDup (l : list Z) : nodupb Z.eqb l = true -> NoDup l.
Proof.
  induction l as [|a r IH]; simpl; intros H; [constructor|].
  apply andb_true_iff in H. destruct H as [H1 H2]. constructor; auto.
  intros Hin. apply negb_true_iff in H1.
  assert (E : existsb (Z.eqb a) r = true) by (apply existsb_exists; exists a; split; auto; apply Z.eqb_refl).
  congruence.
Qed.

Lemma option_eqb_Some (o : option Z) (b : Z) : option_eqb Z.eqb o (Some b) = true -> o = Some b.
Proof. destruct o; simpl; intros H; [apply Z.eqb_eq in H; subst; auto|discriminate]. Qed.

Lemma find_pn_none t x : ~ In x (map pn_id t) -> find_pn t x = None.
Proof.
  induction t as [|a r IH]; simpl; intros H; auto.
  destruct (Z.eqb x (pn_id a)) eqn:E.
  - apply Z.eqb_eq in E. exfalso. apply H. left; auto.
  - apply IH. intros Hin. apply H. right; auto.
Qed.

Lemma parent_in P c p : parent P c = Some p -> In c (tree_ids P).
Proof.
  intros H. destruct (in_dec Z.eq_dec c (tree_ids P)) as [|n]; auto.
  unfold parent, pn_of in H. rewrite find_pn_none in H by exact n. discriminate.
Qed.

Lemma children_out P x : ~ In x (tree_ids P) -> children P x = [].
Proof. intros H. unfold children, pn_of. rewrite find_pn_none by exact H. reflexivity. Qed.

Lemma depf_le P f : forall x, (depf P f x <= f)%nat.
Proof.
  induction f as [|k IH]; intros x; simpl; destruct (parent P x) as [p|]; try lia.
  specialize (IH p). lia.
Qed.

Lemma ancs_sound P f : forall x d, In d (ancs P f x) -> Anc P d x.
Proof.
  induction f as [|k IH]; intros x d; simpl; [tauto|].
  destruct (parent P x) as [p|] eqn:E; [|simpl; tauto]. intros [<-|H].
  - apply anc_parent; auto.
  - eapply anc_up; eauto.
Qed.

Lemma sv_svars P x d : In d (sv P [x]) <-> In d (svars P x).
Proof. unfold sv, svars. simpl. rewrite app_nil_r. tauto. Qed.

Theorem dpop_check_sound P : dpop_check P = true ->
  dpop_valid P /\ Permutation (all_owned P) (cons_ids P) /\ NoDup (cons_ids P).
Proof.
  unfold dpop_check. intros H.
  apply andb_true_iff in H. destruct H as [H C10]. apply andb_true_iff in H. destruct H as [H C9].
  apply andb_true_iff in H. destruct H as [H C8]. apply andb_true_iff in H. destruct H as [H C7].
  apply andb_true_iff in H. destruct H as [H C6]. apply andb_true_iff in H. destruct H as [H C5].
  apply andb_true_iff in H. destruct H as [H C4]. apply andb_true_iff in H. destruct H as [H C3].
  apply andb_true_iff in H. destruct H as [C1 C2].
  rewrite forallb_forall in C2, C3, C4, C5, C6, C9, C10.
  set (F := List.length (tree_ids P)) in *.
  split; [|split].
  - exists (depf P F), F. constructor.
    + apply nodupb_NoDup. exact C1.
    + intros x Hx. specialize (C2 x Hx). apply Nat.ltb_lt in C2. exact C2.
    + intros c p Hp. pose proof (parent_in P c p Hp) as Hc. split; auto.
      specialize (C3 c Hc). rewrite Hp in C3. apply andb_true_iff in C3. destruct C3 as [C3 _].
      apply andb_true_iff in C3. destruct C3 as [C3 _]. apply zmem_In. exact C3.
    + intros x c. split.
      * intros Hc. destruct (in_dec Z.eq_dec x (tree_ids P)) as [Hx|Hx].
        -- specialize (C4 x Hx). apply andb_true_iff in C4. destruct C4 as [_ C4].
           rewrite forallb_forall in C4. apply option_eqb_Some. apply C4. exact Hc.
        -- rewrite (children_out P x Hx) in Hc. destruct Hc.
      * intros Hp. specialize (C3 c (parent_in P c x Hp)). rewrite Hp in C3.
        apply andb_true_iff in C3. destruct C3 as [C3 _]. apply andb_true_iff in C3. destruct C3 as [_ C3].
        apply zmem_In. exact C3.
    + intros x. destruct (in_dec Z.eq_dec x (tree_ids P)) as [Hx|Hx].
      * specialize (C4 x Hx). apply andb_true_iff in C4. destruct C4 as [C4 _]. apply nodupb_NoDup. exact C4.
      * rewrite (children_out P x Hx). constructor.
    + intros x _. apply depf_le.
    + intros c p Hp. specialize (C3 c (parent_in P c p Hp)). rewrite Hp in C3.
      apply andb_true_iff in C3. destruct C3 as [_ C3]. apply Nat.eqb_eq in C3. exact C3.
    + intros x d Hx Hd. specialize (C5 x Hx). rewrite forallb_forall in C5.
      apply sv_svars in Hd. specialize (C5 d Hd). apply orb_true_iff in C5. destruct C5 as [C5|C5].
      * left. apply Z.eqb_eq. exact C5.
      * right. apply zmem_In in C5. eapply ancs_sound; eauto.
    + intros c p Hp. specialize (C6 c (parent_in P c p Hp)). rewrite Hp in C6.
      apply existsb_exists in C6. destruct C6 as (y & Hy & C6). apply andb_true_iff in C6. destruct C6 as [A1 A2].
      exists y. split.
      * apply orb_true_iff in A1. destruct A1 as [A1|A1]; [left; apply Z.eqb_eq; auto|right].
        apply zmem_In in A1. eapply ancs_sound; eauto.
      * apply sv_svars. apply zmem_In. exact A2.
  - apply NoDup_Permutation; [apply nodupb_NoDup; exact C8|apply nodupb_NoDup; exact C7|].
    intros k. split; intros Hk; apply zmem_In; auto.
  - apply nodupb_NoDup. exact C7.
Qed.

(* ---- the cost used by P_Dpop2 (every constraint counted at the node that keeps it) is the cost
        of the dcop *)
Lemma zsum_map_add {A} (f g : A -> Z) l : zsum (map (fun x => f x + g x) l) = zsum (map f l) + zsum (map g l).
Proof. induction l; simpl; lia. Qed.

Lemma zsum_app l1 l2 : zsum (l1 ++ l2) = zsum l1 + zsum l2.
Proof. induction l1; simpl; lia. Qed.

Lemma zsum_flat_map {A} (g : Z -> Z) (f : A -> list Z) l :
  zsum (map (fun x => zsum (map g (f x))) l) = zsum (map g (flat_map f l)).
Proof. induction l; simpl; auto. rewrite map_app, zsum_app. lia. Qed.

Lemma zsum_perm l l' : Permutation l l' -> zsum l = zsum l'.
Proof. induction 1; simpl; lia. Qed.

Lemma zlookup_nodup {V} (l : list (Z * V)) k v : NoDup (map fst l) -> In (k, v) l -> zlookup k l = Some v.
Proof.
  unfold zlookup. induction l as [|[k' v'] r IH]; simpl; intros Hnd Hin; [tauto|]. inversion Hnd; subst.
  destruct Hin as [Hin|Hin].
  - inversion Hin; subst. rewrite Z.eqb_refl. reflexivity.
  - destruct (Z.eqb k k') eqn:E.
    + apply Z.eqb_eq in E. subst. exfalso. apply H1. apply in_map_iff. exists (k', v). auto.
    + apply IH; auto.
Qed.

Lemma total_cost_dcop P a : Permutation (all_owned P) (cons_ids P) -> NoDup (cons_ids P) ->
  total_cost P a = dcop_cost P a.
Proof.
  intros Hperm Hnd. unfold total_cost, cost_in, dcop_cost, local, vc, own_cost.
  rewrite zsum_map_add. f_equal.
  rewrite (zsum_flat_map (fun k => eval (con P k) a) (owned P) (tree_ids P)).
  fold (all_owned P). rewrite (zsum_perm _ _ (Permutation_map _ Hperm)).
  unfold cons_ids. rewrite map_map. f_equal. apply map_ext_in. intros [k r] Hin. simpl.
  unfold con. rewrite (zlookup_nodup _ k r Hnd Hin). reflexivity.
Qed.

(* ---- every element of ext is in-domain *)
Lemma ext_in_dom P L : forall b e, In e (ext P L b) -> forall d, In d L -> (aval e d < dsize P d)%nat.
Proof.
  induction L as [|y r IH]; intros b e He d Hd; [destruct Hd|]. simpl in He.
  apply in_flat_map in He. destruct He as (v & Hv & He). apply in_seq in Hv.
  destruct (in_dec Z.eq_dec d r) as [Hin|Hnin]; [eapply IH; eauto|].
  destruct Hd as [<-|Hd]; [|contradiction].
  rewrite (ext_aval_other P r _ e y He Hnin). rewrite aval_cons_same. lia.
Qed.

(* ------------------------------------------------------------------ *)
(*  the theorem                                                         *)
(* ------------------------------------------------------------------ *)
Theorem all_schedules P sched : dpop_check P = true ->
  let r := run (dpop_proto P) sched in
  (* safety, on every schedule *)
  (forall n k, In (EvRaise n k) (snd r) -> ~ In n (tree_ids P)) /\
  (complete P (fst r) ->
     (* every node finished, exactly one finished / selection event each, values in the domain *)
     (forall x, In x (tree_ids P) ->
        s_fin (w_st (nodes (fst r) x)) = true /\
        count_finished x (snd r) = 1%nat /\ count_selected x (snd r) = 1%nat /\
        exists v c, s_value (w_st (nodes (fst r) x)) = Some (v, c) /\ In (EvSelect x v c) (snd r) /\
                    0 <= v < Z.of_nat (dsize P x)) /\
     (* the assignment is optimal: no in-domain assignment is better, and its cost is the
        brute-force optimum over all assignments *)
     let sg := assignment P (fst r) in
     in_dom (dsize P) sg (tree_ids P) /\
     (forall a, in_dom (dsize P) a (tree_ids P) -> mle (dc_mode P) (dcop_cost P sg) (dcop_cost P a)) /\
     is_best (dc_mode P) (map (dcop_cost P) (ext P (tree_ids P) [])) (dcop_cost P sg)).
Proof.
  intros Hchk r. destruct (dpop_check_sound P Hchk) as (Hv & Hperm & Hnd).
  split; [apply no_raise_all_schedules; exact Hv|].
  intros Hc. split; [apply (complete_all_finished P sched Hv Hc)|].
  destruct (optimal_at_completion P sched Hv Hc) as [Hdom Hopt]. fold r in Hdom, Hopt.
  cbv zeta. split; [exact Hdom|].
  assert (Hopt' : forall a, in_dom (dsize P) a (tree_ids P) ->
            mle (dc_mode P) (dcop_cost P (assignment P (fst r))) (dcop_cost P a)).
  { intros a Ha. rewrite <- !(total_cost_dcop P _ Hperm Hnd). apply Hopt. exact Ha. }
  split; [exact Hopt'|]. split.
  - destruct Hv as (dep & B & V).
    destruct (ext_complete P (tree_ids P) [] (assignment P (fst r)) Hdom) as (e & He & Hag).
    apply in_map_iff. exists e. split; [|exact He].
    rewrite <- !(total_cost_dcop P _ Hperm Hnd). unfold total_cost. apply cost_in_dep.
    intros d Hd. apply Hag. apply in_sv in Hd. destruct Hd as (y & Hy & Hd). eapply (sv_in P dep B V); eauto.
  - intros c Hc'. apply in_map_iff in Hc'. destruct Hc' as (e & <- & He). apply Hopt'.
    intros d Hd. eapply ext_in_dom; eauto.
Qed.
