(* P_Mgm2sA.v -- MGM2 barrier proof: the micro-step that consumes an ANSWER message (state answer?):
   the offerer learns the answer of its partner, sends its gain to every neighbour and enters state gain.
   In particular the handler never raises: the sender of a pending answer is the partner. *)
From Coq Require Import ZArith List Bool Lia.
From PyDcop Require Import Base Net M_Mgm M_Mgm2 M_Mgm2x P_Mgm P_Mgm3 P_Mgm3c P_Mgm2x P_Mgm2y P_Mgm2s.
Import ListNotations.
Open Scope Z_scope.

Local Notation length := List.length.

Section StepA.
  Variable d : dcop.
  Variable stop thr favor : Z.
  Notation nbr := (nbrs d).
  Notation doneb := (doneb stop).
  Notation InvA := (InvA d stop).
  Notation good := (good d stop).
  Variable rn : node -> bool.
  Variable S : node -> m2st.
  Variable pd : node -> node -> list m2msg.
  Hypothesis HI : InvA rn S pd.
  Notation step_ok := (step_ok d stop thr favor rn S pd).
  Notation pos_facts := (pos_facts d stop rn S pd HI).
  Notation le_facts := (le_facts d stop rn S pd HI).
  Notation pending_nbr := (pending_nbr d stop rn S pd HI).
  Notation evok := (evok stop).

  (* ------------------------------------------------------------ small helpers *)
  Lemma nbr_neA a b : In a (nbr b) -> a <> b.
  Proof. intros H ->. eapply nbrs_irrefl; eauto. Qed.

  Lemma and_decA (A B : Prop) : {A} + {~ A} -> {B} + {~ B} -> {A /\ B} + {~ (A /\ B)}.
  Proof. intros [a|a] [b|b]; [left; split; assumption|right; tauto ..]. Qed.

  Lemma expA_dec (T : node -> m2st) y x :
    {expA T y x /\ 3 <= t_state (T x)} + {~ (expA T y x /\ 3 <= t_state (T x))}.
  Proof.
    unfold expA.
    assert (D1 : {t_partner (T y) = Some x} + {t_partner (T y) <> Some x}) by (decide equality; apply Z.eq_dec).
    apply and_decA; [apply and_decA; [apply bool_dec|apply and_decA; [exact D1|apply and_decA; apply Z_le_dec]]|apply Z_le_dec].
  Qed.

  Lemma opt_is_some (o : option Z) (y : node) : opt_is o y = true -> o = Some y.
  Proof. destruct o as [q|]; simpl; [|discriminate]. intros H. apply Z.eqb_eq in H. rewrite H. reflexivity. Qed.

  (* ============================================================ answer message *)
  Lemma step_A y x a v g l1 l2 : rn y = true -> pd x y = l1 ++ M2Answer a v g :: l2 -> t_state (S y) = 3 ->
    step_ok y x (M2Answer a v g) l1 l2.
  Proof.
    intros Ry Hp Hk s2 o2 e2 Hm.
    pose proof (pending_nbr x y _ _ _ Hp) as Hxy. pose proof (nbrs_sym d y x Hxy) as Hyx.
    pose proof (act_of d x y Hxy) as Hact.
    pose proof (i_good _ _ _ _ _ HI y Ry Hact) as Gy.
    assert (Hne : x <> y) by (apply nbr_neA; exact Hxy).
    pose proof (in_pd _ _ _ _ _ _ Hp) as Hinp.
    pose proof (in_cnt_pos _ _ Hinp) as Hc1. simpl in Hc1.
    pose proof (i_pair _ _ _ _ _ HI x y Hxy) as Pxy.
    (* y expects the answer of x, x has handled its offers *)
    assert (HE : expA S y x /\ 3 <= t_state (S x)).
    { destruct (expA_dec S y x) as [E|N]; [exact E|exfalso]. pose proof (p_A0 _ _ _ _ _ Pxy N) as H0. clear - H0 Hc1. lia. }
    destruct HE as [EA K3x]. pose proof (p_A1 _ _ _ _ _ Pxy EA K3x) as Hcnt.
    destruct EA as (Ho & Hpa & _).
    assert (Rx : rn x = true).
    { destruct (rn x) eqn:Rx; [reflexivity|exfalso]. pose proof (i_idle _ _ _ _ _ HI x Rx) as Hid.
      destruct (idle_tabf _ x Hid) as (H0 & _). clear - H0 K3x. lia. }
    pose proof (i_good _ _ _ _ _ HI x Rx (act_of d y x Hyx)) as Gx.
    destruct (pos_facts x y Hxy Rx Ry) as (Q1 & Q2 & Q3).
    assert (Hcyc : t_cycle (S x) = t_cycle (S y)).
    { destruct (le_facts x y Hxy Rx Ry) as (L1 & _ & _).
      destruct (tabf d stop y _ x Gy Hxy) as (T1 & _). specialize (T1 ltac:(clear - Hk; lia)).
      pose proof (b2z_range (doneb (t_cycle (S x)))) as Fx. rewrite <- (g_fin _ _ _ _ Gx) in Fx.
      assert (Hle : t_cycle (S x) <= t_cycle (S y)).
      { destruct (Z_le_gt_dec (t_cycle (S x)) (t_cycle (S y))) as [H|H]; [exact H|exfalso].
        assert (E : t_cycle (S x) = t_cycle (S y) + 1) by (clear - H Q1; lia).
        destruct (Q2 E) as (H1 & _). clear - H1 K3x. lia. }
      clear - L1 T1 Fx Hle. lia. }
    destruct (Q3 Hcyc) as (_ & Q32 & _).
    assert (K5x : t_state (S x) <> 5) by (intros H; specialize (Q32 H); clear - Q32 Hk; lia).
    destruct (p_PA _ _ _ _ _ Pxy a v g Hinp) as [Ha Hg].
    (* the handler *)
    unfold mstep, on_msg in Hm. simpl kind_of in Hm. rewrite Hk in Hm. simpl negb in Hm. cbv iota in Hm.
    destruct (hr0_spec d y (S y) x a v g Ho Hpa) as (s' & gv & E & Hpg & K & Po).
    rewrite E in Hm. injection Hm as <- <- <-. clear E.
    set (outs := map (fun t : Z => (t, M2Gain gv)) (nbr y)).
    unfold skel in K. injection K as Kst Kcy Kfi Knv Kof Kng Kpa Kco Kor.
    assert (G2 : good y s').
    { destruct Gy. constructor; rewrite ?Kst, ?Kcy, ?Kfi, ?Knv, ?Kof, ?Kng, ?Kpa, ?Kco, ?Kor; auto;
        try (intros Hc0; exfalso; clear - Hc0; lia).
      - clear. lia.
      - intros H. specialize (g_done H). clear - g_done Hk. lia.
      - intros _. apply g_nv2. clear - Hk. lia.
      - intros _. apply g_of3. clear - Hk. lia.
      - intros _. rewrite g_ng3 by (clear - Hk; lia). simpl. destruct (nbr y); [congruence|simpl; clear; lia].
      - intros Hat. destruct (Hg Hat) as (gg & -> & Hgg). rewrite Hpg, Hat. split; [exact Hgg|].
        exists x. split; [exact Hpa|exact Hxy]. }
    assert (Hout : forall w, to_y2 w outs = if zmem w (nbr y) then [M2Gain gv] else []).
    { intros w. unfold outs. apply (to_y2_map (fun t => (t, M2Gain gv))); [intros t; reflexivity|apply nbrs_nodup]. }
    assert (HInv : InvA rn (updS S y s') (pd_step pd x y (l1 ++ l2) outs)).
    { apply (step_frame d stop rn S pd y s' x (l1 ++ l2) outs HI Ry Hact Hxy G2).
      - (* ---------------- receiver pairs (x', y) *)
        intros x' Hx'. pose proof (nbr_neA _ _ Hx') as Hx'y.
        destruct (pd_step_recv pd x y l1 (M2Answer a v g) l2 outs x' Hp Hx'y) as [Hc Hi].
        destruct (i_pair _ _ _ _ _ HI x' y Hx') as [V O G A1 A0 Go1 Go0 PO PS PA L Ans].
        unf.
        constructor; unf;
          rewrite ?updS_same, ?(updS_other S y s' x' Hx'y), ?Kst, ?Kcy, ?Kfi, ?Knv, ?Kof, ?Kng, ?Kpa, ?Kco, ?Kor, ?Hc;
          simpl kind_of.
        + rewrite andb_false_r. change (b2z false) with 0. rewrite Z.sub_0_r. exact V.
        + rewrite andb_false_r. change (b2z false) with 0. rewrite Z.sub_0_r. exact O.
        + rewrite andb_false_r. change (b2z false) with 0. rewrite Z.sub_0_r. exact G.
        + intros (_ & _ & Hc0). exfalso. clear - Hc0. lia.
        + intros _. change (3 =? 3) with true. rewrite andb_true_r.
          destruct (Z.eqb_spec x' x) as [->|Hn].
          * rewrite Hcnt. reflexivity.
          * change (b2z false) with 0. rewrite A0; [reflexivity|]. intros [(_ & Hc0 & _) _]. congruence.
        + intros (_ & E2 & _) Sg. exfalso. assert (x' = x) by congruence. subst x'.
          destruct Sg as [[_ H5]|H1]; [exact (K5x H5)|clear - H1 Hcyc; lia].
        + intros _. rewrite andb_false_r. change (b2z false) with 0. rewrite Go0; [reflexivity|].
          intros [(_ & _ & Hc0) _]. clear - Hc0 Hk. lia.
        + intros f os Hin. apply (PO f os). apply Hi. exact Hin.
        + intros f os Hc0. discriminate Hc0.
        + intros a0 v0 g0 Hin. apply (PA a0 v0 g0). apply Hi. exact Hin.
        + intros Lc Lp. destruct (L Lc Lp) as [[La Lb]|[La Lb]].
          * exfalso.
            assert (Rx' : rn x' = true).
            { destruct (rn x') eqn:Rx'; [reflexivity|exfalso]. pose proof (i_idle _ _ _ _ _ HI x' Rx') as Hid.
              destruct (idle_tabf _ x' Hid) as (H0 & _). clear - H0 Lb. lia. }
            destruct (pos_facts y x' (nbrs_sym d y x' Hx') Ry Rx') as (_ & W2 & _).
            destruct (W2 La) as (W & _). clear - W Hk. lia.
          * right. split; [exact La|].
            destruct (t_offerer (S x')) eqn:Eo; [exfalso; destruct Lb as (Lb & _); congruence|].
            destruct Lb as (_ & Lb & _). assert (x' = x) by congruence. subst x'.
            split; [reflexivity|split; [exact Hpa|right]].
            rewrite Ha, Lc, Eo, Lp. simpl. apply Z.eqb_refl.
        + intros Ho' Hpp H4. destruct (Ans Ho' Hpp H4) as [[B1 B2]|B]; [left; split; [exact B1|clear; lia]|right; exact B].
      - (* ---------------- sender pairs (y, w) *)
        intros w Hw. pose proof (nbr_neA _ _ Hw) as Hwy.
        pose proof (nbrs_sym d y w Hw) as Hyw.
        destruct (i_pair _ _ _ _ _ HI y w Hyw) as [V O G A1 A0 Go1 Go0 PO PS PA L Ans].
        assert (Hcn : forall k, cnt k (pd_step pd x y (l1 ++ l2) outs y w) = cnt k (pd y w) + b2z (4 =? k)).
        { intros k. rewrite pd_step_send, cnt_app, (Hout w), (proj2 (zmem_In w (nbr y)) Hw), cnt_cons, cnt_nil.
          simpl kind_of. lia. }
        assert (Hin' : forall m', In m' (pd_step pd x y (l1 ++ l2) outs y w) -> In m' (pd y w) \/ m' = M2Gain gv).
        { intros m'. rewrite pd_step_send, (Hout w), (proj2 (zmem_In w (nbr y)) Hw). intros H.
          apply in_app_or in H as [H|[<-|[]]]; [left; exact H|right; reflexivity]. }
        unf. rewrite Hk in *.
        constructor; unf;
          rewrite ?updS_same, ?(updS_other S y s' w Hwy), ?Kst, ?Kcy, ?Kfi, ?Knv, ?Kof, ?Kng, ?Kpa, ?Kco, ?Kor, ?Hcn.
        + change (b2z (4 =? 1)) with 0. rewrite Z.add_0_r. exact V.
        + change (b2z (4 =? 2)) with 0. rewrite Z.add_0_r. exact O.
        + change (b2z (4 =? 4)) with 1. change (b2z (4 <=? 4)) with 1. change (b2z (4 <=? 3)) with 0 in G.
          rewrite Ry in G |- *. destruct (rn w); clear - G; lia.
        + intros EA _. change (b2z (4 =? 3)) with 0. rewrite Z.add_0_r. apply A1; [exact EA|clear; lia].
        + intros N. change (b2z (4 =? 3)) with 0. rewrite Z.add_0_r. apply A0.
          intros [EA _]. apply N. split; [exact EA|clear; lia].
        + intros EG Sg. change (b2z (4 =? 5)) with 0. rewrite Z.add_0_r. apply Go1; [exact EG|].
          destruct Sg as [[_ Hc0]|H1]; [exfalso; clear - Hc0; lia|right; exact H1].
        + intros N. change (b2z (4 =? 5)) with 0. rewrite Z.add_0_r. apply Go0.
          intros [EG Sg]. apply N. split; [exact EG|].
          destruct Sg as [[_ Hc0]|H1]; [exfalso; clear - Hc0; lia|right; exact H1].
        + intros f os Hin. destruct (Hin' _ Hin) as [H|H]; [|discriminate H].
          rewrite (PO f os H), Ho. reflexivity.
        + intros f os H2 Hin. rewrite (PS f os H2 Hin), Ho. reflexivity.
        + intros a0 v0 g0 Hin. destruct (Hin' _ Hin) as [H|H]; [|discriminate H].
          destruct (PA a0 v0 g0 H) as [E1 _]. rewrite Ho in E1. simpl in E1. rewrite andb_false_r in E1. simpl in E1.
          subst a0. simpl. rewrite andb_false_r. simpl. split; [reflexivity|discriminate].
        + intros Hat Hpw. assert (w = x) by congruence. subst w. right. split; [exact Hcyc|].
          rewrite Hat in Ha. symmetry in Ha. apply andb_true_iff in Ha as [Ha Ha3]. apply andb_true_iff in Ha as [Ha1 Ha2].
          apply negb_true_iff in Ha2. split; [exact Ha2|split; [exact Ha1|apply opt_is_some; exact Ha3]].
        + intros _ Hpw _. assert (w = x) by congruence. subst w. left. split; [exact Hcyc|exact K3x].
      - intros w Hw. rewrite Hout. destruct (zmem w (nbr y)) eqn:E; [apply zmem_In in E; contradiction|reflexivity]. }
    split; [exact HInv|]. split; [apply evok_nil; exact Kfi|]. split; [exact Po|].
    intros _ x' Hx'. rewrite Hk.
    apply (p_A0 _ _ _ _ _ (i_pair _ _ _ _ _ HInv x' y Hx')).
    intros [(_ & _ & Hc0) _]. rewrite updS_same, Kst in Hc0. clear - Hc0. lia.
  Qed.
End StepA.
