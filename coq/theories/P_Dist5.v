(* P_Dist5.v -- C23: the backtracking of gh_cgdp / heur_comhost never succeeds.
   After a backtrack the candidate lists of the later levels are not recomputed (they stay
   empty), so once a level has no candidate the search unwinds to ImpossibleDistribution:
   both methods compute exactly the pure greedy placement [greedy_nobt] below. *)
From PyDcop Require Import Base M_Dist P_Dist.
From Coq Require Import Permutation ZifyBool.

Section PureGreedy.
  Variable cle : Z * Z -> Z * Z -> bool.
  Variable I : inst.
  Variable fixed : list (Z * (Z * Z)).

  (* place each computation on its best candidate; no candidate = Impossible *)
  Fixpoint greedy_nobt (todo : list level) (done : list (level * list Z * Z)) (rnd : list Z) : result :=
    match todo with
    | [] => Ok (rev (mapping_of done) ++ map (fun e => (fst e, fst (snd e))) fixed)
    | L :: rest =>
        let '(cl, rnd') := candidate_hosts cle I fixed L done rnd in
        match cl with
        | [] => Impossible
        | a :: cl' => greedy_nobt rest ((L, cl', a) :: done) rnd'
        end
    end.

  (* states from which the while loop can only unwind *)
  Definition doomed (t : list (level * option (list Z))) : Prop :=
    match t with
    | (_, Some []) :: _ => True
    | (_, Some _) :: (_, Some []) :: _ => True
    | _ => False
    end.

  Lemma doomed_run : forall fuel d t rnd, doomed t ->
    run cle I fixed fuel d t rnd = Impossible \/ run cle I fixed fuel d t rnd = OutOfFuel.
  Proof.
    induction fuel as [|f IH]; intros d t rnd Hd; [now right|].
    simpl. unfold step.
    destruct t as [|[L [cl|]] rest]; try contradiction.
    destruct cl as [|a cl'].
    - destruct d as [|[[L' cl'] a'] d']; [now left|].
      apply IH. simpl. destruct cl'; exact Logic.I.
    - destruct rest as [|[L2 [[|x y]|]] rest2]; try contradiction.
      apply IH. exact Logic.I.
  Qed.

  Lemma run_is_greedy : forall todo fuel d rnd,
    Forall (fun e : level * option (list Z) => snd e = None) todo ->
    run cle I fixed fuel d todo rnd = OutOfFuel \/
    run cle I fixed fuel d todo rnd = greedy_nobt (map fst todo) d rnd.
  Proof.
    induction todo as [|[L c] rest IH]; intros fuel d rnd Hn; (destruct fuel as [|f]; [now left|]).
    - right. reflexivity.
    - inversion Hn as [|? ? Hc Hr]; subst. simpl in Hc. subst c.
      simpl. destruct (candidate_hosts cle I fixed L d rnd) as [cl rnd'].
      destruct cl as [|a cl'].
      + destruct d as [|[[L' cl'] a'] d']; [now right|].
        destruct (doomed_run f d' ((L', Some cl') :: (L, Some []) :: rest) rnd') as [H|H].
        * simpl. destruct cl'; exact Logic.I.
        * now right.
        * now left.
      + apply IH. exact Hr.
  Qed.
End PureGreedy.

Lemma sorted_levels_none nds rnd :
  Forall (fun e : level * option (list Z) => snd e = None) (fst (sorted_levels nds rnd)).
Proof.
  destruct (sorted_levels_spec nds rnd) as [_ H].
  eapply Forall_impl; [|exact H]. now intros e [? _].
Qed.

Lemma heur_comhost_pure_greedy_l cle I rnd : wf I -> caps_nonneg I ->
  heur_comhost cle I rnd =
  let '(todo, rnd') := sorted_levels (i_nodes I) rnd in greedy_nobt cle I [] (map fst todo) [] rnd'.
Proof.
  intros Hwf Hc. pose proof (heur_comhost_valid cle I rnd Hwf Hc) as Hv.
  unfold heur_comhost in *. pose proof (sorted_levels_none (i_nodes I) rnd) as Hn.
  destruct (sorted_levels (i_nodes I) rnd) as [todo rnd']. simpl in Hn.
  destruct (run_is_greedy cle I [] todo (greedy_fuel I) [] rnd' Hn) as [H|H]; [|exact H].
  rewrite H in Hv. contradiction.
Qed.

Lemma gh_cgdp_pure_greedy_l cle I rnd : wf I ->
  gh_cgdp cle I rnd =
  let fixed := fixed_mapping I in
  if existsb (fun a => g_cap a <? fixed_load fixed (g_id a)) (i_agents I) then Impossible
  else
    let free := filter (fun nd => negb (mem_key Z.eqb (n_id nd) fixed)) (i_nodes I) in
    let '(todo, rnd') := sorted_levels free rnd in
    greedy_nobt cle I fixed (map fst todo) [] rnd'.
Proof.
  intros Hwf. pose proof (gh_cgdp_valid cle I rnd Hwf) as Hv.
  unfold gh_cgdp in *. cbv zeta.
  destruct (existsb _ (i_agents I)); [reflexivity|].
  set (free := filter _ (i_nodes I)) in *.
  pose proof (sorted_levels_none free rnd) as Hn.
  destruct (sorted_levels free rnd) as [todo rnd']. simpl in Hn.
  destruct (run_is_greedy cle I (fixed_mapping I) todo (greedy_fuel I) [] rnd' Hn) as [H|H]; [|exact H].
  rewrite H in Hv. contradiction.
Qed.
