(* M_SyncBB.v -- executable model of pydcop/algorithms/syncbb.py (C02), plugged into Net.v.

   Modelled code (as of /repo commits 7526851 and ffcb2e6, the two `fix:` commits of C02):
     get_value_candidates, get_next_assignment (with `found = None` on break),
     SyncBBComputation.on_start / on_forward_message / on_backward_msg / on_terminate_message,
     VariableComputation.value_selection (the "only when the value changes" test).
   The chain of computations is the one OrderedConstraintGraph builds for variables whose
   lexical order is their numeric order: node k has previous k-1 (k > 0) and next k+1
   (k+1 < nvars).

   Representation choices (all checked by the correspondence run):
   * a path is kept REVERSED: the head of an [rpath] is the LAST element of the Python list, so
     current_path[-1] = hd, current_path[:-1] = tl, append = cons.  The loop
     `for var, val, elt_cost in current_path` runs from the first Python element, i.e. from the
     END of the rpath: [scan] recurses first and tests on the way back, which is that order.
   * upper_bound: [None] is INFINITY in min mode and -INFINITY in max mode.
   * the `while True` loop of the last computation re-derives the remaining candidates from the
     current value on each turn; for domains without repeated values (the only ones generated,
     and a hypothesis of the theorems) this is one pass over the domain: [last_loop].
   Models only; proofs are in P_SyncBB.v. *)
From PyDcop Require Import Base Net.

Definition elt := (Z * Z * Z)%type.     (* (variable, value, cost incurred by that value) *)
Definition rpath := list elt.

Inductive msg :=
| Forward (p : rpath) (u : option Z)
| Backward (p : rpath) (u : option Z)
| Terminate.

Record nst := mkN {
  ub : option Z;          (* self.upper_bound *)
  value : option Z;       (* current_value / _previous_val *)
  fin : nat               (* number of finished() calls *)
}.

Inductive ev :=
| EvSel (n v : Z) (c : option Z)     (* _on_value_selection(v, c, _) *)
| EvFin (n : Z)                      (* finished() *)
| EvSend (n d : Z) (m : msg)         (* post_msg(d, m) *)
| EvRaise (n : Z) (kind : Z).        (* 1 IndexError domain[0], 2 IndexError current_path[-1], 3 AssertionError *)

Definition e_var (e : elt) : Z := fst (fst e).
Definition e_val (e : elt) : Z := snd (fst e).
Definition e_cost (e : elt) : Z := snd e.

Section SyncBB.
  Variable is_min : bool.                 (* mode == "min" *)
  Variable nvars : Z.
  Variable dom : Z -> list Z.             (* ordered domain of variable k *)
  (* pc i vi j vj = assignment_cost({i: vi, j: vj}, constraints of computation j having i in
     their scope) *)
  Variable pc : Z -> Z -> Z -> Z -> Z.

  (* x >= upper_bound *)
  Definition ge_ub (x : Z) (u : option Z) : bool :=
    match u with None => false | Some b => b <=? x end.

  (* a < b in min mode, a > b in max mode (None = the mode's infinity) *)
  Definition better (a b : option Z) : bool :=
    match a, b with
    | Some x, Some y => if is_min then x <? y else y <? x
    | Some _, None => true
    | None, _ => false
    end.

  (* the inner loop of get_next_assignment for one candidate [v] of variable [j]:
     None = break (pruned), Some c = found = (v, c) *)
  Fixpoint scan (rp : rpath) (j v : Z) (u : option Z) : option Z :=
    match rp with
    | [] => Some 0
    | (var, val, c) :: rest =>
        match scan rest j v u with
        | None => None
        | Some acc =>
            let a := pc var val j v in
            if is_min && (ge_ub (acc + a) u || ge_ub (a + c) u) then None else Some (acc + a)
        end
    end.

  (* get_value_candidates *)
  Fixpoint after (cur : Z) (d : list Z) : list Z :=
    match d with
    | [] => []
    | v :: r => if v =? cur then r else after cur r
    end.
  Definition candidates (j : Z) (cur : option Z) : list Z :=
    match cur with None => dom j | Some c => after c (dom j) end.

  Fixpoint first_ok (cands : list Z) (rp : rpath) (j : Z) (u : option Z) : option (Z * Z) :=
    match cands with
    | [] => None
    | v :: r => match scan rp j v u with
                | Some c => Some (v, c)
                | None => first_ok r rp j u
                end
    end.

  (* get_next_assignment(variable j, current_value, constraints, current_path, upper_bound, mode) *)
  Definition next_assignment (j : Z) (cur : option Z) (rp : rpath) (u : option Z) : option (Z * Z) :=
    first_ok (candidates j cur) rp j u.

  Definition path_bound (rp : rpath) : Z := zsum (map e_cost rp).

  (* the loop of the last computation: best_val, best_bound *)
  Fixpoint last_loop (cands : list Z) (rp : rpath) (j : Z) (u : option Z) (pb : Z)
           (bv bb : option Z) : option Z * option Z :=
    match cands with
    | [] => (bv, bb)
    | v :: r =>
        match scan rp j v u with
        | None => last_loop r rp j u pb bv bb
        | Some c =>
            if better (Some (pb + c)) bb then last_loop r rp j u pb (Some v) (Some (pb + c))
            else last_loop r rp j u pb bv bb
        end
    end.

  Definition has_next (k : Z) : bool := k + 1 <? nvars.
  Definition is_first (k : Z) : bool := k =? 0.

  (* value_selection(v, c) *)
  Definition select (k : Z) (s : nst) (v : Z) (c : option Z) : nst * list ev :=
    if option_eqb Z.eqb (value s) (Some v) then (s, [])
    else (mkN (ub s) (Some v) (fin s), [EvSel k v c]).

  Definition set_ub (s : nst) (u : option Z) : nst := mkN u (value s) (fin s).
  Definition finish (s : nst) : nst := mkN (ub s) (value s) (S (fin s)).

  Definition on_start (k : Z) (s : nst) : nst * list (node * msg) * list ev :=
    if is_first k then
      match dom k with
      | [] => (s, [], [EvRaise k 1])
      | d0 :: _ =>
          if has_next k then
            let m := Forward [(k, d0, 0)] None in
            (s, [(k + 1, m)], [EvSend k (k + 1) m])
          else
            let '(s1, e1) := select k s d0 (Some 0) in
            (finish s1, [], e1 ++ [EvFin k])
      end
    else (s, [], []).

  Definition on_forward (k : Z) (s : nst) (rp : rpath) : nst * list (node * msg) * list ev :=
    match next_assignment k None rp (ub s) with
    | None =>
        if is_first k then
          (finish s, [(k + 1, Terminate)], [EvSend k (k + 1) Terminate; EvFin k])
        else
          let m := Backward rp (ub s) in (s, [(k - 1, m)], [EvSend k (k - 1) m])
    | Some (v, c) =>
        if has_next k then
          let m := Forward ((k, v, c) :: rp) (ub s) in (s, [(k + 1, m)], [EvSend k (k + 1) m])
        else
          let '(bv, bb) := last_loop (dom k) rp k (ub s) (path_bound rp) None (ub s) in
          let '(s1, e1) := match bv with
                           | Some b => select k (set_ub s bb) b bb
                           | None => (s, [])
                           end in
          let m := Backward rp (ub s1) in
          (s1, [(k - 1, m)], e1 ++ [EvSend k (k - 1) m])
    end.

  Definition on_backward (k : Z) (s : nst) (rp : rpath) (u : option Z)
    : nst * list (node * msg) * list ev :=
    match rp with
    | [] => (s, [], [EvRaise k 2])
    | (var, val, _) :: rest =>
        let '(s1, e1) := if better u (ub s) then select k (set_ub s u) val u else (s, []) in
        if negb (var =? k) then (s1, [], e1 ++ [EvRaise k 3])
        else
          match next_assignment k (Some val) rest (ub s1) with
          | Some (v2, c2) =>
              let m := Forward ((k, v2, c2) :: rest) (ub s1) in
              (s1, [(k + 1, m)], e1 ++ [EvSend k (k + 1) m])
          | None =>
              if is_first k then
                (finish s1, [(k + 1, Terminate)], e1 ++ [EvFin k; EvSend k (k + 1) Terminate])
              else
                let m := Backward rest (ub s1) in
                (s1, [(k - 1, m)], e1 ++ [EvSend k (k - 1) m])
          end
    end.

  Definition on_terminate (k : Z) (s : nst) : nst * list (node * msg) * list ev :=
    if has_next k then
      (finish s, [(k + 1, Terminate)], [EvSend k (k + 1) Terminate; EvFin k])
    else (finish s, [], [EvFin k]).

  Definition on_recv (k : Z) (s : nst) (src : node) (m : msg) : nst * list (node * msg) * list ev :=
    match m with
    | Forward rp _ => on_forward k s rp
    | Backward rp u => on_backward k s rp u
    | Terminate => on_terminate k s
    end.

  Definition init_st (k : Z) : nst := mkN None None 0.

  Definition syncbb_proto : proto nst msg ev := mkProto init_st on_start on_recv.
End SyncBB.

(* ------------------------------------------------------------------ concrete DCOPs
   A binary constraint (a, b, m): cost m[va][vb] for a = va, b = vb; values are natural
   numbers used as matrix indices (a missing entry costs 0). *)
Definition con := (Z * Z * list (list Z))%type.

Definition mcost (m : list (list Z)) (va vb : Z) : Z :=
  nth (Z.to_nat vb) (nth (Z.to_nat va) m []) 0.

Definition con_pc (c : con) (i vi j vj : Z) : Z :=
  let '(a, b, m) := c in
  if (a =? i) && (b =? j) then mcost m vi vj
  else if (a =? j) && (b =? i) then mcost m vj vi
  else 0.

Definition pc_of (cons : list con) (i vi j vj : Z) : Z :=
  zsum (map (fun c => con_pc c i vi j vj) cons).

Definition dom_of (doms : list (list Z)) (k : Z) : list Z :=
  if k <? 0 then [] else nth (Z.to_nat k) doms [].

Definition proto_of (is_min : bool) (doms : list (list Z)) (cons : list con) : proto nst msg ev :=
  syncbb_proto is_min (Z.of_nat (List.length doms)) (dom_of doms) (pc_of cons).

(* cost of a total assignment [a] (value of variable k = a k): the DCOP's objective *)
Definition total_cost (cons : list con) (a : Z -> Z) : Z :=
  zsum (map (fun c : con => let '(x, y, m) := c in mcost m (a x) (a y)) cons).

(* ------------------------------------------------------------------ correspondence *)
Definition elt_eqb (a b : elt) : bool :=
  Z.eqb (e_var a) (e_var b) && Z.eqb (e_val a) (e_val b) && Z.eqb (e_cost a) (e_cost b).
Definition oz_eqb := option_eqb Z.eqb.
Definition msg_eqb (a b : msg) : bool :=
  match a, b with
  | Forward p u, Forward p' u' => list_eqb elt_eqb p p' && oz_eqb u u'
  | Backward p u, Backward p' u' => list_eqb elt_eqb p p' && oz_eqb u u'
  | Terminate, Terminate => true
  | _, _ => false
  end.
Definition ev_eqb (a b : ev) : bool :=
  match a, b with
  | EvSel n v c, EvSel n' v' c' => Z.eqb n n' && Z.eqb v v' && oz_eqb c c'
  | EvFin n, EvFin n' => Z.eqb n n'
  | EvSend n d m, EvSend n' d' m' => Z.eqb n n' && Z.eqb d d' && msg_eqb m m'
  | EvRaise n k, EvRaise n' k' => Z.eqb n n' && Z.eqb k k'
  | _, _ => false
  end.

Record case := mkCase {
  c_min : bool;
  c_doms : list (list Z);
  c_cons : list con;
  c_sched : list (@action);
  c_events : list ev;                                  (* observed, in order (paths reversed) *)
  c_final : list (Z * (option Z * option Z * Z));      (* node -> upper_bound, current_value, #finished *)
  c_running : list (Z * bool);                         (* node -> _running *)
  c_held : list (Z * list (Z * msg));                  (* node -> _paused_messages_recv *)
  c_inflight : list (Z * Z * list msg)                 (* observed channel contents *)
}.

Definition nst_obs (s : nst) : option Z * option Z * Z := (ub s, value s, Z.of_nat (fin s)).
Definition obs_eqb (a b : option Z * option Z * Z) : bool :=
  oz_eqb (fst (fst a)) (fst (fst b)) && oz_eqb (snd (fst a)) (snd (fst b)) && Z.eqb (snd a) (snd b).

Definition check_case (c : case) : bool :=
  let P := proto_of (c_min c) (c_doms c) (c_cons c) in
  let '(cf, evs) := run P (c_sched c) in
  list_eqb ev_eqb evs (c_events c)
  && forallb (fun q => obs_eqb (nst_obs (w_st (nodes cf (fst q)))) (snd q)) (c_final c)
  && forallb (fun q => Bool.eqb (w_running (nodes cf (fst q))) (snd q)) (c_running c)
  && forallb (fun q => list_eqb (pair_eqb Z.eqb msg_eqb) (w_held (nodes cf (fst q))) (snd q)) (c_held c)
  && forallb (fun q => let '(s, d, l) := q in list_eqb msg_eqb (chan cf s d) l) (c_inflight c).
