(* P_Repr4.v -- C15 deepening, part 3: the general round-trip theorem
   [wire_roundtrip : wf nan v = true -> wire nan v = Ok v] by induction on the value, and its
   corollaries (generic_roundtrip with tuples / namedtuples, one theorem per hand-written repr,
   computation definitions of the four graph models). *)
From PyDcop Require Import Base P_Base M_AgentDef M_Repr P_Repr P_Repr2 P_Repr3.
Open Scope string_scope.
Open Scope list_scope.
Arguments MOD : simpl never.
Arguments QUAL : simpl never.

Definition Q (nan : bool) (v : py) : Prop :=
  IHP nan v /\ match v with PDict d => Forall (fun kv => IHP nan (snd kv)) d | _ => True end.

Lemma Q_fields {K} nan (f : list (K * py)) :
  Forall (fun nv => Q nan (snd nv)) f -> Forall (fun nv => IHP nan (snd nv)) f.
Proof. apply Forall_impl. intros a H. exact (proj1 H). Qed.

Lemma Q_list nan (l : list py) : Forall (Q nan) l -> Forall (IHP nan) l.
Proof. apply Forall_impl. intros a H. exact (proj1 H). Qed.

Lemma T_TW nan v : (exists s r, T nan v s r) -> wf nan v = true -> exists s r, TW nan v s r (dec_of v).
Proof. intros (s & r & H) W. rewrite (proj2 (wf_wfw nan v W)). exists s, r. exact H. Qed.

Lemma costs_split {V} (f : list (string * V)) :
  existsb (String.eqb "costs") (map fst f) = true ->
  exists f1 v f2, f = f1 ++ ("costs", v) :: f2 /\ existsb (String.eqb "costs") (map fst f1) = false.
Proof.
  induction f as [|[n v] r IH]; [discriminate|]. cbn [map fst existsb]. destruct (String.eqb "costs" n) eqn:E.
  - apply String.eqb_eq in E. subst n. intros _. exists [], v, r. auto.
  - cbn [orb]. intros H. destruct (IH H) as (f1 & u & f2 & -> & N). exists ((n, v) :: f1), u, f2. split; auto.
    cbn [map fst existsb]. now rewrite E, N.
Qed.

Lemma forallb_if_notin nan (X : string * py -> bool) (g : list (string * py)) :
  existsb (String.eqb "costs") (map fst g) = false ->
  forallb (fun nv => if String.eqb (fst nv) "costs" then X nv else wf nan (snd nv)) g
  = forallb (fun nv => wf nan (snd nv)) g.
Proof.
  induction g as [|[n v] r IH]; cbn [map fst existsb forallb snd]; auto. intros H.
  apply orb_false_iff in H as [H1 H2]. rewrite String.eqb_sym, H1, (IH H2). reflexivity.
Qed.

Lemma Forall_map_snd {A B} (P : py -> Prop) (g : A -> B) (d : list (A * py)) :
  Forall (fun kv => P (snd kv)) d -> Forall (fun nv : B * py => P (snd nv)) (map (fun kv => (g (fst kv), snd kv)) d).
Proof. induction 1; cbn [map]; constructor; auto. Qed.

Lemma forallb_map_snd {A B} (P : py -> bool) (g : A -> B) (d : list (A * py)) :
  forallb (fun nv : B * py => P (snd nv)) (map (fun kv => (g (fst kv), snd kv)) d) = forallb (fun kv => P (snd kv)) d.
Proof. induction d as [|[k v] r IH]; cbn [map forallb fst snd]; auto. now rewrite IH. Qed.

Ltac split_and H :=
  repeat match type of H with
         | (_ && _) = true => let H' := fresh H in apply andb_true_iff in H as [H H']
         end.

Lemma str3_eq a b c x y z : str3 a b c x y z = true -> a = x /\ b = y /\ c = z.
Proof.
  unfold str3. intros H. apply andb_true_iff in H as [H H3]. apply andb_true_iff in H as [H1 H2].
  apply String.eqb_eq in H1, H2, H3. auto.
Qed.

Theorem wf_Q nan : forall v, Q nan v.
Proof.
  induction v using py_ind'; (split; [|try exact I]).
  - intros _. exists PNone, PNone. repeat split.
  - discriminate.
  - intros _. exists (PBool b), (PBool b). repeat split.
  - intros _. exists (PInt z), (PInt z). repeat split.
  - intros HS. exists (PFloat r), (PFloat r). apply (scalar_T nan (PFloat r)). exact HS.
  - intros _. exists (PStr s), (PStr s). repeat split.
  - (* list *)
    intros HS. cbn [wfw wf] in HS. destruct (list_T2 nan l (Q_list nan l H) HS) as (ss & rs & E1 & E2 & E3).
    exists (PList ss), (PList rs). repeat split; cbn [simple_repr json_rt from_repr dec_of].
    + rewrite E1, mapM_ok. reflexivity.
    + rewrite E2, mapM_ok. reflexivity.
    + rewrite E3, mapM_ok. reflexivity.
  - (* tuple *)
    intros HS. cbn [wfw wf] in HS. destruct (list_T2 nan l (Q_list nan l H) HS) as (ss & rs & E1 & E2 & E3).
    exists (tuple_repr ss), (tuple_json rs). now apply tuple_T.
  - (* set in a constructor position *)
    intros HS. cbn [wfw] in HS. destruct (list_T2 nan l (Q_list nan l H) HS) as (ss & rs & E1 & E2 & E3).
    exists (PList ss), (PList rs). repeat split; cbn [simple_repr json_rt from_repr dec_of].
    + rewrite E1, mapM_ok. reflexivity.
    + rewrite E2, mapM_ok. reflexivity.
    + rewrite E3, mapM_ok. reflexivity.
  - (* dict *)
    intros HS. apply T_TW; [|exact HS]. cbn [wfw wf] in HS. split_and HS.
    rewrite (str_keys_skeys d HS).
    set (e := map (fun kv : py * py => (key_string (fst kv), snd kv)) d).
    assert (Hk : map fst e = map (fun kv : py * py => key_string (fst kv)) d).
    { unfold e. rewrite map_map. reflexivity. }
    apply dict_T2.
    + unfold e. apply (Forall_map_snd (IHP nan) key_string). exact (Q_fields nan d H).
    + unfold e. now rewrite (forallb_map_snd (wf nan) key_string).
    + now rewrite Hk.
    + now rewrite Hk.
  - exact (Q_fields nan d H).
  - (* namedtuple *)
    intros HS. apply T_TW; [|exact HS]. cbn [wfw wf] in HS. split_and HS.
    destruct (kind_of m q) eqn:HK; try discriminate. now apply named_T.
  - (* object *)
    intros HS. apply T_TW; [|exact HS]. cbn [wfw wf] in HS. pose proof H as HQ. apply Q_fields in H.
    destruct (kind_of m q) eqn:HK; try discriminate.
    + (* generic *) split_and HS. apply negb_true_iff in HS. now apply obj_T2.
    + (* MaxSumMessage *)
      destruct f as [|[n v] [|]]; try discriminate; try (destruct v; discriminate). destruct v; try discriminate. split_and HS.
      apply String.eqb_eq in HS. subst n. now apply maxsum_T.
    + (* Mgm2OfferMessage *)
      destruct f as [|[n1 v1] [|[n2 b] [|]]]; try discriminate; try (destruct v1; discriminate). destruct v1; try discriminate. split_and HS.
      apply String.eqb_eq in HS, HS1. subst. now apply mgm2_T.
    + (* PseudoTreeLink *)
      destruct f as [|[n1 t] [|[n2 s] [|[n3 g] [|]]]]; try discriminate. split_and HS.
      apply str3_eq in HS as (-> & -> & ->).
      inversion H as [|? ? _ H']; subst. inversion H' as [|? ? Hs H'']; subst. inversion H'' as [|? ? Hg _]; subst.
      apply ptlink_T; auto; now apply IH_one.
    + (* OrderLink *)
      destruct f as [|[n1 t] [|[n2 s] [|[n3 g] [|]]]]; try discriminate. split_and HS.
      apply str3_eq in HS as (-> & -> & ->).
      inversion H as [|? ? _ H']; subst. inversion H' as [|? ? Hs H'']; subst. inversion H'' as [|? ? Hg _]; subst.
      apply orderlink_T; auto; now apply IH_one.
    + (* FactorGraphLink *)
      destruct f as [|[n1 s] [|[n2 g] [|]]]; try discriminate. split_and HS.
      apply String.eqb_eq in HS, HS4. subst.
      inversion H as [|? ? Hs H']; subst. inversion H' as [|? ? Hg _]; subst.
      apply fglink_T; auto; now apply IH_one.
    + (* AlgorithmDef *)
      destruct f as [|[n1 a] [|[n2 p] [|[n3 mo] [|]]]]; try discriminate. split_and HS.
      apply str3_eq in HS as (-> & -> & ->).
      inversion H as [|? ? Ha H']; subst. inversion H' as [|? ? _ H'']; subst. inversion H'' as [|? ? Hm _]; subst.
      apply algodef_T; auto; now apply IH_one.
    + (* ExpressionFunction *)
      destruct f as [|[n1 e] [|[n2 sf] [|[n3 fv] [|]]]]; try discriminate. split_and HS.
      apply str3_eq in HS as (-> & -> & ->).
      inversion H as [|? ? He H']; subst. inversion H' as [|? ? Hsf _]; subst.
      apply exprfn_T; auto; now apply IH_one.
    + (* AgentDef *)
      destruct f as [|[n1 n] [|[n2 dr] [|[n3 r] [|[n4 dh] [|[n5 h] [|[n6 at_] [|]]]]]]]; try discriminate; try (destruct at_; discriminate).
      destruct at_; try discriminate. split_and HS.
      apply str3_eq in HS as (-> & -> & ->). apply str3_eq in HS10 as (-> & -> & ->).
      pose proof (Forall_inv H) as I1. pose proof (Forall_inv (Forall_inv_tail H)) as I2.
      pose proof (Forall_inv (Forall_inv_tail (Forall_inv_tail H))) as I3.
      pose proof (Forall_inv (Forall_inv_tail (Forall_inv_tail (Forall_inv_tail H)))) as I4.
      pose proof (Forall_inv (Forall_inv_tail (Forall_inv_tail (Forall_inv_tail (Forall_inv_tail H))))) as I5.
      pose proof (Forall_inv (Forall_inv_tail (Forall_inv_tail (Forall_inv_tail (Forall_inv_tail (Forall_inv_tail HQ)))))) as [_ I6].
      cbn [snd] in I1, I2, I3, I4, I5, I6.
      match goal with Hs : forallb (fun kv : py * py => is_str (fst kv)) d = true |- _ => rewrite (str_keys_skeys d Hs) end.
      apply (agentdef_T nan m q n dr r dh h (map (fun kv : py * py => (key_string (fst kv), snd kv)) d)); auto;
        try (now apply IH_one).
      * now rewrite map_map.
      * now apply (Forall_map_snd (IHP nan) key_string).
      * now rewrite (forallb_map_snd (wf nan) key_string).
    + (* ordered-graph node *)
      apply andb_true_iff in HS as [HS1 HS2].
      destruct (ordered_split f HS1) as (g & ol & -> & N & V & O & L).
      apply Forall_app in H as [Hg Hl]. rewrite forallb_app in HS2. apply andb_true_iff in HS2 as [Sg Sl].
      cbn [forallb snd] in Sl. rewrite andb_true_r in Sl.
      apply ordered_T; auto. apply IH_one; auto. exact (Forall_inv Hl).
    + (* VariableWithCostDict *)
      apply andb_true_iff in HS as [HS S5]. apply andb_true_iff in HS as [HS S4].
      apply andb_true_iff in HS as [HS S3]. apply andb_true_iff in HS as [S1 S2].
      destruct (costs_split f S4) as (f1 & v & f2 & -> & NI1).
      pose proof (names_ok_split _ S1) as [N _]. rewrite map_app in N. cbn [map fst] in N.
      destruct (nodup_mid_notin _ _ _ N) as [_ NI2].
      rewrite forallb_app in S5. apply andb_true_iff in S5 as [A1 A2]. cbn [forallb fst snd] in A2.
      change (String.eqb "costs" "costs") with true in A2. cbv iota in A2.
      apply andb_true_iff in A2 as [A2 A3]. destruct v; try discriminate.
      apply andb_true_iff in A2 as [CK DS].
      rewrite (forallb_if_notin nan _ f1 NI1) in A1. rewrite (forallb_if_notin nan _ f2 NI2) in A3.
      apply Forall_app in H as [H1 H2]. apply Forall_app in HQ as [_ HQ2].
      pose proof (Forall_inv HQ2) as [_ DF]. cbn [snd] in DF.
      apply varcost_T; auto. exact (Forall_inv_tail H2).
  - (* message *)
    intros HS. apply T_TW; [|exact HS]. cbn [wfw wf] in HS. split_and HS. apply msg_T2; auto.
    exact (Q_fields nan f H).
Qed.

(* ================= the general theorem ================= *)
Theorem generic_roundtrip_l : forall nan v, wf nan v = true -> wire nan v = Ok v.
Proof.
  intros nan v H. destruct (wf_wfw nan v H) as [W D].
  destruct (proj1 (wf_Q nan v) W) as (s & r & E1 & E2 & E3). rewrite D in E3.
  unfold wire. rewrite E1. cbn [bind]. rewrite E2. cbn [bind]. exact E3.
Qed.

(* [wf] extends [safe] (the predicate of generic_roundtrip_partial); tuples and namedtuples are in *)
Lemma wf_extends_safe_l : forall nan v, safe nan v = true -> wf nan v = true.
Proof. exact safe_wf. Qed.
Lemma wf_tuple_l : forall nan l, wf nan (PTuple l) = forallb (wf nan) l.
Proof. reflexivity. Qed.
Lemma wf_namedtuple_l : forall nan m q f,
  wf nan (PNamed m q f) =
  (match kind_of m q with KNamedTuple => true | _ => false end
   && names_ok (map fst f) && forallb (fun nv => plain nan (snd nv) && plain_dec (snd nv)) f).
Proof. reflexivity. Qed.

(* the two arithmetic facts that were missing *)
Lemma int_of_str_of_int_l : forall z, Z_of_str (str_of_Z z) = Some z.
Proof. exact Z_of_str_of_Z. Qed.
Lemma sort_increasing_is_identity_l : forall (A : Type) (l : list (Z * A)),
  strictly_increasing (map fst l) = true -> isort (fun a b => Z.leb (fst a) (fst b)) l = l.
Proof. intros A l. apply isort_increasing. Qed.

(* a tuple of any length, of values that survive, survives *)
Lemma roundtrip_tuple_l : forall nan l,
  (forall x, In x l -> wf nan x = true) -> wire nan (PTuple l) = Ok (PTuple l).
Proof.
  intros nan l H. apply generic_roundtrip_l. cbn [wf]. apply forallb_forall. exact H.
Qed.

(* ================= one theorem per hand-written repr ================= *)
Lemma roundtrip_maxsum_message_l : forall nan costs,
  maxsum_ok nan costs = true -> wire nan (maxsum_msg costs) = Ok (maxsum_msg costs).
Proof.
  intros nan costs H. apply generic_roundtrip_l. unfold maxsum_msg. cbn [wf].
  change (kind_of "pydcop.algorithms.maxsum" "MaxSumMessage") with KMaxSum. cbv iota.
  change (String.eqb "costs" "costs") with true. exact H.
Qed.

Lemma roundtrip_mgm2_offer_message_l : forall nan offers b,
  mgm2_ok nan offers (PBool b) = true -> wire nan (mgm2_offer offers b) = Ok (mgm2_offer offers b).
Proof.
  intros nan offers b H. apply generic_roundtrip_l. unfold mgm2_offer. cbn [wf].
  change (kind_of "pydcop.algorithms.mgm2" "Mgm2OfferMessage") with KMgm2Offer. cbv iota.
  change (String.eqb "offers" "offers") with true. change (String.eqb "is_offering" "is_offering") with true.
  exact H.
Qed.

Definition algo_def (algo params mode : py) : py :=
  PObj "pydcop.algorithms" "AlgorithmDef" [("algo", algo); ("params", params); ("mode", mode)].
Definition expr_fn (expression source_file fixed_vars : py) : py :=
  PObj "pydcop.utils.expressionfunction" "ExpressionFunction"
       [("expression", expression); ("source_file", source_file); ("fixed_vars", fixed_vars)].

Lemma wf_algo_def nan a p mo :
  wf nan a = true -> plain nan p = true -> wf nan mo = true -> wf nan (algo_def a p mo) = true.
Proof.
  intros H1 H2 H3. unfold algo_def. cbn [wf].
  change (kind_of "pydcop.algorithms" "AlgorithmDef") with KAlgoDef. cbv iota.
  change (str3 "algo" "params" "mode" "algo" "params" "mode") with true. now rewrite H1, H2, H3.
Qed.

Lemma roundtrip_algorithm_def_l : forall nan algo params mode,
  wf nan algo = true -> plain nan params = true -> wf nan mode = true ->
  wire nan (algo_def algo params mode) = Ok (algo_def algo params mode).
Proof. intros. apply generic_roundtrip_l. now apply wf_algo_def. Qed.

Lemma roundtrip_expression_function_l : forall nan expression source_file fixed_vars,
  wf nan expression = true -> wf nan source_file = true -> plain nan fixed_vars = true ->
  wire nan (expr_fn expression source_file fixed_vars) = Ok (expr_fn expression source_file fixed_vars).
Proof.
  intros nan e sf fv H1 H2 H3. apply generic_roundtrip_l. unfold expr_fn. cbn [wf].
  change (kind_of "pydcop.utils.expressionfunction" "ExpressionFunction") with KExprFn. cbv iota.
  change (str3 "expression" "source_file" "fixed_vars" "expression" "source_file" "fixed_vars") with true.
  now rewrite H1, H2, H3.
Qed.

Definition agent_obj (name default_route routes default_hosting_cost hosting_costs : py)
                     (attrs : list (string * py)) : py :=
  PObj "pydcop.dcop.objects" "AgentDef"
    [("name", name); ("default_route", default_route); ("routes", routes);
     ("default_hosting_cost", default_hosting_cost); ("hosting_costs", hosting_costs);
     ("*attr", PDict (skeys attrs))].

Lemma skeys_is_str attrs : forallb (fun kv : py * py => is_str (fst kv)) (skeys attrs) = true.
Proof. induction attrs as [|[n v] r IH]; cbn; auto. Qed.
Lemma skeys_key_strings attrs : map (fun kv : py * py => key_string (fst kv)) (skeys attrs) = map fst attrs.
Proof. unfold skeys. rewrite map_map. reflexivity. Qed.
Lemma skeys_forall_wf nan attrs :
  forallb (fun kv : py * py => wf nan (snd kv)) (skeys attrs) = forallb (fun nv => wf nan (snd nv)) attrs.
Proof. unfold skeys. rewrite forallb_map. reflexivity. Qed.

Lemma roundtrip_agentdef_wire_l : forall nan name dr routes dh hosting attrs,
  wf nan name = true -> wf nan dr = true -> wf nan routes = true -> not_none routes = true ->
  wf nan dh = true -> wf nan hosting = true -> not_none hosting = true ->
  names_ok (AGENT_NAMED ++ map fst attrs) = true -> forallb (fun nv => wf nan (snd nv)) attrs = true ->
  wire nan (agent_obj name dr routes dh hosting attrs) = Ok (agent_obj name dr routes dh hosting attrs).
Proof.
  intros nan n dr r dh h at_ H1 H2 H3 H4 H5 H6 H7 H8 H9. apply generic_roundtrip_l. unfold agent_obj. cbn [wf].
  change (kind_of "pydcop.dcop.objects" "AgentDef") with KAgentDef. cbv iota.
  change (str3 "name" "default_route" "routes" "name" "default_route" "routes") with true.
  change (str3 "default_hosting_cost" "hosting_costs" "*attr" "default_hosting_cost" "hosting_costs" "*attr") with true.
  rewrite H1, H2, H3, H4, H5, H6, H7, skeys_is_str, skeys_key_strings, H8, skeys_forall_wf, H9. reflexivity.
Qed.

Definition var_cost_dict (name domain : py) (costs : list (py * py)) (initial_value : py) : py :=
  PObj "pydcop.dcop.objects" "VariableWithCostDict"
    [("name", name); ("domain", domain); ("costs", PDict costs); ("initial_value", initial_value)].

Lemma roundtrip_variable_with_cost_dict_l : forall nan name domain costs init,
  wf nan name = true -> wf nan domain = true -> wf nan init = true ->
  cost_keys_ok (map fst costs) = true -> forallb (fun kv => wf nan (snd kv)) costs = true ->
  wire nan (var_cost_dict name domain costs init) = Ok (var_cost_dict name domain costs init).
Proof.
  intros nan n dm d i H1 H2 H3 H4 H5. apply generic_roundtrip_l. unfold var_cost_dict. cbn [wf].
  change (kind_of "pydcop.dcop.objects" "VariableWithCostDict") with KVarCostDict. cbv iota.
  cbn [map fst snd forallb existsb].
  change (names_ok ["name"; "domain"; "costs"; "initial_value"]) with true.
  change (is_hidden "name") with false. change (is_hidden "domain") with false.
  change (is_hidden "costs") with false. change (is_hidden "initial_value") with false.
  change (String.eqb "name" "cost_values") with false. change (String.eqb "domain" "cost_values") with false.
  change (String.eqb "costs" "cost_values") with false. change (String.eqb "initial_value" "cost_values") with false.
  change (String.eqb "costs" "name") with false. change (String.eqb "costs" "domain") with false.
  change (String.eqb "costs" "costs") with true. change (String.eqb "name" "costs") with false.
  change (String.eqb "domain" "costs") with false. change (String.eqb "initial_value" "costs") with false.
  cbv iota. cbn [negb andb orb]. now rewrite H1, H2, H3, H4, H5.
Qed.

Definition ordered_node (variable constraints name : py) (links : list (string * string * string)) : py :=
  PObj "pydcop.computations_graph.ordered_graph" "VariableComputationNode"
    [("variable", variable); ("constraints", constraints); ("name", name);
     ("*order_links", PList (map (fun l => order_link (fst (fst l)) (snd (fst l)) (snd l)) links))].

Lemma wf_order_links nan (links : list (string * string * string)) :
  (forall l, In l links -> In (fst (fst l)) ORDER_TYPES) ->
  forallb (wf nan) (map (fun l => order_link (fst (fst l)) (snd (fst l)) (snd l)) links) = true.
Proof.
  induction links as [|[[t s] g] r IH]; intros H; [reflexivity|]. cbn [map forallb fst snd].
  rewrite IH by (intros l Hl; apply H; now right). rewrite andb_true_r.
  pose proof (H (t, s, g) (or_introl eq_refl)) as Ht. cbn [fst] in Ht.
  unfold ORDER_TYPES in Ht. cbn [In] in Ht. destruct Ht as [<-|[<-|[]]]; reflexivity.
Qed.

Lemma wf_ordered_node nan v c n links :
  wf nan v = true -> wf nan c = true -> wf nan n = true ->
  (forall l, In l links -> In (fst (fst l)) ORDER_TYPES) ->
  wf nan (ordered_node v c n links) = true.
Proof.
  intros H1 H2 H3 HL. unfold ordered_node. cbn [wf].
  change (kind_of "pydcop.computations_graph.ordered_graph" "VariableComputationNode") with KOrderedNode. cbv iota.
  cbn [map fst snd forallb].
  change (ordered_names_ok ["variable"; "constraints"; "name"; "*order_links"]) with true.
  rewrite H1, H2, H3. cbn [wf]. now rewrite (wf_order_links nan links HL).
Qed.

Lemma roundtrip_ordered_node_l : forall nan variable constraints name links,
  wf nan variable = true -> wf nan constraints = true -> wf nan name = true ->
  (forall l, In l links -> In (fst (fst l)) ORDER_TYPES) ->
  wire nan (ordered_node variable constraints name links) = Ok (ordered_node variable constraints name links).
Proof. intros. apply generic_roundtrip_l. now apply wf_ordered_node. Qed.

(* ================= computation definitions of the four graph models ================= *)
(* ComputationDef(node, algo) and the node classes are handled by the generic mixin; what they
   contain (variables, domains = tuples, constraints, links, AlgorithmDef) is any well-formed value *)
Lemma wf_generic_obj nan m q f :
  kind_of m q = KGeneric -> String.eqb q "tuple" = false -> names_ok (map fst f) = true ->
  forallb (fun nv => negb (is_hidden (fst nv))) f = true -> forallb (fwf nan q) f = true ->
  wf nan (PObj m q f) = true.
Proof. intros HK HQ HN HV HF. cbn [wf]. rewrite HK, HQ, HN, HV. exact HF. Qed.

Lemma fwf_plain nan q n v :
  set_field q n = false -> tuple_field q n = false -> wf nan v = true -> fwf nan q (n, v) = true.
Proof. intros H1 H2 H3. unfold fwf. cbn [fst snd]. now rewrite H1, H2, H3. Qed.

Definition comp_def (node algo : py) : py :=
  PObj "pydcop.algorithms" "ComputationDef" [("node", node); ("algo", algo)].

Lemma wf_comp_def nan node algo : wf nan node = true -> wf nan algo = true -> wf nan (comp_def node algo) = true.
Proof.
  intros H1 H2. apply wf_generic_obj; try reflexivity. cbn [forallb].
  rewrite !fwf_plain by (reflexivity || assumption). reflexivity.
Qed.

(* pseudo-tree (dpop, ncbb) *)
Definition pt_node (variable : py) (constraints : list py) (links : list (string * string * string)) (name : py) : py :=
  PObj "pydcop.computations_graph.pseudotree" "PseudoTreeNode"
    [("variable", variable); ("constraints", PTuple constraints);
     ("links", PList (map (fun l => pt_link (fst (fst l)) (snd (fst l)) (snd l)) links)); ("name", name)].

Lemma wf_pt_links nan (links : list (string * string * string)) :
  (forall l, In l links -> In (fst (fst l)) PT_TYPES) ->
  forallb (wf nan) (map (fun l => pt_link (fst (fst l)) (snd (fst l)) (snd l)) links) = true.
Proof.
  induction links as [|[[t s] g] r IH]; intros H; [reflexivity|]. cbn [map forallb fst snd].
  rewrite IH by (intros l Hl; apply H; now right). rewrite andb_true_r.
  pose proof (H (t, s, g) (or_introl eq_refl)) as Ht. cbn [fst] in Ht.
  unfold PT_TYPES in Ht. cbn [In] in Ht. destruct Ht as [<-|[<-|[<-|[<-|[]]]]]; reflexivity.
Qed.

Lemma wf_pt_node nan v cs links n :
  wf nan v = true -> forallb (wf nan) cs = true -> wf nan n = true ->
  (forall l, In l links -> In (fst (fst l)) PT_TYPES) ->
  wf nan (pt_node v cs links n) = true.
Proof.
  intros H1 H2 H3 HL. apply wf_generic_obj; try reflexivity. cbn [forallb].
  rewrite !fwf_plain; try reflexivity; try assumption.
  - cbn [wf]. now apply wf_pt_links.
Qed.

(* factor graph (maxsum, amaxsum) *)
Definition fg_variable_node (variable : py) (constraints_names : list string) (name : py) : py :=
  PObj "pydcop.computations_graph.factor_graph" "VariableComputationNode"
    [("variable", variable); ("constraints_names", PList (map PStr constraints_names)); ("name", name)].
Definition fg_factor_node (factor name : py) : py :=
  PObj "pydcop.computations_graph.factor_graph" "FactorComputationNode" [("factor", factor); ("name", name)].

Lemma wf_strs nan l : forallb (wf nan) (map PStr l) = true.
Proof. induction l; cbn; auto. Qed.

Lemma wf_fg_variable_node nan v cn n : wf nan v = true -> wf nan n = true -> wf nan (fg_variable_node v cn n) = true.
Proof.
  intros H1 H2. apply wf_generic_obj; try reflexivity. cbn [forallb].
  rewrite !fwf_plain; try reflexivity; try assumption. cbn [wf]. apply wf_strs.
Qed.
Lemma wf_fg_factor_node nan f n : wf nan f = true -> wf nan n = true -> wf nan (fg_factor_node f n) = true.
Proof.
  intros H1 H2. apply wf_generic_obj; try reflexivity. cbn [forallb].
  rewrite !fwf_plain; try reflexivity; try assumption.
Qed.

(* constraints hyper-graph (dsa, mgm, mgm2, dba, gdba, ...) *)
Definition hg_node (variable : py) (constraints : list py) (name : py) : py :=
  PObj "pydcop.computations_graph.constraints_hypergraph" "VariableComputationNode"
    [("variable", variable); ("constraints", PList constraints); ("name", name)].
Definition constraint_link (m name : string) (nodes : list string) : py :=
  PObj m "ConstraintLink" [("name", PStr name); ("nodes", PSet (map PStr nodes))].

Lemma wf_hg_node nan v cs n :
  wf nan v = true -> forallb (wf nan) cs = true -> wf nan n = true -> wf nan (hg_node v cs n) = true.
Proof.
  intros H1 H2 H3. apply wf_generic_obj; try reflexivity. cbn [forallb].
  rewrite !fwf_plain; try reflexivity; try assumption.
Qed.

(* the hyper-edge: its node set is rebuilt by the constructor (frozenset) *)
Lemma roundtrip_constraint_link_l : forall nan m name nodes,
  wire nan (constraint_link m name nodes) = Ok (constraint_link m name nodes).
Proof.
  intros nan m name nodes. apply generic_roundtrip_l. apply wf_generic_obj; try reflexivity.
  cbn [forallb]. unfold fwf. cbn [fst snd].
  change (set_field "ConstraintLink" "name") with false. change (set_field "ConstraintLink" "nodes") with true.
  change (tuple_field "ConstraintLink" "name") with false. cbv iota. cbn [wf is_list andb negb].
  now rewrite wf_strs.
Qed.

(* a variable as the graphs carry it: Variable(name, Domain(name, type, values tuple), initial value) *)
Definition domain_obj (name dtype : py) (values : list py) : py :=
  PObj "pydcop.dcop.objects" "Domain" [("name", name); ("domain_type", dtype); ("values", PTuple values)].
Definition variable_obj (name domain init : py) : py :=
  PObj "pydcop.dcop.objects" "Variable" [("name", name); ("domain", domain); ("initial_value", init)].

Lemma wf_domain nan n t vs : wf nan n = true -> wf nan t = true -> forallb (wf nan) vs = true ->
  wf nan (domain_obj n t vs) = true.
Proof.
  intros H1 H2 H3. apply wf_generic_obj; try reflexivity. cbn [forallb].
  rewrite (fwf_plain nan "Domain" "name"), (fwf_plain nan "Domain" "domain_type") by (reflexivity || assumption).
  unfold fwf. cbn [fst snd]. change (set_field "Domain" "values") with false. cbv iota. cbn [wf is_list].
  now rewrite H3, andb_false_r.
Qed.
Lemma wf_variable nan n d i : wf nan n = true -> wf nan d = true -> wf nan i = true ->
  wf nan (variable_obj n d i) = true.
Proof.
  intros H1 H2 H3. apply wf_generic_obj; try reflexivity. cbn [forallb].
  rewrite !fwf_plain; try reflexivity; try assumption.
Qed.

Lemma roundtrip_domain_l : forall nan name dtype values,
  wf nan name = true -> wf nan dtype = true -> forallb (wf nan) values = true ->
  wire nan (domain_obj name dtype values) = Ok (domain_obj name dtype values).
Proof. intros. apply generic_roundtrip_l. now apply wf_domain. Qed.

Theorem roundtrip_computation_def_pseudotree_l : forall nan variable constraints links name algo,
  wf nan variable = true -> forallb (wf nan) constraints = true -> wf nan name = true ->
  (forall l, In l links -> In (fst (fst l)) PT_TYPES) -> wf nan algo = true ->
  let cd := comp_def (pt_node variable constraints links name) algo in wire nan cd = Ok cd.
Proof. intros. apply generic_roundtrip_l. apply wf_comp_def; auto. now apply wf_pt_node. Qed.

Theorem roundtrip_computation_def_factor_graph_l : forall nan variable constraints_names factor name algo,
  wf nan variable = true -> wf nan factor = true -> wf nan name = true -> wf nan algo = true ->
  let cv := comp_def (fg_variable_node variable constraints_names name) algo in
  let cf := comp_def (fg_factor_node factor name) algo in
  wire nan cv = Ok cv /\ wire nan cf = Ok cf.
Proof.
  intros. split; apply generic_roundtrip_l; apply wf_comp_def; auto.
  - now apply wf_fg_variable_node.
  - now apply wf_fg_factor_node.
Qed.

Theorem roundtrip_computation_def_hypergraph_l : forall nan variable constraints name algo,
  wf nan variable = true -> forallb (wf nan) constraints = true -> wf nan name = true -> wf nan algo = true ->
  let cd := comp_def (hg_node variable constraints name) algo in wire nan cd = Ok cd.
Proof. intros. apply generic_roundtrip_l. apply wf_comp_def; auto. now apply wf_hg_node. Qed.

Theorem roundtrip_computation_def_ordered_graph_l : forall nan variable constraints name links algo,
  wf nan variable = true -> wf nan constraints = true -> wf nan name = true ->
  (forall l, In l links -> In (fst (fst l)) ORDER_TYPES) -> wf nan algo = true ->
  let cd := comp_def (ordered_node variable constraints name links) algo in wire nan cd = Ok cd.
Proof. intros. apply generic_roundtrip_l. apply wf_comp_def; auto. now apply wf_ordered_node. Qed.

(* ================= AgentDef of C31's record through the wire ================= *)
Definition zkeys_ok (d : list (string * Z)) : bool :=
  nodupb String.eqb (map fst d)
  && negb (existsb (String.eqb QUAL) (map fst d) && existsb (String.eqb MOD) (map fst d)).

Lemma wf_zdict nan d : zkeys_ok d = true -> wf nan (zdict d) = true.
Proof.
  unfold zkeys_ok, zdict. intros H. apply andb_true_iff in H as [H1 H2]. cbn [wf].
  rewrite !map_map. cbn [fst snd key_string].
  change (map (fun x : string * Z => fst x) d) with (map fst d). rewrite H1, H2.
  rewrite !forallb_map. cbn [fst snd is_str wf].
  assert (forallb (fun _ : string * Z => true) d = true) as -> by (clear; induction d; cbn; auto). reflexivity.
Qed.

Lemma zdict_skeys d : zdict d = PDict (skeys (map (fun kv : string * Z => (fst kv, PInt (snd kv))) d)).
Proof. unfold zdict, skeys. now rewrite map_map. Qed.

Lemma agentdef_wire_roundtrip_l : forall nan a,
  zkeys_ok (a_routes a) = true -> zkeys_ok (a_hosting a) = true ->
  names_ok (AGENT_NAMED ++ map fst (a_attrs a)) = true ->
  wire nan (py_of_agent a) = Ok (py_of_agent a).
Proof.
  intros nan a H1 H2 H3. unfold py_of_agent. rewrite (zdict_skeys (a_attrs a)).
  apply (roundtrip_agentdef_wire_l nan (PStr (a_name a)) (PInt (a_default_route a)) (zdict (a_routes a))
           (PInt (a_default_hosting a)) (zdict (a_hosting a))); try reflexivity.
  - now apply wf_zdict.
  - now apply wf_zdict.
  - now rewrite map_map.
  - rewrite forallb_map. cbn [snd wf]. clear. induction (a_attrs a); cbn; auto.
Qed.

(* the agent decoded on the other side answers route / hosting_cost / extra attributes alike *)
Lemma agentdef_wire_keeps_costs_l : forall nan a b,
  zkeys_ok (a_routes a) = true -> zkeys_ok (a_hosting a) = true ->
  names_ok (AGENT_NAMED ++ map fst (a_attrs a)) = true ->
  wire nan (py_of_agent a) = Ok (py_of_agent b) ->
  (forall o, route b o = route a o) /\ (forall c, hosting_cost b c = hosting_cost a c)
  /\ (forall k, getattr b k = getattr a k).
Proof.
  intros nan a b H1 H2 H3 H. rewrite (agentdef_wire_roundtrip_l nan a H1 H2 H3) in H. apply Ok_inj in H.
  apply py_of_agent_inj in H. subst. auto.
Qed.

(* two dict keys with the same JSON rendering: json.dumps writes both, json.loads keeps the position of
   the first and the value of the last, so an entry is lost (such a dict is not [wf]) *)
Lemma colliding_keys_refuted_l :
  let v := PDict [(PInt 0, PTuple []); (PStr "0", PInt 7); (PStr "a", PInt 1)] in
  wf true v = false /\ wire true v = Ok (PDict [(PStr "0", PInt 7); (PStr "a", PInt 1)]).
Proof. vm_compute. split; reflexivity. Qed.
