(* M_Mgm.v -- executable model of pydcop/algorithms/mgm.py (MgmComputation), C07/C03/C04.

   Part 1: encoding of a DCOP shared by the local-search models (M_Dsa, M_Mgm2).
   Part 2: the message handlers of MgmComputation with their two postponed lists, as a
           [Net.proto] (asynchronous model; schedules are explicit).
   Part 3: the round-level functional model [mgm_round] (one complete cycle of all nodes).
   Part 4: correspondence cases.
   Models only; proofs are in P_Mgm.v.

   Conventions: variable v%02d is node id i; domain values are integers; costs are integers.
   Randomness: random.choice(l) takes one draw x from the node's own oracle stream and returns
   l[x mod len l] (the driver logs the index it chose).  The tie-break number drawn in
   _send_gain is not modelled: `self.break_mode == random` compares a string with the module,
   so _break_ties always takes the lexical branch and never reads it.
   find_arg_optimal's int32 sentinels (C06) are not modelled: costs are assumed inside int32. *)
From PyDcop Require Import Base Net.

(* ------------------------------------------------------------------ 1. DCOP encoding *)
Record constr := mkC { c_scope : list Z; c_tab : list (list Z * Z) }.
Record var := mkV { v_dom : list Z; v_init : option Z; v_cost : list (Z * Z) }.
Record dcop := mkD { d_vars : list (Z * var); d_cons : list constr; d_max : bool }.

Definition tab_get (t : list (list Z * Z)) (k : list Z) : Z :=
  match lookup (list_eqb Z.eqb) k t with Some x => x | None => 0 end.
(* value of a constraint under a (total) assignment *)
Definition ceval (c : constr) (f : Z -> Z) : Z := tab_get (c_tab c) (map f (c_scope c)).

Definition var_of (d : dcop) (n : Z) : var :=
  match zlookup n (d_vars d) with Some v => v | None => mkV [] None [] end.
Definition dom_of (d : dcop) (n : Z) : list Z := v_dom (var_of d n).
(* Variable.cost_for_val *)
Definition vcost (d : dcop) (n v : Z) : Z :=
  match zlookup v (v_cost (var_of d n)) with Some c => c | None => 0 end.

(* node.constraints of the constraints hyper-graph: the constraints whose scope holds n *)
Definition cons_of (d : dcop) (n : Z) : list constr :=
  filter (fun c => zmem n (c_scope c)) (d_cons d).

Fixpoint zdedup (l : list Z) : list Z :=
  match l with [] => [] | x :: r => if zmem x r then zdedup r else x :: zdedup r end.

(* the other variables of n's constraints, sorted (the code holds a set) *)
Definition nbrs (d : dcop) (n : Z) : list Z :=
  isort Z.leb (zdedup (filter (fun x => negb (x =? n)) (flat_map c_scope (cons_of d n)))).

Definition aget (a : list (Z * Z)) (v : Z) : Z := match zlookup v a with Some x => x | None => -1 end.

Definition zlen {A} (l : list A) : Z := Z.of_nat (List.length l).

(* c strictly better than b for the objective *)
Definition better (mx : bool) (c b : Z) : bool := if mx then b <? c else c <? b.

(* relations.find_arg_optimal on a non-empty domain: values reaching the optimum, in domain
   order, and the optimum *)
Fixpoint argopt_from (mx : bool) (f : Z -> Z) (dom : list Z) (best : Z) (acc : list Z) : list Z * Z :=
  match dom with
  | [] => (acc, best)
  | x :: r =>
      let c := f x in
      if better mx c best then argopt_from mx f r c [x]
      else if c =? best then argopt_from mx f r best (acc ++ [x])
      else argopt_from mx f r best acc
  end.
Definition find_arg_optimal (mx : bool) (f : Z -> Z) (dom : list Z) : list Z * Z :=
  match dom with
  | [] => ([], if mx then -2147483648 else 2147483647)
  | x :: r => argopt_from mx f r (f x) [x]
  end.

(* relations.optimal_cost_value: min / max over the tuples (cost, value) *)
Definition lex_better (mx : bool) (a b : Z * Z) : bool :=
  if mx then (fst b <? fst a) || ((fst a =? fst b) && (snd b <? snd a))
  else (fst a <? fst b) || ((fst a =? fst b) && (snd a <? snd b)).
Definition optimal_cost_value (d : dcop) (n : Z) : Z * Z :=   (* (value, cost) *)
  match dom_of d n with
  | [] => (0, 0)
  | x :: r =>
      let best := fold_left (fun b v => let t := (vcost d n v, v) in if lex_better (d_max d) t b then t else b)
                            r (vcost d n x, x) in
      (snd best, fst best)
  end.

Definition draw (orc : list Z) : Z * list Z := match orc with [] => (0, []) | x :: r => (x, r) end.
Definition choose (l : list Z) (x : Z) (dflt : Z) : Z := nth (Z.to_nat (x mod (zlen l))) l dflt.

Definition sort_kv (l : list (Z * Z)) : list (Z * Z) := isort (fun a b => fst a <=? fst b) l.

(* ------------------------------------------------------------------ 2. handlers *)
Inductive mstate := SStarting | SValues | SGain.
Inductive mmsg := MValue (v : Z) | MGain (g : Z).
Inductive mev :=
| EvValue (n v : Z) (cost : option Z) (cyc : Z)   (* _on_value_selection(v, cost, cycle_count) *)
| EvCycle (n k : Z)                               (* _on_new_cycle(k) *)
| EvFinished (n k : Z)                            (* finished() called with cycle_count = k *)
| EvErr (n code : Z).                             (* 9: re-entrant postponed processing, not modelled *)

Record mst := mkM {
  m_state : mstate;
  m_cycle : Z;                   (* cycle_count *)
  m_value : option Z;            (* current_value *)
  m_cost : option Z;             (* current_cost *)
  m_nv : list (Z * Z);           (* _neighbors_values *)
  m_ng : list (Z * Z);           (* _neighbors_gains (gain only) *)
  m_gain : Z;                    (* _gain *)
  m_newv : Z;                    (* _new_value *)
  m_pv : list (Z * Z);           (* __postponed_value_messages__ *)
  m_pg : list (Z * Z);           (* __postponed_gain_messages__ *)
  m_orc : list Z;                (* remaining draws of this node *)
  m_fin : Z                      (* ghost: number of finished() calls *)
}.

Definition res := (mst * list (node * mmsg) * list mev)%type.
Definition andthen (r : res) (f : mst -> res) : res :=
  let '(s, o, e) := r in let '(s', o', e') := f s in (s', o ++ o', e ++ e').
Definition ret (s : mst) : res := (s, [], []).

Definition set_state s x := mkM x (m_cycle s) (m_value s) (m_cost s) (m_nv s) (m_ng s) (m_gain s) (m_newv s) (m_pv s) (m_pg s) (m_orc s) (m_fin s).
Definition set_pv s x := mkM (m_state s) (m_cycle s) (m_value s) (m_cost s) (m_nv s) (m_ng s) (m_gain s) (m_newv s) x (m_pg s) (m_orc s) (m_fin s).
Definition set_pg s x := mkM (m_state s) (m_cycle s) (m_value s) (m_cost s) (m_nv s) (m_ng s) (m_gain s) (m_newv s) (m_pv s) x (m_orc s) (m_fin s).
Definition set_nv s x := mkM (m_state s) (m_cycle s) (m_value s) (m_cost s) x (m_ng s) (m_gain s) (m_newv s) (m_pv s) (m_pg s) (m_orc s) (m_fin s).
Definition set_ng s x := mkM (m_state s) (m_cycle s) (m_value s) (m_cost s) (m_nv s) x (m_gain s) (m_newv s) (m_pv s) (m_pg s) (m_orc s) (m_fin s).
Definition set_cost s x := mkM (m_state s) (m_cycle s) (m_value s) x (m_nv s) (m_ng s) (m_gain s) (m_newv s) (m_pv s) (m_pg s) (m_orc s) (m_fin s).

Definition cur_value (s : mst) : Z := match m_value s with Some v => v | None => 0 end.
Definition cur_cost (s : mst) : Z := match m_cost s with Some v => v | None => 0 end.

Section Mgm.
  Variable d : dcop.
  Variable stop : Z.             (* stop_cycle, 0 = never *)
  Variable orc : node -> list Z.

  Section Node.
  Variable n : node.
  Let nb := nbrs d n.

  (* VariableComputation.value_selection *)
  Definition value_selection (s : mst) (v : Z) (c : option Z) : res :=
    (mkM (m_state s) (m_cycle s) (Some v) c (m_nv s) (m_ng s) (m_gain s) (m_newv s) (m_pv s) (m_pg s) (m_orc s) (m_fin s),
     [],
     if option_eqb Z.eqb (m_value s) (Some v) then [] else [EvValue n v c (m_cycle s)]).

  (* _send_value: new_cycle(), stop test, value message to every neighbour *)
  Definition send_value (s : mst) : res :=
    let k := m_cycle s + 1 in
    let s1 := mkM (m_state s) k (m_value s) (m_cost s) (m_nv s) (m_ng s) (m_gain s) (m_newv s) (m_pv s) (m_pg s) (m_orc s) (m_fin s) in
    if negb (stop =? 0) && (stop <=? k) then
      (mkM (m_state s) k (m_value s) (m_cost s) (m_nv s) (m_ng s) (m_gain s) (m_newv s) (m_pv s) (m_pg s) (m_orc s) (m_fin s + 1),
       [], [EvCycle n k; EvFinished n k])
    else (s1, map (fun t => (t, MValue (cur_value s1))) nb, [EvCycle n k]).

  (* the assignment a node evaluates its constraints on: own value x, neighbours from the view *)
  Definition view (nv : list (Z * Z)) (x : Z) : Z -> Z := fun v => if v =? n then x else aget nv v.
  Definition cons_sum (f : Z -> Z) : Z := zsum (map (fun c => ceval c f) (cons_of d n)).
  Definition nb_vcost (nv : list (Z * Z)) : Z := zsum (map (fun m => vcost d m (aget nv m)) nb).

  (* the cost computed in _handle_value_message when current_cost is None *)
  Definition local_cost (nv : list (Z * Z)) (x : Z) : Z :=
    cons_sum (view nv x) + vcost d n x + nb_vcost nv.

  (* the function a node optimises: its constraints and its own cost (fix 1) *)
  Definition own_cost (nv : list (Z * Z)) (x : Z) : Z := cons_sum (view nv x) + vcost d n x.

  (* _compute_best_value *)
  Definition compute_best_value (nv : list (Z * Z)) : list Z * Z :=
    let '(vals, best) := find_arg_optimal (d_max d) (own_cost nv) (dom_of d n) in
    (vals, best + nb_vcost nv).

  (* _handle_value_message; [wfg] = _wait_for_gains *)
  Definition handle_value (wfg : mst -> res) (s : mst) (src v : Z) : res :=
    let s1 := set_nv s (dict_set Z.eqb src v (m_nv s)) in
    if zlen (m_nv s1) =? zlen nb then
      let cur := cur_value s1 in
      let s2 := set_cost s1 (Some (local_cost (m_nv s1) cur)) in     (* every cycle (fix 2) *)
      let '(vals, val_cost) := compute_best_value (m_nv s2) in
      let gain := cur_cost s2 - val_cost in
      let improving := if d_max d then gain <? 0 else 0 <? gain in
      let '(newv, orc') := if improving then let '(x, o) := draw (m_orc s2) in (choose vals x cur, o)
                           else (cur, m_orc s2) in
      let s3 := mkM (m_state s2) (m_cycle s2) (m_value s2) (m_cost s2) (m_nv s2) (m_ng s2) gain newv
                    (m_pv s2) (m_pg s2) orc' (m_fin s2) in
      andthen (s3, map (fun t => (t, MGain gain)) nb, []) wfg
    else ret s1.

  (* best gain among the neighbours: gains are signed (current - best cost), the best one is the
     highest when minimising, the lowest when maximising (fix 3) *)
  Definition max_gain (ng : list (Z * Z)) : Z :=
    match ng with
    | [] => 0
    | p :: r => fold_left (fun m q => if d_max d then Z.min m (snd q) else Z.max m (snd q)) r (snd p)
    end.

  (* does this node move?  strict best, or tie won lexically *)
  Definition wins (gain : Z) (ng : list (Z * Z)) : bool :=
    let mxn := max_gain ng in
    (if d_max d then gain <? mxn else mxn <? gain)
    || ((gain =? mxn) && forallb (fun p => negb (snd p =? mxn) || (n <? fst p)) ng).

  (* _handle_gain_message; [wfv] = _wait_for_values *)
  Definition handle_gain (wfv : mst -> res) (s : mst) (src g : Z) : res :=
    let s1 := set_ng s (dict_set Z.eqb src g (m_ng s)) in
    if zlen (m_ng s1) =? zlen nb then
      let r := if wins (m_gain s1) (m_ng s1)
               then value_selection s1 (m_newv s1) (Some (cur_cost s1 - m_gain s1))
               else ret s1 in
      andthen r (fun s2 => wfv (set_nv (set_ng s2 []) []))
    else ret s1.

  (* _wait_for_gains / _wait_for_values with the loops over the postponed lists *)
  Definition wfg_gen (hg : mst -> Z -> Z -> res) (s : mst) : res :=
    let r := fold_left (fun acc m => andthen acc (fun s' => hg s' (fst m) (snd m))) (m_pg s) (ret (set_state s SGain)) in
    andthen r (fun s' => ret (set_pg s' [])).
  Definition wfv_gen (hv : mst -> Z -> Z -> res) (s : mst) : res :=
    let r := fold_left (fun acc m => andthen acc (fun s' => hv s' (fst m) (snd m))) (m_pv s)
                       (send_value (set_state s SValues)) in
    andthen r (fun s' => ret (set_pv s' [])).

  (* innermost level: a non-empty postponed list here would mean re-entrant processing of the
     list an outer loop is iterating on; flagged, proved unreachable (P_Mgm.mgm_no_reentrancy) *)
  Definition wfv2 (s : mst) : res :=
    andthen (send_value (set_state s SValues))
            (fun s' => match m_pv s' with [] => ret s' | _ => (s', [], [EvErr n 9]) end).
  Definition wfg2 (s : mst) : res :=
    match m_pg s with [] => ret (set_state s SGain) | _ => (set_state s SGain, [], [EvErr n 9]) end.
  Definition hv1 := handle_value wfg2.
  Definition hg1 := handle_gain wfv2.
  Definition wfg1 := wfg_gen hg1.
  Definition wfv1 := wfv_gen hv1.
  Definition hv0 := handle_value wfg1.
  Definition hg0 := handle_gain wfv1.

  (* value and cost selected at start by a variable without neighbour (fix 4): its unary
     constraints and its own cost decide; without constraint, optimal_cost_value *)
  Definition isolated_choice : Z * Z :=
    match cons_of d n with
    | [] => optimal_cost_value d n
    | _ => let '(vals, best) := compute_best_value [] in (hd 0 vals, best)
    end.

  Definition mgm_start (s : mst) : res :=
    match nb with
    | [] =>
        (* no neighbour: unary constraints and own cost decide (fix 4) *)
        let '(v, c) := isolated_choice in
        andthen (value_selection s v (Some c))
                (fun s1 => (mkM (m_state s1) (m_cycle s1) (m_value s1) (m_cost s1) (m_nv s1) (m_ng s1) (m_gain s1)
                                (m_newv s1) (m_pv s1) (m_pg s1) (m_orc s1) (m_fin s1 + 1),
                            [], [EvFinished n (m_cycle s1)]))
    | _ =>
        let '(v0, orc') := match v_init (var_of d n) with
                           | Some v => (v, m_orc s)
                           | None => let '(x, o) := draw (m_orc s) in (choose (dom_of d n) x 0, o)
                           end in
        let s0 := mkM (m_state s) (m_cycle s) (m_value s) (m_cost s) (m_nv s) (m_ng s) (m_gain s) (m_newv s)
                      (m_pv s) (m_pg s) orc' (m_fin s) in
        andthen (value_selection s0 v0 None) wfv1
    end.

  Definition mgm_recv (s : mst) (src : node) (m : mmsg) : res :=
    match m with
    | MValue v =>
        match m_state s with
        | SValues => hv0 s src v
        | _ => ret (set_pv s (m_pv s ++ [(src, v)]))
        end
    | MGain g =>
        match m_state s with
        | SGain => hg0 s src g
        | _ => ret (set_pg s (m_pg s ++ [(src, g)]))
        end
    end.

  Definition mgm_init : mst := mkM SStarting 0 None None [] [] 0 0 [] [] (orc n) 0.
  End Node.

  Definition mgm_proto : proto mst mmsg mev := mkProto mgm_init mgm_start mgm_recv.
End Mgm.

(* ------------------------------------------------------------------ 3. round-level model
   One complete MGM cycle of all computations as a function on total assignments: what every
   node computes when it holds the values its neighbours had at the start of the cycle and then
   the gains they computed from them.  [dr v] is the draw node v uses for random.choice if it
   draws in this cycle.  Nodes without neighbour do not take part in cycles. *)
Definition fupd (a : Z -> Z) (n x : Z) : Z -> Z := fun v => if v =? n then x else a v.

Section Round.
  Variable d : dcop.

  (* cost of n's constraints and of its own value when n takes x, the others as in a *)
  Definition own (a : Z -> Z) (n x : Z) : Z :=
    zsum (map (fun c => ceval c (fupd a n x)) (cons_of d n)) + vcost d n x.
  Definition r_best (a : Z -> Z) (n : Z) : list Z * Z := find_arg_optimal (d_max d) (own a n) (dom_of d n).
  Definition r_gain (a : Z -> Z) (n : Z) : Z := own a n (a n) - snd (r_best a n).
  Definition r_improving (a : Z -> Z) (n : Z) : bool :=
    if d_max d then r_gain a n <? 0 else 0 <? r_gain a n.
  Definition r_newv (a : Z -> Z) (n x : Z) : Z :=
    if r_improving a n then choose (fst (r_best a n)) x (a n) else a n.
  Definition r_wins (a : Z -> Z) (n : Z) : bool :=
    wins d n (r_gain a n) (map (fun m => (m, r_gain a m)) (nbrs d n)).
  Definition r_active (n : Z) : bool := match nbrs d n with [] => false | _ => true end.
  Definition r_moves (a : Z -> Z) (n : Z) : bool := r_active n && r_wins a n.

  Definition mgm_next (a : Z -> Z) (dr : Z -> Z) : Z -> Z :=
    fun v => if r_moves a v then r_newv a v (dr v) else a v.

  (* global cost: all constraints and all variables' own costs *)
  Definition gcost (a : Z -> Z) : Z :=
    zsum (map (fun c => ceval c a) (d_cons d)) + zsum (map (fun v => vcost d v (a v)) (map fst (d_vars d))).

  (* executable form on association lists, with per-node draw streams *)
  Definition round_exec (al : list (Z * Z)) (orcs : list (Z * list Z)) : list (Z * Z) * list (Z * list Z) :=
    let a := aget al in
    let dr := fun v => fst (draw (match zlookup v orcs with Some l => l | None => [] end)) in
    (map (fun p => (fst p, mgm_next a dr (fst p))) al,
     map (fun p => (fst p, if r_active (fst p) && r_improving a (fst p) then snd (draw (snd p)) else snd p)) orcs).

  Fixpoint rounds_check (al : list (Z * Z)) (orcs : list (Z * list Z)) (obs : list (list (Z * Z))) : bool :=
    match obs with
    | [] => true
    | o :: r => let '(al', orcs') := round_exec al orcs in
                list_eqb (pair_eqb Z.eqb Z.eqb) al' o && rounds_check al' orcs' r
    end.
End Round.

(* well-formed instance: distinct variable ids, every scope made of declared variables, no empty domain *)
Definition wf_dcop (d : dcop) : bool :=
  nodupb Z.eqb (map fst (d_vars d))
  && forallb (fun c => forallb (fun v => zmem v (map fst (d_vars d))) (c_scope c)) (d_cons d)
  && forallb (fun v => match dom_of d v with [] => false | _ => true end) (map fst (d_vars d)).

(* ------------------------------------------------------------------ 4. correspondence *)
Definition mmsg_eqb (a b : mmsg) : bool :=
  match a, b with
  | MValue x, MValue y => x =? y
  | MGain x, MGain y => x =? y
  | _, _ => false
  end.
Definition oz_eqb := option_eqb Z.eqb.
Definition mev_eqb (a b : mev) : bool :=
  match a, b with
  | EvValue n v c k, EvValue n' v' c' k' => (n =? n') && (v =? v') && oz_eqb c c' && (k =? k')
  | EvCycle n k, EvCycle n' k' => (n =? n') && (k =? k')
  | EvFinished n k, EvFinished n' k' => (n =? n') && (k =? k')
  | EvErr n k, EvErr n' k' => (n =? n') && (k =? k')
  | _, _ => false
  end.
Definition zz_eqb := pair_eqb Z.eqb Z.eqb.
Definition state_code (s : mstate) : Z := match s with SStarting => 0 | SValues => 1 | SGain => 2 end.

(* final observable state of one MgmComputation *)
Record nobs := mkN {
  o_state : Z; o_cycle : Z; o_value : option Z; o_cost : option Z;
  o_nv : list (Z * Z); o_ng : list (Z * Z); o_pv : list (Z * Z); o_pg : list (Z * Z);
  o_gain : option Z; o_newv : option Z
}.
Definition opt_agrees (o : option Z) (x : Z) : bool := match o with Some y => x =? y | None => true end.
Definition nobs_ok (s : mst) (o : nobs) : bool :=
  (state_code (m_state s) =? o_state o) && (m_cycle s =? o_cycle o) && oz_eqb (m_value s) (o_value o)
  && oz_eqb (m_cost s) (o_cost o)
  && list_eqb zz_eqb (sort_kv (m_nv s)) (o_nv o) && list_eqb zz_eqb (sort_kv (m_ng s)) (o_ng o)
  && list_eqb zz_eqb (m_pv s) (o_pv o) && list_eqb zz_eqb (m_pg s) (o_pg o)
  && opt_agrees (o_gain o) (m_gain s) && opt_agrees (o_newv o) (m_newv s).

Definition orc_of (l : list (Z * list Z)) (n : Z) : list Z := match zlookup n l with Some x => x | None => [] end.

Definition chan_expected {M} (l : list (Z * Z * list M)) (s t : Z) : list M :=
  match find (fun q => (fst (fst q) =? s) && (snd (fst q) =? t)) l with Some q => snd q | None => [] end.

Record case := mkCase {
  k_dcop : dcop; k_stop : Z; k_orc : list (Z * list Z);
  k_sched : list (@action);
  k_events : list mev;                  (* observed, in order *)
  k_nodes : list (Z * nobs);            (* observed final state of every computation *)
  k_chans : list (Z * Z * list mmsg);   (* observed non-empty channels at the end *)
  k_nbrs : list (Z * list Z)            (* observed neighbour sets, sorted *)
}.

Definition check_case (c : case) : bool :=
  let P := mgm_proto (k_dcop c) (k_stop c) (orc_of (k_orc c)) in
  let '(cf, evs) := run P (k_sched c) in
  let ids := map fst (d_vars (k_dcop c)) in
  list_eqb mev_eqb evs (k_events c)
  && forallb (fun no => nobs_ok (w_st (nodes cf (fst no))) (snd no)) (k_nodes c)
  && forallb (fun s => forallb (fun t => list_eqb mmsg_eqb (chan cf s t) (chan_expected (k_chans c) s t)) ids) ids
  && forallb (fun nl => list_eqb Z.eqb (nbrs (k_dcop c) (fst nl)) (snd nl)) (k_nbrs c).

(* round-level correspondence: from the observed initial assignment, with the observed draws
   (the draw spent on the initial value removed), iterating [round_exec] reproduces the assignment
   observed at every cycle boundary of the real asynchronous run *)
Record rcase := mkRCase {
  r_dcop : dcop;
  r_init : list (Z * Z);                 (* observed assignment before the first cycle *)
  r_orc : list (Z * list Z);             (* draws of every node from its first cycle on *)
  r_obs : list (list (Z * Z))            (* observed assignment after cycle 1, 2, ... *)
}.
Definition rcheck_case (c : rcase) : bool :=
  wf_dcop (r_dcop c) && rounds_check (r_dcop c) (r_init c) (r_orc c) (r_obs c).
