(* M_AgentDef.v -- executable model of pydcop.dcop.objects.AgentDef / create_agents (C31).
   Models only; proofs are in P_AgentDef.v. *)
From PyDcop Require Import Base.
From Coq Require Import DecimalString Decimal.

(* AgentDef(name, default_route, routes, default_hosting_cost, hosting_costs, **kwargs) *)
Record agentdef := mkAgent {
  a_name : string;
  a_default_route : Z;
  a_routes : list (string * Z);
  a_default_hosting : Z;
  a_hosting : list (string * Z);
  a_attrs : list (string * Z)
}.

(* AgentDef.route *)
Definition route (a : agentdef) (other : string) : Z :=
  if String.eqb (a_name a) other then 0
  else match slookup other (a_routes a) with
       | Some c => c
       | None => a_default_route a
       end.

(* AgentDef.hosting_cost *)
Definition hosting_cost (a : agentdef) (comp : string) : Z :=
  match slookup comp (a_hosting a) with
  | Some c => c
  | None => a_default_hosting a
  end.

(* AgentDef.__getattr__ : None models AttributeError *)
Definition getattr (a : agentdef) (item : string) : option Z := slookup item (a_attrs a).

(* ---- create_agents ---- *)
Inductive indexes :=
| IdxList (l : list string)            (* any non-tuple iterable; elements already str()'ed *)
| IdxRange (start stop : N)            (* range(start, stop), 0 <= start *)
| IdxTuple (ls : list (list string)).  (* tuple of iterables of str *)

Inductive key := KName (s : string) | KTuple (l : list string).

Definition str_of_N (n : N) : string := NilZero.string_of_uint (N.to_uint n).

Fixpoint zeros (n : nat) : string :=
  match n with O => EmptyString | S k => String "0"%char (zeros k) end.

(* f"{i:0{w}d}" for i >= 0 *)
Definition zero_pad (w : nat) (n : N) : string :=
  let s := str_of_N n in
  (zeros (w - String.length s) ++ s)%string.

Fixpoint nrange_from (start : N) (count : nat) : list N :=
  match count with O => [] | S k => start :: nrange_from (N.succ start) k end.
Definition nrange (start stop : N) : list N := nrange_from start (N.to_nat (stop - start)).

(* itertools.product over the lists: the last list varies fastest *)
Fixpoint product (ls : list (list string)) : list (list string) :=
  match ls with
  | [] => [[]]
  | l :: r => flat_map (fun x => map (cons x) (product r)) l
  end.

Fixpoint join (sep : string) (l : list string) : string :=
  match l with
  | [] => EmptyString
  | [x] => x
  | x :: r => (x ++ sep ++ join sep r)%string
  end.

Definition key_eqb (a b : key) : bool :=
  match a, b with
  | KName x, KName y => String.eqb x y
  | KTuple x, KTuple y => list_eqb String.eqb x y
  | _, _ => false
  end.

(* the (key, agent-name) pairs create_agents iterates over, in order *)
Definition agent_keys (prefix sep : string) (idx : indexes) : list (key * string) :=
  match idx with
  | IdxTuple ls => map (fun c => (KTuple c, (prefix ++ join sep c)%string)) (product ls)
  | IdxRange start stop =>
      (* digit_count = len(str(stop - 1)); only called with stop >= 1 *)
      let w := String.length (str_of_N (stop - 1)) in
      map (fun i => let n := (prefix ++ zero_pad w i)%string in (KName n, n)) (nrange start stop)
  | IdxList l => map (fun i => let n := (prefix ++ i)%string in (KName n, n)) l
  end.

Definition create_agents (prefix : string) (idx : indexes) (default_route : Z)
  (routes : list (string * Z)) (default_hosting : Z) (hosting : list (string * Z))
  (sep : string) (attrs : list (string * Z)) : list (key * agentdef) :=
  dict_of_list key_eqb
    (map (fun kn => (fst kn, mkAgent (snd kn) default_route routes default_hosting hosting attrs))
         (agent_keys prefix sep idx)).

(* ---- correspondence ---- *)
Definition szlist_eqb := list_eqb (pair_eqb String.eqb Z.eqb).

Definition agent_eqb (a b : agentdef) : bool :=
  String.eqb (a_name a) (a_name b) && Z.eqb (a_default_route a) (a_default_route b)
  && szlist_eqb (a_routes a) (a_routes b) && Z.eqb (a_default_hosting a) (a_default_hosting b)
  && szlist_eqb (a_hosting a) (a_hosting b) && szlist_eqb (a_attrs a) (a_attrs b).

(* one observation of the implementation: an agent built from given arguments, the probes
   made on it and what the real object answered *)
Record probe_case := mkProbe {
  p_agent : agentdef;
  p_routes : list (string * Z);            (* other agent, observed route() *)
  p_hosting : list (string * Z);           (* computation, observed hosting_cost() *)
  p_attrs : list (string * option Z)       (* attribute, observed value / AttributeError *)
}.

Definition check_probe (c : probe_case) : bool :=
  forallb (fun q => Z.eqb (route (p_agent c) (fst q)) (snd q)) (p_routes c)
  && forallb (fun q => Z.eqb (hosting_cost (p_agent c) (fst q)) (snd q)) (p_hosting c)
  && forallb (fun q => option_eqb Z.eqb (getattr (p_agent c) (fst q)) (snd q)) (p_attrs c).

Record create_case := mkCreate {
  c_prefix : string; c_idx : indexes; c_default_route : Z; c_routes : list (string * Z);
  c_default_hosting : Z; c_hosting : list (string * Z); c_sep : string;
  c_attrs : list (string * Z);
  c_observed : list (key * agentdef)   (* items() of the returned dict, each agent's fields *)
}.

Definition check_create (c : create_case) : bool :=
  list_eqb (pair_eqb key_eqb agent_eqb)
    (create_agents (c_prefix c) (c_idx c) (c_default_route c) (c_routes c)
                   (c_default_hosting c) (c_hosting c) (c_sep c) (c_attrs c))
    (c_observed c).

Inductive case := CProbe (c : probe_case) | CCreate (c : create_case).
Definition check_case (c : case) : bool :=
  match c with CProbe p => check_probe p | CCreate p => check_create p end.
