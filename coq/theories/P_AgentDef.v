(* P_AgentDef.v -- proofs about M_AgentDef (C31) *)
From PyDcop Require Import Base P_Base M_AgentDef.

Lemma route_self_zero_l a : route a (a_name a) = 0.
Proof. unfold route. now rewrite String.eqb_refl. Qed.

Lemma route_specific_else_default_l a o :
  a_name a <> o ->
  route a o = match slookup o (a_routes a) with Some c => c | None => a_default_route a end.
Proof.
  intros H. unfold route. destruct (String.eqb (a_name a) o) eqn:E; auto.
  apply String.eqb_eq in E. contradiction.
Qed.

Lemma hosting_specific_else_default_l a c :
  hosting_cost a c = match slookup c (a_hosting a) with Some x => x | None => a_default_hosting a end.
Proof. reflexivity. Qed.

(* a keyword argument given at construction is readable, an unknown one is an error *)
Lemma attrs_readable_l name dr r dh h attrs k :
  getattr (mkAgent name dr r dh h attrs) k = slookup k attrs.
Proof. reflexivity. Qed.

Lemma key_eqb_iff a b : key_eqb a b = true <-> a = b.
Proof.
  destruct a as [x|x], b as [y|y]; simpl; split; intro H; try discriminate.
  - apply String.eqb_eq in H; now subst.
  - inversion H; apply String.eqb_refl.
  - apply (list_eqb_spec String.eqb string_eqb_iff) in H; now subst.
  - inversion H; subst. now apply (list_eqb_spec String.eqb string_eqb_iff).
Qed.

(* every agent in the returned dict is exactly the individually built agent *)
Lemma create_agents_sound prefix idx dr r dh h sep attrs k a :
  In (k, a) (create_agents prefix idx dr r dh h sep attrs) ->
  exists name, In (k, name) (agent_keys prefix sep idx) /\ a = mkAgent name dr r dh h attrs.
Proof.
  unfold create_agents. intros H.
  apply (In_dict_of_list key_eqb key_eqb_iff) in H.
  apply in_map_iff in H as [[k' n] [E Hin]]. simpl in E. inversion E; subst.
  exists n; auto.
Qed.

(* every requested index yields an entry *)
Lemma create_agents_complete prefix idx dr r dh h sep attrs k name :
  In (k, name) (agent_keys prefix sep idx) ->
  exists a, lookup key_eqb k (create_agents prefix idx dr r dh h sep attrs) = Some a.
Proof.
  intros H. unfold create_agents.
  pose proof (dict_of_list_covers key_eqb key_eqb_iff k (mkAgent name dr r dh h attrs)
    (map (fun kn => (fst kn, mkAgent (snd kn) dr r dh h attrs)) (agent_keys prefix sep idx))) as C.
  unfold mem_key in C.
  match type of C with _ -> match ?X with _ => _ end = true => destruct X eqn:E end.
  - eauto.
  - assert (false = true); [|discriminate]. apply C.
    apply in_map_iff. exists (k, name). auto.
Qed.

Lemma create_agents_equals_individual_l prefix idx dr r dh h sep attrs :
  (forall k a, In (k, a) (create_agents prefix idx dr r dh h sep attrs) ->
     exists name, In (k, name) (agent_keys prefix sep idx) /\
       a = mkAgent name dr r dh h attrs /\
       (forall o, route a o = route (mkAgent name dr r dh h attrs) o) /\
       (forall c, hosting_cost a c = hosting_cost (mkAgent name dr r dh h attrs) c) /\
       (forall x, getattr a x = slookup x attrs)) /\
  (forall k name, In (k, name) (agent_keys prefix sep idx) ->
     exists a, lookup key_eqb k (create_agents prefix idx dr r dh h sep attrs) = Some a).
Proof.
  split.
  - intros k a H. apply create_agents_sound in H as [n [H1 H2]]. exists n. subst. repeat split; auto.
  - intros k n H. eapply create_agents_complete; eauto.
Qed.

(* the names create_agents gives: list indexes *)
Lemma agent_keys_list prefix sep l :
  map snd (agent_keys prefix sep (IdxList l)) = map (fun i => (prefix ++ i)%string) l.
Proof. simpl. rewrite map_map. reflexivity. Qed.

Lemma agent_keys_tuple prefix sep ls :
  map snd (agent_keys prefix sep (IdxTuple ls)) =
  map (fun c => (prefix ++ join sep c)%string) (product ls).
Proof. simpl. rewrite map_map. reflexivity. Qed.

Lemma product_spec ls c :
  In c (product ls) <-> Forall2 (fun x l => In x l) c ls.
Proof.
  revert c; induction ls as [|l r IH]; intros c; simpl.
  - split.
    + intros [<-|[]]. constructor.
    + intros H; inversion H; auto.
  - rewrite in_flat_map. split.
    + intros [x [Hx Hc]]. apply in_map_iff in Hc as [c' [<- Hc']].
      constructor; auto. now apply IH.
    + intros H. inversion H as [|x l' c' r' Hx Hr]; subst.
      exists x; split; auto. apply in_map_iff. exists c'. split; auto. now apply IH.
Qed.
