(* M_PseudoTree.v -- executable model of pydcop/computations_graph/pseudotree.py
   (build_computation_graph, _generate_dfs_tree, _BuildingNode.handle_token/_propagate,
   _find_neighbors_relations, _visit_tree, ComputationPseudoTree, get_dfs_relations)
   + the tree interface (PT_valid) and the executable checker pt_check.
   Definitions only; proofs are in P_PseudoTree.v.

   Encoding: a variable = a Z id (position in dcop.variables); a constraint = its position
   in the list of constraints, given by its scope (list of variable ids, in `dimensions`
   order).  Python object identity of _BuildingNode = the variable id (one node per
   variable in each call of _generate_dfs_tree). *)
From PyDcop Require Import Base.

(* ------------------------------------------------------------------ *)
(*  Interface: constraint graph, pseudo-tree, validity                  *)
(* ------------------------------------------------------------------ *)

Record graph := mkGraph {
  g_vars : list Z;            (* variables, in dcop.variables order *)
  g_rels : list (list Z)      (* scopes of the constraints, constraint id = position *)
}.

(* one PseudoTreeNode as read back with get_dfs_relations(node) and node.constraints *)
Record ptnode := mkNode {
  n_id : Z;
  n_parent : option Z;
  n_children : list Z;
  n_pps : list Z;             (* pseudo-parents *)
  n_pcs : list Z;             (* pseudo-children *)
  n_rels : list Z             (* ids of the constraints attached to the node *)
}.
Definition tree := list ptnode.

Fixpoint find_node (t : tree) (a : Z) : option ptnode :=
  match t with
  | [] => None
  | n :: r => if Z.eqb a (n_id n) then Some n else find_node r a
  end.

Definition t_ids (t : tree) : list Z := map n_id t.
Definition t_parent (t : tree) (a : Z) : option Z :=
  match find_node t a with Some n => n_parent n | None => None end.
Definition t_children (t : tree) (a : Z) : list Z :=
  match find_node t a with Some n => n_children n | None => [] end.
Definition t_pps (t : tree) (a : Z) : list Z :=
  match find_node t a with Some n => n_pps n | None => [] end.
Definition t_pcs (t : tree) (a : Z) : list Z :=
  match find_node t a with Some n => n_pcs n | None => [] end.
Definition t_rels (t : tree) (a : Z) : list Z :=
  match find_node t a with Some n => n_rels n | None => [] end.

(* [anc t a b] : a is a proper ancestor of b (b reaches a by following parent links) *)
Inductive anc (t : tree) : Z -> Z -> Prop :=
| anc_parent : forall a b, t_parent t b = Some a -> anc t a b
| anc_up : forall a b c, t_parent t c = Some b -> anc t a b -> anc t a c.

(* scope of constraint number c *)
Definition scope_of (g : graph) (c : Z) : option (list Z) :=
  if c <? 0 then None else nth_error (g_rels g) (Z.to_nat c).

(* a and b are linked directly by a tree edge or a back edge (either direction) *)
Definition linked (t : tree) (a b : Z) : Prop :=
  t_parent t a = Some b \/ In b (t_pps t a) \/ t_parent t b = Some a \/ In a (t_pps t b).

Record PT_valid (g : graph) (t : tree) : Prop := {
  (* one node per variable *)
  ptv_nodup : NoDup (t_ids t);
  ptv_nodes : forall v, In v (t_ids t) <-> In v (g_vars g);
  (* parent/children and pseudo-parent/pseudo-children are converse relations, no repeats *)
  ptv_parent_children : forall a b, t_parent t a = Some b <-> In a (t_children t b);
  ptv_pp_pc : forall a b, In b (t_pps t a) <-> In a (t_pcs t b);
  ptv_children_nodup : forall a, NoDup (t_children t a);
  ptv_pps_nodup : forall a, NoDup (t_pps t a);
  ptv_pcs_nodup : forall a, NoDup (t_pcs t a);
  (* no cycles; every node reaches a root *)
  ptv_acyclic : forall a, ~ anc t a a;
  (* back edges go to proper ancestors *)
  ptv_pp_anc : forall a b, In b (t_pps t a) -> anc t b a;
  (* two variables sharing a constraint are linked by a tree edge or a back edge
     (hence, with the two previous fields, in ancestor/descendant relation) *)
  ptv_edges : forall sc a b, In sc (g_rels g) -> In a sc -> In b sc -> a <> b -> linked t a b;
  (* each node carries exactly the constraints on its variable *)
  ptv_rels_nodup : forall a, NoDup (t_rels t a);
  ptv_rels : forall a c, In a (t_ids t) ->
     (In c (t_rels t a) <-> exists sc, scope_of g c = Some sc /\ In a sc);
  (* a bounded depth function certifies the forest shape: every node reaches a root, and
     both "parent of" and "child of" are well-founded (induction up and down the tree) *)
  ptv_ranked : exists (d : Z -> nat) (N : nat),
     (forall a, (d a <= N)%nat) /\ (forall a p, t_parent t a = Some p -> d a = S (d p))
}.

(* [rooted t a] : following parent links from a ends at a node without parent *)
Inductive rooted (t : tree) : Z -> Prop :=
| rooted_root : forall a, t_parent t a = None -> rooted t a
| rooted_step : forall a p, t_parent t a = Some p -> rooted t p -> rooted t a.

(* ------------------------------------------------------------------ *)
(*  Executable checker                                                  *)
(* ------------------------------------------------------------------ *)

(* the chain of proper ancestors of a, nearest first; None = no root within the fuel *)
Fixpoint anc_chain (t : tree) (fuel : nat) (a : Z) : option (list Z) :=
  match t_parent t a with
  | None => Some []
  | Some p =>
      match fuel with
      | O => None
      | S f => match anc_chain t f p with Some l => Some (p :: l) | None => None end
      end
  end.

Definition linkedb (t : tree) (a b : Z) : bool :=
  option_eqb Z.eqb (t_parent t a) (Some b) || zmem b (t_pps t a)
  || option_eqb Z.eqb (t_parent t b) (Some a) || zmem a (t_pps t b).

Fixpoint zrange_from (i : Z) (n : nat) : list Z :=
  match n with O => [] | S k => i :: zrange_from (i + 1) k end.

(* ids of the constraints whose scope contains a, ascending *)
Fixpoint rels_of_from (i : Z) (rels : list (list Z)) (a : Z) : list Z :=
  match rels with
  | [] => []
  | sc :: r => if zmem a sc then i :: rels_of_from (i + 1) r a else rels_of_from (i + 1) r a
  end.
Definition rels_of (g : graph) (a : Z) : list Z := rels_of_from 0 (g_rels g) a.

Definition check_node (g : graph) (t : tree) (n : ptnode) : bool :=
  let a := n_id n in
  let fuel := List.length t in
  (* links are mutual *)
  match n_parent n with None => true | Some p => zmem a (t_children t p) end
  && forallb (fun c => option_eqb Z.eqb (t_parent t c) (Some a)) (n_children n)
  && forallb (fun p => zmem a (t_pcs t p)) (n_pps n)
  && forallb (fun c => zmem a (t_pps t c)) (n_pcs n)
  && nodupb Z.eqb (n_children n) && nodupb Z.eqb (n_pps n) && nodupb Z.eqb (n_pcs n)
  (* reaches a root, pseudo-parents are on the way *)
  && match anc_chain t fuel a with
     | None => false
     | Some ch => forallb (fun p => zmem p ch) (n_pps n)
     end
  (* constraints *)
  && nodupb Z.eqb (n_rels n)
  && forallb (fun c => match scope_of g c with Some sc => zmem a sc | None => false end) (n_rels n)
  && forallb (fun c => zmem c (n_rels n)) (rels_of g a).

Definition check_scope (t : tree) (sc : list Z) : bool :=
  forallb (fun a => forallb (fun b => Z.eqb a b || linkedb t a b) sc) sc.

Definition pt_check (g : graph) (t : tree) : bool :=
  nodupb Z.eqb (t_ids t)
  && forallb (fun v => zmem v (t_ids t)) (g_vars g)
  && forallb (fun v => zmem v (g_vars g)) (t_ids t)
  && forallb (check_node g t) t
  && forallb (check_scope t) (g_rels g).

(* ------------------------------------------------------------------ *)
(*  Model of the builder                                                *)
(* ------------------------------------------------------------------ *)

(* list.remove(x): drop the first occurrence *)
Fixpoint remove_first (x : Z) (l : list Z) : list Z :=
  match l with
  | [] => []
  | y :: r => if Z.eqb x y then r else y :: remove_first x r
  end.

(* _find_neighbors_relations: neighbours in order of (relation, position in `nodes`),
   without repeats; dim_vars.remove(node.variable) drops one occurrence only *)
Definition find_neighbors (v : Z) (rels : list (list Z)) (nodes : list Z) : list Z :=
  fold_left (fun acc sc =>
      if zmem v sc then
        let dv := remove_first v sc in
        fold_left (fun acc n => if zmem n dv && negb (zmem n acc) then acc ++ [n] else acc)
                  nodes acc
      else acc) rels [].

(* _BuildingNode *)
Record bnode := mkB {
  b_neighbors : list Z;
  b_parent : option Z;
  b_pps : list Z;
  b_pcs : list Z;
  b_children : list Z;
  b_visited : list Z;       (* _visited without the None the root records *)
  b_root : bool
}.
Definition bstate := list (Z * bnode).

Definition empty_b := mkB [] None [] [] [] [] false.
Definition getb (st : bstate) (x : Z) : bnode :=
  match zlookup x st with Some b => b | None => empty_b end.
Definition setb (st : bstate) (x : Z) (b : bnode) : bstate := dict_set Z.eqb x b st.

(* count_neighbors_in_token *)
Definition count_in_token (st : bstate) (token : list Z) (x : Z) : Z :=
  Z.of_nat (List.length (filter (fun n => zmem n token) (b_neighbors (getb st x)))).

(* list.sort(key=count_neighbors_in_token(token), reverse=True): stable, descending *)
Definition sort_neighbors (st : bstate) (token : list Z) (l : list Z) : list Z :=
  isort (fun x y => count_in_token st token y <=? count_in_token st token x) l.

Definition set_neighbors (b : bnode) (l : list Z) : bnode :=
  mkB l (b_parent b) (b_pps b) (b_pcs b) (b_children b) (b_visited b) (b_root b).
Definition add_visited (b : bnode) (s : Z) : bnode :=
  mkB (b_neighbors b) (b_parent b) (b_pps b) (b_pcs b) (b_children b) (b_visited b ++ [s]) (b_root b).
Definition add_child (b : bnode) (c : Z) : bnode :=
  mkB (b_neighbors b) (b_parent b) (b_pps b) (b_pcs b) (b_children b ++ [c]) (b_visited b) (b_root b).
Definition add_pc (b : bnode) (c : Z) : bnode :=
  mkB (b_neighbors b) (b_parent b) (b_pps b) (b_pcs b ++ [c]) (b_children b) (b_visited b) (b_root b).
Definition set_root (b : bnode) : bnode :=
  mkB (b_neighbors b) (b_parent b) (b_pps b) (b_pcs b) (b_children b) (b_visited b) true.
Definition set_parent (b : bnode) (p : Z) (pps : list Z) : bnode :=
  mkB (b_neighbors b) (Some p) pps (b_pcs b) (b_children b) (b_visited b) (b_root b).

(* the `for n in self._neighbors` loop of _propagate on node x; [rec st n] is
   n.handle_token(self, token) *)
Fixpoint prop_loop (rec : bstate -> Z -> option bstate) (x : Z) (ns : list Z) (st : bstate)
  {struct ns} : option bstate :=
  match ns with
  | [] => Some st
  | n :: ns' =>
      if zmem n (b_visited (getb st x)) then prop_loop rec x ns' st
      else
        let st := if zmem n (b_pps (getb st x)) then st
                  else setb st x (add_child (getb st x) n) in
        match rec st n with
        | None => None
        | Some st' => prop_loop rec x ns' st'
        end
  end.

(* self._neighbors.sort(key=count_neighbors_in_token(token), reverse=True) on node x *)
Definition resort (st : bstate) (x : Z) (token : list Z) : bstate :=
  setb st x (set_neighbors (getb st x) (sort_neighbors st token (b_neighbors (getb st x)))).

(* handle_token(sender, token) on node x.  Python recursion -> fuel; None = out of fuel.
   [token] is the caller's token: handle_token copies it, so the callee's additions are
   never seen by the caller -- the token is the path from the root to the sender. *)
Fixpoint handle (fuel : nat) (st : bstate) (sender : option Z) (x : Z) (token : list Z)
  {struct fuel} : option bstate :=
  match fuel with
  | O => None
  | S f =>
    (* _propagate(token) *)
    let propagate (st : bstate) : option bstate :=
      let token' := token ++ [x] in
      let st := resort st x token' in
      prop_loop (fun st n => handle f st (Some x) n token') x (b_neighbors (getb st x)) st in
    match sender with
    | None =>
        let st := setb st x (set_root (getb st x)) in
        propagate st
    | Some s =>
        let st := setb st x (add_visited (getb st x) s) in
        let b := getb st x in
        match b_parent b with
        | None =>
            if b_root b then
              (if zmem s (b_children b) then Some st else Some (setb st x (add_pc b s)))
            else
              let pps := filter (fun n => zmem n token && negb (Z.eqb n s)) (b_neighbors b) in
              let st := setb st x (set_parent b s pps) in
              let st := resort st x token in
              propagate st
        | Some _ =>
            if zmem s (b_children b) then Some st else Some (setb st x (add_pc b s))
        end
    end
  end.

(* _generate_dfs_tree(variables, relations) with root=None: returns the root and the
   final state of all _BuildingNodes *)
Definition init_state (vars : list Z) (rels : list (list Z)) : bstate :=
  map (fun v => (v, mkB (find_neighbors v rels vars) None [] [] [] [] false)) vars.

Definition choose_root (st : bstate) (vars : list Z) : option Z :=
  (* nodes.sort(key=neighbors_count); root = nodes[-1] *)
  let cnt v := Z.of_nat (List.length (b_neighbors (getb st v))) in
  match rev (isort (fun x y => cnt x <=? cnt y) vars) with
  | [] => None
  | r :: _ => Some r
  end.

Definition gen_dfs_tree (vars : list Z) (rels : list (list Z)) : option (Z * bstate) :=
  let st := init_state vars rels in
  match choose_root st vars with
  | None => None
  | Some r =>
      match handle (S (S (List.length vars))) st None r [] with
      | None => None
      | Some st' => Some (r, st')
      end
  end.

(* _visit_tree: preorder over children *)
Fixpoint visit_loop (rec : Z -> option (list Z)) (cs : list Z) : option (list Z) :=
  match cs with
  | [] => Some []
  | c :: cs' =>
      match rec c, visit_loop rec cs' with
      | Some a, Some b => Some (a ++ b)
      | _, _ => None
      end
  end.

Fixpoint visit (fuel : nat) (st : bstate) (x : Z) : option (list Z) :=
  match fuel with
  | O => None
  | S f =>
      match visit_loop (visit f st) (b_children (getb st x)) with
      | Some l => Some (x :: l)
      | None => None
      end
  end.

Definition node_of (rels : list (list Z)) (st : bstate) (x : Z) : ptnode :=
  let b := getb st x in
  mkNode x (b_parent b) (b_children b) (b_pps b) (b_pcs b) (rels_of_from 0 rels x).

(* the while loop of build_computation_graph + ComputationPseudoTree.__init__:
   one DFS tree per pass over the variables that are left.  Result:
   (roots, nodes in graph.nodes order) *)
Fixpoint forest (fuel : nat) (vars : list Z) (rels : list (list Z)) : option (list Z * tree) :=
  match vars with
  | [] => Some ([], [])
  | _ =>
    match fuel with
    | O => None
    | S f =>
      match gen_dfs_tree vars rels with
      | None => None
      | Some (r, st) =>
          match visit (S (List.length vars)) st r with
          | None => None
          | Some visited =>
              (* variables.remove(node.variable) for every visited node *)
              let vars' := fold_left (fun l v => remove_first v l) visited vars in
              match forest f vars' rels with
              | None => None
              | Some (roots, nodes) => Some (r :: roots, map (node_of rels st) visited ++ nodes)
              end
          end
      end
    end
  end.

Definition build (g : graph) : option (list Z * tree) :=
  forest (S (List.length (g_vars g))) (g_vars g) (g_rels g).

(* ------------------------------------------------------------------ *)
(*  Correspondence                                                      *)
(* ------------------------------------------------------------------ *)
Definition zl_eqb := list_eqb Z.eqb.
Definition ptnode_eqb (a b : ptnode) : bool :=
  Z.eqb (n_id a) (n_id b) && option_eqb Z.eqb (n_parent a) (n_parent b)
  && zl_eqb (n_children a) (n_children b) && zl_eqb (n_pps a) (n_pps b)
  && zl_eqb (n_pcs a) (n_pcs b) && zl_eqb (n_rels a) (n_rels b).

(* a graph, what the real builder returned (roots + nodes, both in the order the real
   object lists them) and whether the model is expected to run the builder itself
   (big chains are only passed through the checker) *)
Record case := mkCase {
  c_graph : graph;
  c_roots : list Z;
  c_nodes : tree;
  c_run_builder : bool
}.

Definition check_case (c : case) : bool :=
  pt_check (c_graph c) (c_nodes c)
  && (if c_run_builder c then
        match build (c_graph c) with
        | Some (roots, nodes) =>
            zl_eqb roots (c_roots c) && list_eqb ptnode_eqb nodes (c_nodes c)
        | None => false
        end
      else true).
