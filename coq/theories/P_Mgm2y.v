(* P_Mgm2y.v -- MGM2, part 2 of the global barrier proof: the invariant [InvA] over an abstract
   world (who runs, the computations' states, and for every ordered pair the bag of PENDING
   messages = pre-start buffer + channel + postponed lists of the receiver), and its preservation
   by every micro-step (one handler consuming one pending message of the kind the computation
   waits for, [M_Mgm2x.mstep]) and by a start.  Order inside a bag is irrelevant: MGM2 files the
   messages per kind, so the invariant only counts per kind and constrains payload flags. *)
From Coq Require Import ZArith List Bool Lia.
From PyDcop Require Import Base Net M_Mgm M_Mgm2 M_Mgm2x P_Mgm P_Mgm3 P_Mgm2x.
Import ListNotations.
Open Scope Z_scope.

Local Notation length := List.length.

Definition b2z (b : bool) : Z := if b then 1 else 0.
Definition cnt (k : Z) (l : list m2msg) : Z := Z.of_nat (length (filter (fun m => kind_of m =? k) l)).
Definition kinv (x : Z) (l : list (Z * Z)) : bool := zmem x (map fst l).
Definition kino (x : Z) (l : list (Z * m2msg)) : bool := zmem x (map fst l).
Definition to_y2 (y : node) (outs : list (node * m2msg)) : list m2msg :=
  map snd (filter (fun p => Z.eqb (fst p) y) outs).

Lemma cnt_app k l1 l2 : cnt k (l1 ++ l2) = cnt k l1 + cnt k l2.
Proof. unfold cnt. rewrite filter_app, app_length, Nat2Z.inj_add. reflexivity. Qed.
Lemma cnt_nonneg k l : 0 <= cnt k l.
Proof. unfold cnt. lia. Qed.
Lemma cnt_cons k m l : cnt k (m :: l) = b2z (kind_of m =? k) + cnt k l.
Proof. unfold cnt. simpl. destruct (kind_of m =? k); simpl length; unfold b2z; lia. Qed.
Lemma cnt_nil k : cnt k [] = 0.
Proof. reflexivity. Qed.
Lemma cnt_pos_in k l : 0 < cnt k l -> exists m, In m l /\ kind_of m = k.
Proof.
  induction l as [|m r IH]; [rewrite cnt_nil; lia|]. rewrite cnt_cons.
  destruct (Z.eqb_spec (kind_of m) k); simpl.
  - intros _. exists m. split; [left; reflexivity|assumption].
  - intros H. destruct (IH H) as [m' [Hi Hk]]. exists m'. split; [right; assumption|assumption].
Qed.
Lemma in_cnt_pos m l : In m l -> 0 < cnt (kind_of m) l.
Proof.
  induction l as [|m' r IH]; [intros []|]. rewrite cnt_cons. intros [->|H].
  - rewrite Z.eqb_refl. pose proof (cnt_nonneg (kind_of m) r). unfold b2z. lia.
  - specialize (IH H). unfold b2z. destruct (_ =? _); lia.
Qed.

Section Inv.
  Variable d : dcop.
  Variable stop : Z.
  Notation nbr := (nbrs d).
  Notation doneb := (doneb stop).

  Record good (n : node) (s : m2st) : Prop := {
    g_c : 1 <= t_cycle s;
    g_k : 1 <= t_state s <= 5;
    g_fin : t_fin s = b2z (doneb (t_cycle s));
    g_prev : t_cycle s = 1 \/ doneb (t_cycle s - 1) = false;
    g_done : doneb (t_cycle s) = true -> t_state s = 1;
    g_nv : NoDup (map fst (t_nv s)) /\ incl (map fst (t_nv s)) (nbr n);
    g_of : NoDup (map fst (t_offers s)) /\ incl (map fst (t_offers s)) (nbr n) /\
           Forall (fun sm => kind_of (snd sm) = 2) (t_offers s);
    g_ng : NoDup (map fst (t_ng s)) /\ incl (map fst (t_ng s)) (nbr n);
    g_nv1 : t_state s = 1 -> (length (t_nv s) < length (nbr n))%nat;
    g_nv2 : 2 <= t_state s -> length (t_nv s) = length (nbr n);
    g_of1 : t_state s = 1 -> t_offers s = [];
    g_of2 : t_state s = 2 -> (length (t_offers s) < length (nbr n))%nat;
    g_of3 : 3 <= t_state s -> length (t_offers s) = length (nbr n);
    g_ng3 : t_state s <= 3 -> t_ng s = [];
    g_ng4 : t_state s = 4 -> (length (t_ng s) < length (nbr n))%nat;
    g_ng5 : t_state s = 5 -> length (t_ng s) = length (nbr n);
    g_fl1 : t_state s = 1 -> t_offerer s = false /\ t_committed s = false /\ t_partner s = None;
    g_k3 : t_state s = 3 -> t_offerer s = true;
    g_com23 : t_state s <= 3 -> t_committed s = false;
    g_off : t_offerer s = true -> exists p, t_partner s = Some p /\ In p (nbr n);
    g_com : t_committed s = true -> t_pgain s <> 0 /\ exists p, t_partner s = Some p /\ In p (nbr n);
    g_nopar : t_offerer s = false -> t_committed s = false -> t_partner s = None;
    g_k5 : t_state s = 5 -> t_committed s = true
  }.

  Section World.
    Variable rn : node -> bool.
    Variable S : node -> m2st.
    Variable pd : node -> node -> list m2msg.

    Definition SV x := if rn x then t_cycle (S x) - t_fin (S x) else 0.
    Definition CV y x := if rn y then t_cycle (S y) - 1 + b2z (kinv x (t_nv (S y))) else 0.
    Definition SO x := if rn x then t_cycle (S x) - 1 + b2z (2 <=? t_state (S x)) else 0.
    Definition CO y x := if rn y then t_cycle (S y) - 1 + b2z (kino x (t_offers (S y))) else 0.
    Definition SG x := if rn x then t_cycle (S x) - 1 + b2z (4 <=? t_state (S x)) else 0.
    Definition CG y x := if rn y then t_cycle (S y) - 1 + b2z (kinv x (t_ng (S y))) else 0.

    (* y still expects the answer of x to its offer *)
    Definition expA y x : Prop :=
      t_offerer (S y) = true /\ t_partner (S y) = Some x /\ 2 <= t_state (S y) <= 3.
    (* y still expects the go / no-go of its partner x *)
    Definition expG y x : Prop :=
      t_committed (S y) = true /\ t_partner (S y) = Some x /\ 4 <= t_state (S y).
    Definition sentGo x y : Prop :=
      (t_cycle (S x) = t_cycle (S y) /\ t_state (S x) = 5) \/ t_cycle (S x) = t_cycle (S y) + 1.

    Definition link x y : Prop :=
      (t_cycle (S y) = t_cycle (S x) + 1 /\ t_state (S x) = 5) \/
      (t_cycle (S y) = t_cycle (S x) /\
       if t_offerer (S x)
       then t_offerer (S y) = false /\ t_committed (S y) = true /\ t_partner (S y) = Some x
       else t_offerer (S y) = true /\ t_partner (S y) = Some x /\ (t_state (S y) <= 3 \/ t_committed (S y) = true)).

    Record pairI (x y : node) : Prop := {
      p_V : cnt 1 (pd x y) + CV y x = SV x;
      p_O : cnt 2 (pd x y) + CO y x = SO x;
      p_G : cnt 4 (pd x y) + CG y x = SG x;
      p_A1 : expA y x -> 3 <= t_state (S x) -> cnt 3 (pd x y) = 1;
      p_A0 : ~ (expA y x /\ 3 <= t_state (S x)) -> cnt 3 (pd x y) = 0;
      p_Go1 : expG y x -> sentGo x y -> cnt 5 (pd x y) = 1;
      p_Go0 : ~ (expG y x /\ sentGo x y) -> cnt 5 (pd x y) = 0;
      p_PO : forall f os, In (M2Offer f os) (pd x y) -> f = t_offerer (S x) && opt_is (t_partner (S x)) y;
      p_PS : forall f os, t_state (S y) = 2 -> In (x, M2Offer f os) (t_offers (S y)) ->
               f = t_offerer (S x) && opt_is (t_partner (S x)) y;
      p_PA : forall a v g, In (M2Answer a v g) (pd x y) ->
               a = t_committed (S x) && negb (t_offerer (S x)) && opt_is (t_partner (S x)) y /\
               (a = true -> exists gg, g = Some gg /\ gg <> 0);
      p_L : t_committed (S x) = true -> t_partner (S x) = Some y -> link x y;
      (* an offerer that has got the answer of its partner: the partner has handled the offers *)
      p_Ans : t_offerer (S x) = true -> t_partner (S x) = Some y -> 4 <= t_state (S x) ->
              (t_cycle (S y) = t_cycle (S x) /\ 3 <= t_state (S y)) \/ t_cycle (S y) = t_cycle (S x) + 1
    }.

    Definition idle_skel (s : m2st) : Prop := skel s = (0, 0, 0, [], [], [], None, false, false, 0).

    Record InvA : Prop := {
      i_idle : forall n, rn n = false -> idle_skel (S n);
      i_iso : forall n, rn n = true -> nbr n = [] -> t_fin (S n) = 1 /\ t_cycle (S n) = 0;
      i_good : forall n, rn n = true -> nbr n <> [] -> good n (S n);
      i_pair : forall x y, In x (nbr y) -> pairI x y;
      i_far : forall x y, ~ In x (nbr y) -> pd x y = []
    }.
  End World.

  (* ---------------------------------------------------------------- helpers *)
  Lemma kinv_In x l : kinv x l = true <-> In x (map fst l).
  Proof. apply zmem_In. Qed.
  Lemma kino_In x l : kino x l = true <-> In x (map fst l).
  Proof. apply zmem_In. Qed.
  Lemma kinv_false x l : kinv x l = false <-> ~ In x (map fst l).
  Proof. rewrite <- kinv_In. destruct (kinv x l); split; congruence. Qed.
  Lemma kino_false x l : kino x l = false <-> ~ In x (map fst l).
  Proof. rewrite <- kino_In. destruct (kino x l); split; congruence. Qed.
  Lemma b2z_range b : 0 <= b2z b <= 1.
  Proof. destruct b; simpl; lia. Qed.
  Lemma b2z_leb a b : (a <= b -> b2z (a <=? b) = 1) /\ (b < a -> b2z (a <=? b) = 0).
  Proof. destruct (Z.leb_spec a b); simpl; lia. Qed.

  Lemma full_in (ks nb : list Z) x : NoDup ks -> incl ks nb -> length ks = length nb -> In x nb -> In x ks.
  Proof. intros Hnd Hi Hl Hx. assert (H : incl nb ks) by (apply NoDup_length_incl; [exact Hnd|lia|exact Hi]). apply H. exact Hx. Qed.
  Lemma notfull_ex (ks nb : list Z) : incl ks nb -> NoDup nb -> (length ks < length nb)%nat -> exists x, In x nb /\ ~ In x ks.
  Proof.
    intros Hi Hnd Hl. destruct (forallb (fun x => zmem x ks) nb) eqn:E.
    - exfalso. rewrite forallb_forall in E.
      assert (incl nb ks) by (intros x Hx; apply zmem_In; apply E; exact Hx).
      pose proof (NoDup_incl_length Hnd H). lia.
    - assert (exists x, In x nb /\ zmem x ks = false).
      { clear -E. induction nb as [|a r IH]; simpl in E; [discriminate|].
        destruct (zmem a ks) eqn:Ea; simpl in E.
        - destruct (IH E) as [x [H1 H2]]. exists x. split; [right; exact H1|exact H2].
        - exists a. split; [left; reflexivity|exact Ea]. }
      destruct H as [x [H1 H2]]. exists x. split; [exact H1|]. intros Hc. apply zmem_In in Hc. congruence.
  Qed.

  Lemma tabf y s x : good y s -> In x (nbr y) ->
    (2 <= t_state s -> b2z (kinv x (t_nv s)) = 1) /\
    (t_state s = 1 -> b2z (kino x (t_offers s)) = 0) /\
    (3 <= t_state s -> b2z (kino x (t_offers s)) = 1) /\
    (t_state s <= 3 -> b2z (kinv x (t_ng s)) = 0) /\
    (t_state s = 5 -> b2z (kinv x (t_ng s)) = 1) /\
    0 <= b2z (kinv x (t_nv s)) <= 1 /\ 0 <= b2z (kino x (t_offers s)) <= 1 /\ 0 <= b2z (kinv x (t_ng s)) <= 1.
  Proof.
    intros G Hx. repeat split; try apply b2z_range.
    - intros H. destruct (g_nv _ _ G) as [Hnd Hi]. pose proof (g_nv2 _ _ G H) as Hl.
      rewrite <- (map_length fst) in Hl.
      rewrite (proj2 (kinv_In x (t_nv s)) (full_in _ _ x Hnd Hi Hl Hx)). reflexivity.
    - intros H. rewrite (g_of1 _ _ G H). reflexivity.
    - intros H. destruct (g_of _ _ G) as [Hnd [Hi _]]. pose proof (g_of3 _ _ G H) as Hl.
      rewrite <- (map_length fst) in Hl.
      rewrite (proj2 (kino_In x (t_offers s)) (full_in _ _ x Hnd Hi Hl Hx)). reflexivity.
    - intros H. rewrite (g_ng3 _ _ G H). reflexivity.
    - intros H. destruct (g_ng _ _ G) as [Hnd Hi]. pose proof (g_ng5 _ _ G H) as Hl.
      rewrite <- (map_length fst) in Hl.
      rewrite (proj2 (kinv_In x (t_ng s)) (full_in _ _ x Hnd Hi Hl Hx)). reflexivity.
  Qed.

  Lemma idle_tabf s x : idle_skel s ->
    t_state s = 0 /\ t_cycle s = 0 /\ t_fin s = 0 /\ t_nv s = [] /\ t_offers s = [] /\ t_ng s = [] /\
    t_partner s = None /\ t_committed s = false /\ t_offerer s = false /\
    b2z (kinv x (t_nv s)) = 0 /\ b2z (kino x (t_offers s)) = 0 /\ b2z (kinv x (t_ng s)) = 0.
  Proof.
    unfold idle_skel, skel. intros H. injection H as H1 H2 H3 H4 H5 H6 H7 H8 H9 H10.
    rewrite H4, H5, H6. repeat split; assumption.
  Qed.

  (* the world after a micro-step of y that consumed one message of bag (x, y) *)
  Definition updS (S : node -> m2st) (y : node) (s : m2st) : node -> m2st := fun n => if n =? y then s else S n.
  Definition pd_step (pd : node -> node -> list m2msg) (x y : node) (rest : list m2msg) (outs : list (node * m2msg)) :=
    fun a b => if a =? y then pd a b ++ to_y2 b outs else if (a =? x) && (b =? y) then rest else pd a b.

  Lemma updS_same S y s : updS S y s y = s.
  Proof. unfold updS. rewrite Z.eqb_refl. reflexivity. Qed.
  Lemma updS_other S y s n : n <> y -> updS S y s n = S n.
  Proof. unfold updS. intros H. apply Z.eqb_neq in H. rewrite H. reflexivity. Qed.

  Definition skelS (s : m2st) := (t_state s, t_cycle s, t_fin s, t_partner s, t_committed s, t_offerer s).

  (* a pair keeps its invariant when the fields it reads do not change *)

  Lemma pairI_ext_r rn S pd S' pd' a b :
    skelS (S' a) = skelS (S a) -> skelS (S' b) = skelS (S b) ->
    kinv a (t_nv (S' b)) = kinv a (t_nv (S b)) -> kino a (t_offers (S' b)) = kino a (t_offers (S b)) ->
    kinv a (t_ng (S' b)) = kinv a (t_ng (S b)) ->
    (forall f os, In (a, M2Offer f os) (t_offers (S' b)) -> In (a, M2Offer f os) (t_offers (S b))) ->
    (forall k, cnt k (pd' a b) = cnt k (pd a b)) -> (forall m, In m (pd' a b) -> In m (pd a b)) ->
    pairI rn S pd a b -> pairI rn S' pd' a b.
  Proof.
    unfold skelS. intros Ha Hb Hv Ho Hg Hs Hc Hi [].
    injection Ha as A1 A2 A3 A7 A8 A9. injection Hb as B1 B2 B3 B7 B8 B9.
    constructor; unfold SV, CV, SO, CO, SG, CG, expA, expG, sentGo, link in *;
      rewrite ?Hc, ?Hv, ?Ho, ?Hg, ?A1, ?A2, ?A3, ?A7, ?A8, ?A9, ?B1, ?B2, ?B3, ?B7, ?B8, ?B9;
      try assumption.
    - intros f os H. apply (p_PO0 f os). apply Hi. exact H.
    - intros f os H1 H2. apply (p_PS0 f os H1). apply Hs. exact H2.
    - intros a0 v g H. apply (p_PA0 a0 v g). apply Hi. exact H.
  Qed.

  (* a store: the receiver files one message of bag (a, b) in one of its tables *)
  Lemma pairI_store rn S pd S' pd' a b : rn b = true ->
    skelS (S' a) = skelS (S a) -> skelS (S' b) = skelS (S b) ->
    cnt 1 (pd' a b) + b2z (kinv a (t_nv (S' b))) = cnt 1 (pd a b) + b2z (kinv a (t_nv (S b))) ->
    cnt 2 (pd' a b) + b2z (kino a (t_offers (S' b))) = cnt 2 (pd a b) + b2z (kino a (t_offers (S b))) ->
    cnt 4 (pd' a b) + b2z (kinv a (t_ng (S' b))) = cnt 4 (pd a b) + b2z (kinv a (t_ng (S b))) ->
    cnt 3 (pd' a b) = cnt 3 (pd a b) -> cnt 5 (pd' a b) = cnt 5 (pd a b) ->
    (forall f os, t_state (S b) = 2 -> In (a, M2Offer f os) (t_offers (S' b)) ->
       In (a, M2Offer f os) (t_offers (S b)) \/ In (M2Offer f os) (pd a b)) ->
    (forall m, In m (pd' a b) -> In m (pd a b)) ->
    pairI rn S pd a b -> pairI rn S' pd' a b.
  Proof.
    unfold skelS. intros Rb Ha Hb Hv Ho Hg H3 H5 Hs Hi [].
    injection Ha as A1 A2 A3 A7 A8 A9. injection Hb as B1 B2 B3 B7 B8 B9.
    constructor; unfold SV, CV, SO, CO, SG, CG, expA, expG, sentGo, link in *; rewrite ?Rb in *;
      rewrite ?H3, ?H5, ?A1, ?A2, ?A3, ?A7, ?A8, ?A9, ?B1, ?B2, ?B3, ?B7, ?B8, ?B9;
      try assumption; try lia.
    - intros f os H. apply (p_PO0 f os). apply Hi. exact H.
    - intros f os H1 H2. destruct (Hs f os H1 H2) as [H|H]; [apply (p_PS0 f os H1 H)|apply (p_PO0 f os H)].
    - intros a0 v g H. apply (p_PA0 a0 v g). apply Hi. exact H.
  Qed.

  Lemma skel_skelS s s' : skel s' = skel s -> skelS s' = skelS s.
  Proof. unfold skel, skelS. intros H. injection H as -> -> -> _ _ _ -> -> -> _. reflexivity. Qed.

  Lemma pairI_ext rn S pd S' pd' a b :
    skelS (S' a) = skelS (S a) -> skel (S' b) = skel (S b) ->
    (forall k, cnt k (pd' a b) = cnt k (pd a b)) -> (forall m, In m (pd' a b) -> In m (pd a b)) ->
    pairI rn S pd a b -> pairI rn S' pd' a b.
  Proof.
    intros Ha Hb. pose proof (skel_skelS _ _ Hb) as Hb'. unfold skel in Hb.
    injection Hb as B1 B2 B3 B4 B5 B6 B7 B8 B9 B10.
    apply pairI_ext_r; try assumption; rewrite ?B4, ?B5, ?B6; auto.
  Qed.

  Lemma to_y2_map (g : Z -> node * m2msg) nb w :
    (forall t, fst (g t) = t) -> NoDup nb -> to_y2 w (map g nb) = if zmem w nb then [snd (g w)] else [].
  Proof.
    intros Hg. unfold to_y2. induction nb as [|t r IH]; intros Hnd; [reflexivity|].
    inversion Hnd as [|? ? Hn Hnd']; subst. simpl. rewrite Hg. rewrite (Z.eqb_sym t w).
    destruct (Z.eqb_spec w t) as [->|Hne]; simpl.
    - rewrite (IH Hnd'). destruct (zmem t r) eqn:E; [apply zmem_In in E; contradiction|reflexivity].
    - apply (IH Hnd').
  Qed.
  Lemma to_y2_app w l1 l2 : to_y2 w (l1 ++ l2) = to_y2 w l1 ++ to_y2 w l2.
  Proof. unfold to_y2. rewrite filter_app, map_app. reflexivity. Qed.

  Lemma pd_step_recv pd x y l1 m l2 outs x' : pd x y = l1 ++ m :: l2 -> x' <> y ->
    (forall k, cnt k (pd_step pd x y (l1 ++ l2) outs x' y) = cnt k (pd x' y) - b2z ((x' =? x) && (kind_of m =? k))) /\
    (forall m', In m' (pd_step pd x y (l1 ++ l2) outs x' y) -> In m' (pd x' y)).
  Proof.
    intros Hp Hne. unfold pd_step. apply Z.eqb_neq in Hne. rewrite Hne, Z.eqb_refl, andb_true_r.
    destruct (Z.eqb_spec x' x) as [->|Hx]; simpl.
    - split.
      + intros k. rewrite Hp, !cnt_app, cnt_cons. lia.
      + intros m' H. rewrite Hp. apply in_app_or in H as [H|H]; apply in_or_app; [left|right; right]; exact H.
    - split; [intros k; lia|auto].
  Qed.
  Lemma pd_step_send pd x y rest outs w :
    pd_step pd x y rest outs y w = pd y w ++ to_y2 w outs.
  Proof. unfold pd_step. rewrite Z.eqb_refl. reflexivity. Qed.
  Lemma pd_step_other pd x y rest outs a b : a <> y -> b <> y -> pd_step pd x y rest outs a b = pd a b.
  Proof.
    intros Ha Hb. unfold pd_step. apply Z.eqb_neq in Ha, Hb. rewrite Ha, Hb, andb_false_r. reflexivity.
  Qed.

  (* assembling the invariant after a micro-step of y *)
  Lemma step_frame rn S pd y s2 x rest outs :
    InvA rn S pd -> rn y = true -> nbr y <> [] -> In x (nbr y) ->
    good y s2 ->
    (forall x', In x' (nbr y) -> pairI rn (updS S y s2) (pd_step pd x y rest outs) x' y) ->
    (forall w, In w (nbr y) -> pairI rn (updS S y s2) (pd_step pd x y rest outs) y w) ->
    (forall w, ~ In w (nbr y) -> to_y2 w outs = []) ->
    InvA rn (updS S y s2) (pd_step pd x y rest outs).
  Proof.
    intros HI Ry Hact Hx G2 Hr Hs Hout. constructor.
    - intros n0 Hn. assert (n0 <> y) by (intros ->; congruence). rewrite updS_other by assumption.
      apply (i_idle _ _ _ HI n0 Hn).
    - intros n0 Hn Hiso. assert (n0 <> y) by (intros ->; congruence). rewrite updS_other by assumption.
      apply (i_iso _ _ _ HI n0 Hn Hiso).
    - intros n0 Hn Hact0. destruct (Z.eq_dec n0 y) as [->|Hne]; [rewrite updS_same; exact G2|].
      rewrite updS_other by assumption. apply (i_good _ _ _ HI n0 Hn Hact0).
    - intros a b Hab. destruct (Z.eq_dec b y) as [->|Hb]; [apply Hr; exact Hab|].
      destruct (Z.eq_dec a y) as [->|Ha]; [apply Hs; apply nbrs_sym; exact Hab|].
      apply (pairI_ext rn S pd); [rewrite updS_other by assumption; reflexivity
                                 |rewrite updS_other by assumption; reflexivity
                                 |intros k; rewrite pd_step_other by assumption; reflexivity
                                 |intros m; rewrite pd_step_other by assumption; auto
                                 |apply (i_pair _ _ _ HI a b Hab)].
    - intros a b Hab. unfold pd_step.
      destruct (Z.eqb_spec a y) as [->|Ha].
      + rewrite (i_far _ _ _ HI y b Hab). simpl. apply Hout. intros Hc. apply Hab. apply nbrs_sym. exact Hc.
      + destruct (Z.eqb_spec a x) as [->|Hax]; simpl; [|apply (i_far _ _ _ HI a b Hab)].
        destruct (Z.eqb_spec b y) as [->|Hb]; [contradiction|apply (i_far _ _ _ HI x b Hab)].
  Qed.
End Inv.
