(* P_Lifecycle.v -- proofs about M_Lifecycle (C19) *)
From PyDcop Require Import Base P_Base M_Messaging M_Lifecycle.
From Coq Require Import Permutation.

(* ---------- views ---------- *)
Definition out (me : Z) (l : list call) : list call := filter (fun c => negb (k_dst c =? me)) l.
Definition tocall (me : Z) (p : Z * Z * option Z) : call := mkCall me (fst (fst p)) (snd (fst p)) (snd p).
Definition qmsgs (q : list qent) : list (Z * Z) := map (fun e => (m_src (q_msg e), m_id (q_msg e))) q.

Lemma out_app me a b : out me (a ++ b) = out me a ++ out me b.
Proof. apply filter_app. Qed.
Lemma qmsgs_app a b : qmsgs (a ++ b) = qmsgs a ++ qmsgs b.
Proof. apply map_app. Qed.

Lemma out_tocall me B :
  Forall (fun p : Z * Z * option Z => fst (fst p) <> me) B -> out me (map (tocall me) B) = map (tocall me) B.
Proof.
  induction 1 as [|p B Hp HB IH]; simpl; auto.
  apply Z.eqb_neq in Hp. rewrite Hp. simpl. now rewrite IH.
Qed.

Lemma out_reinj me (L : list (Z * Z)) :
  out me (map (fun p => mkCall (fst p) me (snd p) (Some REINJECT)) L) = [].
Proof. induction L; simpl; auto. now rewrite Z.eqb_refl. Qed.

(* ---------- the queue ---------- *)
Lemma qinsert_perm x l : Permutation (qinsert x l) (x :: l).
Proof.
  induction l as [|y r IH]; simpl; auto.
  destruct (key_leb y x); auto.
  rewrite IH. apply perm_swap.
Qed.

Lemma qinsert_split x l1 l2 :
  Forall (fun y => key_leb y x = true) l1 -> Forall (fun y => key_leb y x = false) l2 ->
  qinsert x (l1 ++ l2) = l1 ++ x :: l2.
Proof.
  intros H1 H2. induction H1 as [|y l1 Hy H1 IH]; simpl.
  - destruct H2 as [|y l2 Hy H2]; simpl; auto. now rewrite Hy.
  - now rewrite Hy, IH.
Qed.

(* ---------- state equations ---------- *)
Lemma sender_self st s i p :
  sender st s (l_me st) i p =
  lset_queue (lset_calls st (l_calls st ++ [mkCall s (l_me st) i p]))
    (qinsert (mkQ (with_type p) (l_cnt st + 1) (mkMsg s (l_me st) i (with_type p))) (l_queue st))
    (l_cnt st + 1).
Proof. unfold sender. rewrite Z.eqb_refl. reflexivity. Qed.

Lemma sender_other st s d i p :
  d =? l_me st = false -> sender st s d i p = lset_calls st (l_calls st ++ [mkCall s d i p]).
Proof. intros H. unfold sender. now rewrite H. Qed.

(* queue and counter after re-injecting the list L *)
Fixpoint qfold (me : Z) (L : list (Z * Z)) (q : list qent) (c : Z) : list qent * Z :=
  match L with
  | [] => (q, c)
  | p :: r => qfold me r (qinsert (mkQ REINJECT (c + 1) (mkMsg (fst p) me (snd p) REINJECT)) q) (c + 1)
  end.

Definition reinj_fold (L : list (Z * Z)) (s : lstate) : lstate :=
  fold_left (fun s p => sender s (fst p) (l_me s) (snd p) (Some REINJECT)) L s.

Lemma reinj_fold_eq L : forall s,
  reinj_fold L s =
  lset_queue (lset_calls s (l_calls s ++ map (fun p => mkCall (fst p) (l_me s) (snd p) (Some REINJECT)) L))
    (fst (qfold (l_me s) L (l_queue s) (l_cnt s))) (snd (qfold (l_me s) L (l_queue s) (l_cnt s))).
Proof.
  induction L as [|p L IH]; intros s.
  - simpl. rewrite app_nil_r. now destruct s.
  - unfold reinj_fold in *. simpl. rewrite sender_self, IH. simpl.
    rewrite <- app_assoc. reflexivity.
Qed.

Lemma reinject_eq st :
  reinject st =
  lset_queue (lset_calls (lset_brecv st [])
                (l_calls st ++ map (fun p => mkCall (fst p) (l_me st) (snd p) (Some REINJECT)) (l_brecv st)))
    (fst (qfold (l_me st) (l_brecv st) (l_queue st) (l_cnt st)))
    (snd (qfold (l_me st) (l_brecv st) (l_queue st) (l_cnt st))).
Proof. unfold reinject. fold (reinj_fold (l_brecv st) (lset_brecv st [])). now rewrite reinj_fold_eq. Qed.

Lemma qfold_perm me L : forall q c, Permutation (qmsgs (fst (qfold me L q c))) (qmsgs q ++ L).
Proof.
  induction L as [|p L IH]; intros q c; simpl; [now rewrite app_nil_r|].
  rewrite IH. unfold qmsgs at 1. rewrite (Permutation_map _ (qinsert_perm _ _)). simpl.
  destruct p as [a b]; simpl. fold (qmsgs q). apply Permutation_middle.
Qed.

(* post-buffer flush *)
Definition flush_fold (B : list (Z * Z * option Z)) (s : lstate) : lstate :=
  fold_left (fun s p => lpost s (fst (fst p)) (snd (fst p)) (snd p)) B s.

Lemma flush_fold_eq B : forall s,
  l_paused s = false -> Forall (fun p => fst (fst p) <> l_me s) B ->
  flush_fold B s = lset_calls s (l_calls s ++ map (tocall (l_me s)) B).
Proof.
  induction B as [|p B IH]; intros s Hp HB.
  - simpl. rewrite app_nil_r. now destruct s.
  - inversion HB as [|? ? Hne HB']; subst. apply Z.eqb_neq in Hne.
    unfold flush_fold in *. simpl. unfold lpost at 2. rewrite Hp. simpl.
    rewrite (sender_other _ _ _ _ _ Hne). rewrite IH; auto.
    simpl. rewrite <- app_assoc. reflexivity.
Qed.

(* pause(b), first part: the flag *)
Definition pause_flag (st : lstate) (b : bool) : lstate :=
  if Bool.eqb (l_paused st) b then st else lset_paused st b.

Lemma pause_flag_eq st b : pause_flag st b = lset_paused st b.
Proof.
  unfold pause_flag. destruct (Bool.eqb (l_paused st) b) eqn:E; auto.
  apply eqb_prop in E. subst. now destruct st.
Qed.

Lemma lpause_true st : lpause st true = lset_paused st true.
Proof. unfold lpause. fold (pause_flag st true). apply pause_flag_eq. Qed.

Lemma lpause_false st :
  Forall (fun p => fst (fst p) <> l_me st) (l_bpost st) ->
  lpause st false =
  reinject (lset_calls (lset_bpost (lset_paused st false) [])
                       (l_calls st ++ map (tocall (l_me st)) (l_bpost st))).
Proof.
  intros HB. unfold lpause. fold (pause_flag st false). rewrite pause_flag_eq.
  change (l_bpost (lset_paused st false)) with (l_bpost st).
  fold (flush_fold (l_bpost st) (lset_bpost (lset_paused st false) [])).
  rewrite flush_fold_eq; auto.
Qed.

(* ====================================================================== *)
(* T1: posts are sent exactly once, in posting order                       *)
(* ====================================================================== *)
Record K (me : Z) (st : lstate) (P : list call) : Prop := {
  K_me : l_me st = me;
  K_seq : out me (l_calls st) ++ map (tocall me) (l_bpost st) = P;
  K_np : l_paused st = false -> l_bpost st = [];
  K_bp : Forall (fun p => fst (fst p) <> me) (l_bpost st) }.

Lemma K_reinject me st P : K me st P -> K me (reinject st) P.
Proof.
  intros [H1 H2 H3 H4]. rewrite reinject_eq. constructor; simpl; auto.
  rewrite out_app, H1, out_reinj, app_nil_r. exact H2.
Qed.

Lemma posted_one me o :
  posted me [o] = match o with LPost t i p => [mkCall me t i p] | _ => [] end.
Proof. unfold posted. simpl. apply app_nil_r. Qed.

Lemma K_step me st P o :
  K me st P -> posts_elsewhere me [o] = true -> K me (lstep st o) (P ++ posted me [o]).
Proof.
  intros HK Hpe. rewrite posted_one. destruct o; cbn [lstep]; rewrite ?app_nil_r.
  - (* Recv *) destruct HK as [H1 H2 H3 H4]. constructor; auto.
  - (* LNext *) destruct HK as [H1 H2 H3 H4]. unfold lnext.
    destruct (l_queue st) as [|e r]; [constructor; auto|].
    unfold on_message; simpl. destruct (negb (l_paused st) && l_running st); constructor; auto.
  - (* Start *) apply K_reinject. destruct HK as [H1 H2 H3 H4]. constructor; auto.
  - (* Stop *) destruct HK as [H1 H2 H3 H4]. constructor; auto.
  - (* Pause *) rewrite lpause_true. destruct HK as [H1 H2 H3 H4]. constructor; simpl; auto. discriminate.
  - (* Resume *) destruct HK as [H1 H2 H3 H4].
    rewrite lpause_false by (now rewrite H1). apply K_reinject. constructor; simpl; auto.
    rewrite app_nil_r, out_app, H1, out_tocall; auto.
  - (* LPost *) simpl in Hpe. rewrite andb_true_r in Hpe. apply negb_true_iff in Hpe.
    destruct HK as [H1 H2 H3 H4]. unfold lpost.
    destruct (l_paused st) eqn:Ep; simpl.
    + constructor; simpl; auto.
      * rewrite map_app, app_assoc, H2. simpl. unfold tocall. simpl. reflexivity.
      * intros Hx; congruence.
      * apply Forall_app; split; auto. constructor; auto. simpl. now apply Z.eqb_neq.
    + rewrite sender_other by (now rewrite H1). constructor; simpl; auto.
      rewrite out_app. simpl. rewrite Hpe. simpl.
      rewrite (H3 eq_refl) in *. simpl in *. rewrite app_nil_r in *. now rewrite H2, H1.
Qed.

Lemma posts_elsewhere_cons me o r :
  posts_elsewhere me (o :: r) = posts_elsewhere me [o] && posts_elsewhere me r.
Proof. unfold posts_elsewhere. simpl. now rewrite andb_true_r. Qed.

Lemma posted_cons me o r : posted me (o :: r) = posted me [o] ++ posted me r.
Proof. unfold posted. simpl. now rewrite app_nil_r. Qed.

Lemma K_run me ops : forall st P,
  K me st P -> posts_elsewhere me ops = true -> K me (lrun st ops) (P ++ posted me ops).
Proof.
  induction ops as [|o r IH]; intros st P HK Hpe.
  - simpl. now rewrite app_nil_r.
  - rewrite posts_elsewhere_cons in Hpe. apply andb_true_iff in Hpe as [Ho Hr].
    rewrite posted_cons, app_assoc. simpl. apply IH; auto. apply K_step; auto.
Qed.

Lemma held_posts_sent_in_order_l me ops :
  posts_elsewhere me ops = true ->
  let st := lrun (linit me) ops in
  out me (l_calls st) ++ map (tocall me) (l_bpost st) = posted me ops /\
  (l_paused st = false -> l_bpost st = [] /\ out me (l_calls st) = posted me ops).
Proof.
  intros Hpe st.
  assert (K me (linit me) []) as K0 by (constructor; simpl; auto).
  destruct (K_run me ops _ _ K0 Hpe) as [H1 H2 H3 H4]. simpl in H2. fold st in H2, H3.
  split; auto. intros Hp. split; auto. rewrite (H3 Hp) in H2. simpl in H2. now rewrite app_nil_r in H2.
Qed.

(* ====================================================================== *)
(* T2: every received message is in exactly one place (all histories)      *)
(* ====================================================================== *)
Record E1 (me : Z) (st : lstate) (R : list (Z * Z)) : Prop := {
  E_me : l_me st = me;
  E_perm : Permutation R (l_handled st ++ l_brecv st ++ qmsgs (l_queue st));
  E_act : l_running st = true -> l_paused st = false -> l_brecv st = [];
  E_bp : Forall (fun p => fst (fst p) <> me) (l_bpost st) }.

Lemma E_reinject me st R :
  l_me st = me -> Permutation R (l_handled st ++ l_brecv st ++ qmsgs (l_queue st)) ->
  Forall (fun p => fst (fst p) <> me) (l_bpost st) ->
  E1 me (reinject st) R.
Proof.
  intros H1 H2 H4. rewrite reinject_eq. constructor; simpl; auto.
  rewrite qfold_perm, H2. apply Permutation_app_head. apply Permutation_app_comm.
Qed.

Lemma received_one o : received [o] = match o with Recv s i _ => [(s, i)] | _ => [] end.
Proof. unfold received. simpl. apply app_nil_r. Qed.

Lemma E_step me st R o :
  E1 me st R -> posts_elsewhere me [o] = true -> E1 me (lstep st o) (R ++ received [o]).
Proof.
  intros HE Hpe. rewrite received_one. destruct o; cbn [lstep]; rewrite ?app_nil_r.
  - (* Recv *) destruct HE as [H1 H2 H3 H4]. constructor; simpl; auto.
    unfold qmsgs. rewrite (Permutation_map _ (qinsert_perm _ _)). simpl. fold (qmsgs (l_queue st)).
    rewrite H2. rewrite <- Permutation_cons_append. rewrite !app_assoc. apply Permutation_middle.
  - (* LNext *) destruct HE as [H1 H2 H3 H4]. unfold lnext.
    destruct (l_queue st) as [|e r] eqn:Eq; [constructor; auto; now rewrite Eq|].
    unfold on_message; simpl.
    destruct (negb (l_paused st) && l_running st) eqn:Ea; constructor; simpl; auto.
    + apply andb_true_iff in Ea as [Ea1 Ea2]. apply negb_true_iff in Ea1.
      rewrite (H3 Ea2 Ea1) in *. simpl in *. rewrite H2. rewrite <- app_assoc. reflexivity.
    + rewrite H2. simpl. rewrite <- !app_assoc. reflexivity.
    + intros Hr Hp. rewrite Hr, Hp in Ea. discriminate.
  - (* Start *) destruct HE as [H1 H2 H3 H4]. apply E_reinject; simpl; auto.
  - (* Stop *) destruct HE as [H1 H2 H3 H4]. constructor; simpl; auto. discriminate.
  - (* Pause *) rewrite lpause_true. destruct HE as [H1 H2 H3 H4]. constructor; simpl; auto. discriminate.
  - (* Resume *) destruct HE as [H1 H2 H3 H4].
    rewrite lpause_false by (now rewrite H1). apply E_reinject; simpl; auto.
  - (* LPost *) simpl in Hpe. rewrite andb_true_r in Hpe. apply negb_true_iff in Hpe.
    destruct HE as [H1 H2 H3 H4]. unfold lpost.
    destruct (l_paused st) eqn:Ep; simpl.
    + constructor; simpl; auto.
      * intros _ Hx. congruence.
      * apply Forall_app; split; auto. constructor; auto. simpl. now apply Z.eqb_neq.
    + rewrite sender_other by (now rewrite H1). constructor; simpl; auto.
Qed.

Lemma received_cons o r : received (o :: r) = received [o] ++ received r.
Proof. unfold received. simpl. now rewrite app_nil_r. Qed.

Lemma E_run me ops : forall st R,
  E1 me st R -> posts_elsewhere me ops = true -> E1 me (lrun st ops) (R ++ received ops).
Proof.
  induction ops as [|o r IH]; intros st R HE Hpe.
  - simpl. now rewrite app_nil_r.
  - rewrite posts_elsewhere_cons in Hpe. apply andb_true_iff in Hpe as [Ho Hr].
    rewrite received_cons, app_assoc. simpl. apply IH; auto. apply E_step; auto.
Qed.

Lemma held_handled_exactly_once_l me ops :
  posts_elsewhere me ops = true ->
  let st := lrun (linit me) ops in
  Permutation (received ops) (l_handled st ++ l_brecv st ++ qmsgs (l_queue st)) /\
  (l_running st = true -> l_paused st = false -> l_queue st = [] ->
   Permutation (received ops) (l_handled st)).
Proof.
  intros Hpe st.
  assert (E1 me (linit me) []) as E0 by (constructor; simpl; auto).
  destruct (E_run me ops _ _ E0 Hpe) as [H1 H2 H3 H4]. simpl in H2. fold st in H2, H3.
  split; auto. intros Hr Hp Hq. rewrite (H3 Hr Hp), Hq in H2. simpl in H2. now rewrite app_nil_r in H2.
Qed.

(* ====================================================================== *)
(* T3: once, in reception order, before newer messages (guarded)           *)
(* ====================================================================== *)
Definition ok19 (c : Z) (e : qent) : Prop := q_type e = REINJECT /\ q_cnt e <= c.
Definition ok20 (t c : Z) (e : qent) : Prop := q_type e = t /\ q_cnt e <= c.

Lemma ok19_mono c c' e : c <= c' -> ok19 c e -> ok19 c' e.
Proof. unfold ok19. intros ? [? ?]. split; auto. lia. Qed.
Lemma ok20_mono t c c' e : c <= c' -> ok20 t c e -> ok20 t c' e.
Proof. unfold ok20. intros ? [? ?]. split; auto. lia. Qed.

Definition qshape (t : Z) (q : list qent) (c : Z) (l19 l20 : list qent) : Prop :=
  q = l19 ++ l20 /\ Forall (ok19 c) l19 /\ Forall (ok20 t c) l20.

(* a fresh type-20 entry goes to the very end *)
Lemma insert20 t q c l19 l20 m :
  REINJECT < t ->
  qshape t q c l19 l20 -> qinsert (mkQ t (c + 1) m) q = q ++ [mkQ t (c + 1) m].
Proof.
  intros Ht19 (E & H19 & H20). rewrite <- (app_nil_r q) at 1. apply qinsert_split; [|constructor].
  subst q. apply Forall_app; split.
  - eapply Forall_impl; [|exact H19]. intros e [Ht Hc]. unfold key_leb. simpl. rewrite Ht.
    apply orb_true_iff. left. now apply Z.ltb_lt.
  - eapply Forall_impl; [|exact H20]. intros e [Ht Hc]. unfold key_leb. simpl. rewrite Ht.
    apply orb_true_iff. right. rewrite Z.eqb_refl. simpl. apply Z.leb_le. lia.
Qed.

(* a fresh type-19 entry goes after the 19s and before the 20s *)
Lemma insert19 t q c l19 l20 m :
  REINJECT < t ->
  qshape t q c l19 l20 ->
  qinsert (mkQ REINJECT (c + 1) m) q = l19 ++ mkQ REINJECT (c + 1) m :: l20.
Proof.
  intros Ht19 (E & H19 & H20). subst q. apply qinsert_split.
  - eapply Forall_impl; [|exact H19]. intros e [Ht Hc]. unfold key_leb. simpl. rewrite Ht.
    apply orb_true_iff. right. rewrite Z.eqb_refl. simpl. apply Z.leb_le. lia.
  - eapply Forall_impl; [|exact H20]. intros e [Ht Hc]. unfold key_leb. simpl. rewrite Ht.
    apply orb_false_iff. split; [apply Z.ltb_ge; lia|].
    apply andb_false_iff. left. apply Z.eqb_neq. lia.
Qed.

Lemma qfold_shape t me L : REINJECT < t -> forall q c l19 l20,
  qshape t q c l19 l20 ->
  exists d19, qshape t (fst (qfold me L q c)) (snd (qfold me L q c)) (l19 ++ d19) l20 /\
              qmsgs d19 = L /\ c <= snd (qfold me L q c).
Proof.
  intros Ht19. induction L as [|p L IH]; intros q c l19 l20 Hs; simpl.
  - exists []. rewrite app_nil_r. split; [exact Hs|]. split; [reflexivity|lia].
  - set (x := mkQ REINJECT (c + 1) (mkMsg (fst p) me (snd p) REINJECT)).
    assert (Hs' : qshape t (qinsert x q) (c + 1) (l19 ++ [x]) l20).
    { unfold x. rewrite (insert19 t q c l19 l20 _ Ht19 Hs). destruct Hs as (E & H19 & H20).
      split; [now rewrite <- app_assoc|]. split.
      - apply Forall_app; split.
        + eapply Forall_impl; [|exact H19]. intros e. apply ok19_mono. lia.
        + constructor; [|constructor]. split; simpl; auto. lia.
      - eapply Forall_impl; [|exact H20]. intros e. apply ok20_mono. lia. }
    destruct (IH _ _ _ _ Hs') as (d & Hd & Hm & Hc).
    exists (x :: d). rewrite <- app_assoc in Hd. simpl in Hd. split; [exact Hd|]. split.
    + simpl. rewrite Hm. now destruct p.
    + lia.
Qed.

Record J (t me : Z) (st : lstate) (R : list (Z * Z)) : Prop := {
  J_me : l_me st = me;
  J_seq : l_handled st ++ l_brecv st ++ qmsgs (l_queue st) = R;
  J_q : exists l19 l20, qshape t (l_queue st) (l_cnt st) l19 l20;
  J_act : l_running st = true -> l_paused st = false -> l_brecv st = [];
  J_bp : Forall (fun p => fst (fst p) <> me) (l_bpost st) }.

Lemma not_urgent_l19 t q c l19 l20 :
  qshape t q c l19 l20 -> existsb (fun e => q_type e <=? REINJECT) q = false -> l19 = [].
Proof.
  intros (E & H19 & _) Hu. destruct l19 as [|e r]; auto.
  subst q. simpl in Hu. inversion H19 as [|? ? [Ht _] _]; subst. rewrite Ht in Hu.
  rewrite Z.leb_refl in Hu. discriminate.
Qed.

Lemma J_reinject t me st R :
  REINJECT < t ->
  l_me st = me -> l_handled st ++ l_brecv st ++ qmsgs (l_queue st) = R ->
  (exists l19 l20, qshape t (l_queue st) (l_cnt st) l19 l20) ->
  Forall (fun p => fst (fst p) <> me) (l_bpost st) ->
  (l_brecv st = [] \/ urgent_queued st = false) ->
  J t me (reinject st) R.
Proof.
  intros Ht19 H1 H2 (l19 & l20 & Hs) H4 Hsafe. rewrite reinject_eq.
  destruct (qfold_shape t (l_me st) (l_brecv st) Ht19 _ _ _ _ Hs) as (d & Hd & Hm & Hc).
  constructor; simpl; auto.
  - destruct Hd as (Eq & _). rewrite Eq. destruct Hs as (Eq0 & Hs19 & Hs20).
    rewrite <- H2, Eq0. f_equal. rewrite !qmsgs_app, Hm.
    destruct Hsafe as [Hb | Hu].
    + rewrite Hb in *. simpl. destruct d; [|discriminate]. simpl. now rewrite app_nil_r.
    + unfold urgent_queued in Hu.
      rewrite (not_urgent_l19 t _ _ _ _ (conj Eq0 (conj Hs19 Hs20)) Hu). reflexivity.
  - eauto.
Qed.

Lemma safe_step_reinj st o :
  reinjects o = true -> safe_step st o = true -> l_brecv st = [] \/ urgent_queued st = false.
Proof.
  intros Hr Hs. unfold safe_step in Hs. rewrite Hr in Hs. simpl in Hs.
  destruct (l_brecv st); auto. simpl in Hs. right. now apply negb_true_iff in Hs.
Qed.

Lemma J_step t me st R o :
  REINJECT < t ->
  J t me st R -> posts_elsewhere me [o] = true -> uniform_types t [o] = true -> safe_step st o = true ->
  J t me (lstep st o) (R ++ received [o]).
Proof.
  intros Ht19 HJ Hpe Hdt Hsafe. rewrite received_one. destruct o; cbn [lstep]; rewrite ?app_nil_r.
  - (* Recv *) destruct HJ as [H1 H2 (l19 & l20 & Hs) H3 H4].
    assert (Ety : with_type ty = t).
    { simpl in Hdt. rewrite andb_true_r in Hdt. now apply Z.eqb_eq in Hdt. }
    unfold lenqueue. rewrite Ety. rewrite (insert20 t _ _ _ _ _ Ht19 Hs).
    constructor; simpl; auto.
    + rewrite qmsgs_app. simpl. rewrite !app_assoc. rewrite <- H2. now rewrite !app_assoc.
    + destruct Hs as (Eq & H19 & H20). exists l19, (l20 ++ [mkQ t (l_cnt st + 1) (mkMsg src (l_me st) id t)]).
      split; [now rewrite Eq, app_assoc|]. split.
      * eapply Forall_impl; [|exact H19]. intros e. apply ok19_mono. lia.
      * apply Forall_app; split.
        -- eapply Forall_impl; [|exact H20]. intros e. apply ok20_mono. lia.
        -- constructor; [|constructor]. split; simpl; auto. lia.
  - (* LNext *) destruct HJ as [H1 H2 (l19 & l20 & Hs) H3 H4]. unfold lnext.
    destruct (l_queue st) as [|e r] eqn:Eq; [constructor; auto; rewrite Eq; eauto|].
    assert (Hs' : exists a b, qshape t r (l_cnt st) a b).
    { destruct Hs as (E & H19 & H20). destruct l19 as [|x l19]; simpl in E.
      - destruct l20 as [|x l20]; [discriminate|]. inversion E; subst. inversion H20; subst.
        exists [], l20. repeat split; auto.
      - inversion E; subst. inversion H19; subst. exists l19, l20. repeat split; auto. }
    unfold on_message; simpl.
    destruct (negb (l_paused st) && l_running st) eqn:Ea; constructor; simpl; auto.
    + apply andb_true_iff in Ea as [Ea1 Ea2]. apply negb_true_iff in Ea1.
      rewrite (H3 Ea2 Ea1) in *. simpl in *. rewrite <- H2. now rewrite <- app_assoc.
    + rewrite <- H2. simpl. now rewrite <- !app_assoc.
    + intros Hr Hp. rewrite Hr, Hp in Ea. discriminate.
  - (* Start *) destruct HJ as [H1 H2 H5 H3 H4]. apply J_reinject; simpl; auto.
    apply (safe_step_reinj st Start); auto.
  - (* Stop *) destruct HJ as [H1 H2 H5 H3 H4]. constructor; simpl; auto. discriminate.
  - (* Pause *) rewrite lpause_true. destruct HJ as [H1 H2 H5 H3 H4]. constructor; simpl; auto. discriminate.
  - (* Resume *) destruct HJ as [H1 H2 H5 H3 H4].
    rewrite lpause_false by (now rewrite H1). apply J_reinject; simpl; auto.
    apply (safe_step_reinj st Resume); auto.
  - (* LPost *) simpl in Hpe. rewrite andb_true_r in Hpe. apply negb_true_iff in Hpe.
    destruct HJ as [H1 H2 H5 H3 H4]. unfold lpost.
    destruct (l_paused st) eqn:Ep; simpl.
    + constructor; simpl; auto.
      * intros _ Hx. congruence.
      * apply Forall_app; split; auto. constructor; auto. simpl. now apply Z.eqb_neq.
    + rewrite sender_other by (now rewrite H1). constructor; simpl; auto.
Qed.

Lemma uniform_types_cons t o r : uniform_types t (o :: r) = uniform_types t [o] && uniform_types t r.
Proof. unfold uniform_types. simpl. now rewrite andb_true_r. Qed.

Lemma J_run t me ops : REINJECT < t -> forall st R,
  J t me st R -> posts_elsewhere me ops = true -> uniform_types t ops = true -> safe_run st ops = true ->
  J t me (lrun st ops) (R ++ received ops).
Proof.
  intros Ht19. induction ops as [|o r IH]; intros st R HJ Hpe Hdt Hsafe.
  - simpl. now rewrite app_nil_r.
  - rewrite posts_elsewhere_cons in Hpe. apply andb_true_iff in Hpe as [Ho Hr].
    rewrite uniform_types_cons in Hdt. apply andb_true_iff in Hdt as [Hd1 Hd2].
    simpl in Hsafe. apply andb_true_iff in Hsafe as [Hs1 Hs2].
    rewrite received_cons, app_assoc. simpl. apply IH; auto. apply J_step; auto.
Qed.

Lemma held_handled_once_in_order_l t me ops :
  REINJECT < t ->
  posts_elsewhere me ops = true -> uniform_types t ops = true -> safe_run (linit me) ops = true ->
  let st := lrun (linit me) ops in
  l_handled st ++ l_brecv st ++ qmsgs (l_queue st) = received ops.
Proof.
  intros Ht19 Hpe Hdt Hsafe st.
  assert (J t me (linit me) []) as J0.
  { constructor; simpl; auto. exists [], []. repeat split; auto. }
  destruct (J_run t me ops Ht19 _ _ J0 Hpe Hdt Hsafe) as [H1 H2 H5 H3 H4]. exact H2.
Qed.

Lemma held_handled_all_when_quiescent_l t me ops :
  REINJECT < t ->
  posts_elsewhere me ops = true -> uniform_types t ops = true -> safe_run (linit me) ops = true ->
  let st := lrun (linit me) ops in
  l_running st = true -> l_paused st = false -> l_queue st = [] ->
  l_handled st = received ops /\ l_brecv st = [].
Proof.
  intros Ht19 Hpe Hdt Hsafe st Hr Hp Hq.
  assert (J t me (linit me) []) as J0.
  { constructor; simpl; auto. exists [], []. repeat split; auto. }
  destruct (J_run t me ops Ht19 _ _ J0 Hpe Hdt Hsafe) as [H1 H2 H5 H3 H4]. simpl in H2.
  fold st in H2, H3. rewrite (H3 Hr Hp), Hq in H2. simpl in H2. rewrite app_nil_r in H2.
  split; auto.
Qed.

(* the guard cannot be dropped: pause, pop one re-injected message, resume *)
Definition refute_ops : list lop :=
  [Recv 6 1 None; LNext; Recv 5 2 None; LNext; Start; Pause; LNext; Resume; LNext; LNext; LNext].

Lemma held_order_refuted_l :
  exists me ops,
    posts_elsewhere me ops = true /\ uniform_types MSG_ALGO ops = true /\
    let st := lrun (linit me) ops in
    l_running st = true /\ l_paused st = false /\ l_queue st = [] /\ l_brecv st = [] /\
    received ops = [(6, 1); (5, 2)] /\ l_handled st = [(5, 2); (6, 1)].
Proof. exists 0, refute_ops. vm_compute. repeat split; reflexivity. Qed.

(* the type guard cannot be dropped either: a held message of type <= 19 is re-queued with
   type 19 and a newer message of its own type overtakes it *)
Definition refute_prio_ops : list lop :=
  [Recv 6 1 (Some 10); LNext; Start; Recv 6 2 (Some 10); LNext; LNext].

Lemma held_priority_refuted_l :
  exists me ops,
    posts_elsewhere me ops = true /\ uniform_types 10 ops = true /\ safe_run (linit me) ops = true /\
    let st := lrun (linit me) ops in
    l_running st = true /\ l_paused st = false /\ l_queue st = [] /\ l_brecv st = [] /\
    received ops = [(6, 1); (6, 2)] /\ l_handled st = [(6, 2); (6, 1)].
Proof. exists 0, refute_prio_ops. vm_compute. repeat split; reflexivity. Qed.
