(* Prop_C05.v -- C05: Max-Sum without damping is exact on acyclic factor graphs.

   SYNCHRONOUS Max-Sum: PROVED in full ([maxsum_tree_exact], last block of theorems below): for every
   well-formed DCOP whose factor graph is a forest of height <= H ([forest_ok_b G H]) with a unique optimum a,
   min or max, stability 0, damping 0, any start_messages, any arity/domain sizes, and EVERY schedule of the
   asynchronous network: once every computation that has a neighbour has completed more than H cycles, the
   selected assignment is a.  The proof chain, each link a theorem of this file:
     maxsum_graph_ok / maxsum_algo_ok   the instance meets the contract of the mixin model, so C08 applies;
     maxsum_refines_rounds              every run refines the functional lock-step system [ms_rounds]
                                        (from C08's sync_round_inputs + a simulation invariant);
     maxsum_suppression_lifted          the SAME_COUNT cut-off never changes what a receiver holds;
     maxsum_tree_messages               message on an edge = exact min/max-marginal of the subtree behind it
                                        up to an additive constant (induction on the height);
     maxsum_tree_select                 the lock-step selection is the optimum after H+1 rounds.
   [forest_ok_b] is the unrolling form of "forest"; the correspondence run checks on every generated graph that it
   agrees with [forest_b] (leaf elimination) and with the harness's own union-find/BFS computation of the height.

   NOT true of the code as it is (faithful model), hence refuted with witnesses instead of proved:
     amaxsum_tree_exact :
       forall P G a sched, (p_damp P == 0)%Q -> forest_b G = true -> unique_optimum (p_max P) G a ->
         let cf := fst (run (amaxsum_proto P G) sched) in
         quiescent G cf = true -> selected_async G cf = map Some a.        (default start_messages deadlocks)
     the synchronous statement with the default stability 0.1               (cut-off freezes a changing message)
     a constraint-less variable with an initial_value                       (never re-selects)
   ASYNCHRONOUS A-Max-Sum: PROVED ([amaxsum_tree_exact], block "deepening 2" below) for start_messages = leafs_vars
   or all ([spoken_ok]), stability 0, damping 0: for EVERY schedule, once the network is quiescent (every
   computation started, no message in flight) the selected assignment is the unique optimum.  No rounds exist
   here; the chain is
     amaxsum_basic_invariants           messages only travel along edges, a running computation buffers nothing,
                                        current_value is the selection on the costs held now;
     amaxsum_edge_consistent            every reachable configuration: the last message on an edge (delivered, in
                                        flight, buffered, or withheld as an exact repeat by the SAME_COUNT block)
                                        is the table its sender computes from what it holds NOW;
     amaxsum_quiescent_fixed_point      at quiescence the costs dicts solve the message equations;
     amaxsum_fixed_point_exact          on a forest every solution is the exact min/max-marginal (up to a constant);
     amaxsum_tree_exact                 hence the selection is the optimum.
   The unrestricted statement (default start_messages = leafs) stays refuted below, and so does the async statement
   with the default stability 0.1 (amaxsum_tree_exact_default_stability_refuted). *)
From Coq Require Import QArith.
From PyDcop Require Import Base Net M_SyncMixin P_SyncMixin M_MaxSum P_MaxSum P_MaxSum2 P_MaxSum3 P_MaxSum4 P_MaxSum5 P_AMaxSum2 P_AMaxSum3.
Local Open Scope Z_scope.

(* factor -> variable message: entry d is the optimum, over all assignments of the factor's other variables,
   of  factor cost + costs received from those variables  (both modes, any arity, any domain sizes > 0) *)
Theorem maxsum_factor_marginal_partial : forall D mx f recv x d,
  Forall (fun n => (0 < n)%nat) (fcv_others D f x) -> (d < D x)%nat ->
  List.length (factor_costs_for_var D mx f recv x) = D x /\
  (forall a, Forall2 (fun v n => (v < n)%nat) a (fcv_others D f x) ->
             ord mx (tget (factor_costs_for_var D mx f recv x) d) (fcv_cost f recv x d a)) /\
  (exists a, Forall2 (fun v n => (v < n)%nat) a (fcv_others D f x) /\
             (tget (factor_costs_for_var D mx f recv x) d == fcv_cost f recv x d a)%Q).
Proof. exact factor_costs_for_var_spec. Qed.

(* value selection: a value of the domain whose belief (own cost + all received tables) is optimal *)
Theorem maxsum_select_value_partial : forall mx vd costs,
  (0 < v_dom vd)%nat ->
  let '(d, c) := select_value mx vd costs in
  (d < v_dom vd)%nat /\ (c == belief vd costs d)%Q /\
  (forall d', (d' < v_dom vd)%nat -> ord mx (belief vd costs d) (belief vd costs d')).
Proof. exact select_value_spec. Qed.

(* variable -> factor message: own cost + tables of the OTHER factors, shifted by one constant *)
Theorem maxsum_variable_message_partial : forall vd factors costs f,
  List.length (costs_for_factor vd factors costs f) = v_dom vd /\
  exists k : Q, forall d, (d < v_dom vd)%nat ->
    (tget (costs_for_factor vd factors costs f) d == unary vd d + col (cff_others factors costs f) d - k)%Q.
Proof. exact costs_for_factor_shift. Qed.

Theorem maxsum_leaf_message_partial : forall vd factors costs f d,
  cff_others factors costs f = [] -> (d < v_dom vd)%nat ->
  (tget (costs_for_factor vd factors costs f) d == unary vd d)%Q.
Proof. exact costs_for_factor_leaf. Qed.

(* stability 0: approx_match is pointwise equality ... *)
Theorem approx_match_stability0 : forall t p,
  approx_match 0 t p = true <-> Forall (fun cp => (snd cp == fst cp)%Q) (combine t p).
Proof. exact approx_match_zero. Qed.

(* ... so the SAME_COUNT cut-off only withholds a message equal to the last one sent to that target *)
Theorem suppression_exact_repeat_ok : forall P prev tgt t,
  (p_stab P == 0)%Q ->
  match emit P false prev tgt t with
  | (Some t', prev') => t' = t /\ exists c, zlookup tgt prev' = Some (t, c)
  | (None, prev') => prev' = prev /\ exists p c, zlookup tgt prev = Some (p, c) /\
                     Forall (fun cp => (snd cp == fst cp)%Q) (combine t p)
  end.
Proof. exact P_MaxSum.suppression_exact_repeat_ok. Qed.

(* start_messages = leafs, no variable with exactly one factor, no unary factor: for EVERY schedule no message
   is ever sent or held (A-Max-Sum never leaves its initial values) *)
Theorem amaxsum_leafs_silent : forall P G,
  p_start P = 0%nat ->
  (forall x vd, In (x, vd) (d_vars G) -> List.length (factors_of G x) <> 1%nat) ->
  (forall f fd, In (f, fd) (d_facs G) -> List.length (f_scope fd) <> 1%nat) ->
  forall cf, reachable (amaxsum_proto P G) cf ->
    (forall s d, chan cf s d = []) /\ (forall n, w_held (nodes cf n) = []).
Proof. exact P_MaxSum.amaxsum_leafs_silent. Qed.

(* ---- deepening: the synchronous instance meets the contract of the mixin (C08), for every well-formed DCOP
   (distinct computation names, scopes without repetition over declared variables) ... *)
Theorem maxsum_graph_ok : forall G, wf_dcop G -> graph_ok (nbrs G).
Proof. exact maxsum_graph_ok_l. Qed.

Theorem maxsum_algo_ok : forall P G, wf_dcop G -> algo_ok (nbrs G) (maxsum_algo P G).
Proof. exact maxsum_algo_ok_l. Qed.

(* ... hence, for EVERY schedule of the asynchronous network, the run refines the purely functional lock-step
   system [ms_rounds] (round 0 = on_start everywhere, round k+1 = on_new_cycle(inbox of round k, k) everywhere):
   the on_new_cycle call with id k at n is handed exactly the messages addressed to n in lock-step round k,
   and a computation that completed k cycles is in its lock-step state after k rounds (same value selections,
   _prev_messages and posted messages; the costs dict up to key order).  Derived from C08's sync_round_inputs. *)
Theorem maxsum_refines_rounds : forall P G, wf_dcop G ->
  (forall cf act n k msgs, reachable (maxsum_proto P G) cf ->
     In (EvCycle n k msgs) (snd (step (maxsum_proto P G) cf act)) ->
     k = cur (w_st (nodes cf n)) /\ NoDup (map fst msgs) /\ dict_equiv msgs (inbox G (ms_rounds P G k) n)) /\
  (forall cf n, reachable (maxsum_proto P G) cf -> w_running (nodes cf n) = true ->
     st_equiv (ast (w_st (nodes cf n))) (fst (ms_rounds P G (cur (w_st (nodes cf n))) n))).
Proof. exact maxsum_refines_rounds_l. Qed.

(* ---- the SAME_COUNT suppression lifted to runs (stability 0, damping 0): after absorbing the messages of
   round k+1, computation b holds for every neighbour a exactly the table a computed in its cycle k
   ([T P G k a b]: costs_for_factor / factor_costs_for_var on a's costs dict of that cycle) -- whether a posted
   it or the cut-off withheld it as an exact repeat of what b already holds *)
Theorem maxsum_suppression_lifted : forall P G, wf_dcop G -> (p_stab P == 0)%Q -> (p_damp P == 0)%Q ->
  forall k a b, In b (nbrs G a) -> zlookup a (costs_at P G (S k) b) = Some (T P G k a b).
Proof. exact view_spec. Qed.

(* ---- messages on a tree.  [SN G h a b] = the computations met when unrolling the factor graph behind the
   directed edge a->b to depth h, [low G h a b] = that unrolling is closed (the part of the graph behind a->b
   is a tree of height <= h), [SC G h a b s] = the cost of that part under assignment s, [xv G a b] = the
   variable end of the edge.  In every lock-step round k >= h-1 the table a computes for b is, entry by
   entry, the exact optimum of SC over all valid assignments that give the edge's variable that value
   ([is_margf]: a bound for all of them, attained by one), up to the additive constant KK (the normalisation
   averages subtracted in the subtree); min and max *)
Theorem maxsum_tree_messages : forall P G, wf_dcop G ->
  (forall x vd, In (x, vd) (d_vars G) -> (0 < v_dom vd)%nat) -> (p_stab P == 0)%Q -> (p_damp P == 0)%Q ->
  forall h a b k, In b (nbrs G a) -> low G h a b = true ->
    NoDup (SN G h a b) -> ~ In b (SN G h a b) -> (h <= S k)%nat ->
    List.length (T P G k a b) = dom_of G (xv G a b) /\
    is_margf P G (xv G a b) (dom_of G (xv G a b))
             (fun d => tget (T P G k a b) d + KK P G h k a b)%Q (SC G h a b).
Proof. exact tree_messages_l. Qed.

(* ---- exactness of the lock-step system: [forest_ok_b G H] = seen from every variable the unrolling to depth
   H+1 is closed and meets no computation twice (the factor graph is a forest of height <= H).  With a unique
   optimum a, after more than H rounds every variable has selected its value in a (a variable without any
   constraint does so at start, provided it has no initial_value: see isolated_variable_initial_value_refuted) *)
Theorem maxsum_tree_select : forall P G, wf_dcop G -> (p_stab P == 0)%Q -> (p_damp P == 0)%Q ->
  forall a H, unique_optimum (p_max P) G a -> forest_ok_b G H = true ->
  (forall x vd, In (x, vd) (d_vars G) -> nbrs G x = [] -> v_init vd = None) ->
  forall x k, In x (var_ids G) -> (nbrs G x = [] \/ (S H <= k)%nat) ->
    current_value (fst (ms_rounds P G k x)) = Some (val_of G a x).
Proof. exact tree_select_l. Qed.

(* ---- THE PROPERTY, synchronous Max-Sum, every schedule of the asynchronous network, min and max, any
   start_messages: on a forest with a unique optimum, stability 0 and damping 0, once every computation that has
   a neighbour has completed more than H cycles the selected assignment is the optimum.  (The async variant and
   the default stability are refuted below.) *)
Theorem maxsum_tree_exact : forall P G, wf_dcop G -> (p_stab P == 0)%Q -> (p_damp P == 0)%Q ->
  forall a H sched, unique_optimum (p_max P) G a -> forest_ok_b G H = true ->
  (forall x vd, In (x, vd) (d_vars G) -> nbrs G x = [] -> v_init vd = None) ->
  let cf := fst (run (maxsum_proto P G) sched) in
  rounds_done P G cf (S H) = true -> selected_sync G cf = map Some a.
Proof. exact maxsum_tree_exact_l. Qed.

(* ==== deepening 2: ASYNCHRONOUS A-Max-Sum, every schedule ===================================================
   Vocabulary (P_AMaxSum2.v): [stream cf a b] = everything queued from a for b (buffered by b before its start, then
   the channel); [pend cf a b] = the table b will hold for a once that queue is drained (last queued message, else
   b's costs entry); [sendok G cf a] = a may speak (a variable; or a factor holding a table of every variable of its
   scope -- amaxsum factors wait for all their variables); [comp_table P G a c b] = the table a builds for b from
   the costs dict c (costs_for_factor / factor_costs_for_var); [spoken_ok P] = start_messages is leafs_vars or all
   (every variable speaks on every edge at start-up -- exactly what the base case of the tree induction needs; the
   default start_messages = leafs is refuted below). *)
Theorem amaxsum_spoken_ok_all : forall P, p_start P = 2%nat -> spoken_ok P.
Proof. intros P H. right. exact H. Qed.

(* basic invariants of every reachable configuration (no hypothesis on the parameters) *)
Theorem amaxsum_basic_invariants : forall P G, wf_dcop G ->
  forall cf, reachable (amaxsum_proto P G) cf ->
    (forall n, w_running (nodes cf n) = false -> w_st (nodes cf n) = nst0) /\
    (forall n, w_running (nodes cf n) = true -> w_held (nodes cf n) = []) /\
    (forall s d, stream cf s d <> [] -> In d (nbrs G s)) /\
    (forall n, NoDup (map fst (n_costs (w_st (nodes cf n)))) /\ incl (map fst (n_costs (w_st (nodes cf n)))) (nbrs G n)) /\
    (forall x vd, zlookup x (d_vars G) = Some vd -> w_running (nodes cf x) = true ->
        current_value (w_st (nodes cf x)) = Some (fst (select_value (p_max P) vd (n_costs (w_st (nodes cf x))))) \/
        (n_costs (w_st (nodes cf x)) = [] /\ v_init vd <> None)).
Proof. exact inv0_reachable. Qed.

(* EDGE CONSISTENCY, every reachable configuration, stability 0 / damping 0 / spoken_ok: for every edge a->b
   (1) an entry of a's _prev_messages for b is the table b will end up holding (and is a table a computed), so the
       approx_match/SAME_COUNT block only ever withholds a message b is already going to hold;
   (2) if a runs and may speak, the table b will end up holding is the one a computes from the costs it holds now *)
Theorem amaxsum_edge_consistent : forall P G, wf_dcop G -> (p_stab P == 0)%Q -> (p_damp P == 0)%Q -> spoken_ok P ->
  forall cf, reachable (amaxsum_proto P G) cf ->
  forall a b, In b (nbrs G a) ->
    (forall p c, zlookup b (n_prev (w_st (nodes cf a))) = Some (p, c) ->
        pend cf a b = Some p /\ exists c', p = comp_table P G a c' b) /\
    (w_running (nodes cf a) = true -> sendok G cf a ->
        pend cf a b = Some (comp_table P G a (n_costs (w_st (nodes cf a))) b)).
Proof. exact inv1_reachable. Qed.

(* at quiescence every factor is complete and nothing is queued: the costs dicts solve the message equations *)
Theorem amaxsum_quiescent_fixed_point : forall P G, wf_dcop G -> (p_stab P == 0)%Q -> (p_damp P == 0)%Q -> spoken_ok P ->
  forall cf, reachable (amaxsum_proto P G) cf -> quiescent G cf = true ->
  forall a b, In b (nbrs G a) ->
    zlookup a (n_costs (w_st (nodes cf b))) = Some (comp_table P G a (n_costs (w_st (nodes cf a))) b).
Proof. exact quiescent_fixed_point. Qed.

(* on a forest EVERY solution C of the message equations is exact: the table on a->b is, entry by entry, the optimum
   of the cost of the subtree behind a->b ([SC]) over all valid assignments, up to the constant [KF] (the
   normalisation averages met in the subtree); min and max, any arity and domain sizes *)
Theorem amaxsum_fixed_point_exact : forall P G, wf_dcop G ->
  forall C : node -> list (node * table),
  (forall a b, In b (nbrs G a) -> zlookup a (C b) = Some (comp_table P G a (C a) b)) ->
  (forall x vd, In (x, vd) (d_vars G) -> (0 < v_dom vd)%nat) ->
  forall h a b, In b (nbrs G a) -> low G h a b = true -> NoDup (SN G h a b) -> ~ In b (SN G h a b) ->
    List.length (comp_table P G a (C a) b) = dom_of G (xv G a b) /\
    is_margf P G (xv G a b) (dom_of G (xv G a b))
             (fun d => tget (comp_table P G a (C a) b) d + KF G C h a b)%Q (SC G h a b).
Proof. exact fp_tree_messages. Qed.

(* ---- THE PROPERTY, asynchronous A-Max-Sum, every schedule, min and max: on a forest with a unique optimum,
   stability 0, damping 0 and start_messages leafs_vars or all, once the network is quiescent the selected
   assignment is the optimum.  (Quiescence is the hypothesis: safety, not termination.) *)
Theorem amaxsum_tree_exact : forall P G, wf_dcop G -> (p_stab P == 0)%Q -> (p_damp P == 0)%Q -> spoken_ok P ->
  forall a H sched, unique_optimum (p_max P) G a -> forest_ok_b G H = true ->
  (forall x vd, In (x, vd) (d_vars G) -> nbrs G x = [] -> v_init vd = None) ->
  let cf := fst (run (amaxsum_proto P G) sched) in
  quiescent G cf = true -> selected_async G cf = map Some a.
Proof. exact amaxsum_tree_exact_l. Qed.

(* refutations of the full statements on the code as it is (known findings) *)
Theorem amaxsum_tree_exact_refuted :
  exists G a sched,
    let P := par 0 0 in     (* min, stability 0, damping 0, start_messages = leafs (the default) *)
    forest_b G = true /\ unique_optimum (p_max P) G a /\
    let cf := fst (run (amaxsum_proto P G) sched) in
    quiescent G cf = true /\ selected_async G cf <> map Some a.
Proof. exact amaxsum_default_start_deadlock. Qed.

Theorem maxsum_tree_exact_default_stability_refuted :
  exists G a sched,
    let P := par (1 # 10) 0 in     (* stability 0.1 (the default), damping 0, start_messages = leafs *)
    forest_b G = true /\ unique_optimum (p_max P) G a /\
    let cf := fst (run (maxsum_proto P G) sched) in
    rounds_done P G cf (List.length (all_nodes G) + 3) = true /\ selected_sync G cf <> map Some a.
Proof. exact maxsum_default_stability_freezes. Qed.

Theorem isolated_variable_initial_value_refuted :
  exists G a sched,
    let P := par 0 2 in
    forest_b G = true /\ unique_optimum (p_max P) G a /\
    let cf := fst (run (amaxsum_proto P G) sched) in
    quiescent G cf = true /\ selected_async G cf <> map Some a.
Proof. exact isolated_variable_keeps_initial_value. Qed.

(* stability 0 is essential for amaxsum_tree_exact too: default stability 0.1, start_messages = all, 5-variable chain,
   every other hypothesis of the theorem holds, the run is quiescent and the selection is not the optimum *)
Theorem amaxsum_tree_exact_default_stability_refuted :
  exists G a H sched,
    let P := par (1 # 10) 2 in
    wf_dcop G /\ (p_damp P == 0)%Q /\ spoken_ok P /\ unique_optimum (p_max P) G a /\ forest_ok_b G H = true /\
    (forall x vd, In (x, vd) (d_vars G) -> nbrs G x = [] -> v_init vd = None) /\
    let cf := fst (run (amaxsum_proto P G) sched) in
    quiescent G cf = true /\ selected_async G cf <> map Some a.
Proof. exact amaxsum_default_stability_freezes. Qed.

(* non-vacuity: concrete runs that meet the hypotheses of the full statements and reach the optimum *)
Example maxsum_chain4_exact :
  let P := par 0 0 in
  let cf := fst (run (maxsum_proto P W_chain4) (lockstep (all_nodes W_chain4) 14)) in
  forest_b W_chain4 = true /\ unique_optimum false W_chain4 [1; 1; 0; 1]%nat /\
  rounds_done P W_chain4 cf 10 = true /\ selected_sync W_chain4 cf = map Some [1; 1; 0; 1]%nat.
Proof. exact maxsum_chain4_exact_stability0. Qed.

Example amaxsum_chain3_exact :
  let P := par 0 2 in
  let cf := fst (run (amaxsum_proto P W_chain3) (lockstep (all_nodes W_chain3) 12)) in
  unique_optimum false W_chain3 [1; 1; 0]%nat /\
  quiescent W_chain3 cf = true /\ selected_async W_chain3 cf = map Some [1; 1; 0]%nat.
Proof. exact amaxsum_chain3_exact_start_all. Qed.

(* the hypotheses of maxsum_tree_exact hold on the 4-variable chain (height 6 seen from the end variables) *)
Example maxsum_tree_exact_hypotheses :
  wf_dcop_b W_chain4 = true /\ forest_ok_b W_chain4 6 = true /\ forest_ok_b W_chain4 5 = false /\
  (p_stab (par 0 0) == 0)%Q /\ (p_damp (par 0 0) == 0)%Q /\
  rounds_done (par 0 0) W_chain4 (fst (run (maxsum_proto (par 0 0) W_chain4) (lockstep (all_nodes W_chain4) 14))) 7 = true.
Proof. vm_compute. repeat split; reflexivity. Qed.

(* the hypotheses of amaxsum_tree_exact hold on the 3-variable chain, for start_messages = all and = leafs_vars *)
Example amaxsum_tree_exact_hypotheses :
  wf_dcop_b W_chain3 = true /\ forest_ok_b W_chain3 4 = true /\ forest_ok_b W_chain3 3 = false /\
  spoken_ok (par 0 2) /\ spoken_ok (par 0 1) /\
  quiescent W_chain3 (fst (run (amaxsum_proto (par 0 2) W_chain3) (lockstep (all_nodes W_chain3) 12))) = true /\
  quiescent W_chain3 (fst (run (amaxsum_proto (par 0 1) W_chain3) (lockstep (all_nodes W_chain3) 12))) = true /\
  selected_async W_chain3 (fst (run (amaxsum_proto (par 0 1) W_chain3) (lockstep (all_nodes W_chain3) 12)))
    = map Some [1; 1; 0]%nat.
Proof.
  split; [vm_compute; reflexivity|]. split; [vm_compute; reflexivity|]. split; [vm_compute; reflexivity|].
  split; [right; reflexivity|]. split; [left; reflexivity|].
  split; [vm_compute; reflexivity|]. split; vm_compute; reflexivity.
Qed.
