(* P_Dpop2Tree.v -- the pseudo-tree validity hypothesis of the all-schedules theorem of C01 and
   what follows from it about subtrees (desc), ancestors (Anc) and the canonical subtree optimum
   (OPT).  Nothing here is about runs; see P_Dpop2.v. *)
From PyDcop Require Import Base Net M_Dpop P_Dpop.
From Coq Require Import ZifyBool Permutation.
Local Open Scope list_scope.

(* a is a proper ancestor of b in the tree given with the dcop *)
Inductive Anc (P : dcop) : Z -> Z -> Prop :=
| anc_parent a b : parent P b = Some a -> Anc P a b
| anc_up a b c : parent P c = Some b -> Anc P a b -> Anc P a c.

(* What the theorem assumes about the tree input (dep = depth, B = a bound on it):
   a forest over the listed nodes with converse parent/children links, positive domains,
   - dv_sv  : the variables a node's own costs mention (itself + the dimensions of the constraints
              it keeps after the ownership filter) are the node or proper ancestors of it;
   - dv_link: every non-root node c is tied to its parent p by some cost kept in subtree(c)
              (in a DFS pseudo-tree the edge c-p is an edge of the constraint graph; the lowest
              node of that constraint's scope lies in subtree(c) and keeps it). *)
Record dvalid (P : dcop) (dep : Z -> nat) (B : nat) : Prop := {
  dv_nodup : NoDup (tree_ids P);
  dv_dom : forall x, In x (tree_ids P) -> (0 < dsize P x)%nat;
  dv_par : forall c p, parent P c = Some p -> In c (tree_ids P) /\ In p (tree_ids P);
  dv_pc : forall x c, In c (children P x) <-> parent P c = Some x;
  dv_chnd : forall x, NoDup (children P x);
  dv_depB : forall x, In x (tree_ids P) -> (dep x <= B)%nat;
  dv_dep : forall c p, parent P c = Some p -> dep c = S (dep p);
  dv_sv : forall x d, In x (tree_ids P) -> In d (sv P [x]) -> d = x \/ Anc P d x;
  dv_link : forall c p, parent P c = Some p -> exists y, (y = c \/ Anc P c y) /\ In p (sv P [y])
}.
Definition dpop_valid (P : dcop) : Prop := exists dep B, dvalid P dep B.

(* ---------- small list facts ---------- *)
Lemma flat_map_ext_in {A B} (f g : A -> list B) l :
  (forall x, In x l -> f x = g x) -> flat_map f l = flat_map g l.
Proof.
  induction l as [|x r IH]; intros H; simpl; auto.
  rewrite (H x) by (left; auto). rewrite IH; auto. intros y Hy. apply H. right; auto.
Qed.

Definition pick (m : dmode) (a b : Z) : Z := match m with Min => Z.min a b | Max => Z.max a b end.
Definition lbest (m : dmode) (l : list Z) : Z :=
  match l with [] => 0 | x :: r => fold_left (pick m) r x end.

Lemma fold_pick_best m : forall r x, is_best m (x :: r) (fold_left (pick m) r x).
Proof.
  induction r as [|c r IH]; intros x; simpl.
  - split; [left; auto|]. intros y [<-|[]]. apply mle_refl.
  - destruct (IH (pick m x c)) as [H1 H2]. split.
    + destruct H1 as [H1|H1]; [|right; right; exact H1].
      rewrite <- H1. unfold pick.
      destruct m; [destruct (Z.min_spec x c) as [[_ E]|[_ E]]|destruct (Z.max_spec x c) as [[_ E]|[_ E]]];
        rewrite E; simpl; auto.
    + intros y Hy.
      assert (Hp : mle m (fold_left (pick m) r (pick m x c)) (pick m x c)) by (apply H2; left; auto).
      destruct Hy as [<-|[<-|Hy]].
      * eapply mle_trans; [exact Hp|]. unfold pick. destruct m; simpl; lia.
      * eapply mle_trans; [exact Hp|]. unfold pick. destruct m; simpl; lia.
      * apply H2. right; exact Hy.
Qed.

Lemma lbest_is_best m l : l <> [] -> is_best m l (lbest m l).
Proof. destruct l as [|x r]; [congruence|]. intros _. apply fold_pick_best. Qed.

Section Tree.
  Variable P : dcop.
  Variable dep : Z -> nat.
  Variable B : nat.
  Hypothesis V : dvalid P dep B.
  Let D := dsize P.
  Let m := dc_mode P.
  Notation N := (tree_ids P).

  Definition hgt (x : Z) : nat := (B - dep x)%nat.

  Lemma par_in c p : parent P c = Some p -> In c N /\ In p N.
  Proof. apply (dv_par _ _ _ V). Qed.
  Lemma child_par x c : In c (children P x) -> parent P c = Some x.
  Proof. apply (dv_pc _ _ _ V). Qed.
  Lemma par_child x c : parent P c = Some x -> In c (children P x).
  Proof. apply (dv_pc _ _ _ V). Qed.
  Lemma child_in x c : In c (children P x) -> In c N /\ In x N.
  Proof. intros H. apply par_in. apply child_par. exact H. Qed.
  Lemma child_hgt x c : In c (children P x) -> (hgt c < hgt x)%nat.
  Proof.
    intros H. pose proof (child_in _ _ H) as [Hc Hx]. apply child_par in H.
    pose proof (dv_dep _ _ _ V _ _ H). pose proof (dv_depB _ _ _ V _ Hc). unfold hgt. lia.
  Qed.

  (* ---- ancestors *)
  Lemma anc_dep a b : Anc P a b -> (dep a < dep b)%nat.
  Proof.
    induction 1 as [a b H|a b c H _ IH].
    - rewrite (dv_dep _ _ _ V _ _ H). lia.
    - rewrite (dv_dep _ _ _ V _ _ H). lia.
  Qed.
  Lemma anc_irrefl a : ~ Anc P a a.
  Proof. intros H. apply anc_dep in H. lia. Qed.
  Lemma anc_in a b : Anc P a b -> In a N /\ In b N.
  Proof.
    induction 1 as [a b H|a b c H _ IH].
    - apply par_in in H. tauto.
    - apply par_in in H. tauto.
  Qed.
  Lemma anc_trans a b c : Anc P a b -> Anc P b c -> Anc P a c.
  Proof.
    intros Hab Hbc. induction Hbc as [b c H|b c' c H _ IH].
    - eapply anc_up; eauto.
    - eapply anc_up; eauto.
  Qed.
  Lemma anc_asym a b : Anc P a b -> ~ Anc P b a.
  Proof. intros H1 H2. apply (anc_irrefl a). eapply anc_trans; eauto. Qed.
  Lemma anc_inv a c : Anc P a c -> exists b, parent P c = Some b /\ (a = b \/ Anc P a b).
  Proof. inversion 1; subst; eauto. Qed.
  Lemma anc_root a x : parent P x = None -> ~ Anc P a x.
  Proof. intros H Ha. apply anc_inv in Ha. destruct Ha as (b & Hb & _). congruence. Qed.

  (* the ancestors of a node form a chain *)
  Lemma anc_chain a y : Anc P a y -> forall b, Anc P b y -> a = b \/ Anc P a b \/ Anc P b a.
  Proof.
    induction 1 as [a y H|a a' y H Ha IH]; intros b Hb; apply anc_inv in Hb; destruct Hb as (b' & Hb' & Hb).
    - rewrite H in Hb'. inversion Hb'; subst b'. destruct Hb as [->|Hb]; auto.
    - rewrite H in Hb'. inversion Hb'; subst b'. destruct Hb as [->|Hb]; auto.
  Qed.

  Lemma anc_same_dep a b y : (a = y \/ Anc P a y) -> (b = y \/ Anc P b y) -> dep a = dep b -> a = b.
  Proof.
    intros [->|Ha] [->|Hb] E; auto.
    - apply anc_dep in Hb. lia.
    - apply anc_dep in Ha. lia.
    - destruct (anc_chain _ _ Ha _ Hb) as [?|[H|H]]; auto; apply anc_dep in H; lia.
  Qed.

  (* ---- induction principles: children first / parents first *)
  Lemma hgt_ind (Q : Z -> Prop) :
    (forall x, In x N -> (forall c, In c (children P x) -> Q c) -> Q x) -> forall x, In x N -> Q x.
  Proof.
    intros Hstep.
    assert (H : forall n x, In x N -> (hgt x < n)%nat -> Q x).
    { induction n as [|n IH]; intros x Hx Hlt; [lia|].
      apply Hstep; auto. intros c Hc. apply IH; [apply (child_in _ _ Hc)|].
      pose proof (child_hgt _ _ Hc). lia. }
    intros x Hx. apply (H (S (hgt x))); auto.
  Qed.

  Lemma dep_ind (Q : Z -> Prop) :
    (forall x, In x N -> (forall p, parent P x = Some p -> Q p) -> Q x) -> forall x, In x N -> Q x.
  Proof.
    intros Hstep.
    assert (H : forall n x, In x N -> (dep x < n)%nat -> Q x).
    { induction n as [|n IH]; intros x Hx Hlt; [lia|].
      apply Hstep; auto. intros p Hp. apply IH; [apply (par_in _ _ Hp)|].
      pose proof (dv_dep _ _ _ V _ _ Hp). lia. }
    intros x Hx. apply (H (S (dep x))); auto.
  Qed.

  (* ---- subtrees *)
  Fixpoint descf (f : nat) (x : Z) : list Z :=
    x :: match f with O => [] | S k => flat_map (descf k) (children P x) end.
  Definition desc (x : Z) : list Z := descf (hgt x) x.

  Lemma descf_step : forall f x, In x N -> (hgt x <= f)%nat -> descf f x = descf (S f) x.
  Proof.
    induction f as [|k IH]; intros x Hx Hh.
    - simpl. destruct (children P x) as [|c r] eqn:E; [reflexivity|].
      assert (Hc : In c (children P x)) by (rewrite E; left; auto).
      apply child_hgt in Hc. lia.
    - change (descf (S k) x) with (x :: flat_map (descf k) (children P x)).
      change (descf (S (S k)) x) with (x :: flat_map (descf (S k)) (children P x)).
      f_equal. apply flat_map_ext_in. intros c Hc. apply IH; [apply (child_in _ _ Hc)|].
      apply child_hgt in Hc. lia.
  Qed.

  Lemma descf_stable : forall k x, In x N -> descf (hgt x + k) x = descf (hgt x) x.
  Proof.
    induction k as [|k IH]; intros x Hx.
    - rewrite Nat.add_0_r. reflexivity.
    - rewrite Nat.add_succ_r. rewrite <- descf_step by (auto; lia). apply IH. exact Hx.
  Qed.

  Lemma desc_unfold x : In x N -> desc x = x :: flat_map desc (children P x).
  Proof.
    intros Hx. unfold desc at 1. destruct (hgt x) as [|k] eqn:E.
    - simpl. destruct (children P x) as [|c r] eqn:Ec; [reflexivity|].
      assert (Hc : In c (children P x)) by (rewrite Ec; left; auto).
      apply child_hgt in Hc. lia.
    - simpl. f_equal. apply flat_map_ext_in. intros c Hc. unfold desc.
      pose proof (child_hgt _ _ Hc) as Hlt.
      replace k with (hgt c + (k - hgt c))%nat by lia. apply descf_stable. apply (child_in _ _ Hc).
  Qed.

  Lemma desc_self x : In x (desc x).
  Proof. unfold desc. destruct (hgt x); simpl; auto. Qed.

  Lemma desc_anc : forall x, In x N -> forall y, In y (desc x) -> y = x \/ Anc P x y.
  Proof.
    apply (hgt_ind (fun x => forall y, In y (desc x) -> y = x \/ Anc P x y)).
    intros x Hx IH y Hy. rewrite desc_unfold in Hy by exact Hx. destruct Hy as [<-|Hy]; [left; auto|].
    right. apply in_flat_map in Hy. destruct Hy as (c & Hc & Hy).
    pose proof (child_par _ _ Hc) as Hp.
    destruct (IH c Hc y Hy) as [->|Ha].
    - apply anc_parent. exact Hp.
    - eapply anc_trans; [apply anc_parent; exact Hp|exact Ha].
  Qed.

  Lemma desc_child_closed : forall a, In a N -> forall b c, In b (desc a) -> In c (children P b) -> In c (desc a).
  Proof.
    apply (hgt_ind (fun a => forall b c, In b (desc a) -> In c (children P b) -> In c (desc a))).
    intros a Ha IH b c Hb Hc. rewrite desc_unfold in * by exact Ha. right. apply in_flat_map.
    destruct Hb as [<-|Hb].
    - exists c. split; auto. apply desc_self.
    - apply in_flat_map in Hb. destruct Hb as (a' & Ha' & Hb). exists a'. split; auto. eapply IH; eauto.
  Qed.

  Lemma anc_desc a y : Anc P a y -> In y (desc a).
  Proof.
    induction 1 as [a b H|a b c H Hab IH].
    - pose proof (par_in _ _ H) as [_ Ha]. apply (desc_child_closed a Ha a b (desc_self a)). apply par_child. exact H.
    - pose proof (anc_in _ _ Hab) as [Ha _]. apply (desc_child_closed a Ha b c IH). apply par_child. exact H.
  Qed.

  Lemma desc_iff x y : In x N -> (In y (desc x) <-> y = x \/ Anc P x y).
  Proof.
    intros Hx. split; [apply desc_anc; auto|]. intros [->|H]; [apply desc_self|apply anc_desc; auto].
  Qed.

  Lemma desc_in x y : In x N -> In y (desc x) -> In y N.
  Proof. intros Hx Hy. apply desc_anc in Hy; auto. destruct Hy as [->|Hy]; auto. apply (anc_in _ _ Hy). Qed.

  Lemma desc_dom x y : In x N -> In y (desc x) -> (0 < D y)%nat.
  Proof. intros Hx Hy. apply (dv_dom _ _ _ V). eapply desc_in; eauto. Qed.

  (* ---- the variables mentioned by the costs of a set of nodes *)
  Lemma in_sv L d : In d (sv P L) <-> exists y, In y L /\ In d (sv P [y]).
  Proof.
    unfold sv. rewrite in_flat_map. split; intros (y & Hy & Hd); exists y; split; auto.
    - simpl. rewrite app_nil_r. exact Hd.
    - simpl in Hd. rewrite app_nil_r in Hd. exact Hd.
  Qed.

  Lemma sv_self x : In x (sv P [x]).
  Proof. simpl. left. reflexivity. Qed.

  Lemma sv_owned x k d : In k (owned P x) -> In d (r_dims (con P k)) -> In d (sv P [x]).
  Proof. intros Hk Hd. simpl. right. rewrite app_nil_r. apply in_flat_map. exists k. auto. Qed.

  Lemma sv_cases x d : In d (sv P [x]) -> d = x \/ exists k, In k (owned P x) /\ In d (r_dims (con P k)).
  Proof.
    simpl. rewrite app_nil_r. intros [H|H]; [left; auto|right]. apply in_flat_map in H. exact H.
  Qed.

  Lemma sv_in x d : In x N -> In d (sv P [x]) -> In d N.
  Proof. intros Hx Hd. destruct (dv_sv _ _ _ V x d Hx Hd) as [->|H]; auto. apply (anc_in _ _ H). Qed.

  (* hypotheses of the flat step theorems *)
  Lemma tree_own x : In x N -> forall d, In d (sv P [x]) -> ~ In d (flat_map desc (children P x)).
  Proof.
    intros Hx d Hd Hin. apply in_flat_map in Hin. destruct Hin as (c & Hc & Hin).
    pose proof (child_par _ _ Hc) as Hp. pose proof (child_in _ _ Hc) as [HcN _].
    assert (Hxd : Anc P x d).
    { apply desc_anc in Hin; auto. destruct Hin as [->|Hin]; [apply anc_parent; auto|].
      eapply anc_trans; [apply anc_parent; eauto|exact Hin]. }
    destruct (dv_sv _ _ _ V x d Hx Hd) as [->|H].
    - exact (anc_irrefl _ Hxd).
    - exact (anc_asym _ _ Hxd H).
  Qed.

  Lemma tree_dis x : forall c c', In c (children P x) -> In c' (children P x) -> c <> c' ->
    forall d, In d (sv P (desc c)) -> ~ In d (desc c').
  Proof.
    intros c c' Hc Hc' Hne d Hd Hin.
    pose proof (child_in _ _ Hc) as [HcN _]. pose proof (child_in _ _ Hc') as [HcN' _].
    apply in_sv in Hd. destruct Hd as (y & Hy & Hd).
    pose proof (desc_in _ _ HcN Hy) as HyN.
    apply desc_anc in Hy; auto. apply desc_anc in Hin; auto.
    (* c' is an ancestor-or-self of d, d of y, c of y *)
    assert (Hdy : d = y \/ Anc P d y) by (apply (dv_sv _ _ _ V); auto).
    assert (Hc'y : c' = y \/ Anc P c' y).
    { destruct Hin as [->|Hin]; [exact Hdy|]. destruct Hdy as [->|Hdy]; [right; auto|].
      right. eapply anc_trans; eauto. }
    assert (Hcy : c = y \/ Anc P c y) by (destruct Hy as [->|Hy]; auto).
    apply Hne. apply (anc_same_dep c c' y Hcy Hc'y).
    rewrite (dv_dep _ _ _ V _ _ (child_par _ _ Hc)), (dv_dep _ _ _ V _ _ (child_par _ _ Hc')). reflexivity.
  Qed.

  (* ---- the subtrees of the roots partition the nodes *)
  Lemma NoDup_app_disj_intro (l1 l2 : list Z) :
    NoDup l1 -> NoDup l2 -> (forall z, In z l1 -> ~ In z l2) -> NoDup (l1 ++ l2).
  Proof.
    induction l1 as [|a r IH]; intros H1 H2 Hd; simpl; auto. inversion H1; subst. constructor.
    - rewrite in_app_iff. intros [H|H]; [contradiction|]. apply (Hd a); auto. left; auto.
    - apply IH; auto. intros z Hz. apply Hd. right; auto.
  Qed.

  Lemma NoDup_flat_map_disj {A} (f : A -> list Z) l :
    NoDup l -> (forall x, In x l -> NoDup (f x)) ->
    (forall x y z, In x l -> In y l -> x <> y -> In z (f x) -> ~ In z (f y)) ->
    NoDup (flat_map f l).
  Proof.
    induction l as [|a r IH]; intros Hnd Hf Hd; simpl; [constructor|]. inversion Hnd; subst.
    apply NoDup_app_disj_intro.
    - apply Hf. left; auto.
    - apply IH; auto.
      + intros x Hx. apply Hf. right; auto.
      + intros x y z Hx Hy. apply Hd; right; auto.
    - intros z Hz Hin. apply in_flat_map in Hin. destruct Hin as (y & Hy & Hzy).
      apply (Hd a y z); auto; [left; auto|right; auto|]. intros ->. contradiction.
  Qed.

  Lemma desc_nodup : forall x, In x N -> NoDup (desc x).
  Proof.
    apply (hgt_ind (fun x => NoDup (desc x))). intros x Hx IH. rewrite desc_unfold by exact Hx. constructor.
    - intros Hin. apply in_flat_map in Hin. destruct Hin as (c & Hc & Hin).
      pose proof (child_in _ _ Hc) as [HcN _]. apply desc_anc in Hin; auto.
      apply (anc_irrefl x). destruct Hin as [->|Hin]; [apply anc_parent; apply child_par; auto|].
      eapply anc_trans; [apply anc_parent; apply child_par; eauto|exact Hin].
    - apply NoDup_flat_map_disj; auto.
      + apply (dv_chnd _ _ _ V).
      + intros c c' z Hc Hc' Hne Hz Hz'.
        pose proof (child_in _ _ Hc) as [HcN _]. pose proof (child_in _ _ Hc') as [HcN' _].
        apply desc_anc in Hz; auto. apply desc_anc in Hz'; auto. apply Hne.
        apply (anc_same_dep c c' z).
        * destruct Hz as [->|Hz]; auto.
        * destruct Hz' as [->|Hz']; auto.
        * rewrite (dv_dep _ _ _ V _ _ (child_par _ _ Hc)), (dv_dep _ _ _ V _ _ (child_par _ _ Hc')). reflexivity.
  Qed.

  Definition roots : list Z := filter (is_root P) N.

  Lemma root_spec r : In r roots <-> In r N /\ parent P r = None.
  Proof.
    unfold roots. rewrite filter_In. unfold is_root. destruct (parent P r); split; intros [H1 H2]; split; auto; discriminate.
  Qed.

  Lemma has_root : forall x, In x N -> exists r, In r roots /\ In x (desc r).
  Proof.
    apply (dep_ind (fun x => exists r, In r roots /\ In x (desc r))). intros x Hx IH.
    destruct (parent P x) as [p|] eqn:E.
    - destruct (IH p eq_refl) as (r & Hr & Hp). exists r. split; auto.
      apply root_spec in Hr. destruct Hr as [HrN _].
      apply (desc_child_closed r HrN p x Hp). apply par_child. exact E.
    - exists x. split; [apply root_spec; auto|apply desc_self].
  Qed.

  Lemma roots_partition : Permutation N (flat_map desc roots).
  Proof.
    apply NoDup_Permutation.
    - apply (dv_nodup _ _ _ V).
    - apply NoDup_flat_map_disj.
      + apply NoDup_filter. apply (dv_nodup _ _ _ V).
      + intros r Hr. apply desc_nodup. apply root_spec in Hr. tauto.
      + intros r r' z Hr Hr' Hne Hz Hz'. apply root_spec in Hr, Hr'. destruct Hr as [HrN Hrp]. destruct Hr' as [HrN' Hrp'].
        apply desc_anc in Hz; auto. apply desc_anc in Hz'; auto. apply Hne.
        destruct Hz as [->|Hz]; destruct Hz' as [->|Hz']; auto.
        * exfalso. exact (anc_root _ _ Hrp Hz').
        * exfalso. exact (anc_root _ _ Hrp' Hz).
        * destruct (anc_chain _ _ Hz _ Hz') as [?|[H|H]]; auto; exfalso;
            [exact (anc_root _ _ Hrp' H)|exact (anc_root _ _ Hrp H)].
    - intros x. split.
      + intros Hx. destruct (has_root x Hx) as (r & Hr & Hd). apply in_flat_map. exists r. auto.
      + intros Hx. apply in_flat_map in Hx. destruct Hx as (r & Hr & Hd). apply root_spec in Hr.
        eapply desc_in; [|exact Hd]. tauto.
  Qed.

  (* the costs of a root's subtree only mention variables of that subtree *)
  Lemma root_sv r d : In r roots -> In d (sv P (desc r)) -> In d (desc r).
  Proof.
    intros Hr Hd. apply root_spec in Hr. destruct Hr as [HrN Hrp].
    apply in_sv in Hd. destruct Hd as (y & Hy & Hd). pose proof (desc_in _ _ HrN Hy) as HyN.
    apply desc_anc in Hy; auto. apply desc_iff; auto.
    destruct (dv_sv _ _ _ V y d HyN Hd) as [->|Hdy]; [exact Hy|].
    destruct Hy as [->|Hy]; [exfalso; exact (anc_root _ _ Hrp Hdy)|].
    destruct (anc_chain _ _ Hdy _ Hy) as [->|[H|H]]; auto. exfalso. exact (anc_root _ _ Hrp H).
  Qed.

  (* ---- the canonical optimum over a subtree *)
  Lemma ext_nonempty L : (forall y, In y L -> (0 < D y)%nat) -> forall a, ext P L a <> [].
  Proof.
    induction L as [|y r IH]; intros H a; simpl; [discriminate|].
    fold D. destruct (D y) as [|n] eqn:E.
    - specialize (H y (or_introl eq_refl)). lia.
    - simpl. intros Hn. apply app_eq_nil in Hn. destruct Hn as [Hn _]. revert Hn. apply IH.
      intros z Hz. apply H. right; auto.
  Qed.

  Definition OPT (x : Z) (a : asg) : Z := lbest m (map (cost_in P (desc x)) (ext P (desc x) a)).

  Lemma OPT_best x a : In x N -> is_best m (map (cost_in P (desc x)) (ext P (desc x) a)) (OPT x a).
  Proof.
    intros Hx. apply lbest_is_best. intros H. apply map_eq_nil in H. revert H. apply ext_nonempty.
    intros y Hy. eapply desc_dom; eauto.
  Qed.

  (* OPT x only looks at the variables the costs of subtree(x) mention, outside subtree(x) *)
  Lemma OPT_agree x a b : (forall d, In d (sv P (desc x)) -> aval a d = aval b d) -> OPT x a = OPT x b.
  Proof.
    intros H. unfold OPT. f_equal.
    apply (ext_agree P (sv P (desc x)) (cost_in P (desc x)) (desc x) (cost_in_dep P (desc x))). exact H.
  Qed.
End Tree.
