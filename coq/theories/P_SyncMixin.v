(* P_SyncMixin.v -- proofs about the synchronous mixin model (C08).
   Part 1: what one start / one cycle switch sends (exactly one stamped message per neighbour).
   Part 2: the barrier invariant over all reachable configurations of the network.
   Part 3: the theorems of Prop_C08. *)
From PyDcop Require Import Base Net M_SyncMixin.
From Coq Require Import Permutation.

Local Notation length := List.length.
Local Open Scope nat_scope.

Lemma NoDup_app_intro {T} (l1 l2 : list T) :
  NoDup l1 -> NoDup l2 -> (forall y, In y l1 -> In y l2 -> False) -> NoDup (l1 ++ l2).
Proof.
  induction l1 as [|x r IH]; simpl; intros H1 H2 H; auto.
  inversion H1; subst. constructor.
  - intros Hc. apply in_app_or in Hc as [Hc|Hc]; auto. eapply H; eauto.
  - apply IH; auto. intros y Hy1 Hy2. eapply H; eauto.
Qed.

Lemma NoDup_app_l {T} (l1 l2 : list T) : NoDup (l1 ++ l2) -> NoDup l1.
Proof.
  induction l1 as [|x r IH]; simpl; intros H; [constructor|].
  inversion H; subst. constructor; auto. intros Hc. apply H2. apply in_or_app; auto.
Qed.
Lemma NoDup_app_r {T} (l1 l2 : list T) : NoDup (l1 ++ l2) -> NoDup l2.
Proof. induction l1 as [|x r IH]; simpl; intros H; auto. inversion H; auto. Qed.
Lemma NoDup_app_disj {T} (l1 l2 : list T) y : NoDup (l1 ++ l2) -> In y l1 -> In y l2 -> False.
Proof.
  induction l1 as [|x r IH]; simpl; intros H H1 H2; auto.
  inversion H; subst. destruct H1 as [->|H1]; auto. apply H4. apply in_or_app; auto.
Qed.

Section Proofs.
  Context {A P : Type}.
  Variable nbrs : node -> list node.
  Variable G : algo A P.

  Notation sst := (sst A P).
  Notation wmsg := (wmsg P).

  Definition targets_ok (n : node) (l : list (node * P)) : Prop :=
    NoDup (map fst l) /\ incl (map fst l) (nbrs n).

  (* messages / log entries produced by posting the list L at stamp k *)
  Definition wl (k : nat) (L : list (node * option P)) : list (node * wmsg) :=
    map (fun tb => (fst tb, mkW k (snd tb))) L.
  Definition ol (k : nat) (L : list (node * option P)) : list (nat * node * option P) :=
    map (fun tb => (k, fst tb, snd tb)) L.

  Lemma nmem_In x l : nmem x l = true <-> In x l.
  Proof.
    unfold nmem. rewrite existsb_exists. split.
    - intros [y [H E]]. apply Z.eqb_eq in E. now subst.
    - intros H. exists x. split; auto. apply Z.eqb_refl.
  Qed.

  Lemma nmem_false x l : nmem x l = false <-> ~ In x l.
  Proof. rewrite <- nmem_In. destruct (nmem x l); split; congruence. Qed.

  Lemma post_list_spec l : forall (s s' : sst) ms,
    post_list s l = (s', ms) ->
    let L := map (fun tp => (fst tp, Some (snd tp))) l in
    s' = mkS (cur s) (cyc s) (nxt s) (sent s ++ map fst l) (ast s) (outlog s ++ ol (cur s) L)
    /\ ms = wl (cur s) L.
  Proof.
    induction l as [|[t p] r IH]; simpl; intros s s' ms H.
    - inversion H; subst. rewrite !app_nil_r. destruct s'; auto.
    - destruct (post_list _ r) as [s2 ms2] eqn:E. inversion H; subst; clear H.
      apply IH in E as [E1 E2]. simpl in *. subst. split; auto.
      rewrite <- !app_assoc. reflexivity.
  Qed.

  Lemma post_syncs_spec l : forall (s s' : sst) ms,
    NoDup l ->
    post_syncs s l = (s', ms) ->
    let F := filter (fun t => negb (nmem t (sent s))) l in
    let L := map (fun t => (t, @None P)) F in
    s' = mkS (cur s) (cyc s) (nxt s) (sent s ++ F) (ast s) (outlog s ++ ol (cur s) L)
    /\ ms = wl (cur s) L.
  Proof.
    induction l as [|t r IH]; simpl; intros s s' ms Hnd H.
    - inversion H; subst. rewrite !app_nil_r. destruct s'; auto.
    - inversion Hnd as [|? ? Hnin Hnd']; subst.
      destruct (nmem t (sent s)) eqn:Em; simpl.
      + now apply IH.
      + destruct (post_syncs _ r) as [s2 ms2] eqn:E. inversion H; subst; clear H.
        apply IH in E as [E1 E2]; auto. simpl in *.
        assert (Hf : filter (fun t0 => negb (nmem t0 (sent s ++ [t]))) r
                     = filter (fun t0 => negb (nmem t0 (sent s))) r).
        { apply filter_ext_in. intros x Hx. f_equal.
          destruct (nmem x (sent s ++ [t])) eqn:E3, (nmem x (sent s)) eqn:E4; auto.
          - apply nmem_In in E3. apply in_app_or in E3 as [E3|[E3|[]]].
            + apply nmem_In in E3. congruence.
            + subst. contradiction.
          - apply nmem_In in E4. apply nmem_false in E3. exfalso. apply E3. apply in_or_app; auto. }
        rewrite Hf in *. subst. split; auto.
        rewrite <- !app_assoc. reflexivity.
  Qed.

  Lemma remove_first_In x y l : NoDup l -> (In y (remove_first x l) <-> In y l /\ y <> x).
  Proof.
    induction l as [|z r IH]; simpl; intros Hnd.
    - tauto.
    - inversion Hnd as [|? ? Hnin Hnd']; subst.
      destruct (Z.eqb x z) eqn:E.
      + apply Z.eqb_eq in E; subst. split.
        * intros H. split; auto. intros ->. contradiction.
        * intros [[H|H] Hne]; [congruence|auto].
      + apply Z.eqb_neq in E. simpl. rewrite IH; auto. split.
        * intros [H|[H1 H2]]; subst; auto.
        * intros [[H|H] Hne]; auto.
  Qed.

  Lemma remove_first_NoDup x l : NoDup l -> NoDup (remove_first x l).
  Proof.
    induction l as [|z r IH]; simpl; intros Hnd; auto.
    inversion Hnd as [|? ? Hnin Hnd']; subst.
    destruct (Z.eqb x z); auto. constructor; auto.
    intros H. apply remove_first_In in H; tauto.
  Qed.

  Lemma post_returned_spec l : forall (s : sst) rem (s' : sst) ms r,
    NoDup rem -> NoDup (map fst l) -> incl (map fst l) rem ->
    post_returned s rem l = (s', ms, r) ->
    let L := map (fun tp => (fst tp, Some (snd tp))) l in
    s' = mkS (cur s) (cyc s) (nxt s) (sent s ++ map fst l) (ast s) (outlog s ++ ol (cur s) L)
    /\ ms = wl (cur s) L
    /\ exists rem', r = Some rem' /\ NoDup rem' /\
         (forall y, In y rem' <-> In y rem /\ ~ In y (map fst l)).
  Proof.
    induction l as [|[t p] q IH]; simpl; intros s rem s' ms r Hrem Hnd Hincl H.
    - inversion H; subst. rewrite !app_nil_r. split; [destruct s'; auto|]. split; auto.
      exists rem. split; [reflexivity|]. split; [assumption|]. intros y; tauto.
    - inversion Hnd as [|? ? Hnin Hnd']; subst.
      assert (Ht : In t rem) by (apply Hincl; simpl; auto).
      apply nmem_In in Ht. rewrite Ht in H.
      destruct (post_returned _ (remove_first t rem) q) as [[s2 ms2] r2] eqn:E.
      inversion H; subst; clear H.
      apply IH in E as [E1 [E2 [rem' [E3 [E4 E5]]]]]; auto.
      + simpl in *. subst. split; [rewrite <- !app_assoc; reflexivity|]. split; auto.
        exists rem'. split; [reflexivity|]. split; [assumption|]. intros y; split.
        * intros Hy. apply E5 in Hy as [Hy1 Hy2]. apply remove_first_In in Hy1 as [Hy1 Hy3]; auto.
          split; auto. intros [Hc|Hc]; auto.
        * intros [Hy1 Hy2]. apply E5.
          assert (Hyt : y <> t) by (intros ->; apply Hy2; left; reflexivity).
          split.
          -- apply (remove_first_In t y rem Hrem). split; assumption.
          -- intros Hc. apply Hy2. right. exact Hc.
      + now apply remove_first_NoDup.
      + intros y Hy. apply remove_first_In; auto. split.
        * apply Hincl. simpl; auto.
        * intros ->. contradiction.
  Qed.

  (* ---------------------------------------------------------------- hypotheses *)
  Hypothesis Hnodup : forall a, NoDup (nbrs a).
  (* the hosted algorithm addresses each neighbour at most once per round (the mixin's
     documented contract) *)
  Hypothesis Hstart : forall n st, targets_ok n (snd (a_start G n st)).
  Hypothesis Hcycle : forall n st k msgs,
    targets_ok n (snd (fst (a_cycle G n st k msgs)) ++ snd (a_cycle G n st k msgs)).

  Definition bcast_ok (n : node) (L : list (node * option P)) : Prop :=
    NoDup (map fst L) /\ (forall y, In y (map fst L) <-> In y (nbrs n)).

  Lemma map_fst_some (l : list (node * P)) :
    map fst (map (fun tp => (fst tp, Some (snd tp))) l) = map fst l.
  Proof. rewrite map_map. reflexivity. Qed.

  Lemma map_fst_none (l : list node) : map fst (map (fun t => (t, @None P)) l) = l.
  Proof. rewrite map_map. simpl. apply map_id. Qed.

  Lemma wl_app k L1 L2 : wl k (L1 ++ L2) = wl k L1 ++ wl k L2.
  Proof. apply map_app. Qed.
  Lemma ol_app k L1 L2 : ol k (L1 ++ L2) = ol k L1 ++ ol k L2.
  Proof. apply map_app. Qed.

  Lemma start_spec n (s s' : sst) outs evs :
    sent s = [] ->
    sync_start nbrs G n s = (s', outs, evs) ->
    exists L snt a',
      bcast_ok n L /\ outs = wl (cur s) L /\ evs = [] /\
      s' = mkS (cur s) (nxt s) [] snt a' (outlog s ++ ol (cur s) L).
  Proof.
    intros Hs H. unfold sync_start in H.
    pose proof (Hstart n (ast s)) as [Hnd Hincl].
    destruct (a_start G n (ast s)) as [a' o] eqn:Ea. simpl in Hnd, Hincl.
    destruct (post_list _ o) as [s1 m1] eqn:E1.
    destruct (post_syncs s1 (nbrs n)) as [s2 m2] eqn:E2.
    inversion H; subst; clear H.
    apply post_list_spec in E1 as [E1 E1']. simpl in E1, E1'.
    apply post_syncs_spec in E2 as [E2 E2']; auto.
    rewrite Hs in E1. simpl in E1. subst s1. simpl in *. subst.
    set (L1 := map (fun tp => (fst tp, Some (snd tp))) o).
    set (F := filter (fun t => negb (nmem t (map fst o))) (nbrs n)).
    set (L2 := map (fun t => (t, @None P)) F).
    exists (L1 ++ L2), (map fst o ++ F), a'.
    split; [|split; [|split]].
    - split.
      + rewrite map_app. unfold L1, L2. rewrite map_fst_some, map_fst_none.
        apply NoDup_app_intro; auto.
        * apply NoDup_filter. apply Hnodup.
        * intros y Hy1 Hy2. unfold F in Hy2. apply filter_In in Hy2 as [_ Hy2].
          apply nmem_In in Hy1. rewrite Hy1 in Hy2. discriminate.
      + intros y. rewrite map_app. unfold L1, L2. rewrite map_fst_some, map_fst_none.
        rewrite in_app_iff. unfold F. rewrite filter_In. split.
        * intros [Hy|[Hy _]]; auto.
        * intros Hy. destruct (nmem y (map fst o)) eqn:E.
          -- left. now apply nmem_In.
          -- right. split; auto.
    - rewrite wl_app. reflexivity.
    - reflexivity.
    - unfold end_cycle. simpl. rewrite ol_app, app_assoc. reflexivity.
  Qed.
  Lemma switch_spec n (s s' : sst) outs evs :
    switch_cycle nbrs G n s = (s', outs, evs) ->
    exists L snt a',
      bcast_ok n L /\ outs = wl (S (cur s)) L /\
      evs = [EvCycle n (cur s) (algo_messages (cyc s))] /\
      s' = mkS (S (cur s)) (nxt s) [] snt a' (outlog s ++ ol (S (cur s)) L).
  Proof.
    intros H. unfold switch_cycle in H.
    pose proof (Hcycle n (ast s) (cur s) (algo_messages (cyc s))) as [Hnd Hincl].
    destruct (a_cycle G n (ast s) (cur s) (algo_messages (cyc s))) as [[a' posted] returned] eqn:Ea.
    simpl in Hnd, Hincl. rewrite map_app in Hnd, Hincl.
    destruct (post_list _ posted) as [s1 m1] eqn:E1.
    destruct (post_returned s1 (nbrs n) returned) as [[s2 m2] rem] eqn:E2.
    apply post_list_spec in E1 as [E1 E1']. simpl in E1, E1'.
    assert (Hnd1 : NoDup (map fst posted)) by (eapply NoDup_app_l; eauto).
    assert (Hnd2 : NoDup (map fst returned)) by (eapply NoDup_app_r; eauto).
    apply post_returned_spec in E2 as [E2 [E2' [rem' [Er [Hrem1 Hrem2]]]]]; auto.
    2:{ intros y Hy. apply Hincl. apply in_or_app; auto. }
    subst rem. subst s1. simpl in E2, E2'.
    destruct (post_syncs s2 rem') as [s3 m3] eqn:E3.
    inversion H; subst; clear H.
    apply post_syncs_spec in E3 as [E3 E3']; auto. simpl in E3, E3'. subst s3 m3. simpl.
    set (L1 := map (fun tp => (fst tp, Some (snd tp))) posted).
    set (L2 := map (fun tp => (fst tp, Some (snd tp))) returned).
    set (F := filter (fun t => negb (nmem t (map fst posted ++ map fst returned))) rem').
    set (L3 := map (fun t => (t, @None P)) F).
    exists (L1 ++ L2 ++ L3), ((map fst posted ++ map fst returned) ++ F), a'.
    split; [|split; [|split]].
    - split.
      + rewrite !map_app. unfold L1, L2, L3. rewrite !map_fst_some, map_fst_none.
        rewrite app_assoc. apply NoDup_app_intro; auto.
        * apply NoDup_filter. auto.
        * intros y Hy1 Hy2. unfold F in Hy2. apply filter_In in Hy2 as [_ Hy2].
          apply nmem_In in Hy1. rewrite Hy1 in Hy2. discriminate.
      + intros y. rewrite !map_app. unfold L1, L2, L3. rewrite !map_fst_some, map_fst_none.
        rewrite !in_app_iff. unfold F. rewrite filter_In. rewrite Hrem2. split.
        * intros [Hy|[Hy|[[Hy _] _]]]; auto; apply Hincl; apply in_or_app; auto.
        * intros Hy. destruct (nmem y (map fst posted ++ map fst returned)) eqn:E.
          -- apply nmem_In in E. apply in_app_or in E. tauto.
          -- right. right. split; auto. split; auto.
             intros Hc. apply nmem_false in E. apply E. apply in_or_app; auto.
    - rewrite !wl_app. reflexivity.
    - reflexivity.
    - unfold end_cycle. simpl. rewrite !ol_app, <- !app_assoc. reflexivity.
  Qed.
  (* ================================================================ Part 2: the network *)
  Hypothesis Hsym : forall a b, In a (nbrs b) -> In b (nbrs a).

  Notation config := (config sst wmsg).
  Definition SP := sync_proto nbrs G.

  Definition st (cf : config) n := w_st (nodes cf n).
  Definition rn (cf : config) n := w_running (nodes cf n).
  Definition nsent (cf : config) a : nat := if rn cf a then S (cur (st cf a)) else 0.
  Definition keyb (a : node) (l : list (node * wmsg)) : nat := if keymem a l then 1 else 0.
  Definition acc (cf : config) b a : nat :=
    cur (st cf b) + keyb a (cyc (st cf b)) + keyb a (nxt (st cf b)).
  Definition from (a : node) (l : list (node * wmsg)) : list wmsg :=
    map snd (filter (fun p => Z.eqb (fst p) a) l).
  Definition pipe (cf : config) a b : list wmsg := from a (w_held (nodes cf b)) ++ chan cf a b.

  Record Inv (cf : config) : Prop := {
    I_idle : forall b, rn cf b = false ->
       cur (st cf b) = 0 /\ cyc (st cf b) = [] /\ nxt (st cf b) = [] /\ sent (st cf b) = [] /\ outlog (st cf b) = [];
    I_held : forall b, rn cf b = true -> w_held (nodes cf b) = [];
    I_pipe : forall a b, In a (nbrs b) ->
       map stamp (pipe cf a b) = seq (acc cf b a) (nsent cf a - acc cf b a) /\ acc cf b a <= nsent cf a;
    I_non : forall a b, ~ In a (nbrs b) -> pipe cf a b = [];
    I_nxt : forall a b, keymem a (nxt (st cf b)) = true -> keymem a (cyc (st cf b)) = true;
    I_keys : forall b, NoDup (map fst (cyc (st cf b))) /\ incl (map fst (cyc (st cf b))) (nbrs b);
    I_keysn : forall b, NoDup (map fst (nxt (st cf b))) /\ incl (map fst (nxt (st cf b))) (nbrs b);
    I_open : forall b, nbrs b <> [] -> length (cyc (st cf b)) < length (nbrs b)
  }.

  (* ---- bookkeeping lemmas on channels *)
  Definition to_y (y : node) (outs : list (node * wmsg)) : list wmsg :=
    map snd (filter (fun p => Z.eqb (fst p) y) outs).

  Lemma send_all_spec outs : forall (c : node -> node -> list wmsg) src x y,
    send_all c src outs x y = if Z.eqb x src then c x y ++ to_y y outs else c x y.
  Proof.
    induction outs as [|[d m] r IH]; intros c src x y; simpl.
    - unfold to_y; simpl. rewrite app_nil_r. destruct (Z.eqb x src); auto.
    - rewrite IH. unfold upd_chan, to_y. simpl.
      destruct (Z.eqb x src) eqn:Ex; simpl; [|reflexivity].
      rewrite (Z.eqb_sym d y).
      destruct (Z.eqb y d) eqn:Ey; simpl.
      + apply Z.eqb_eq in Ex. apply Z.eqb_eq in Ey. subst. rewrite <- app_assoc. reflexivity.
      + reflexivity.
  Qed.

  Lemma reinject_all_spec l : forall (c : node -> node -> list wmsg) dst x y,
    reinject_all c dst l x y = if Z.eqb y dst then from x l ++ c x y else c x y.
  Proof.
    induction l as [|[s0 m] r IH]; intros c dst x y; simpl.
    - unfold from; simpl. destruct (Z.eqb y dst); auto.
    - unfold upd_chan. rewrite !IH. unfold from. simpl.
      rewrite (Z.eqb_sym s0 x).
      destruct (Z.eqb x s0) eqn:Ex; simpl.
      + apply Z.eqb_eq in Ex; subst.
        destruct (Z.eqb y dst) eqn:Ey; simpl.
        * apply Z.eqb_eq in Ey; subst. rewrite Z.eqb_refl. reflexivity.
        * reflexivity.
      + destruct (Z.eqb y dst); reflexivity.
  Qed.

  Lemma filter_unique (L : list (node * option P)) y b :
    NoDup (map fst L) -> In (y, b) L -> filter (fun p => Z.eqb (fst p) y) L = [(y, b)].
  Proof.
    induction L as [|[t x] r IH]; simpl; intros Hnd Hin; [contradiction|].
    inversion Hnd as [|? ? Hnin Hnd']; subst.
    destruct Hin as [Hin|Hin].
    - inversion Hin; subst. rewrite Z.eqb_refl. f_equal.
      clear IH Hnd Hnd' Hin. induction r as [|[t2 x2] r IH]; simpl; auto.
      destruct (Z.eqb_spec t2 y) as [->|Hne].
      + exfalso. apply Hnin. simpl; auto.
      + apply IH. intros Hc. apply Hnin. simpl; auto.
    - destruct (Z.eqb_spec t y) as [->|Hne].
      + exfalso. apply Hnin. apply in_map_iff. exists (y, b). auto.
      + auto.
  Qed.

  Lemma to_y_wl y k L : to_y y (wl k L) = map (fun tb => mkW k (snd tb)) (filter (fun p => Z.eqb (fst p) y) L).
  Proof.
    unfold to_y, wl. induction L as [|[t x] r IH]; simpl; auto.
    destruct (Z.eqb t y); simpl; rewrite IH; reflexivity.
  Qed.

  Lemma bcast_to n L k y : bcast_ok n L -> In y (nbrs n) ->
    exists b, to_y y (wl k L) = [mkW k b] /\ In (y, b) L.
  Proof.
    intros [Hnd Hiff] Hy. apply Hiff in Hy. apply in_map_iff in Hy as [[t b] [Ht Hin]].
    simpl in Ht; subst t. exists b. split; auto.
    rewrite to_y_wl. rewrite (filter_unique L y b); auto.
  Qed.

  Lemma filter_none {T} (f : T -> bool) (l : list T) :
    (forall x, In x l -> f x = false) -> filter f l = [].
  Proof.
    induction l as [|x r IH]; simpl; intros H; auto.
    rewrite (H x); auto.
  Qed.

  Lemma bcast_to_non n L k y : bcast_ok n L -> ~ In y (nbrs n) -> to_y y (wl k L) = [].
  Proof.
    intros [Hnd Hiff] Hy. rewrite to_y_wl. rewrite filter_none; auto.
    intros [t x] Hin. simpl. destruct (Z.eqb_spec t y) as [->|Hne]; auto.
    exfalso. apply Hy. apply Hiff. apply in_map_iff. exists (y, x). auto.
  Qed.
  Hypothesis Hirr : forall a, ~ In a (nbrs a).

  Lemma keymem_In a (l : list (node * wmsg)) : keymem a l = true <-> In a (map fst l).
  Proof.
    unfold keymem. rewrite existsb_exists. split.
    - intros [[x w] [H E]]. apply Z.eqb_eq in E. simpl in E. subst. apply in_map_iff. exists (x, w); auto.
    - intros H. apply in_map_iff in H as [[x w] [E H]]. simpl in E; subst.
      exists (a, w). split; auto. simpl. apply Z.eqb_refl.
  Qed.

  Lemma keymem_app a (l1 l2 : list (node * wmsg)) : keymem a (l1 ++ l2) = keymem a l1 || keymem a l2.
  Proof. unfold keymem. apply existsb_app. Qed.

  Lemma keyb_le a (l : list (node * wmsg)) : keyb a l <= 1.
  Proof. unfold keyb. destruct (keymem a l); lia. Qed.

  Lemma from_app a (l1 l2 : list (node * wmsg)) : from a (l1 ++ l2) = from a l1 ++ from a l2.
  Proof. unfold from. rewrite filter_app, map_app. reflexivity. Qed.

  Lemma seq_snoc a n : seq a n ++ [a + n] = seq a (S n).
  Proof. rewrite seq_S. reflexivity. Qed.

  Lemma nsent_le cf a b : Inv cf -> In a (nbrs b) -> nsent cf a <= S (nsent cf b).
  Proof.
    intros HI Hab. apply Hsym in Hab.
    destruct (I_pipe cf HI b a Hab) as [_ Hle].
    unfold nsent at 1. destruct (rn cf a); [|lia].
    unfold acc in Hle. lia.
  Qed.

  Lemma Inv_init : Inv (init SP).
  Proof.
    constructor; unfold st, rn, pipe, acc, nsent, keyb; simpl.
    - intros b _. repeat split; reflexivity.
    - intros b H. discriminate.
    - intros a b _. split; [reflexivity | lia].
    - intros a b _. reflexivity.
    - intros a b H. discriminate.
    - intros b. split; [constructor | intros x []].
    - intros b. split; [constructor | intros x []].
    - intros b Hb. destruct (nbrs b); [congruence | simpl; lia].
  Qed.

  (* what the handler does on the head of a channel, in a configuration satisfying Inv *)
  Lemma recv_cases cf a0 b0 m q :
    Inv cf -> rn cf b0 = true -> chan cf a0 b0 = m :: q ->
    let s := st cf b0 in
    let s1 := mkS (cur s) (cyc s ++ [(a0, m)]) (nxt s) (sent s) (ast s) (outlog s) in
    In a0 (nbrs b0) /\ a0 <> b0 /\ keymem a0 (nxt s) = false /\
    stamp m = acc cf b0 a0 /\ map stamp q = seq (S (acc cf b0 a0)) (nsent cf a0 - S (acc cf b0 a0)) /\
    S (acc cf b0 a0) <= nsent cf a0 /\
    ( (keymem a0 (cyc s) = false /\ stamp m = cur s /\ length (cyc s1) <> length (nbrs b0) /\
         sync_recv nbrs G b0 s a0 m = (s1, [], []))
      \/ (keymem a0 (cyc s) = false /\ stamp m = cur s /\ length (cyc s1) = length (nbrs b0) /\
         sync_recv nbrs G b0 s a0 m = switch_cycle nbrs G b0 s1)
      \/ (keymem a0 (cyc s) = true /\ stamp m = S (cur s) /\
         sync_recv nbrs G b0 s a0 m =
           (mkS (cur s) (cyc s) (dict_set Z.eqb a0 m (nxt s)) (sent s) (ast s) (outlog s), [], [])) ).
  Proof.
    intros HI Hr Hc s s1.
    assert (Hheld := I_held cf HI b0 Hr).
    assert (Hp : pipe cf a0 b0 = m :: q) by (unfold pipe; rewrite Hheld, Hc; reflexivity).
    assert (Hnb : In a0 (nbrs b0)).
    { destruct (in_dec Z.eq_dec a0 (nbrs b0)) as [H|H]; auto.
      rewrite (I_non cf HI a0 b0 H) in Hp. discriminate. }
    assert (Hne : a0 <> b0) by (intros ->; eapply Hirr; eauto).
    destruct (I_pipe cf HI a0 b0 Hnb) as [Hseq Hle]. rewrite Hp in Hseq. simpl in Hseq.
    pose proof (nsent_le cf a0 b0 HI Hnb) as Hns.
    assert (Hnb0 : nsent cf b0 = S (cur s)) by (unfold nsent; rewrite Hr; reflexivity).
    destruct (nsent cf a0 - acc cf b0 a0) as [|d] eqn:Ed; [discriminate|].
    simpl in Hseq. inversion Hseq as [[Hst Hq]].
    assert (Hd : d = nsent cf a0 - S (acc cf b0 a0)) by lia.
    pose proof (I_nxt cf HI a0 b0) as Hnx. fold s in Hnx.
    unfold acc in *. fold s in Hst, Hq, Hle, Ed, Hd |- *.
    unfold keyb in *.
    destruct (keymem a0 (cyc s)) eqn:Ec; destruct (keymem a0 (nxt s)) eqn:En.
    - exfalso. lia.
    - repeat split; auto; try lia.
      { rewrite Hq, Hd. f_equal; lia. }
      right. right. repeat split; auto; try lia.
      unfold sync_recv. apply nmem_In in Hnb. rewrite Hnb. simpl.
      replace (Nat.eqb (stamp m) (cur s)) with false by (symmetry; apply Nat.eqb_neq; lia).
      replace (Nat.eqb (stamp m) (S (cur s))) with true by (symmetry; apply Nat.eqb_eq; lia).
      reflexivity.
    - exfalso. specialize (Hnx eq_refl). discriminate.
    - repeat split; auto; try lia.
      { rewrite Hq, Hd. f_equal; lia. }
      assert (Hsr : forall r, (if Nat.eqb (length (cyc s1)) (length (nbrs b0)) then switch_cycle nbrs G b0 s1 else (s1, [], [])) = r ->
                sync_recv nbrs G b0 s a0 m = r).
      { intros r <-. unfold sync_recv. apply nmem_In in Hnb. rewrite Hnb. simpl.
        replace (Nat.eqb (stamp m) (cur s)) with true by (symmetry; apply Nat.eqb_eq; lia).
        rewrite Ec. reflexivity. }
      destruct (Nat.eqb (length (cyc s1)) (length (nbrs b0))) eqn:El.
      + right. left. apply Nat.eqb_eq in El. repeat split; auto; lia.
      + left. apply Nat.eqb_neq in El. repeat split; auto; lia.
  Qed.
  (* ---------------------------------------------------------------- preservation *)
  Ltac zeq x y := destruct (Z.eqb_spec x y); try subst; try contradiction; try congruence.

  Lemma from_single a a0 (m : wmsg) : from a [(a0, m)] = if Z.eqb a0 a then [m] else [].
  Proof. unfold from. simpl. destruct (Z.eqb a0 a); reflexivity. Qed.

  (* Deliver to a computation that has not started: the message moves to its buffer *)
  Lemma Inv_deliver_idle cf a0 b0 m q :
    Inv cf -> rn cf b0 = false -> chan cf a0 b0 = m :: q ->
    Inv (mkConfig (upd_node (nodes cf) b0
                     (mkWrap false (w_held (nodes cf b0) ++ [(a0, m)]) (w_st (nodes cf b0))))
                  (upd_chan (chan cf) a0 b0 q)).
  Proof.
    intros HI Hr Hc.
    set (cf' := mkConfig _ _).
    assert (Hst : forall x, st cf' x = st cf x).
    { intros x. unfold st, cf'; simpl. unfold upd_node. zeq x b0; reflexivity. }
    assert (Hrn : forall x, rn cf' x = rn cf x).
    { intros x. unfold rn, cf'; simpl. unfold upd_node. zeq x b0; simpl; auto. }
    assert (Hpipe : forall a b, pipe cf' a b = pipe cf a b).
    { intros a b. unfold pipe, cf'; simpl. unfold upd_node, upd_chan.
      destruct (Z.eqb b b0) eqn:Eb; simpl.
      - apply Z.eqb_eq in Eb; subst b.
        rewrite from_app, from_single, <- app_assoc, andb_true_r.
        rewrite (Z.eqb_sym a0 a).
        destruct (Z.eqb a a0) eqn:Ea; simpl.
        + apply Z.eqb_eq in Ea; subst a. rewrite Hc. reflexivity.
        + reflexivity.
      - rewrite andb_false_r. reflexivity. }
    assert (Hacc : forall a b, acc cf' b a = acc cf b a) by (intros; unfold acc; rewrite Hst; reflexivity).
    assert (Hns : forall a, nsent cf' a = nsent cf a) by (intros; unfold nsent; rewrite Hrn, Hst; reflexivity).
    constructor.
    - intros b. rewrite Hrn, Hst. apply (I_idle cf HI).
    - intros b Hb. rewrite Hrn in Hb. unfold cf'; simpl. unfold upd_node.
      destruct (Z.eqb b b0) eqn:Eb; [apply Z.eqb_eq in Eb; subst; congruence|].
      apply (I_held cf HI); auto.
    - intros a b Hab. rewrite Hpipe, Hacc, Hns. apply (I_pipe cf HI); auto.
    - intros a b Hab. rewrite Hpipe. apply (I_non cf HI); auto.
    - intros a b. rewrite Hst. apply (I_nxt cf HI).
    - intros b. rewrite Hst. apply (I_keys cf HI).
    - intros b. rewrite Hst. apply (I_keysn cf HI).
    - intros b. rewrite Hst. apply (I_open cf HI).
  Qed.
  Lemma Inv_start cf n L (s' : sst) :
    Inv cf -> rn cf n = false -> bcast_ok n L ->
    cur s' = 0 -> cyc s' = [] -> nxt s' = [] ->
    Inv (mkConfig (upd_node (nodes cf) n (mkWrap true [] s'))
                  (reinject_all (send_all (chan cf) n (wl 0 L)) n (reinject (w_held (nodes cf n))))).
  Proof.
    intros HI Hr HL Hc0 Hcy Hnx.
    set (cf' := mkConfig _ _).
    destruct (I_idle cf HI n Hr) as [Ic [Icy [Inx _]]].
    assert (Hst : forall x, x <> n -> st cf' x = st cf x).
    { intros x Hx. unfold st, cf'; simpl. unfold upd_node.
      destruct (Z.eqb_spec x n); [contradiction|reflexivity]. }
    assert (Hstn : st cf' n = s').
    { unfold st, cf'; simpl. unfold upd_node. rewrite Z.eqb_refl. reflexivity. }
    assert (Hrn : forall x, x <> n -> rn cf' x = rn cf x).
    { intros x Hx. unfold rn, cf'; simpl. unfold upd_node.
      destruct (Z.eqb_spec x n); [contradiction|reflexivity]. }
    assert (Hrnn : rn cf' n = true).
    { unfold rn, cf'; simpl. unfold upd_node. rewrite Z.eqb_refl. reflexivity. }
    assert (Hacc : forall a b, acc cf' b a = acc cf b a).
    { intros a b. unfold acc. destruct (Z.eq_dec b n) as [->|Hb].
      - rewrite Hstn, Hc0, Hcy, Hnx, Ic, Icy, Inx. reflexivity.
      - rewrite Hst; auto. }
    assert (Hns : forall a, a <> n -> nsent cf' a = nsent cf a).
    { intros a Ha. unfold nsent. rewrite Hrn, Hst; auto. }
    assert (Hnsn : nsent cf' n = 1 /\ nsent cf n = 0).
    { unfold nsent. rewrite Hrnn, Hstn, Hc0, Hr. auto. }
    assert (Hpipe : forall a b, pipe cf' a b = pipe cf a b ++ (if Z.eqb a n then to_y b (wl 0 L) else [])).
    { intros a b. unfold pipe, cf'; simpl. rewrite reinject_all_spec, send_all_spec.
      unfold reinject, upd_node.
      destruct (Z.eqb b n) eqn:Eb.
      - apply Z.eqb_eq in Eb; subst b. simpl. unfold from at 1; simpl.
        destruct (Z.eqb a n) eqn:Ea.
        + rewrite <- app_assoc. reflexivity.
        + rewrite app_nil_r. reflexivity.
      - destruct (Z.eqb a n) eqn:Ea.
        + rewrite app_assoc. reflexivity.
        + rewrite app_nil_r. reflexivity. }
    constructor.
    - intros b Hb. destruct (Z.eq_dec b n) as [->|Hbn]; [congruence|].
      rewrite Hrn in Hb; auto. rewrite Hst; auto. apply (I_idle cf HI); auto.
    - intros b Hb. unfold cf'; simpl. unfold upd_node.
      destruct (Z.eqb_spec b n); [reflexivity|].
      apply (I_held cf HI). rewrite Hrn in Hb; auto.
    - intros a b Hab. rewrite Hpipe, Hacc.
      destruct (I_pipe cf HI a b Hab) as [Hseq Hle].
      destruct (Z.eqb_spec a n) as [->|Han].
      + destruct Hnsn as [Hn1 Hn0]. rewrite Hn1. rewrite Hn0 in Hseq, Hle.
        assert (Hz : acc cf b n = 0) by lia. rewrite Hz in *. simpl in Hseq.
        destruct (bcast_to n L 0 b HL (Hsym _ _ Hab)) as [x [Hx _]].
        rewrite Hx. rewrite map_app, Hseq. simpl. split; [reflexivity|lia].
      + rewrite app_nil_r, Hns; auto.
    - intros a b Hab. rewrite Hpipe, (I_non cf HI a b Hab). simpl.
      destruct (Z.eqb_spec a n) as [->|Han]; auto.
      apply (bcast_to_non n L 0 b HL). intros Hc. apply Hab. now apply Hsym.
    - intros a b. destruct (Z.eq_dec b n) as [->|Hb].
      + rewrite Hstn, Hnx. simpl. discriminate.
      + rewrite Hst; auto. apply (I_nxt cf HI).
    - intros b. destruct (Z.eq_dec b n) as [->|Hb].
      + rewrite Hstn, Hcy. simpl. split; [constructor | intros x []].
      + rewrite Hst; auto. apply (I_keys cf HI).
    - intros b. destruct (Z.eq_dec b n) as [->|Hb].
      + rewrite Hstn, Hnx. split; [constructor | intros x []].
      + rewrite Hst; auto. apply (I_keysn cf HI).
    - intros b Hne. destruct (Z.eq_dec b n) as [->|Hb].
      + rewrite Hstn, Hcy. simpl. destruct (nbrs n); [congruence|simpl; lia].
      + rewrite Hst; auto. apply (I_open cf HI); auto.
  Qed.
  Lemma upd_node_same (f : node -> nwrap sst wmsg) n w : upd_node f n w n = w.
  Proof. unfold upd_node. rewrite Z.eqb_refl. reflexivity. Qed.
  Lemma upd_node_other (f : node -> nwrap sst wmsg) n w x : x <> n -> upd_node f n w x = f x.
  Proof. unfold upd_node. intros H. destruct (Z.eqb_spec x n); [contradiction|reflexivity]. Qed.

  (* a running node consumes the head of a channel without switching cycle *)
  Lemma Inv_deliver_noswitch cf a0 b0 m q (s' : sst) :
    Inv cf -> rn cf b0 = true -> chan cf a0 b0 = m :: q ->
    In a0 (nbrs b0) -> a0 <> b0 ->
    map stamp q = seq (S (acc cf b0 a0)) (nsent cf a0 - S (acc cf b0 a0)) ->
    S (acc cf b0 a0) <= nsent cf a0 ->
    let s := st cf b0 in
    cur s' = cur s ->
    (forall a, keyb a (cyc s') + keyb a (nxt s') =
               keyb a (cyc s) + keyb a (nxt s) + (if Z.eqb a a0 then 1 else 0)) ->
    (forall a, keymem a (nxt s') = true -> keymem a (cyc s') = true) ->
    NoDup (map fst (cyc s')) -> incl (map fst (cyc s')) (nbrs b0) ->
    NoDup (map fst (nxt s')) -> incl (map fst (nxt s')) (nbrs b0) ->
    (nbrs b0 <> [] -> length (cyc s') < length (nbrs b0)) ->
    Inv (mkConfig (upd_node (nodes cf) b0 (mkWrap true (w_held (nodes cf b0)) s'))
                  (send_all (upd_chan (chan cf) a0 b0 q) b0 [])).
  Proof.
    intros HI Hr Hc Hnb Hne Hq Hle s Hcur Hkey Hnx Hnd Hincl Hndn Hincln Hopen.
    set (cf' := mkConfig _ _).
    assert (Hheld := I_held cf HI b0 Hr).
    assert (Hst : forall x, x <> b0 -> st cf' x = st cf x).
    { intros x Hx. unfold st, cf'; simpl. rewrite upd_node_other; auto. }
    assert (Hst0 : st cf' b0 = s') by (unfold st, cf'; simpl; rewrite upd_node_same; reflexivity).
    assert (Hrn : forall x, rn cf' x = rn cf x).
    { intros x. unfold rn, cf'; simpl. destruct (Z.eq_dec x b0) as [->|Hx].
      - rewrite upd_node_same. simpl. symmetry. exact Hr.
      - rewrite upd_node_other; auto. }
    assert (Hhd : forall x, w_held (nodes cf' x) = w_held (nodes cf x)).
    { intros x. unfold cf'; simpl. destruct (Z.eq_dec x b0) as [->|Hx].
      - rewrite upd_node_same. reflexivity.
      - rewrite upd_node_other; auto. }
    assert (Hns : forall a, nsent cf' a = nsent cf a).
    { intros a. unfold nsent. rewrite Hrn. destruct (Z.eq_dec a b0) as [->|Ha].
      - rewrite Hst0, Hcur. reflexivity.
      - rewrite Hst; auto. }
    assert (Hacc : forall a b, acc cf' b a = acc cf b a + (if Z.eqb b b0 && Z.eqb a a0 then 1 else 0)).
    { intros a b. unfold acc. destruct (Z.eqb_spec b b0) as [->|Hb]; simpl.
      - rewrite Hst0, Hcur. fold s. specialize (Hkey a). destruct (Z.eqb a a0); lia.
      - rewrite Hst; auto. }
    assert (Hch : forall a b, chan cf' a b = if Z.eqb a a0 && Z.eqb b b0 then q else chan cf a b).
    { intros a b. unfold cf'; simpl. reflexivity. }
    constructor.
    - intros b Hb. rewrite Hrn in Hb. assert (b <> b0) by congruence.
      rewrite Hst; auto. apply (I_idle cf HI); auto.
    - intros b Hb. rewrite Hhd. apply (I_held cf HI). now rewrite <- Hrn.
    - intros a b Hab. unfold pipe. rewrite Hhd, Hch, Hacc, Hns.
      destruct (Z.eqb_spec a a0) as [->|Ha]; destruct (Z.eqb_spec b b0) as [->|Hb]; simpl;
        try (rewrite Nat.add_0_r; apply (I_pipe cf HI); auto).
      rewrite Hheld. simpl. rewrite Hq. split; [f_equal; lia | lia].
    - intros a b Hab. unfold pipe. rewrite Hhd, Hch.
      destruct (Z.eqb_spec a a0) as [->|Ha]; destruct (Z.eqb_spec b b0) as [->|Hb]; simpl;
        try (apply (I_non cf HI); auto). contradiction.
    - intros a b. destruct (Z.eq_dec b b0) as [->|Hb].
      + rewrite Hst0. apply Hnx.
      + rewrite Hst; auto. apply (I_nxt cf HI).
    - intros b. destruct (Z.eq_dec b b0) as [->|Hb].
      + rewrite Hst0. split; auto.
      + rewrite Hst; auto. apply (I_keys cf HI).
    - intros b. destruct (Z.eq_dec b b0) as [->|Hb].
      + rewrite Hst0. split; auto.
      + rewrite Hst; auto. apply (I_keysn cf HI).
    - intros b Hb0. destruct (Z.eq_dec b b0) as [->|Hb].
      + rewrite Hst0. auto.
      + rewrite Hst; auto. apply (I_open cf HI); auto.
  Qed.
  (* a running node consumes the last missing message of its cycle and switches *)
  Lemma Inv_deliver_switch cf a0 b0 m q L (s' : sst) :
    Inv cf -> rn cf b0 = true -> chan cf a0 b0 = m :: q ->
    In a0 (nbrs b0) -> a0 <> b0 ->
    let s := st cf b0 in
    keymem a0 (cyc s) = false -> keymem a0 (nxt s) = false ->
    map stamp q = seq (S (acc cf b0 a0)) (nsent cf a0 - S (acc cf b0 a0)) ->
    S (acc cf b0 a0) <= nsent cf a0 ->
    length (cyc s ++ [(a0, m)]) = length (nbrs b0) ->
    bcast_ok b0 L ->
    cur s' = S (cur s) -> cyc s' = nxt s -> nxt s' = [] ->
    Inv (mkConfig (upd_node (nodes cf) b0 (mkWrap true (w_held (nodes cf b0)) s'))
                  (send_all (upd_chan (chan cf) a0 b0 q) b0 (wl (S (cur s)) L))).
  Proof.
    intros HI Hr Hc Hnb Hne s Hkc Hkn Hq Hle Hlen HL Hcur Hcyc Hnxt.
    set (cf' := mkConfig _ _).
    assert (Hheld := I_held cf HI b0 Hr).
    destruct (I_keys cf HI b0) as [Hnd Hincl]. fold s in Hnd, Hincl.
    destruct (I_keysn cf HI b0) as [Hndn Hincln]. fold s in Hndn, Hincln.
    (* every other neighbour is already in the cycle's message table *)
    assert (F1 : forall a, In a (nbrs b0) -> a <> a0 -> keymem a (cyc s) = true).
    { intros a Ha Hne'. apply keymem_In.
      assert (Hnd1 : NoDup (map fst (cyc s ++ [(a0, m)]))).
      { rewrite map_app. simpl. apply NoDup_app_intro; auto.
        - constructor; [intros []|constructor].
        - intros y Hy [<-|[]]. apply keymem_In in Hy. congruence. }
      assert (Hin1 : incl (map fst (cyc s ++ [(a0, m)])) (nbrs b0)).
      { rewrite map_app. simpl. intros y Hy. apply in_app_or in Hy as [Hy|[<-|[]]]; auto. }
      assert (Hrev : incl (nbrs b0) (map fst (cyc s ++ [(a0, m)]))).
      { apply NoDup_length_incl; auto. rewrite map_length. lia. }
      specialize (Hrev a Ha). rewrite map_app in Hrev. simpl in Hrev.
      apply in_app_or in Hrev as [Hrev|[Hrev|[]]]; auto. congruence. }
    assert (Hst : forall x, x <> b0 -> st cf' x = st cf x).
    { intros x Hx. unfold st, cf'; simpl. rewrite upd_node_other; auto. }
    assert (Hst0 : st cf' b0 = s') by (unfold st, cf'; simpl; rewrite upd_node_same; reflexivity).
    assert (Hrn : forall x, rn cf' x = rn cf x).
    { intros x. unfold rn, cf'; simpl. destruct (Z.eq_dec x b0) as [->|Hx].
      - rewrite upd_node_same. simpl. symmetry. exact Hr.
      - rewrite upd_node_other; auto. }
    assert (Hhd : forall x, w_held (nodes cf' x) = w_held (nodes cf x)).
    { intros x. unfold cf'; simpl. destruct (Z.eq_dec x b0) as [->|Hx].
      - rewrite upd_node_same. reflexivity.
      - rewrite upd_node_other; auto. }
    assert (Hns : forall a, nsent cf' a = nsent cf a + (if Z.eqb a b0 then 1 else 0)).
    { intros a. unfold nsent. rewrite Hrn. destruct (Z.eqb_spec a b0) as [->|Ha].
      - rewrite Hst0, Hcur, Hr. fold s. lia.
      - rewrite Hst by auto. lia. }
    assert (Hacc0 : forall a, In a (nbrs b0) ->
               acc cf' b0 a = acc cf b0 a + (if Z.eqb a a0 then 1 else 0)).
    { intros a Ha. unfold acc. rewrite Hst0, Hcur, Hcyc, Hnxt. fold s. unfold keyb. simpl.
      destruct (Z.eqb_spec a a0) as [->|Hne'].
      - rewrite Hkc, Hkn. lia.
      - rewrite (F1 a Ha Hne'). lia. }
    assert (Hacc : forall a b, b <> b0 -> acc cf' b a = acc cf b a).
    { intros a b Hb. unfold acc. rewrite Hst; auto. }
    assert (Hch : forall a b, chan cf' a b =
               (if Z.eqb a a0 && Z.eqb b b0 then q else chan cf a b)
               ++ (if Z.eqb a b0 then to_y b (wl (S (cur s)) L) else [])).
    { intros a b. unfold cf'; simpl. rewrite send_all_spec. unfold upd_chan.
      destruct (Z.eqb a b0); [reflexivity | rewrite app_nil_r; reflexivity]. }
    assert (Hnsb0 : nsent cf b0 = S (cur s)) by (unfold nsent; rewrite Hr; reflexivity).
    constructor.
    - intros b Hb. rewrite Hrn in Hb. assert (b <> b0) by congruence.
      rewrite Hst; auto. apply (I_idle cf HI); auto.
    - intros b Hb. rewrite Hhd. apply (I_held cf HI). now rewrite <- Hrn.
    - intros a b Hab. unfold pipe. rewrite Hhd, Hch, Hns.
      destruct (Z.eqb_spec b b0) as [->|Hb].
      + (* messages towards the switching node *)
        assert (Hab0 : a <> b0) by (intros ->; eapply Hirr; eauto).
        destruct (Z.eqb_spec a b0) as [|_]; [contradiction|]. rewrite app_nil_r, Nat.add_0_r.
        rewrite (Hacc0 a Hab).
        destruct (Z.eqb_spec a a0) as [->|Ha]; simpl.
        * rewrite Hheld. simpl. rewrite Hq. split; [f_equal; lia | lia].
        * rewrite Nat.add_0_r. apply (I_pipe cf HI); auto.
      + rewrite andb_false_r. rewrite Hacc; auto.
        destruct (I_pipe cf HI a b Hab) as [Hseq Hle'].
        destruct (Z.eqb_spec a b0) as [->|Ha].
        * (* the new stamp sent by the switching node *)
          destruct (bcast_to b0 L (S (cur s)) b HL (Hsym _ _ Hab)) as [x [Hx _]].
          rewrite Hx. rewrite app_assoc. fold (pipe cf b0 b). rewrite map_app, Hseq. simpl.
          rewrite Hnsb0 in *. split; [|lia].
          replace (S (cur s) + 1 - acc cf b b0) with (S (S (cur s) - acc cf b b0)) by lia.
          rewrite <- seq_snoc. f_equal. f_equal. lia.
        * rewrite app_nil_r, Nat.add_0_r. split; auto.
    - intros a b Hab. unfold pipe. rewrite Hhd, Hch.
      assert (Hq0 : (if Z.eqb a a0 && Z.eqb b b0 then q else chan cf a b) = chan cf a b).
      { destruct (Z.eqb_spec a a0) as [->|Ha]; destruct (Z.eqb_spec b b0) as [->|Hb]; simpl; auto.
        contradiction. }
      rewrite Hq0, app_assoc. fold (pipe cf a b). rewrite (I_non cf HI a b Hab). simpl.
      destruct (Z.eqb_spec a b0) as [->|Hab0]; auto.
      apply (bcast_to_non b0 L (S (cur s)) b HL). intros Hc'. apply Hab. now apply Hsym.
    - intros a b. destruct (Z.eq_dec b b0) as [->|Hb].
      + rewrite Hst0, Hnxt. simpl. discriminate.
      + rewrite Hst; auto. apply (I_nxt cf HI).
    - intros b. destruct (Z.eq_dec b b0) as [->|Hb].
      + rewrite Hst0, Hcyc. split; auto.
      + rewrite Hst; auto. apply (I_keys cf HI).
    - intros b. destruct (Z.eq_dec b b0) as [->|Hb].
      + rewrite Hst0, Hnxt. split; [constructor | intros x []].
      + rewrite Hst; auto. apply (I_keysn cf HI).
    - intros b Hb0. destruct (Z.eq_dec b b0) as [->|Hb].
      + rewrite Hst0, Hcyc.
        assert (Hnd2 : NoDup (a0 :: map fst (nxt s))).
        { constructor; auto. intros Hc'. apply keymem_In in Hc'. congruence. }
        assert (Hin2 : incl (a0 :: map fst (nxt s)) (nbrs b0)).
        { intros y [<-|Hy]; auto. }
        pose proof (NoDup_incl_length Hnd2 Hin2) as Hl. simpl in Hl. rewrite map_length in Hl. lia.
      + rewrite Hst; auto. apply (I_open cf HI); auto.
  Qed.
  (* ---------------------------------------------------------------- one step *)
  Fixpoint count_cyc (x : node) (evs : list (ev P)) : nat :=
    match evs with
    | [] => 0
    | EvCycle n _ _ :: r => (if Z.eqb n x then 1 else 0) + count_cyc x r
    | EvRaise _ _ :: r => count_cyc x r
    end.

  Definition cycle_ids (x : node) (evs : list (ev P)) : list nat :=
    flat_map (fun e => match e with
                       | EvCycle n k _ => if Z.eqb n x then [k] else []
                       | EvRaise _ _ => []
                       end) evs.

  Lemma dict_set_fresh k (v : wmsg) l :
    keymem k l = false -> dict_set Z.eqb k v l = l ++ [(k, v)].
  Proof.
    induction l as [|[k' v'] r IH]; simpl; intros H; auto.
    unfold keymem in H. simpl in H. apply orb_false_iff in H as [H1 H2].
    rewrite H1. f_equal. apply IH. exact H2.
  Qed.

  Lemma keyb_snoc a a0 (m : wmsg) l :
    keymem a0 l = false -> keyb a (l ++ [(a0, m)]) = keyb a l + (if Z.eqb a a0 then 1 else 0).
  Proof.
    intros H. unfold keyb. rewrite keymem_app. unfold keymem at 2. simpl. rewrite orb_false_r.
    destruct (Z.eqb_spec a a0) as [->|Hne].
    - rewrite H. reflexivity.
    - rewrite orb_false_r. destruct (keymem a l); reflexivity.
  Qed.

  Lemma step_facts cf a : Inv cf ->
    Inv (fst (step SP cf a)) /\
    (forall n k, ~ In (EvRaise n k) (snd (step SP cf a))) /\
    (forall x, cur (st (fst (step SP cf a)) x) = cur (st cf x) + count_cyc x (snd (step SP cf a))) /\
    (forall x, cycle_ids x (snd (step SP cf a)) = seq (cur (st cf x)) (count_cyc x (snd (step SP cf a)))).
  Proof.
    intros HI. destruct a as [n | a0 b0]; simpl.
    - (* Start *)
      destruct (w_running (nodes cf n)) eqn:Hr; simpl.
      + split; [exact HI|]. split; [intros ? ? []|]. split; [intros x; simpl; lia|intros x; reflexivity].
      + destruct (I_idle cf HI n Hr) as [Ic [Icy [Inx [Isn Iol]]]].
        destruct (sync_start nbrs G n (w_st (nodes cf n))) as [[s' outs] evs] eqn:E.
        apply start_spec in E as [L [snt [a' [HL [Ho [He Hs]]]]]]; auto.
        fold (st cf n) in Hs, Ho. rewrite Ic in Ho, Hs. rewrite Inx in Hs. subst outs evs. simpl.
        split; [|split; [|split]].
        * apply Inv_start; auto; subst s'; reflexivity.
        * intros ? ? [].
        * intros x. unfold st; simpl. unfold upd_node. destruct (Z.eqb_spec x n) as [->|Hx]; simpl.
          -- subst s'. simpl. fold (st cf n). lia.
          -- lia.
        * intros x; reflexivity.
    - (* Deliver *)
      destruct (chan cf a0 b0) as [|m q] eqn:Hc; simpl.
      + split; [exact HI|]. split; [intros ? ? []|]. split; [intros x; simpl; lia|intros x; reflexivity].
      + destruct (w_running (nodes cf b0)) eqn:Hr; simpl.
        2:{ split; [|split; [|split]].
            - apply Inv_deliver_idle; auto.
            - intros ? ? [].
            - intros x. unfold st; simpl. unfold upd_node. destruct (Z.eqb_spec x b0) as [->|Hx]; simpl; lia.
            - intros x; reflexivity. }
        destruct (recv_cases cf a0 b0 m q HI Hr Hc) as [Hnb [Hne [Hkn [Hst [Hq [Hle Hcases]]]]]].
        fold (st cf b0) in *.
        set (s := st cf b0) in *.
        destruct (I_keys cf HI b0) as [Hnd Hincl]. fold s in Hnd, Hincl.
        destruct (I_keysn cf HI b0) as [Hndn Hincln]. fold s in Hndn, Hincln.
        assert (Hnd1 : keymem a0 (cyc s) = false -> NoDup (map fst (cyc s ++ [(a0, m)]))).
        { intros Hk. rewrite map_app. simpl. apply NoDup_app_intro; auto.
          - constructor; [intros []|constructor].
          - intros y Hy [<-|[]]. apply keymem_In in Hy. congruence. }
        assert (Hin1 : incl (map fst (cyc s ++ [(a0, m)])) (nbrs b0)).
        { rewrite map_app. simpl. intros y Hy. apply in_app_or in Hy as [Hy|[<-|[]]]; auto. }
        destruct Hcases as [[Hkc [Hsm [Hlen Hrecv]]] | [[Hkc [Hsm [Hlen Hrecv]]] | [Hkc [Hsm Hrecv]]]];
          unfold SP in *; simpl; fold s; rewrite Hrecv.
        * (* accepted, cycle not complete *)
          simpl. split; [|split; [|split]].
          -- apply (Inv_deliver_noswitch cf a0 b0 m q); auto; simpl.
             ++ intros a. rewrite keyb_snoc; auto. unfold s. lia.
             ++ intros a Ha. rewrite keymem_app. apply orb_true_iff. left. apply (I_nxt cf HI a b0 Ha).
             ++ intros Hne0. pose proof (NoDup_incl_length (Hnd1 Hkc) Hin1) as Hl.
                rewrite map_length in Hl. simpl in Hlen. unfold s in *. lia.
          -- intros ? ? [].
          -- intros x. unfold st; simpl. unfold upd_node. destruct (Z.eqb_spec x b0) as [->|Hx]; simpl; unfold s, st; lia.
          -- intros x; reflexivity.
        * (* accepted, cycle complete: switch *)
          destruct (switch_cycle nbrs G b0 _) as [[s' outs] evs] eqn:E.
          apply switch_spec in E as [L [snt [a' [HL [Ho [He Hs]]]]]]. simpl in Ho, He, Hs.
          subst outs evs. simpl.
          split; [|split; [|split]].
          -- apply (Inv_deliver_switch cf a0 b0 m q L); auto; subst s'; reflexivity.
          -- intros ? ? [H|[]]. discriminate.
          -- intros x. unfold st; simpl. unfold upd_node. rewrite (Z.eqb_sym b0 x).
             destruct (Z.eqb_spec x b0) as [->|Hx]; simpl.
             ++ subst s'. simpl. unfold s, st. lia.
             ++ lia.
          -- intros x. simpl. destruct (Z.eqb_spec b0 x) as [->|Hx]; simpl; [|reflexivity].
             unfold s, st. reflexivity.
        * (* stored for the next cycle *)
          simpl. rewrite dict_set_fresh; auto.
          split; [|split; [|split]].
          -- apply (Inv_deliver_noswitch cf a0 b0 m q); auto; simpl.
             ++ intros a. rewrite keyb_snoc; auto. unfold s. lia.
             ++ intros a Ha. rewrite keymem_app in Ha. apply orb_true_iff in Ha as [Ha|Ha].
                ** apply (I_nxt cf HI a b0 Ha).
                ** unfold keymem in Ha. simpl in Ha. rewrite orb_false_r in Ha.
                   apply Z.eqb_eq in Ha. subst. exact Hkc.
             ++ rewrite map_app. simpl. apply NoDup_app_intro; auto.
                ** constructor; [intros []|constructor].
                ** intros y Hy [<-|[]]. apply keymem_In in Hy. congruence.
             ++ rewrite map_app. simpl. intros y Hy. apply in_app_or in Hy as [Hy|[<-|[]]]; auto.
             ++ intros Hne0. apply (I_open cf HI b0 Hne0).
          -- intros ? ? [].
          -- intros x. unfold st; simpl. unfold upd_node. destruct (Z.eqb_spec x b0) as [->|Hx]; simpl; unfold s, st; lia.
          -- intros x; reflexivity.
  Qed.
  (* ================================================================ payloads *)
  Definition logged (cf : config) (a b : node) (m : wmsg) : Prop :=
    In (stamp m, b, body m) (outlog (st cf a)).

  Record Inv2 (cf : config) : Prop := {
    P_chan : forall a b m, In m (chan cf a b) -> logged cf a b m;
    P_held : forall a b m, In (a, m) (w_held (nodes cf b)) -> logged cf a b m;
    P_cyc : forall a b m, In (a, m) (cyc (st cf b)) -> stamp m = cur (st cf b) /\ logged cf a b m;
    P_nxt : forall a b m, In (a, m) (nxt (st cf b)) -> stamp m = S (cur (st cf b)) /\ logged cf a b m;
    P_log : forall a k t x, In (k, t, x) (outlog (st cf a)) -> k < nsent cf a;
    P_uniq : forall a k t x y, In (k, t, x) (outlog (st cf a)) -> In (k, t, y) (outlog (st cf a)) -> x = y
  }.

  Lemma Inv2_init : Inv2 (init SP).
  Proof. constructor; unfold logged, st; simpl; intros; contradiction. Qed.

  Lemma In_to_y y k L m : In m (to_y y (wl k L)) -> exists x, m = mkW k x /\ In (y, x) L.
  Proof.
    rewrite to_y_wl. intros H. apply in_map_iff in H as [[t x] [E H]]. simpl in E.
    apply filter_In in H as [H1 H2]. simpl in H2. apply Z.eqb_eq in H2. subst.
    exists x. auto.
  Qed.

  Lemma In_from a (l : list (node * wmsg)) m : In m (from a l) <-> In (a, m) l.
  Proof.
    unfold from. rewrite in_map_iff. split.
    - intros [[t x] [E H]]. simpl in E. subst. apply filter_In in H as [H1 H2].
      simpl in H2. apply Z.eqb_eq in H2. now subst.
    - intros H. exists (a, m). split; auto. apply filter_In. split; auto. simpl. apply Z.eqb_refl.
  Qed.

  Lemma In_ol k L j t x : In (j, t, x) (ol k L) <-> j = k /\ In (t, x) L.
  Proof.
    unfold ol. rewrite in_map_iff. split.
    - intros [[t' x'] [E H]]. simpl in E. inversion E; subst. auto.
    - intros [-> H]. exists (t, x). auto.
  Qed.

  (* the generic preservation argument: the log of every node only grows, by a broadcast
     at stamp = its previous number of stamps, and every channel / table entry of the new
     configuration is either old or one of the freshly logged messages *)
  Lemma Inv2_grow cf cf' (n0 : node) (L : list (node * option P)) :
    Inv2 cf ->
    NoDup (map fst L) ->
    (forall x, x <> n0 -> outlog (st cf' x) = outlog (st cf x)) ->
    outlog (st cf' n0) = outlog (st cf n0) ++ ol (nsent cf n0) L ->
    (forall x, nsent cf x <= nsent cf' x) ->
    (L <> [] -> nsent cf n0 < nsent cf' n0) ->
    (forall a b m, In m (chan cf' a b) ->
        In m (chan cf a b) \/ In (a, m) (w_held (nodes cf b)) \/
        (a = n0 /\ exists x, m = mkW (nsent cf n0) x /\ In (b, x) L)) ->
    (forall a b m, In (a, m) (w_held (nodes cf' b)) ->
        In (a, m) (w_held (nodes cf b)) \/ In m (chan cf a b)) ->
    (forall a b m, In (a, m) (cyc (st cf' b)) -> stamp m = cur (st cf' b) /\
        (In (a, m) (cyc (st cf b)) \/ In (a, m) (nxt (st cf b)) \/ In m (chan cf a b))) ->
    (forall a b m, In (a, m) (nxt (st cf' b)) -> stamp m = S (cur (st cf' b)) /\
        (In (a, m) (nxt (st cf b)) \/ In m (chan cf a b))) ->
    Inv2 cf'.
  Proof.
    intros H2 HndL Hlog Hlog0 Hns Hns0 Hch Hhd Hcy Hnx.
    assert (Hmono : forall a b m, logged cf a b m -> logged cf' a b m).
    { intros a b m H. unfold logged in *. destruct (Z.eq_dec a n0) as [->|Ha].
      - rewrite Hlog0. apply in_or_app; auto.
      - rewrite Hlog; auto. }
    constructor.
    - intros a b m H. apply Hch in H as [H|[H|[-> [x [-> H]]]]].
      + apply Hmono. apply (P_chan cf H2); auto.
      + apply Hmono. apply (P_held cf H2); auto.
      + unfold logged. rewrite Hlog0. apply in_or_app. right. simpl. apply In_ol. auto.
    - intros a b m H. apply Hhd in H as [H|H]; apply Hmono.
      + apply (P_held cf H2); auto.
      + apply (P_chan cf H2); auto.
    - intros a b m H. apply Hcy in H as [Hs [H|[H|H]]]; split; auto; apply Hmono.
      + apply (P_cyc cf H2); auto.
      + apply (P_nxt cf H2); auto.
      + apply (P_chan cf H2); auto.
    - intros a b m H. apply Hnx in H as [Hs [H|H]]; split; auto; apply Hmono.
      + apply (P_nxt cf H2); auto.
      + apply (P_chan cf H2); auto.
    - intros a k t x H. destruct (Z.eq_dec a n0) as [->|Ha].
      + rewrite Hlog0 in H. apply in_app_or in H as [H|H].
        * apply (P_log cf H2) in H. specialize (Hns n0). lia.
        * apply In_ol in H as [-> H]. apply Hns0. intros ->. contradiction.
      + rewrite Hlog in H; auto. apply (P_log cf H2) in H. specialize (Hns a). lia.
    - intros a k t x y Hx Hy. destruct (Z.eq_dec a n0) as [->|Ha].
      + rewrite Hlog0 in Hx, Hy.
        apply in_app_or in Hx as [Hx|Hx]; apply in_app_or in Hy as [Hy|Hy].
        * eapply (P_uniq cf H2); eauto.
        * apply In_ol in Hy as [-> _]. apply (P_log cf H2) in Hx. lia.
        * apply In_ol in Hx as [-> _]. apply (P_log cf H2) in Hy. lia.
        * apply In_ol in Hx as [_ Hx]. apply In_ol in Hy as [_ Hy].
          clear - HndL Hx Hy. induction L as [|[t' x'] r IH]; [contradiction|].
          simpl in HndL. inversion HndL as [|? ? Hnin Hnd']; subst.
          destruct Hx as [Hx|Hx]; destruct Hy as [Hy|Hy].
          -- congruence.
          -- inversion Hx; subst. exfalso. apply Hnin. apply in_map_iff. exists (t, y). auto.
          -- inversion Hy; subst. exfalso. apply Hnin. apply in_map_iff. exists (t, x). auto.
          -- auto.
      + rewrite Hlog in Hx, Hy; auto. eapply (P_uniq cf H2); eauto.
  Qed.
  Lemma algo_messages_keys (l : list (node * wmsg)) :
    forall y, In y (map fst (algo_messages l)) -> In y (map fst l).
  Proof.
    induction l as [|[t w] r IH]; simpl; intros y H; auto.
    rewrite map_app in H. apply in_app_or in H as [H|H]; auto.
    destruct (body w); simpl in H; [destruct H as [H|[]]; auto | contradiction].
  Qed.

  Lemma algo_messages_nodup (l : list (node * wmsg)) :
    NoDup (map fst l) -> NoDup (map fst (algo_messages l)).
  Proof.
    induction l as [|[t w] r IH]; simpl; intros H; [constructor|].
    inversion H as [|? ? Hnin Hnd]; subst. rewrite map_app.
    destruct (body w); simpl; auto.
    constructor; auto. intros Hc. apply Hnin. now apply algo_messages_keys.
  Qed.

  Lemma algo_messages_lookup (l : list (node * wmsg)) a w :
    NoDup (map fst l) -> In (a, w) l -> zlookup a (algo_messages l) = body w.
  Proof.
    induction l as [|[t w'] r IH]; simpl; intros Hnd Hin; [contradiction|].
    inversion Hnd as [|? ? Hnin Hnd']; subst.
    destruct Hin as [Hin|Hin].
    - inversion Hin; subst. destruct (body w) eqn:Eb; simpl.
      + unfold zlookup; simpl. rewrite Z.eqb_refl. reflexivity.
      + (* a sync message: a has no entry at all *)
        destruct (zlookup a (algo_messages r)) eqn:El; auto.
        exfalso. apply Hnin. apply algo_messages_keys.
        unfold zlookup in El. clear - El. induction (algo_messages r) as [|[k v] q IHq]; simpl in *; [discriminate|].
        destruct (Z.eqb_spec a k); subst; auto.
    - assert (Hne : a <> t).
      { intros ->. apply Hnin. apply in_map_iff. exists (t, w). auto. }
      destruct (body w'); simpl; auto.
      unfold zlookup; simpl. destruct (Z.eqb_spec a t); [contradiction|]. apply IH; auto.
  Qed.

  Lemma step_facts2 cf act : Inv cf -> Inv2 cf ->
    Inv2 (fst (step SP cf act)) /\
    (forall n k msgs, In (EvCycle n k msgs) (snd (step SP cf act)) ->
       k = cur (st cf n) /\ NoDup (map fst msgs) /\ incl (map fst msgs) (nbrs n) /\
       forall a, In a (nbrs n) -> exists x, In (k, n, x) (outlog (st cf a)) /\ zlookup a msgs = x).
  Proof.
    intros HI H2. destruct act as [n | a0 b0]; simpl.
    - (* Start *)
      destruct (w_running (nodes cf n)) eqn:Hr; simpl.
      + split; [exact H2 | intros ? ? ? []].
      + destruct (I_idle cf HI n Hr) as [Ic [Icy [Inx [Isn Iol]]]].
        destruct (sync_start nbrs G n (w_st (nodes cf n))) as [[s' outs] evs] eqn:E.
        apply start_spec in E as [L [snt [a' [HL [Ho [He Hs]]]]]]; auto.
        fold (st cf n) in Hs, Ho. rewrite Ic in Ho, Hs. rewrite Inx, Iol in Hs. subst outs evs. simpl.
        split; [|intros ? ? ? []].
        assert (Hn0 : nsent cf n = 0) by (unfold nsent, rn; rewrite Hr; reflexivity).
        apply (Inv2_grow cf _ n L H2).
        * apply HL.
        * intros x Hx. unfold st; simpl. rewrite upd_node_other; auto.
        * unfold st at 1; simpl. rewrite upd_node_same. simpl. subst s'. simpl.
          fold (st cf n). rewrite Iol, Hn0. reflexivity.
        * intros x. unfold nsent, rn, st; simpl. unfold upd_node.
          destruct (Z.eqb_spec x n) as [->|Hx]; simpl; [rewrite Hr; lia | lia].
        * intros _. unfold nsent at 2. unfold rn, st; simpl. rewrite upd_node_same. simpl. lia.
        * intros a b m Hin. simpl in Hin. rewrite reinject_all_spec, send_all_spec in Hin.
          unfold reinject in Hin. rewrite Hn0.
          assert (Hx : In m (if Z.eqb a n then chan cf a b ++ to_y b (wl 0 L) else chan cf a b) ->
                       In m (chan cf a b) \/ In (a, m) (w_held (nodes cf b)) \/
                       a = n /\ (exists x, m = mkW 0 x /\ In (b, x) L)).
          { destruct (Z.eqb_spec a n) as [->|Ha]; auto.
            intros Hm. apply in_app_or in Hm as [Hm|Hm]; auto.
            right. right. split; auto. now apply In_to_y. }
          destruct (Z.eqb_spec b n) as [->|Hb]; auto.
          apply in_app_or in Hin as [Hin|Hin]; auto.
          right. left. now apply In_from.
        * intros a b m Hin. simpl in Hin. unfold upd_node in Hin.
          destruct (Z.eqb_spec b n) as [->|Hb]; simpl in Hin; [contradiction | auto].
        * intros a b m Hin. unfold st in Hin |- *; simpl in *. unfold upd_node in *.
          destruct (Z.eqb_spec b n) as [->|Hb]; simpl in *.
          -- subst s'. simpl in Hin. contradiction.
          -- split; auto. apply (P_cyc cf H2 a b m Hin).
        * intros a b m Hin. unfold st in Hin |- *; simpl in *. unfold upd_node in *.
          destruct (Z.eqb_spec b n) as [->|Hb]; simpl in *.
          -- subst s'. simpl in Hin. contradiction.
          -- split; auto. apply (P_nxt cf H2 a b m Hin).
    - (* Deliver *)
      destruct (chan cf a0 b0) as [|m q] eqn:Hc; simpl.
      + split; [exact H2 | intros ? ? ? []].
      + assert (Hq_in : forall a b x, In x (upd_chan (chan cf) a0 b0 q a b) -> In x (chan cf a b)).
        { intros a b x. unfold upd_chan.
          destruct (Z.eqb_spec a a0) as [->|Ha]; destruct (Z.eqb_spec b b0) as [->|Hb]; simpl; auto.
          rewrite Hc. simpl; auto. }
        assert (Hm_in : In m (chan cf a0 b0)) by (rewrite Hc; simpl; auto).
        destruct (w_running (nodes cf b0)) eqn:Hr; simpl.
        2:{ split; [|intros ? ? ? []].
            apply (Inv2_grow cf _ b0 [] H2).
            - constructor.
            - intros x Hx. unfold st; simpl. rewrite upd_node_other; auto.
            - unfold st at 1; simpl. rewrite upd_node_same. simpl. rewrite app_nil_r. reflexivity.
            - intros x. unfold nsent, rn, st; simpl. unfold upd_node.
              destruct (Z.eqb_spec x b0) as [->|Hx]; simpl; [rewrite Hr|]; lia.
            - intros Hc'. congruence.
            - intros a b x Hin. simpl in Hin. left. eapply Hq_in; eauto.
            - intros a b x Hin. simpl in Hin. unfold upd_node in Hin.
              destruct (Z.eqb_spec b b0) as [->|Hb]; simpl in Hin; auto.
              apply in_app_or in Hin as [Hin|[Hin|[]]]; auto. inversion Hin; subst. auto.
            - intros a b x Hin. unfold st in Hin |- *; simpl in *. unfold upd_node in *.
              destruct (Z.eqb_spec b b0) as [->|Hb]; simpl in *;
                (split; [apply (P_cyc cf H2 a _ x Hin) | auto]).
            - intros a b x Hin. unfold st in Hin |- *; simpl in *. unfold upd_node in *.
              destruct (Z.eqb_spec b b0) as [->|Hb]; simpl in *;
                (split; [apply (P_nxt cf H2 a _ x Hin) | auto]). }
        destruct (recv_cases cf a0 b0 m q HI Hr Hc) as [Hnb [Hne [Hkn [Hst [Hq [Hle Hcases]]]]]].
        fold (st cf b0) in *.
        set (s := st cf b0) in *.
        destruct (I_keys cf HI b0) as [Hnd Hincl]. fold s in Hnd, Hincl.
        assert (Hnsb0 : nsent cf b0 = S (cur s)) by (unfold nsent, rn; rewrite Hr; reflexivity).
        destruct Hcases as [[Hkc [Hsm [Hlen Hrecv]]] | [[Hkc [Hsm [Hlen Hrecv]]] | [Hkc [Hsm Hrecv]]]];
          unfold SP in *; simpl; fold s; rewrite Hrecv.
        * (* accepted, no switch *)
          simpl. split; [|intros ? ? ? []].
          apply (Inv2_grow cf _ b0 [] H2).
          -- constructor.
          -- intros x Hx. unfold st; simpl. rewrite upd_node_other; auto.
          -- unfold st at 1; simpl. rewrite upd_node_same. simpl. rewrite app_nil_r. reflexivity.
          -- intros x. unfold nsent, rn, st; simpl. unfold upd_node.
             destruct (Z.eqb_spec x b0) as [->|Hx]; simpl; [rewrite Hr; unfold s, st|]; lia.
          -- intros Hc'. congruence.
          -- intros a b x Hin. simpl in Hin. left. eapply Hq_in; eauto.
          -- intros a b x Hin. simpl in Hin. unfold upd_node in Hin.
             destruct (Z.eqb_spec b b0) as [->|Hb]; simpl in Hin; auto.
          -- intros a b x Hin. unfold st in Hin |- *; simpl in *. unfold upd_node in *.
             destruct (Z.eqb_spec b b0) as [->|Hb]; simpl in *.
             ++ apply in_app_or in Hin as [Hin|[Hin|[]]].
                ** split; [apply (P_cyc cf H2 a b0 x Hin) | auto].
                ** inversion Hin; subst. split; auto.
             ++ split; [apply (P_cyc cf H2 a _ x Hin) | auto].
          -- intros a b x Hin. unfold st in Hin |- *; simpl in *. unfold upd_node in *.
             destruct (Z.eqb_spec b b0) as [->|Hb]; simpl in *;
               (split; [apply (P_nxt cf H2 a _ x Hin) | auto]).
        * (* switch *)
          destruct (switch_cycle nbrs G b0 _) as [[s' outs] evs] eqn:E.
          apply switch_spec in E as [L [snt [a' [HL [Ho [He Hs]]]]]]. simpl in Ho, He, Hs.
          subst outs evs. simpl. split.
          -- apply (Inv2_grow cf _ b0 L H2).
             ++ apply HL.
             ++ intros x Hx. unfold st; simpl. rewrite upd_node_other; auto.
             ++ unfold st at 1; simpl. rewrite upd_node_same. simpl. subst s'. simpl.
                rewrite Hnsb0. reflexivity.
             ++ intros x. unfold nsent, rn, st; simpl. unfold upd_node.
                destruct (Z.eqb_spec x b0) as [->|Hx]; simpl; [rewrite Hr; subst s'; simpl; unfold s, st|]; lia.
             ++ intros _. unfold nsent at 2. unfold rn, st; simpl. rewrite upd_node_same. simpl.
                subst s'. simpl. lia.
             ++ intros a b x Hin. simpl in Hin. rewrite send_all_spec in Hin. rewrite Hnsb0.
                destruct (Z.eqb_spec a b0) as [->|Ha].
                ** apply in_app_or in Hin as [Hin|Hin].
                   --- left. eapply Hq_in; eauto.
                   --- right. right. split; auto. now apply In_to_y.
                ** left. eapply Hq_in; eauto.
             ++ intros a b x Hin. simpl in Hin. unfold upd_node in Hin.
                destruct (Z.eqb_spec b b0) as [->|Hb]; simpl in Hin; auto.
             ++ intros a b x Hin. unfold st in Hin |- *; simpl in *. unfold upd_node in *.
                destruct (Z.eqb_spec b b0) as [->|Hb]; simpl in *.
                ** subst s'. simpl in *. split; [apply (P_nxt cf H2 a b0 x Hin) | auto].
                ** split; [apply (P_cyc cf H2 a _ x Hin) | auto].
             ++ intros a b x Hin. unfold st in Hin |- *; simpl in *. unfold upd_node in *.
                destruct (Z.eqb_spec b b0) as [->|Hb]; simpl in *.
                ** subst s'. simpl in Hin. contradiction.
                ** split; [apply (P_nxt cf H2 a _ x Hin) | auto].
          -- (* what on_new_cycle is handed *)
             intros n k msgs [Hev|[]]. inversion Hev; subst n k msgs. clear Hev.
             assert (Hnd1 : NoDup (map fst (cyc s ++ [(a0, m)]))).
             { rewrite map_app. simpl. apply NoDup_app_intro; auto.
               - constructor; [intros []|constructor].
               - intros y Hy [<-|[]]. apply keymem_In in Hy. congruence. }
             assert (Hin1 : incl (map fst (cyc s ++ [(a0, m)])) (nbrs b0)).
             { rewrite map_app. simpl. intros y Hy. apply in_app_or in Hy as [Hy|[<-|[]]]; auto. }
             split; [reflexivity|]. split; [now apply algo_messages_nodup|].
             split; [intros y Hy; apply Hin1; now apply algo_messages_keys|].
             intros a Ha.
             assert (Hrev : incl (nbrs b0) (map fst (cyc s ++ [(a0, m)]))).
             { apply NoDup_length_incl; auto. rewrite map_length. simpl in Hlen. lia. }
             specialize (Hrev a Ha). apply in_map_iff in Hrev as [[a1 w] [E1 Hw]]. simpl in E1. subst a1.
             exists (body w). split.
             ++ apply in_app_or in Hw as [Hw|[Hw|[]]].
                ** destruct (P_cyc cf H2 a b0 w Hw) as [Hs1 Hl]. unfold logged in Hl.
                   fold s in Hs1. rewrite Hs1 in Hl. exact Hl.
                ** inversion Hw; subst. pose proof (P_chan cf H2 a b0 w Hm_in) as Hl.
                   unfold logged in Hl. rewrite Hsm in Hl. exact Hl.
             ++ apply algo_messages_lookup; auto.
        * (* stored for next cycle *)
          simpl. rewrite dict_set_fresh; auto. split; [|intros ? ? ? []].
          apply (Inv2_grow cf _ b0 [] H2).
          -- constructor.
          -- intros x Hx. unfold st; simpl. rewrite upd_node_other; auto.
          -- unfold st at 1; simpl. rewrite upd_node_same. simpl. rewrite app_nil_r. reflexivity.
          -- intros x. unfold nsent, rn, st; simpl. unfold upd_node.
             destruct (Z.eqb_spec x b0) as [->|Hx]; simpl; [rewrite Hr; unfold s, st|]; lia.
          -- intros Hc'. congruence.
          -- intros a b x Hin. simpl in Hin. left. eapply Hq_in; eauto.
          -- intros a b x Hin. simpl in Hin. unfold upd_node in Hin.
             destruct (Z.eqb_spec b b0) as [->|Hb]; simpl in Hin; auto.
          -- intros a b x Hin. unfold st in Hin |- *; simpl in *. unfold upd_node in *.
             destruct (Z.eqb_spec b b0) as [->|Hb]; simpl in *;
               (split; [apply (P_cyc cf H2 a _ x Hin) | auto]).
          -- intros a b x Hin. unfold st in Hin |- *; simpl in *. unfold upd_node in *.
             destruct (Z.eqb_spec b b0) as [->|Hb]; simpl in *.
             ++ apply in_app_or in Hin as [Hin|[Hin|[]]].
                ** split; [apply (P_nxt cf H2 a b0 x Hin) | auto].
                ** inversion Hin; subst. split; auto.
             ++ split; [apply (P_nxt cf H2 a _ x Hin) | auto].
  Qed.
  (* ================================================================ Part 3: all schedules *)
  Lemma reachable_inv cf : reachable SP cf -> Inv cf /\ Inv2 cf.
  Proof.
    induction 1 as [|cf a _ [HI H2]].
    - split; [apply Inv_init | apply Inv2_init].
    - split; [apply step_facts; auto | apply step_facts2; auto].
  Qed.

  Lemma count_cyc_app x e1 e2 : count_cyc x (e1 ++ e2) = count_cyc x e1 + count_cyc x e2.
  Proof. induction e1 as [|[n k m|n k] r IH]; simpl; auto. rewrite IH. lia. Qed.

  Lemma cycle_ids_app x e1 e2 : cycle_ids x (e1 ++ e2) = cycle_ids x e1 ++ cycle_ids x e2.
  Proof. unfold cycle_ids. apply flat_map_app. Qed.

  Lemma exec_facts sched : forall cf, Inv cf ->
    (forall n k, ~ In (EvRaise n k) (snd (exec SP cf sched))) /\
    (forall x, cycle_ids x (snd (exec SP cf sched)) = seq (cur (st cf x)) (count_cyc x (snd (exec SP cf sched)))
               /\ cur (st (fst (exec SP cf sched)) x) = cur (st cf x) + count_cyc x (snd (exec SP cf sched))).
  Proof.
    induction sched as [|a r IH]; intros cf HI; simpl.
    - split; [intros ? ? []|]. intros x. split; [reflexivity | lia].
    - destruct (step_facts cf a HI) as [HI1 [Hnr [Hcur Hids]]].
      destruct (step SP cf a) as [cf1 e1] eqn:E1. simpl in *.
      destruct (IH cf1 HI1) as [Hnr2 Hx2].
      destruct (exec SP cf1 r) as [cf2 e2] eqn:E2. simpl in *.
      split.
      + intros n k Hin. apply in_app_or in Hin as [Hin|Hin]; [eapply Hnr | eapply Hnr2]; eauto.
      + intros x. destruct (Hx2 x) as [Hi2 Hc2].
        rewrite cycle_ids_app, count_cyc_app, Hids, Hi2, Hc2, !Hcur. split; [|lia].
        rewrite seq_app. reflexivity.
  Qed.

  Theorem no_error_l sched : forall n k, ~ In (EvRaise n k) (snd (run SP sched)).
  Proof. apply exec_facts. apply Inv_init. Qed.

  Theorem rounds_consecutive_l sched x :
    cycle_ids x (snd (run SP sched)) = seq 0 (count_cyc x (snd (run SP sched))) /\
    cur (st (fst (run SP sched)) x) = count_cyc x (snd (run SP sched)).
  Proof.
    destruct (exec_facts sched (init SP) Inv_init) as [_ H]. destruct (H x) as [H1 H2].
    unfold run. split; [exact H1 | exact H2].
  Qed.

  Theorem one_apart_l cf a b :
    reachable SP cf -> In a (nbrs b) -> rn cf a = true -> rn cf b = true ->
    cur (st cf a) <= S (cur (st cf b)).
  Proof.
    intros Hre Hab Ha Hb. apply reachable_inv in Hre as [HI _].
    pose proof (nsent_le cf a b HI Hab) as H. unfold nsent in H. rewrite Ha, Hb in H. lia.
  Qed.

  Theorem round_inputs_l cf act n k msgs :
    reachable SP cf -> In (EvCycle n k msgs) (snd (step SP cf act)) ->
    k = cur (st cf n) /\ NoDup (map fst msgs) /\ incl (map fst msgs) (nbrs n) /\
    (forall a, In a (nbrs n) -> exists x, In (k, n, x) (outlog (st cf a)) /\ zlookup a msgs = x).
  Proof.
    intros Hre Hin. apply reachable_inv in Hre as [HI H2].
    destruct (step_facts2 cf act HI H2) as [_ H]. eapply H; eauto.
  Qed.

  Theorem log_unique_l cf a k t x y :
    reachable SP cf -> In (k, t, x) (outlog (st cf a)) -> In (k, t, y) (outlog (st cf a)) -> x = y.
  Proof. intros Hre. apply reachable_inv in Hre as [_ H2]. apply (P_uniq cf H2). Qed.

  Lemma exists_min (f : node -> nat) (l : list node) :
    l <> [] -> exists x, In x l /\ forall y, In y l -> f x <= f y.
  Proof.
    induction l as [|z r IH]; [congruence|]. intros _.
    destruct r as [|z' r'].
    - exists z. split; [left; auto|]. intros y [<-|[]]. lia.
    - destruct IH as [x [Hx Hmin]]; [congruence|].
      destruct (le_lt_dec (f z) (f x)) as [Hle|Hlt].
      + exists z. split; [left; auto|]. intros y [<-|Hy]; [lia|]. specialize (Hmin y Hy). lia.
      + exists x. split; [right; auto|]. intros y [<-|Hy]; [lia|]. auto.
  Qed.

  Definition has_nbrs (x : node) : bool := match nbrs x with [] => false | _ => true end.

  (* the rounds never stop: with every computation of a neighbour-closed set started and at
     least one edge, some message is always in flight (no deadlock) *)
  Theorem never_stuck_l cf V :
    reachable SP cf ->
    (forall x, In x V -> rn cf x = true) ->
    (forall x, In x V -> incl (nbrs x) V) ->
    (exists x, In x V /\ nbrs x <> []) ->
    ~ (forall a b, chan cf a b = []).
  Proof.
    intros Hre Hrun Hclosed [x0 [Hx0 Hn0]] Hempty.
    apply reachable_inv in Hre as [HI _].
    set (V' := filter has_nbrs V).
    assert (HV' : V' <> []).
    { intros Hc. assert (In x0 V') as Hin.
      { apply filter_In. split; auto. unfold has_nbrs. destruct (nbrs x0); congruence. }
      rewrite Hc in Hin. contradiction. }
    destruct (exists_min (fun x => cur (st cf x)) V' HV') as [b [Hb Hmin]].
    apply filter_In in Hb as [HbV Hbn].
    assert (Hbne : nbrs b <> []) by (unfold has_nbrs in Hbn; destruct (nbrs b); congruence).
    assert (Hall : forall a, In a (nbrs b) -> keymem a (cyc (st cf b)) = true).
    { intros a Ha.
      assert (HaV : In a V) by (eapply Hclosed; eauto).
      assert (HaV' : In a V').
      { apply filter_In. split; auto. unfold has_nbrs.
        pose proof (Hsym a b Ha) as Hs. destruct (nbrs a); [contradiction|reflexivity]. }
      specialize (Hmin a HaV'). simpl in Hmin.
      destruct (I_pipe cf HI a b Ha) as [Hseq Hle].
      unfold pipe in Hseq. rewrite (I_held cf HI b (Hrun b HbV)), Hempty in Hseq. simpl in Hseq.
      assert (Hz : nsent cf a - acc cf b a = 0).
      { destruct (nsent cf a - acc cf b a); [reflexivity | discriminate]. }
      unfold nsent in Hz, Hle. rewrite (Hrun a HaV) in Hz, Hle. unfold acc in Hz, Hle.
      pose proof (I_nxt cf HI a b) as Hnx. unfold keyb in *.
      destruct (keymem a (cyc (st cf b))); auto.
      destruct (keymem a (nxt (st cf b))); [specialize (Hnx eq_refl); discriminate | lia]. }
    assert (Hincl : incl (nbrs b) (map fst (cyc (st cf b)))).
    { intros a Ha. apply keymem_In. auto. }
    pose proof (NoDup_incl_length (Hnodup b) Hincl) as Hl. rewrite map_length in Hl.
    pose proof (I_open cf HI b Hbne). lia.
  Qed.
End Proofs.

(* ================================================================ closed statements *)
Definition graph_ok (nbrs : node -> list node) : Prop :=
  (forall a, NoDup (nbrs a)) /\ (forall a b, In a (nbrs b) -> In b (nbrs a)) /\ (forall a, ~ In a (nbrs a)).

(* the mixin's documented contract for the hosted algorithm: in one round it addresses each
   neighbour at most once, and only neighbours *)
Definition algo_ok {A P} (nbrs : node -> list node) (G : algo A P) : Prop :=
  (forall n st, targets_ok nbrs n (snd (a_start G n st))) /\
  (forall n st k msgs,
     targets_ok nbrs n (snd (fst (a_cycle G n st k msgs)) ++ snd (a_cycle G n st k msgs))).

Section Closed.
  Context {A P : Type} (nbrs : node -> list node) (G : algo A P).
  Hypothesis HG : graph_ok nbrs.
  Hypothesis HA : algo_ok nbrs G.
  Let SPx := sync_proto nbrs G.

  Lemma sync_no_error_l : forall sched n k, ~ In (EvRaise n k) (snd (run SPx sched)).
  Proof.
    destruct HG as [H1 [H2 H3]], HA as [H4 H5]. intros sched.
    exact (no_error_l nbrs G H1 H4 H5 H2 H3 sched).
  Qed.

  Lemma sync_rounds_consecutive_l : forall sched x,
    cycle_ids x (snd (run SPx sched)) = seq 0 (count_cyc x (snd (run SPx sched))) /\
    cur (w_st (nodes (fst (run SPx sched)) x)) = count_cyc x (snd (run SPx sched)).
  Proof.
    destruct HG as [H1 [H2 H3]], HA as [H4 H5]. intros sched x.
    exact (rounds_consecutive_l nbrs G H1 H4 H5 H2 H3 sched x).
  Qed.

  Lemma sync_neighbours_one_apart_l : forall cf a b,
    reachable SPx cf -> In a (nbrs b) ->
    w_running (nodes cf a) = true -> w_running (nodes cf b) = true ->
    cur (w_st (nodes cf a)) <= S (cur (w_st (nodes cf b))).
  Proof.
    destruct HG as [H1 [H2 H3]], HA as [H4 H5]. intros cf a b.
    exact (one_apart_l nbrs G H1 H4 H5 H2 H3 cf a b).
  Qed.

  Lemma sync_round_inputs_l : forall cf act n k msgs,
    reachable SPx cf -> In (EvCycle n k msgs) (snd (step SPx cf act)) ->
    k = cur (w_st (nodes cf n)) /\ NoDup (map fst msgs) /\ incl (map fst msgs) (nbrs n) /\
    (forall a, In a (nbrs n) ->
       exists x, In (k, n, x) (outlog (w_st (nodes cf a))) /\ zlookup a msgs = x).
  Proof.
    destruct HG as [H1 [H2 H3]], HA as [H4 H5]. intros cf act n k msgs.
    exact (round_inputs_l nbrs G H1 H4 H5 H2 H3 cf act n k msgs).
  Qed.

  Lemma sync_log_unique_l : forall cf a k t x y,
    reachable SPx cf ->
    In (k, t, x) (outlog (w_st (nodes cf a))) -> In (k, t, y) (outlog (w_st (nodes cf a))) -> x = y.
  Proof.
    destruct HG as [H1 [H2 H3]], HA as [H4 H5]. intros cf a k t x y.
    exact (log_unique_l nbrs G H1 H4 H5 H2 H3 cf a k t x y).
  Qed.

  Lemma sync_never_stuck_l : forall cf V,
    reachable SPx cf ->
    (forall x, In x V -> w_running (nodes cf x) = true) ->
    (forall x, In x V -> incl (nbrs x) V) ->
    (exists x, In x V /\ nbrs x <> []) ->
    ~ (forall a b, chan cf a b = []).
  Proof.
    destruct HG as [H1 [H2 H3]], HA as [H4 H5]. intros cf V.
    exact (never_stuck_l nbrs G H1 H4 H5 H2 H3 cf V).
  Qed.
End Closed.
