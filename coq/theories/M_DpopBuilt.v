(* M_DpopBuilt.v -- C01 x C17: the DPOP instance that DpopAlgo.__init__ receives when the
   pseudo-tree is the one pseudotree.build_computation_graph builds for the DCOP.

   [rdcop] is a DCOP WITHOUT a pseudo-tree: objective, variables in dcop.variables order, domain
   sizes, variable costs, constraints in dcop.constraints order (constraint id = position, as in
   M_PseudoTree).  [graph_of] is the constraint graph handed to the builder (variables + the scope
   of every constraint in `dimensions` order), [dpop_of_built R t] plugs a tree [t] of M_PseudoTree
   (one ptnode per computation node: parent / children / pseudo-parents / pseudo-children as
   get_dfs_relations returns them, node.constraints) into the input record of M_Dpop:
   DpopAlgo.__init__ reads exactly these five things from its ComputationDef, and the ownership
   filter it applies to node.constraints is M_Dpop.owned.  [dpop_of R] runs the model of the real
   builder (M_PseudoTree.build) and is the instance DPOP runs on.

   Correspondence: [check_case] = the schedule replay + dpop_check of M_DpopValid, AND the dcop +
   tree the driver extracted from the real objects is, field by field and in list order,
   [dpop_of (raw_of P)] ([built_ok]) -- i.e. the translation below composed with the builder model yields the
   very input the real DpopAlgo objects were built from -- AND the executable hypothesis
   [wf_rdcopb] of the end-to-end theorem holds for the real DCOP.  Definitions only. *)
From PyDcop Require Import Base Net M_Dpop M_DpopValid M_PseudoTree M_PseudoTree2.

Record rdcop := mkRD {
  rd_mode : dmode;
  rd_vars : list Z;                 (* dcop.variables, in order *)
  rd_dom : list (Z * Z);            (* variable -> domain size *)
  rd_vcost : list (Z * list Z);     (* variable -> cost_for_val of each domain value *)
  rd_cons : list rel                (* dcop.constraints, in order: (dimensions, cost table) *)
}.

Definition graph_of (R : rdcop) : graph := mkGraph (rd_vars R) (map r_dims (rd_cons R)).

Definition rd_size (R : rdcop) (x : Z) : nat :=
  match zlookup x (rd_dom R) with Some k => Z.to_nat k | None => O end.

Fixpoint number_from {A} (i : Z) (l : list A) : list (Z * A) :=
  match l with
  | [] => []
  | x :: r => (i, x) :: number_from (i + 1) r
  end.

Definition pn_of_node (n : ptnode) : pnode :=
  mkPN (n_id n) (n_parent n) (n_children n) (n_pps n) (n_pcs n) (n_rels n).

Definition dpop_of_built (R : rdcop) (t : tree) : dcop :=
  mkDcop (rd_mode R) (rd_dom R) (rd_vcost R) (number_from 0 (rd_cons R)) (map pn_of_node t).

(* the builder model of C17 followed by the translation; None = recursion fuel of the builder
   model exhausted (excluded for every well-formed graph by build_no_fuel_exhaustion) *)
Definition dpop_of (R : rdcop) : option dcop :=
  match M_PseudoTree.build (graph_of R) with
  | Some (_, t) => Some (dpop_of_built R t)
  | None => None
  end.

(* executable form of the hypothesis of the end-to-end theorem: well-formed constraint graph
   (distinct variables, no constraint lists a variable twice, scopes range over the variables),
   every variable has a non-empty domain, no constraint has an empty scope *)
Definition nonnil {A} (l : list A) : bool := match l with [] => false | _ => true end.
Definition wf_rdcopb (R : rdcop) : bool :=
  wf_graphb (graph_of R)
  && forallb (fun x => Nat.ltb 0 (rd_size R x)) (rd_vars R)
  && forallb (fun r => nonnil (r_dims r)) (rd_cons R).

(* ---- correspondence ---- *)
Definition raw_of (P : dcop) : rdcop :=
  mkRD (dc_mode P) (map fst (dc_dom P)) (dc_dom P) (dc_vcost P) (map snd (dc_cons P)).

Definition pnode_eqb (a b : pnode) : bool :=
  Z.eqb (pn_id a) (pn_id b) && option_eqb Z.eqb (pn_parent a) (pn_parent b)
  && M_Dpop.zl_eqb (pn_children a) (pn_children b) && M_Dpop.zl_eqb (pn_pps a) (pn_pps b)
  && M_Dpop.zl_eqb (pn_pcs a) (pn_pcs b) && M_Dpop.zl_eqb (pn_cons a) (pn_cons b).

(* P is [dpop_of (raw_of P)]: mode, domains, variable costs and cost tables are copied by raw_of,
   so what has to be compared is (1) the constraint ids of P are the positions 0, 1, ... of the
   constraints in dcop.constraints order and (2) the pseudo-tree part of P (node list in graph.nodes
   order; parent, children, pseudo-parents, pseudo-children, node.constraints of every node, in
   order) is the output of the builder model on the constraint graph of P.  Together with
   [wf_rdcopb]: the executable hypothesis of the end-to-end theorem (P_DpopBuilt.built_ok_correct_l
   proves  built_ok P = true -> DPOP is correct on P for every schedule). *)
Definition built_ok (P : dcop) : bool :=
  let R := raw_of P in
  wf_rdcopb R
  && M_Dpop.zl_eqb (map fst (dc_cons P)) (zrange_from 0 (List.length (dc_cons P)))
  && match M_PseudoTree.build (graph_of R) with
     | Some (_, t) => list_eqb pnode_eqb (map pn_of_node t) (dc_tree P)
     | None => false
     end.

Definition check_case (c : M_Dpop.case) : bool :=
  M_DpopValid.check_case c && built_ok (c_dcop c).
