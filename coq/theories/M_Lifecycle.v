(* M_Lifecycle.v -- executable model of MessagePassingComputation's start / stop / pause /
   on_message / post_msg (pydcop/infrastructure/computations.py) composed with the hosting
   agent's message queue (M_Messaging.qinsert: Messaging.post_msg / next_msg for a local,
   registered destination) -- property C19.  Models only; proofs are in P_Lifecycle.v.

   One computation [l_me].  The queue holds the messages addressed to it.  Its message_sender
   is the agent's Messaging.post_msg: every call is logged in [l_calls]; a call whose
   destination is the computation itself puts the message in the queue (this is how start /
   resume re-inject held messages, with msg_type 19); other destinations live elsewhere. *)
From PyDcop Require Import Base M_Messaging.

Definition REINJECT : Z := 19.

Record call := mkCall { k_src : Z; k_dst : Z; k_id : Z; k_prio : option Z }.

Record lstate := mkL {
  l_me : Z;
  l_queue : list qent;                 (* agent's _queue restricted to this destination *)
  l_cnt : Z;                           (* msg_queue_count *)
  l_running : bool;                    (* _running *)
  l_paused : bool;                     (* _is_paused *)
  l_brecv : list (Z * Z);              (* _paused_messages_recv : (sender, msg) *)
  l_bpost : list (Z * Z * option Z);   (* _paused_messages_post : (target, msg, prio) *)
  l_handled : list (Z * Z);            (* log: handler invocations (sender, msg) *)
  l_calls : list call                  (* log: message_sender(src, dst, msg, prio) calls *)
}.

Definition linit (c : Z) : lstate := mkL c [] 0 false false [] [] [] [].

Definition lset_queue st q c := mkL (l_me st) q c (l_running st) (l_paused st) (l_brecv st) (l_bpost st) (l_handled st) (l_calls st).
Definition lset_running st b := mkL (l_me st) (l_queue st) (l_cnt st) b (l_paused st) (l_brecv st) (l_bpost st) (l_handled st) (l_calls st).
Definition lset_paused st b := mkL (l_me st) (l_queue st) (l_cnt st) (l_running st) b (l_brecv st) (l_bpost st) (l_handled st) (l_calls st).
Definition lset_brecv st x := mkL (l_me st) (l_queue st) (l_cnt st) (l_running st) (l_paused st) x (l_bpost st) (l_handled st) (l_calls st).
Definition lset_bpost st x := mkL (l_me st) (l_queue st) (l_cnt st) (l_running st) (l_paused st) (l_brecv st) x (l_handled st) (l_calls st).
Definition lset_handled st x := mkL (l_me st) (l_queue st) (l_cnt st) (l_running st) (l_paused st) (l_brecv st) (l_bpost st) x (l_calls st).
Definition lset_calls st x := mkL (l_me st) (l_queue st) (l_cnt st) (l_running st) (l_paused st) (l_brecv st) (l_bpost st) (l_handled st) x.

(* Messaging.post_msg(src, me, msg, ty) for the local registered destination [me] *)
Definition lenqueue (st : lstate) (src id : Z) (ty : option Z) : lstate :=
  let t := with_type ty in
  lset_queue st (qinsert (mkQ t (l_cnt st + 1) (mkMsg src (l_me st) id t)) (l_queue st)) (l_cnt st + 1).

(* self._msg_sender(src, dst, msg, prio) *)
Definition sender (st : lstate) (src dst id : Z) (prio : option Z) : lstate :=
  let st1 := lset_calls st (l_calls st ++ [mkCall src dst id prio]) in
  if dst =? l_me st then lenqueue st1 src id prio else st1.

(* on_message(sender, msg, t) *)
Definition on_message (st : lstate) (src id : Z) : lstate :=
  if negb (l_paused st) && l_running st
  then lset_handled st (l_handled st ++ [(src, id)])
  else lset_brecv st (l_brecv st ++ [(src, id)]).

(* while self._paused_messages_recv: src, msg, t = <take the oldest>; _msg_sender(src, name, msg, 19) *)
Definition reinject (st : lstate) : lstate :=
  fold_left (fun s p => sender s (fst p) (l_me s) (snd p) (Some REINJECT)) (l_brecv st) (lset_brecv st []).

(* post_msg(target, msg, prio) *)
Definition lpost (st : lstate) (tgt id : Z) (prio : option Z) : lstate :=
  if negb (l_paused st) then sender st (l_me st) tgt id prio
  else lset_bpost st (l_bpost st ++ [(tgt, id, prio)]).

Definition lstart (st : lstate) : lstate := reinject (lset_running st true).
Definition lstop (st : lstate) : lstate := lset_running st false.

(* pause(is_paused) *)
Definition lpause (st : lstate) (b : bool) : lstate :=
  let st1 := if Bool.eqb (l_paused st) b then st else lset_paused st b in
  if b then st1
  else
    let st2 := fold_left (fun s p => lpost s (fst (fst p)) (snd (fst p)) (snd p))
                         (l_bpost st1) (lset_bpost st1 []) in
    reinject st2.

(* agent loop: next_msg + _handle_message -> on_message *)
Definition lnext (st : lstate) : lstate :=
  match l_queue st with
  | [] => st
  | e :: r => on_message (lset_queue st r (l_cnt st)) (m_src (q_msg e)) (m_id (q_msg e))
  end.

Inductive lop :=
| Recv (src id : Z) (ty : option Z)     (* a message for the computation reaches the agent *)
| LNext
| Start | Stop | Pause | Resume
| LPost (tgt id : Z) (prio : option Z).  (* the computation posts a message *)

Definition lstep (st : lstate) (o : lop) : lstate :=
  match o with
  | Recv s i t => lenqueue st s i t
  | LNext => lnext st
  | Start => lstart st
  | Stop => lstop st
  | Pause => lpause st true
  | Resume => lpause st false
  | LPost t i p => lpost st t i p
  end.

Definition lrun (st : lstate) (ops : list lop) : lstate := fold_left lstep ops st.

(* ---------- the guard of the ordering theorem ----------
   A re-injection (start / resume with a non-empty receive buffer) is "safe" when the queue
   holds no message of type <= 19, i.e. no message re-injected earlier is still waiting. *)
Definition reinjects (o : lop) : bool :=
  match o with Start | Resume => true | _ => false end.
Definition urgent_queued (st : lstate) : bool := existsb (fun e => q_type e <=? REINJECT) (l_queue st).
Definition safe_step (st : lstate) (o : lop) : bool :=
  negb (reinjects o && negb (match l_brecv st with [] => true | _ => false end) && urgent_queued st).
Fixpoint safe_run (st : lstate) (ops : list lop) : bool :=
  match ops with
  | [] => true
  | o :: r => safe_step st o && safe_run (lstep st o) r
  end.

(* what the history received / posted, in order *)
Definition received (ops : list lop) : list (Z * Z) :=
  flat_map (fun o => match o with Recv s i _ => [(s, i)] | _ => [] end) ops.
Definition posted (me : Z) (ops : list lop) : list call :=
  flat_map (fun o => match o with LPost t i p => [mkCall me t i p] | _ => [] end) ops.
(* every received message has the same effective type t (None = MSG_ALGO) *)
Definition uniform_types (t : Z) (ops : list lop) : bool :=
  forallb (fun o => match o with Recv _ _ ty => with_type ty =? t | _ => true end) ops.
Definition posts_elsewhere (me : Z) (ops : list lop) : bool :=
  forallb (fun o => match o with LPost t _ _ => negb (t =? me) | _ => true end) ops.

(* ---------- a message_sender that raises (fault stream) ----------
   [F] = payload ids on which the communication layer raises when the computation's own post
   towards another computation is handed to message_sender (UnreachableAgent / UnknownAgent with
   on_error='fail').  What the code does with the exception: it propagates to the caller.
   post_msg (not paused): the call was made, nothing else changes.  pause(False): the flag is
   already False, the message being sent has been popped (it is lost), the rest of
   _paused_messages_post stays buffered and the re-injection of held receptions is skipped.
   The theorems are about [lrun] (no failure); this semantics is tied to the code by the
   correspondence run only, and [check_case] checks that it coincides with [lrun] when F = []. *)
Definition fails (F : list Z) (me tgt id : Z) : bool := zmem id F && negb (tgt =? me).

(* while self._paused_messages_post: target, msg, prio, e = pop(0); self.post_msg(...) *)
Fixpoint fflush (F : list Z) (B : list (Z * Z * option Z)) (st : lstate) : lstate * bool :=
  match B with
  | [] => (lset_bpost st [], false)
  | p :: r =>
      let st1 := lpost (lset_bpost st r) (fst (fst p)) (snd (fst p)) (snd p) in
      if fails F (l_me st) (fst (fst p)) (snd (fst p)) then (st1, true) else fflush F r st1
  end.

Definition fstep (F : list Z) (st : lstate) (o : lop) : lstate * bool :=
  match o with
  | LPost t i p =>
      if negb (l_paused st) then (sender st (l_me st) t i p, fails F (l_me st) t i)
      else (lpost st t i p, false)
  | Resume =>
      let st1 := if Bool.eqb (l_paused st) false then st else lset_paused st false in
      let '(st2, raised) := fflush F (l_bpost st1) st1 in
      if raised then (st2, true) else (reinject st2, false)
  | _ => (lstep st o, false)
  end.

Fixpoint frun (F : list Z) (st : lstate) (ops : list lop) : lstate * list bool :=
  match ops with
  | [] => (st, [])
  | o :: r => let '(st1, x) := fstep F st o in
              let '(st2, xs) := frun F st1 r in (st2, x :: xs)
  end.

(* ---------- correspondence ---------- *)
Definition call_eqb (a b : call) : bool :=
  (k_src a =? k_src b) && (k_dst a =? k_dst b) && (k_id a =? k_id b)
  && option_eqb Z.eqb (k_prio a) (k_prio b).
Definition zz_eqb := pair_eqb Z.eqb Z.eqb.

Record lcase := mkLCase {
  c_me : Z; c_ops : list lop;
  c_handled : list (Z * Z);                 (* observed handler invocations *)
  c_calls : list call;                      (* observed message_sender calls *)
  c_queue : list qent;                      (* observed final queue, sorted *)
  c_brecv : list (Z * Z);                   (* observed final _paused_messages_recv *)
  c_bpost : list (Z * Z * option Z);        (* observed final _paused_messages_post *)
  c_running : bool; c_paused : bool;
  c_safe : bool;                            (* observed: no unsafe re-injection happened *)
  c_fail : list Z;                          (* ids on which the driver's sender raises *)
  c_raised : list bool                      (* observed, per op: the call raised *)
}.
Definition case := lcase.

Definition state_matches (st : lstate) (c : case) : bool :=
  list_eqb zz_eqb (l_handled st) (c_handled c)
  && list_eqb call_eqb (l_calls st) (c_calls c)
  && list_eqb qent_eqb (l_queue st) (c_queue c)
  && list_eqb zz_eqb (l_brecv st) (c_brecv c)
  && list_eqb (pair_eqb zz_eqb (option_eqb Z.eqb)) (l_bpost st) (c_bpost c)
  && Bool.eqb (l_running st) (c_running c) && Bool.eqb (l_paused st) (c_paused c).

Definition check_case (c : case) : bool :=
  let '(fst_, raised) := frun (c_fail c) (linit (c_me c)) (c_ops c) in
  state_matches fst_ c && list_eqb Bool.eqb raised (c_raised c)
  && match c_fail c with
     | [] => (* failure-free: the function the theorems are about *)
         state_matches (lrun (linit (c_me c)) (c_ops c)) c
         && Bool.eqb (safe_run (linit (c_me c)) (c_ops c)) (c_safe c)
     | _ => true
     end.
