(* P_Ucs3.v -- C25 deepening, part 2: what a handler does to the tracker / _replica_hosts, and the
   global invariants (exactly one token per computation in progress). *)
From PyDcop Require Import Base Net M_Ucs P_Ucs P_Ucs2.
From Coq Require Import Lia ZifyBool.

(* ================================================================== 1. outcome of a handler *)
Section Outcome.
  Variable C : cfg.

  Definition same_tr (s s' : nstate) : Prop := s_inprog s' = s_inprog s /\ s_rhosts s' = s_rhosts s.

  Definition repl_tr (me c : Z) (s s' : nstate) (evs1 : list ev) : Prop :=
    exists v hosts,
      zlookup c (s_inprog s) = Some v
      /\ s_inprog s' = filter (fun e => 0 <? snd e) (dict_set Z.eqb c (v - 1) (s_inprog s))
      /\ s_rhosts s' = dict_set Z.eqb c (set_union (match zlookup c (s_rhosts s) with Some l => l | None => [] end) hosts)
                                (s_rhosts s)
      /\ (s_inprog s' = [] -> exists rh, In (EvDone me rh) evs1).

  Definition outcome (ar : bool) (me c : Z) (s : nstate) (evs0 : list ev) (r : hres) : Prop :=
    let '(s', outs, evs, raised) := r in
    exists evs1, evs = evs0 ++ evs1 /\
      ((raised = false /\ (exists d m, outs = [(d, m)] /\ is_tok c m = true) /\ same_tr s s')
       \/ (raised = false /\ outs = [] /\ ar = true /\ repl_tr me c s s' evs1)
       \/ (raised = true /\ outs = [] /\ same_tr s s' /\ exists k, In (EvRaise me k) evs1)).

  Lemma same_tr_refl s : same_tr s s. Proof. split; reflexivity. Qed.
  Lemma same_tr_trans a b c0 : same_tr a b -> same_tr b c0 -> same_tr a c0.
  Proof. intros [A1 A2] [B1 B2]. split; congruence. Qed.

  Lemma outcome_prefix ar me c s s1 evs0 evs1 r :
    same_tr s s1 -> outcome ar me c s1 (evs0 ++ evs1) r -> outcome ar me c s evs0 r.
  Proof.
    destruct r as [[[s' o] e] b]. intros [T1 T2] (evs2 & E & D). exists (evs1 ++ evs2). split.
    - rewrite E, app_assoc. reflexivity.
    - destruct D as [(A & B & D)|[(A & B & AR & D)|(A & B & D & k & I)]].
      + left. split; auto. split; auto. eapply same_tr_trans; eauto. split; auto.
      + right. left. split; auto. split; auto. split; auto. destruct D as (v & hosts & D1 & D2 & D3 & D4).
        exists v, hosts. rewrite <- T1, <- T2. repeat split; auto.
        intros H. destruct (D4 H) as [rh I]. exists rh. apply in_or_app. auto.
      + right. right. split; auto. split; auto. split; [eapply same_tr_trans; eauto; split; auto|].
        exists k. apply in_or_app. auto.
  Qed.

  Lemma raise_outcome ar me c s evs k : outcome ar me c s evs (s, [], evs ++ [EvRaise me k], true).
  Proof.
    exists [EvRaise me k]. split; auto. right. right. split; auto. split; auto. split; [apply same_tr_refl|].
    exists k. left; auto.
  Qed.

  Lemma send_answer_outcome ar me s b sp rq paths visited c fp count hosts evs :
    outcome ar me c s evs (send_answer C me s b sp rq paths visited c fp count hosts evs).
  Proof.
    unfold send_answer. destruct (negb _); [apply raise_outcome|].
    destruct (rev rq) as [|sd [|tg rest]]; try apply raise_outcome.
    destruct (_ || _); [apply raise_outcome|].
    exists []. split; [rewrite app_nil_r; auto|]. left. split; auto. split; [|apply same_tr_refl].
    eexists _, _. split; [reflexivity|]. simpl. apply Z.eqb_refl.
  Qed.

  Lemma send_request_outcome ar me s b sp tp paths visited c fp count hosts evs :
    outcome ar me c s evs (send_request C me s b sp tp paths visited c fp count hosts evs).
  Proof.
    unfold send_request. destruct (_ || _); [apply raise_outcome|].
    exists []. split; [rewrite app_nil_r; auto|]. left. split; auto. split; [|split; reflexivity].
    eexists _, _. split; [reflexivity|]. simpl. apply Z.eqb_refl.
  Qed.

  Lemma computation_replicated_outcome me s c hosts evs :
    outcome true me c s evs (computation_replicated me s c hosts evs).
  Proof.
    unfold computation_replicated. destruct (zlookup c (s_inprog s)) as [v|] eqn:E.
    - eexists. split; [reflexivity|]. right. left. split; auto. split; auto. split; auto.
      exists v, hosts. simpl. repeat split; auto.
      intros H. rewrite H. eexists. right. left. reflexivity.
    - exists [EvRepl me c hosts; EvRaise me 4]. split; auto. right. right. split; auto. split; auto.
      split; [apply same_tr_refl|]. exists 4. right. left. auto.
  Qed.

  Lemma visit_loop_outcome ar me prefix skip budget spent visited c fp : forall fuel i s paths count hosts evs,
    match visit_loop C fuel i me prefix skip budget spent visited c fp s paths count hosts evs with
    | LDone r => outcome ar me c s evs r
    | LCont s' _ _ _ evs' => same_tr s s' /\ exists evs1, evs' = evs ++ evs1
    end.
  Proof.
    induction fuel as [|fuel IH]; intros i s paths count hosts evs; simpl.
    - apply raise_outcome.
    - destruct (nth_error paths i) as [[cost p]|]; [|split; [apply same_tr_refl|exists []; rewrite app_nil_r; auto]].
      destruct (_ && _); [|apply IH].
      destruct (skipn _ p) as [|x tl]; [apply raise_outcome|].
      destruct (match skip with Some sp => _ | None => false end); [apply IH|].
      destruct (x =? HOSTING); [|apply send_request_outcome].
      destruct (can_host _ _ _ _ _); [|apply IH].
      set (ea := EvAccept _ _ _ _ _). set (s1 := set_hosted s _).
      assert (ST : same_tr s s1) by (split; reflexivity).
      destruct (count - 1 =? 0).
      + apply (outcome_prefix ar me c s s1 evs [ea]); auto. apply send_answer_outcome.
      + match goal with |- context [visit_loop C fuel ?i' me prefix skip budget spent visited c fp ?s' ?p' ?c' ?h' ?e'] =>
          specialize (IH i' s' p' c' h' e') end.
        destruct (visit_loop _ _ _ _ _ _ _ _ _ _ _ _ _ _ _ _) as [r|s2 p2 c2 h2 e2].
        * apply (outcome_prefix ar me c s s1 evs [ea]); auto.
        * destruct IH as (T & evs1 & E). split; [eapply same_tr_trans; eauto|].
          exists (ea :: evs1). rewrite E, <- app_assoc. reflexivity.
  Qed.

  Lemma on_request_outcome ar me s b sp rq paths visited c fp count hosts evs :
    outcome ar me c s evs (on_request C me s b sp rq paths visited c fp count hosts evs).
  Proof.
    unfold on_request. destruct (negb _); [apply raise_outcome|].
    match goal with |- context [visit_loop C ?f ?i me rq None b sp ?v c fp s ?p count hosts evs] =>
      pose proof (visit_loop_outcome ar me rq None b sp v c fp f i s p count hosts evs) as V end.
    destruct (visit_loop _ _ _ _ _ _ _ _ _ _ _ _ _ _ _ _) as [r|s2 p2 c2 h2 e2]; auto.
    destruct V as (T & evs1 & E). subst e2. apply (outcome_prefix ar me c s s2 evs evs1); auto.
    apply send_answer_outcome.
  Qed.

  Lemma on_answer_outcome me s b sp rq paths visited c fp count hosts evs :
    outcome true me c s evs (on_answer C me s b sp rq paths visited c fp count hosts evs).
  Proof.
    unfold on_answer. destruct (rev rq) as [|sd [|cur rest]]; try apply raise_outcome.
    destruct (count =? 0).
    - destruct (3 <=? _); [apply send_answer_outcome|apply computation_replicated_outcome].
    - match goal with |- context [visit_loop C ?f ?i me ?pre ?sk b sp visited c fp s paths count hosts evs] =>
        pose proof (visit_loop_outcome true me pre sk b sp visited c fp f i s paths count hosts evs) as V end.
      destruct (visit_loop _ _ _ _ _ _ _ _ _ _ _ _ _ _ _ _) as [r|s2 p2 c2 h2 e2]; auto.
      destruct V as (T & evs1 & E). subst e2. apply (outcome_prefix true me c s s2 evs evs1); auto.
      destruct (3 <=? _); [apply send_answer_outcome|].
      destruct p2; [apply computation_replicated_outcome|].
      destruct (filter _ _) as [|[c0 q0] r0]; [apply raise_outcome|apply on_request_outcome].
  Qed.

  (* ---- replicate(k) *)
  Lemma replicate_loop_out me k : forall comps s outs evs,
    let '(s', outs', evs', _) := replicate_loop C me k comps s outs evs in
    same_tr s s' /\ (forall x, In x outs -> In x outs') /\ (forall e, In e evs -> In e evs') /\
    ((forall x, In x comps -> exists d m, In (d, m) outs' /\ is_tok (comp_name x) m = true)
     \/ exists k', In (EvRaise me k') evs') /\
    (forall d m, In (d, m) outs' -> In (d, m) outs \/ exists x, In x comps /\ is_tok (comp_name x) m = true).
  Proof.
    induction comps as [|x rest IH]; intros s outs evs; simpl.
    - split; [apply same_tr_refl|]. split; auto. split; auto. split; [left; intros x []|auto].
    - destruct (psort _) as [|[c0 q0] r0].
      { split; [apply same_tr_refl|]. split; auto. split; [intros e He; apply in_or_app; auto|].
        split; [|auto]. right. exists 3. apply in_or_app. right. left. reflexivity. }
      match goal with |- context [on_request C me s ?b ?sp ?rq ?p ?v ?cc ?fp ?cn ?h ?e] =>
        pose proof (on_request_outcome false me s b sp rq p v cc fp cn h e) as O;
        destruct (on_request C me s b sp rq p v cc fp cn h e) as [[[s1 o1] e1] raised] end.
      destruct O as (evs1 & E & D).
      destruct D as [(A & (d & m & -> & T) & ST)|[(A & B & AR & D)|(A & B & ST & k' & I)]]; [|discriminate|]; subst raised.
      + specialize (IH s1 (outs ++ [(d, m)]) e1).
        destruct (replicate_loop C me k rest s1 (outs ++ [(d, m)]) e1) as [[[s' outs'] evs'] b].
        destruct IH as (ST' & IO & IE & D & OG). split; [eapply same_tr_trans; eauto|].
        split; [intros y Hy; apply IO; apply in_or_app; auto|].
        split; [intros e He; apply IE; rewrite E; apply in_or_app; auto|].
        split.
        * destruct D as [D|D]; [left|right; exact D].
          intros y [<-|Hy]; auto. exists d, m. split; auto. apply IO. apply in_or_app. right. left. reflexivity.
        * intros d1 m1 I. destruct (OG d1 m1 I) as [I1|(y & Hy & Ty)]; [|right; exists y; auto].
          apply in_app_or in I1 as [I1|[I1|[]]]; auto. inversion I1; subst. right. exists x. auto.
      + subst o1. rewrite app_nil_r. split; auto. split; auto.
        split; [intros e He; rewrite E; apply in_or_app; auto|].
        split; [|auto]. right. exists k'. rewrite E. apply in_or_app. auto.
  Qed.

  Definition active (n : Z) : Prop := a_comps (agent C n) <> [] /\ neighbors C n <> [].

  Lemma replicate_trivial me s k : ~ active me ->
    let '(s', outs, evs, _) := replicate C me s k in
    outs = [] /\ s_rhosts s' = s_rhosts s /\ (exists rh, In (EvDone me rh) evs)
    /\ (s_inprog s' = s_inprog s \/ s_inprog s' = fold_left tracker_add (own_names C me) (s_inprog s)).
  Proof.
    intros NA. unfold replicate, own_names. destruct (a_comps (agent C me)) as [|x0 r0] eqn:Ec.
    - split; auto. split; auto. split; [eexists; left; reflexivity|auto].
    - destruct (neighbors C me) eqn:En.
      + split; auto. split; auto. split; [eexists; left; reflexivity|auto].
      + exfalso. apply NA. split; [rewrite Ec|rewrite En]; discriminate.
  Qed.

  Lemma replicate_active me s k : active me ->
    let '(s', outs, evs, _) := replicate C me s k in
    s_rhosts s' = s_rhosts s /\ s_inprog s' = fold_left tracker_add (own_names C me) (s_inprog s) /\
    ((forall c, In c (own_names C me) -> exists d m, In (d, m) outs /\ is_tok c m = true)
     \/ exists k', In (EvRaise me k') evs) /\
    (forall d m, In (d, m) outs -> exists c, In c (own_names C me) /\ is_tok c m = true).
  Proof.
    intros [A1 A2]. unfold replicate, own_names. destruct (a_comps (agent C me)) as [|x0 r0] eqn:Ec; [contradiction|].
    destruct (neighbors C me) eqn:En; [contradiction|].
    set (s1 := set_inprog s _).
    pose proof (replicate_loop_out me k (x0 :: r0) s1 [] []) as R.
    destruct (replicate_loop C me k (x0 :: r0) s1 [] []) as [[[s' outs] evs] b].
    destruct R as ((T1 & T2) & _ & _ & D & OG). split; [rewrite T2; reflexivity|]. split; [rewrite T1; reflexivity|].
    split.
    - destruct D as [D|D]; [left|right; exact D].
      intros c Hc. apply in_map_iff in Hc as [x [<- Hx]]. apply D. exact Hx.
    - intros d m I. destruct (OG d m I) as [[]|(x & Hx & T)]. exists (comp_name x). split; auto. apply in_map. exact Hx.
  Qed.

  (* ---- summary for the protocol handler *)
  Definition tok_of (m : msg) : option tok :=
    match m with MRequest t | MAnswer t => Some t | MReplicate _ => None end.

  Lemma recv_token n s src m t : is_agent C n = true -> tok_of m = Some t ->
    let '(s', outs, evs) := ucs_recv C n s src m in
    ((exists d m', outs = [(d, m')] /\ is_tok (t_comp t) m' = true) /\ same_tr s s')
    \/ (outs = [] /\ repl_tr n (t_comp t) s s' evs /\ exists t', m = MAnswer t')
    \/ (outs = [] /\ same_tr s s' /\ exists k, In (EvRaise n k) evs).
  Proof.
    intros A T. unfold ucs_recv. rewrite A. simpl. destruct m as [k|t0|t0]; simpl in T; inversion T; subst t0.
    - pose proof (on_request_outcome false n s (t_budget t) (t_spent t) (t_path t) (t_paths t) (t_visited t)
                    (t_comp t) (t_fp t) (t_count t) (t_hosts t) []) as O.
      destruct (on_request _ _ _ _ _ _ _ _ _ _ _ _ _) as [[[s' o] e] b]. simpl.
      destruct O as (evs1 & E & D). simpl in E. subst e.
      destruct D as [(_ & B & ST)|[(_ & _ & AR & _)|(_ & B & ST & K)]]; [left; auto|discriminate|right; right; auto].
    - match goal with |- context [on_answer C n ?s0 ?b ?sp ?rq ?p ?v ?cc ?fp ?cn ?h ?e] =>
        pose proof (on_answer_outcome n s0 b sp rq p v cc fp cn h e) as O;
        destruct (on_answer C n s0 b sp rq p v cc fp cn h e) as [[[s' o] e'] bb] end.
      simpl. destruct O as (evs1 & E & D). simpl in E. subst e'.
      destruct D as [(_ & B & ST)|[(_ & B & _ & R)|(_ & B & ST & K)]]; [left; auto|right; left|right; right; auto].
      split; auto. split; [exact R|eauto].
  Qed.
End Outcome.

(* ================================================================== 2. the extended potential *)
(* phi2 = (tokens of c + replicate orders for its owner + "orchestrator not started")
          + "c already has an entry in the owner's _replica_hosts"  <= 1 :
   a computation is replicated at most once, and never while a token or an order is pending. *)
Lemma lsum_ge_term g l x : In x l -> (g x <= lsum g l)%nat.
Proof. unfold lsum. induction l as [|y r IH]; simpl; intros H; [contradiction|]. destruct H as [->|H]; [lia|]. apply IH in H. lia. Qed.

Lemma cntl_ge1 f (l : list msg) m : In m l -> f m = true -> (1 <= cntl f l)%nat.
Proof.
  unfold cntl. induction l as [|y r IH]; simpl; intros H E; [contradiction|].
  destruct H as [->|H]; [rewrite E; simpl; lia|]. destruct (f y); simpl; [lia|auto].
Qed.

Lemma mem_key_dict_set_l (k c : Z) (v : list Z) h :
  mem_key Z.eqb k (dict_set Z.eqb c v h) = (k =? c) || mem_key Z.eqb k h.
Proof.
  unfold mem_key. destruct (Z.eqb_spec k c) as [->|Hne]; simpl.
  - rewrite (lookup_dict_set_same Z.eqb Z.eqb_eq). reflexivity.
  - rewrite (lookup_dict_set_other Z.eqb Z.eqb_eq); auto.
Qed.

Section Potential2.
  Variable C : cfg.
  Variables (c o : Z).
  Hypothesis own_o : forall d, owns C d c = true -> d = o.
  Hypothesis nodup_o : NoDup (own_names C o).
  Notation P := (ucs_proto C).
  Notation fw := (P_Ucs.fw c o).

  Definition rflag (cf : config nstate msg) : nat := b2n (mem_key Z.eqb c (s_rhosts (w_st (nodes cf o)))).
  Definition phi2 (cf : config nstate msg) : nat := (phi C c o cf + rflag cf)%nat.

  Lemma In_U x : inU C x = true <-> In x (U C).
  Proof. unfold inU. apply zmem_In. Qed.

  Lemma cc_ge1 ch s d m : In m (ch s d) -> inU C s = true -> inU C d = true -> fw d m = true -> (1 <= cc C c o ch)%nat.
  Proof.
    intros I Us Ud F. unfold cc.
    etransitivity; [|apply (lsum_ge_term _ (U C) s); apply In_U; auto].
    etransitivity; [|apply (lsum_ge_term _ (U C) d); apply In_U; auto].
    eapply cntl_ge1; eauto.
  Qed.

  Lemma chd_ge1 (nd : node -> nwrap nstate msg) d s m :
    In (s, m) (w_held (nd d)) -> inU C d = true -> fw d m = true -> (1 <= chd C c o nd)%nat.
  Proof.
    intros I Ud F. unfold chd.
    etransitivity; [|apply (lsum_ge_term _ (U C) d); apply In_U; auto].
    apply (cntl_ge1 _ _ m); auto. apply in_map_iff. exists (s, m). auto.
  Qed.

  (* replicate never touches _replica_hosts *)
  Lemma replicate_rhosts me s k : s_rhosts (fst (fst (fst (replicate C me s k)))) = s_rhosts s.
  Proof.
    unfold replicate. destruct (a_comps (agent C me)) as [|x0 r0]; [reflexivity|].
    destruct (neighbors C me); [reflexivity|].
    match goal with |- context [replicate_loop C me k ?cs ?s1 [] []] =>
      pose proof (replicate_loop_out C me k cs s1 [] []) as R;
      destruct (replicate_loop C me k cs s1 [] []) as [[[s' outs] evs] b] end.
    destruct R as ((_ & T2) & _). simpl. rewrite T2. reflexivity.
  Qed.

  (* the flag of c changes only when an answer token of c is consumed without emitting anything *)
  Lemma recv_rflag d s src m :
    let '(s', outs, evs) := ucs_recv C d s src m in
    mem_key Z.eqb c (s_rhosts s') = mem_key Z.eqb c (s_rhosts s)
    \/ (is_tok c m = true /\ outs = [] /\ is_agent C d = true).
  Proof.
    destruct (is_agent C d) eqn:Ea.
    2:{ unfold ucs_recv. rewrite Ea. simpl. left; reflexivity. }
    destruct (tok_of m) as [t|] eqn:T.
    - pose proof (recv_token C d s src m t Ea T) as R.
      destruct (ucs_recv C d s src m) as [[s' outs] evs].
      destruct R as [(_ & _ & ->)|[(E & (v & hosts & _ & _ & R & _) & _)|(_ & (_ & ->) & _)]]; auto.
      rewrite R, mem_key_dict_set_l.
      destruct (Z.eqb_spec c (t_comp t)) as [->|Hne]; simpl; auto.
      right. split; auto. destruct m; simpl in T; inversion T; subst; simpl; apply Z.eqb_refl.
    - destruct m as [k|t|t]; simpl in T; try discriminate.
      unfold ucs_recv. rewrite Ea. simpl. pose proof (replicate_rhosts d s k) as R.
      destruct (replicate C d s k) as [[[s' o'] e] b]. simpl in *. rewrite R. auto.
  Qed.

  Lemma step_phi2 cf a : src_ok C cf -> (phi2 (fst (step P cf a)) <= phi2 cf)%nat.
  Proof.
    intros SO. pose proof (step_phi C c o own_o nodup_o cf a SO) as [_ PH]. unfold phi2.
    destruct a as [n|s d].
    - (* Start: no state changes *)
      assert (E : rflag (fst (step P cf (Start n))) = rflag cf).
      { simpl. destruct (w_running (nodes cf n)) eqn:Er; [reflexivity|].
        change (p_start P n (w_st (nodes cf n))) with (ucs_start C n (w_st (nodes cf n))).
        unfold ucs_start. unfold rflag. destruct (n =? ORCH); simpl; unfold upd_node;
          destruct (Z.eqb_spec o n) as [->|]; reflexivity. }
      lia.
    - simpl in *. destruct (chan cf s d) as [|m q] eqn:Ech; [simpl; lia|].
      destruct (w_running (nodes cf d)) eqn:Er.
      2:{ simpl in PH. assert (E : rflag (fst (mkConfig (upd_node (nodes cf) d (mkWrap false (w_held (nodes cf d) ++ [(s, m)]) (w_st (nodes cf d))))
                                      (upd_chan (chan cf) s d q), @nil ev)) = rflag cf).
          { unfold rflag. simpl. unfold upd_node. destruct (Z.eqb_spec o d) as [->|]; reflexivity. }
          simpl in *. lia. }
      change (p_recv P d (w_st (nodes cf d)) s m) with (ucs_recv C d (w_st (nodes cf d)) s m) in *.
      pose proof (recv_rflag d (w_st (nodes cf d)) s m) as RF. revert PH RF.
      destruct (ucs_recv C d (w_st (nodes cf d)) s m) as [[st' outs] evs]. intros PH RF. simpl in *.
      assert (FL : rflag (mkConfig (upd_node (nodes cf) d (mkWrap true (w_held (nodes cf d)) st')) (send_all (upd_chan (chan cf) s d q) d outs))
                   = if o =? d then b2n (mem_key Z.eqb c (s_rhosts st')) else rflag cf).
      { unfold rflag. simpl. unfold upd_node. destruct (o =? d); reflexivity. }
      rewrite FL. destruct (Z.eqb_spec o d) as [e|Hne]; [|lia]. unfold rflag. rewrite e in *.
      destruct RF as [RF|(T & -> & Ea)].
      + rewrite RF. lia.
      + (* the token is consumed and nothing is emitted: phi decreases by one *)
        destruct SO as [SC SH].
        assert (Us : inU C s = true) by (apply (SC s d m); rewrite Ech; left; auto).
        assert (Ud : inU C d = true) by (apply agent_inU; auto).
        pose proof (cc_upd C c o (chan cf) s d q) as CU. rewrite Ech, cntl_cons, Us, Ud in CU.
        assert (F : fw d m = true) by (unfold P_Ucs.fw; rewrite T; reflexivity). rewrite F in CU. simpl in CU.
        pose proof (chd_upd C c o (nodes cf) d (mkWrap true (w_held (nodes cf d)) st')) as HU. simpl in HU.
        rewrite e in CU, HU. unfold phi. simpl.
        assert (TR : w_running (upd_node (nodes cf) d (mkWrap true (w_held (nodes cf d)) st') ORCH) = w_running (nodes cf ORCH)).
        { unfold upd_node. destruct (Z.eqb_spec ORCH d) as [<-|]; simpl; auto. }
        rewrite TR. destruct (mem_key Z.eqb c (s_rhosts st')); simpl; lia.
  Qed.

  Lemma reachable_phi2 cf : reachable P cf -> (phi2 cf <= 1)%nat.
  Proof.
    induction 1 as [|cf a R IH].
    - unfold phi2, phi, cc, chd, rflag. simpl. rewrite !lsum_zero; auto. intros x. apply lsum_zero. auto.
    - pose proof (reachable_phi C c o own_o nodup_o cf R) as [SO _].
      pose proof (step_phi2 cf a SO). lia.
  Qed.

  (* consequences: a weighted message at the head of a channel is alone in the world *)
  Lemma head_exclusive cf s d m q :
    reachable P cf -> chan cf s d = m :: q -> inU C d = true -> fw d m = true ->
    w_running (nodes cf ORCH) = true
    /\ mem_key Z.eqb c (s_rhosts (w_st (nodes cf o))) = false
    /\ (forall s1 d1 m1, In m1 (upd_chan (chan cf) s d q s1 d1) -> inU C d1 = true -> fw d1 m1 = false)
    /\ (forall d1 s1 m1, In (s1, m1) (w_held (nodes cf d1)) -> inU C d1 = true -> fw d1 m1 = false).
  Proof.
    intros R Ech Ud F. pose proof (reachable_phi2 cf R) as PH.
    pose proof (reachable_phi C c o own_o nodup_o cf R) as [[SC SH] _].
    assert (Us : inU C s = true) by (apply (SC s d m); rewrite Ech; left; auto).
    pose proof (cc_upd C c o (chan cf) s d q) as CU. rewrite Ech, cntl_cons, Us, Ud, F in CU. simpl in CU.
    unfold phi2, phi, rflag in PH.
    split; [destruct (w_running (nodes cf ORCH)); simpl in *; auto; lia|].
    split; [destruct (mem_key Z.eqb c _); simpl in *; auto; lia|].
    split.
    - intros s1 d1 m1 I Ud1. destruct (fw d1 m1) eqn:F1; auto. exfalso.
      assert (Us1 : inU C s1 = true).
      { apply In_upd_chan in I as [(-> & _ & _)|I]; auto. eapply SC; eauto. }
      pose proof (cc_ge1 _ s1 d1 m1 I Us1 Ud1 F1). lia.
    - intros d1 s1 m1 I Ud1. destruct (fw d1 m1) eqn:F1; auto. exfalso.
      pose proof (chd_ge1 _ d1 s1 m1 I Ud1 F1). lia.
  Qed.
End Potential2.
