(* P_Mgm2sG.v -- MGM2 barrier proof: the micro-steps that consume a GAIN message (state gain: the gain is
   filed; when the table is complete the computation either sends its go / no-go and waits in state go,
   or ends its cycle) and a GO message (state go: the cycle ends). *)
From Coq Require Import ZArith List Bool Lia.
From PyDcop Require Import Base Net M_Mgm M_Mgm2 M_Mgm2x P_Mgm P_Mgm3 P_Mgm3c P_Mgm2x P_Mgm2y P_Mgm2s.
Import ListNotations.
Open Scope Z_scope.

Local Notation length := List.length.

Section StepG.
  Variable d : dcop.
  Variable stop thr favor : Z.
  Notation nbr := (nbrs d).
  Notation doneb := (doneb stop).
  Notation InvA := (InvA d stop).
  Notation good := (good d stop).
  Variable rn : node -> bool.
  Variable S : node -> m2st.
  Variable pd : node -> node -> list m2msg.
  Hypothesis HI : InvA rn S pd.
  Notation step_ok := (step_ok d stop thr favor rn S pd).
  Notation pos_facts := (pos_facts d stop rn S pd HI).
  Notation le_facts := (le_facts d stop rn S pd HI).
  Notation pending_nbr := (pending_nbr d stop rn S pd HI).
  Notation evok := (evok stop).

  (* ------------------------------------------------------------ small helpers *)
  Lemma kinv_snoc a (l : list (Z * Z)) (x : node) g : kinv a (l ++ [(x, g)]) = kinv a l || (a =? x).
  Proof. unfold kinv, zmem. rewrite map_app, existsb_app. simpl. rewrite orb_false_r. reflexivity. Qed.

  Lemma b2z_orb_excl a b : a = false \/ b = false -> b2z (a || b) = b2z a + b2z b.
  Proof. destruct a, b; simpl; intros [H|H]; try discriminate; reflexivity. Qed.

  Lemma nbr_ne a b : In a (nbr b) -> a <> b.
  Proof. intros H ->. eapply nbrs_irrefl; eauto. Qed.

  (* a neighbour whose gain of the current cycle of y has been sent: it runs and is either in the
     same cycle in state gain / go, or one cycle ahead in state value *)
  Lemma nbr_pos4 y w : rn y = true -> In w (nbr y) -> 4 <= t_state (S y) ->
    1 <= cnt 4 (pd w y) + b2z (kinv w (t_ng (S y))) ->
    rn w = true /\
    ((t_cycle (S w) = t_cycle (S y) /\ 4 <= t_state (S w)) \/ (t_cycle (S w) = t_cycle (S y) + 1 /\ t_state (S w) = 1)).
  Proof.
    intros Ry Hw Hk H1.
    pose proof (i_good _ _ _ _ _ HI y Ry (act_of d w y Hw)) as Gy.
    pose proof (p_G _ _ _ _ _ (i_pair _ _ _ _ _ HI w y Hw)) as E. unfold SG, CG in E. rewrite Ry in E.
    pose proof (g_c _ _ _ _ Gy) as Cy.
    assert (Rw : rn w = true).
    { destruct (rn w); [reflexivity|exfalso]. clear - E H1 Cy. lia. }
    split; [exact Rw|]. rewrite Rw in E.
    destruct (pos_facts w y Hw Rw Ry) as (Q1 & Q2 & _).
    pose proof (b2z_leb 4 (t_state (S w))) as [B1 B2].
    pose proof (b2z_range (4 <=? t_state (S w))) as B3.
    destruct (Z.eq_dec (t_cycle (S w)) (t_cycle (S y) + 1)) as [Ec|Ec].
    - right. split; [exact Ec|]. apply Q2. exact Ec.
    - left. assert (t_cycle (S w) = t_cycle (S y)) by (clear - E H1 Q1 Ec B3; lia).
      split; [assumption|]. destruct (Z.le_gt_cases 4 (t_state (S w))) as [L|L]; [exact L|exfalso].
      assert (0 < 4 - t_state (S w) -> False); [|lia]. intros _.
      specialize (B2 ltac:(clear - L; lia)). clear - E H1 H B2. lia.
  Qed.

  Lemma and_dec (A B : Prop) : {A} + {~ A} -> {B} + {~ B} -> {A /\ B} + {~ (A /\ B)}.
  Proof. intros [a|a] [b|b]; [left; split; assumption|right; tauto ..]. Qed.
  Lemma or_dec (A B : Prop) : {A} + {~ A} -> {B} + {~ B} -> {A \/ B} + {~ (A \/ B)}.
  Proof. intros [a|a] [b|b]; [left; tauto ..|right; tauto]. Qed.

  Lemma go_dec (T : node -> m2st) y x : {expG T y x /\ sentGo T x y} + {~ (expG T y x /\ sentGo T x y)}.
  Proof.
    unfold expG, sentGo.
    assert (D1 : {t_partner (T y) = Some x} + {t_partner (T y) <> Some x}) by (decide equality; apply Z.eq_dec).
    assert (D2 : {4 <= t_state (T y)} + {~ 4 <= t_state (T y)}) by (destruct (Z_le_gt_dec 4 (t_state (T y))); [left; assumption|right; lia]).
    apply and_dec; [apply and_dec; [apply bool_dec|apply and_dec; assumption]|].
    apply or_dec; [apply and_dec|]; apply Z.eq_dec.
  Qed.

  (* when the gain table of y is complete (counting the gain being consumed), every neighbour runs and
     has sent its gain of this cycle *)
  Lemma full_pos y x m l1 l2 : rn y = true -> pd x y = l1 ++ m :: l2 -> 4 <= t_state (S y) ->
    (forall x', In x' (nbr y) -> b2z (kinv x' (t_ng (S y))) + b2z ((x' =? x) && (kind_of m =? 4)) = 1) ->
    forall w, In w (nbr y) -> rn w = true /\
      ((t_cycle (S w) = t_cycle (S y) /\ 4 <= t_state (S w)) \/ (t_cycle (S w) = t_cycle (S y) + 1 /\ t_state (S w) = 1)).
  Proof.
    intros Ry Hp Hk4 Hfull w Hw. apply nbr_pos4; try assumption.
    specialize (Hfull w Hw). pose proof (cnt_nonneg 4 (pd w y)) as Hn.
    destruct (Z.eq_dec w x) as [Ew|Ew];
      [subst w; rewrite Z.eqb_refl in Hfull|apply Z.eqb_neq in Ew; rewrite Ew in Hfull]; simpl in Hfull;
      [|clear - Hfull Hn; lia].
    destruct (Z.eq_dec (kind_of m) 4) as [E|E];
      [rewrite E in Hfull|apply Z.eqb_neq in E; rewrite E in Hfull]; simpl in Hfull; [|clear - Hfull Hn; lia].
    pose proof (in_cnt_pos _ _ (in_pd _ _ _ _ _ _ Hp)) as Hc. rewrite E in Hc. clear - Hc Hfull. lia.
  Qed.

  Lemma full_store y (x : node) g : good y (S y) -> In x (nbr y) -> kinv x (t_ng (S y)) = false ->
    length (t_ng (S y) ++ [(x, g)]) = length (nbr y) ->
    forall x', In x' (nbr y) ->
      kinv x' (t_ng (S y) ++ [(x, g)]) = true /\
      b2z (kinv x' (t_ng (S y))) + b2z ((x' =? x) && (4 =? 4)) = 1.
  Proof.
    intros Gy Hxy Hkv Hlen x' Hx'. destruct (g_ng _ _ _ _ Gy) as [Nd Inc].
    assert (Hin : In x' (map fst (t_ng (S y) ++ [(x, g)]))).
    { apply (full_in _ (nbr y)); [| |rewrite map_length; exact Hlen|exact Hx'].
      - rewrite map_app. simpl. apply NoDup_snoc; [exact Nd|]. apply kinv_false. exact Hkv.
      - rewrite map_app. simpl. intros z Hz. apply in_app_or in Hz as [Hz|[<-|[]]]; [apply Inc; exact Hz|exact Hxy]. }
    apply kinv_In in Hin. split; [exact Hin|]. rewrite kinv_snoc in Hin. change (4 =? 4) with true. rewrite andb_true_r.
    destruct (Z.eqb_spec x' x) as [->|Hn]; [rewrite Hkv; reflexivity|].
    rewrite orb_false_r in Hin. rewrite Hin. reflexivity.
  Qed.

  (* ============================================================ end of a cycle *)
  (* y is in state gain, not committed, and the consumed gain completes its table; or y is in state go
     and consumes the go / no-go of its partner *)
  Lemma finish_ok y x m l1 l2 s2 vs :
    rn y = true -> pd x y = l1 ++ m :: l2 ->
    ((t_state (S y) = 4 /\ t_committed (S y) = false /\ kind_of m = 4) \/ (t_state (S y) = 5 /\ kind_of m = 5)) ->
    (forall x', In x' (nbr y) -> b2z (kinv x' (t_ng (S y))) + b2z ((x' =? x) && (kind_of m =? 4)) = 1) ->
    skel s2 = (1, t_cycle (S y) + 1, t_fin (S y) + (if doneb (t_cycle (S y) + 1) then 1 else 0), [], [], [], None, false, false, 0) ->
    InvA rn (updS S y s2)
         (pd_step pd x y (l1 ++ l2) (map (fun t => (t, M2Value vs)) (if doneb (t_cycle (S y) + 1) then [] else nbr y))) /\
    forall x', In x' (nbr y) ->
      cnt (t_state (S y))
          (pd_step pd x y (l1 ++ l2) (map (fun t => (t, M2Value vs)) (if doneb (t_cycle (S y) + 1) then [] else nbr y)) x' y) = 0.
  Proof.
    intros Ry Hp Hcase Hfull K2.
    set (outs := map (fun t => (t, M2Value vs)) (if doneb (t_cycle (S y) + 1) then [] else nbr y)).
    pose proof (pending_nbr x y _ _ _ Hp) as Hxy.
    pose proof (act_of d x y Hxy) as Hact.
    pose proof (i_good _ _ _ _ _ HI y Ry Hact) as Gy.
    assert (Hk4 : 4 <= t_state (S y) <= 5) by (destruct Hcase as [(H & _)|(H & _)]; lia).
    assert (Hkm : kind_of m = t_state (S y)) by (destruct Hcase as [(H & _ & H')|(H & H')]; congruence).
    assert (Hm1 : (kind_of m =? 1) = false) by (apply Z.eqb_neq; lia).
    assert (Hm2 : (kind_of m =? 2) = false) by (apply Z.eqb_neq; lia).
    assert (Hm3 : (kind_of m =? 3) = false) by (apply Z.eqb_neq; lia).
    pose proof (g_c _ _ _ _ Gy) as Cy.
    pose proof (full_pos y x m l1 l2 Ry Hp ltac:(clear - Hk4; lia) Hfull) as Hpos.
    unfold skel in K2. injection K2 as Kst Kcy Kfi Knv Kof Kng Kpa Kco Kor Kpg.
    assert (Hd : doneb (t_cycle (S y)) = false).
    { destruct (doneb (t_cycle (S y))) eqn:E; [|reflexivity]. pose proof (g_done _ _ _ _ Gy E) as Hc0. clear - Hc0 Hk4. lia. }
    assert (Fy : t_fin (S y) = 0) by (rewrite (g_fin _ _ _ _ Gy), Hd; reflexivity).
    assert (G2 : good y s2).
    { constructor; rewrite ?Kst, ?Kcy, ?Kfi, ?Knv, ?Kof, ?Kng, ?Kpa, ?Kco, ?Kor, ?Kpg; simpl; try lia; try discriminate; auto.
      - rewrite Fy. destruct (doneb (t_cycle (S y) + 1)); reflexivity.
      - right. replace (t_cycle (S y) + 1 - 1) with (t_cycle (S y)) by lia. exact Hd.
      - split; [constructor|apply incl_nil_l].
      - split; [constructor|split; [apply incl_nil_l|constructor]].
      - split; [constructor|apply incl_nil_l].
      - intros _. destruct (nbr y); [congruence|simpl; lia]. }
    assert (Hout : forall w, In w (nbr y) -> to_y2 w outs = if doneb (t_cycle (S y) + 1) then [] else [M2Value vs]).
    { intros w Hw. unfold outs. destruct (doneb (t_cycle (S y) + 1)); [reflexivity|].
      etransitivity; [apply (to_y2_map (fun t => (t, M2Value vs)) (nbr y) w (fun t => eq_refl) (nbrs_nodup d y))|].
      rewrite (proj2 (zmem_In w (nbr y)) Hw). reflexivity. }
    assert (Hout0 : forall w, ~ In w (nbr y) -> to_y2 w outs = []).
    { intros w Hw. unfold outs. destruct (doneb (t_cycle (S y) + 1)); [reflexivity|].
      etransitivity; [apply (to_y2_map (fun t => (t, M2Value vs)) (nbr y) w (fun t => eq_refl) (nbrs_nodup d y))|].
      destruct (zmem w (nbr y)) eqn:E; [apply zmem_In in E; contradiction|reflexivity]. }
    (* state go: the consumed message is the go of the partner *)
    assert (H5 : t_state (S y) = 5 ->
                 t_committed (S y) = true /\ t_partner (S y) = Some x /\ cnt 5 (pd x y) = 1 /\ sentGo S x y).
    { intros E5. destruct Hcase as [(H & _)|(_ & Hm5)]; [clear - H E5; lia|].
      pose proof (in_cnt_pos _ _ (in_pd _ _ _ _ _ _ Hp)) as Hc. rewrite Hm5 in Hc.
      pose proof (i_pair _ _ _ _ _ HI x y Hxy) as P.
      destruct (go_dec S y x) as [[A B]|N].
      - pose proof (p_Go1 _ _ _ _ _ P A B). destruct A as (A1 & A2 & A3). auto.
      - pose proof (p_Go0 _ _ _ _ _ P N) as Hc0. clear - Hc Hc0. lia. }
    assert (HInv : InvA rn (updS S y s2) (pd_step pd x y (l1 ++ l2) outs)).
    { apply (step_frame d stop rn S pd y s2 x (l1 ++ l2) outs HI Ry Hact Hxy G2); [| |exact Hout0].
      - (* ---------------- receiver pairs (x', y) *)
        intros x' Hx'. pose proof (nbr_ne _ _ Hx') as Hx'y.
        destruct (pd_step_recv pd x y l1 m l2 outs x' Hp Hx'y) as [Hc Hi].
        destruct (Hpos x' Hx') as [Rx' Px'].
        pose proof (i_good _ _ _ _ _ HI x' Rx' (act_of d y x' (nbrs_sym d y x' Hx'))) as Gx'.
        destruct (tabf d stop y _ x' Gy Hx') as (T1 & _ & T3 & _ & _ & _ & _ & _).
        specialize (T1 ltac:(clear - Hk4; lia)). specialize (T3 ltac:(clear - Hk4; lia)).
        pose proof (Hfull x' Hx') as Hf.
        destruct (i_pair _ _ _ _ _ HI x' y Hx') as [V O G A1 A0 Go1 Go0 PO PS PA L Ans].
        unf. rewrite Ry, Rx' in *.
        constructor; unf;
          rewrite ?Ry, ?Rx', ?updS_same, ?(updS_other S y s2 x' Hx'y), ?Kst, ?Kcy, ?Kfi, ?Knv, ?Kof, ?Kng, ?Kpa, ?Kco, ?Kor, ?Hc.
        + rewrite Hm1, andb_false_r. change (b2z (kinv x' [])) with 0. change (b2z false) with 0. clear - V T1. lia.
        + rewrite Hm2, andb_false_r. change (b2z (kino x' [])) with 0. change (b2z false) with 0. clear - O T3. lia.
        + change (b2z (kinv x' [])) with 0. clear - G Hf. lia.
        + intros (Hc0 & _). discriminate.
        + intros _. rewrite Hm3, andb_false_r. change (b2z false) with 0. rewrite A0; [reflexivity|].
          intros [(_ & _ & Hc0) _]. clear - Hc0 Hk4. lia.
        + intros (Hc0 & _). discriminate.
        + intros _. destruct Hcase as [(E4 & Hnc & Em)|(E5 & Em)].
          * rewrite Em. change (4 =? 5) with false. rewrite andb_false_r. change (b2z false) with 0.
            rewrite Go0; [reflexivity|]. intros [(Hc0 & _) _]. congruence.
          * destruct (H5 E5) as (C1 & C2 & C3 & C4). rewrite Em. change (5 =? 5) with true. rewrite andb_true_r.
            destruct (Z.eqb_spec x' x) as [->|Hn].
            -- rewrite C3. reflexivity.
            -- change (b2z false) with 0. rewrite Go0; [reflexivity|]. intros [(_ & Hc0 & _) _]. congruence.
        + intros f os Hin. apply (PO f os). apply Hi. exact Hin.
        + intros f os Hc0. discriminate.
        + intros a v g0 Hin. apply (PA a v g0). apply Hi. exact Hin.
        + intros Lc Lp. left. specialize (L Lc Lp).
          assert (HH : t_committed (S y) = true /\ t_partner (S y) = Some x' /\ t_cycle (S y) = t_cycle (S x')).
          { destruct L as [[La _]|[La Lb]]; [exfalso; clear - La Px'; lia|].
            destruct (t_offerer (S x')); [destruct Lb as (_ & B2 & B3)|destruct Lb as (_ & B2 & [B3|B3])]; auto.
            exfalso. clear - B3 Hk4. lia. }
          destruct HH as (HH1 & HH2 & HH3).
          destruct Hcase as [(E4 & Hnc & Em)|(E5 & Em)]; [congruence|].
          destruct (H5 E5) as (C1 & C2 & C3 & C4).
          assert (x' = x) by congruence. subst x'.
          destruct C4 as [[C4 C5]|C4]; [split; [clear - C4; lia|exact C5]|exfalso].
          destruct Px' as [[P1 _]|[_ P2]]; [clear - P1 C4; lia|].
          destruct (g_fl1 _ _ _ _ Gx' P2) as (_ & F2 & _). congruence.
        + intros Ho Hpp H4. right. destruct Px' as [[P1 _]|[_ P2]]; [clear - P1; lia|clear - P2 H4; lia].
      - (* ---------------- sender pairs (y, w) *)
        intros w Hw. pose proof (nbr_ne _ _ Hw) as Hwy.
        destruct (Hpos w Hw) as [Rw Pw].
        pose proof (nbrs_sym d y w Hw) as Hyw.
        pose proof (i_good _ _ _ _ _ HI w Rw (act_of d y w Hyw)) as Gw.
        destruct (tabf d stop w _ y Gw Hyw) as (_ & _ & U3 & _ & _ & _ & U7 & _).
        destruct (i_pair _ _ _ _ _ HI y w Hyw) as [V O G A1 A0 Go1 Go0 PO PS PA L Ans].
        pose proof (p_L _ _ _ _ _ (i_pair _ _ _ _ _ HI w y Hw)) as Lw.
        assert (Hcn : forall k, cnt k (pd_step pd x y (l1 ++ l2) outs y w) =
                                cnt k (pd y w) + (if doneb (t_cycle (S y) + 1) then 0 else b2z (1 =? k))).
        { intros k. rewrite pd_step_send, cnt_app, (Hout w Hw).
          destruct (doneb (t_cycle (S y) + 1)); [rewrite cnt_nil; reflexivity|rewrite cnt_cons, cnt_nil; simpl kind_of; lia]. }
        assert (Hin' : forall m', In m' (pd_step pd x y (l1 ++ l2) outs y w) -> In m' (pd y w) \/ m' = M2Value vs).
        { intros m'. rewrite pd_step_send, (Hout w Hw). intros H. apply in_app_or in H as [H|H]; [left; exact H|].
          destruct (doneb (t_cycle (S y) + 1)); [destruct H|destruct H as [<-|[]]; right; reflexivity]. }
        unf. rewrite Ry, Rw in *.
        pose proof (proj1 (b2z_leb 2 (t_state (S y))) ltac:(clear - Hk4; lia)) as B2y.
        pose proof (proj1 (b2z_leb 4 (t_state (S y))) ltac:(clear - Hk4; lia)) as B4y.
        assert (C2 : cnt 2 (pd y w) = 0).
        { pose proof (cnt_nonneg 2 (pd y w)) as Hn. destruct Pw as [[P1 P2]|[P1 P2]].
          - specialize (U3 ltac:(clear - P2; lia)). clear - O U3 B2y P1 Hn. lia.
          - clear - O U7 B2y P1 Hn. lia. }
        assert (C3 : cnt 3 (pd y w) = 0).
        { apply A0. intros [(_ & _ & Hc0) _]. clear - Hc0 Pw. lia. }
        constructor; unf;
          rewrite ?Ry, ?Rw, ?updS_same, ?(updS_other S y s2 w Hwy), ?Kst, ?Kcy, ?Kfi, ?Knv, ?Kof, ?Kng, ?Kpa, ?Kco, ?Kor, ?Hcn.
        + change (b2z (1 =? 1)) with 1. destruct (doneb (t_cycle (S y) + 1)); clear - V; lia.
        + change (b2z (1 =? 2)) with 0. change (b2z (2 <=? 1)) with 0.
          destruct (doneb (t_cycle (S y) + 1)); clear - O B2y; lia.
        + change (b2z (1 =? 4)) with 0. change (b2z (4 <=? 1)) with 0.
          destruct (doneb (t_cycle (S y) + 1)); clear - G B4y; lia.
        + intros _ Hc0. clear - Hc0. lia.
        + intros _. rewrite C3. destruct (doneb (t_cycle (S y) + 1)); reflexivity.
        + intros E Sg. assert (Ec : t_cycle (S w) = t_cycle (S y)) by (clear - Sg; lia).
          assert (H1 : cnt 5 (pd y w) = 1).
          { destruct Hcase as [(E4 & Hnc & _)|(E5 & _)].
            - exfalso. destruct E as (E1 & E2 & E3). specialize (Lw E1 E2).
              destruct Lw as [[La _]|[_ Lb]]; [clear - La Ec; lia|].
              destruct (t_offerer (S w)); [destruct Lb as (_ & B & _); congruence|].
              destruct Lb as (_ & _ & [B|B]); [clear - B E4; lia|congruence].
            - apply Go1; [exact E|]. left. split; [symmetry; exact Ec|exact E5]. }
          rewrite H1. destruct (doneb (t_cycle (S y) + 1)); reflexivity.
        + intros N. assert (H0 : cnt 5 (pd y w) = 0).
          { apply Go0. intros [E Sg]. destruct Hcase as [(E4 & _)|(E5 & _)].
            - clear - Sg E4 Pw. lia.
            - apply N. split; [exact E|]. right. clear - Sg Pw. lia. }
          rewrite H0. destruct (doneb (t_cycle (S y) + 1)); reflexivity.
        + intros f os Hin. destruct (Hin' _ Hin) as [H|H]; [exfalso|discriminate].
          pose proof (in_cnt_pos _ _ H) as Hc0. simpl kind_of in Hc0. clear - Hc0 C2. lia.
        + intros f os Hc0. exfalso. clear - Hc0 Pw. lia.
        + intros a v g0 Hin. destruct (Hin' _ Hin) as [H|H]; [exfalso|discriminate].
          pose proof (in_cnt_pos _ _ H) as Hc0. simpl kind_of in Hc0. clear - Hc0 C3. lia.
        + intros Hc0. discriminate.
        + intros Hc0. discriminate. }
    split; [exact HInv|].
    intros x' Hx'. pose proof (nbr_ne _ _ Hx') as Hx'y.
    destruct (Hpos x' Hx') as [Rx' Px'].
    pose proof (i_pair _ _ _ _ _ HInv x' y Hx') as P.
    destruct Hcase as [(E4 & _)|(E5 & _)].
    - rewrite E4. pose proof (p_G _ _ _ _ _ P) as E. unfold SG, CG in E.
      rewrite Ry, Rx', updS_same, (updS_other S y s2 x' Hx'y), Kcy, Kng in E. change (b2z (kinv x' [])) with 0 in E.
      pose proof (b2z_leb 4 (t_state (S x'))) as [B1 B2].
      destruct Px' as [[P1 P2]|[P1 P2]]; [specialize (B1 P2); clear - E P1 B1; lia|].
      specialize (B2 ltac:(clear - P2; lia)). clear - E P1 B2. lia.
    - rewrite E5. apply (p_Go0 _ _ _ _ _ P). intros [(Hc0 & _) _]. rewrite updS_same, Kco in Hc0. discriminate.
  Qed.

  (* ============================================================ go message *)
  Lemma step_Go y x go l1 l2 : rn y = true -> pd x y = l1 ++ M2Go go :: l2 -> t_state (S y) = 5 ->
    step_ok y x (M2Go go) l1 l2.
  Proof.
    intros Ry Hp Hk s2 o2 e2 Hm.
    pose proof (pending_nbr x y _ _ _ Hp) as Hxy.
    pose proof (act_of d x y Hxy) as Hact.
    pose proof (i_good _ _ _ _ _ HI y Ry Hact) as Gy.
    unfold mstep, on_msg in Hm. simpl kind_of in Hm. rewrite Hk in Hm. simpl negb in Hm. cbv iota in Hm.
    destruct (hgo0_spec d stop y (S y) go) as (s' & vs & pre & E & Vp & K & Po).
    rewrite E in Hm. injection Hm as <- <- <-.
    assert (Hfull : forall x', In x' (nbr y) ->
              b2z (kinv x' (t_ng (S y))) + b2z ((x' =? x) && (kind_of (M2Go go) =? 4)) = 1).
    { intros x' Hx'. destruct (tabf d stop y _ x' Gy Hx') as (_ & _ & _ & _ & T5 & _).
      rewrite (T5 Hk). simpl kind_of. rewrite andb_false_r. reflexivity. }
    destruct (finish_ok y x (M2Go go) l1 l2 s' vs Ry Hp (or_intror (conj Hk eq_refl)) Hfull K) as [HInv Hz].
    split; [exact HInv|]. split; [|split; [exact Po|]].
    - skel_inv K. apply evok_finish; assumption.
    - intros _. exact Hz.
  Qed.

  (* ============================================================ gain message, table complete, committed *)
  Lemma commit_ok y x g l1 l2 s2 p go :
    rn y = true -> pd x y = l1 ++ M2Gain g :: l2 -> t_state (S y) = 4 ->
    kinv x (t_ng (S y)) = false -> length (t_ng (S y) ++ [(x, g)]) = length (nbr y) ->
    t_committed (S y) = true -> t_partner (S y) = Some p ->
    skel s2 = (5, t_cycle (S y), t_fin (S y), t_nv (S y), t_offers (S y), t_ng (S y) ++ [(x, g)], t_partner (S y),
               t_committed (S y), t_offerer (S y), t_pgain (S y)) ->
    InvA rn (updS S y s2) (pd_step pd x y (l1 ++ l2) [(p, M2Go go)]) /\
    forall x', In x' (nbr y) -> cnt 4 (pd_step pd x y (l1 ++ l2) [(p, M2Go go)] x' y) = 0.
  Proof.
    intros Ry Hp Hk Hkv Hlen Hcy Hpy K2.
    set (outs := [(p, M2Go go)]).
    pose proof (pending_nbr x y _ _ _ Hp) as Hxy.
    pose proof (act_of d x y Hxy) as Hact.
    pose proof (i_good _ _ _ _ _ HI y Ry Hact) as Gy.
    pose proof (full_store y x g Gy Hxy Hkv Hlen) as Hfs.
    assert (Hfull : forall x', In x' (nbr y) ->
              b2z (kinv x' (t_ng (S y))) + b2z ((x' =? x) && (kind_of (M2Gain g) =? 4)) = 1)
      by (intros x' Hx'; apply (Hfs x' Hx')).
    pose proof (full_pos y x _ l1 l2 Ry Hp ltac:(clear - Hk; lia) Hfull) as Hpos.
    destruct (g_com _ _ _ _ Gy Hcy) as (Hpg & p' & Hp' & Hpn). assert (p' = p) by congruence. subst p'.
    destruct (g_ng _ _ _ _ Gy) as [Nd Inc].
    assert (Nd1 : NoDup (map fst (t_ng (S y) ++ [(x, g)])) /\ incl (map fst (t_ng (S y) ++ [(x, g)])) (nbr y)).
    { rewrite map_app. simpl. split.
      - apply NoDup_snoc; [exact Nd|]. apply kinv_false. exact Hkv.
      - intros z Hz. apply in_app_or in Hz as [Hz|[<-|[]]]; [apply Inc; exact Hz|exact Hxy]. }
    unfold skel in K2. injection K2 as Kst Kcy Kfi Knv Kof Kng Kpa Kco Kor Kpg.
    assert (G2 : good y s2).
    { destruct Gy. constructor; rewrite ?Kst, ?Kcy, ?Kfi, ?Knv, ?Kof, ?Kng, ?Kpa, ?Kco, ?Kor, ?Kpg; auto;
        try (intros Hc0; exfalso; clear - Hc0; lia).
      - clear. lia.
      - intros H. specialize (g_done H). clear - g_done Hk. lia.
      - intros _. apply g_nv2. clear - Hk. lia.
      - intros _. apply g_of3. clear - Hk. lia. }
    assert (Hout : forall w, to_y2 w outs = if p =? w then [M2Go go] else []).
    { intros w. unfold to_y2, outs. simpl. destruct (p =? w); reflexivity. }
    assert (HInv : InvA rn (updS S y s2) (pd_step pd x y (l1 ++ l2) outs)).
    { apply (step_frame d stop rn S pd y s2 x (l1 ++ l2) outs HI Ry Hact Hxy G2).
      - (* ---------------- receiver pairs (x', y) *)
        intros x' Hx'. pose proof (nbr_ne _ _ Hx') as Hx'y.
        destruct (pd_step_recv pd x y l1 (M2Gain g) l2 outs x' Hp Hx'y) as [Hc Hi].
        destruct (Hpos x' Hx') as [Rx' Px'].
        destruct (Hfs x' Hx') as [Hf1 Hf].
        destruct (i_pair _ _ _ _ _ HI x' y Hx') as [V O G A1 A0 Go1 Go0 PO PS PA L Ans].
        unf. rewrite Ry, Rx' in *.
        constructor; unf;
          rewrite ?Ry, ?Rx', ?updS_same, ?(updS_other S y s2 x' Hx'y), ?Kst, ?Kcy, ?Kfi, ?Knv, ?Kof, ?Kng, ?Kpa, ?Kco, ?Kor, ?Hc;
          simpl kind_of.
        + rewrite andb_false_r. change (b2z false) with 0. clear - V. lia.
        + rewrite andb_false_r. change (b2z false) with 0. clear - O. lia.
        + rewrite Hf1. change (b2z true) with 1. clear - G Hf. lia.
        + intros (_ & _ & Hc0). clear - Hc0. lia.
        + intros _. rewrite andb_false_r. change (b2z false) with 0. rewrite A0; [reflexivity|].
          intros [(_ & _ & Hc0) _]. clear - Hc0 Hk. lia.
        + intros (E1 & E2 & _) Sg. rewrite andb_false_r. change (b2z false) with 0.
          rewrite Go1; [reflexivity| |exact Sg]. split; [exact E1|split; [exact E2|clear - Hk; lia]].
        + intros N. rewrite andb_false_r. change (b2z false) with 0. rewrite Go0; [reflexivity|].
          intros [(E1 & E2 & _) Sg]. apply N. split; [|exact Sg]. split; [exact E1|split; [exact E2|clear - Hk; lia]].
        + intros f os Hin. apply (PO f os). apply Hi. exact Hin.
        + intros f os Hc0. discriminate.
        + intros a v g0 Hin. apply (PA a v g0). apply Hi. exact Hin.
        + intros Lc Lp. destruct (L Lc Lp) as [A|[B C]]; [left; exact A|right; split; [exact B|]].
          destruct (t_offerer (S x')); [exact C|]. destruct C as (C1 & C2 & _).
          split; [exact C1|split; [exact C2|right; exact Hcy]].
        + intros Ho Hpp H4. destruct (Ans Ho Hpp H4) as [[B1 B2]|B]; [left; split; [exact B1|clear; lia]|right; exact B].
      - (* ---------------- sender pairs (y, w) *)
        intros w Hw. pose proof (nbr_ne _ _ Hw) as Hwy.
        destruct (Hpos w Hw) as [Rw Pw].
        pose proof (nbrs_sym d y w Hw) as Hyw.
        destruct (i_pair _ _ _ _ _ HI y w Hyw) as [V O G A1 A0 Go1 Go0 PO PS PA L Ans].
        pose proof (p_L _ _ _ _ _ (i_pair _ _ _ _ _ HI w y Hw)) as Lw.
        assert (Hcn : forall k, cnt k (pd_step pd x y (l1 ++ l2) outs y w) =
                                cnt k (pd y w) + (if p =? w then b2z (5 =? k) else 0)).
        { intros k. rewrite pd_step_send, cnt_app, (Hout w).
          destruct (p =? w); [rewrite cnt_cons, cnt_nil; simpl kind_of; lia|rewrite cnt_nil; reflexivity]. }
        assert (Hin' : forall m', In m' (pd_step pd x y (l1 ++ l2) outs y w) -> In m' (pd y w) \/ m' = M2Go go).
        { intros m'. rewrite pd_step_send, (Hout w). intros H. apply in_app_or in H as [H|H]; [left; exact H|].
          destruct (p =? w); [destruct H as [<-|[]]; right; reflexivity|destruct H]. }
        unf. rewrite Ry, Rw in *.
        pose proof (proj1 (b2z_leb 2 (t_state (S y))) ltac:(clear - Hk; lia)) as B2y.
        pose proof (proj1 (b2z_leb 4 (t_state (S y))) ltac:(clear - Hk; lia)) as B4y.
        assert (NS : ~ ((t_cycle (S y) = t_cycle (S w) /\ t_state (S y) = 5) \/ t_cycle (S y) = t_cycle (S w) + 1))
          by (clear - Hk Pw; lia).
        constructor; unf;
          rewrite ?Ry, ?Rw, ?updS_same, ?(updS_other S y s2 w Hwy), ?Kst, ?Kcy, ?Kfi, ?Knv, ?Kof, ?Kng, ?Kpa, ?Kco, ?Kor, ?Hcn.
        + change (b2z (5 =? 1)) with 0. destruct (p =? w); clear - V; lia.
        + change (b2z (5 =? 2)) with 0. change (b2z (2 <=? 5)) with 1. destruct (p =? w); clear - O B2y; lia.
        + change (b2z (5 =? 4)) with 0. change (b2z (4 <=? 5)) with 1. destruct (p =? w); clear - G B4y; lia.
        + intros E _. change (b2z (5 =? 3)) with 0. rewrite A1; [destruct (p =? w); reflexivity|exact E|clear - Hk; lia].
        + intros N. change (b2z (5 =? 3)) with 0. rewrite A0; [destruct (p =? w); reflexivity|].
          intros [E _]. apply N. split; [exact E|clear; lia].
        + intros (E1 & E2 & E3) _. specialize (Lw E1 E2).
          destruct Lw as [[La _]|[Lc Lb]]; [exfalso; clear - La Pw; lia|].
          assert (Hpw : t_partner (S y) = Some w)
            by (destruct (t_offerer (S w)); [destruct Lb as (_ & _ & B)|destruct Lb as (_ & B & _)]; exact B).
          assert (w = p) by congruence. subst w. rewrite Z.eqb_refl. change (b2z (5 =? 5)) with 1.
          rewrite Go0; [reflexivity|]. intros [_ Sg']. exact (NS Sg').
        + intros N. change (b2z (5 =? 5)) with 1. destruct (Z.eqb_spec p w) as [Epw|Hn].
          * exfalso. subst w. apply N. specialize (L Hcy Hpy).
            destruct L as [[_ La]|[Lc Lb]]; [clear - La Hk; lia|].
            destruct Pw as [[P1 P2]|[P1 P2]]; [|exfalso; clear - P1 Lc; lia].
            assert (HH : t_committed (S p) = true /\ t_partner (S p) = Some y).
            { destruct (t_offerer (S y)); [destruct Lb as (_ & B2 & B3); auto|].
              destruct Lb as (_ & B2 & [B3|B3]); [exfalso; clear - B3 P2; lia|auto]. }
            destruct HH as [HH1 HH2].
            split; [split; [exact HH1|split; [exact HH2|exact P2]]|left; split; [symmetry; exact P1|reflexivity]].
          * rewrite Go0; [reflexivity|]. intros [_ Sg']. exact (NS Sg').
        + intros f os Hin. destruct (Hin' _ Hin) as [H|H]; [exact (PO f os H)|discriminate].
        + exact PS.
        + intros a v g0 Hin. destruct (Hin' _ Hin) as [H|H]; [exact (PA a v g0 H)|discriminate].
        + intros Lc Lp. destruct (L Lc Lp) as [[_ La]|B]; [exfalso; clear - La Hk; lia|right; exact B].
        + intros Ho Hpp _. apply Ans; [exact Ho|exact Hpp|clear - Hk; lia].
      - intros w Hw. rewrite Hout. destruct (Z.eqb_spec p w) as [<-|Hn]; [contradiction|reflexivity]. }
    split; [exact HInv|].
    intros x' Hx'. pose proof (nbr_ne _ _ Hx') as Hx'y.
    destruct (Hpos x' Hx') as [Rx' Px']. destruct (Hfs x' Hx') as [Hf1 _].
    pose proof (p_G _ _ _ _ _ (i_pair _ _ _ _ _ HInv x' y Hx')) as E. unfold SG, CG in E.
    rewrite Ry, Rx', updS_same, (updS_other S y s2 x' Hx'y), Kcy, Kng, Hf1 in E. change (b2z true) with 1 in E.
    pose proof (b2z_leb 4 (t_state (S x'))) as [B1 B2].
    destruct Px' as [[P1 P2]|[P1 P2]]; [specialize (B1 P2); clear - E P1 B1; lia|].
    specialize (B2 ltac:(clear - P2; lia)). clear - E P1 B2. lia.
  Qed.

  (* ============================================================ gain message *)
  Lemma step_G y x g l1 l2 : rn y = true -> pd x y = l1 ++ M2Gain g :: l2 -> t_state (S y) = 4 ->
    step_ok y x (M2Gain g) l1 l2.
  Proof.
    intros Ry Hp Hk s2 o2 e2 Hm.
    pose proof (pending_nbr x y _ _ _ Hp) as Hxy. pose proof (nbrs_sym d y x Hxy) as Hyx.
    pose proof (act_of d x y Hxy) as Hact.
    pose proof (i_good _ _ _ _ _ HI y Ry Hact) as Gy.
    assert (Hne : x <> y) by (apply nbr_ne; exact Hxy).
    (* the sender runs, its gain is not yet in the table *)
    pose proof (in_cnt_pos _ _ (in_pd _ _ _ _ _ _ Hp)) as Hc1. simpl in Hc1.
    pose proof (i_pair _ _ _ _ _ HI x y Hxy) as Pxy.
    assert (Hpx : rn x = true /\ ((t_cycle (S x) = t_cycle (S y) /\ 4 <= t_state (S x)) \/
                                   (t_cycle (S x) = t_cycle (S y) + 1 /\ t_state (S x) = 1))).
    { apply nbr_pos4; try assumption; [clear - Hk; lia|]. pose proof (b2z_range (kinv x (t_ng (S y)))) as Hr. clear - Hc1 Hr. lia. }
    destruct Hpx as [Rx Px].
    assert (Hkv : kinv x (t_ng (S y)) = false).
    { pose proof (p_G _ _ _ _ _ Pxy) as E. unfold SG, CG in E. rewrite Rx, Ry in E.
      pose proof (b2z_leb 4 (t_state (S x))) as [B1 B2].
      destruct (kinv x (t_ng (S y))); [exfalso|reflexivity]. change (b2z true) with 1 in E.
      destruct Px as [[P1 P2]|[P1 P2]]; [specialize (B1 P2); clear - E Hc1 P1 B1; lia|].
      specialize (B2 ltac:(clear - P2; lia)). clear - E Hc1 P1 B2. lia. }
    unfold mstep, on_msg in Hm. simpl kind_of in Hm. rewrite Hk in Hm. simpl negb in Hm. cbv iota in Hm.
    rewrite (dict_set_fresh x g (t_ng (S y)) Hkv) in Hm.
    match type of Hm with context [handle_gain_messages _ _ _ _ ?t] =>
      assert (KK : skel t = (t_state (S y), t_cycle (S y), t_fin (S y), t_nv (S y), t_offers (S y), t_ng (S y) ++ [(x, g)],
                             t_partner (S y), t_committed (S y), t_offerer (S y), t_pgain (S y)) /\ posts t = posts (S y))
        by apply skel_set_ng;
      remember t as s1 eqn:Es1 in * end.
    clear Es1. destruct KK as [K1 Po1].
    destruct (g_ng _ _ _ _ Gy) as [Nd Inc].
    assert (Nd1 : NoDup (map fst (t_ng (S y) ++ [(x, g)])) /\ incl (map fst (t_ng (S y) ++ [(x, g)])) (nbr y)).
    { rewrite map_app. simpl. split.
      - apply NoDup_snoc; [exact Nd|]. apply kinv_false. exact Hkv.
      - intros z Hz. apply in_app_or in Hz as [Hz|[<-|[]]]; [apply Inc; exact Hz|exact Hxy]. }
    pose proof K1 as K1'.
    unfold skel in K1. injection K1 as K1st K1cy K1fi K1nv K1of K1ng K1pa K1co K1or K1pg.
    assert (SS1 : skelS s1 = skelS (S y)) by (unfold skelS; rewrite K1st, K1cy, K1fi, K1pa, K1co, K1or; reflexivity).
    assert (Hlen : (length (t_ng s1) <= length (nbr y))%nat).
    { rewrite K1ng. rewrite <- (map_length fst). apply NoDup_incl_length; apply Nd1. }
    cbv zeta in Hm. rewrite zlen_eqb in Hm.
    destruct (Nat.eqb (length (t_ng s1)) (length (nbr y))) eqn:Ez.
    2:{ (* ---- the gain is filed, the table is not complete *)
      apply Nat.eqb_neq in Ez. unfold ret2 in Hm.
      injection Hm as <- <- <-.
      assert (G1 : good y s1).
      { destruct Gy. constructor; rewrite ?K1st, ?K1cy, ?K1fi, ?K1nv, ?K1of, ?K1ng, ?K1pa, ?K1co, ?K1or, ?K1pg; auto.
        - intros H. rewrite Hk in H. clear - H. lia.
        - intros _. rewrite <- K1ng. clear - Ez Hlen. lia.
        - intros H. rewrite Hk in H. clear - H. lia. }
      split; [|split; [apply evok_nil; rewrite K1fi; reflexivity|split; [exact Po1|intros Hc; rewrite K1st in Hc; congruence]]].
      apply (step_frame d stop rn S pd y s1 x (l1 ++ l2) [] HI Ry Hact Hxy G1).
      - intros x' Hx'. assert (Hx'y : x' <> y) by (apply nbr_ne; exact Hx').
        destruct (pd_step_recv pd x y l1 (M2Gain g) l2 [] x' Hp Hx'y) as [Hc Hi].
        apply (pairI_store rn S pd); rewrite ?updS_same, ?updS_other by assumption; try reflexivity; try assumption;
          rewrite ?Hc, ?K1nv, ?K1of, ?K1ng; simpl kind_of; try (rewrite andb_false_r; simpl; lia).
        + rewrite kinv_snoc. destruct (Z.eqb_spec x' x) as [->|Hn]; simpl.
          * rewrite Hkv. simpl. lia.
          * rewrite orb_false_r. lia.
        + intros f os _ H. left. exact H.
        + apply (i_pair _ _ _ _ _ HI x' y Hx').
      - intros w Hw. assert (Hwy : w <> y) by (apply nbr_ne; exact Hw).
        apply (pairI_ext rn S pd); rewrite ?updS_same, ?updS_other by assumption; try reflexivity; try assumption.
        + intros k. rewrite pd_step_send. simpl. rewrite app_nil_r. reflexivity.
        + intros m0. rewrite pd_step_send. simpl. rewrite app_nil_r. auto.
        + apply (i_pair _ _ _ _ _ HI y w (nbrs_sym d y w Hw)).
      - intros w _. reflexivity. }
    (* ---- the table is complete *)
    apply Nat.eqb_eq in Ez. rewrite K1ng in Ez.
    assert (Hcom : t_committed s1 = true -> t_pgain s1 <> 0 /\ exists p, t_partner s1 = Some p).
    { rewrite K1co, K1pg, K1pa. intros H. destruct (g_com _ _ _ _ Gy H) as (H1 & p & H2 & _). split; [exact H1|exists p; exact H2]. }
    destruct (hgm0_spec d stop y s1 Hcom) as [(Hco & s' & p & go & Hpa & E & K & Po)|(Hnc & s' & vs & pre & E & Vp & K & Po)];
      rewrite E in Hm; injection Hm as <- <- <-; rewrite ?K1st, ?K1cy, ?K1fi, ?K1nv, ?K1of, ?K1ng, ?K1pa, ?K1co, ?K1or, ?K1pg in *.
    - (* committed: the go / no-go is sent, state go *)
      destruct (commit_ok y x g l1 l2 s' p go Ry Hp Hk Hkv Ez Hco Hpa K) as [HInv Hz].
      skel_inv K.
      split; [exact HInv|]. split; [apply evok_nil; exact Kfi|]. split; [congruence|].
      intros _. rewrite Hk. exact Hz.
    - (* not committed: end of the cycle *)
      assert (Hfull : forall x', In x' (nbr y) ->
                b2z (kinv x' (t_ng (S y))) + b2z ((x' =? x) && (kind_of (M2Gain g) =? 4)) = 1)
        by (intros x' Hx'; apply (full_store y x g Gy Hxy Hkv Ez x' Hx')).
      destruct (finish_ok y x (M2Gain g) l1 l2 s' vs Ry Hp (or_introl (conj Hk (conj Hnc eq_refl))) Hfull K) as [HInv Hz].
      split; [exact HInv|]. split; [|split; [congruence|]].
      + skel_inv K. apply evok_finish; assumption.
      + intros _. exact Hz.
  Qed.
End StepG.
