(* P_Mgm2sG.v -- MGM2 barrier proof: the micro-steps that consume a GAIN message (state gain: the gain is
   filed; when the table is complete the computation either sends its go / no-go and waits in state go,
   or ends its cycle) and a GO message (state go: the cycle ends). *)
From Coq Require Import ZArith List Bool Lia.
From PyDcop Require Import Base Net M_Mgm M_Mgm2 M_Mgm2x P_Mgm P_Mgm3 P_Mgm3c P_Mgm2x P_Mgm2y P_Mgm2s.
Import ListNotations.
Open Scope Z_scope.

Local Notation length := List.length.

Section StepG.
  Variable d : dcop.
  Variable stop thr favor : Z.
  Notation nbr := (nbrs d).
  Notation doneb := (doneb stop).
  Notation InvA := (InvA d stop).
  Notation good := (good d stop).
  Variable rn : node -> bool.
  Variable S : node -> m2st.
  Variable pd : node -> node -> list m2msg.
  Hypothesis HI : InvA rn S pd.
  Notation step_ok := (step_ok d stop thr favor rn S pd).
  Notation pos_facts := (pos_facts d stop rn S pd HI).
  Notation le_facts := (le_facts d stop rn S pd HI).
  Notation pending_nbr := (pending_nbr d stop rn S pd HI).
  Notation evok := (evok stop).

  (* ------------------------------------------------------------ small helpers *)
  Lemma kinv_snoc a (l : list (Z * Z)) x g : kinv a (l ++ [(x, g)]) = kinv a l || (a =? x).
  Proof. unfold kinv, zmem. rewrite map_app, existsb_app. simpl. rewrite orb_false_r. reflexivity. Qed.

  Lemma b2z_orb_excl a b : a = false \/ b = false -> b2z (a || b) = b2z a + b2z b.
  Proof. destruct a, b; simpl; intros [H|H]; try discriminate; reflexivity. Qed.

  Lemma nbr_ne a b : In a (nbr b) -> a <> b.
  Proof. intros H ->. eapply nbrs_irrefl; eauto. Qed.

  (* a neighbour whose gain of the current cycle of y has been sent: it runs and is either in the
     same cycle in state gain / go, or one cycle ahead in state value *)
  Lemma nbr_pos4 y w : rn y = true -> In w (nbr y) -> 4 <= t_state (S y) ->
    1 <= cnt 4 (pd w y) + b2z (kinv w (t_ng (S y))) ->
    rn w = true /\
    ((t_cycle (S w) = t_cycle (S y) /\ 4 <= t_state (S w)) \/ (t_cycle (S w) = t_cycle (S y) + 1 /\ t_state (S w) = 1)).
  Proof.
    intros Ry Hw Hk H1.
    pose proof (i_good _ _ _ _ _ HI y Ry (act_of d w y Hw)) as Gy.
    pose proof (p_G _ _ _ _ _ (i_pair _ _ _ _ _ HI w y Hw)) as E. unfold SG, CG in E. rewrite Ry in E.
    pose proof (g_c _ _ _ _ Gy) as Cy.
    assert (Rw : rn w = true).
    { destruct (rn w); [reflexivity|exfalso]. clear - E H1 Cy. lia. }
    split; [exact Rw|]. rewrite Rw in E.
    destruct (pos_facts w y Hw Rw Ry) as (Q1 & Q2 & _).
    pose proof (b2z_leb 4 (t_state (S w))) as [B1 B2].
    pose proof (b2z_range (4 <=? t_state (S w))) as B3.
    destruct (Z.eq_dec (t_cycle (S w)) (t_cycle (S y) + 1)) as [Ec|Ec].
    - right. split; [exact Ec|]. apply Q2. exact Ec.
    - left. assert (t_cycle (S w) = t_cycle (S y)) by (clear - E H1 Q1 Ec B3; lia).
      split; [assumption|]. destruct (Z.le_gt_cases 4 (t_state (S w))) as [L|L]; [exact L|exfalso].
      assert (0 < 4 - t_state (S w) -> False); [|lia]. intros _.
      specialize (B2 ltac:(lia)). clear - E H1 H B2. lia.
  Qed.

  Lemma and_dec (A B : Prop) : {A} + {~ A} -> {B} + {~ B} -> {A /\ B} + {~ (A /\ B)}.
  Proof. intros [a|a] [b|b]; [left; split; assumption|right; tauto ..]. Qed.
  Lemma or_dec (A B : Prop) : {A} + {~ A} -> {B} + {~ B} -> {A \/ B} + {~ (A \/ B)}.
  Proof. intros [a|a] [b|b]; [left; tauto ..|right; tauto]. Qed.

  Lemma go_dec (T : node -> m2st) y x : {expG T y x /\ sentGo T x y} + {~ (expG T y x /\ sentGo T x y)}.
  Proof.
    unfold expG, sentGo.
    assert (D1 : {t_partner (T y) = Some x} + {t_partner (T y) <> Some x}) by (decide equality; apply Z.eq_dec).
    assert (D2 : {4 <= t_state (T y)} + {~ 4 <= t_state (T y)}) by (destruct (Z_le_gt_dec 4 (t_state (T y))); [left; assumption|right; lia]).
    apply and_dec; [apply and_dec; [apply bool_dec|apply and_dec; assumption]|].
    apply or_dec; [apply and_dec|]; apply Z.eq_dec.
  Qed.
End StepG.
