(* P_Ucs4.v -- C25 deepening, part 3: termination-related theorems.
   Under [guards] (symmetric non-negative routes, non-negative hosting costs) and [uniq]
   (a computation name is owned by one agent, an agent's computation names are distinct):
     - no handler ever raises (ucs_no_raise),
     - an agent that has not reported replication_done still has something pending: the
       orchestrator is not started, or its replicate order is in flight, or one of its
       computations is in progress and its token is in flight (ucs_progress),
     - hence in a quiescent configuration every agent has reported done (ucs_quiescent_all_done). *)
From PyDcop Require Import Base P_Base Net M_Ucs P_Ucs P_Ucs2 P_Ucs3.
From Coq Require Import Lia ZifyBool.

(* ------------------------------------------------------------------ generic facts *)
Lemma In_send_all_keep {Msg} outs : forall (c : node -> node -> list Msg) src s d m,
  In m (c s d) -> In m (send_all c src outs s d).
Proof.
  induction outs as [|[d0 m0] r IH]; simpl; intros c src s d m H; auto.
  apply IH. unfold upd_chan. destruct (Z.eqb_spec s src), (Z.eqb_spec d d0); simpl; subst; auto.
  apply in_or_app. auto.
Qed.

Lemma In_send_all_new {Msg} outs : forall (c : node -> node -> list Msg) src d m,
  In (d, m) outs -> In m (send_all c src outs src d).
Proof.
  induction outs as [|[d0 m0] r IH]; simpl; intros c src d m H; [contradiction|].
  destruct H as [H|H]; auto.
  inversion H; subst. apply In_send_all_keep. unfold upd_chan. rewrite !Z.eqb_refl. simpl.
  apply in_or_app. right. left. reflexivity.
Qed.

Lemma In_reinject_keep {Msg} l : forall (c : node -> node -> list Msg) dst s d m,
  In m (c s d) -> In m (reinject_all c dst l s d).
Proof.
  unfold reinject_all. induction l as [|[s0 m0] r IH]; simpl; intros c dst s d m H; auto.
  unfold upd_chan. destruct (Z.eqb_spec s s0), (Z.eqb_spec d dst); simpl; subst; try (apply IH; exact H).
  right. apply IH. exact H.
Qed.

Lemma In_reinject_new {Msg} l : forall (c : node -> node -> list Msg) dst s m,
  In (s, m) l -> In m (reinject_all c dst l s dst).
Proof.
  unfold reinject_all. induction l as [|[s0 m0] r IH]; simpl; intros c dst s m H; [contradiction|].
  unfold upd_chan. destruct H as [H|H].
  - inversion H; subst. rewrite !Z.eqb_refl. simpl. left. reflexivity.
  - destruct (Z.eqb_spec s s0), (Z.eqb_spec dst dst); simpl; subst; try contradiction; try (apply IH; exact H).
    right. apply IH. exact H.
Qed.

Lemma In_mem_key (k : Z) {V} (v : V) l : In (k, v) l -> mem_key Z.eqb k l = true.
Proof.
  unfold mem_key. induction l as [|[k' v'] r IH]; simpl; intros H; [contradiction|].
  destruct (Z.eqb_spec k k'); auto. destruct H as [H|H]; [inversion H; congruence|auto].
Qed.

Lemma mem_key_In (k : Z) {V} (l : list (Z * V)) : mem_key Z.eqb k l = true -> exists v, In (k, v) l.
Proof.
  unfold mem_key. destruct (lookup Z.eqb k l) as [v|] eqn:E; [|discriminate]. intros _. exists v.
  apply (lookup_In Z.eqb Z.eqb_eq). exact E.
Qed.

Lemma dict_set_nodup_val (c : Z) {V} (v x : V) l :
  NoDup (map fst l) -> In (c, x) (dict_set Z.eqb c v l) -> x = v.
Proof.
  induction l as [|[k' v'] r IH]; simpl; intros ND H.
  - destruct H as [H|[]]. inversion H; auto.
  - simpl in ND. apply NoDup_cons_iff in ND as [H1 H2]. destruct (Z.eqb_spec c k') as [->|Hne]; simpl in H.
    + destruct H as [H|H]; [inversion H; auto|]. exfalso. apply H1. apply in_map_iff. exists (k', x). auto.
    + destruct H as [H|H]; [inversion H; congruence|auto].
Qed.

Lemma dict_set_keys (c : Z) {V} (v : V) l :
  mem_key Z.eqb c l = true -> map fst (dict_set Z.eqb c v l) = map fst l.
Proof.
  unfold mem_key. induction l as [|[k' v'] r IH]; simpl; [discriminate|].
  destruct (Z.eqb_spec c k') as [->|Hne]; simpl; auto. intros H. f_equal. auto.
Qed.

Lemma filter_keys_nodup {V} (f : Z * V -> bool) l : NoDup (map fst l) -> NoDup (map fst (filter f l)).
Proof.
  induction l as [|e r IH]; simpl; intros ND; [constructor|]. apply NoDup_cons_iff in ND as [H1 H2].
  destruct (f e); simpl; auto. constructor; auto. intro H. apply H1.
  apply in_map_iff in H as [y [E H]]. apply filter_In in H as [H _]. apply in_map_iff. exists y. auto.
Qed.

Lemma tracker_fold names : forall acc,
  NoDup names -> (forall c, In c names -> mem_key Z.eqb c acc = false) ->
  fold_left tracker_add names acc = acc ++ map (fun c => (c, 1)) names.
Proof.
  induction names as [|c r IH]; simpl; intros acc ND D; [rewrite app_nil_r; reflexivity|].
  apply NoDup_cons_iff in ND as [H1 H2].
  assert (E : tracker_add acc c = acc ++ [(c, 1)]).
  { unfold tracker_add. pose proof (D c (or_introl eq_refl)) as M. unfold mem_key in M.
    unfold zlookup. destruct (lookup Z.eqb c acc) eqn:L; [discriminate|].
    clear - L. induction acc as [|[k' v'] a IHa]; simpl in *; auto.
    destruct (Z.eqb c k'); [discriminate|]. f_equal. auto. }
  rewrite E, IH; auto.
  - rewrite <- app_assoc. reflexivity.
  - intros c' Hc'. unfold mem_key.
    assert (Hne : c' <> c) by (intro; subst; contradiction).
    pose proof (D c' (or_intror Hc')) as M. unfold mem_key in M.
    clear - M Hne. induction acc as [|[k' v'] a IHa]; simpl in *.
    + destruct (Z.eqb_spec c' c); [contradiction|reflexivity].
    + destruct (Z.eqb c' k'); auto.
Qed.

Section RunningHeld.
  Context {St Msg Ev : Type} (P : proto St Msg Ev).
  Lemma running_held cf : reachable P cf -> forall n, w_running (nodes cf n) = true -> w_held (nodes cf n) = [].
  Proof.
    induction 1 as [|cf a R IH]; intros n; simpl; [discriminate|].
    destruct a as [x|s d]; simpl.
    - destruct (w_running (nodes cf x)) eqn:Er; [apply IH|].
      destruct (p_start P x (w_st (nodes cf x))) as [[st' outs] evs]. simpl. unfold upd_node.
      destruct (n =? x); simpl; auto.
    - destruct (chan cf s d) as [|m q]; [apply IH|].
      destruct (w_running (nodes cf d)) eqn:Er.
      + destruct (p_recv P d (w_st (nodes cf d)) s m) as [[st' outs] evs]. simpl. unfold upd_node.
        destruct (Z.eqb_spec n d) as [->|]; simpl; auto.
      + simpl. unfold upd_node. destruct (Z.eqb_spec n d) as [->|]; simpl; auto. discriminate.
  Qed.
End RunningHeld.

(* ------------------------------------------------------------------ the global invariant *)
Section Global.
  Variable C : cfg.
  Hypothesis G : guards C.
  Record uniq : Prop := mkUniq {
    u_own : forall a b c, owns C a c = true -> owns C b c = true -> a = b;
    u_names : forall a, NoDup (own_names C a)
  }.
  Hypothesis UN : uniq.
  Notation P := (ucs_proto C).
  Notation config := (Net.config nstate msg).
  Notation st cf n := (w_st (nodes cf n)).

  Definition InFl (cf : config) (d : Z) (m : msg) : Prop :=
    is_agent C d = true /\
    ((exists s, In m (chan cf s d)) \/ (exists s, In (s, m) (w_held (nodes cf d)))).
  Definition done_in (evs : list ev) (n : Z) : Prop := exists rh, In (EvDone n rh) evs.
  Definition pre (cf : config) (n : Z) : Prop :=
    w_running (nodes cf ORCH) = false \/ exists k, InFl cf n (MReplicate k).
  Definition Qn (cf : config) (evs : list ev) (n : Z) : Prop :=
    (s_inprog (st cf n) = [] -> done_in evs n)
    /\ (forall c v, In (c, v) (s_inprog (st cf n)) ->
          v = 1 /\ exists d m, InFl cf d m /\ is_tok c m = true)
    /\ NoDup (map fst (s_inprog (st cf n)))
    /\ (forall c, owns C n c = true ->
          mem_key Z.eqb c (s_inprog (st cf n)) = true \/ mem_key Z.eqb c (s_rhosts (st cf n)) = true).
  Definition Jn (cf : config) (evs : list ev) (n : Z) : Prop :=
    (active C n -> (pre cf n /\ s_inprog (st cf n) = []) \/ Qn cf evs n)
    /\ (~ active C n -> pre cf n \/ done_in evs n).
  Definition J (cf : config) (evs : list ev) : Prop :=
    (forall n, is_agent C n = true -> Jn cf evs n)
    /\ (forall d m c o, InFl cf d m -> is_tok c m = true -> owns C o c = true -> active C o)
    /\ (forall n c v, is_agent C n = true -> In (c, v) (s_inprog (st cf n)) -> owns C n c = true).

  Lemma active_dec n : active C n \/ ~ active C n.
  Proof.
    unfold active. destruct (a_comps (agent C n)); [right; intros [H _]; contradiction|].
    destruct (neighbors C n); [right; intros [_ H]; contradiction|]. left. split; discriminate.
  Qed.

  Lemma done_mono evs e n : done_in evs n -> done_in (evs ++ e) n.
  Proof. intros [rh H]. exists rh. apply in_or_app. auto. Qed.

  (* J only depends on the in-flight messages, the trackers, and the orchestrator's flag *)
  Lemma J_transfer cf cf' evs e :
    (forall d m, InFl cf d m -> InFl cf' d m) ->
    (forall d m c, InFl cf' d m -> is_tok c m = true -> InFl cf d m) ->
    (forall n, s_inprog (st cf' n) = s_inprog (st cf n) /\ s_rhosts (st cf' n) = s_rhosts (st cf n)) ->
    (w_running (nodes cf ORCH) = false -> w_running (nodes cf' ORCH) = false
                                         \/ forall n, is_agent C n = true -> exists k, InFl cf' n (MReplicate k)) ->
    J cf evs -> J cf' (evs ++ e).
  Proof.
    intros F1 F2 ST OR (J1 & J3 & J4).
    assert (PRE : forall n, is_agent C n = true -> pre cf n -> pre cf' n).
    { intros n An [H|[k H]]; [|right; exists k; auto].
      destruct (OR H) as [H'|H']; [left; auto|right; auto]. }
    split; [|split].
    - intros n An. destruct (J1 n An) as [A B]. destruct (ST n) as [S1 S2]. split.
      + intros Ac. destruct (A Ac) as [[Pn E]|(Q1 & Q2 & Q3 & Q4)].
        * left. split; auto. rewrite S1. exact E.
        * right. unfold Qn. rewrite S1, S2. split; [intros H; apply done_mono; auto|].
          split; [|split; auto]. intros c v I. destruct (Q2 c v I) as (V & d & m & IF & T).
          split; auto. exists d, m. auto.
      + intros NA. destruct (B NA) as [Pn|D]; [left; auto|right; apply done_mono; auto].
    - intros d m c o IF T O. apply (J3 d m c o); eauto.
    - intros n c v An. destruct (ST n) as [S1 _]. rewrite S1. apply J4; auto.
  Qed.

  (* ---- reachable configurations: the facts we import *)
  Lemma uniq_own c o : owns C o c = true -> forall d, owns C d c = true -> d = o.
  Proof. intros H d Hd. eapply (u_own UN); eauto. Qed.

  Lemma fw_tok c o d m : is_tok c m = true -> P_Ucs.fw c o d m = true.
  Proof. intros H. unfold P_Ucs.fw. rewrite H. reflexivity. Qed.
  Lemma fw_rep c o k : P_Ucs.fw c o o (MReplicate k) = true.
  Proof. unfold P_Ucs.fw. simpl. apply Z.eqb_refl. Qed.
  Lemma tok_not_rep c m k : is_tok c m = true -> m <> MReplicate k.
  Proof. intros H E. subst. discriminate. Qed.

  (* a weighted message at the head of (s,d): every other message in flight has weight 0 *)
  Lemma head_excl cf s d m q c o :
    reachable P cf -> owns C o c = true -> chan cf s d = m :: q -> is_agent C d = true ->
    P_Ucs.fw c o d m = true ->
    w_running (nodes cf ORCH) = true
    /\ mem_key Z.eqb c (s_rhosts (st cf o)) = false
    /\ (forall d1 m1, InFl cf d1 m1 -> P_Ucs.fw c o d1 m1 = true -> d1 = d /\ m1 = m).
  Proof.
    intros R Ho Ech Ad F.
    destruct (head_exclusive C c o (uniq_own c o Ho) (u_names UN o) cf s d m q R Ech (agent_inU C d Ad) F)
      as (X1 & X2 & X3 & X4).
    split; auto. split; auto.
    intros d1 m1 (A1 & [(s1 & I)|(s1 & I)]) F1.
    - destruct (Z.eq_dec s1 s) as [->|Hs]; [destruct (Z.eq_dec d1 d) as [->|Hd]|].
      + rewrite Ech in I. destruct I as [<-|I]; auto.
        exfalso. assert (I' : In m1 (upd_chan (chan cf) s d q s d)) by (unfold upd_chan; rewrite !Z.eqb_refl; exact I).
        rewrite (X3 s d m1 I' (agent_inU C d A1)) in F1. discriminate.
      + exfalso. assert (I' : In m1 (upd_chan (chan cf) s d q s d1)).
        { unfold upd_chan. destruct (Z.eqb_spec d1 d); [contradiction|]. rewrite andb_false_r. exact I. }
        rewrite (X3 s d1 m1 I' (agent_inU C d1 A1)) in F1. discriminate.
      + exfalso. assert (I' : In m1 (upd_chan (chan cf) s d q s1 d1)).
        { unfold upd_chan. destruct (Z.eqb_spec s1 s); [contradiction|]. exact I. }
        rewrite (X3 s1 d1 m1 I' (agent_inU C d1 A1)) in F1. discriminate.
    - exfalso. rewrite (X4 d1 s1 m1 I (agent_inU C d1 A1)) in F1. discriminate.
  Qed.

  (* ---- messages in flight across a delivery to a running node *)
  Section Deliver.
    Variables (cf : config) (s d : Z) (m : msg) (q : list msg) (st' : nstate) (outs : list (node * msg)).
    Hypothesis Ech : chan cf s d = m :: q.
    Let cf' : config :=
      mkConfig (upd_node (nodes cf) d (mkWrap true (w_held (nodes cf d)) st')) (send_all (upd_chan (chan cf) s d q) d outs).

    Lemma InFl_deliver_old d1 m1 : InFl cf d1 m1 -> (d1 = d /\ m1 = m) \/ InFl cf' d1 m1.
    Proof.
      intros (A1 & [(s1 & I)|(s1 & I)]).
      - destruct (Z.eq_dec s1 s) as [->|Hs]; [destruct (Z.eq_dec d1 d) as [->|Hd]|].
        + rewrite Ech in I. destruct I as [<-|I]; auto. right. split; auto. left. exists s.
          unfold cf'. simpl. apply In_send_all_keep. unfold upd_chan. rewrite !Z.eqb_refl. exact I.
        + right. split; auto. left. exists s. unfold cf'. simpl. apply In_send_all_keep.
          unfold upd_chan. destruct (Z.eqb_spec d1 d); [contradiction|]. rewrite andb_false_r. exact I.
        + right. split; auto. left. exists s1. unfold cf'. simpl. apply In_send_all_keep.
          unfold upd_chan. destruct (Z.eqb_spec s1 s); [contradiction|]. exact I.
      - right. split; auto. right. exists s1. unfold cf'. simpl. unfold upd_node.
        destruct (Z.eqb_spec d1 d) as [->|]; simpl; auto.
    Qed.

    Lemma InFl_deliver_new d1 m1 : In (d1, m1) outs -> is_agent C d1 = true -> InFl cf' d1 m1.
    Proof.
      intros I A1. split; auto. left. exists d. unfold cf'. simpl. apply In_send_all_new. exact I.
    Qed.

    Lemma InFl_deliver_back d1 m1 : InFl cf' d1 m1 -> InFl cf d1 m1 \/ In (d1, m1) outs.
    Proof.
      intros (A1 & [(s1 & I)|(s1 & I)]).
      - unfold cf' in I. simpl in I. apply In_send_all in I as [I|[E I]]; [|right; exact I].
        left. split; auto. left. exists s1.
        apply In_upd_chan in I as [(-> & -> & I)|I]; auto. rewrite Ech. right. exact I.
      - left. split; auto. right. exists s1. unfold cf' in I. simpl in I. unfold upd_node in I.
        destruct (Z.eqb_spec d1 d) as [->|]; simpl in I; auto.
    Qed.
  End Deliver.

  (* ---- an agent whose trackers are untouched by a delivery *)
  Lemma Jn_other cf cf' evs e n d0 m0 :
    (forall d m, InFl cf d m -> (d = d0 /\ m = m0) \/ InFl cf' d m) ->
    s_inprog (st cf' n) = s_inprog (st cf n) -> s_rhosts (st cf' n) = s_rhosts (st cf n) ->
    w_running (nodes cf' ORCH) = w_running (nodes cf ORCH) ->
    (forall k, m0 = MReplicate k -> d0 <> n) ->
    (forall c v, In (c, v) (s_inprog (st cf n)) -> is_tok c m0 = true ->
       exists d' m', InFl cf' d' m' /\ is_tok c m' = true) ->
    Jn cf evs n -> Jn cf' (evs ++ e) n.
  Proof.
    intros F S1 S2 OR HR HT [A B].
    assert (PRE : pre cf n -> pre cf' n).
    { intros [H|[k H]]; [left; congruence|]. right. exists k.
      destruct (F _ _ H) as [[E1 E2]|H']; auto. exfalso. eapply HR; eauto. }
    split.
    - intros Ac. destruct (A Ac) as [[Pn E]|(Q1 & Q2 & Q3 & Q4)].
      + left. split; auto. congruence.
      + right. unfold Qn. rewrite S1, S2. split; [intros H; apply done_mono; auto|].
        split; [|split; auto]. intros c v I. destruct (Q2 c v I) as (V & d & m & IF & T).
        split; auto. destruct (F _ _ IF) as [[E1 E2]|IF']; [|eauto]. subst. eapply HT; eauto.
    - intros NA. destruct (B NA) as [Pn|D]; [left; auto|right; apply done_mono; auto].
  Qed.

  Definition NRs (e : list ev) : Prop := forall x k, ~ In (EvRaise x k) e.

  Lemma agent_in_ids a : is_agent C a = true -> In a (agent_ids C).
  Proof. unfold is_agent, nagents, agent_ids. intros H. apply zrange_from_In_conv. lia. Qed.

  Lemma tracker_keys names : forall acc c v,
    In (c, v) (fold_left tracker_add names acc) -> In c names \/ exists v', In (c, v') acc.
  Proof.
    induction names as [|x r IH]; simpl; intros acc c v H; [eauto|].
    apply IH in H as [H|[v' H]]; auto. unfold tracker_add in H.
    apply (In_dict_set Z.eqb Z.eqb_eq) in H as [H|H]; [inversion H; auto|eauto].
  Qed.

  Lemma J_start_gen cf n evs (outs : list (node * msg)) :
    (forall d m c, In (d, m) outs -> is_tok c m = false) ->
    (n = ORCH -> forall a, is_agent C a = true -> exists k, In (a, MReplicate k) outs) ->
    w_running (nodes cf n) = false ->
    J cf evs ->
    J (mkConfig (upd_node (nodes cf) n (mkWrap true [] (w_st (nodes cf n))))
                (reinject_all (send_all (chan cf) n outs) n (reinject (w_held (nodes cf n))))) (evs ++ []).
  Proof.
    intros NT REP Er HJ. apply (J_transfer cf); auto.
    - intros d m (A & [(s & I)|(s & I)]); split; auto.
      + left. exists s. simpl. apply In_reinject_keep, In_send_all_keep. exact I.
      + simpl. destruct (Z.eq_dec d n) as [->|Hne].
        * left. exists s. apply In_reinject_new. exact I.
        * right. exists s. unfold upd_node. destruct (Z.eqb_spec d n); [contradiction|exact I].
    - intros d m c (A & [(s & I)|(s & I)]) T; split; auto; simpl in I.
      + apply In_reinject_all in I as [I|[-> I]]; [|right; exists s; exact I].
        apply In_send_all in I as [I|[-> I]]; [left; exists s; exact I|].
        exfalso. rewrite (NT d m c I) in T. discriminate.
      + unfold upd_node in I. destruct (Z.eqb_spec d n); simpl in I; [contradiction|]. right. exists s. exact I.
    - intros x. simpl. unfold upd_node. destruct (Z.eqb_spec x n) as [->|]; simpl; auto.
    - intros OF. simpl. unfold upd_node. destruct (Z.eqb_spec ORCH n) as [E|Hne]; simpl; [right|left; exact OF].
      intros a Aa. destruct (REP (eq_sym E) a Aa) as [k I]. exists k. split; auto. left. exists n. simpl.
      apply In_reinject_keep, In_send_all_new. exact I.
  Qed.

  (* ---- the step *)
  Lemma step_J cf a evs : reachable P cf -> J cf evs ->
    J (fst (step P cf a)) (evs ++ snd (step P cf a)) /\ NRs (snd (step P cf a)).
  Proof.
    intros R HJ. pose proof (reachable_inv2 C G cf R) as [IC IH].
    assert (NIL : J cf (evs ++ []) /\ NRs []) by (rewrite app_nil_r; split; [exact HJ|intros x k []]).
    destruct a as [n|s d]; simpl.
    - (* Start n *)
      destruct (w_running (nodes cf n)) eqn:Er; [exact NIL|].
      change (p_start P n (w_st (nodes cf n))) with (ucs_start C n (w_st (nodes cf n))).
      unfold ucs_start. destruct (Z.eqb_spec n ORCH) as [En|En]; simpl; (split; [|intros x k []]).
      + apply (J_start_gen cf n evs (map (fun a => (a, MReplicate (c_k C))) (agent_ids C))); auto.
        * intros d m c I. apply in_map_iff in I as [a0 [E _]]. inversion E; subst. reflexivity.
        * intros _ a Aa. exists (c_k C). apply in_map_iff. exists a. split; auto. apply agent_in_ids; auto.
      + apply (J_start_gen cf n evs []); auto; [intros d m c []|contradiction].
    - (* Deliver s d *)
      destruct (chan cf s d) as [|m q] eqn:Ech; [exact NIL|].
      assert (MOK : mok2 C d m) by (apply (IC s d); rewrite Ech; left; auto).
      destruct (w_running (nodes cf d)) eqn:Er.
      2:{ (* stored in the hold buffer *)
          simpl. split; [|intros x k []]. apply (J_transfer cf); auto.
          - intros d1 m1 (A & [(s1 & I)|(s1 & I)]); split; auto; simpl.
            + destruct (Z.eq_dec s1 s) as [->|Hs]; [destruct (Z.eq_dec d1 d) as [->|Hd]|].
              * rewrite Ech in I. destruct I as [<-|I].
                -- right. exists s. unfold upd_node. rewrite Z.eqb_refl. simpl. apply in_or_app. right. left. reflexivity.
                -- left. exists s. unfold upd_chan. rewrite !Z.eqb_refl. exact I.
              * left. exists s. unfold upd_chan. destruct (Z.eqb_spec d1 d); [contradiction|]. rewrite andb_false_r. exact I.
              * left. exists s1. unfold upd_chan. destruct (Z.eqb_spec s1 s); [contradiction|]. exact I.
            + right. exists s1. unfold upd_node. destruct (Z.eqb_spec d1 d) as [->|]; simpl; auto. apply in_or_app. auto.
          - intros d1 m1 c (A & [(s1 & I)|(s1 & I)]) _; split; auto; simpl in I.
            + left. exists s1. apply In_upd_chan in I as [(-> & -> & I)|I]; auto. rewrite Ech. right. exact I.
            + unfold upd_node in I. destruct (Z.eqb_spec d1 d) as [->|]; simpl in I; [|right; exists s1; exact I].
              apply in_app_or in I as [I|[I|[]]]; [right; exists s1; exact I|].
              injection I as E1 E2. left. exists s. rewrite Ech, <- E2. left. reflexivity.
          - intros x. simpl. unfold upd_node. destruct (Z.eqb_spec x d) as [->|]; simpl; auto.
          - intros OF. left. simpl. unfold upd_node. destruct (Z.eqb_spec ORCH d) as [<-|]; simpl; auto. }
      change (p_recv P d (w_st (nodes cf d)) s m) with (ucs_recv C d (w_st (nodes cf d)) s m).
      pose proof (ucs_recv_nr C G d (w_st (nodes cf d)) s m MOK) as RNR.
      pose proof HJ as HJ0. destruct HJ as (J1 & J3 & J4).
      assert (ORF : forall st' (outs : list (node * msg)),
                 w_running (nodes (mkConfig (upd_node (nodes cf) d (mkWrap true (w_held (nodes cf d)) st'))
                                            (send_all (upd_chan (chan cf) s d q) d outs)) ORCH)
                 = w_running (nodes cf ORCH)).
      { intros st' outs. simpl. unfold upd_node. destruct (Z.eqb_spec ORCH d) as [<-|]; simpl; auto. }
      assert (STO : forall st' (outs : list (node * msg)) x, x <> d ->
                 st (mkConfig (upd_node (nodes cf) d (mkWrap true (w_held (nodes cf d)) st'))
                              (send_all (upd_chan (chan cf) s d q) d outs)) x = st cf x).
      { intros st' outs x Hx. simpl. unfold upd_node. destruct (Z.eqb_spec x d); [contradiction|reflexivity]. }
      assert (STD : forall st' (outs : list (node * msg)),
                 st (mkConfig (upd_node (nodes cf) d (mkWrap true (w_held (nodes cf d)) st'))
                              (send_all (upd_chan (chan cf) s d q) d outs)) d = st').
      { intros st' outs. simpl. unfold upd_node. rewrite Z.eqb_refl. reflexivity. }
      destruct (is_agent C d) eqn:Ad.
      2:{ (* not an agent: the message is ignored *)
          unfold ucs_recv. rewrite Ad. simpl. split; [|intros x k []].
          apply (J_transfer cf); [| | | |exact HJ0].
          - intros d1 m1 IF. destruct (InFl_deliver_old cf s d m q (w_st (nodes cf d)) [] Ech d1 m1 IF) as [[-> _]|H]; auto.
            destruct IF as [A _]. congruence.
          - intros d1 m1 c IF _. destruct (InFl_deliver_back cf s d m q (w_st (nodes cf d)) [] Ech d1 m1 IF) as [H|[]]. exact H.
          - intros x. simpl. unfold upd_node. destruct (Z.eqb_spec x d) as [->|]; simpl; auto.
          - intros OF. left. rewrite <- OF. apply (ORF (w_st (nodes cf d)) []). }
      destruct (tok_of m) as [t|] eqn:TK.
      + (* a request / answer token of c = t_comp t *)
        pose proof (recv_token C d (w_st (nodes cf d)) s m t Ad TK) as RT.
        destruct (ucs_recv C d (w_st (nodes cf d)) s m) as [[st' outs] e]. destruct RNR as [OUTOK NR0]. simpl.
        set (c := t_comp t) in *.
        assert (Tm : is_tok c m = true) by (destruct m; simpl in TK; inversion TK; subst; simpl; apply Z.eqb_refl).
        assert (TmI : forall c1, is_tok c1 m = true -> c1 = c).
        { intros c1 H. pose proof (is_tok_inj c1 c m H) as E. rewrite Tm in E. symmetry in E. apply Z.eqb_eq in E. exact E. }
        assert (IFm : InFl cf d m) by (split; auto; left; exists s; rewrite Ech; left; reflexivity).
        set (cf' := mkConfig (upd_node (nodes cf) d (mkWrap true (w_held (nodes cf d)) st')) (send_all (upd_chan (chan cf) s d q) d outs)).
        (* the owner of c is active, past its replicate order, and tracks c *)
        assert (OWN : forall o, owns C o c = true ->
                  active C o /\ mem_key Z.eqb c (s_inprog (st cf o)) = true /\ is_agent C o = true).
        { intros o Ho. assert (Ac : active C o) by (eapply J3; eauto).
          assert (Ao : is_agent C o = true).
          { destruct (is_agent C o) eqn:E; auto. exfalso. destruct Ac as [Ac _]. apply Ac.
            unfold agent. unfold is_agent in E. rewrite E. reflexivity. }
          destruct (head_excl cf s d m q c o R Ho Ech Ad (fw_tok c o d m Tm)) as (X1 & X2 & X3).
          destruct (J1 o Ao) as [A _]. destruct (A Ac) as [[[Pn|[k Pn]] _]|(_ & _ & _ & Q4)].
          - congruence.
          - exfalso. destruct (X3 o (MReplicate k) Pn (fw_rep c o k)) as [_ E]. subst m. discriminate.
          - destruct (Q4 c Ho) as [H|H]; [auto|congruence]. }
        assert (NOR : NRs e).
        { intros x k I. destruct (NR0 x k I) as (t0 & Em & Z0 & Ho).
          assert (E : t_comp t0 = c) by (subst m; simpl in TK; inversion TK; reflexivity).
          rewrite E in *. destruct (OWN d Ho) as (_ & M & _). unfold mem_key, zlookup in *. rewrite Z0 in M. discriminate. }
        destruct RT as [((d' & m' & -> & Tm') & (S1 & S2))|[(-> & RP & (t' & Em))|(-> & _ & (k & I))]].
        * (* the token moves on *)
          split; [|exact NOR].
          assert (Ad' : is_agent C d' = true).
          { destruct (mok2_dest_agent C d' m' (OUTOK d' m' (or_introl eq_refl))) as [[k ->]|H]; [discriminate|exact H]. }
          assert (NEW : InFl cf' d' m') by (apply InFl_deliver_new; auto; left; reflexivity).
          split; [|split].
          -- intros n An. apply (Jn_other cf cf' evs e n d m); auto.
             ++ intros d1 m1 IF. apply (InFl_deliver_old cf s d m q st' [(d', m')] Ech); auto.
             ++ destruct (Z.eq_dec n d) as [->|Hne]; [unfold cf'; rewrite STD; auto|unfold cf'; rewrite STO; auto].
             ++ destruct (Z.eq_dec n d) as [->|Hne]; [unfold cf'; rewrite STD; auto|unfold cf'; rewrite STO; auto].
             ++ apply ORF.
             ++ intros k E. rewrite E in Tm. discriminate Tm.
             ++ intros c1 v _ T1. rewrite (TmI c1 T1). eauto.
          -- intros d1 m1 c1 o IF T1 Ho.
             destruct (InFl_deliver_back cf s d m q st' [(d', m')] Ech d1 m1 IF) as [H|[H|[]]]; [eapply J3; eauto|].
             inversion H; subst d1 m1. pose proof (is_tok_inj c c1 m' Tm') as E. rewrite T1 in E.
             symmetry in E. apply Z.eqb_eq in E. subst c1. apply (OWN o Ho).
          -- intros n c1 v An I. destruct (Z.eq_dec n d) as [->|Hne].
             ++ unfold cf' in I. rewrite STD, S1 in I. eapply J4; eauto.
             ++ unfold cf' in I. rewrite STO in I by auto. eapply J4; eauto.
        * (* computation_replicated(c) at d *)
          destruct RP as (v & hosts & Z0 & IP & RH & DN).
          assert (Ic : In (c, v) (s_inprog (st cf d))) by (apply (lookup_In Z.eqb Z.eqb_eq); exact Z0).
          assert (Ho : owns C d c = true) by (eapply J4; eauto).
          destruct (OWN d Ho) as (Ac & _ & _).
          destruct (head_excl cf s d m q c d R Ho Ech Ad (fw_tok c d d m Tm)) as (X1 & X2 & X3).
          destruct (J1 d Ad) as [A _].
          assert (QD : Qn cf evs d).
          { destruct (A Ac) as [[_ E]|Q]; auto. rewrite E in Ic. destruct Ic. }
          destruct QD as (Q1 & Q2 & Q3 & Q4).
          destruct (Q2 c v Ic) as (V1 & _). subst v.
          split; [|exact NOR].
          assert (OLD : forall d1 m1, InFl cf d1 m1 -> (d1 = d /\ m1 = m) \/ InFl cf' d1 m1)
            by (intros d1 m1 IF; apply (InFl_deliver_old cf s d m q st' [] Ech); auto).
          assert (KEEP : forall c1 v1, In (c1, v1) (s_inprog st') -> In (c1, v1) (s_inprog (st cf d)) /\ c1 <> c).
          { intros c1 v1 I. rewrite IP in I. apply filter_In in I as [I Pos]. simpl in Pos.
            destruct (Z.eq_dec c1 c) as [->|Hne].
            - apply (dict_set_nodup_val c (1 - 1) v1 _ Q3) in I. subst. discriminate.
            - apply (In_dict_set Z.eqb Z.eqb_eq) in I as [I|I]; [inversion I; contradiction|auto]. }
          split; [|split].
          -- intros n An. destruct (Z.eq_dec n d) as [->|Hne].
             ++ split; [|intros NA; contradiction]. intros _. right. unfold Qn, cf'. rewrite STD.
                split; [intros H; destruct (DN H) as [rh I]; exists rh; apply in_or_app; auto|].
                split; [|split].
                ** intros c1 v1 I. destruct (KEEP c1 v1 I) as [I0 Hne]. destruct (Q2 c1 v1 I0) as (V & d1 & m1 & IF & T1).
                   split; auto. destruct (OLD d1 m1 IF) as [[-> ->]|IF']; [|eauto].
                   exfalso. apply Hne. apply TmI. exact T1.
                ** rewrite IP. apply filter_keys_nodup. rewrite dict_set_keys; auto. eapply In_mem_key; eauto.
                ** intros c2 H2. rewrite RH, mem_key_dict_set_l. destruct (Z.eqb_spec c2 c) as [->|Hne]; simpl; auto.
                   destruct (Q4 c2 H2) as [M|M]; auto. left.
                   apply mem_key_In in M as [v2 I2]. destruct (Q2 c2 v2 I2) as (-> & _).
                   apply (In_mem_key c2 1). rewrite IP. apply filter_In. split; [|reflexivity].
                   clear - I2 Hne. induction (s_inprog (st cf d)) as [|[k' v'] r IHr]; simpl in *; [contradiction|].
                   destruct (Z.eqb_spec c k') as [->|]; destruct I2 as [I2|I2]; simpl; auto.
                   inversion I2; subst. contradiction.
             ++ apply (Jn_other cf cf' evs e n d m); auto; try (unfold cf'; rewrite STO; auto).
                ** apply ORF.
                ** intros c1 v1 I1 T1. exfalso. rewrite (TmI c1 T1) in I1.
                   apply Hne. eapply (u_own UN); eauto.
          -- intros d1 m1 c1 o IF T1 Ho1.
             destruct (InFl_deliver_back cf s d m q st' [] Ech d1 m1 IF) as [H|[]]. eapply J3; eauto.
          -- intros n c1 v1 An I. destruct (Z.eq_dec n d) as [->|Hne].
             ++ unfold cf' in I. rewrite STD in I. destruct (KEEP c1 v1 I) as [I0 _]. eapply J4; eauto.
             ++ unfold cf' in I. rewrite STO in I by auto. eapply J4; eauto.
        * (* a raise is impossible *)
          exfalso. exact (NOR d k I).
      + (* the replicate order *)
        destruct m as [k|t|t]; simpl in TK; try discriminate. unfold ucs_recv in *. rewrite Ad in *. cbv beta iota delta [negb] in RNR |- *.
        assert (NRr : forall e, (forall x k0, In (EvRaise x k0) e ->
                       exists t, MReplicate k = MAnswer t /\ zlookup (t_comp t) (s_inprog (w_st (nodes cf d))) = None
                                 /\ owns C d (t_comp t) = true) -> NRs e).
        { intros e H x k0 I. destruct (H x k0 I) as (t & E & _). discriminate. }
        assert (OLDr : forall st' outs d1 m1, InFl cf d1 m1 ->
                  (d1 = d /\ m1 = MReplicate k) \/
                  InFl (mkConfig (upd_node (nodes cf) d (mkWrap true (w_held (nodes cf d)) st')) (send_all (upd_chan (chan cf) s d q) d outs)) d1 m1)
          by (intros st' outs d1 m1 IF; apply (InFl_deliver_old cf s d _ q st' outs Ech); auto).
        assert (OTHER : forall st' outs e n, n <> d -> is_agent C n = true ->
                  Jn (mkConfig (upd_node (nodes cf) d (mkWrap true (w_held (nodes cf d)) st')) (send_all (upd_chan (chan cf) s d q) d outs))
                     (evs ++ e) n).
        { intros st' outs e n Hne An. apply (Jn_other cf _ evs e n d (MReplicate k)); auto; try (rewrite STO; auto); try apply ORF.
          intros c1 v1 _ T1. discriminate. }
        destruct (active_dec d) as [Ac|NA].
        * pose proof (replicate_active C d (w_st (nodes cf d)) k Ac) as RA.
          destruct (replicate C d (w_st (nodes cf d)) k) as [[[st' outs] e] b].
          cbv beta iota delta [fst snd drop_raised] in RNR, RA |- *.
          destruct RNR as [OUTOK NR0]. destruct RA as (RH & IP & TOK & OG).
          split; [|eapply NRr; eauto].
          destruct TOK as [TOK|[k' I]]; [|exfalso; eapply (NRr e NR0); eauto].
          (* d is still before its order: otherwise the potential of one of its computations is 2 *)
          assert (PD : s_inprog (st cf d) = []).
          { destruct (J1 d Ad) as [A _]. destruct (A Ac) as [[_ E]|(Q1 & Q2 & Q3 & Q4)]; auto. exfalso.
            destruct Ac as [Ac1 _]. destruct (a_comps (agent C d)) as [|x0 r0] eqn:Ec; [contradiction|].
            assert (Ho : owns C d (comp_name x0) = true).
            { unfold owns, own_names. rewrite Ec. apply zmem_In. left. reflexivity. }
            destruct (head_excl cf s d (MReplicate k) q (comp_name x0) d R Ho Ech Ad (fw_rep _ d k)) as (X1 & X2 & X3).
            destruct (Q4 _ Ho) as [M|M]; [|congruence].
            apply mem_key_In in M as [v I]. destruct (Q2 _ v I) as (_ & d1 & m1 & IF & T1).
            destruct (X3 d1 m1 IF (fw_tok _ d d1 m1 T1)) as [_ E]. subst m1. discriminate. }
          assert (IP' : s_inprog st' = map (fun c => (c, 1)) (own_names C d)).
          { rewrite IP, PD. rewrite tracker_fold; [reflexivity|apply (u_names UN)|reflexivity]. }
          assert (OUTS : forall d1 m1, In (d1, m1) outs -> forall c1, is_tok c1 m1 = true ->
                    InFl (mkConfig (upd_node (nodes cf) d (mkWrap true (w_held (nodes cf d)) st')) (send_all (upd_chan (chan cf) s d q) d outs)) d1 m1).
          { intros d1 m1 I c1 T1. apply InFl_deliver_new; auto.
            destruct (mok2_dest_agent C d1 m1 (OUTOK d1 m1 I)) as [[k0 ->]|H]; [discriminate|exact H]. }
          split; [|split].
          -- intros n An. destruct (Z.eq_dec n d) as [->|Hne]; [|apply OTHER; auto].
             split; [|intros NA; contradiction]. intros _. right. unfold Qn. rewrite STD, IP'.
             split; [|split; [|split]].
             ++ intros H. exfalso. destruct Ac as [Ac1 _]. unfold own_names in H.
                destruct (a_comps (agent C d)); [contradiction|discriminate].
             ++ intros c1 v1 I. apply in_map_iff in I as [c2 [E I]]. inversion E; subst. split; auto.
                destruct (TOK c1 I) as (d1 & m1 & I1 & T1). exists d1, m1. split; eauto.
             ++ rewrite map_map. simpl. rewrite map_id. apply (u_names UN).
             ++ intros c1 H1. left. apply (In_mem_key c1 1). apply in_map_iff. exists c1. split; auto.
                unfold owns in H1. apply zmem_In. exact H1.
          -- intros d1 m1 c1 o IF T1 Ho1.
             destruct (InFl_deliver_back cf s d _ q st' outs Ech d1 m1 IF) as [H|H]; [eapply J3; eauto|].
             destruct (OG d1 m1 H) as (c2 & I2 & T2). pose proof (is_tok_inj c2 c1 m1 T2) as E. rewrite T1 in E.
             symmetry in E. apply Z.eqb_eq in E. subst c2.
             assert (Hd : owns C d c1 = true) by (unfold owns; apply zmem_In; exact I2).
             rewrite (u_own UN o d c1 Ho1 Hd). exact Ac.
          -- intros n c1 v1 An I. destruct (Z.eq_dec n d) as [->|Hne].
             ++ rewrite STD, IP' in I. apply in_map_iff in I as [c2 [E I]]. inversion E; subst.
                unfold owns. apply zmem_In. exact I.
             ++ rewrite STO in I by auto. eapply J4; eauto.
        * pose proof (replicate_trivial C d (w_st (nodes cf d)) k NA) as RT.
          destruct (replicate C d (w_st (nodes cf d)) k) as [[[st' outs] e] b].
          cbv beta iota delta [fst snd drop_raised] in RNR, RT |- *.
          destruct RNR as [OUTOK NR0]. destruct RT as (-> & RH & (rh & DN) & IP).
          split; [|eapply NRr; eauto].
          split; [|split].
          -- intros n An. destruct (Z.eq_dec n d) as [->|Hne]; [|apply OTHER; auto].
             split; [intros Ac; contradiction|]. intros _. right. exists rh. apply in_or_app. auto.
          -- intros d1 m1 c1 o IF T1 Ho1.
             destruct (InFl_deliver_back cf s d _ q st' [] Ech d1 m1 IF) as [H|[]]. eapply J3; eauto.
          -- intros n c1 v1 An I. destruct (Z.eq_dec n d) as [->|Hne].
             ++ rewrite STD in I. destruct IP as [IP|IP]; rewrite IP in I; [eapply J4; eauto|].
                apply tracker_keys in I as [I|[v' I]]; [unfold owns; apply zmem_In; exact I|eapply J4; eauto].
             ++ rewrite STO in I by auto. eapply J4; eauto.
  Qed.

  Lemma init_J : J (init P) [].
  Proof.
    split; [|split].
    - intros n An. split; intros _; left; [split|]; try reflexivity; left; reflexivity.
    - intros d m c o (_ & [(s & [])|(s & [])]).
    - intros n c v _ [].
  Qed.

  Lemma exec_J sched : forall cf evs, reachable P cf -> J cf evs ->
    J (fst (exec P cf sched)) (evs ++ snd (exec P cf sched)) /\ NRs (snd (exec P cf sched)).
  Proof.
    induction sched as [|a r IH]; intros cf evs R HJ; simpl.
    - rewrite app_nil_r. split; auto. intros x k [].
    - pose proof (step_J cf a evs R HJ) as [J1 N1].
      assert (R1 : reachable P (fst (step P cf a))) by (constructor; auto).
      destruct (step P cf a) as [cf1 e1]. simpl in *.
      specialize (IH cf1 (evs ++ e1) R1 J1). destruct (exec P cf1 r) as [cf2 e2]. simpl in *.
      destruct IH as [J2 N2]. rewrite app_assoc. split; auto.
      intros x k I. apply in_app_or in I as [I|I]; [eapply N1|eapply N2]; eauto.
  Qed.

  Lemma run_J sched : J (fst (run P sched)) (snd (run P sched)) /\ NRs (snd (run P sched)).
  Proof. unfold run. apply (exec_J sched (init P) [] (reach_init P) init_J). Qed.

  Lemma run_reachable sched : reachable P (fst (run P sched)).
  Proof. unfold run. apply exec_reachable. constructor. Qed.

  (* no handler of any run raises *)
  Lemma ucs_no_raise_l sched x k : ~ In (EvRaise x k) (snd (run P sched)).
  Proof. apply (proj2 (run_J sched)). Qed.

  (* an agent that has not reported done has something pending *)
  Lemma ucs_pending_l sched n : is_agent C n = true ->
    done_in (snd (run P sched)) n \/ w_running (nodes (fst (run P sched)) ORCH) = false
    \/ exists d m, InFl (fst (run P sched)) d m.
  Proof.
    intros An. destruct (run_J sched) as [(J1 & _) _]. destruct (J1 n An) as [A B].
    assert (PRE : pre (fst (run P sched)) n -> w_running (nodes (fst (run P sched)) ORCH) = false
                  \/ exists d m, InFl (fst (run P sched)) d m).
    { intros [H|[k H]]; [left; auto|right; eauto]. }
    destruct (active_dec n) as [Ac|NA].
    - destruct (A Ac) as [[Pn _]|(Q1 & Q2 & _)]; [right; auto|].
      destruct (s_inprog (st (fst (run P sched)) n)) as [|[c v] r] eqn:E; [left; auto|].
      right. right. destruct (Q2 c v (or_introl eq_refl)) as (_ & d & m & IF & _). eauto.
    - destruct (B NA) as [Pn|D]; [right; auto|left; auto].
  Qed.

  Definition quiescent (cf : config) : Prop :=
    (forall u, inU C u = true -> w_running (nodes cf u) = true) /\ (forall s d, chan cf s d = []).

  Lemma ucs_progress_l sched n : is_agent C n = true ->
    (forall rh, ~ In (EvDone n rh) (snd (run P sched))) ->
    (exists u, inU C u = true /\ w_running (nodes (fst (run P sched)) u) = false)
    \/ (exists s d, chan (fst (run P sched)) s d <> []).
  Proof.
    intros An ND. destruct (ucs_pending_l sched n An) as [[rh D]|[OF|(d & m & (Ad & [(s & I)|(s & I)]))]].
    - exfalso. eapply ND; eauto.
    - left. exists ORCH. split; auto.
    - right. exists s, d. intro E. rewrite E in I. destruct I.
    - left. exists d. split; [apply agent_inU; auto|].
      destruct (w_running (nodes (fst (run P sched)) d)) eqn:Er; auto.
      rewrite (running_held P _ (run_reachable sched) d Er) in I. destruct I.
  Qed.

  Lemma ucs_quiescent_all_done_l sched n : is_agent C n = true ->
    quiescent (fst (run P sched)) -> exists rh, In (EvDone n rh) (snd (run P sched)).
  Proof.
    intros An [QR QC]. destruct (ucs_pending_l sched n An) as [D|[OF|(d & m & (Ad & [(s & I)|(s & I)]))]]; auto; exfalso.
    - rewrite QR in OF; [discriminate|reflexivity].
    - rewrite QC in I. destruct I.
    - rewrite (running_held P _ (run_reachable sched) d (QR d (agent_inU C d Ad))) in I. destruct I.
  Qed.
End Global.
