(* M_Messaging.v -- executable model of pydcop.infrastructure.communication.Messaging
   (post_msg / next_msg / shutdown / _on_computation_registration), of the part of
   Discovery it relies on (computation table, one-shot registration callbacks) and of the
   agent loop's "pop and hand to the destination" (agents.py:Agent._run) -- property C18.
   Models only; proofs are in P_Messaging.v.

   One Messaging instance (one agent, [me]).  The communication layer is the boundary:
   a message for a computation hosted on another agent is appended to [outbox] (the calls
   of CommunicationLayer.send_msg, in call order).  The in-process transport hands such a
   message to the destination agent's Messaging.post_msg: [transport] below.
   perf_counter() (third component of the queue key) is not modelled: in a sequential
   history the (type, counter) pairs are distinct, so it never decides. *)
From PyDcop Require Import Base.

Definition MSG_ALGO : Z := 20.

(* ComputationMessage(src_comp, dest_comp, msg, msg_type); the payload is an id *)
Record cmsg := mkMsg { m_src : Z; m_dest : Z; m_id : Z; m_type : Z }.

Definition cmsg_eqb (a b : cmsg) : bool :=
  (m_src a =? m_src b) && (m_dest a =? m_dest b) && (m_id a =? m_id b) && (m_type a =? m_type b).

(* ---------- the priority queue: entries (msg_type, msg_queue_count, full_msg) ---------- *)
Record qent := mkQ { q_type : Z; q_cnt : Z; q_msg : cmsg }.

Definition key_leb (a b : qent) : bool :=
  (q_type a <? q_type b) || ((q_type a =? q_type b) && (q_cnt a <=? q_cnt b)).

(* PriorityQueue.put / get: get returns the least tuple.  Kept as a sorted list: a new entry
   goes before the first entry with a strictly greater key. *)
Fixpoint qinsert (x : qent) (l : list qent) : list qent :=
  match l with
  | [] => [x]
  | y :: r => if key_leb y x then y :: qinsert x r else x :: y :: r
  end.

(* ---------- Messaging + the discovery data it uses ---------- *)
Record mstate := mkM {
  me : Z;                       (* _local_agent *)
  queue : list qent;            (* _queue *)
  cnt : Z;                      (* msg_queue_count *)
  failed : list cmsg;           (* _failed : (src, dest, msg, msg_type, on_error=None) *)
  shut : bool;                  (* _shutdown *)
  disc : list (Z * Z);          (* discovery._computations_data : computation -> agent *)
  subs : list Z;                (* computations with >= 1 one-shot _on_computation_registration cb *)
  outbox : list (Z * cmsg);     (* log: _comm.send_msg(me, dest_agent, full_msg) calls *)
  handled : list cmsg;          (* log: messages handed to their destination by the agent loop *)
  lost : list cmsg              (* ghost log: posts dropped (shutdown) or that raised *)
}.

Definition init (a : Z) (d : list (Z * Z)) : mstate := mkM a [] 0 [] false d [] [] [] [].

Definition set_queue st q c := mkM (me st) q c (failed st) (shut st) (disc st) (subs st) (outbox st) (handled st) (lost st).
Definition set_failed st f := mkM (me st) (queue st) (cnt st) f (shut st) (disc st) (subs st) (outbox st) (handled st) (lost st).
Definition set_shut st b := mkM (me st) (queue st) (cnt st) (failed st) b (disc st) (subs st) (outbox st) (handled st) (lost st).
Definition set_disc st d := mkM (me st) (queue st) (cnt st) (failed st) (shut st) d (subs st) (outbox st) (handled st) (lost st).
Definition set_subs st s := mkM (me st) (queue st) (cnt st) (failed st) (shut st) (disc st) s (outbox st) (handled st) (lost st).
Definition set_outbox st o := mkM (me st) (queue st) (cnt st) (failed st) (shut st) (disc st) (subs st) o (handled st) (lost st).
Definition set_handled st h := mkM (me st) (queue st) (cnt st) (failed st) (shut st) (disc st) (subs st) (outbox st) h (lost st).
Definition set_lost st l := mkM (me st) (queue st) (cnt st) (failed st) (shut st) (disc st) (subs st) (outbox st) (handled st) l.

Definition add_sub (c : Z) (l : list Z) : list Z := if zmem c l then l else l ++ [c].
Definition del_sub (c : Z) (l : list Z) : list Z := filter (fun x => negb (x =? c)) l.

Inductive outcome := ODropped | ODeferred | OQueued | OSent | ORaised | ONone | OHandled (m : cmsg) | OOk.

Definition with_type (ty : option Z) : Z := match ty with Some t => t | None => MSG_ALGO end.

(* the queue part of post_msg: msg_queue_count += 1; _queue.put((type, count, now, full_msg)) *)
Definition enqueue (st : mstate) (m : cmsg) : mstate :=
  set_queue st (qinsert (mkQ (m_type m) (cnt st + 1) m) (queue st)) (cnt st + 1).

(* Messaging.post_msg *)
Definition post_msg (st : mstate) (src dest id : Z) (ty : option Z) : mstate * outcome :=
  let m := mkMsg src dest id (with_type ty) in
  if shut st then (set_lost st (lost st ++ [m]), ODropped)
  else match zlookup dest (disc st) with
       | None =>   (* UnknownComputation: keep, subscribe one-shot *)
           (set_subs (set_failed st (failed st ++ [m])) (add_sub dest (subs st)), ODeferred)
       | Some ag =>
           if ag =? me st then (enqueue st m, OQueued)
           else match zlookup src (disc st) with
                | None => (set_lost st (lost st ++ [m]), ORaised)   (* computation_agent(src) raises *)
                | Some _ => (set_outbox st (outbox st ++ [(ag, m)]), OSent)
                end
       end.

(* list.remove(x): drop the first element equal to x *)
Fixpoint remove_first (x : cmsg) (l : list cmsg) : list cmsg :=
  match l with
  | [] => []
  | y :: r => if cmsg_eqb x y then r else y :: remove_first x r
  end.

(* Messaging._on_computation_registration('computation_added', c, _):
   for failed in self._failed[:]: if dest == c: post_msg(...); self._failed.remove(failed)
   [snapshot] is the copy iterated over.  false = post_msg raised: the loop is left there. *)
Fixpoint replay (c : Z) (snapshot : list cmsg) (st : mstate) : mstate * bool :=
  match snapshot with
  | [] => (st, true)
  | f :: r =>
      if negb (m_dest f =? c) then replay c r st
      else
        let '(st1, o) := post_msg st (m_src f) (m_dest f) (m_id f) (Some (m_type f)) in
        match o with
        | ORaised => (st, false)   (* the exception leaves the entry (and the rest) in _failed *)
        | _ => replay c r (set_failed st1 (remove_first f (failed st1)))
        end
  end.

(* Discovery.register_computation(c, ag, address, publish=False) as far as Messaging sees it *)
Definition register (st : mstate) (c ag : Z) : mstate * outcome :=
  let change := negb (option_eqb Z.eqb (zlookup c (disc st)) (Some ag)) in
  let st1 := set_disc st (dict_set Z.eqb c ag (disc st)) in
  if change && zmem c (subs st1) then
    let '(st2, ok) := replay c (failed st1) st1 in
    if ok then (set_subs st2 (del_sub c (subs st2)), OOk)   (* one-shot callbacks removed *)
    else (st2, ORaised)                                      (* exception leaves the callbacks *)
  else (st1, OOk).

(* Discovery.unregister_computation(c, None, publish): callbacks get 'computation_removed'
   (ignored by Messaging); publish=True also drops every callback of c *)
Definition unregister (st : mstate) (c : Z) (publish : bool) : mstate :=
  match zlookup c (disc st) with
  | None => st
  | Some _ =>
      let st1 := set_disc st (dict_remove Z.eqb c (disc st)) in
      if publish then set_subs st1 (del_sub c (subs st1)) else st1
  end.

(* Messaging.next_msg(timeout) + Agent._run's dispatch: _handle_message(sender, dest, msg, t) *)
Definition next (st : mstate) : mstate * outcome :=
  match queue st with
  | [] => (st, ONone)
  | e :: r => (set_handled (set_queue st r (cnt st)) (handled st ++ [q_msg e]), OHandled (q_msg e))
  end.

(* the agent loop until next_msg returns None (after clean_shutdown: until the thread exits) *)
Fixpoint drain_fuel (n : nat) (st : mstate) : mstate :=
  match n with
  | O => st
  | S k => match queue st with [] => st | _ => drain_fuel k (fst (next st)) end
  end.
Definition drain (st : mstate) : mstate := drain_fuel (List.length (queue st)) st.

Inductive op :=
| Post (src dest id : Z) (ty : option Z)
| Register (c ag : Z)
| Unregister (c : Z) (publish : bool)
| Next
| Shutdown            (* Agent.clean_shutdown -> Messaging.shutdown *)
| Drain.

Definition step (st : mstate) (o : op) : mstate * outcome :=
  match o with
  | Post s d i t => post_msg st s d i t
  | Register c a => register st c a
  | Unregister c p => (unregister st c p, OOk)
  | Next => next st
  | Shutdown => (set_shut st true, OOk)
  | Drain => (drain st, OOk)
  end.

Fixpoint run (st : mstate) (ops : list op) : mstate * list outcome :=
  match ops with
  | [] => (st, [])
  | o :: r => let '(st1, x) := step st o in
              let '(st2, xs) := run st1 r in (st2, x :: xs)
  end.

Definition exec (st : mstate) (ops : list op) : mstate := fst (run st ops).

(* in-process transport: what the destination agent's Messaging does with the messages sent
   to it, each handed to its post_msg(src, dest, msg, msg_type) in send order *)
Definition transport (remote : mstate) (sent : list cmsg) : mstate :=
  fold_left (fun st m => fst (post_msg st (m_src m) (m_dest m) (m_id m) (Some (m_type m)))) sent remote.

(* ---------- real threads: only the queue discipline ----------
   Events are the PriorityQueue operations in the order the queue's own lock serialised
   them: Put (type, counter, msg) as chosen by the posting thread, Get by the agent thread. *)
Inductive qevent := QPut (e : qent) | QGet.

Fixpoint qrun (q : list qent) (evs : list qevent) : list cmsg :=
  match evs with
  | [] => []
  | QPut e :: r => qrun (qinsert e q) r
  | QGet :: r => match q with
                 | [] => qrun q r
                 | e :: q' => q_msg e :: qrun q' r
                 end
  end.

(* ---------- correspondence ---------- *)
Definition outcome_eqb (a b : outcome) : bool :=
  match a, b with
  | ODropped, ODropped | ODeferred, ODeferred | OQueued, OQueued | OSent, OSent
  | ORaised, ORaised | ONone, ONone | OOk, OOk => true
  | OHandled x, OHandled y => cmsg_eqb x y
  | _, _ => false
  end.

Definition qent_eqb (a b : qent) : bool :=
  (q_type a =? q_type b) && (q_cnt a =? q_cnt b) && cmsg_eqb (q_msg a) (q_msg b).

(* the handlers see (sender, destination computation, message), not the type *)
Definition strip (m : cmsg) : Z * Z * Z := (m_src m, m_dest m, m_id m).
Definition zzz_eqb (a b : Z * Z * Z) : bool :=
  (fst (fst a) =? fst (fst b)) && (snd (fst a) =? snd (fst b)) && (snd a =? snd b).

Record seq_case := mkSeq {
  s_me : Z; s_disc : list (Z * Z);      (* local agent, initial computation table *)
  s_ops : list op;
  s_outcomes : list outcome;            (* observed, one per op *)
  s_queue : list qent;                  (* observed final _queue content, sorted *)
  s_failed : list cmsg;                 (* observed final _failed *)
  s_handled : list (Z * Z * Z);         (* observed handler invocations *)
  s_outbox : list (Z * cmsg);           (* observed send_msg calls *)
  s_remote : list (Z * (list (Z * Z) * list (Z * Z * Z)))
     (* per remote agent: its own computation table, the messages its loop handled, in order *)
}.

Definition remote_handled (ob : list (Z * cmsg)) (ag : Z) (d : list (Z * Z)) : list cmsg :=
  handled (drain (transport (init ag d) (map snd (filter (fun p => fst p =? ag) ob)))).

Definition check_seq (c : seq_case) : bool :=
  let '(st, outs) := run (init (s_me c) (s_disc c)) (s_ops c) in
  list_eqb outcome_eqb outs (s_outcomes c)
  && list_eqb qent_eqb (queue st) (s_queue c)
  && list_eqb cmsg_eqb (failed st) (s_failed c)
  && list_eqb zzz_eqb (map strip (handled st)) (s_handled c)
  && list_eqb (pair_eqb Z.eqb cmsg_eqb) (outbox st) (s_outbox c)
  && forallb (fun p => list_eqb zzz_eqb (map strip (remote_handled (outbox st) (fst p) (fst (snd p)))) (snd (snd p)))
             (s_remote c).

Record thr_case := mkThr { t_events : list qevent; t_handled : list (Z * Z * Z) }.
Definition check_thr (c : thr_case) : bool :=
  list_eqb zzz_eqb (map strip (qrun [] (t_events c))) (t_handled c).

Inductive case := CSeq (c : seq_case) | CThr (c : thr_case).
Definition check_case (c : case) : bool :=
  match c with CSeq s => check_seq s | CThr t => check_thr t end.

(* ---------- msg_queue_count += 1 ; put((type, msg_queue_count, ...)) is not atomic ----------
   Micro-steps of two threads A (true) / B (false) executing post_msg's local branch:
   load the counter, store the incremented value, read the counter again for the queue tuple. *)
Inductive micro := MLoad (t : bool) | MStore (t : bool) | MRead (t : bool).
Record race := mkRace { r_cnt : Z; r_tmpA : Z; r_tmpB : Z; r_drawn : list (bool * Z) }.
Definition micro_step (s : race) (m : micro) : race :=
  match m with
  | MLoad true => mkRace (r_cnt s) (r_cnt s) (r_tmpB s) (r_drawn s)
  | MLoad false => mkRace (r_cnt s) (r_tmpA s) (r_cnt s) (r_drawn s)
  | MStore true => mkRace (r_tmpA s + 1) (r_tmpA s) (r_tmpB s) (r_drawn s)
  | MStore false => mkRace (r_tmpB s + 1) (r_tmpA s) (r_tmpB s) (r_drawn s)
  | MRead t => mkRace (r_cnt s) (r_tmpA s) (r_tmpB s) (r_drawn s ++ [(t, r_cnt s)])
  end.
Definition micro_run (sched : list micro) : race := fold_left micro_step sched (mkRace 0 0 0 []).
Definition micro_of (m : micro) : bool := match m with MLoad t | MStore t | MRead t => t end.
Definition micro_kind (m : micro) : nat := match m with MLoad _ => 0 | MStore _ => 1 | MRead _ => 2 end.
(* each thread executes load, store, read in this order, once *)
Definition program_order (t : bool) (sched : list micro) : bool :=
  list_eqb Nat.eqb (map micro_kind (filter (fun m => Bool.eqb (micro_of m) t) sched)) [0; 1; 2]%nat.
