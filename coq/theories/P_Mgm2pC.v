(* P_Mgm2pC.v -- MGM2 payload refinement, part 3 (C03/C04): the payload invariant through one real handler
   execution (the nested re-dispatch of postponed messages = a sequence of micro-steps, P_Mgm2z.v), through
   every step of the network model, hence in every reachable configuration; consequences. *)
From Coq Require Import ZArith List Bool Lia Permutation.
From PyDcop Require Import Base Net M_Mgm M_Mgm2 M_Mgm2x M_Mgm2r P_Mgm P_Mgm3 P_Mgm3c P_Mgm2x P_Mgm2y P_Mgm2s P_Mgm2sV P_Mgm2sO P_Mgm2sA P_Mgm2sG P_Mgm2sS P_Mgm2f P_Mgm2z P_Mgm2r P_Mgm2pA P_Mgm2pB.
Import ListNotations.
Open Scope Z_scope.
Local Notation length := List.length.

(* everything but the five postponed lists *)
Definition core (s : m2st) :=
  (skel s, t_value s, t_cost s, t_pval s, t_canmove s, t_orc s).

Lemma core_set_post s k l : core (set_post s k l) = core s.
Proof. unfold set_post. destruct (k =? 1), (k =? 2), (k =? 3), (k =? 4); destruct s; reflexivity. Qed.

Section ExtP.
  Variable d : dcop.
  Variables stop thr favor : Z.
  Variable orc : node -> list Z.

  Lemma pay_core a o n s s' : core s' = core s -> pay d thr favor a o n s -> pay d thr favor a o n s'.
  Proof.
    unfold core, skel. intros H P.
    injection H as H1 H2 H3 H4 H5 H6 H7 H8 H9 H10 H11 H12 H13 H14 H15.
    destruct P. unfold st23, st45 in *.
    constructor; unfold st23, st45; rewrite ?H1, ?H2, ?H3, ?H4, ?H5, ?H6, ?H7, ?H8, ?H9, ?H10, ?H11, ?H12, ?H13, ?H14, ?H15; assumption.
  Qed.

  Lemma InvP_ext rn rn' S S' pd pd' :
    (forall n, rn' n = rn n) -> (forall n, core (S' n) = core (S n)) ->
    (forall a b m, In m (pd' a b) -> In m (pd a b)) ->
    InvP d thr favor orc rn S pd -> InvP d thr favor orc rn' S' pd'.
  Proof.
    intros Hr Hs Hp [Q1 Q2 Q4].
    assert (Hcyc : forall n, t_cycle (S' n) = t_cycle (S n) /\ t_fin (S' n) = t_fin (S n) /\ t_state (S' n) = t_state (S n)).
    { intros n. pose proof (Hs n) as E. unfold core, skel in E. injection E as E1 E2 E3 _ _ _ _ _ _ _ _ _ _ _ _. repeat split; assumption. }
    constructor.
    - intros n Rn Hn. rewrite Hr in Rn. unfold payc. destruct (Hcyc n) as (E & _ & _). rewrite E.
      apply (pay_core _ _ n (S n)); [apply Hs|apply (Q1 n Rn Hn)].
    - intros n Rn Hn. rewrite Hr in Rn. pose proof (Hs n) as E. unfold core, skel in E. injection E as _ _ _ _ _ _ _ _ _ _ Ev _ _ _ _.
      rewrite Ev. apply (Q2 n Rn Hn).
    - intros a b m Hm. specialize (Q4 a b m (Hp a b m Hm)). unfold pmsg in *.
      destruct (Hcyc a) as (E1 & E2 & E3). destruct (Hcyc b) as (F1 & _ & _).
      replace (sidx (S' a) m (t_cycle (S' b))) with (sidx (S a) m (t_cycle (S b))); [exact Q4|].
      unfold sidx. rewrite E1, E2, E3, F1. reflexivity.
  Qed.
End ExtP.

(* ------------------------------------------------------------------ one real handler = micro-steps *)
Section LoopP.
  Variable d : dcop.
  Variables stop thr favor : Z.
  Variable orc : node -> list Z.
  Notation nbr := (nbrs d).
  Notation InvP := (InvP d thr favor orc).
  Notation loop := (loop d stop thr favor).
  Notation mstep := (mstep d stop thr favor).
  Variable rn : node -> bool.
  Variable S0 : node -> m2st.
  Variable y : node.
  Hypothesis Ry : rn y = true.
  Hypothesis Hact : nbr y <> [].
  Notation VInv := (VInv d stop rn S0 y).
  Notation pdV := (pdV y).

  Definition PV (base : node -> node -> list m2msg) (s : m2st) (o : list (node * m2msg)) : Prop :=
    InvP rn (updS S0 y s) (pdV base s o).

  Lemma core_skel s1 s : core s1 = core s -> skel s1 = skel s.
  Proof. unfold core. intros H. apply (f_equal (fun t => fst (fst (fst (fst (fst t)))))) in H. exact H. Qed.

  Lemma microP base base' s o x m l1 l2 s1 :
    VInv base s o -> PV base s o -> pdV base s o x y = l1 ++ m :: l2 -> kind_of m = t_state s ->
    core s1 = core s -> kinds_ok s1 -> noself y s1 ->
    (forall a b, b <> y \/ a = y -> base' a b = base a b) ->
    (forall a, a <> y -> (if a =? x then l1 ++ l2 else pdV base s o a y) = base' a y ++ to_y2 a (allposts s1)) ->
    forall s2 o2 e2, mstep y s1 x m = (s2, o2, e2) ->
      (VInv base' s2 (o ++ o2) /\ EvP stop y s s2 e2 /\ posts s2 = posts s1 /\
       (t_state s2 <> t_state s -> get_post s2 (t_state s) = [])) /\ PV base' s2 (o ++ o2).
  Proof.
    intros HV HPV Hp Hk Hco HK1 HS1 Hb' Hbag s2 o2 e2 Hm.
    pose proof (core_skel _ _ Hco) as Hsk.
    pose proof (micro d stop thr favor rn S0 y Ry Hact base base' s o x m l1 l2 s1 HV Hp Hk Hsk HK1 HS1 Hb' Hbag s2 o2 e2 Hm) as HM.
    split; [exact HM|]. destruct HM as (HV2 & _ & Hpo & _).
    destruct HV as (HI & HK & HS).
    assert (Kst : t_state s1 = t_state s) by (unfold skel in Hsk; injection Hsk; auto).
    assert (HI1 : InvA d stop rn (updS S0 y s1) (pdV base s o)).
    { apply (InvA_ext d stop rn rn (updS S0 y s) (updS S0 y s1) (pdV base s o) (pdV base s o)); auto.
      intros n0. unfold updS. destruct (n0 =? y); [exact Hsk|reflexivity]. }
    assert (HP1 : InvP rn (updS S0 y s1) (pdV base s o)).
    { apply (InvP_ext d thr favor orc rn rn (updS S0 y s) (updS S0 y s1) (pdV base s o) (pdV base s o)); auto.
      intros n0. unfold updS. destruct (n0 =? y); [exact Hco|reflexivity]. }
    pose proof (step_any d stop thr favor rn _ _ HI1 y x m l1 l2 Ry Hp) as Hstep. unfold step_ok in Hstep.
    rewrite !updS_same in Hstep. rewrite Kst in Hstep. specialize (Hstep Hk s2 o2 e2 Hm).
    destruct Hstep as (HI2 & _).
    assert (HP2 : InvP rn (updS (updS S0 y s1) y s2) (pd_step (pdV base s o) x y (l1 ++ l2) o2)).
    { apply (pstep d stop thr favor orc rn (updS S0 y s1) (pdV base s o) HI1 HP1 y x m l1 l2 s2 o2 e2 Ry Hp);
        rewrite ?updS_same; [congruence|exact Hm|exact HI2]. }
    assert (Hbags : forall a b, pdV base' s2 (o ++ o2) a b = pd_step (pdV base s o) x y (l1 ++ l2) o2 a b).
    { intros a b. unfold pd_step. destruct (Z.eqb_spec a y) as [->|Ha].
      - unfold P_Mgm2z.pdV. rewrite Z.eqb_refl. rewrite to_y2_app, app_assoc, Hb' by (right; reflexivity). reflexivity.
      - destruct (Z.eqb_spec b y) as [->|Hb].
        + rewrite andb_true_r. specialize (Hbag a Ha). unfold P_Mgm2z.pdV at 1. apply Z.eqb_neq in Ha. rewrite Ha, Z.eqb_refl.
          rewrite (posts_allposts _ _ Hpo). symmetry. exact Hbag.
        + rewrite andb_false_r. unfold P_Mgm2z.pdV. rewrite Hb' by (left; exact Hb). apply Z.eqb_neq in Ha, Hb. rewrite Ha, Hb. reflexivity. }
    unfold PV.
    apply (InvP_ext d thr favor orc rn rn (updS (updS S0 y s1) y s2) (updS S0 y s2)
             (pd_step (pdV base s o) x y (l1 ++ l2) o2) (pdV base' s2 (o ++ o2))); auto.
    - intros n0. unfold updS. destruct (n0 =? y); reflexivity.
    - intros a b m0. rewrite Hbags. auto.
  Qed.

  Definition PostP (base : node -> node -> list m2msg) (o : list (node * m2msg)) (r : res2) : Prop :=
    PV base (fst (fst r)) (o ++ snd (fst r)).

  Lemma PostP_then base o o2 e2 (r : res2) :
    PostP base (o ++ o2) r -> PostP base o (let '(s', o', e') := r in (s', o2 ++ o', e2 ++ e')).
  Proof. destruct r as [[s' o'] e']. unfold PostP. simpl. rewrite app_assoc. auto. Qed.

  Lemma loop_okP base : forall f st s o, VInv base s o -> PV base s o -> 1 <= st <= 5 ->
    (t_state s = st \/ (get_post s st = [] /\ get_post s (t_state s) = [])) ->
    (2 * length (allposts s) <= f)%nat -> PostP base o (loop y f st s).
  Proof.
    induction f as [f IH] using lt_wf_ind. intros st s o HV HPV Hst Hdis Hfuel.
    rewrite loop_eq. pose proof (pop_last_spec (get_post s st)) as Hpop.
    destruct (pop_last (get_post s st)) as [[rest [x m]]|].
    - assert (Hts : t_state s = st).
      { destruct Hdis as [H|[H _]]; [exact H|]. rewrite H in Hpop. destruct rest; discriminate. }
      pose proof HV as HV0. destruct HV as (HI & HK & HS).
      destruct (allposts_split s st Hst) as (A & B & EA & ES). rewrite Hpop in EA.
      assert (Hlen : length (allposts s) = S (length (A ++ rest ++ B))).
      { rewrite EA, !app_length. simpl. lia. }
      destruct f as [|[|f2]]; [lia|lia|].
      pose proof (kinds_get s st Hst HK) as HF. rewrite Hpop in HF. apply Forall_app in HF as [HFr HFm].
      apply Forall_inv in HFm. simpl in HFm.
      assert (Hxy : x <> y).
      { intros ->. apply HS. rewrite EA, !map_app. apply in_or_app. right. apply in_or_app. left.
        apply in_or_app. right. left. reflexivity. }
      set (s1 := set_post s st rest).
      assert (EA1 : allposts s1 = A ++ rest ++ B) by apply ES.
      rewrite (on_msg_factor d stop thr favor). cbv zeta.
      destruct (mstep y s1 x m) as [[s2 o2] e2] eqn:Hm. simpl fst.
      destruct (microP base base s o x m (base x y ++ to_y2 x (A ++ rest)) (to_y2 x B) s1 HV0 HPV) with (s2 := s2) (o2 := o2) (e2 := e2)
        as ((HV2 & Ev2 & Hpo & Hdr) & HPV2).
      { unfold P_Mgm2z.pdV. apply Z.eqb_neq in Hxy. rewrite Hxy, Z.eqb_refl. rewrite EA.
        rewrite !to_y2_app, to_y2_single, Z.eqb_refl. rewrite <- !app_assoc. reflexivity. }
      { rewrite Hts. exact HFm. }
      { apply core_set_post. }
      { apply kinds_set; assumption. }
      { unfold noself. rewrite EA1. intros Hc. apply HS. rewrite EA. rewrite !map_app in *.
        apply in_app_or in Hc as [Hc|Hc]; [apply in_or_app; left; exact Hc|].
        apply in_or_app. right. apply in_app_or in Hc as [Hc|Hc]; apply in_or_app; [left; apply in_or_app; left; exact Hc|right; exact Hc]. }
      { reflexivity. }
      { intros a Ha. rewrite EA1. destruct (Z.eqb_spec a x) as [->|Hax].
        - rewrite !to_y2_app, <- !app_assoc. reflexivity.
        - unfold P_Mgm2z.pdV. apply Z.eqb_neq in Ha. rewrite Ha, Z.eqb_refl. rewrite EA.
          rewrite !to_y2_app, to_y2_single. assert (Hxa : (x =? a) = false) by (apply Z.eqb_neq; congruence).
          rewrite Hxa. rewrite app_nil_r. reflexivity. }
      { exact Hm. }
      assert (Kst1 : t_state s1 = st) by (unfold s1; pose proof (skel_set_post s st rest) as K; unfold skel in K; injection K; intros; congruence).
      assert (Hl2 : length (allposts s2) = length (A ++ rest ++ B)) by (rewrite (posts_allposts _ _ Hpo), EA1; reflexivity).
      assert (Hk2 : forall k, 1 <= k <= 5 -> get_post s k = [] -> get_post s2 k = []).
      { intros k Hk Hk0. rewrite (posts_get _ _ k Hpo). unfold s1. destruct (Z.eq_dec k st) as [->|Hne].
        - rewrite Hpop in Hk0. destruct rest; discriminate.
        - rewrite get_set_post_other; assumption. }
      rewrite Kst1. destruct (Z.eqb_spec (t_state s2) st) as [Heq|Hneq].
      + apply (PostP_then base o o2 e2).
        apply IH; [lia|exact HV2|exact HPV2|exact Hst|left; exact Heq|lia].
      + rewrite andthen2_assoc.
        apply (PostP_then base o o2 e2).
        pose proof (g_k _ _ _ _ (VInv_good d stop rn S0 y Ry Hact _ _ _ HV2)) as Hk2st.
        pose proof (loop_ok d stop thr favor rn S0 y Ry Hact base f2 (t_state s2) s2 (o ++ o2) HV2 Hk2st (or_introl eq_refl) ltac:(lia)) as Hin.
        pose proof (IH f2 ltac:(lia) (t_state s2) s2 (o ++ o2) HV2 HPV2 Hk2st (or_introl eq_refl) ltac:(lia)) as HinP.
        destruct (loop y f2 (t_state s2) s2) as [[s3 o3] e3]. unfold LoopPost in Hin. simpl in Hin. unfold PostP in HinP. simpl in HinP.
        destruct Hin as (B1 & B2 & B3 & B4 & B5).
        assert (Hd2 : get_post s2 st = []) by (rewrite <- Hts; apply Hdr; rewrite Hts; exact Hneq).
        change (PostP base (o ++ o2) (let '(s', o', e') := loop y (S f2) st s3 in (s', o3 ++ o', e3 ++ e'))).
        apply (PostP_then base (o ++ o2) o3 e3).
        apply IH; [lia|exact B1|exact HinP|exact Hst|right; split; [apply B4; assumption|exact B2]|lia].
    - unfold PostP, ret2. cbn [fst snd]. rewrite app_nil_r. exact HPV.
  Qed.

  Lemma recv_okP base base' s0 x m q f :
    VInv base s0 [] -> PV base s0 [] -> get_post s0 (t_state s0) = [] -> base x y = m :: q -> kind_of m = t_state s0 ->
    (forall a b, base' a b = if (a =? x) && (b =? y) then q else base a b) ->
    (2 * length (allposts s0) <= f)%nat ->
    PostP base' [] (on_msg d stop thr favor y (enter d stop thr favor y (S f)) s0 x m).
  Proof.
    intros HV HPV Hrest Hb Hk Hb' Hfuel.
    assert (Hxy : In x (nbr y)).
    { destruct HV as (HI & _). destruct (in_dec Z.eq_dec x (nbr y)) as [H|H]; [exact H|exfalso].
      pose proof (i_far _ _ _ _ _ HI x y H) as Hf. unfold P_Mgm2z.pdV in Hf.
      destruct (Z.eqb_spec x y) as [->|Hne].
      - rewrite Hb in Hf. discriminate.
      - rewrite Z.eqb_refl, Hb in Hf. discriminate. }
    assert (Hne : x <> y) by (intros ->; eapply nbrs_irrefl; eauto).
    rewrite (on_msg_factor d stop thr favor). cbv zeta.
    destruct (mstep y s0 x m) as [[s2 o2] e2] eqn:Hm. simpl fst.
    destruct (microP base base' s0 [] x m [] (q ++ to_y2 x (allposts s0)) s0 HV HPV) with (s2 := s2) (o2 := o2) (e2 := e2)
      as ((HV2 & Ev2 & Hpo & Hdr) & HPV2); try reflexivity; try assumption.
    { unfold P_Mgm2z.pdV. apply Z.eqb_neq in Hne. rewrite Hne, Z.eqb_refl, Hb. reflexivity. }
    { apply HV. }
    { apply HV. }
    { intros a b [Hb0|Ha]; rewrite Hb'.
      - apply Z.eqb_neq in Hb0. rewrite Hb0, andb_false_r. reflexivity.
      - subst a. assert (E : (y =? x) = false) by (apply Z.eqb_neq; congruence). rewrite E. reflexivity. }
    { intros a Ha. rewrite Hb', Z.eqb_refl, andb_true_r. destruct (Z.eqb_spec a x) as [->|Hax]; [reflexivity|].
      unfold P_Mgm2z.pdV. apply Z.eqb_neq in Ha. rewrite Ha, Z.eqb_refl. reflexivity. }
    simpl app in HV2, HPV2.
    destruct (Z.eqb_spec (t_state s2) (t_state s0)) as [Heq|Hneq].
    - unfold PostP. simpl. exact HPV2.
    - change (PostP base' [] (let '(s', o', e') := loop y f (t_state s2) s2 in (s', o2 ++ o', e2 ++ e'))).
      apply (PostP_then base' [] o2 e2). simpl app.
      apply loop_okP; [exact HV2|exact HPV2|apply (g_k _ _ _ _ (VInv_good d stop rn S0 y Ry Hact _ _ _ HV2))|left; reflexivity|rewrite (posts_allposts _ _ Hpo); lia].
  Qed.
End LoopP.

(* ================================================================== the real network *)
Section GlobalP.
  Variable d : dcop.
  Variables stop thr favor : Z.
  Variable orc : node -> list Z.
  Variable fuel : nat.
  Notation nbr := (nbrs d).
  Notation P := (mgm2_proto_f d stop thr favor orc fuel).
  Notation config := (config m2st m2msg).
  Notation InvP := (InvP d thr favor orc).
  Notation InvC := (InvC d stop orc).
  Hypothesis Hfuel : fuel_ok d fuel.

  Definition PC (cf : config) : Prop := InvP (rnc cf) (st cf) (pend cf).

  Ltac bag_in := intros ?; rewrite ?in_app_iff; simpl; tauto.

  Lemma pc_init : PC (init P).
  Proof.
    constructor; unfold rnc, st, pend; simpl; try (intros; discriminate).
    intros x y m []. 
  Qed.

  Lemma pc_hold cf s d0 m q : PC cf -> chan cf s d0 = m :: q -> rnc cf d0 = false ->
    PC (mkConfig (upd_node (nodes cf) d0 (mkWrap false (w_held (nodes cf d0) ++ [(s, m)]) (w_st (nodes cf d0))))
                 (upd_chan (chan cf) s d0 q)).
  Proof.
    intros HC Hch Rd. set (cf' := mkConfig _ _).
    assert (Hst : forall n, st cf' n = st cf n).
    { intros n. unfold st, cf', upd_node. simpl. destruct (n =? d0) eqn:E; [apply Z.eqb_eq in E; subst; reflexivity|reflexivity]. }
    assert (Hrn : forall n, rnc cf' n = rnc cf n).
    { intros n. unfold rnc, cf', upd_node. simpl. destruct (n =? d0) eqn:E; [apply Z.eqb_eq in E; subst; simpl; symmetry; exact Rd|reflexivity]. }
    assert (Hpd : forall a b, pend cf' a b = pend cf a b).
    { intros a b. unfold pend. rewrite Hst. unfold cf', upd_node, upd_chan. simpl.
      destruct (Z.eqb_spec b d0) as [->|Hb].
      - simpl. rewrite to_y2_app, to_y2_single. destruct (Z.eqb_spec a s) as [->|Ha].
        + rewrite !Z.eqb_refl. simpl. rewrite Hch, <- !app_assoc. reflexivity.
        + assert (E : (s =? a) = false) by (apply Z.eqb_neq; congruence). rewrite E, andb_false_l, app_nil_r. reflexivity.
      - rewrite andb_false_r. reflexivity. }
    unfold PC. apply (InvP_ext d thr favor orc (rnc cf) (rnc cf') (st cf) (st cf') (pend cf) (pend cf')); auto.
    - intros n. rewrite Hst. reflexivity.
    - intros a b m0. rewrite Hpd. auto.
  Qed.

  (* the configuration after a delivery to a running computation *)
  Lemma pc_finish cf s d0 m q st' outs :
    InvC cf -> chan cf s d0 = m :: q -> rnc cf d0 = true -> s <> d0 ->
    ~ In d0 (map fst (allposts st')) ->
    PV d thr favor orc (rnc cf) (st cf) d0 (baseR' cf s d0 q) st' outs ->
    PC (mkConfig (upd_node (nodes cf) d0 (mkWrap true (w_held (nodes cf d0)) st'))
                 (send_all (upd_chan (chan cf) s d0 q) d0 outs)).
  Proof.
    intros HC Hch Rd Hsd HS HPV. set (cf' := mkConfig _ _).
    destruct HC as [C1 C2 C3 C4 C5 C6].
    assert (Hst : forall n, st cf' n = updS (st cf) d0 st' n).
    { intros n. unfold st, cf', upd_node, updS. simpl. destruct (n =? d0); reflexivity. }
    assert (Hrn : forall n, rnc cf' n = rnc cf n).
    { intros n. unfold rnc, cf', upd_node. simpl. destruct (Z.eqb_spec n d0) as [->|]; [simpl; symmetry; exact Rd|reflexivity]. }
    assert (Hheld : forall n, w_held (nodes cf' n) = w_held (nodes cf n)).
    { intros n. unfold cf', upd_node. simpl. destruct (Z.eqb_spec n d0) as [->|]; reflexivity. }
    assert (Hchan : forall a b, chan cf' a b =
               (if a =? d0 then (if (a =? s) && (b =? d0) then q else chan cf a b) ++ to_y2 b outs
                else (if (a =? s) && (b =? d0) then q else chan cf a b))).
    { intros a b. unfold cf'. simpl. rewrite send_all_spec2. unfold upd_chan. reflexivity. }
    assert (Hbag : forall a b m0, In m0 (pend cf' a b) -> In m0 (pdV d0 (baseR' cf s d0 q) st' outs a b)).
    { intros a b. unfold pend. rewrite Hheld, Hchan, Hst. unfold pdV, baseR', baseR, updS, pend.
      assert (Eds : (d0 =? s) = false) by (apply Z.eqb_neq; congruence).
      destruct (Z.eqb_spec a d0) as [->|Ha].
      - rewrite Eds. simpl andb. destruct (Z.eqb_spec b d0) as [->|Hb].
        + rewrite ?Z.eqb_refl, (C2 d0 Rd), (to_y2_nil_notin d0 _ HS). simpl. bag_in.
        + bag_in.
      - destruct (Z.eqb_spec b d0) as [->|Hb].
        + rewrite ?Z.eqb_refl, (C2 d0 Rd), ?andb_true_r. simpl. destruct (a =? s); bag_in.
        + rewrite ?andb_false_r. bag_in. }
    unfold PC. apply (InvP_ext d thr favor orc (rnc cf) (rnc cf') (updS (st cf) d0 st') (st cf')
                        (pdV d0 (baseR' cf s d0 q) st' outs) (pend cf')); auto.
    intros n. rewrite Hst. reflexivity.
  Qed.

  Lemma PV_of_PC cf d0 : InvC cf -> PC cf -> rnc cf d0 = true ->
    PV d thr favor orc (rnc cf) (st cf) d0 (baseR cf d0) (st cf d0) [].
  Proof.
    intros [C1 C2 C3 C4 C5 C6] HP Rd. unfold PV.
    apply (InvP_ext d thr favor orc (rnc cf) (rnc cf) (st cf) _ (pend cf) _); auto.
    - intros n. unfold updS. destruct (Z.eqb_spec n d0) as [->|]; reflexivity.
    - intros a b m0. unfold pdV, baseR, pend.
      destruct (Z.eqb_spec a d0) as [->|Ha].
      + simpl. rewrite app_nil_r. destruct (Z.eqb_spec b d0) as [->|Hb]; [|auto].
        rewrite ?Z.eqb_refl, (C2 d0 Rd), (to_y2_nil_notin d0 _ (C5 d0)), app_nil_r. simpl. auto.
      + destruct (Z.eqb_spec b d0) as [->|Hb]; [rewrite ?Z.eqb_refl, (C2 d0 Rd)|]; auto.
  Qed.
  Lemma pc_recv cf s d0 m q st' outs evs : InvC cf -> PC cf -> chan cf s d0 = m :: q -> rnc cf d0 = true ->
    mgm2_recv_f d stop thr favor fuel d0 (st cf d0) s m = (st', outs, evs) ->
    PC (mkConfig (upd_node (nodes cf) d0 (mkWrap true (w_held (nodes cf d0)) st'))
                 (send_all (upd_chan (chan cf) s d0 q) d0 outs)).
  Proof.
    intros HC HP Hch Rd Hr. pose proof (c_inv _ _ _ cf HC) as HI.
    destruct (inv_recv d stop thr favor orc fuel Hfuel cf s d0 m q st' outs evs HC Hch Rd Hr) as (HC' & _ & Hact).
    assert (HS : ~ In d0 (map fst (allposts st'))).
    { pose proof (c_noself _ _ _ _ HC' d0) as H. unfold st in H. simpl in H. unfold upd_node in H.
      rewrite Z.eqb_refl in H. exact H. }
    assert (Hin : In m (pend cf s d0)).
    { unfold pend. apply in_or_app. right. apply in_or_app. left. rewrite Hch. left. reflexivity. }
    assert (Hsd : In s (nbr d0)).
    { destruct (in_dec Z.eq_dec s (nbr d0)) as [H|H]; [exact H|]. rewrite (i_far _ _ _ _ _ HI s d0 H) in Hin. destruct Hin. }
    assert (Hne : s <> d0) by (intros ->; eapply nbrs_irrefl; eauto).
    pose proof (VInv_of_InvC d stop orc cf d0 HC Rd) as HV0.
    pose proof (PV_of_PC cf d0 HC HP Rd) as HPV0.
    pose proof (tp_bound d stop orc cf d0 HC Rd Hact) as Htp.
    pose proof (Hfuel d0) as Hf. destruct fuel as [|f]; [lia|].
    pose proof (i_good _ _ _ _ _ HI d0 Rd Hact) as G0.
    apply (pc_finish cf s d0 m q st' outs HC Hch Rd Hne HS).
    unfold mgm2_recv_f in Hr.
    destruct (Z.eq_dec (kind_of m) (t_state (st cf d0))) as [Hk|Hk].
    - assert (Hb : baseR cf d0 s d0 = m :: q) by (unfold baseR; rewrite Z.eqb_refl; exact Hch).
      pose proof (recv_okP d stop thr favor orc (rnc cf) (st cf) d0 Rd Hact (baseR cf d0) (baseR' cf s d0 q) (st cf d0) s m q f
                    HV0 HPV0 (c_rest _ _ _ cf HC d0 Rd Hact) Hb Hk (fun a b => eq_refl) ltac:(lia)) as HL.
      rewrite Hr in HL. unfold PostP in HL. simpl in HL. exact HL.
    - assert (Hkm : 1 <= kind_of m <= 5) by (destruct m; simpl; lia).
      unfold on_msg in Hr. cbv zeta in Hr.
      assert (Eg : negb (t_state (st cf d0) =? kind_of m) = true).
      { apply negb_true_iff. apply Z.eqb_neq. congruence. }
      rewrite Eg in Hr. unfold ret2 in Hr. injection Hr as <- <- <-.
      set (k := kind_of m) in *. set (s0 := st cf d0) in *.
      destruct (allposts_split s0 k Hkm) as (A & B & EA & ES).
      set (s1 := set_post s0 k (get_post s0 k ++ [(s, m)])) in *.
      assert (EA1 : allposts s1 = A ++ (get_post s0 k ++ [(s, m)]) ++ B) by apply ES.
      unfold PV in *.
      apply (InvP_ext d thr favor orc (rnc cf) (rnc cf) (updS (st cf) d0 s0) (updS (st cf) d0 s1)
               (pdV d0 (baseR cf d0) s0 []) (pdV d0 (baseR' cf s d0 q) s1 [])); auto.
      + intros n. unfold updS. destruct (n =? d0); [apply core_set_post|reflexivity].
      + intros a b m0. unfold pdV, baseR'. destruct (Z.eqb_spec a d0) as [->|Ha].
        * assert (E : (d0 =? s) = false) by (apply Z.eqb_neq; congruence). rewrite E. auto.
        * destruct (Z.eqb_spec b d0) as [->|Hb0]; [|rewrite andb_false_r; auto].
          rewrite Z.eqb_refl, andb_true_r, EA1, EA. unfold baseR. rewrite Z.eqb_refl.
          destruct (Z.eqb_spec a s) as [->|Has].
          -- rewrite Hch, !to_y2_app, to_y2_single, Z.eqb_refl. rewrite !in_app_iff. simpl. rewrite ?in_app_iff. tauto.
          -- rewrite !to_y2_app, to_y2_single. assert (E : (s =? a) = false) by (apply Z.eqb_neq; congruence).
             rewrite E, app_nil_r. auto.
  Qed.

  Lemma pc_start cf n st' outs evs : InvC cf -> PC cf -> rnc cf n = false ->
    mgm2_start_f d stop thr favor fuel n (st cf n) = (st', outs, evs) ->
    PC (mkConfig (upd_node (nodes cf) n (mkWrap true [] st'))
                 (reinject_all (send_all (chan cf) n outs) n (reinject (w_held (nodes cf n))))).
  Proof.
    intros HC HP Rn Hs. pose proof (c_inv _ _ _ cf HC) as HI.
    pose proof (c_idle _ _ _ cf HC n Rn) as Hinit.
    pose proof (Hfuel n) as Hf. destruct fuel as [|f]; [lia|].
    assert (Hs0 : start0 d stop thr favor n (st cf n) = (st', outs, evs) /\ posts st' = posts (st cf n)).
    { destruct (nbr n) as [|z r] eqn:En.
      - rewrite (start_iso d stop thr favor n (S f) (st cf n) En) in Hs. split; [exact Hs|].
        destruct (step_start d stop thr favor _ _ _ HI n Rn _ _ _ Hs) as (_ & Hpo & _). exact Hpo.
      - assert (Hact : nbr n <> []) by (rewrite En; discriminate).
        rewrite (start_factor d stop thr favor n f (st cf n) Hact) in Hs.
        destruct (start0 d stop thr favor n (st cf n)) as [[s2 o2] e2] eqn:E0.
        destruct (step_start d stop thr favor _ _ _ HI n Rn _ _ _ E0) as (_ & Hpo & _).
        unfold andthen2 in Hs. rewrite loop_eq in Hs.
        rewrite (posts_get _ _ 1 Hpo), Hinit, init_posts in Hs. simpl in Hs. unfold ret2 in Hs.
        rewrite !app_nil_r in Hs. injection Hs as <- <- <-. split; [reflexivity|exact Hpo]. }
    destruct Hs0 as [Hs0 Hpo].
    destruct (step_start d stop thr favor _ _ _ HI n Rn _ _ _ Hs0) as (HI2 & _).
    pose proof (pstart d stop thr favor orc (rnc cf) (st cf) (pend cf) HI HP n st' outs evs Rn Hinit Hs0 HI2) as HP2.
    set (cf' := mkConfig _ _).
    assert (Hst : forall x, st cf' x = updS (st cf) n st' x).
    { intros x. unfold st, cf', upd_node, updS. simpl. destruct (x =? n); reflexivity. }
    assert (Hrn : forall x, rnc cf' x = start_rn (rnc cf) n x).
    { intros x. unfold rnc, cf', upd_node, start_rn. simpl. destruct (x =? n); reflexivity. }
    assert (Hbag : forall a b m0, In m0 (pend cf' a b) -> In m0 (pd_start (pend cf) n outs a b)).
    { intros a b. unfold pend. rewrite Hst. unfold cf', upd_node, updS. simpl.
      rewrite reinject_all_spec2, send_all_spec2. unfold reinject, pd_start, pend.
      destruct (Z.eqb_spec b n) as [->|Hb].
      - simpl. rewrite (posts_allposts _ _ Hpo). destruct (a =? n); bag_in.
      - destruct (a =? n); bag_in. }
    unfold PC. apply (InvP_ext d thr favor orc (start_rn (rnc cf) n) (rnc cf') (updS (st cf) n st') (st cf')
                        (pd_start (pend cf) n outs) (pend cf')); auto.
    intros x. rewrite Hst. reflexivity.
  Qed.

  Lemma pc_step cf a : InvC cf -> PC cf -> PC (fst (step P cf a)).
  Proof.
    intros HC HP. destruct a as [n|s d0]; simpl.
    - destruct (w_running (nodes cf n)) eqn:Rn; [simpl; exact HP|].
      destruct (mgm2_start_f d stop thr favor fuel n (w_st (nodes cf n))) as [[st' outs] evs] eqn:Es. simpl.
      apply (pc_start cf n st' outs evs HC HP Rn Es).
    - destruct (chan cf s d0) as [|m q] eqn:Hch; [simpl; exact HP|].
      destruct (w_running (nodes cf d0)) eqn:Rd.
      + destruct (mgm2_recv_f d stop thr favor fuel d0 (w_st (nodes cf d0)) s m) as [[st' outs] evs] eqn:Er. simpl.
        apply (pc_recv cf s d0 m q st' outs evs HC HP Hch Rd Er).
      + simpl. apply (pc_hold cf s d0 m q HP Hch Rd).
  Qed.

  Lemma reachable_PC cf : reachable P cf -> InvC cf /\ PC cf.
  Proof.
    induction 1 as [|cf a Hre [IC IP]].
    - split; [apply (inv_init d stop thr favor orc fuel)|apply pc_init].
    - split; [apply (inv_step d stop thr favor orc fuel Hfuel cf a IC)|apply (pc_step cf a IC IP)].
  Qed.

  (* ---------------------------------------------------------------- theorems *)
  Notation RA2 := (RA2 d thr favor orc).
  Notation RO2 := (RO2 d thr favor orc).

  (* the full payload refinement: a started computation that takes part in cycles holds, in cycle c, exactly the
     payloads the round function computes from the reference assignment / draws of round c - 1 *)
  Theorem mgm2_payload_invariant_l cf n : reachable P cf -> rnc cf n = true -> nbr n <> [] ->
    payc d thr favor orc n (st cf n).
  Proof. intros Hre Rn Hn. destruct (reachable_PC cf Hre) as [_ HP]. apply (q_node _ _ _ _ _ _ _ HP n Rn Hn). Qed.

  Theorem mgm2_refines_rounds_l cf n : reachable P cf -> rnc cf n = true ->
    t_value (st cf n) = Some (RA2 (Z.to_nat (t_cycle (st cf n) - 1)) n).
  Proof.
    intros Hre Rn. destruct (reachable_PC cf Hre) as [HC HP].
    destruct (nbr n) as [|z r] eqn:En.
    - rewrite (q_iso _ _ _ _ _ _ _ HP n Rn En). rewrite (RA2_iso d thr favor orc _ n En). reflexivity.
    - assert (Hn : nbr n <> []) by (rewrite En; discriminate).
      apply (y_val _ _ _ _ _ _ _ (q_node _ _ _ _ _ _ _ HP n Rn Hn)).
  Qed.

  (* every pending message is the reference message of its cycle *)
  Theorem mgm2_messages_refine_l cf x y m : reachable P cf -> In m (pend cf x y) -> pmsg d thr favor orc (st cf) x y m.
  Proof. intros Hre Hm. destruct (reachable_PC cf Hre) as [_ HP]. apply (q_bag _ _ _ _ _ _ _ HP x y m Hm). Qed.

  Definition held2 (cf : config) (n : node) : Z := cur2 (st cf n).
  (* every computation is started and those that take part in cycles have completed exactly j of them *)
  Definition at_boundary2 (cf : config) (j : nat) : Prop :=
    forall n, In n (ids d) -> rnc cf n = true /\ (nbr n <> [] -> t_cycle (st cf n) = Z.of_nat j + 1).

  Lemma boundary_RA2 cf j : reachable P cf -> at_boundary2 cf j -> forall n, In n (ids d) -> held2 cf n = RA2 j n.
  Proof.
    intros Hre Hb n Hn. destruct (Hb n Hn) as [Rn Hc]. unfold held2, cur2. rewrite (mgm2_refines_rounds_l cf n Hre Rn).
    destruct (nbr n) as [|z r] eqn:En.
    - rewrite !(RA2_iso d thr favor orc _ n En). reflexivity.
    - rewrite Hc by discriminate. replace (Z.to_nat (Z.of_nat j + 1 - 1)) with j by lia. reflexivity.
  Qed.

  Lemma RA2_S j : RA2 (S j) = mgm2_next d thr favor (RA2 j) (RO2 j).
  Proof. reflexivity. Qed.

  Theorem mgm2_async_unilateral_monotone_l cf1 cf2 j : wf_dcop d = true ->
    reachable P cf1 -> reachable P cf2 -> at_boundary2 cf1 j -> at_boundary2 cf2 (S j) ->
    (forall n, In n (ids d) -> r2_committed d thr favor (RA2 j) (RO2 j) n = false) ->
    if d_max d then gcost d (held2 cf1) <= gcost d (held2 cf2) else gcost d (held2 cf2) <= gcost d (held2 cf1).
  Proof.
    intros W R1 R2 B1 B2 Hnc.
    rewrite (gcost_ext d (held2 cf1) (RA2 j) W (boundary_RA2 cf1 j R1 B1)).
    rewrite (gcost_ext d (held2 cf2) (RA2 (S j)) W (boundary_RA2 cf2 (S j) R2 B2)).
    rewrite RA2_S. apply mgm2_unilateral_monotone_l; assumption.
  Qed.

  Lemma changed_moves cf1 cf2 j n : reachable P cf1 -> reachable P cf2 -> at_boundary2 cf1 j -> at_boundary2 cf2 (S j) ->
    In n (ids d) -> held2 cf2 n <> held2 cf1 n -> r2_moves d thr favor (RA2 j) (RO2 j) n = true.
  Proof.
    intros R1 R2 B1 B2 Hn Dn.
    rewrite (boundary_RA2 cf1 j R1 B1 n Hn), (boundary_RA2 cf2 (S j) R2 B2 n Hn), RA2_S in Dn.
    unfold mgm2_next in Dn. destruct (r2_moves d thr favor (RA2 j) (RO2 j) n); [reflexivity|congruence].
  Qed.

  Theorem mgm2_async_unilateral_movers_l cf1 cf2 j n m : wf_dcop d = true ->
    reachable P cf1 -> reachable P cf2 -> at_boundary2 cf1 j -> at_boundary2 cf2 (S j) ->
    (forall n, In n (ids d) -> r2_committed d thr favor (RA2 j) (RO2 j) n = false) ->
    In n (ids d) -> In m (ids d) -> held2 cf2 n <> held2 cf1 n -> held2 cf2 m <> held2 cf1 m -> In m (nbr n) -> False.
  Proof.
    intros W R1 R2 B1 B2 Hnc Hn Hm Dn Dm Hnb.
    apply (mgm2_unilateral_movers_independent_l d thr favor (RA2 j) (RO2 j) W Hnc n m); [| |exact Hnb].
    - apply (changed_moves cf1 cf2 j n R1 R2 B1 B2 Hn Dn).
    - apply (changed_moves cf1 cf2 j m R1 R2 B1 B2 Hm Dm).
  Qed.

  Theorem mgm2_async_no_commit_no_move_1opt_l cf1 cf2 j : wf_dcop d = true ->
    reachable P cf1 -> reachable P cf2 -> at_boundary2 cf1 j -> at_boundary2 cf2 (S j) ->
    (forall n, In n (ids d) -> r2_committed d thr favor (RA2 j) (RO2 j) n = false) ->
    (forall n, In n (ids d) -> held2 cf2 n = held2 cf1 n) ->
    forall n x, In n (ids d) -> nbr n <> [] -> In x (dom_of d n) ->
    better (d_max d) (gcost d (fupd (held2 cf2) n x)) (gcost d (held2 cf2)) = false.
  Proof.
    intros W R1 R2 B1 B2 Hnc Hsame n x Hn Hact Hx.
    assert (H2 : forall v, In v (ids d) -> held2 cf2 v = RA2 j v).
    { intros v Hv. rewrite (Hsame v Hv). apply (boundary_RA2 cf1 j R1 B1 v Hv). }
    assert (Hstill : forall v, In v (ids d) -> mgm2_next d thr favor (RA2 j) (RO2 j) v = RA2 j v).
    { intros v Hv. rewrite <- RA2_S. rewrite <- (boundary_RA2 cf2 (S j) R2 B2 v Hv). apply H2. exact Hv. }
    rewrite (gcost_ext d (held2 cf2) (RA2 j) W H2).
    rewrite (gcost_ext d (fupd (held2 cf2) n x) (fupd (RA2 j) n x) W).
    2:{ intros v Hv. unfold fupd. destruct (v =? n); [reflexivity|apply H2; exact Hv]. }
    apply (mgm2_no_commit_no_move_1opt_l d thr favor (RA2 j) (RO2 j) W Hnc Hstill n x Hn); [|exact Hx].
    unfold r_active. destruct (nbr n); [congruence|reflexivity].
  Qed.

  (* a cycle in which exactly one accepted pair moves: the cost change is the one of the round function *)
  Theorem mgm2_async_pair_move_cost_l cf1 cf2 j p o vo vp : wf_dcop d = true ->
    reachable P cf1 -> reachable P cf2 -> at_boundary2 cf1 j -> at_boundary2 cf2 (S j) ->
    r2_acc d thr favor (RA2 j) (RO2 j) p = Some (vo, vp, o) ->
    In o (ids d) -> In p (ids d) -> held2 cf2 o <> held2 cf1 o -> held2 cf2 p <> held2 cf1 p ->
    (forall v, In v (ids d) -> v <> o -> v <> p -> held2 cf2 v = held2 cf1 v) ->
    gcost d (held2 cf2) = gcost d (held2 cf1) - r2_pgain d thr favor (RA2 j) (RO2 j) p
                          + cost_at (shared_cons d p o) (RA2 j) + vcost d p vp.
  Proof.
    intros W R1 R2 B1 B2 Hacc Ho Hp Do Dp Hrest.
    rewrite (gcost_ext d (held2 cf1) (RA2 j) W (boundary_RA2 cf1 j R1 B1)).
    rewrite (gcost_ext d (held2 cf2) (RA2 (S j)) W (boundary_RA2 cf2 (S j) R2 B2)).
    rewrite RA2_S. apply (mgm2_pair_move_cost_l d thr favor (RA2 j) (RO2 j) p o vo vp Hacc W).
    - apply (changed_moves cf1 cf2 j o R1 R2 B1 B2 Ho Do).
    - apply (changed_moves cf1 cf2 j p R1 R2 B1 B2 Hp Dp).
    - intros v Hv Hvo Hvp. rewrite <- RA2_S.
      rewrite <- (boundary_RA2 cf2 (S j) R2 B2 v Hv), <- (boundary_RA2 cf1 j R1 B1 v Hv). apply Hrest; assumption.
  Qed.
End GlobalP.

(* ================================================================== closed statements (Prop_C03 / Prop_C04) *)
Definition cyc2 (cf : config m2st m2msg) (n : node) : Z := t_cycle (w_st (nodes cf n)).

Lemma mgm2_refines_rounds_closed d stop thr favor orc fuel cf n : fuel_ok d fuel ->
  reachable (mgm2_proto_f d stop thr favor orc fuel) cf -> w_running (nodes cf n) = true ->
  t_value (w_st (nodes cf n)) = Some (RA2 d thr favor orc (Z.to_nat (cyc2 cf n - 1)) n).
Proof. intros Hf. exact (mgm2_refines_rounds_l d stop thr favor orc fuel Hf cf n). Qed.

Lemma mgm2_payload_invariant_closed d stop thr favor orc fuel cf n : fuel_ok d fuel ->
  reachable (mgm2_proto_f d stop thr favor orc fuel) cf -> w_running (nodes cf n) = true -> nbrs d n <> [] ->
  pay d thr favor (AC d thr favor orc (cyc2 cf n)) (OC d thr favor orc (cyc2 cf n)) n (w_st (nodes cf n)).
Proof. intros Hf. exact (mgm2_payload_invariant_l d stop thr favor orc fuel Hf cf n). Qed.

Lemma mgm2_messages_refine_closed d stop thr favor orc fuel cf x y m : fuel_ok d fuel ->
  reachable (mgm2_proto_f d stop thr favor orc fuel) cf -> In m (pend cf x y) ->
  refmsg d thr favor (AC d thr favor orc (sidx (w_st (nodes cf x)) m (cyc2 cf y)))
                     (OC d thr favor orc (sidx (w_st (nodes cf x)) m (cyc2 cf y))) x y m.
Proof. intros Hf. exact (mgm2_messages_refine_l d stop thr favor orc fuel Hf cf x y m). Qed.

Lemma mgm2_async_unilateral_monotone_closed d stop thr favor orc fuel cf1 cf2 j : fuel_ok d fuel -> wf_dcop d = true ->
  reachable (mgm2_proto_f d stop thr favor orc fuel) cf1 -> reachable (mgm2_proto_f d stop thr favor orc fuel) cf2 ->
  at_boundary2 d cf1 j -> at_boundary2 d cf2 (S j) ->
  (forall n, In n (ids d) -> r2_committed d thr favor (RA2 d thr favor orc j) (RO2 d thr favor orc j) n = false) ->
  if d_max d then gcost d (held2 cf1) <= gcost d (held2 cf2) else gcost d (held2 cf2) <= gcost d (held2 cf1).
Proof. intros Hf. exact (mgm2_async_unilateral_monotone_l d stop thr favor orc fuel Hf cf1 cf2 j). Qed.

Lemma mgm2_async_unilateral_movers_closed d stop thr favor orc fuel cf1 cf2 j n m : fuel_ok d fuel -> wf_dcop d = true ->
  reachable (mgm2_proto_f d stop thr favor orc fuel) cf1 -> reachable (mgm2_proto_f d stop thr favor orc fuel) cf2 ->
  at_boundary2 d cf1 j -> at_boundary2 d cf2 (S j) ->
  (forall n, In n (ids d) -> r2_committed d thr favor (RA2 d thr favor orc j) (RO2 d thr favor orc j) n = false) ->
  In n (ids d) -> In m (ids d) -> held2 cf2 n <> held2 cf1 n -> held2 cf2 m <> held2 cf1 m -> In m (nbrs d n) -> False.
Proof. intros Hf. exact (mgm2_async_unilateral_movers_l d stop thr favor orc fuel Hf cf1 cf2 j n m). Qed.

Lemma mgm2_async_pair_move_cost_closed d stop thr favor orc fuel cf1 cf2 j p o vo vp : fuel_ok d fuel -> wf_dcop d = true ->
  reachable (mgm2_proto_f d stop thr favor orc fuel) cf1 -> reachable (mgm2_proto_f d stop thr favor orc fuel) cf2 ->
  at_boundary2 d cf1 j -> at_boundary2 d cf2 (S j) ->
  r2_acc d thr favor (RA2 d thr favor orc j) (RO2 d thr favor orc j) p = Some (vo, vp, o) ->
  In o (ids d) -> In p (ids d) -> held2 cf2 o <> held2 cf1 o -> held2 cf2 p <> held2 cf1 p ->
  (forall v, In v (ids d) -> v <> o -> v <> p -> held2 cf2 v = held2 cf1 v) ->
  gcost d (held2 cf2) = gcost d (held2 cf1) - r2_pgain d thr favor (RA2 d thr favor orc j) (RO2 d thr favor orc j) p
                        + cost_at (shared_cons d p o) (RA2 d thr favor orc j) + vcost d p vp.
Proof. intros Hf. exact (mgm2_async_pair_move_cost_l d stop thr favor orc fuel Hf cf1 cf2 j p o vo vp). Qed.

Lemma mgm2_async_no_commit_no_move_1opt_closed d stop thr favor orc fuel cf1 cf2 j : fuel_ok d fuel -> wf_dcop d = true ->
  reachable (mgm2_proto_f d stop thr favor orc fuel) cf1 -> reachable (mgm2_proto_f d stop thr favor orc fuel) cf2 ->
  at_boundary2 d cf1 j -> at_boundary2 d cf2 (S j) ->
  (forall n, In n (ids d) -> r2_committed d thr favor (RA2 d thr favor orc j) (RO2 d thr favor orc j) n = false) ->
  (forall n, In n (ids d) -> held2 cf2 n = held2 cf1 n) ->
  forall n x, In n (ids d) -> nbrs d n <> [] -> In x (dom_of d n) ->
  better (d_max d) (gcost d (fupd (held2 cf2) n x)) (gcost d (held2 cf2)) = false.
Proof. intros Hf. exact (mgm2_async_no_commit_no_move_1opt_l d stop thr favor orc fuel Hf cf1 cf2 j). Qed.

(* boundaries as a boolean on the declared variables (non-vacuity examples) *)
Definition at_boundary2b (d : dcop) (cf : config m2st m2msg) (j : nat) : bool :=
  forallb (fun n => w_running (nodes cf n) &&
                    (match nbrs d n with [] => true | _ => cyc2 cf n =? Z.of_nat j + 1 end)) (ids d).
Lemma at_boundary2b_ok d cf j : at_boundary2b d cf j = true -> at_boundary2 d cf j.
Proof.
  unfold at_boundary2b, at_boundary2. rewrite forallb_forall. intros H n Hn. specialize (H n Hn).
  apply andb_true_iff in H as [H1 H2]. split; [exact H1|]. intros Hact.
  destruct (nbrs d n); [congruence|]. apply Z.eqb_eq in H2. exact H2.
Qed.
