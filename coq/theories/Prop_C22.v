(* Prop_C22.v -- C22: orchestrated solve terminates and reports a true optimal result.
   Only statements; each closed by an exact lemma from P_Orch.

   Full statement of the property: for any DCOP solved with DPOP through the orchestrator and
   thread-mode agents, under any thread scheduling and any valid distribution, the run ends
   because all computations finished (not by timeout); the reported assignment covers every
   variable and is optimal; the reported cost and violation count equal the DCOP's own cost
   accounting of that assignment.

   What is a theorem here (about M_Orch, the model of AgentsMgt + global_metrics +
   solution_cost), for every trace of management messages / discovery callbacks of any length:
     - the stop order is sent exactly on the end_of_computation that completes the set of
       graph computations (orch_finishes_iff_all_ended);
     - the reported assignment is the last value_change of each computation
       (orch_reports_last_values);
     - the reported (violation, cost) is the accounting of that assignment when it is total
       (orch_cost_accounts_assignment).
   Stated but NOT proved yet (kept visible; checked on every run by the correspondence and
   the oracle only):
     orch_cost_none_iff_incomplete : forall c d tr, NoDup (var_names d) ->
        (reported_cost d (run c tr) = None <->
         exists v, In v (var_names d) /\ last_value v tr = None)
     orch_dpop_result_optimal : if the last values are an optimal total assignment (the
        conclusion of C01 for DPOP) then the reported assignment is total and optimal and
        cost + infinity * violation is the optimum.
   Not expressible in the model (PARTIAL): OS threads, the timeout timer, agent start-up and
   the transport of the messages; these are exercised by the real thread-mode runs of
   harness/props/C22.py, whose management traces are replayed through M_Orch. *)
From PyDcop Require Import Base M_Orch P_Orch.

(* [en] = what the orchestrator's Discovery holds when the message is handled (an input of the
   step); [ended tr n] = some end_of_computation for n occurs in tr. *)
Theorem orch_finishes_iff_all_ended : forall c tr e en a,
  e <> EStopReq ->
  (In (OStop a) (snd (step c (run c tr) en e)) <->
   In a (e_agents en) /\
   exists ag x, e = EEnd ag x /\ forall n, In n (g_nodes c) -> ended (tr ++ [(e, en)]) n).
Proof. exact orch_finishes_iff_all_ended_l. Qed.

Theorem orch_reports_last_values : forall c tr x,
  slookup x (reported_assignment (run c tr)) = last_value x tr.
Proof. exact orch_reports_last_values_l. Qed.

Theorem orch_cost_accounts_assignment : forall d m costs_c costs_v,
  let a := filter_assignment (var_names d) (reported_assignment m) in
  List.length (d_vars d) = List.length a ->
  Forall2 (fun k c => cons_cost a k = Some c) (d_cons d) costs_c ->
  Forall2 (fun v c => var_cost a v = Some c) (d_vars d) costs_v ->
  reported_cost d m = Some (count_inf (d_infinity d) (costs_c ++ costs_v),
                            sum_finite (d_infinity d) (costs_c ++ costs_v)).
Proof. exact orch_cost_accounts_assignment_l. Qed.

(* non-vacuity: a 2-variable DCOP, two agents, a complete run; stop goes out on the second end,
   the reported assignment is the last values, cost 3 with one violated (infinite) constraint *)
Example c22_nonvacuous :
  let c := mkCfg ["v00"; "v01"]%string [("a00", ["v00"]); ("a01", ["v01"])]%string false in
  let d := mkDcop [("v00", []); ("v01", [])]%string
                  [mkCons ["v00"; "v01"]%string [2; 2] [5; 3; 7; 1];
                   mkCons ["v01"]%string [2] [0; 10000]] 10000 in
  let en := mkEnv ["a00"; "a01"]%string ["v00"; "v01"]%string in
  let tr := map (fun e => (e, en))
            [EAgentAdded "a00"; EAgentAdded "a01"; EDeploy; ERun;
             EValue "a00" "v00" 1; EValue "a00" "v00" 0; EEnd "a00" "v00";
             EValue "a01" "v01" 1]%string in
  snd (step c (run c tr) en (EEnd "a01" "v01"%string)) = [OStop "a00"; OStop "a01"]%string /\
  snd (step c (run c tr) en (EEnd "a01" "zz"%string)) = [] /\
  reported_assignment (run c tr) = [("v00", 0); ("v01", 1)]%string /\
  reported_cost d (run c tr) = Some (1, 3).
Proof. vm_compute. repeat split; reflexivity. Qed.
