(* Prop_C22.v -- C22: orchestrated solve terminates and reports a true optimal result.
   Only statements; each closed by an exact lemma from P_Orch.

   Full statement of the property: for any DCOP solved with DPOP through the orchestrator and
   thread-mode agents, under any thread scheduling and any valid distribution, the run ends
   because all computations finished (not by timeout); the reported assignment covers every
   variable and is optimal; the reported cost and violation count equal the DCOP's own cost
   accounting of that assignment.

   What is a theorem here (about M_Orch, the model of AgentsMgt + global_metrics +
   solution_cost), for every trace of management messages / discovery callbacks of any length:
     - the stop order is sent exactly on the end_of_computation that completes the set of
       graph computations (orch_finishes_iff_all_ended);
     - the reported assignment is the last value_change of each computation
       (orch_reports_last_values);
     - the reported (violation, cost) is the accounting of that assignment when it is total
       (orch_cost_accounts_assignment).
   Deepening (second half of this file; proofs in P_Orch2.v and P_OrchDpop.v, link model in
   M_OrchDpop.v):
     - orch_cost_none_iff_incomplete: no cost is reported iff some variable never reported a
       value (needs: constraint scopes are variables; refuted without it);
     - orch_deploy_each_once / orch_run_each_once: a distribution hosting every computation once
       is deployed / run through exactly one agent per computation;
     - the composition with the DPOP network model of C01 (M_Dpop over Net.v): each
       computation's value-selection / finished events become value_change /
       end_of_computation messages (M_OrchDpop.mgmt_of); the management transport is an explicit
       ASSUMPTION (P_OrchDpop.transport: per computation, what AgentsMgt handled is a prefix of
       what was posted, in order; nothing else names a computation), shown to hold for the
       thread-mode queue (orch_thread_mode_transport).  Under it:
         orch_dpop_stop_sound     the stop order is never early (every dcop, every schedule)
         orch_dpop_stop_happens   at quiescence the stop order has been sent, on the last end
         orch_dpop_result_optimal total assignment = DPOP's values, optimal (C01), (violation,
                                  cost) = accounting of dcop_cost's terms
         orch_dpop_stop_result    the same already at the moment of the stop order.
   Not expressible in the model (PARTIAL): OS threads, the timeout timer, agent start-up, that
   the run orders make the agents start the computations (Start actions of the schedule), and
   the transport itself; these are exercised by the real thread-mode runs of
   harness/props/C22.py, whose management traces are replayed through M_Orch and checked
   against the transport assumption by the oracle. *)
From PyDcop Require Import Base Net M_Dpop P_Dpop M_DpopValid P_Dpop2Tree P_Dpop2.
From PyDcop Require Import M_Orch P_Orch P_Orch2 M_OrchDpop P_OrchDpop.

(* [en] = what the orchestrator's Discovery holds when the message is handled (an input of the
   step); [ended tr n] = some end_of_computation for n occurs in tr. *)
(* Second disjunct: since /repo fix "late agent" an agent that registers after the stop order
   ([stop_ordered c tr]: a stop request or the completing end_of_computation occurs in tr) is
   told to stop at once; before the fix it never was and the run hung until the timeout. *)
Theorem orch_finishes_iff_all_ended : forall c tr e en a,
  e <> EStopReq ->
  (In (OStop a) (snd (step c (run c tr) en e)) <->
   (In a (e_agents en) /\
    exists ag x, e = EEnd ag x /\ forall n, In n (g_nodes c) -> ended (tr ++ [(e, en)]) n)
   \/ (e = EAgentAdded a /\ stop_ordered c tr)).
Proof. exact orch_finishes_iff_all_ended_l. Qed.

(* the flag behind it: _stop_requested is set exactly when the stop order has been given *)
Theorem orch_stop_requested_iff : forall c tr,
  m_stop_requested (run c tr) = true <-> stop_ordered c tr.
Proof. exact flag_stop_ordered. Qed.

Theorem orch_reports_last_values : forall c tr x,
  slookup x (reported_assignment (run c tr)) = last_value x tr.
Proof. exact orch_reports_last_values_l. Qed.

Theorem orch_cost_accounts_assignment : forall d m costs_c costs_v,
  let a := filter_assignment (var_names d) (reported_assignment m) in
  List.length (d_vars d) = List.length a ->
  Forall2 (fun k c => cons_cost a k = Some c) (d_cons d) costs_c ->
  Forall2 (fun v c => var_cost a v = Some c) (d_vars d) costs_v ->
  reported_cost d m = Some (count_inf (d_infinity d) (costs_c ++ costs_v),
                            sum_finite (d_infinity d) (costs_c ++ costs_v)).
Proof. exact orch_cost_accounts_assignment_l. Qed.

(* global_metrics reports cost = violation = None (solution_cost raised ValueError) exactly when
   some variable of the dcop never reported a value.  [scopes_in_vars d]: every scope variable of
   every constraint is a variable of the dcop (DCOP.add_constraint guarantees it); without it the
   statement is false of the code (next theorem). *)
Theorem orch_cost_none_iff_incomplete : forall c d tr,
  NoDup (var_names d) -> scopes_in_vars d ->
  (reported_cost d (run c tr) = None <->
   exists v, In v (var_names d) /\ last_value v tr = None).
Proof. exact orch_cost_none_iff_incomplete_l. Qed.

Theorem orch_cost_none_unguarded_refuted : exists c d tr,
  NoDup (var_names d) /\ reported_cost d (run c tr) = None /\
  ~ exists v, In v (var_names d) /\ last_value v tr = None.
Proof. exact orch_cost_none_unguarded_refuted_l. Qed.

(* non-vacuity: a 2-variable DCOP, two agents, a complete run; stop goes out on the second end,
   the reported assignment is the last values, cost 3 with one violated (infinite) constraint *)
Example c22_nonvacuous :
  let c := mkCfg ["v00"; "v01"]%string [("a00", ["v00"]); ("a01", ["v01"])]%string false in
  let d := mkDcop [("v00", []); ("v01", [])]%string
                  [mkCons ["v00"; "v01"]%string [2; 2] [5; 3; 7; 1];
                   mkCons ["v01"]%string [2] [0; 10000]] 10000 in
  let en := mkEnv ["a00"; "a01"]%string ["v00"; "v01"]%string in
  let tr := map (fun e => (e, en))
            [EAgentAdded "a00"; EAgentAdded "a01"; EDeploy; ERun;
             EValue "a00" "v00" 1; EValue "a00" "v00" 0; EEnd "a00" "v00";
             EValue "a01" "v01" 1]%string in
  snd (step c (run c tr) en (EEnd "a01" "v01"%string)) = [OStop "a00"; OStop "a01"]%string /\
  snd (step c (run c tr) en (EEnd "a01" "zz"%string)) = [] /\
  reported_assignment (run c tr) = [("v00", 0); ("v01", 1)]%string /\
  reported_cost d (run c tr) = Some (1, 3).
Proof. vm_compute. repeat split; reflexivity. Qed.

(* ================================================================== *)
(*  Deepening: the distribution, and the composition with DPOP (C01)    *)
(* ================================================================== *)
(* a distribution that hosts every computation of the graph exactly once: with its agents
   registered, the deploy and the run orders reach every computation through exactly one
   agent, its host *)
Theorem orch_deploy_each_once : forall c m en n,
  dist_hosts_once c -> (forall a, In a (dist_agents c) -> In a (e_agents en)) ->
  In n (g_nodes c) ->
  exists a, In (ODeploy a n) (snd (step c m en EDeploy)) /\
            forall a', In (ODeploy a' n) (snd (step c m en EDeploy)) -> a' = a.
Proof. exact orch_deploy_each_once_l. Qed.

Theorem orch_run_each_once : forall c m en n,
  g_repair_only c = false -> dist_hosts_once c ->
  (forall a, In a (dist_agents c) -> In a (e_agents en)) ->
  In n (g_nodes c) ->
  exists a, In (ORun a (computations_hosted c a)) (snd (step c m en ERun)) /\
            In n (computations_hosted c a) /\
            forall a' cs, In (ORun a' cs) (snd (step c m en ERun)) -> In n cs -> a' = a.
Proof. exact orch_run_each_once_l. Qed.

(* the DPOP side of the link, EVERY dcop (valid tree or not) and EVERY schedule: what a
   computation tells its agent is nothing while it is not finished, and exactly one value
   selection followed by one finished notification once it is; it then holds that value *)
Theorem dpop_events_ordered : forall P sched x,
  let r := Net.run (dpop_proto P) sched in
  (s_fin (w_st (nodes (fst r) x)) = false -> filter (sel_fin x) (snd r) = []) /\
  (s_fin (w_st (nodes (fst r) x)) = true ->
     exists v k, s_value (w_st (nodes (fst r) x)) = Some (v, k) /\
                 filter (sel_fin x) (snd r) = [EvSelect x v k; EvFinished x]).
Proof. exact dpop_events_ordered_l. Qed.

(* all computations finished => nothing in flight: C01's completeness hypothesis holds *)
Theorem dpop_all_finished_complete : forall P sched, dpop_valid P ->
  let r := Net.run (dpop_proto P) sched in
  (forall x, In x (tree_ids P) -> s_fin (w_st (nodes (fst r) x)) = true) -> complete P (fst r).
Proof. exact all_fin_complete. Qed.

(* solution_cost / global_metrics on the orchestrator's DCOP object [dcop_of L P inf] versus
   the cost of the DPOP model: for a value table holding sg(x) under the name of every node,
   (violation, cost) = (number of terms of dcop_cost equal to infinity, sum of the others).
   Side conditions: distinct names, cost tables of the declared shape, constraint dimensions
   are variables, sg in the domains. *)
Theorem orch_solution_cost_is_dcop_cost : forall P L inf (m : mgt) (sg : asg),
  NoDup (map (lk_name L) (tree_ids P)) ->
  cons_shaped P = true ->
  (forall kr x, In kr (dc_cons P) -> In x (r_dims (snd kr)) -> In x (tree_ids P)) ->
  in_dom (dsize P) sg (tree_ids P) ->
  NoDup (map fst (m_values m)) ->
  (forall x, In x (tree_ids P) -> slookup (lk_name L x) (m_values m) = Some (Z.of_nat (aval sg x))) ->
  reported_cost (dcop_of L P inf) m
  = Some (count_inf inf (cost_terms P sg), sum_finite inf (cost_terms P sg)).
Proof. exact reported_cost_dcop_cost. Qed.

Theorem orch_cost_plus_violations : forall inf l, sum_finite inf l + inf * count_inf inf l = zsum l.
Proof. exact sum_count_zsum. Qed.

(* thread mode meets the transport assumption: AgentsMgt handles the value / end messages in the
   global posting order (one queue, equal priority), interleaved with anything else *)
Theorem orch_thread_mode_transport : forall P L evs tr,
  (forall x y, In x (tree_ids P) -> In y (tree_ids P) -> lk_name L x = lk_name L y -> x = y) ->
  events_in_tree P evs = true ->
  filter is_ve (map fst tr) = flat_map (mgmt_of L) evs ->
  delivered P L evs tr.
Proof. exact fifo_delivered. Qed.

(* SAFETY -- every dcop, every schedule of the computations, every moment, every trace allowed by
   the transport assumption: if AgentsMgt sends a stop order (to the registered agents on the
   completing end, or to a late-registering agent afterwards) and no stop request (timeout /
   external stop) has occurred, every DPOP computation has finished and the value table already
   holds the value each of them selected *)
Theorem orch_dpop_stop_sound : forall P L c sched tr e en ag,
  link_ok P L c ->
  let r := Net.run (dpop_proto P) sched in
  transport P L (snd r) (tr ++ [(e, en)]) ->
  (forall en', ~ In (EStopReq, en') (tr ++ [(e, en)])) ->
  In (OStop ag) (snd (step c (run c tr) en e)) ->
  forall x, In x (tree_ids P) ->
    s_fin (w_st (nodes (fst r) x)) = true /\
    slookup (lk_name L x) (reported_assignment (run c tr)) = Some (chosen (fst r) x).
Proof. exact stop_sound. Qed.

(* TERMINATION by end of computations -- valid tree, non-empty problem: once the computations
   are quiescent (complete) and their management messages are handled, the trace contains an
   end_of_computation on which the stop order went to every registered agent, and no earlier
   step sent one unless a stop request had occurred *)
Theorem orch_dpop_stop_happens : forall P L c sched tr,
  dpop_valid P -> link_ok P L c -> tree_ids P <> [] ->
  let r := Net.run (dpop_proto P) sched in
  complete P (fst r) -> delivered P L (snd r) tr ->
  exists tr1 a x en tr2, tr = tr1 ++ (EEnd a x, en) :: tr2 /\
    (forall ag, In (OStop ag) (snd (step c (run c tr1) en (EEnd a x))) <-> In ag (e_agents en)) /\
    (forall p e' en' s ag, tr1 = p ++ (e', en') :: s ->
        (forall en'', ~ In (EStopReq, en'') (p ++ [(e', en')])) ->
        ~ In (OStop ag) (snd (step c (run c p) en' e'))).
Proof. exact stop_happens. Qed.

(* THE COMPOSITION (2): dpop_check P (C01's hypothesis), cost tables of the declared shape, the
   orchestrator was given the graph of P under distinct names, the computations are quiescent
   and their management messages handled (transport assumption).  Then every computation has
   finished; the reported assignment is total, is exactly the values DPOP selected and has no
   other key; that assignment is in the domains and optimal (brute force over all assignments,
   by C01's dpop_all_schedules); and the reported (violation, cost) is the accounting of the
   terms of its dcop_cost: cost + infinity * violation = the optimum, and cost = the optimum when
   no term equals the infinity constant. *)
Theorem orch_dpop_result_optimal : forall P L c inf sched tr,
  dpop_check P = true -> cons_shaped P = true -> link_ok P L c ->
  let r := Net.run (dpop_proto P) sched in
  complete P (fst r) -> delivered P L (snd r) tr ->
  let m := run c tr in
  let sg := P_Dpop2.assignment P (fst r) in
  (forall x, In x (tree_ids P) ->
     s_fin (w_st (nodes (fst r) x)) = true /\
     slookup (lk_name L x) (reported_assignment m) = Some (chosen (fst r) x)) /\
  (forall s v, In (s, v) (reported_assignment m) -> exists x, In x (tree_ids P) /\ s = lk_name L x) /\
  in_dom (dsize P) sg (tree_ids P) /\
  (forall a, in_dom (dsize P) a (tree_ids P) -> mle (dc_mode P) (dcop_cost P sg) (dcop_cost P a)) /\
  is_best (dc_mode P) (map (dcop_cost P) (ext P (tree_ids P) [])) (dcop_cost P sg) /\
  reported_cost (dcop_of L P inf) m
    = Some (count_inf inf (cost_terms P sg), sum_finite inf (cost_terms P sg)) /\
  sum_finite inf (cost_terms P sg) + inf * count_inf inf (cost_terms P sg) = dcop_cost P sg /\
  (count_inf inf (cost_terms P sg) = 0 -> sum_finite inf (cost_terms P sg) = dcop_cost P sg).
Proof. exact orch_dpop_result_optimal_l. Qed.

(* the same result is already in place at the moment the stop order is sent, on every schedule
   (complete or not) and every trace delivered so far: the stop order is never early *)
Theorem orch_dpop_stop_result : forall P L c inf sched tr e en ag,
  dpop_check P = true -> cons_shaped P = true -> link_ok P L c ->
  let r := Net.run (dpop_proto P) sched in
  transport P L (snd r) (tr ++ [(e, en)]) ->
  (forall en', ~ In (EStopReq, en') (tr ++ [(e, en)])) ->
  In (OStop ag) (snd (step c (run c tr) en e)) ->
  let m := run c tr in
  let sg := P_Dpop2.assignment P (fst r) in
  (forall x, In x (tree_ids P) ->
     s_fin (w_st (nodes (fst r) x)) = true /\
     slookup (lk_name L x) (reported_assignment m) = Some (chosen (fst r) x)) /\
  complete P (fst r) /\
  is_best (dc_mode P) (map (dcop_cost P) (ext P (tree_ids P) [])) (dcop_cost P sg) /\
  reported_cost (dcop_of L P inf) m
    = Some (count_inf inf (cost_terms P sg), sum_finite inf (cost_terms P sg)) /\
  sum_finite inf (cost_terms P sg) + inf * count_inf inf (cost_terms P sg) = dcop_cost P sg.
Proof. exact orch_dpop_stop_result_l. Qed.

(* non-vacuity of the composition: a 3-variable chain (one unary constraint is the infinity
   constant for every value), two agents, a UTIL held before start; the management trace is
   the thread-mode one.  All hypotheses of orch_dpop_result_optimal hold, the stop order goes
   out on the last end message, and the reported (violation, cost) = (1, 1) with
   1 + 10000 * 1 = dcop_cost = the optimum. *)
Definition ex_P : M_Dpop.dcop := M_Dpop.mkDcop Min [(0,2);(1,2);(2,3)] [(0,[0;0]);(1,[1;0]);(2,[0;0;0])]
  [(0, mkRel [0;1] (Node [Node [Leaf 3; Leaf 1]; Node [Leaf 0; Leaf 4]]));
   (1, mkRel [1;2] (Node [Node [Leaf 2; Leaf 5; Leaf 1]; Node [Leaf 0; Leaf 2; Leaf 7]]));
   (2, mkRel [2] (Node [Leaf 10000; Leaf 10000; Leaf 10000]))]
  [mkPN 0 None [1] [] [] [0]; mkPN 1 (Some 0) [2] [] [] [0;1]; mkPN 2 (Some 1) [] [] [] [1;2]].
Definition ex_sched : list (@action) :=
  [Start 2; Deliver 2 1; Start 0; Start 1; Deliver 2 1; Deliver 1 0; Deliver 0 1; Deliver 1 2].
Definition ex_cfg := mkCfg ["v00"; "v01"; "v02"]%string [("a00", ["v00"; "v02"]); ("a01", ["v01"])]%string false.
Definition ex_L := link_of [(0, "v00"); (1, "v01"); (2, "v02")]%string ex_cfg.
Definition ex_en := mkEnv ["a00"; "a01"]%string ["v00"; "v01"; "v02"]%string.
Definition ex_r := Net.run (dpop_proto ex_P) ex_sched.
Definition ex_tr := map (fun e => (e, ex_en)) [EAgentAdded "a00"; EAgentAdded "a01"; EDeploy; ERun]%string
                    ++ fifo_trace ex_L ex_en (snd ex_r).

Example c22_composed_nonvacuous :
  dpop_check ex_P = true /\ cons_shaped ex_P = true /\ link_ok ex_P ex_L ex_cfg /\
  complete ex_P (fst ex_r) /\ delivered ex_P ex_L (snd ex_r) ex_tr /\
  map fst ex_tr = [EAgentAdded "a00"; EAgentAdded "a01"; EDeploy; ERun;
                   EValue "a00" "v00" 0; EEnd "a00" "v00"; EValue "a01" "v01" 1; EEnd "a01" "v01";
                   EValue "a00" "v02" 0; EEnd "a00" "v02"]%string /\
  snd (step ex_cfg (run ex_cfg (removelast ex_tr)) ex_en (EEnd "a00" "v02"%string))
    = [OStop "a00"; OStop "a01"]%string /\
  reported_assignment (run ex_cfg ex_tr) = [("v00", 0); ("v01", 1); ("v02", 0)]%string /\
  reported_cost (dcop_of ex_L ex_P 10000) (run ex_cfg ex_tr) = Some (1, 1) /\
  dcop_cost ex_P (P_Dpop2.assignment ex_P (fst ex_r)) = 10001.
Proof.
  assert (Hinj : forall x y, In x (tree_ids ex_P) -> In y (tree_ids ex_P) ->
                 lk_name ex_L x = lk_name ex_L y -> x = y).
  { intros x y [<-|[<-|[<-|[]]]] [<-|[<-|[<-|[]]]]; vm_compute; congruence. }
  split; [vm_compute; reflexivity|]. split; [vm_compute; reflexivity|].
  split; [constructor; [exact Hinj|vm_compute; reflexivity]|].
  split; [apply completeb_complete; vm_compute; reflexivity|].
  split; [apply fifo_delivered; [exact Hinj|vm_compute; reflexivity|vm_compute; reflexivity]|].
  vm_compute. repeat split; reflexivity.
Qed.
