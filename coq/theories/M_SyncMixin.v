(* M_SyncMixin.v -- executable model of pydcop.infrastructure.computations.
   SynchronousComputationMixin (C08), plugged into the generic network of Net.v.
   The hosted algorithm is a parameter ([algo]); the mixin code modelled is
   __init__, _sync_message_handler, post_msg (cycle stamping + cycle_message_sent),
   start, _switch_cycle, with their three exceptions. Models only. *)
From PyDcop Require Import Base Net.

Section Sync.
  Context {A P : Type}.      (* algorithm state, algorithm payload *)

  (* a message on the wire: cycle stamp + algorithm payload (None = SynchronizationMsg) *)
  Record wmsg := mkW { stamp : nat; body : option P }.

  Record algo := mkAlgo {
    a_init  : node -> A;
    (* on_start: messages posted with post_msg, in order *)
    a_start : node -> A -> A * list (node * P);
    (* on_new_cycle(messages, cycle_id): (posted with post_msg inside, returned list) *)
    a_cycle : node -> A -> nat -> list (node * P) -> A * list (node * P) * list (node * P)
  }.

  Record sst := mkS {
    cur : nat;                        (* _current_cycle *)
    cyc : list (node * wmsg);         (* _cycle_messages, insertion order *)
    nxt : list (node * wmsg);         (* _next_cycle_messages *)
    sent : list node;                 (* cycle_message_sent *)
    ast : A;
    outlog : list (nat * node * option P)   (* ghost: every message posted (stamp, target, body) *)
  }.

  Inductive ev :=
  | EvCycle (n : node) (k : nat) (msgs : list (node * P))   (* on_new_cycle(msgs, k) called at n *)
  | EvRaise (n : node) (kind : Z).   (* 1 not a neighbour, 2 two messages in a cycle,
                                        3 invalid cycle, 4 ValueError in remaining.remove *)

  Variable nbrs : node -> list node.
  Variable G : algo.

  Definition nmem (x : node) (l : list node) : bool := existsb (Z.eqb x) l.
  Definition keymem (x : node) (l : list (node * wmsg)) : bool := existsb (fun p => Z.eqb x (fst p)) l.

  (* SynchronousComputationMixin.post_msg *)
  Definition post (s : sst) (t : node) (b : option P) : sst * (node * wmsg) :=
    (mkS (cur s) (cyc s) (nxt s) (sent s ++ [t]) (ast s) (outlog s ++ [(cur s, t, b)]),
     (t, mkW (cur s) b)).

  Fixpoint post_list (s : sst) (l : list (node * P)) : sst * list (node * wmsg) :=
    match l with
    | [] => (s, [])
    | (t, p) :: r =>
        let '(s1, m) := post s t (Some p) in
        let '(s2, ms) := post_list s1 r in (s2, m :: ms)
    end.

  (* for neighbor in l: if neighbor not in cycle_message_sent: post_msg(neighbor, Sync) *)
  Fixpoint post_syncs (s : sst) (l : list node) : sst * list (node * wmsg) :=
    match l with
    | [] => (s, [])
    | t :: r =>
        if nmem t (sent s) then post_syncs s r
        else let '(s1, m) := post s t None in
             let '(s2, ms) := post_syncs s1 r in (s2, m :: ms)
    end.

  Fixpoint remove_first (x : node) (l : list node) : list node :=
    match l with
    | [] => []
    | y :: r => if Z.eqb x y then r else y :: remove_first x r
    end.

  (* the loop over the returned messages of _switch_cycle; None = ValueError raised by
     remaining_neighbors.remove(target) (after that message has been posted) *)
  Fixpoint post_returned (s : sst) (remaining : list node) (l : list (node * P))
    : sst * list (node * wmsg) * option (list node) :=
    match l with
    | [] => (s, [], Some remaining)
    | (t, p) :: r =>
        let '(s1, m) := post s t (Some p) in
        if nmem t remaining then
          let '(s2, ms, rem) := post_returned s1 (remove_first t remaining) r in
          (s2, m :: ms, rem)
        else (s1, [m], None)
    end.

  Definition end_cycle (s : sst) : sst :=
    mkS (cur s) (nxt s) [] (sent s) (ast s) (outlog s).

  (* start() of the mixin, after the base class start(): on_start, then sync messages *)
  Definition sync_start (n : node) (s : sst) : sst * list (node * wmsg) * list ev :=
    let '(a', outs) := a_start G n (ast s) in
    let s0 := mkS (cur s) (cyc s) (nxt s) (sent s) a' (outlog s) in
    let '(s1, m1) := post_list s0 outs in
    let '(s2, m2) := post_syncs s1 (nbrs n) in
    (end_cycle s2, m1 ++ m2, []).

  Definition algo_messages (l : list (node * wmsg)) : list (node * P) :=
    flat_map (fun p => match body (snd p) with Some b => [(fst p, b)] | None => [] end) l.

  Definition switch_cycle (n : node) (s : sst) : sst * list (node * wmsg) * list ev :=
    let k := cur s in
    let msgs := algo_messages (cyc s) in
    let '(a', posted, returned) := a_cycle G n (ast s) k msgs in
    let s0 := mkS (S k) (cyc s) (nxt s) [] a' (outlog s) in
    let '(s1, m1) := post_list s0 posted in
    let '(s2, m2, rem) := post_returned s1 (nbrs n) returned in
    match rem with
    | None => (s2, m1 ++ m2, [EvCycle n k msgs; EvRaise n 4])
    | Some remaining =>
        let '(s3, m3) := post_syncs s2 remaining in
        (end_cycle s3, m1 ++ m2 ++ m3, [EvCycle n k msgs])
    end.

  (* _sync_message_handler *)
  Definition sync_recv (n : node) (s : sst) (src : node) (m : wmsg) : sst * list (node * wmsg) * list ev :=
    if negb (nmem src (nbrs n)) then (s, [], [EvRaise n 1])
    else if Nat.eqb (stamp m) (cur s) then
      if keymem src (cyc s) then (s, [], [EvRaise n 2])
      else
        let s1 := mkS (cur s) (cyc s ++ [(src, m)]) (nxt s) (sent s) (ast s) (outlog s) in
        if Nat.eqb (List.length (cyc s1)) (List.length (nbrs n)) then switch_cycle n s1
        else (s1, [], [])
    else if Nat.eqb (stamp m) (S (cur s)) then
      (mkS (cur s) (cyc s) (dict_set Z.eqb src m (nxt s)) (sent s) (ast s) (outlog s), [], [])
    else (s, [], [EvRaise n 3]).

  Definition sync_init (n : node) : sst := mkS 0 [] [] [] (a_init G n) [].

  Definition sync_proto : proto sst wmsg ev := mkProto sync_init sync_start sync_recv.
End Sync.

Arguments wmsg : clear implicits.
Arguments sst : clear implicits.
Arguments ev : clear implicits.
Arguments algo : clear implicits.

(* ------------------------------------------------------------------ correspondence
   The test algorithm used against the real mixin: a table-driven computation whose
   on_start / on_new_cycle send what the table [plan] says for (node, cycle); payloads are
   integers; it records nothing (state = unit). *)
(* one planned send: (target, fresh value, relay source).  relay source < 0: send a fresh
   message carrying the value; otherwise RE-SEND the message object received from that
   source in this round (its payload), or the fresh value if that source only sent a sync *)
Definition pent := (node * Z * Z)%type.
Definition plan_t := list (node * list (list pent * list pent)).

Definition plan_at (pl : plan_t) (n : node) (k : nat) : list pent * list pent :=
  match zlookup n pl with
  | Some rows => nth k rows ([], [])
  | None => ([], [])
  end.

Definition resolve (msgs : list (node * Z)) (e : pent) : node * Z :=
  let '(t, v, r) := e in
  if Z.ltb r 0 then (t, v)
  else match zlookup r msgs with Some x => (t, x) | None => (t, v) end.

(* row 0 = on_start (posted part only, nothing received yet), row k+1 = on_new_cycle k *)
Definition table_algo (pl : plan_t) : algo unit Z :=
  mkAlgo (fun _ => tt)
         (fun n _ => (tt, map (resolve []) (fst (plan_at pl n 0))))
         (fun n _ k msgs => (tt, map (resolve msgs) (fst (plan_at pl n (S k))),
                                 map (resolve msgs) (snd (plan_at pl n (S k))))).

Definition nbrs_of (g : list (node * list node)) (n : node) : list node :=
  match zlookup n g with Some l => l | None => [] end.

Inductive oev := OCycle (n : node) (k : Z) (msgs : list (node * Z)) | ORaise (n : node) (kind : Z).

Definition ev_to_o (e : ev Z) : oev :=
  match e with
  | EvCycle n k m => OCycle n (Z.of_nat k) m
  | EvRaise n k => ORaise n k
  end.

Definition oev_eqb (a b : oev) : bool :=
  match a, b with
  | OCycle n k m, OCycle n' k' m' => Z.eqb n n' && Z.eqb k k' && list_eqb (pair_eqb Z.eqb Z.eqb) m m'
  | ORaise n k, ORaise n' k' => Z.eqb n n' && Z.eqb k k'
  | _, _ => false
  end.

Record case := mkCase {
  c_graph : list (node * list node);
  c_plan : plan_t;
  c_sched : list (@action);
  c_events : list oev;                        (* observed on_new_cycle calls / exceptions, in order *)
  c_cycles : list (node * Z);                 (* observed final _current_cycle of every node *)
  c_inflight : list (node * node * list (Z * option Z))   (* observed final channel contents *)
}.

Definition wmsg_obs (m : wmsg Z) : Z * option Z := (Z.of_nat (stamp m), body m).

Definition check_case (c : case) : bool :=
  let P := sync_proto (nbrs_of (c_graph c)) (table_algo (c_plan c)) in
  let '(cf, evs) := run P (c_sched c) in
  list_eqb oev_eqb (map ev_to_o evs) (c_events c)
  && forallb (fun nk => Z.eqb (Z.of_nat (cur (w_st (nodes cf (fst nk))))) (snd nk)) (c_cycles c)
  && forallb (fun q => let '(s, d, l) := q in
        list_eqb (pair_eqb Z.eqb (option_eqb Z.eqb)) (map wmsg_obs (chan cf s d)) l) (c_inflight c).
