(* P_Repr2.v -- C15 deepening, part 1: the two arithmetic facts behind the tuple decode
   (int(str i) = i for the decimal rendering; sorting an increasing list is the identity),
   the json step / decode of a tuple-dict for ALL lengths, values that are their own JSON
   image, and dictionary helper lemmas used by P_Repr3.v (the general round-trip theorem). *)
From PyDcop Require Import Base P_Base M_AgentDef M_Repr P_Repr.
From Coq Require Import DecimalString Decimal DecimalZ DecimalPos DecimalFacts.
Open Scope string_scope.
Open Scope list_scope.
Arguments MOD : simpl never.
Arguments QUAL : simpl never.

(* ---------- int(str(i)) = i ---------- *)
Lemma Z_of_str_of_Z : forall z, Z_of_str (str_of_Z z) = Some z.
Proof.
  intros z. unfold Z_of_str, str_of_Z. rewrite NilZero.isi.
  - now rewrite DecimalZ.of_to.
  - destruct z; simpl; try discriminate. intros H. injection H as H.
    now apply Unsigned.to_uint_nonnil in H.
  - destruct z; simpl; try discriminate. intros H. injection H as H.
    now apply Unsigned.to_uint_nonnil in H.
Qed.

Lemma str_of_Z_inj : forall a b, str_of_Z a = str_of_Z b -> a = b.
Proof.
  intros a b H. pose proof (Z_of_str_of_Z a) as Ha. rewrite H, Z_of_str_of_Z in Ha. now injection Ha.
Qed.

Lemma str_of_Z_not_reserved : forall z, reserved (str_of_Z z) = false.
Proof.
  intros z. unfold reserved. apply orb_false_iff. split; apply String.eqb_neq; intros H;
    pose proof (Z_of_str_of_Z z) as Hz; rewrite H in Hz; vm_compute in Hz; discriminate.
Qed.

Lemma str_of_Z_neq_MOD z : String.eqb (str_of_Z z) MOD = false.
Proof. pose proof (str_of_Z_not_reserved z) as H. unfold reserved in H. now apply orb_false_iff in H. Qed.
Lemma str_of_Z_neq_QUAL z : String.eqb (str_of_Z z) QUAL = false.
Proof. pose proof (str_of_Z_not_reserved z) as H. unfold reserved in H. now apply orb_false_iff in H. Qed.

(* ---------- sorting an increasing list is the identity ---------- *)
Lemma isort_increasing {A} (l : list (Z * A)) :
  strictly_increasing (map fst l) = true ->
  isort (fun a b => Z.leb (fst a) (fst b)) l = l.
Proof.
  induction l as [|[x a] r IH]; intros H; [reflexivity|].
  cbn [isort fold_right]. change (fold_right _ [] r) with (isort (fun a b : Z * A => Z.leb (fst a) (fst b)) r).
  destruct r as [|[y b] r'].
  - reflexivity.
  - cbn [map fst strictly_increasing] in H. apply andb_true_iff in H as [H1 H2].
    rewrite (IH H2). cbn [insert_sorted fst]. apply Z.ltb_lt in H1.
    assert (Z.leb x y = true) as -> by (apply Z.leb_le; lia). reflexivity.
Qed.

Lemma enumerate_fst {A} (l : list A) i : map fst (enumerate_from i l) = map fst (enumerate_from i (map (fun _ => tt) l)).
Proof. revert i. induction l as [|x r IH]; intros i; cbn; auto. f_equal. apply IH. Qed.

Lemma enumerate_increasing {A} (l : list A) i : strictly_increasing (map fst (enumerate_from i l)) = true.
Proof.
  revert i. induction l as [|x r IH]; intros i; [reflexivity|].
  destruct r as [|y r']; [reflexivity|].
  specialize (IH (i + 1)%Z). cbn [enumerate_from map fst strictly_increasing] in *.
  rewrite IH. assert (Z.ltb i (i + 1) = true) as -> by (apply Z.ltb_lt; lia). reflexivity.
Qed.

Lemma enumerate_lower {A} (l : list A) i : Forall (fun j => (i <= j)%Z) (map fst (enumerate_from i l)).
Proof.
  revert i. induction l as [|x r IH]; intros i; cbn; constructor; [lia|].
  eapply Forall_impl; [|apply (IH (i + 1)%Z)]. cbn. intros; lia.
Qed.

(* ---------- the keys of a tuple-dict after the JSON step are pairwise distinct ---------- *)
Lemma str_keys_fresh a (zs : list Z) :
  Forall (fun j => (a < j)%Z) zs ->
  existsb (String.eqb (str_of_Z a)) (map str_of_Z zs ++ [MOD; QUAL]) = false.
Proof.
  induction 1 as [|j r Hj Hr IH]; cbn [map List.app existsb].
  - now rewrite str_of_Z_neq_MOD, str_of_Z_neq_QUAL.
  - rewrite IH, orb_false_r. apply String.eqb_neq. intros E. apply str_of_Z_inj in E. lia.
Qed.

Lemma tuple_keys_nodup {A} (l : list A) i :
  nodupb String.eqb (map str_of_Z (map fst (enumerate_from i l)) ++ [MOD; QUAL]) = true.
Proof.
  revert i. induction l as [|x r IH]; intros i; [reflexivity|].
  cbn [enumerate_from map fst List.app nodupb]. rewrite IH, andb_true_r. apply negb_true_iff.
  apply str_keys_fresh. eapply Forall_impl; [|apply (enumerate_lower r (i + 1)%Z)]. cbn. intros; lia.
Qed.

(* ---------- one unfolding step of the three passes on lists ---------- *)
Lemma seq_list_ok (g : py -> res py) (xs ys : list py) :
  map g xs = map Ok ys -> mapM (fun x : res py => x) (map g xs) = Ok ys.
Proof. intros ->. apply mapM_ok. Qed.

(* ---------- tuple: json step ---------- *)
Definition tuple_repr (ss : list py) : py :=
  PDict (map (fun ix => (PInt (fst ix), snd ix)) (enumerate_from 0 ss) ++ hdr "builtins" "tuple").
Definition tuple_json (rs : list py) : py :=
  PDict (skeys (map (fun ix => (str_of_Z (fst ix), snd ix)) (enumerate_from 0 rs)
                ++ [(MOD, PStr "builtins"); (QUAL, PStr "tuple")])).

Lemma enumerate_json nan (ss rs : list py) i :
  map (json_rt nan) ss = map Ok rs ->
  mapM (fun kv : py * res py => bind (json_key (fst kv)) (fun k => bind (snd kv) (fun r => Ok (k, r))))
       (map (fun kv : py * py => (fst kv, json_rt nan (snd kv)))
            (map (fun ix : Z * py => (PInt (fst ix), snd ix)) (enumerate_from i ss) ++ hdr "builtins" "tuple"))
  = Ok (map (fun ix => (str_of_Z (fst ix), snd ix)) (enumerate_from i rs)
        ++ [(MOD, PStr "builtins"); (QUAL, PStr "tuple")]).
Proof.
  revert rs i. induction ss as [|s ss IH]; intros [|r rs] i E; try discriminate.
  - reflexivity.
  - cbn [map] in E. injection E as E1 E2.
    cbn [enumerate_from map List.app fst snd]. rewrite mapM_cons. cbn [fst snd json_key bind].
    rewrite E1. cbn [bind]. rewrite (IH rs (i + 1)%Z E2). reflexivity.
Qed.

Lemma enumerate_keys {A B} (l : list A) (l' : list B) i :
  List.length l = List.length l' -> map fst (enumerate_from i l) = map fst (enumerate_from i l').
Proof.
  revert l' i. induction l as [|x r IH]; intros [|y r'] i H; try discriminate; auto.
  cbn. f_equal. apply IH. now injection H.
Qed.

Lemma tuple_json_ok nan ss rs :
  map (json_rt nan) ss = map Ok rs -> json_rt nan (tuple_repr ss) = Ok (tuple_json rs).
Proof.
  intros E. unfold tuple_repr, tuple_json. cbn [json_rt]. rewrite (enumerate_json nan ss rs 0 E). cbn [bind].
  rewrite map_app, map_map. cbn [map fst].
  change (map (fun x : Z * py => str_of_Z (fst x)) (enumerate_from 0 rs))
    with (map (fun x : Z * py => str_of_Z (fst x)) (enumerate_from 0 rs)).
  rewrite <- (map_map fst str_of_Z). rewrite tuple_keys_nodup. reflexivity.
Qed.

(* ---------- tuple: decode ---------- *)
Lemma dget_tuple_keys {V} k (g : Z * V -> V) (l : list (Z * V)) rest :
  (forall z, String.eqb k (str_of_Z z) = false) ->
  dget k (map (fun ix => (PStr (str_of_Z (fst ix)), g ix)) l ++ rest) = dget k rest.
Proof.
  intros Hk. induction l as [|[i a] r IH]; cbn [map List.app dget fst]; auto. now rewrite Hk.
Qed.

Lemma eqb_QUAL_str z : String.eqb QUAL (str_of_Z z) = false.
Proof. rewrite String.eqb_sym. apply str_of_Z_neq_QUAL. Qed.
Lemma eqb_MOD_str z : String.eqb MOD (str_of_Z z) = false.
Proof. rewrite String.eqb_sym. apply str_of_Z_neq_MOD. Qed.

Lemma decode_tuple_entries (rs vs : list py) i (tl : list (py * res py)) :
  map from_repr rs = map Ok vs ->
  (forall kv, In kv tl -> match fst kv with PStr s => reserved s = true | _ => False end) ->
  mapM (fun kv : py * res py => bind (tuple_index (fst kv)) (fun j => Ok (j, snd kv)))
       (filter (fun kv : py * res py => match fst kv with PStr s => negb (reserved s) | _ => true end)
               (map (fun ix : Z * py => (PStr (str_of_Z (fst ix)), from_repr (snd ix))) (enumerate_from i rs) ++ tl))
  = Ok (map (fun ix : Z * py => (fst ix, Ok (snd ix))) (enumerate_from i vs)).
Proof.
  intros E Htl. revert vs i E. induction rs as [|r rs IH]; intros [|v vs] i E; try discriminate.
  - cbn [enumerate_from map List.app].
    assert (filter (fun kv : py * res py => match fst kv with PStr s => negb (reserved s) | _ => true end) tl = []) as ->.
    { clear -Htl. induction tl as [|[k a] tl IH]; [reflexivity|]. cbn [filter fst].
      pose proof (Htl (k, a) (or_introl eq_refl)) as H. cbn [fst] in H. destruct k; try contradiction.
      rewrite H. cbn. apply IH. intros kv Hkv. apply Htl. now right. }
    reflexivity.
  - cbn [map] in E. injection E as E1 E2.
    cbn [enumerate_from map List.app filter fst snd]. rewrite str_of_Z_not_reserved. cbn [negb].
    rewrite mapM_cons. cbn [fst snd tuple_index]. rewrite Z_of_str_of_Z. cbn [bind].
    rewrite (IH vs (i + 1)%Z E2). rewrite E1. reflexivity.
Qed.

Lemma from_repr_tuple_json rs vs :
  map from_repr rs = map Ok vs -> from_repr (tuple_json rs) = Ok (PTuple vs).
Proof.
  intros E. unfold tuple_json. rewrite from_repr_dict. unfold decode_dict, skeys.
  rewrite !map_app, !map_map. cbn [map fst snd].
  rewrite (dget_tuple_keys QUAL (fun ix => snd ix)); [|apply eqb_QUAL_str].
  rewrite (dget_tuple_keys MOD (fun ix => snd ix)); [|apply eqb_MOD_str].
  cbn [dget]. change (String.eqb QUAL MOD) with false. change (String.eqb QUAL QUAL) with true.
  change (String.eqb MOD MOD) with true. cbv iota.
  change (String.eqb "tuple" "tuple") with true. cbv iota.
  unfold decode_tuple.
  rewrite (decode_tuple_entries rs vs 0 _ E).
  - cbn [bind]. rewrite isort_increasing.
    + rewrite map_map. cbn [fst]. change (map (fun x : Z * py => fst x) (enumerate_from 0 vs)) with (map fst (enumerate_from 0 vs)).
      rewrite enumerate_increasing. rewrite map_map. cbn [snd].
      unfold seqM. rewrite <- (map_map snd Ok). rewrite mapM_ok. cbn [bind].
      f_equal. f_equal. clear. generalize 0%Z. induction vs as [|v r IH]; intros i; cbn; auto. f_equal. apply IH.
    + rewrite map_map. cbn [fst]. apply enumerate_increasing.
  - intros kv [<-|[<-|[]]]; reflexivity.
Qed.

(* T of a tuple from T of its items (any predicate S that gives T on the items) *)
Lemma tuple_T nan (l ss rs : list py) :
  map simple_repr l = map Ok ss -> map (json_rt nan) ss = map Ok rs -> map from_repr rs = map Ok l ->
  T nan (PTuple l) (tuple_repr ss) (tuple_json rs).
Proof.
  intros E1 E2 E3. repeat split.
  - cbn [simple_repr]. rewrite E1, mapM_ok. reflexivity.
  - now apply tuple_json_ok.
  - now apply from_repr_tuple_json.
Qed.

(* ---------- values that are their own repr and their own JSON image ---------- *)
(* None / bool / int / str / float (finite when the encoder is strict), lists of such, dicts of such
   with pairwise distinct string keys: what a namedtuple field, AlgorithmDef.params,
   ExpressionFunction.fixed_vars, the costs of a MaxSumMessage ... may hold, because the code
   transmits these positions WITHOUT calling simple_repr / from_repr on them. *)
Fixpoint plain (nan : bool) (v : py) : bool :=
  match v with
  | PNone | PBool _ | PInt _ | PStr _ => true
  | PFloat r => float_ok nan r
  | PList l => forallb (plain nan) l
  | PDict d =>
      forallb (fun kv => is_str (fst kv)) d
      && nodupb String.eqb (map (fun kv => key_string (fst kv)) d)
      && forallb (fun kv => plain nan (snd kv)) d
  | _ => false
  end.

(* additionally not mistaken for an object by from_repr *)
Fixpoint plain_dec (v : py) : bool :=
  match v with
  | PList l => forallb plain_dec l
  | PDict d =>
      negb (existsb (String.eqb QUAL) (map (fun kv => key_string (fst kv)) d)
            && existsb (String.eqb MOD) (map (fun kv => key_string (fst kv)) d))
      && forallb (fun kv => plain_dec (snd kv)) d
  | _ => true
  end.

Lemma plain_safe nan v : plain nan v = true -> plain_dec v = true -> safe nan v = true.
Proof.
  induction v using py_ind'; cbn [plain plain_dec safe]; intros HP HD; auto; try discriminate.
  - revert HP HD. induction H as [|x l Hx Hl IH]; cbn [forallb]; auto. intros HP HD.
    apply andb_true_iff in HP as [? ?]. apply andb_true_iff in HD as [? ?]. apply andb_true_iff; auto.
  - apply andb_true_iff in HP as [HP P3]. apply andb_true_iff in HP as [P1 P2].
    apply andb_true_iff in HD as [D1 D2]. rewrite P1, P2, D1. cbn [andb].
    revert P3 D2. clear -H. induction H as [|x l Hx Hl IH]; cbn [forallb]; auto. intros HP HD.
    apply andb_true_iff in HP as [? ?]. apply andb_true_iff in HD as [? ?]. apply andb_true_iff; auto.
Qed.

Lemma plain_repr nan v : plain nan v = true -> simple_repr v = Ok v.
Proof.
  induction v using py_ind'; cbn [plain]; intros HP; try discriminate; try reflexivity.
  - cbn [simple_repr].
    assert (map simple_repr l = map Ok l) as ->.
    { revert HP. induction H as [|x l Hx Hl IH]; cbn [forallb map]; auto. intros HP.
      apply andb_true_iff in HP as [? ?]. rewrite Hx, IH; auto. }
    rewrite mapM_ok. reflexivity.
  - apply andb_true_iff in HP as [HP P3]. cbn [simple_repr].
    assert (map (fun kv : py * py => (fst kv, simple_repr (snd kv))) d = map (fun kv => (fst kv, Ok (snd kv))) d) as ->.
    { revert P3. clear -H. induction H as [|x l Hx Hl IH]; cbn [forallb map]; auto. intros HP.
      apply andb_true_iff in HP as [? ?]. rewrite Hx, IH; auto. }
    rewrite mapM_snd_ok. reflexivity.
Qed.

Lemma plain_json nan v : plain nan v = true -> json_rt nan v = Ok v.
Proof.
  induction v using py_ind'; cbn [plain]; intros HP; try discriminate; try reflexivity.
  - apply (scalar_T nan (PFloat r)). exact HP.
  - cbn [json_rt].
    assert (map (json_rt nan) l = map Ok l) as ->.
    { revert HP. induction H as [|x l Hx Hl IH]; cbn [forallb map]; auto. intros HP.
      apply andb_true_iff in HP as [? ?]. rewrite Hx, IH; auto. }
    rewrite mapM_ok. reflexivity.
  - apply andb_true_iff in HP as [HP P3]. apply andb_true_iff in HP as [P1 P2].
    rewrite (str_keys_skeys d P1).
    set (e := map (fun kv : py * py => (key_string (fst kv), snd kv)) d).
    apply json_dict.
    + unfold e. rewrite !map_map. cbn [fst snd].
      revert P3. clear -H. induction H as [|x l Hx Hl IH]; cbn [forallb map]; auto. intros HP.
      apply andb_true_iff in HP as [? ?]. rewrite Hx, IH; auto.
    + unfold e. rewrite map_map. exact P2.
Qed.

Lemma plain_list_json nan l : forallb (plain nan) l = true -> map (json_rt nan) l = map Ok l.
Proof.
  induction l as [|x r IH]; cbn [forallb map]; auto. intros H. apply andb_true_iff in H as [H1 H2].
  rewrite (plain_json nan x H1), IH; auto.
Qed.

Lemma plain_from_repr nan v : plain nan v = true -> plain_dec v = true -> from_repr v = Ok v.
Proof.
  intros HP HD. destruct (safe_T nan v (plain_safe nan v HP HD)) as (s & r & E1 & E2 & E3).
  rewrite (plain_repr nan v HP) in E1. injection E1 as <-.
  rewrite (plain_json nan v HP) in E2. injection E2 as <-. exact E3.
Qed.
