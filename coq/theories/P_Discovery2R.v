(* P_Discovery2R.v -- C20 deepening, part 3: the replica sub-protocol (register_replica /
   unregister_replica, subscribe_replica / unsubscribe_replica), for EVERY history of operations.
   Guard (negation of finding C20-replica-of-unknown-computation): a replica handler never finds the
   computation unknown -- the subscriber when it is told of a replica, the directory when the
   subscriber subscribes. *)
From PyDcop Require Import Base Net M_Discovery P_Discovery P_Discovery2.
From Coq Require Import Lia.

Local Arguments bind : simpl never.

(* agent g is listed as a replica holder of r *)
Definition vr (d : dstate) (r g : Z) : option unit := if zmem g (dreps d r) then Some tt else None.
Definition tellsr (r g : Z) (m : msg) : option (option unit) :=
  match m with
  | MPubRep r' g' b => if (r' =? r) && (g' =? g) then Some (if b then Some tt else None) else None
  | _ => None
  end.
(* own publications after which the statement holds again: the removal of (r,g), the un-subscription *)
Definition aboutr (r g : Z) (_ : unit) (m : msg) : bool :=
  match m with
  | MPubRep r' g' false => (r' =? r) && (g' =? g)
  | MSubRep r' false => r' =? r
  | _ => false
  end.

Definition JR (a : Z) (st : nst) (d : dstate) (N O : list msg) : Prop :=
  forall r g, Jg (tellsr r g) (aboutr r g) (In a (Sr st r)) (vr (n_disc st) r g) (vr d r g) N O.

Lemma vr_some d r g : vr d r g = Some tt <-> In g (dreps d r).
Proof. unfold vr. destruct (zmem g (dreps d r)) eqn:E; rewrite <- zmem_In, E; split; auto; discriminate. Qed.

Lemma vr_eq d d' r g : (In g (dreps d' r) <-> In g (dreps d r)) -> vr d' r g = vr d r g.
Proof.
  intros H. unfold vr. destruct (zmem g (dreps d r)) eqn:E.
  - apply zmem_In in E. apply H in E. apply zmem_In in E. now rewrite E.
  - destruct (zmem g (dreps d' r)) eqn:E'; auto. apply zmem_In in E'. apply H in E'. apply zmem_In in E'. congruence.
Qed.

Lemma vr_same d d' r g : d_reps d' = d_reps d -> vr d' r g = vr d r g.
Proof. intros E. unfold vr, dreps. now rewrite E. Qed.

(* ---- what the Discovery methods do to the replica table *)
Lemma reg_agent_reps s a ad p : d_reps (rS (d_register_agent s a ad p)) = d_reps s.
Proof. unfold d_register_agent. dm; reflexivity. Qed.
Lemma register_agents_reps l : forall s, d_reps (rS (register_agents s l)) = d_reps s.
Proof.
  induction l as [|[k v] r IH]; intros s; simpl; auto.
  rewrite bind_S, reg_agent_X, IH. apply reg_agent_reps.
Qed.
Lemma unregister_all_reps l a : forall s, d_reps (rS (unregister_all s l a)) = d_reps s.
Proof.
  induction l as [|c r IH]; intros s; simpl; auto.
  rewrite bind_S. destruct (rX (d_unregister_computation s c (Some a) false)); [|rewrite IH]; apply unreg_comp_reps.
Qed.
Lemma unreg_agent_reps s a p : d_reps (rS (d_unregister_agent s a p)) = d_reps s.
Proof.
  unfold d_unregister_agent.
  match goal with |- context[bind ?r _] => set (r1 := r) end.
  assert (H1 : d_reps (rS r1) = d_reps s).
  { subst r1. dm; try reflexivity. apply unregister_all_reps. }
  rewrite bind_S. destruct (rX r1); auto.
  dm; simpl; rewrite ?H1; auto.
Qed.
Lemma reg_comp_reps s c ag addr p : d_reps (rS (d_register_computation s c ag addr p)) = d_reps s.
Proof.
  unfold d_register_computation. destruct (is_none addr && _); [reflexivity|].
  rewrite bind_S.
  match goal with |- context[rX ?r] => set (r2 := r) end.
  assert (HX : rX r2 = None) by (subst r2; dm; simpl; auto; apply reg_agent_X).
  rewrite HX.
  assert (H2 : d_reps (rS r2) = d_reps s).
  { subst r2. dm; simpl; rewrite ?reg_agent_reps; reflexivity. }
  dm; simpl; exact H2.
Qed.

Lemma dreps_zset d r l r' : get_or_nil r' (zset r l (d_reps d)) = if r' =? r then l else dreps d r'.
Proof.
  unfold get_or_nil, dreps. destruct (r' =? r) eqn:E.
  - apply Z.eqb_eq in E. subst. now rewrite zlookup_zset_same.
  - apply Z.eqb_neq in E. now rewrite zlookup_zset_other.
Qed.

(* register_replica: refused (unknown computation) or the bit is set *)
Lemma reg_rep_spec s r g p :
  (zmemk r (d_comps s) = false /\ rS (d_register_replica s r g p) = s /\ rO (d_register_replica s r g p) = [])
  \/ (zmemk r (d_comps s) = true /\ rX (d_register_replica s r g p) = None /\
      rO (d_register_replica s r g p) = (if p then [MPubRep r g true] else []) /\
      (forall r' g', In g' (dreps (rS (d_register_replica s r g p)) r') <-> (r' = r /\ g' = g) \/ In g' (dreps s r')) /\
      d_reps (rS (d_register_replica s r g p)) = zset r (set_add g (dreps s r)) (d_reps s)).
Proof.
  unfold d_register_replica. destruct (zmemk r (d_comps s)) eqn:Ek; simpl; [right|left; auto].
  split; auto.
  assert (Hd : forall r' g', In g' (get_or_nil r' (zset r (set_add g (get_or_nil r (d_reps s))) (d_reps s)))
                        <-> (r' = r /\ g' = g) \/ In g' (dreps s r')).
  { intros r' g'. rewrite dreps_zset. destruct (r' =? r) eqn:E.
    - apply Z.eqb_eq in E. subst. rewrite set_add_In. unfold dreps. intuition.
    - apply Z.eqb_neq in E. intuition. }
  dm; simpl; repeat split; auto; try apply Hd; try (intros H; apply Hd; exact H).
Qed.

Lemma unreg_rep_spec s r g p :
  let res := d_unregister_replica s r g p in
  (forall r' g', In g' (dreps (rS res) r') -> In g' (dreps s r')) /\
  (forall r' g', (r', g') <> (r, g) -> In g' (dreps s r') -> In g' (dreps (rS res) r')) /\
  ((forall r', ssorted (dreps s r')) -> ~ In g (dreps (rS res) r)) /\
  (rS res = s \/ rO res = if p then [MPubRep r g false] else []).
Proof.
  simpl. unfold d_unregister_replica. destruct (zlookup r (d_reps s)) as [cur|] eqn:El; simpl.
  - destruct (zmem g cur) eqn:Em; simpl.
    + assert (Ecur : dreps s r = cur) by (unfold dreps, get_or_nil; now rewrite El).
      repeat split; auto.
      * intros r' g'. unfold dreps at 1. simpl. rewrite dreps_zset. destruct (r' =? r) eqn:E; auto.
        apply Z.eqb_eq in E. subst r'. rewrite Ecur. apply set_remove_In.
      * intros r' g' Hne. unfold dreps at 2. simpl. rewrite dreps_zset. destruct (r' =? r) eqn:E; auto.
        apply Z.eqb_eq in E. subst r'. rewrite Ecur. intros H. apply set_remove_other; auto. congruence.
      * intros Hs. unfold dreps at 1. simpl. rewrite dreps_zset, Z.eqb_refl. apply set_remove_notin.
        rewrite <- Ecur. apply Hs.
    + repeat split; auto. intros _. unfold dreps, get_or_nil. rewrite El. intros H. apply zmem_In in H. congruence.
  - repeat split; auto. intros _. unfold dreps, get_or_nil. rewrite El. auto.
Qed.

Lemma unsub_rep_spec s r cb :
  d_reps (rS (d_unsubscribe_rep s r cb)) = d_reps s \/
  (In (MSubRep r false) (rO (d_unsubscribe_rep s r cb)) /\
   forall r', r' <> r -> dreps (rS (d_unsubscribe_rep s r cb)) r' = dreps s r').
Proof.
  unfold d_unsubscribe_rep. destruct (unsub_cbs (d_rcbs s) r cb) as [[t snd0] err]. destruct snd0; [|left; reflexivity].
  simpl. destruct (zmemk r (d_reps s)); [|left; reflexivity].
  right. simpl. split; auto. intros r' Hne. unfold dreps. simpl. unfold get_or_nil. now rewrite zlookup_zdel_other.
Qed.

Lemma subop_reps s o : is_subop o = true -> (forall r cb, o <> OpUnsubRep r cb) -> d_reps (rS (do_op s o)) = d_reps s.
Proof.
  destruct o; try discriminate; intros _ Hn; simpl;
    unfold d_subscribe_agent, d_unsubscribe_agent, d_subscribe_all, d_subscribe_comp, d_unsubscribe_comp,
           d_subscribe_rep, sub_cbs; dm; try reflexivity.
  exfalso. eapply Hn; eauto.
Qed.

(* ---- the subscriber's side *)
Lemma agent_effect_r s m r g :
  (forall r' g', m = MPubRep r' g' true -> zmemk r' (d_comps s) = true) ->
  let res := disc_recv s m in
  match tellsr r g m with
  | Some (Some u) => vr (rS res) r g = Some u
  | Some None => True
  | None => vr (rS res) r g = vr s r g \/ (forall w, vr s r g = Some w -> existsb (aboutr r g w) (rO res) = true)
  end.
Proof.
  intros HG.
  assert (RR : forall r' g' p, vr (rS (d_register_replica s r' g' p)) r g = vr s r g \/
                 (forall w, vr s r g = Some w -> existsb (aboutr r g w) (rO (d_register_replica s r' g' p)) = true)).
  { intros r' g' p. destruct (reg_rep_spec s r' g' p) as [(_ & E & _)|(_ & _ & _ & H & _)]; [left; now rewrite E|].
    destruct (vr s r g) as [[]|] eqn:E; [|right; intros; discriminate].
    left. apply vr_some. apply H. right. now apply vr_some. }
  assert (UR : forall r' g', vr (rS (d_unregister_replica s r' g' true)) r g = vr s r g \/
                 (forall w, vr s r g = Some w -> existsb (aboutr r g w) (rO (d_unregister_replica s r' g' true)) = true)).
  { intros r' g'. destruct (unreg_rep_spec s r' g' true) as (H1 & H2 & _ & H4). simpl in *.
    destruct (Z.eq_dec r' r) as [->|Hr]; [destruct (Z.eq_dec g' g) as [->|Hg]|].
    - destruct H4 as [H4|H4]; [left; now rewrite H4|]. right. intros w _. rewrite H4. simpl. now rewrite !Z.eqb_refl.
    - left. apply vr_eq. split; [apply H1|apply H2; congruence].
    - left. apply vr_eq. split; [apply H1|apply H2; congruence]. }
  destruct m as [o|y ad|l|y|y b|c g' addr|c ag|c b|r' g' b|r' b]; cbn [tellsr disc_recv].
  - destruct o as [y ad|y|c g' addr|c g'|r' g'|r' g'|y cb os|y cb|cb|c cb os|c cb|r' cb os|r' cb];
      try (left; apply vr_same; apply subop_reps; [reflexivity|intros; discriminate]); simpl.
    + left. apply vr_same. apply reg_agent_reps.
    + left. apply vr_same. apply unreg_agent_reps.
    + left. apply vr_same. apply reg_comp_reps.
    + left. apply vr_same. apply unreg_comp_reps.
    + apply RR.
    + apply UR.
    + destruct (unsub_rep_spec s r' cb) as [E|[Hin Ho]]; [left; now apply vr_same|].
      destruct (Z.eq_dec r' r) as [->|Hne].
      * right. intros w _. apply existsb_exists. exists (MSubRep r false). split; auto. simpl. apply Z.eqb_refl.
      * left. unfold vr. rewrite Ho; auto.
  - left. apply vr_same. apply reg_agent_reps.
  - left. apply vr_same. apply register_agents_reps.
  - left. apply vr_same. apply unreg_agent_reps.
  - left; reflexivity.
  - left. apply vr_same. apply reg_comp_reps.
  - left. apply vr_same. apply unreg_comp_reps.
  - left; reflexivity.
  - destruct ((r' =? r) && (g' =? g)) eqn:E.
    + apply andb_true_iff in E as [E1 E2]. apply Z.eqb_eq in E1, E2. subst r' g'.
      destruct b; auto. cbn [disc_recv].
      destruct (reg_rep_spec s r g false) as [(Hk & _)|(_ & _ & _ & H & _)].
      * rewrite (HG r g eq_refl) in Hk. discriminate.
      * apply vr_some. apply H. auto.
    + destruct b; cbn [disc_recv]; [apply RR|].
      left. destruct (unreg_rep_spec s r' g' false) as (H1 & H2 & _). simpl in *.
      apply vr_eq. split; [apply H1|apply H2].
      intros Heq. inversion Heq; subst. rewrite !Z.eqb_refl in E. discriminate.
  - left; reflexivity.
Qed.

Definition rep_guard_a (s : node) (m : msg) (d : dstate) : Prop :=
  s = 0 -> forall r g, m = MPubRep r g true -> zmemk r (d_comps d) = true.

Lemma JR_agent a st s m q d N O :
  (s = 0 -> N = m :: q) -> (s <> 0 -> is_op m = true) -> rep_guard_a s m d ->
  JR a st d N O ->
  JR a st (rS (disc_recv d m)) (if 0 =? s then q else N) (O ++ rO (disc_recv d m)).
Proof.
  intros H0 Hop HG HJ r g. eapply Jg_agent; [| apply (agent_effect_r d m r g) | apply HJ].
  - destruct (0 =? s) eqn:E.
    + left. apply H0. apply Z.eqb_eq in E. auto.
    + right. split; auto. apply Z.eqb_neq in E. destruct m; try (discriminate (Hop (not_eq_sym E))). reflexivity.
  - intros r' g' ->. destruct (Z.eq_dec s 0) as [Hs|Hs]; [eapply HG; eauto|]. discriminate (Hop Hs).
Qed.

Lemma zlookup_app_new {V} k (v : V) l : zlookup k l = None -> zlookup k (l ++ [(k, v)]) = Some v.
Proof.
  unfold zlookup. induction l as [|[k' v'] t IH]; simpl; [now rewrite Z.eqb_refl|].
  destruct (k =? k'); [discriminate|auto].
Qed.

(* ---- the directory's side *)
Definition BR (st : nst) : Prop := forall r, ssorted (dreps (n_disc st) r).

Lemma dir_recv_reps st s m :
  match m with
  | MPubRep _ _ _ => True
  | MSubRep r true => forall r', dreps (n_disc (rS (dir_recv st s m))) r' = dreps (n_disc st) r'
  | _ => d_reps (n_disc (rS (dir_recv st s m))) = d_reps (n_disc st)
  end.
Proof.
  destruct m as [o|y ad|l|y|y b|c g addr|c ag|c b|r g b|r b]; simpl; auto.
  - unfold dir_register_agent. pose proof (reg_agent_reps (n_disc st) y ad false) as H.
    destruct (d_register_agent (n_disc st) y ad false) as [[[d1 o1] e1] x1]. simpl in *. auto.
  - destruct (dir_unreg_agent_spec st y) as [(_ & E & _)|(_ & _ & E & _)]; simpl in *.
    + now rewrite E.
    + exact E.
  - destruct b; [destruct (y =? STAR)|]; simpl; auto.
  - unfold dir_register_computation. pose proof (reg_comp_reps (n_disc st) c (Some g) addr false) as H.
    destruct (d_register_computation (n_disc st) c (Some g) addr false) as [[[d1 o1] e1] [x1|]]; simpl in *; auto.
    destruct (match addr with Some x => Some x | None => _ end); simpl; auto.
  - destruct (dir_unreg_comp_spec st c ag) as (C & _). unfold compdel in C. simpl in C. apply C.
  - destruct b; simpl; auto.
  - destruct b; simpl; auto. destruct (zmemk r (d_comps (n_disc st))); simpl; auto.
    destruct (zmemk r (d_reps (n_disc st))) eqn:Ek; simpl; auto.
    intros r'. unfold dreps, get_or_nil. simpl. destruct (Z.eq_dec r' r) as [->|Hne].
    + apply zmemk_false in Ek. rewrite Ek. now rewrite zlookup_app_new.
    + now rewrite zlookup_app_other.
Qed.

Lemma BR_recv st s m : BR st -> BR (rS (dir_recv st s m)).
Proof.
  intros HB. pose proof (dir_recv_reps st s m) as HR. unfold BR in *.
  destruct m as [o|y ad|l|y|y b|c g addr|c ag|c b|r g b|r b];
    try (intros r'; unfold dreps; rewrite HR; apply HB).
  - destruct b.
    + assert (Est : n_disc (rS (dir_recv st s (MPubRep r g true))) = rS (d_register_replica (n_disc st) r g false)).
      { simpl. destruct (d_register_replica (n_disc st) r g false) as [[[d1 o1] e1] [x1|]]; reflexivity. }
      intros r'. rewrite Est.
      destruct (reg_rep_spec (n_disc st) r g false) as [(_ & E & _)|(_ & _ & _ & _ & E)]; unfold dreps; rewrite E; [apply HB|].
      rewrite dreps_zset. destruct (r' =? r); [apply set_add_sorted|]; apply HB.
    + assert (Est : n_disc (rS (dir_recv st s (MPubRep r g false))) = rS (d_unregister_replica (n_disc st) r g true)).
      { simpl. destruct (d_unregister_replica (n_disc st) r g true) as [[[d1 o1] e1] x1]; reflexivity. }
      intros r'. rewrite Est. revert r'.
      unfold d_unregister_replica. destruct (zlookup r (d_reps (n_disc st))) eqn:El; simpl; auto.
      destruct (zmem g l); simpl; auto. intros r'. unfold dreps. simpl. rewrite dreps_zset.
      destruct (r' =? r); [|apply HB]. apply set_remove_sorted.
      specialize (HB r). unfold dreps, get_or_nil in HB. now rewrite El in HB.
  - destruct b; [intros r'; rewrite HR; apply HB|intros r'; unfold dreps; rewrite HR; apply HB].
Qed.

Definition rep_guard_d (a : Z) (st : nst) (s : node) (m : msg) : Prop :=
  s = a -> forall r, m = MSubRep r true -> zmemk r (d_comps (n_disc st)) = true.

Lemma JR_dir a st s m q d N O :
  Binv st -> BR st -> (s = a -> O = m :: q) -> rep_guard_d a st s m ->
  JR a st d N O ->
  JR a (rS (dir_recv st s m)) d (N ++ msgs_to a (rO (dir_recv st s m))) (if a =? s then q else O).
Proof.
  intros HB HBR HO HG HJ r g.
  pose proof (dir_recv_subs st s m) as [HS _]. pose proof (dir_recv_reps st s m) as HR. simpl in HS.
  assert (Frame : (In a (Sr (rS (dir_recv st s m)) r) -> In a (Sr st r)) ->
                  vr (n_disc (rS (dir_recv st s m))) r g = vr (n_disc st) r g ->
                  (forall d' m', In (d', m') (rO (dir_recv st s m)) -> d' = a -> tellsr r g m' = None) ->
                  (s = a -> aboutr r g tt m = false) ->
                  Jg (tellsr r g) (aboutr r g) (In a (Sr (rS (dir_recv st s m)) r))
                     (vr (n_disc (rS (dir_recv st s m))) r g) (vr d r g)
                     (N ++ msgs_to a (rO (dir_recv st s m))) (if a =? s then q else O)).
  { intros F1 F2 F3 F4. rewrite F2. eapply Jg_frame; [exact F1| | |apply HJ].
    - intros m' Hm'. apply msgs_to_In in Hm'. eapply F3; eauto.
    - intros [] _ Hw. destruct (a =? s) eqn:E; auto. apply Z.eqb_eq in E. symmetry in E.
      rewrite (HO E) in Hw. eapply existsb_tail_gen; [|exact Hw]. apply (F4 E). }
  destruct m as [o|y ad|l|y|y b|c g' addr|c ag|c b|r' g' b|r' b];
    try solve [apply Frame;
         [unfold Sr; rewrite HS; auto | apply vr_same; exact HR
         | intros d' m' Hm' _; apply dir_outs_class in Hm'; contradiction | reflexivity]].
  - apply Frame; [unfold Sr; rewrite HS; auto | apply vr_same; exact HR | | reflexivity].
    intros d' m' Hm' _. apply dir_outs_class in Hm'. subst. reflexivity.
  - apply Frame; [unfold Sr; rewrite HS; auto | apply vr_same; exact HR | | reflexivity].
    intros d' m' Hm' _. apply dir_outs_class in Hm' as [->|(c & [->|(ag & ->)])]; reflexivity.
  - apply Frame; [unfold Sr; rewrite HS; auto | apply vr_same; exact HR | | reflexivity].
    intros d' m' Hm' _. apply dir_outs_class in Hm'. destruct b; [|contradiction].
    destruct (y =? STAR); [subst; reflexivity|]. destruct Hm' as (_ & ad & -> & _). reflexivity.
  - apply Frame; [unfold Sr; rewrite HS; auto | apply vr_same; exact HR | | reflexivity].
    intros d' m' Hm' _. apply dir_outs_class in Hm' as (ad & ->). reflexivity.
  - apply Frame; [unfold Sr; rewrite HS; auto | apply vr_same; exact HR | | reflexivity].
    intros d' m' Hm' _. apply dir_outs_class in Hm' as (c' & [->|(ag' & ->)]); reflexivity.
  - apply Frame; [unfold Sr; rewrite HS; auto | apply vr_same; exact HR | | reflexivity].
    intros d' m' Hm' _. apply dir_outs_class in Hm'. destruct b; [|contradiction].
    destruct Hm' as (_ & g0 & ad & ->). reflexivity.
  - (* publish_replica r' g' b *)
    destruct b.
    + (* registration *)
      destruct (reg_rep_spec (n_disc st) r' g' false) as [(Hk & E1 & E2)|(Hk & HX & E2 & Hd & _)].
      * (* refused by the directory's own Discovery: nothing happens *)
        assert (Est : rS (dir_recv st s (MPubRep r' g' true)) = st /\ rO (dir_recv st s (MPubRep r' g' true)) = []).
        { simpl. unfold d_register_replica in *. rewrite Hk in *. simpl. destruct st; auto. }
        destruct Est as [Est Eo]. apply Frame; rewrite ?Est, ?Eo; auto. intros ? ? [].
      * assert (Est : n_disc (rS (dir_recv st s (MPubRep r' g' true))) = rS (d_register_replica (n_disc st) r' g' false) /\
                      rO (dir_recv st s (MPubRep r' g' true)) = to_all (Sr st r') (MPubRep r' g' true)).
        { simpl. destruct (d_register_replica (n_disc st) r' g' false) as [[[d1 o1] e1] x1]. simpl in *. subst x1. auto. }
        destruct Est as [Est Eo].
        destruct (Z.eq_dec r' r) as [->|Hr]; [destruct (Z.eq_dec g' g) as [->|Hg]|].
        -- apply Jg_told. intros [] Hsub _. unfold Sr in Hsub. rewrite HS in Hsub. split.
           ++ exists (MPubRep r g true). split; [|simpl; now rewrite !Z.eqb_refl].
              apply msgs_to_In. rewrite Eo. unfold to_all. apply in_map_iff. exists a. auto.
           ++ intros m' Hm'. apply msgs_to_In in Hm'. apply dir_outs_class in Hm'. subst m'. right. simpl. now rewrite !Z.eqb_refl.
        -- apply Frame; [unfold Sr; rewrite HS; auto | | | reflexivity].
           ++ rewrite Est. apply vr_eq. rewrite Hd. intuition congruence.
           ++ intros d' m' Hm' _. apply dir_outs_class in Hm'. subst m'. simpl.
              assert (E : (g' =? g) = false) by now apply Z.eqb_neq. now rewrite E, andb_false_r.
        -- apply Frame; [unfold Sr; rewrite HS; auto | | | reflexivity].
           ++ rewrite Est. apply vr_eq. rewrite Hd. intuition congruence.
           ++ intros d' m' Hm' _. apply dir_outs_class in Hm'. subst m'. simpl.
              assert (E : (r' =? r) = false) by now apply Z.eqb_neq. now rewrite E.
    + (* un-registration *)
      pose proof (unreg_rep_spec (n_disc st) r' g' true) as Hspec. cbv zeta in Hspec. destruct Hspec as (H1 & H2 & H3 & _).
      assert (Est : n_disc (rS (dir_recv st s (MPubRep r' g' false))) = rS (d_unregister_replica (n_disc st) r' g' true)).
      { simpl. destruct (d_unregister_replica (n_disc st) r' g' true) as [[[d1 o1] e1] x1]. reflexivity. }
      destruct (Z.eq_dec r' r) as [->|Hr]; [destruct (Z.eq_dec g' g) as [->|Hg]|].
      * intros [] _ HD. exfalso. rewrite Est in HD. apply vr_some in HD. apply (H3 HBR HD).
      * apply Frame; [unfold Sr; rewrite HS; auto | | | ].
        -- rewrite Est. apply vr_eq. split; [apply H1|apply H2; congruence].
        -- intros d' m' Hm' _. apply dir_outs_class in Hm'. subst m'. simpl.
           assert (E : (g' =? g) = false) by now apply Z.eqb_neq. now rewrite E, andb_false_r.
        -- intros _. simpl. assert (E : (g' =? g) = false) by now apply Z.eqb_neq. now rewrite E, andb_false_r.
      * apply Frame; [unfold Sr; rewrite HS; auto | | | ].
        -- rewrite Est. apply vr_eq. split; [apply H1|apply H2; congruence].
        -- intros d' m' Hm' _. apply dir_outs_class in Hm'. subst m'. simpl.
           assert (E : (r' =? r) = false) by now apply Z.eqb_neq. now rewrite E.
        -- intros _. simpl. assert (E : (r' =? r) = false) by now apply Z.eqb_neq. now rewrite E.
  - (* subscribe_replica r' b from s *)
    assert (HD : vr (n_disc (rS (dir_recv st s (MSubRep r' b)))) r g = vr (n_disc st) r g).
    { destruct b; [unfold vr; now rewrite HR|apply vr_same; exact HR]. }
    destruct b.
    + destruct (Z.eq_dec r' r) as [->|Hr]; [destruct (Z.eq_dec s a) as [->|Hs]|].
      * pose proof (HG eq_refl r eq_refl) as Hk.
        apply Jg_told. intros [] _ Hv. rewrite HD in Hv. apply vr_some in Hv.
        assert (Eo : rO (dir_recv st a (MSubRep r true)) = to_all_rep a r (dreps (n_disc st) r)).
        { simpl. rewrite Hk. reflexivity. }
        split.
        -- exists (MPubRep r g true). split; [|simpl; now rewrite !Z.eqb_refl].
           apply msgs_to_In. rewrite Eo. unfold to_all_rep. apply in_map_iff. exists g. auto.
        -- intros m' Hm'. apply msgs_to_In in Hm'. apply dir_outs_class in Hm' as (_ & g0 & -> & _).
           simpl. rewrite Z.eqb_refl. simpl. destruct (g0 =? g); auto.
      * apply Frame; auto.
        -- unfold Sr. rewrite HS. intros H. apply sm_add_In in H as [[_ H]|H]; auto. congruence.
        -- intros d' m' Hm' ->. apply dir_outs_class in Hm' as (E & _). congruence.
      * apply Frame; auto.
        -- unfold Sr. rewrite HS. intros H. apply sm_add_In in H as [[E _]|H]; auto. congruence.
        -- intros d' m' Hm' _. apply dir_outs_class in Hm' as (_ & g0 & -> & _). simpl.
           assert (E : (r' =? r) = false) by now apply Z.eqb_neq. now rewrite E.
    + destruct (Z.eq_dec r' r) as [->|Hr]; [destruct (Z.eq_dec s a) as [->|Hs]|].
      * intros w Hsub _. exfalso. unfold Sr in Hsub. rewrite HS in Hsub. unfold sm_del in Hsub.
        rewrite sm_get_put_same in Hsub. destruct HB as (_ & _ & _ & B4). apply (set_remove_notin a _ (B4 r) Hsub).
      * apply Frame; auto.
        -- unfold Sr. rewrite HS. apply sm_del_In.
        -- intros d' m' Hm' _. apply dir_outs_class in Hm'. contradiction.
        -- intros E. congruence.
      * apply Frame; auto.
        -- unfold Sr. rewrite HS. apply sm_del_In.
        -- intros d' m' Hm' _. apply dir_outs_class in Hm'. contradiction.
        -- intros _. simpl. now apply Z.eqb_neq.
Qed.

(* ------------------------------------------------------------------ the network level *)
(* the guard, on one step: no replica handler is about to find the computation unknown *)
Definition GR (a : Z) (cf : config nst msg) (act : action) : Prop :=
  (forall r g q, act = Deliver 0 a -> chan cf 0 a = MPubRep r g true :: q -> zmemk r (d_comps (disc cf a)) = true) /\
  (forall r q, act = Deliver a 0 -> chan cf a 0 = MSubRep r true :: q -> zmemk r (d_comps (n_disc (dirst cf))) = true).

Definition IR (a : Z) (cf : config nst msg) : Prop := BR (dirst cf) /\ Qc a (JR a) cf.

Lemma IR_step h a : 0 < a -> forall act cf, Base a cf -> IR a cf -> GR a cf act ->
  IR a (fst (step (disc_proto h) cf act)).
Proof.
  intros Ha act cf (R0 & Ra & T & B) [HBR HI] [G1 G2]. split.
  - destruct (dirst_step h act cf R0) as [->|(s & m & ->)]; auto. now apply BR_recv.
  - apply (Q_step h a Ha); auto.
    + intros s m q Ea Hc. apply JR_dir; auto.
      * intros ->. exact Hc.
      * intros -> r ->. eapply G2; eauto.
    + intros s m q Ea Hc Hop. apply JR_agent; auto.
      * intros ->. exact Hc.
      * intros -> r g ->. eapply G1; eauto.
Qed.

Lemma IR_init h a : 0 < a -> forall cf, Kinit2 h cf -> IR a cf.
Proof.
  intros Ha cf HK. destruct (Kinit2_quiet h a Ha cf HK) as (E1 & E2 & E3).
  unfold IR, Qc. rewrite E1. split.
  - intros r. unfold dreps. simpl. exact I.
  - intros r g w H. simpl in H. contradiction.
Qed.

Lemma disc_replica_inv_l : forall (h : hist_t) (a : Z) (ns : list node) (sched : list (@action)),
  0 < a -> In 0 ns -> In a ns ->
  let P := disc_proto h in
  let cf0 := fst (exec P (init P) (map (@Start) ns)) in
  along h (GR a) cf0 sched ->
  Base a (fst (exec P cf0 sched)) /\ IR a (fst (exec P cf0 sched)).
Proof.
  intros h a ns sched Ha H0 Hna P cf0 HG.
  destruct (starts_spec2 h ns (init P) (Kinit2_init h)) as [K R].
  apply (I_exec h a (GR a) (IR a)); auto.
  - intros act cf. now apply IR_step.
  - apply (Kinit2_Base h); auto.
  - now apply (IR_init h).
Qed.

Lemma disc_replica_converges_l : forall (h : hist_t) (a : Z) (ns : list node) (sched : list (@action)),
  0 < a -> In 0 ns -> In a ns ->
  let P := disc_proto h in
  let cf0 := fst (exec P (init P) (map (@Start) ns)) in
  along h (GR a) cf0 sched ->
  let cf := fst (exec P cf0 sched) in
  forall r g,
    In a (sm_get r (g_sub_reps (n_dir (w_st (nodes cf 0))))) ->
    In g (get_or_nil r (d_reps (n_disc (w_st (nodes cf 0))))) ->
    chan cf 0 a = [] -> chan cf a 0 = [] ->
    In g (get_or_nil r (d_reps (n_disc (w_st (nodes cf a))))).
Proof.
  intros h a ns sched Ha H0 Hna P cf0 HG cf r g Hsub HD E1 E2.
  destruct (disc_replica_inv_l h a ns sched Ha H0 Hna HG) as [_ [_ HI]].
  fold P cf0 cf in HI. unfold Qc in HI. apply vr_some in HD. specialize (HI r g tt Hsub HD).
  rewrite E1, E2 in HI. simpl in HI. destruct HI as [H|H]; [now apply vr_some|discriminate].
Qed.

Definition GRb (a : Z) (cf : config nst msg) (act : action) : bool :=
  match act with
  | Deliver s d =>
      (if (s =? 0) && (d =? a) then
         match chan cf 0 a with
         | MPubRep r _ true :: _ => zmemk r (d_comps (n_disc (w_st (nodes cf a))))
         | _ => true
         end
       else true) &&
      (if (s =? a) && (d =? 0) then
         match chan cf a 0 with
         | MSubRep r true :: _ => zmemk r (d_comps (n_disc (w_st (nodes cf 0))))
         | _ => true
         end
       else true)
  | _ => true
  end.

Lemma GRb_sound a cf act : GRb a cf act = true -> GR a cf act.
Proof.
  unfold GRb, GR. intros H. split.
  - intros r g q -> Hc. apply andb_true_iff in H as [H _]. rewrite !Z.eqb_refl in H. simpl in H.
    rewrite Hc in H. exact H.
  - intros r q -> Hc. apply andb_true_iff in H as [_ H]. rewrite !Z.eqb_refl in H. simpl in H.
    rewrite Hc in H. exact H.
Qed.

(* non-vacuity: agent 2 knows computation 0, subscribes to its replicas; agent 1 publishes one *)
Definition okr_h : hist_t :=
  [(1, [OpRegComp 0 (Some 1) (Some 1001); OpRegRep 0 1; OpRegRep 0 3; OpUnregRep 0 1]);
   (2, [OpRegComp 0 (Some 1) (Some 1001); OpSubRep 0 (Some 7) false])].
Definition okr_sched :=
  [Deliver (-2) 2; Deliver 2 0; Deliver (-1) 1; Deliver 1 0; Deliver (-1) 1; Deliver 1 0;
   Deliver (-2) 2; Deliver 2 0; Deliver 0 2; Deliver (-1) 1; Deliver 1 0; Deliver 0 2;
   Deliver (-1) 1; Deliver 1 0; Deliver 0 2; Deliver 0 0; Deliver 0 0; Deliver 0 2; Deliver 0 2].
