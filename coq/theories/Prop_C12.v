(* Prop_C12.v -- C12: matrix updates, join and projection follow their algebraic definition.
   Only statements; each closed by an exact lemma from P_Rel.
   Vocabulary (P_Rel): [covers dims a] = the assignment gives every variable of dims a value of
   its domain; [agree_on dims a b] = a and b give the variables of dims the same values;
   [sem r a] = value of relation r under assignment a; [wf_rel r] = the table has as many
   cells as the product of the domain sizes.  Hypothesis [NoDup (names dims)]: a scope does
   not list two variables with the same name.  No bound on arity, domain sizes or costs. *)
From PyDcop Require Import Base ECost M_Rel P_Rel.

(* set_value_for_assignment(list, c): succeeds, keeps the scope, and the new relation differs
   from the old one exactly at the addressed assignment, where it holds c *)
Theorem set_value_list_spec : forall r vals c,
  wf_rel r -> NoDup (names (r_dims r)) ->
  Forall2 (fun v x => In x (v_dom v)) (r_dims r) vals ->
  let a := combine (names (r_dims r)) vals in
  exists r', set_list r vals c = Ok r' /\ r_dims r' = r_dims r /\ wf_rel r' /\
    forall b, covers (r_dims r) b ->
      (agree_on (r_dims r) a b -> sem r' b = c) /\
      (~ agree_on (r_dims r) a b -> sem r' b = sem r b).
Proof. exact set_value_list_spec_l. Qed.

(* the same for the dict form (extra keys in the dict are ignored, as in the code) *)
Theorem set_value_dict_spec : forall r a c,
  wf_rel r -> NoDup (names (r_dims r)) -> covers (r_dims r) a ->
  exists r', set_dict r a c = Ok r' /\ r_dims r' = r_dims r /\ wf_rel r' /\
    forall b, covers (r_dims r) b ->
      (agree_on (r_dims r) a b -> sem r' b = c) /\
      (~ agree_on (r_dims r) a b -> sem r' b = sem r b).
Proof. exact set_value_dict_spec_l. Qed.

(* both forms agree: the dict form equals the list form on the dict's values in scope order *)
Theorem set_value_forms_agree : forall r a c, covers (r_dims r) a ->
  exists vals, Forall2 (fun v x => zlookup (v_name v) a = Some x) (r_dims r) vals /\
               set_dict r a c = set_list r vals c.
Proof. exact set_value_forms_agree_l. Qed.

(* join: defined over scope(u1) followed by the variables of u2 not in u1, and equal to
   u1 + u2 on every assignment of that scope *)
Theorem join_spec : forall u1 u2,
  wf_rel u1 -> wf_rel u2 ->
  let dims := join_dims (r_dims u1) (r_dims u2) in
  NoDup (names dims) ->
  exists j, join u1 u2 = Ok j /\ r_dims j = dims /\ wf_rel j /\
    forall b, covers dims b -> sem j b = ec_add (sem u1 b) (sem u2 b).
Proof. exact join_ok. Qed.

Theorem join_scope : forall u1 u2, exists extra,
  join_dims (r_dims u1) (r_dims u2) = r_dims u1 ++ extra /\
  (forall v, In v extra -> In v (r_dims u2) /\ ~ In v (r_dims u1)) /\
  (forall v, In v (r_dims u2) -> In v (r_dims u1 ++ extra)).
Proof. exact join_scope_l. Qed.

(* projection: defined over scope(r) minus x; its value is what find_arg_optimal's loop
   computes over x, which is the min/max over x whenever no cost is nan *)
Theorem projection_spec : forall r x m,
  wf_rel r -> NoDup (names (r_dims r)) -> In x (r_dims r) -> v_dom x <> [] ->
  exists pj pre post, projection r x m = Ok pj /\
    r_dims r = pre ++ x :: post /\ r_dims pj = pre ++ post /\ wf_rel pj /\
    forall b, covers (pre ++ post) b ->
      sem pj b = opt_cost m (fun v => sem r ((v_name x, v) :: b)) (v_dom x) /\
      ((forall v, In v (v_dom x) -> is_nan (sem r ((v_name x, v) :: b)) = false) ->
       is_opt m (fun v => sem r ((v_name x, v) :: b)) (v_dom x) (sem pj b)).
Proof. exact projection_spec_l. Qed.

(* slice: scope = the variables not assigned, value = the relation's value on the merged
   assignment *)
Theorem slice_spec : forall r pa,
  wf_rel r -> keys_in pa (r_dims r) ->
  (forall v, In v (r_dims r) -> forall val, zlookup (v_name v) pa = Some val -> In val (v_dom v)) ->
  exists sl, slice r pa = Ok sl /\ r_dims sl = filter (unset pa) (r_dims r) /\ wf_rel sl /\
    forall b, covers (r_dims sl) b -> sem sl b = sem r (pa ++ b).
Proof. exact slice_ok. Qed.

(* generate_assignment_as_dict enumerates assignments of exactly the given variables, and
   reaches every one of them *)
Theorem generate_assignment_complete : forall dims, NoDup (names dims) ->
  (forall a, In a (gen_assign dims) ->
     covers dims a /\ forall k, In k (map fst a) <-> In k (names dims)) /\
  (forall b, covers dims b -> exists a, In a (gen_assign dims) /\ agree_on dims a b).
Proof. exact generate_assignment_complete_l. Qed.

(* non-vacuity: two overlapping relations with huge and infinite costs *)
Example c12_nonvacuous :
  let x := mkVar 0 [3; 1] [] in let y := mkVar 1 [0; 5; 2] [] in let z := mkVar 2 [7; 4] [] in
  let u1 := mkRel [x; y] [Fin 1; Fin 2; Fin 3; Fin 4; PInf; Fin 6] in
  let u2 := mkRel [z; y] [Fin 10; Fin 20; Fin 4294967296; Fin 40; NInf; Fin 60] in
  wf_rel u1 /\ wf_rel u2 /\ NoDup (names (join_dims (r_dims u1) (r_dims u2))) /\
  (exists j, join u1 u2 = Ok j /\ names (r_dims j) = [0; 1; 2] /\
             sem j [(2, 7); (0, 1); (1, 2)] = Fin 4294967302 /\
             sem j [(0, 1); (1, 5); (2, 4)] = NaN) /\
  (exists p, projection u1 y Min = Ok p /\ r_data p = [Fin 1; Fin 4]) /\
  (exists s, set_dict u1 [(1, 5); (0, 3)] (Fin 9) = Ok s /\
             r_data s = [Fin 1; Fin 9; Fin 3; Fin 4; PInf; Fin 6] /\
             set_list u1 [3; 5] (Fin 9) = Ok s).
Proof.
  vm_compute. repeat split; try reflexivity.
  - repeat constructor; simpl; intuition discriminate.
  - eexists. repeat split; reflexivity.
  - eexists. repeat split; reflexivity.
  - eexists. repeat split; reflexivity.
Qed.
