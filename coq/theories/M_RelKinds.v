(* M_RelKinds.v -- executable model of the relation kinds of pydcop/dcop/relations.py (C11):
   ZeroAryRelation, UnaryFunctionRelation, UnaryBooleanRelation, NAryFunctionRelation (over an
   ExpressionFunction or a python function / functools.partial), NAryMatrixRelation,
   NeutralRelation, ConditionalRelation; their __call__ (keyword / positional / single dict),
   get_value_for_assignment (list / dict), slice and dimensions.  Models only; proofs are in
   P_RelKinds.v.

   Encoding.  Names (variables, function parameters) are Z ids whose numeric order is the lexical
   order of the python names.  Values are Z (python ints; True/False are 1/0).  A python dict is an
   association list in insertion order with pairwise distinct keys.  The iteration order of
   ExpressionFunction.exp_vars (a python set: depends on PYTHONHASHSEED) is the field [fparams] of
   an [FExpr] function: an explicit input, the theorems quantify over it.
   Assumption of the model: the variables of one relation have pairwise distinct names (dict
   comprehensions over them are modelled by [map]). *)
From PyDcop Require Import Base.
Open Scope Z_scope.

(* ---------- results with python exceptions ---------- *)
Inductive err := EValue | EKey | EType | EAttr | EIndex | EName.
Inductive res (A : Type) := Ok (a : A) | Err (e : err).
Arguments Ok {A} a.
Arguments Err {A} e.
Definition bind {A B} (x : res A) (f : A -> res B) : res B :=
  match x with Ok a => f a | Err e => Err e end.
Notation "'do' x <- m ; k" := (bind m (fun x => k))
  (at level 200, x name, m at level 100, k at level 200).

Definition err_eqb (a b : err) : bool :=
  match a, b with
  | EValue, EValue | EKey, EKey | EType, EType | EAttr, EAttr | EIndex, EIndex | EName, EName => true
  | _, _ => false
  end.
Definition res_eqb {A} (e : A -> A -> bool) (a b : res A) : bool :=
  match a, b with
  | Ok x, Ok y => e x y
  | Err x, Err y => err_eqb x y
  | _, _ => false
  end.

(* ---------- variables, assignments ---------- *)
Definition var := (Z * list Z)%type.          (* name id, domain values *)
Definition vname (v : var) : Z := fst v.
Definition vdom (v : var) : list Z := snd v.
Definition asg := list (Z * Z).               (* dict: name -> value *)
(* Variable.__eq__ : same name and same domain *)
Definition var_eqb (a b : var) : bool := Z.eqb (fst a) (fst b) && list_eqb Z.eqb (snd a) (snd b).
Definition has_key (k : Z) (d : asg) : bool := mem_key Z.eqb k d.
Definition truthy (z : Z) : bool := negb (z =? 0).
Definition is_nil {A} (l : list A) : bool := match l with [] => true | _ => false end.

(* Domain.index *)
Fixpoint index_of (x : Z) (l : list Z) : option nat :=
  match l with
  | [] => None
  | y :: r => if x =? y then Some O else match index_of x r with Some i => Some (S i) | None => None end
  end.

(* ---------- expressions (bodies of expression strings, defs and lambdas) ---------- *)
Inductive expr :=
| EC (z : Z) | EV (n : Z)
| EAdd (a b : expr) | ESub (a b : expr) | EMul (a b : expr) | EAbs (a : expr).

Fixpoint eval (env : Z -> option Z) (e : expr) : res Z :=
  match e with
  | EC z => Ok z
  | EV n => match env n with Some x => Ok x | None => Err EName end
  | EAdd a b => do x <- eval env a; do y <- eval env b; Ok (x + y)
  | ESub a b => do x <- eval env a; do y <- eval env b; Ok (x - y)
  | EMul a b => do x <- eval env a; do y <- eval env b; Ok (x * y)
  | EAbs a => do x <- eval env a; Ok (Z.abs x)
  end.

Fixpoint fv (e : expr) : list Z :=
  match e with
  | EC _ => []
  | EV n => [n]
  | EAdd a b | ESub a b | EMul a b => fv a ++ fv b
  | EAbs a => fv a
  end.

(* ---------- callables: ExpressionFunction / python def (possibly functools.partial) ---------- *)
Inductive fkind := FExpr | FPy.
(* FExpr: fparams = list(exp_vars) in the set's iteration order, ffixed = _fixed_vars
   FPy  : fparams = co_varnames[:co_argcount],                  ffixed = partial.keywords *)
Record fn := mkFn { fk : fkind; fparams : list Z; fbody : expr; ffixed : asg }.

(* utils/various.py func_args: ExpressionFunction.variable_names, or the def's arguments minus
   the keywords of the functools.partial *)
Definition func_args (f : fn) : list Z :=
  filter (fun p => negb (has_key p (ffixed f))) (fparams f).

(* f( **kw ) *)
Definition fn_call (f : fn) (kw : asg) : res Z :=
  match fk f with
  | FExpr =>
      (* missing = expected - received ; unexpected = received - expected : TypeError *)
      let expected := func_args f in
      if negb (forallb (fun p => has_key p kw) expected) then Err EType
      else if negb (forallb (fun kv => zmem (fst kv) expected) kw) then Err EType
      else (* l = kwargs.copy(); l.update(fixed); exp_func( **l ) *)
        eval (fun n => match zlookup n (ffixed f) with Some x => Some x | None => zlookup n kw end)
             (fbody f)
  | FPy =>
      (* partial: {**keywords, **kw}; unexpected keyword / missing argument : TypeError *)
      if negb (forallb (fun kv => zmem (fst kv) (fparams f)) kw) then Err EType
      else if negb (forallb (fun kv => zmem (fst kv) (fparams f)) (ffixed f)) then Err EType
      else if negb (forallb (fun p => has_key p kw || has_key p (ffixed f)) (fparams f)) then Err EType
      else eval (fun n => match zlookup n kw with Some x => Some x | None => zlookup n (ffixed f) end)
                (fbody f)
  end.

(* dict merge {**a, **b} *)
Definition dict_merge (a b : asg) : asg :=
  fold_left (fun d kv => dict_set Z.eqb (fst kv) (snd kv) d) b a.

(* ExpressionFunction.partial( **kw ) (merges the already fixed variables; the constructor
   rejects names that are not in the expression) / functools.partial(f, kw...) (flattens) *)
Definition fn_partial (f : fn) (kw : asg) : res fn :=
  let merged := dict_merge (ffixed f) kw in
  match fk f with
  | FExpr =>
      if forallb (fun kv => zmem (fst kv) (fparams f)) merged
      then Ok (mkFn FExpr (fparams f) (fbody f) merged) else Err EValue
  | FPy => Ok (mkFn FPy (fparams f) (fbody f) merged)
  end.

(* ---------- relations ---------- *)
Inductive brel :=
| RZero (value : Z)
| RUnary (v : var) (param : Z) (body : expr)          (* lambda param: body *)
| RBool (v : var)
| RFun (f : fn) (vars : list var) (mapping : list (Z * Z)) (fkw : bool)
| RMat (dims : list (var * nat)) (data : list Z) (off : nat)
      (* numpy view: per remaining dimension its stride; flat data; offset *)
| RNeutral (vars : list var).

Inductive rel :=
| RBase (b : brel)
| RCond (c t : brel) (ret_neutral : bool).

Definition bdims (r : brel) : list var :=
  match r with
  | RZero _ => []
  | RUnary v _ _ => [v]
  | RBool v => [v]
  | RFun _ vars _ _ => vars
  | RMat dims _ _ => map fst dims
  | RNeutral vars => vars
  end.
Definition bnames (r : brel) : list Z := map vname (bdims r).

(* ConditionalRelation.dimensions: condition's, then the consequence's new ones, sorted by name *)
Definition cond_dims (c t : brel) : list var :=
  isort (fun a b => vname a <=? vname b)
        (bdims c ++ filter (fun v => negb (existsb (var_eqb v) (bdims c))) (bdims t)).

Definition dims (r : rel) : list var :=
  match r with RBase b => bdims b | RCond c t _ => cond_dims c t end.
Definition names (r : rel) : list Z := map vname (dims r).

(* ----- construction ----- *)
Definition ident_mapping (vars : list var) : list (Z * Z) := map (fun v => (vname v, vname v)) vars.

(* for i, var_name in enumerate(var_list): mapping[variables[i].name] = var_name *)
Fixpoint map_args (vars : list var) (args : list Z) : res (list (Z * Z)) :=
  match args with
  | [] => Ok []
  | a :: args' =>
      match vars with
      | [] => Err EIndex
      | v :: vars' => do m <- map_args vars' args'; Ok ((vname v, a) :: m)
      end
  end.

(* NAryFunctionRelation.__init__ *)
Definition mk_fun (f : fn) (vars : list var) (fkw : bool) : res brel :=
  if fkw then Ok (RFun f vars (ident_mapping vars) true)
  else match func_args f with
       | [] => Ok (RFun f vars (ident_mapping vars) false)
       | args => do m <- map_args vars args; Ok (RFun f vars m false)
       end.

Fixpoint rm_strides (shape : list nat) : list nat :=
  match shape with
  | [] => []
  | _ :: r => fold_right Nat.mul 1%nat r :: rm_strides r
  end.

(* NAryMatrixRelation.__init__ with a nested literal of the given shape (row-major data) *)
Definition mk_mat (vars : list var) (shape : list nat) (data : list Z) : res brel :=
  if list_eqb Nat.eqb (map (fun v => List.length (vdom v)) vars) shape
  then Ok (RMat (combine vars (rm_strides shape)) data 0%nat)
  else Err EAttr.

(* ----- function relations ----- *)
(* args_dict[self._var_mapping[var_name]] = assignment[var_name]   (KeyError) *)
Fixpoint fun_args_dict (mapping : list (Z * Z)) (d : asg) : res asg :=
  match d with
  | [] => Ok []
  | (vn, x) :: d' =>
      match zlookup vn mapping with
      | None => Err EKey
      | Some a => do r <- fun_args_dict mapping d'; Ok ((a, x) :: r)
      end
  end.

(* for i in range(len(assignment)): self._variables[i] (IndexError), mapping (KeyError) *)
Fixpoint fun_args_list (vars : list var) (mapping : list (Z * Z)) (l : list Z) : res asg :=
  match l with
  | [] => Ok []
  | x :: l' =>
      match vars with
      | [] => Err EIndex
      | v :: vars' =>
          match zlookup (vname v) mapping with
          | None => Err EKey
          | Some a => do r <- fun_args_list vars' mapping l'; Ok ((a, x) :: r)
          end
      end
  end.

Definition fun_gv_dict f mapping (d : asg) : res Z := do a <- fun_args_dict mapping d; fn_call f a.
Definition fun_gv_list f vars mapping (l : list Z) : res Z :=
  do a <- fun_args_list vars mapping l; fn_call f a.

(* NAryFunctionRelation.slice *)
Definition slice_fun (f : fn) (vars : list var) (mapping : list (Z * Z)) (fkw : bool) (p : asg)
  : res brel :=
  if is_nil p then Ok (RFun f vars mapping fkw)
  else if (List.length vars <? List.length p)%nat then Err EValue
  else if negb (forallb (fun kv => zmem (fst kv) (map vname vars)) p) then Err EValue
  else
    let remaining := filter (fun v => negb (has_key (vname v) p)) vars in
    do sd <- fun_args_dict mapping p;
    do f' <- fn_partial f sd;
    mk_fun f' remaining fkw.

(* ----- matrix relations ----- *)
(* _slice_matrix: the offset contributed by the sliced dimensions (Domain.index: ValueError) *)
Fixpoint mat_offset (dims : list (var * nat)) (p : asg) : res nat :=
  match dims with
  | [] => Ok 0%nat
  | (v, s) :: r =>
      match zlookup (vname v) p with
      | Some val =>
          match index_of val (vdom v) with
          | None => Err EValue
          | Some i => do o <- mat_offset r p; Ok (i * s + o)%nat
          end
      | None => mat_offset r p
      end
  end.

(* NAryMatrixRelation.slice (ignore_extra_vars=False) *)
Definition slice_mat (dims : list (var * nat)) (data : list Z) (off : nat) (p : asg) : res brel :=
  if is_nil p then Ok (RMat dims data off)
  else if negb (forallb (fun kv => zmem (fst kv) (map (fun vs => vname (fst vs)) dims)) p)
  then Err EAttr
  else do o <- mat_offset dims p;
       Ok (RMat (filter (fun vs => negb (has_key (vname (fst vs)) p)) dims) data (off + o)%nat).

(* ndarray.item(): needs exactly one element *)
Definition mat_item (r : brel) : res Z :=
  match r with
  | RMat dims data off =>
      if forallb (fun vs => Nat.eqb (List.length (vdom (fst vs))) 1%nat) dims
      then Ok (nth off data 0) else Err EValue
  | _ => Err EAttr
  end.

(* {self._variables[i].name: val for i, val in enumerate(var_values)}  (IndexError) *)
Fixpoint zip_names (vars : list var) (l : list Z) : res asg :=
  match l with
  | [] => Ok []
  | x :: l' =>
      match vars with
      | [] => Err EIndex
      | v :: vs => do r <- zip_names vs l'; Ok ((vname v, x) :: r)
      end
  end.

Definition mat_gv_dict dims data off (d : asg) : res Z :=
  do u <- slice_mat dims data off d; mat_item u.
Definition mat_gv_list dims data off (l : list Z) : res Z :=
  do a <- zip_names (map fst dims) l; mat_gv_dict dims data off a.

(* ----- unary ----- *)
Definition unary_f (param : Z) (body : expr) (x : Z) : res Z :=
  eval (fun n => if n =? param then Some x else None) body.
Definition bool_f (x : Z) : res Z := Ok (if truthy x then 1 else 0).
Definition unary_of (r : brel) : option (var * (Z -> res Z)) :=
  match r with
  | RUnary v p b => Some (v, unary_f p b)
  | RBool v => Some (v, bool_f)
  | _ => None
  end.

(* ----- get_value_for_assignment / __call__ of the non-conditional kinds ----- *)
Definition bgv_list (r : brel) (l : list Z) : res Z :=
  match r with
  | RZero value => if is_nil l then Ok value else Err EValue
  | RUnary v p b => match l with [x] => unary_f p b x | _ => Err EValue end
  | RBool v => match l with [x] => bool_f x | _ => Err EValue end
  | RFun f vars mapping _ => fun_gv_list f vars mapping l
  | RMat dims data off => mat_gv_list dims data off l
  | RNeutral _ => Ok 0
  end.

Definition bgv_dict (r : brel) (d : asg) : res Z :=
  match r with
  | RZero value => if is_nil d then Ok value else Err EValue
  | RUnary v p b => match zlookup (vname v) d with Some x => unary_f p b x | None => Err EKey end
  | RBool v => match zlookup (vname v) d with Some x => bool_f x | None => Err EKey end
  | RFun f _ mapping _ => fun_gv_dict f mapping d
  | RMat dims data off => mat_gv_dict dims data off d
  | RNeutral _ => Ok 0
  end.

(* r( *args ) *)
Definition bcall_pos (r : brel) (l : list Z) : res Z :=
  match r with
  | RZero value => if is_nil l then Ok value else Err EValue
  | _ => bgv_list r l        (* unary kinds: len(args) == 1 else (no kwargs) ValueError *)
  end.

(* r( **kw ) *)
Definition bcall_kw (r : brel) (kw : asg) : res Z :=
  if is_nil kw then bcall_pos r []
  else match r with
       | RZero _ => Err EValue
       | RUnary v _ _ | RBool v =>
           match kw with
           | [_] => bgv_dict r kw            (* len(kwargs) == 1: kwargs[var.name] (KeyError) *)
           | _ => Err EValue
           end
       | _ => bgv_dict r kw
       end.

(* ----- slice of the non-conditional kinds ----- *)
Definition bslice (r : brel) (p : asg) : res brel :=
  match r with
  | RZero _ => if is_nil p then Ok r else Err EValue
  | RUnary v _ _ | RBool v =>
      match p with
      | [] => Ok r
      | [(k, x)] =>
          if negb (k =? vname v) then Err EValue
          else match unary_of r with
               | Some (_, f) => do y <- f x; Ok (RZero y)
               | None => Err EAttr
               end
      | _ => Err EValue
      end
  | RFun f vars mapping fkw => slice_fun f vars mapping fkw p
  | RMat dims data off => slice_mat dims data off p
  | RNeutral vars => Ok (RNeutral (filter (fun v => negb (has_key (vname v) p)) vars))
  end.

(* ----- conditional ----- *)
(* {v.name: assignment[v.name] for v in dims}  (KeyError) *)
Fixpoint pick (vs : list var) (d : asg) : res asg :=
  match vs with
  | [] => Ok []
  | v :: r =>
      match zlookup (vname v) d with
      | None => Err EKey
      | Some x => do a <- pick r d; Ok ((vname v, x) :: a)
      end
  end.

Definition cond_gv_dict (c t : brel) (d : asg) : res Z :=
  do ca <- pick (bdims c) d;
  do cv <- bcall_kw c ca;
  if truthy cv then (do ra <- pick (bdims t) d; bcall_kw t ra) else Ok 0.

(* {v.name: val for v, val in zip(self.dimensions, assignment) if v in sub.dimensions} *)
Definition zip_filter (ds : list var) (l : list Z) (sub : list var) : asg :=
  map (fun vx => (vname (fst vx), snd vx))
      (filter (fun vx => existsb (var_eqb (fst vx)) sub) (combine ds l)).

Definition cond_gv_list (c t : brel) (l : list Z) : res Z :=
  let ds := cond_dims c t in
  do cv <- bcall_kw c (zip_filter ds l (bdims c));
  if truthy cv then bcall_kw t (zip_filter ds l (bdims t)) else Ok 0.

(* ConditionalRelation.slice *)
Definition cond_slice (c t : brel) (rn : bool) (p : asg) : res rel :=
  let ca := filter (fun kv => zmem (fst kv) (bnames c)) p in
  let sd := filter (fun kv => zmem (fst kv) (bnames t)) p in
  if Nat.eqb (List.length ca) (List.length (bdims c)) then
    do cv <- bcall_kw c ca;
    if truthy cv then
      (if is_nil sd then Ok (RBase t) else do s <- bslice t sd; Ok (RBase s))
    else if rn then
      Ok (RBase (RNeutral (filter (fun v => negb (has_key (vname v) p)) (bdims t))))
    else Ok (RBase (RZero 0))
  else
    do sc <- (if is_nil ca then Ok c else bslice c ca);
    do st <- (if is_nil sd then Ok t else bslice t sd);
    Ok (RCond sc st rn).

(* ----- the public operations on any relation ----- *)
Definition gv_list (r : rel) (l : list Z) : res Z :=
  match r with RBase b => bgv_list b l | RCond c t _ => cond_gv_list c t l end.
Definition gv_dict (r : rel) (d : asg) : res Z :=
  match r with RBase b => bgv_dict b d | RCond c t _ => cond_gv_dict c t d end.
Definition call_pos (r : rel) (l : list Z) : res Z :=
  match r with RBase b => bcall_pos b l | RCond c t _ => cond_gv_list c t l end.
Definition call_kw (r : rel) (kw : asg) : res Z :=
  match r with
  | RBase b => bcall_kw b kw
  | RCond c t _ => if is_nil kw then cond_gv_list c t [] else cond_gv_dict c t kw
  end.
(* r(d) with a single dict argument: NAryFunctionRelation and ConditionalRelation forward to
   r( **d ); not meaningful for the other kinds (None) *)
Definition call_dictarg (r : rel) (d : asg) : option (res Z) :=
  match r with
  | RBase (RFun _ _ _ _) | RCond _ _ _ => Some (call_kw r d)
  | _ => None
  end.
Definition slice (r : rel) (p : asg) : res rel :=
  match r with
  | RBase b => do s <- bslice b p; Ok (RBase s)
  | RCond c t rn => cond_slice c t rn p
  end.

Fixpoint slices (r : rel) (ps : list asg) : res rel :=
  match ps with
  | [] => Ok r
  | p :: ps' => do s <- slice r p; slices s ps'
  end.

(* ---------- correspondence ---------- *)
Inductive bspec :=
| SZero (value : Z)
| SUnary (v : var) (param : Z) (body : expr)
| SBool (v : var)
| SFun (k : fkind) (params : list Z) (body : expr) (vars : list var) (fkw : bool)
| SMat (vars : list var) (shape : list nat) (data : list Z)
| SNeutral (vars : list var).
Inductive rspec := SBase (b : bspec) | SCond (c t : bspec) (rn : bool).

Definition build_b (s : bspec) : res brel :=
  match s with
  | SZero z => Ok (RZero z)
  | SUnary v p b => Ok (RUnary v p b)
  | SBool v => Ok (RBool v)
  | SFun k params body vars fkw => mk_fun (mkFn k params body []) vars fkw
  | SMat vars shape data => mk_mat vars shape data
  | SNeutral vars => Ok (RNeutral vars)
  end.
Definition build (s : rspec) : res rel :=
  match s with
  | SBase b => do r <- build_b b; Ok (RBase r)
  | SCond c t rn => do rc <- build_b c; do rt <- build_b t; Ok (RCond rc rt rn)
  end.

(* the ExpressionFunction parameter order reported by the driver must be an enumeration of
   the expression's free names (sanity of the hash-seed instantiation) *)
Definition params_ok_b (s : bspec) : bool :=
  match s with
  | SFun FExpr params body _ _ =>
      nodupb Z.eqb params && forallb (fun n => zmem n params) (fv body)
      && forallb (fun n => zmem n (fv body)) params
  | _ => true
  end.
Definition params_ok (s : rspec) : bool :=
  match s with SBase b => params_ok_b b | SCond c t _ => params_ok_b c && params_ok_b t end.

Inductive probe :=
| PKw (kw : asg) (o : res Z)          (* r( **kw ) *)
| PPos (l : list Z) (o : res Z)       (* r( *l ) *)
| PGvDict (d : asg) (o : res Z)       (* r.get_value_for_assignment(d) *)
| PGvList (l : list Z) (o : res Z)    (* r.get_value_for_assignment(l) *)
| PCallDict (d : asg) (o : res Z).    (* r(d) *)

Definition rz_eqb := res_eqb Z.eqb.
Definition check_probe (r : rel) (p : probe) : bool :=
  match p with
  | PKw kw o => rz_eqb (call_kw r kw) o
  | PPos l o => rz_eqb (call_pos r l) o
  | PGvDict d o => rz_eqb (gv_dict r d) o
  | PGvList l o => rz_eqb (gv_list r l) o
  | PCallDict d o => match call_dictarg r d with Some x => rz_eqb x o | None => false end
  end.

(* one case: build a relation, slice it step by step (observing the dimension names after
   each step, or the exception), then probe the last relation obtained *)
Record case := mkCase {
  c_spec : rspec;
  c_steps : list asg;
  c_built : res (list Z);             (* names of dimensions after construction / exception *)
  c_sliced : list (res (list Z));     (* per executed step: names of dimensions / exception *)
  c_probes : list probe               (* on the last successfully obtained relation *)
}.

Fixpoint run_steps (r : rel) (ps : list asg) : list (res (list Z)) * option rel :=
  match ps with
  | [] => ([], Some r)
  | p :: ps' =>
      match slice r p with
      | Err e => ([Err e], None)
      | Ok s => let '(o, last) := run_steps s ps' in (Ok (names s) :: o, last)
      end
  end.

Definition zl_eqb := list_eqb Z.eqb.
Definition check_case (c : case) : bool :=
  params_ok (c_spec c) &&
  match build (c_spec c) with
  | Err e => res_eqb zl_eqb (Err e) (c_built c) && is_nil (c_sliced c) && is_nil (c_probes c)
  | Ok r =>
      res_eqb zl_eqb (Ok (names r)) (c_built c) &&
      let '(o, last) := run_steps r (c_steps c) in
      list_eqb (res_eqb zl_eqb) o (c_sliced c) &&
      match last with
      | Some s => forallb (check_probe s) (c_probes c)
      | None => is_nil (c_probes c)
      end
  end.
