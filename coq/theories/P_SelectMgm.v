(* P_SelectMgm.v -- C10 for the MGM and MGM2 models: every value selected lies in the domain.

   For EVERY schedule, every problem instance, every parameter and every random-draw oracle, a
   value-selection event [EvValue n v _ _] emitted by node n carries a value v of [dom_of d n], and
   the current value of n is None or a value of [dom_of d n], PROVIDED that for this node n
     - the domain is not empty, and
     - the declared initial value, if any, is a member of the domain
   (pyDCOP's Variable constructor enforces the second point).  The hypotheses are per node:
   nothing is assumed on the other nodes ... except, for MGM2, on the partner whose offers are
   accepted (see the MGM2 part).

   Remark on the shape of the hypotheses.  [forall n, dom_of d n <> []] is NOT satisfiable:
   [var_of d n] of an undeclared id is the empty variable, and a schedule may contain [Start n] for
   any n; an undeclared isolated node that is started "selects" the default value 0 of the model
   (see [mgm_undeclared_refuted]).  Hence the per-node form, and the corollaries for the declared
   nodes of a problem all of whose declared variables are well-formed.  [inst_ok] shows that the
   hypotheses are satisfiable. *)
From Coq Require Import ZArith List Bool Lia.
From PyDcop Require Import Base Net P_SelectNet M_Mgm M_Mgm2.

(* ------------------------------------------------------------------ generic helpers *)
Lemma Forall_trivial {A} (l : list A) : Forall (fun _ => True) l.
Proof. induction l; constructor; auto. Qed.

Lemma sel_choose_In l x dflt : l <> [] -> In (choose l x dflt) l.
Proof.
  intros H. unfold choose. apply nth_In. unfold zlen.
  assert (0 < Z.of_nat (List.length l)) by (destruct l; [tauto|simpl; lia]).
  pose proof (Z.mod_pos_bound x (Z.of_nat (List.length l)) H0). lia.
Qed.

Lemma sel_argopt_from mx f dom : forall best acc vals b,
  argopt_from mx f dom best acc = (vals, b) -> acc <> [] ->
  vals <> [] /\ (forall x, In x vals -> In x acc \/ In x dom).
Proof.
  induction dom as [|y r IH]; simpl; intros best acc vals b H Hne.
  - inversion H; subst. split; auto.
  - destruct (better mx (f y) best).
    + apply IH in H; [|discriminate]. destruct H as [H1 H2]. split; auto.
      intros x Hx. destruct (H2 x Hx) as [[<-|[]]|]; auto.
    + destruct (f y =? best).
      * apply IH in H; [|destruct acc; discriminate]. destruct H as [H1 H2]. split; auto.
        intros x Hx. destruct (H2 x Hx) as [Hx'|]; auto. apply in_app_or in Hx' as [|[<-|[]]]; auto.
      * apply IH in H; auto. destruct H as [H1 H2]. split; auto.
        intros x Hx. destruct (H2 x Hx); auto.
Qed.

Lemma sel_find_arg_optimal mx f dom vals b :
  find_arg_optimal mx f dom = (vals, b) -> dom <> [] ->
  vals <> [] /\ (forall x, In x vals -> In x dom).
Proof.
  destruct dom as [|y r]; [tauto|]. simpl. intros H _.
  apply sel_argopt_from in H; [|discriminate]. destruct H as [H1 H2]. split; auto.
  intros x Hx. destruct (H2 x Hx) as [[<-|[]]|]; auto.
Qed.

Lemma sel_hd_In (l : list Z) dflt : l <> [] -> In (hd dflt l) l.
Proof. destruct l; [tauto|simpl; auto]. Qed.

Lemma sel_optimal_cost_value d n : dom_of d n <> [] -> In (fst (optimal_cost_value d n)) (dom_of d n).
Proof.
  unfold optimal_cost_value. destruct (dom_of d n) as [|x r]; [tauto|]. intros _.
  cbn [fst].
  assert (G : forall l b, In (snd (fold_left (fun b v => let t := (vcost d n v, v) in
                 if lex_better (d_max d) t b then t else b) l b)) (snd b :: l)).
  { induction l as [|y l IH]; intros b; simpl; auto.
    specialize (IH (if lex_better (d_max d) (vcost d n y, y) b then (vcost d n y, y) else b)).
    destruct IH as [IH|IH]; auto.
    destruct (lex_better (d_max d) (vcost d n y, y) b); simpl in IH; auto. }
  apply (G r (vcost d n x, x)).
Qed.

(* a node is well-formed: non-empty domain, declared initial value in the domain *)
Definition okn (d : dcop) (n : Z) : Prop :=
  dom_of d n <> [] /\ (forall v, v_init (var_of d n) = Some v -> In v (dom_of d n)).

(* the event predicate of both models *)
Definition sel_ev (d : dcop) (e : mev) : Prop :=
  match e with EvValue x v _ _ => okn d x -> In v (dom_of d x) | _ => True end.

(* ================================================================== MGM *)
Definition rok (P : mst -> Prop) (E : mev -> Prop) (r : res) : Prop :=
  P (fst (fst r)) /\ Forall E (snd r).

Lemma rok_ret (P : mst -> Prop) E s : P s -> rok P E (ret s).
Proof. intros H. split; [exact H|constructor]. Qed.

Lemma rok_andthen (P P' : mst -> Prop) E r f :
  rok P E r -> (forall s, P s -> rok P' E (f s)) -> rok P' E (andthen r f).
Proof.
  destruct r as [[s o] e]. intros [H1 H2] Hf. cbn [fst snd] in *.
  specialize (Hf s H1). unfold andthen. destruct (f s) as [[s' o'] e'].
  destruct Hf as [F1 F2]. cbn [fst snd] in *. split; [exact F1|apply Forall_app; auto].
Qed.

Lemma rok_fold (P : mst -> Prop) E (h : mst -> Z -> Z -> res) l : forall r0,
  rok P E r0 -> (forall s a b, P s -> rok P E (h s a b)) ->
  rok P E (fold_left (fun acc m => andthen acc (fun s' => h s' (fst m) (snd m))) l r0).
Proof.
  induction l as [|m l IH]; intros r0 H0 Hh; simpl; auto.
  apply IH; auto. eapply rok_andthen; eauto.
Qed.

Section MgmNode.
  Variable d : dcop.
  Variable stop : Z.
  Variable n : node.
  Let D := dom_of d n.
  (* membership in the domain, under the well-formedness of this node *)
  Definition InD (v : Z) : Prop := okn d n -> In v D.
  (* events of this node: labelled n, value in the domain *)
  Definition mE (e : mev) : Prop :=
    match e with EvValue x v _ _ => x = n /\ InD v | _ => True end.
  Let E := mE.

  (* A: the current value is a domain value; B: so is the pending new value *)
  Definition mA (s : mst) : Prop := exists v, m_value s = Some v /\ InD v.
  Definition mQ (s : mst) : Prop := mA s /\ InD (m_newv s).
  Definition mJ2 (s : mst) : Prop := mA s /\ (m_state s = SGain -> InD (m_newv s)).

  Lemma mQ_J2 s : mQ s -> mJ2 s.
  Proof. intros [H1 H2]. split; auto. Qed.

  (* only three fields matter *)
  Definition same3 (s s' : mst) : Prop :=
    m_value s' = m_value s /\ m_newv s' = m_newv s /\ m_state s' = m_state s.
  Lemma mQ_same3 s s' : same3 s s' -> mQ s -> mQ s'.
  Proof. intros (H1 & H2 & H3) [[v [Hv Hd]] Hb]. split; [exists v; rewrite H1; auto|rewrite H2; auto]. Qed.
  Lemma mJ2_same3 s s' : same3 s s' -> mJ2 s -> mJ2 s'.
  Proof.
    intros (H1 & H2 & H3) [[v [Hv Hd]] Hb]. split; [exists v; rewrite H1; auto|].
    rewrite H2, H3. auto.
  Qed.

  Lemma E_value v c k : InD v -> E (EvValue n v c k).
  Proof. intros H. split; [reflexivity|exact H]. Qed.

  Lemma value_selection_evs s v c : InD v -> Forall E (snd (value_selection n s v c)).
  Proof.
    intros H. unfold value_selection. cbn [snd].
    destruct (option_eqb Z.eqb (m_value s) (Some v)); repeat constructor. apply E_value; auto.
  Qed.

  Lemma value_selection_Q s v c : mQ s -> InD v -> rok mQ E (value_selection n s v c).
  Proof.
    intros [_ Hb] Hv. split; [|apply value_selection_evs; auto].
    unfold value_selection. cbn [fst]. split; [exists v; split; auto|exact Hb].
  Qed.

  Lemma send_value_same3 s : same3 s (fst (fst (send_value d stop n s))).
  Proof.
    unfold send_value. cbv zeta.
    destruct (negb (stop =? 0) && (stop <=? m_cycle s + 1)); cbn; repeat split; reflexivity.
  Qed.
  Lemma send_value_evs s : Forall E (snd (send_value d stop n s)).
  Proof.
    unfold send_value. cbv zeta.
    destruct (negb (stop =? 0) && (stop <=? m_cycle s + 1)); cbn [snd]; repeat constructor.
  Qed.
  Lemma send_value_ok (P : mst -> Prop) s :
    (forall s s', same3 s s' -> P s -> P s') -> P s -> rok P E (send_value d stop n s).
  Proof. intros HP H. split; [eapply HP; [apply send_value_same3|exact H]|apply send_value_evs]. Qed.

  Lemma cbv_spec nv vals c : compute_best_value d n nv = (vals, c) -> okn d n ->
    vals <> [] /\ (forall x, In x vals -> In x D).
  Proof.
    unfold compute_best_value.
    destruct (find_arg_optimal (d_max d) (own_cost d n nv) (dom_of d n)) as [vs b] eqn:Ef.
    intros H Hok. inversion H; subst. eapply sel_find_arg_optimal; eauto. apply Hok.
  Qed.

  (* what _handle_value_message does, for any continuation *)
  Lemma handle_value_shape wfg s src v : mA s ->
    (exists s1, same3 s s1 /\ handle_value d n wfg s src v = ret s1)
    \/ (exists s3 outs, mQ s3 /\ m_state s3 = m_state s /\
          handle_value d n wfg s src v = andthen (s3, outs, []) wfg).
  Proof.
    intros [cv [Hcv Hcd]]. unfold handle_value. cbv zeta.
    destruct (zlen (m_nv (set_nv s (dict_set Z.eqb src v (m_nv s)))) =? zlen (nbrs d n)).
    2:{ left. eexists. split; [|reflexivity]. repeat split; reflexivity. }
    right.
    match goal with |- context [compute_best_value d n ?nv] =>
      destruct (compute_best_value d n nv) as [vals vc] eqn:Ec end.
    pose proof (cbv_spec _ _ _ Ec) as Hc.
    match goal with |- context [if ?b then (let '(x, o) := draw ?oo in _) else _] =>
      destruct b; [destruct (draw oo) as [x o]|] end.
    - eexists. eexists. split; [|split; [|reflexivity]]; [|reflexivity].
      split; [exists cv; split; auto|]. cbn. intros Hok. destruct (Hc Hok) as [Hne Hin].
      apply Hin. apply sel_choose_In. exact Hne.
    - eexists. eexists. split; [|split; [|reflexivity]]; [|reflexivity].
      split; [exists cv; split; auto|]. cbn. unfold cur_value. cbn. rewrite Hcv. exact Hcd.
  Qed.

  Lemma handle_value_Q wfg : (forall s, mQ s -> rok mQ E (wfg s)) ->
    forall s src v, mQ s -> rok mQ E (handle_value d n wfg s src v).
  Proof.
    intros Hw s src v Hs. destruct (handle_value_shape wfg s src v (proj1 Hs)) as [(s1 & H1 & ->)|(s3 & outs & H3 & _ & ->)].
    - apply rok_ret. eapply mQ_same3; eauto.
    - eapply rok_andthen; [|exact Hw]. split; [exact H3|constructor].
  Qed.

  Lemma handle_value_J2 wfg : (forall s, mQ s -> rok mQ E (wfg s)) ->
    forall s src v, mJ2 s -> rok mJ2 E (handle_value d n wfg s src v).
  Proof.
    intros Hw s src v Hs. destruct (handle_value_shape wfg s src v (proj1 Hs)) as [(s1 & H1 & ->)|(s3 & outs & H3 & _ & ->)].
    - apply rok_ret. eapply mJ2_same3; eauto.
    - eapply rok_andthen with (P := mQ); [split; [exact H3|constructor]|].
      intros s' Hs'. destruct (Hw s' Hs') as [W1 W2]. split; [apply mQ_J2; exact W1|exact W2].
  Qed.

  Lemma handle_gain_Q wfv : (forall s, mQ s -> rok mQ E (wfv s)) ->
    forall s src g, mQ s -> rok mQ E (handle_gain d n wfv s src g).
  Proof.
    intros Hw s src g Hs. unfold handle_gain. cbv zeta.
    set (s1 := set_ng s (dict_set Z.eqb src g (m_ng s))).
    assert (H1 : mQ s1) by (eapply mQ_same3; [|exact Hs]; repeat split; reflexivity).
    destruct (zlen (m_ng s1) =? zlen (nbrs d n)); [|apply rok_ret; exact H1].
    eapply rok_andthen with (P := mQ).
    - destruct (wins d n (m_gain s1) (m_ng s1)); [|apply rok_ret; exact H1].
      apply value_selection_Q; [exact H1|exact (proj2 H1)].
    - intros s2 H2. apply Hw. eapply mQ_same3; [|exact H2]. repeat split; reflexivity.
  Qed.

  Lemma wfg_gen_Q hg : (forall s a b, mQ s -> rok mQ E (hg s a b)) ->
    forall s, mQ s -> rok mQ E (wfg_gen hg s).
  Proof.
    intros Hh s [[v [Hv Hd]] Hb]. unfold wfg_gen. cbv zeta.
    eapply rok_andthen with (P := mQ).
    - apply rok_fold; [|exact Hh]. apply rok_ret. split; [exists v; auto|exact Hb].
    - intros s' H'. apply rok_ret. eapply mQ_same3; [|exact H']. repeat split; reflexivity.
  Qed.

  Lemma wfv_gen_Q hv : (forall s a b, mQ s -> rok mQ E (hv s a b)) ->
    forall s, mQ s -> rok mQ E (wfv_gen d stop n hv s).
  Proof.
    intros Hh s [[v [Hv Hd]] Hb]. unfold wfv_gen. cbv zeta.
    eapply rok_andthen with (P := mQ).
    - apply rok_fold; [|exact Hh]. apply send_value_ok; [exact mQ_same3|].
      split; [exists v; auto|exact Hb].
    - intros s' H'. apply rok_ret. eapply mQ_same3; [|exact H']. repeat split; reflexivity.
  Qed.

  Lemma wfv_gen_J2 hv : (forall s a b, mJ2 s -> rok mJ2 E (hv s a b)) ->
    forall s, mA s -> rok mJ2 E (wfv_gen d stop n hv s).
  Proof.
    intros Hh s [v [Hv Hd]]. unfold wfv_gen. cbv zeta.
    eapply rok_andthen with (P := mJ2).
    - apply rok_fold; [|exact Hh]. apply send_value_ok; [exact mJ2_same3|].
      split; [exists v; auto|cbn; discriminate].
    - intros s' H'. apply rok_ret. eapply mJ2_same3; [|exact H']. repeat split; reflexivity.
  Qed.

  Lemma wfv2_Q s : mQ s -> rok mQ E (wfv2 d stop n s).
  Proof.
    intros [[v [Hv Hd]] Hb]. unfold wfv2. eapply rok_andthen with (P := mQ).
    - apply send_value_ok; [exact mQ_same3|]. split; [exists v; auto|exact Hb].
    - intros s' H'. destruct (m_pv s'); [apply rok_ret; exact H'|].
      split; [exact H'|repeat constructor].
  Qed.

  Lemma wfg2_Q s : mQ s -> rok mQ E (wfg2 n s).
  Proof.
    intros [[v [Hv Hd]] Hb]. unfold wfg2.
    assert (mQ (set_state s SGain)) by (split; [exists v; auto|exact Hb]).
    destruct (m_pg s); [apply rok_ret; auto|split; [auto|repeat constructor]].
  Qed.

  Lemma hv1_Q s a b : mQ s -> rok mQ E (hv1 d n s a b).
  Proof. apply handle_value_Q. exact wfg2_Q. Qed.
  Lemma hv1_J2 s a b : mJ2 s -> rok mJ2 E (hv1 d n s a b).
  Proof. apply handle_value_J2. exact wfg2_Q. Qed.
  Lemma hg1_Q s a b : mQ s -> rok mQ E (hg1 d stop n s a b).
  Proof. apply handle_gain_Q. exact wfv2_Q. Qed.
  Lemma wfg1_Q s : mQ s -> rok mQ E (wfg1 d stop n s).
  Proof. apply wfg_gen_Q. exact hg1_Q. Qed.
  Lemma wfv1_Q s : mQ s -> rok mQ E (wfv1 d stop n s).
  Proof. apply wfv_gen_Q. exact hv1_Q. Qed.
  Lemma wfv1_J2 s : mA s -> rok mJ2 E (wfv1 d stop n s).
  Proof. apply wfv_gen_J2. exact hv1_J2. Qed.
  Lemma hv0_J2 s a b : mJ2 s -> rok mJ2 E (hv0 d stop n s a b).
  Proof. apply handle_value_J2. exact wfg1_Q. Qed.
  Lemma hg0_Q s a b : mQ s -> rok mQ E (hg0 d stop n s a b).
  Proof. apply handle_gain_Q. exact wfv1_Q. Qed.

  (* the node invariant: not started yet, or J2 *)
  Definition mJ (s : mst) : Prop := (m_value s = None /\ m_state s = SStarting) \/ mJ2 s.

  Lemma mJ_newv s : mJ s -> m_state s = SGain -> InD (m_newv s).
  Proof. intros [[_ H]|[_ H]]; [rewrite H; discriminate|exact H]. Qed.

  Lemma isolated_choice_In : InD (fst (isolated_choice d n)).
  Proof.
    intros Hok. unfold isolated_choice. destruct (cons_of d n).
    - apply sel_optimal_cost_value. apply Hok.
    - destruct (compute_best_value d n []) as [vals best] eqn:Ec. apply cbv_spec in Ec; [|exact Hok].
      destruct Ec as [Hne Hin]. cbn [fst]. apply Hin. apply sel_hd_In. exact Hne.
  Qed.

  Lemma mgm_start_ok s : mJ s -> rok mJ E (mgm_start d stop n s).
  Proof.
    intros Hs. unfold mgm_start. cbv zeta. destruct (nbrs d n) as [|t nb'].
    - pose proof isolated_choice_In as Hi. destruct (isolated_choice d n) as [v c]. cbn [fst] in Hi.
      eapply rok_andthen with (P := mJ2).
      + split; [|apply value_selection_evs; exact Hi].
        unfold value_selection. cbn [fst]. split; [exists v; auto|]. cbn. apply mJ_newv. exact Hs.
      + intros s1 H1. split; [|repeat constructor]. cbn [fst]. right.
        eapply mJ2_same3; [|exact H1]. repeat split; reflexivity.
    - assert (Hv0 : forall v0 o, (match v_init (var_of d n) with
                           | Some v => (v, m_orc s)
                           | None => let '(x, o) := draw (m_orc s) in (choose (dom_of d n) x 0, o)
                           end) = (v0, o) -> InD v0).
      { intros v0 o H0 Hok. revert H0. destruct (v_init (var_of d n)) as [v|] eqn:Ei.
        - intros H; inversion H; subst. apply (proj2 Hok). exact Ei.
        - destruct (draw (m_orc s)) as [x o']. intros H; inversion H; subst.
          apply sel_choose_In. apply Hok. }
      destruct (match v_init (var_of d n) with
                | Some v => (v, m_orc s)
                | None => let '(x, o) := draw (m_orc s) in (choose (dom_of d n) x 0, o)
                end) as [v0 o] eqn:E0.
      specialize (Hv0 v0 o eq_refl).
      eapply rok_andthen with (P := mA).
      + split; [|apply value_selection_evs; exact Hv0].
        unfold value_selection. cbn [fst]. exists v0; auto.
      + intros s1 H1. destruct (wfv1_J2 s1 H1) as [W1 W2]. split; [right; exact W1|exact W2].
  Qed.

  Lemma mgm_recv_ok s src m : mJ s -> rok mJ E (mgm_recv d stop n s src m).
  Proof.
    intros Hs. unfold mgm_recv.
    assert (Hpost : forall s', same3 s s' -> mJ s').
    { intros s' H3. destruct Hs as [[H1 H2]|H].
      - left. destruct H3 as (E1 & _ & E3). rewrite E1, E3. auto.
      - right. eapply mJ2_same3; eauto. }
    destruct m as [v|g].
    - destruct (m_state s) eqn:Est; try (apply rok_ret; apply Hpost; repeat split; reflexivity).
      destruct Hs as [[_ H]|H]; [congruence|].
      destruct (hv0_J2 s src v H) as [W1 W2]. split; [right; exact W1|exact W2].
    - destruct (m_state s) eqn:Est; try (apply rok_ret; apply Hpost; repeat split; reflexivity).
      destruct Hs as [[_ H]|H]; [congruence|].
      assert (HQ : mQ s) by (split; [exact (proj1 H)|apply (proj2 H); exact Est]).
      destruct (hg0_Q s src g HQ) as [W1 W2]. split; [right; apply mQ_J2; exact W1|exact W2].
  Qed.
End MgmNode.

Lemma mE_sel_ev d n evs : Forall (mE d n) evs -> Forall (sel_ev d) evs.
Proof.
  apply Forall_impl. intros [x v c k| | |]; cbn; auto. intros [-> H]. exact H.
Qed.

Lemma mgm_net_inv d stop orc sched :
  good (mJ d) (fun _ _ _ => True) (fst (run (mgm_proto d stop orc) sched))
  /\ Forall (sel_ev d) (snd (run (mgm_proto d stop orc) sched)).
Proof.
  apply net_inv.
  - intros n. left. split; reflexivity.
  - intros n s s' outs evs HJ Hs. cbn [p_start mgm_proto] in Hs.
    pose proof (mgm_start_ok d stop n s HJ) as [H1 H2]. rewrite Hs in H1, H2.
    split; [exact H1|split; [apply Forall_trivial|apply mE_sel_ev with (n := n); exact H2]].
  - intros n s src m s' outs evs HJ _ Hs. cbn [p_recv mgm_proto] in Hs.
    pose proof (mgm_recv_ok d stop n s src m HJ) as [H1 H2]. rewrite Hs in H1, H2.
    split; [exact H1|split; [apply Forall_trivial|apply mE_sel_ev with (n := n); exact H2]].
Qed.

(* per-node form: only node n has to be well-formed *)
Theorem mgm_selects_in_domain_node : forall d stop orc sched n, okn d n ->
  (forall v c k, In (EvValue n v c k) (snd (run (mgm_proto d stop orc) sched)) -> In v (dom_of d n)) /\
  (forall v, m_value (w_st (nodes (fst (run (mgm_proto d stop orc) sched)) n)) = Some v -> In v (dom_of d n)).
Proof.
  intros d stop orc sched n Hok. destruct (mgm_net_inv d stop orc sched) as [[G _] F]. split.
  - intros v c k Hin. rewrite Forall_forall in F. exact (F _ Hin Hok).
  - intros v Hv. destruct (G n) as [[H _]|[[v' [H1 H2]] _]]; [congruence|].
    rewrite H1 in Hv. inversion Hv; subst. exact (H2 Hok).
Qed.
