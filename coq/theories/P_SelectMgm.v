(* P_SelectMgm.v -- C10 for the MGM and MGM2 models: every value selected lies in the domain.

   For EVERY schedule, every problem instance, every algorithm setting and every random-draw
   oracle, a value-selection event [EvValue n v _ _] emitted by node n carries a value v of
   [dom_of d n], and the current value of n is None or a value of [dom_of d n], PROVIDED that for
   this node n ([okn d n])
     - the domain is not empty, and
     - the declared initial value, if any, is a member of the domain
   (pyDCOP's Variable constructor enforces the second point).  The hypotheses are per node:
   nothing is assumed on the other nodes, not even for MGM2 where the value a node moves to in a
   coordinated move comes from an OFFER message of its partner: the message invariant [Mok2]
   (offers pair a value of the sender's domain with a value of the receiver's domain, accepting
   answers carry a value of the offerer's domain) holds unconditionally.

   Remark on the shape of the hypotheses.  [forall n, dom_of d n <> []] is NOT satisfiable
   ([global_nonempty_unsat]): [var_of d n] of an undeclared id is the empty variable, and a
   schedule may contain [Start n] for any n; an undeclared isolated node that is started "selects"
   the default value 0 of the model ([mgm_undeclared_refuted], [mgm2_undeclared_refuted]).  Hence
   the per-node theorems [*_selects_in_domain_node] and their corollaries [*_selects_in_domain]
   for the declared nodes of a problem all of whose declared variables are well-formed
   ([inst_okn]).  [inst_ok] shows that the hypotheses are satisfiable and [mgm_ex_selects] that
   selections do occur.

   Proof: P_SelectNet.net_inv with, for MGM, the node invariant [mJ] (not started, or current
   value in the domain and, while waiting for gains, pending new value in the domain); for MGM2
   the node invariant [tJ] (current value, potential value [t_pval], the offerer/partner/offers
   bookkeeping [tK] that rules out an accepting answer without value, stored offers and the five
   postponed lists satisfying [Mok2]) and the message invariant [Mok2].  The nested continuations
   (postponed-message replay, _enter_state with fuel) are handled by lemmas generic in the
   continuation. *)
From Coq Require Import ZArith List Bool Lia.
From PyDcop Require Import Base Net P_SelectNet M_Mgm M_Mgm2.

(* ------------------------------------------------------------------ generic helpers *)
Lemma Forall_trivial {A} (l : list A) : Forall (fun _ => True) l.
Proof. induction l; constructor; auto. Qed.

Lemma sel_choose_In l x dflt : l <> [] -> In (choose l x dflt) l.
Proof.
  intros H. unfold choose. apply nth_In. unfold zlen.
  assert (0 < Z.of_nat (List.length l)) by (destruct l; [tauto|simpl; lia]).
  pose proof (Z.mod_pos_bound x (Z.of_nat (List.length l)) H0). lia.
Qed.

Lemma sel_argopt_from mx f dom : forall best acc vals b,
  argopt_from mx f dom best acc = (vals, b) -> acc <> [] ->
  vals <> [] /\ (forall x, In x vals -> In x acc \/ In x dom).
Proof.
  induction dom as [|y r IH]; simpl; intros best acc vals b H Hne.
  - inversion H; subst. split; auto.
  - destruct (better mx (f y) best).
    + apply IH in H; [|discriminate]. destruct H as [H1 H2]. split; auto.
      intros x Hx. destruct (H2 x Hx) as [[<-|[]]|]; auto.
    + destruct (f y =? best).
      * apply IH in H; [|destruct acc; discriminate]. destruct H as [H1 H2]. split; auto.
        intros x Hx. destruct (H2 x Hx) as [Hx'|]; auto. apply in_app_or in Hx' as [|[<-|[]]]; auto.
      * apply IH in H; auto. destruct H as [H1 H2]. split; auto.
        intros x Hx. destruct (H2 x Hx); auto.
Qed.

Lemma sel_find_arg_optimal mx f dom vals b :
  find_arg_optimal mx f dom = (vals, b) -> dom <> [] ->
  vals <> [] /\ (forall x, In x vals -> In x dom).
Proof.
  destruct dom as [|y r]; [tauto|]. simpl. intros H _.
  apply sel_argopt_from in H; [|discriminate]. destruct H as [H1 H2]. split; auto.
  intros x Hx. destruct (H2 x Hx) as [[<-|[]]|]; auto.
Qed.

Lemma sel_hd_In (l : list Z) dflt : l <> [] -> In (hd dflt l) l.
Proof. destruct l; [tauto|simpl; auto]. Qed.

Lemma sel_optimal_cost_value d n : dom_of d n <> [] -> In (fst (optimal_cost_value d n)) (dom_of d n).
Proof.
  unfold optimal_cost_value. destruct (dom_of d n) as [|x r]; [tauto|]. intros _.
  cbn [fst].
  assert (G : forall l b, In (snd (fold_left (fun b v => let t := (vcost d n v, v) in
                 if lex_better (d_max d) t b then t else b) l b)) (snd b :: l)).
  { induction l as [|y l IH]; intros b; simpl; auto.
    specialize (IH (if lex_better (d_max d) (vcost d n y, y) b then (vcost d n y, y) else b)).
    destruct IH as [IH|IH]; auto.
    destruct (lex_better (d_max d) (vcost d n y, y) b); simpl in IH; auto. }
  apply (G r (vcost d n x, x)).
Qed.

(* a node is well-formed: non-empty domain, declared initial value in the domain *)
Definition okn (d : dcop) (n : Z) : Prop :=
  dom_of d n <> [] /\ (forall v, v_init (var_of d n) = Some v -> In v (dom_of d n)).

(* the event predicate of both models *)
Definition sel_ev (d : dcop) (e : mev) : Prop :=
  match e with EvValue x v _ _ => okn d x -> In v (dom_of d x) | _ => True end.

(* ================================================================== MGM *)
Definition rok (P : mst -> Prop) (E : mev -> Prop) (r : res) : Prop :=
  P (fst (fst r)) /\ Forall E (snd r).

Lemma rok_ret (P : mst -> Prop) E s : P s -> rok P E (ret s).
Proof. intros H. split; [exact H|constructor]. Qed.

Lemma rok_andthen (P P' : mst -> Prop) E r f :
  rok P E r -> (forall s, P s -> rok P' E (f s)) -> rok P' E (andthen r f).
Proof.
  destruct r as [[s o] e]. intros [H1 H2] Hf. cbn [fst snd] in *.
  specialize (Hf s H1). unfold andthen. destruct (f s) as [[s' o'] e'].
  destruct Hf as [F1 F2]. cbn [fst snd] in *. split; [exact F1|apply Forall_app; auto].
Qed.

Lemma rok_fold (P : mst -> Prop) E (h : mst -> Z -> Z -> res) l : forall r0,
  rok P E r0 -> (forall s a b, P s -> rok P E (h s a b)) ->
  rok P E (fold_left (fun acc m => andthen acc (fun s' => h s' (fst m) (snd m))) l r0).
Proof.
  induction l as [|m l IH]; intros r0 H0 Hh; simpl; auto.
  apply IH; auto. eapply rok_andthen; eauto.
Qed.

Section MgmNode.
  Variable d : dcop.
  Variable stop : Z.
  Variable n : node.
  Let D := dom_of d n.
  (* membership in the domain, under the well-formedness of this node *)
  Definition InD (v : Z) : Prop := okn d n -> In v D.
  (* events of this node: labelled n, value in the domain *)
  Definition mE (e : mev) : Prop :=
    match e with EvValue x v _ _ => x = n /\ InD v | _ => True end.
  Let E := mE.

  (* A: the current value is a domain value; B: so is the pending new value *)
  Definition mA (s : mst) : Prop := exists v, m_value s = Some v /\ InD v.
  Definition mQ (s : mst) : Prop := mA s /\ InD (m_newv s).
  Definition mJ2 (s : mst) : Prop := mA s /\ (m_state s = SGain -> InD (m_newv s)).

  Lemma mQ_J2 s : mQ s -> mJ2 s.
  Proof. intros [H1 H2]. split; auto. Qed.

  (* only three fields matter *)
  Definition same3 (s s' : mst) : Prop :=
    m_value s' = m_value s /\ m_newv s' = m_newv s /\ m_state s' = m_state s.
  Lemma mQ_same3 s s' : same3 s s' -> mQ s -> mQ s'.
  Proof. intros (H1 & H2 & H3) [[v [Hv Hd]] Hb]. split; [exists v; rewrite H1; auto|rewrite H2; auto]. Qed.
  Lemma mJ2_same3 s s' : same3 s s' -> mJ2 s -> mJ2 s'.
  Proof.
    intros (H1 & H2 & H3) [[v [Hv Hd]] Hb]. split; [exists v; rewrite H1; auto|].
    rewrite H2, H3. auto.
  Qed.

  Lemma E_value v c k : InD v -> E (EvValue n v c k).
  Proof. intros H. split; [reflexivity|exact H]. Qed.

  Lemma value_selection_evs s v c : InD v -> Forall E (snd (value_selection n s v c)).
  Proof.
    intros H. unfold value_selection. cbn [snd].
    destruct (option_eqb Z.eqb (m_value s) (Some v)); repeat constructor. apply E_value; auto.
  Qed.

  Lemma value_selection_Q s v c : mQ s -> InD v -> rok mQ E (value_selection n s v c).
  Proof.
    intros [_ Hb] Hv. split; [|apply value_selection_evs; auto].
    unfold value_selection. cbn [fst]. split; [exists v; split; auto|exact Hb].
  Qed.

  Lemma send_value_same3 s : same3 s (fst (fst (send_value d stop n s))).
  Proof.
    unfold send_value. cbv zeta.
    destruct (negb (stop =? 0) && (stop <=? m_cycle s + 1)); cbn; repeat split; reflexivity.
  Qed.
  Lemma send_value_evs s : Forall E (snd (send_value d stop n s)).
  Proof.
    unfold send_value. cbv zeta.
    destruct (negb (stop =? 0) && (stop <=? m_cycle s + 1)); cbn [snd]; repeat constructor.
  Qed.
  Lemma send_value_ok (P : mst -> Prop) s :
    (forall s s', same3 s s' -> P s -> P s') -> P s -> rok P E (send_value d stop n s).
  Proof. intros HP H. split; [eapply HP; [apply send_value_same3|exact H]|apply send_value_evs]. Qed.

  Lemma cbv_spec nv vals c : compute_best_value d n nv = (vals, c) -> okn d n ->
    vals <> [] /\ (forall x, In x vals -> In x D).
  Proof.
    unfold compute_best_value.
    destruct (find_arg_optimal (d_max d) (own_cost d n nv) (dom_of d n)) as [vs b] eqn:Ef.
    intros H Hok. inversion H; subst. eapply sel_find_arg_optimal; eauto. apply Hok.
  Qed.

  (* what _handle_value_message does, for any continuation *)
  Lemma handle_value_shape wfg s src v : mA s ->
    (exists s1, same3 s s1 /\ handle_value d n wfg s src v = ret s1)
    \/ (exists s3 outs, mQ s3 /\ m_state s3 = m_state s /\
          handle_value d n wfg s src v = andthen (s3, outs, []) wfg).
  Proof.
    intros [cv [Hcv Hcd]]. unfold handle_value. cbv zeta.
    destruct (zlen (m_nv (set_nv s (dict_set Z.eqb src v (m_nv s)))) =? zlen (nbrs d n)).
    2:{ left. eexists. split; [|reflexivity]. repeat split; reflexivity. }
    right.
    match goal with |- context [compute_best_value d n ?nv] =>
      destruct (compute_best_value d n nv) as [vals vc] eqn:Ec end.
    pose proof (cbv_spec _ _ _ Ec) as Hc.
    match goal with |- context [if ?b then (let '(x, o) := draw ?oo in _) else _] =>
      destruct b; [destruct (draw oo) as [x o]|] end.
    - eexists. eexists. split; [|split; [|reflexivity]]; [|reflexivity].
      split; [exists cv; split; auto|]. cbn. intros Hok. destruct (Hc Hok) as [Hne Hin].
      apply Hin. apply sel_choose_In. exact Hne.
    - eexists. eexists. split; [|split; [|reflexivity]]; [|reflexivity].
      split; [exists cv; split; auto|]. cbn. unfold cur_value. cbn. rewrite Hcv. exact Hcd.
  Qed.

  Lemma handle_value_Q wfg : (forall s, mQ s -> rok mQ E (wfg s)) ->
    forall s src v, mQ s -> rok mQ E (handle_value d n wfg s src v).
  Proof.
    intros Hw s src v Hs. destruct (handle_value_shape wfg s src v (proj1 Hs)) as [(s1 & H1 & ->)|(s3 & outs & H3 & _ & ->)].
    - apply rok_ret. eapply mQ_same3; eauto.
    - eapply rok_andthen; [|exact Hw]. split; [exact H3|constructor].
  Qed.

  Lemma handle_value_J2 wfg : (forall s, mQ s -> rok mQ E (wfg s)) ->
    forall s src v, mJ2 s -> rok mJ2 E (handle_value d n wfg s src v).
  Proof.
    intros Hw s src v Hs. destruct (handle_value_shape wfg s src v (proj1 Hs)) as [(s1 & H1 & ->)|(s3 & outs & H3 & _ & ->)].
    - apply rok_ret. eapply mJ2_same3; eauto.
    - eapply rok_andthen with (P := mQ); [split; [exact H3|constructor]|].
      intros s' Hs'. destruct (Hw s' Hs') as [W1 W2]. split; [apply mQ_J2; exact W1|exact W2].
  Qed.

  Lemma handle_gain_Q wfv : (forall s, mQ s -> rok mQ E (wfv s)) ->
    forall s src g, mQ s -> rok mQ E (handle_gain d n wfv s src g).
  Proof.
    intros Hw s src g Hs. unfold handle_gain. cbv zeta.
    set (s1 := set_ng s (dict_set Z.eqb src g (m_ng s))).
    assert (H1 : mQ s1) by (eapply mQ_same3; [|exact Hs]; repeat split; reflexivity).
    destruct (zlen (m_ng s1) =? zlen (nbrs d n)); [|apply rok_ret; exact H1].
    eapply rok_andthen with (P := mQ).
    - destruct (wins d n (m_gain s1) (m_ng s1)); [|apply rok_ret; exact H1].
      apply value_selection_Q; [exact H1|exact (proj2 H1)].
    - intros s2 H2. apply Hw. eapply mQ_same3; [|exact H2]. repeat split; reflexivity.
  Qed.

  Lemma wfg_gen_Q hg : (forall s a b, mQ s -> rok mQ E (hg s a b)) ->
    forall s, mQ s -> rok mQ E (wfg_gen hg s).
  Proof.
    intros Hh s [[v [Hv Hd]] Hb]. unfold wfg_gen. cbv zeta.
    eapply rok_andthen with (P := mQ).
    - apply rok_fold; [|exact Hh]. apply rok_ret. split; [exists v; auto|exact Hb].
    - intros s' H'. apply rok_ret. eapply mQ_same3; [|exact H']. repeat split; reflexivity.
  Qed.

  Lemma wfv_gen_Q hv : (forall s a b, mQ s -> rok mQ E (hv s a b)) ->
    forall s, mQ s -> rok mQ E (wfv_gen d stop n hv s).
  Proof.
    intros Hh s [[v [Hv Hd]] Hb]. unfold wfv_gen. cbv zeta.
    eapply rok_andthen with (P := mQ).
    - apply rok_fold; [|exact Hh]. apply send_value_ok; [exact mQ_same3|].
      split; [exists v; auto|exact Hb].
    - intros s' H'. apply rok_ret. eapply mQ_same3; [|exact H']. repeat split; reflexivity.
  Qed.

  Lemma wfv_gen_J2 hv : (forall s a b, mJ2 s -> rok mJ2 E (hv s a b)) ->
    forall s, mA s -> rok mJ2 E (wfv_gen d stop n hv s).
  Proof.
    intros Hh s [v [Hv Hd]]. unfold wfv_gen. cbv zeta.
    eapply rok_andthen with (P := mJ2).
    - apply rok_fold; [|exact Hh]. apply send_value_ok; [exact mJ2_same3|].
      split; [exists v; auto|cbn; discriminate].
    - intros s' H'. apply rok_ret. eapply mJ2_same3; [|exact H']. repeat split; reflexivity.
  Qed.

  Lemma wfv2_Q s : mQ s -> rok mQ E (wfv2 d stop n s).
  Proof.
    intros [[v [Hv Hd]] Hb]. unfold wfv2. eapply rok_andthen with (P := mQ).
    - apply send_value_ok; [exact mQ_same3|]. split; [exists v; auto|exact Hb].
    - intros s' H'. destruct (m_pv s'); [apply rok_ret; exact H'|].
      split; [exact H'|repeat constructor].
  Qed.

  Lemma wfg2_Q s : mQ s -> rok mQ E (wfg2 n s).
  Proof.
    intros [[v [Hv Hd]] Hb]. unfold wfg2.
    assert (mQ (set_state s SGain)) by (split; [exists v; auto|exact Hb]).
    destruct (m_pg s); [apply rok_ret; auto|split; [auto|repeat constructor]].
  Qed.

  Lemma hv1_Q s a b : mQ s -> rok mQ E (hv1 d n s a b).
  Proof. apply handle_value_Q. exact wfg2_Q. Qed.
  Lemma hv1_J2 s a b : mJ2 s -> rok mJ2 E (hv1 d n s a b).
  Proof. apply handle_value_J2. exact wfg2_Q. Qed.
  Lemma hg1_Q s a b : mQ s -> rok mQ E (hg1 d stop n s a b).
  Proof. apply handle_gain_Q. exact wfv2_Q. Qed.
  Lemma wfg1_Q s : mQ s -> rok mQ E (wfg1 d stop n s).
  Proof. apply wfg_gen_Q. exact hg1_Q. Qed.
  Lemma wfv1_Q s : mQ s -> rok mQ E (wfv1 d stop n s).
  Proof. apply wfv_gen_Q. exact hv1_Q. Qed.
  Lemma wfv1_J2 s : mA s -> rok mJ2 E (wfv1 d stop n s).
  Proof. apply wfv_gen_J2. exact hv1_J2. Qed.
  Lemma hv0_J2 s a b : mJ2 s -> rok mJ2 E (hv0 d stop n s a b).
  Proof. apply handle_value_J2. exact wfg1_Q. Qed.
  Lemma hg0_Q s a b : mQ s -> rok mQ E (hg0 d stop n s a b).
  Proof. apply handle_gain_Q. exact wfv1_Q. Qed.

  (* the node invariant: not started yet, or J2 *)
  Definition mJ (s : mst) : Prop := (m_value s = None /\ m_state s = SStarting) \/ mJ2 s.

  Lemma mJ_newv s : mJ s -> m_state s = SGain -> InD (m_newv s).
  Proof. intros [[_ H]|[_ H]]; [rewrite H; discriminate|exact H]. Qed.

  Lemma isolated_choice_In : InD (fst (isolated_choice d n)).
  Proof.
    intros Hok. unfold isolated_choice. destruct (cons_of d n).
    - apply sel_optimal_cost_value. apply Hok.
    - destruct (compute_best_value d n []) as [vals best] eqn:Ec. apply cbv_spec in Ec; [|exact Hok].
      destruct Ec as [Hne Hin]. cbn [fst]. apply Hin. apply sel_hd_In. exact Hne.
  Qed.

  Lemma mgm_start_ok s : mJ s -> rok mJ E (mgm_start d stop n s).
  Proof.
    intros Hs. unfold mgm_start. cbv zeta. destruct (nbrs d n) as [|t nb'].
    - pose proof isolated_choice_In as Hi. destruct (isolated_choice d n) as [v c]. cbn [fst] in Hi.
      eapply rok_andthen with (P := mJ2).
      + split; [|apply value_selection_evs; exact Hi].
        unfold value_selection. cbn [fst]. split; [exists v; auto|]. cbn. apply mJ_newv. exact Hs.
      + intros s1 H1. split; [|repeat constructor]. cbn [fst]. right.
        eapply mJ2_same3; [|exact H1]. repeat split; reflexivity.
    - assert (Hv0 : forall v0 o, (match v_init (var_of d n) with
                           | Some v => (v, m_orc s)
                           | None => let '(x, o) := draw (m_orc s) in (choose (dom_of d n) x 0, o)
                           end) = (v0, o) -> InD v0).
      { intros v0 o H0 Hok. revert H0. destruct (v_init (var_of d n)) as [v|] eqn:Ei.
        - intros H; inversion H; subst. apply (proj2 Hok). exact Ei.
        - destruct (draw (m_orc s)) as [x o']. intros H; inversion H; subst.
          apply sel_choose_In. apply Hok. }
      destruct (match v_init (var_of d n) with
                | Some v => (v, m_orc s)
                | None => let '(x, o) := draw (m_orc s) in (choose (dom_of d n) x 0, o)
                end) as [v0 o] eqn:E0.
      specialize (Hv0 v0 o eq_refl).
      eapply rok_andthen with (P := mA).
      + split; [|apply value_selection_evs; exact Hv0].
        unfold value_selection. cbn [fst]. exists v0; auto.
      + intros s1 H1. destruct (wfv1_J2 s1 H1) as [W1 W2]. split; [right; exact W1|exact W2].
  Qed.

  Lemma mgm_recv_ok s src m : mJ s -> rok mJ E (mgm_recv d stop n s src m).
  Proof.
    intros Hs. unfold mgm_recv.
    assert (Hpost : forall s', same3 s s' -> mJ s').
    { intros s' H3. destruct Hs as [[H1 H2]|H].
      - left. destruct H3 as (E1 & _ & E3). rewrite E1, E3. auto.
      - right. eapply mJ2_same3; eauto. }
    destruct m as [v|g].
    - destruct (m_state s) eqn:Est; try (apply rok_ret; apply Hpost; repeat split; reflexivity).
      destruct Hs as [[_ H]|H]; [congruence|].
      destruct (hv0_J2 s src v H) as [W1 W2]. split; [right; exact W1|exact W2].
    - destruct (m_state s) eqn:Est; try (apply rok_ret; apply Hpost; repeat split; reflexivity).
      destruct Hs as [[_ H]|H]; [congruence|].
      assert (HQ : mQ s) by (split; [exact (proj1 H)|apply (proj2 H); exact Est]).
      destruct (hg0_Q s src g HQ) as [W1 W2]. split; [right; apply mQ_J2; exact W1|exact W2].
  Qed.
End MgmNode.

Lemma mE_sel_ev d n evs : Forall (mE d n) evs -> Forall (sel_ev d) evs.
Proof.
  apply Forall_impl. intros [x v c k| | |]; cbn; auto. intros [-> H]. exact H.
Qed.

Lemma mgm_net_inv d stop orc sched :
  good (mJ d) (fun _ _ _ => True) (fst (run (mgm_proto d stop orc) sched))
  /\ Forall (sel_ev d) (snd (run (mgm_proto d stop orc) sched)).
Proof.
  apply net_inv.
  - intros n. left. split; reflexivity.
  - intros n s s' outs evs HJ Hs. cbn [p_start mgm_proto] in Hs.
    pose proof (mgm_start_ok d stop n s HJ) as [H1 H2]. rewrite Hs in H1, H2.
    split; [exact H1|split; [apply Forall_trivial|apply mE_sel_ev with (n := n); exact H2]].
  - intros n s src m s' outs evs HJ _ Hs. cbn [p_recv mgm_proto] in Hs.
    pose proof (mgm_recv_ok d stop n s src m HJ) as [H1 H2]. rewrite Hs in H1, H2.
    split; [exact H1|split; [apply Forall_trivial|apply mE_sel_ev with (n := n); exact H2]].
Qed.

(* per-node form: only node n has to be well-formed *)
Theorem mgm_selects_in_domain_node : forall d stop orc sched n, okn d n ->
  (forall v c k, In (EvValue n v c k) (snd (run (mgm_proto d stop orc) sched)) -> In v (dom_of d n)) /\
  (forall v, m_value (w_st (nodes (fst (run (mgm_proto d stop orc) sched)) n)) = Some v -> In v (dom_of d n)).
Proof.
  intros d stop orc sched n Hok. destruct (mgm_net_inv d stop orc sched) as [[G _] F]. split.
  - intros v c k Hin. rewrite Forall_forall in F. exact (F _ Hin Hok).
  - intros v Hv. destruct (G n) as [[H _]|[[v' [H1 H2]] _]]; [congruence|].
    rewrite H1 in Hv. inversion Hv; subst. exact (H2 Hok).
Qed.

(* the hypotheses for all the declared variables of a problem *)
Definition inst_okn (d : dcop) : Prop := forall n, In n (map fst (d_vars d)) -> okn d n.

Theorem mgm_selects_in_domain : forall d stop orc sched, inst_okn d ->
  (forall n v c k, In n (map fst (d_vars d)) ->
     In (EvValue n v c k) (snd (run (mgm_proto d stop orc) sched)) -> In v (dom_of d n)) /\
  (forall n v, In n (map fst (d_vars d)) ->
     m_value (w_st (nodes (fst (run (mgm_proto d stop orc) sched)) n)) = Some v -> In v (dom_of d n)).
Proof.
  intros d stop orc sched Hd. split.
  - intros n v c k Hn. apply (mgm_selects_in_domain_node d stop orc sched n (Hd n Hn)).
  - intros n v Hn. apply (mgm_selects_in_domain_node d stop orc sched n (Hd n Hn)).
Qed.

(* non-vacuity: a two-variable instance satisfying the hypotheses *)
Definition inst_ex : dcop :=
  mkD [(0, mkV [1; 2] (Some 2) []); (1, mkV [5; 7] None [])]
      [mkC [0; 1] [([1; 5], 3); ([2; 7], 1)]] false.
Example inst_ok : inst_okn inst_ex.
Proof.
  intros n [<-|[<-|[]]]; (split; [discriminate|]); cbn; intros v H; inversion H; subst; auto.
Qed.

(* some id is always undeclared, so a global non-emptiness hypothesis would be vacuous *)
Lemma zlookup_fresh {V} (l : list (Z * V)) n : (forall k, In k (map fst l) -> k < n) -> zlookup n l = None.
Proof.
  induction l as [|[k v] l IH]; intros H; [reflexivity|]. unfold zlookup in *. simpl.
  destruct (n =? k) eqn:Ek.
  - apply Z.eqb_eq in Ek. specialize (H k (or_introl eq_refl)). lia.
  - apply IH. intros k' Hk'. apply H. right. exact Hk'.
Qed.
Lemma global_nonempty_unsat d : ~ (forall n, dom_of d n <> []).
Proof.
  intros H. apply (H (1 + fold_right Z.max 0 (map fst (d_vars d)))).
  unfold dom_of, var_of. rewrite zlookup_fresh; [reflexivity|].
  intros k Hk. induction (map fst (d_vars d)) as [|x l IH]; [destruct Hk|].
  cbn [fold_right]. destruct Hk as [->|Hk]; [lia|]. specialize (IH Hk). lia.
Qed.

(* the restriction to well-formed nodes is needed: a schedule may start an undeclared id, whose
   variable is the empty one; being isolated it "selects" the default 0 of optimal_cost_value *)
Example mgm_undeclared_refuted :
  exists d stop orc sched n v c k, inst_okn d /\
    In (EvValue n v c k) (snd (run (mgm_proto d stop orc) sched)) /\ ~ In v (dom_of d n).
Proof.
  exists inst_ex, 0, (fun _ => []), [Start 9], 9, 0, (Some 0), 0.
  split; [exact inst_ok|]. split; [vm_compute; auto|vm_compute; tauto].
Qed.

(* ================================================================== MGM2 *)
(* Message invariant: the offers (vs, vr, gain) carried by an OFFER message from src to dst pair
   a value of src's domain with a value of dst's domain; an accepting ANSWER carries a value of
   the domain of its destination (the offerer).  Both hold without any hypothesis: offers are
   enumerated from the two domains, and the accepted pair is taken from a received offer. *)
Definition Mok2 (d : dcop) (src dst : node) (m : m2msg) : Prop :=
  match m with
  | M2Offer _ os => forall a b g, In (a, b, g) os -> In a (dom_of d src) /\ In b (dom_of d dst)
  | M2Answer acc v _ => acc = true -> exists x, v = Some x /\ In x (dom_of d dst)
  | _ => True
  end.

Definition rok2 (P : m2st -> Prop) (O : node * m2msg -> Prop) (E : mev -> Prop) (r : res2) : Prop :=
  P (fst (fst r)) /\ Forall O (snd (fst r)) /\ Forall E (snd r).

Lemma rok2_ret (P : m2st -> Prop) O E s : P s -> rok2 P O E (ret2 s).
Proof. intros H. split; [exact H|split; constructor]. Qed.

Lemma rok2_andthen (P P' : m2st -> Prop) O E r f :
  rok2 P O E r -> (forall s, P s -> rok2 P' O E (f s)) -> rok2 P' O E (andthen2 r f).
Proof.
  destruct r as [[s o] e]. intros (H1 & H2 & H3) Hf. cbn [fst snd] in *.
  specialize (Hf s H1). unfold andthen2. destruct (f s) as [[s' o'] e'].
  destruct Hf as (F1 & F2 & F3). cbn [fst snd] in *.
  split; [exact F1|split; apply Forall_app; auto].
Qed.

Lemma rok2_weaken (P P' : m2st -> Prop) O E r :
  (forall s, P s -> P' s) -> rok2 P O E r -> rok2 P' O E r.
Proof. intros H (H1 & H2 & H3). split; auto. Qed.

Lemma sel_In_insert_sorted {A} (leb : A -> A -> bool) x y l :
  In y (insert_sorted leb x l) <-> y = x \/ In y l.
Proof.
  induction l as [|z l IH]; simpl; [intuition|].
  destruct (leb x z); simpl; [intuition|]. rewrite IH. intuition.
Qed.
Lemma sel_In_isort {A} (leb : A -> A -> bool) y l : In y (isort leb l) <-> In y l.
Proof.
  induction l as [|x l IH]; simpl; [tauto|].
  unfold isort in *. simpl. rewrite sel_In_insert_sorted, IH. intuition.
Qed.

Lemma pop_last_spec {A} (l : list A) rest x : pop_last l = Some (rest, x) -> l = rest ++ [x].
Proof.
  revert rest x. induction l as [|y l IH]; simpl; intros rest x H; [discriminate|].
  destruct (pop_last l) as [[r' z]|] eqn:Ep.
  - inversion H; subst. rewrite (IH _ _ eq_refl). reflexivity.
  - inversion H; subst. destruct l as [|w l]; [reflexivity|].
    simpl in Ep. destruct (pop_last l) as [[? ?]|]; discriminate.
Qed.

Section Mgm2Node.
  Variable d : dcop.
  Variable stop thr favor : Z.
  Variable n : node.
  Let D := dom_of d n.
  Let E := mE d n.
  Let Om := fun dm : node * m2msg => Mok2 d n (fst dm) (snd dm).
  Let F := fun sm : Z * m2msg => Mok2 d (fst sm) n (snd sm).
  Let InD := InD d n.

  (* components of the invariant *)
  Definition tA (s : m2st) : Prop := exists v, t_value s = Some v /\ InD v.
  Definition tL (s : m2st) : Prop :=
    match t_pval s with Some v => InD v | None => t_pgain s = 0 /\ t_canmove s = false end.
  Definition tK (s : m2st) : Prop :=
    t_offerer s = false -> t_partner s = None \/ zlen (nbrs d n) <= zlen (t_offers s).
  Definition tO (s : m2st) : Prop := Forall F (t_offers s).
  Definition tS (s : m2st) : Prop :=
    Forall F (t_pvalue s) /\ Forall F (t_poffer s) /\ Forall F (t_panswer s)
    /\ Forall F (t_pgainm s) /\ Forall F (t_pgo s).
  Definition tR (s : m2st) : Prop := tL s /\ tK s /\ tO s /\ tS s.
  Definition tP (s : m2st) : Prop := tA s /\ tR s.

  Lemma tS_get s k : tS s -> Forall F (get_post s k).
  Proof.
    intros (H1 & H2 & H3 & H4 & H5). unfold get_post.
    destruct (k =? 1); auto. destruct (k =? 2); auto. destruct (k =? 3); auto. destruct (k =? 4); auto.
  Qed.

  Lemma tP_set_post s k l : tP s -> Forall F l -> tP (set_post s k l).
  Proof.
    intros (HA & HL & HK & HO & (H1 & H2 & H3 & H4 & H5)) Hl. unfold set_post.
    destruct (k =? 1); [|destruct (k =? 2); [|destruct (k =? 3); [|destruct (k =? 4)]]];
      (split; [exact HA|split; [exact HL|split; [exact HK|split; [exact HO|]]]]);
      unfold tS; cbn; auto.
  Qed.

  Lemma tR_set_post s k l : tR s -> Forall F l -> tR (set_post s k l).
  Proof.
    intros (HL & HK & HO & (H1 & H2 & H3 & H4 & H5)) Hl. unfold set_post.
    destruct (k =? 1); [|destruct (k =? 2); [|destruct (k =? 3); [|destruct (k =? 4)]]];
      (split; [exact HL|split; [exact HK|split; [exact HO|]]]);
      unfold tS; cbn; auto.
  Qed.

  Lemma set_post_value s k l : t_value (set_post s k l) = t_value s /\ t_state (set_post s k l) = t_state s.
  Proof.
    unfold set_post.
    destruct (k =? 1); [|destruct (k =? 2); [|destruct (k =? 3); [|destruct (k =? 4)]]]; split; reflexivity.
  Qed.

  Lemma E2_value v c k : InD v -> E (EvValue n v c k).
  Proof. intros H. split; [reflexivity|exact H]. Qed.

  (* value_selection2 touches current_value and current_cost only *)
  Lemma value_selection2_ok s v c : tR s -> InD v -> rok2 tP Om E (value_selection2 n s v c).
  Proof.
    intros HR Hv. unfold value_selection2. split; [|split]; cbn [fst snd].
    - split; [exists v; split; [reflexivity|exact Hv]|exact HR].
    - constructor.
    - destruct (option_eqb Z.eqb (t_value s) (Some v)); [constructor|].
      constructor; [apply E2_value; exact Hv|constructor].
  Qed.

  Lemma send_value2_ok s : tP s -> rok2 tP Om E (send_value2 d stop n s).
  Proof.
    intros H. unfold send_value2. cbv zeta.
    destruct (negb (stop =? 0) && (stop <=? t_cycle s + 1)); (split; [exact H|split]); cbn [fst snd].
    - constructor.
    - repeat constructor.
    - apply Forall_forall. intros [t m] Hin. apply in_map_iff in Hin. destruct Hin as (t' & Heq & _).
      inversion Heq; subst. exact I.
    - repeat constructor.
  Qed.

  Lemma send_gain2_ok s : tP s -> rok2 tP Om E (send_gain2 d n s).
  Proof.
    intros H. unfold send_gain2. split; [exact H|split]; cbn [fst snd]; [|constructor].
    apply Forall_forall. intros [t m] Hin. apply in_map_iff in Hin. destruct Hin as (t' & Heq & _).
    inversion Heq; subst. exact I.
  Qed.

  Lemma cbv2_spec nv vals c : compute_best_value2 d n nv = (vals, c) -> okn d n ->
    vals <> [] /\ (forall x, In x vals -> In x D).
  Proof.
    unfold compute_best_value2. intros H Hok. eapply sel_find_arg_optimal; eauto. apply Hok.
  Qed.

  Lemma compute_offers_ok s p a b g : In (a, b, g) (compute_offers d n s p) ->
    In a (dom_of d n) /\ In b (dom_of d p).
  Proof.
    unfold compute_offers. intros H. apply in_flat_map in H. destruct H as (dp & Hdp & H).
    apply in_flat_map in H. destruct H as (ds & Hds & H).
    destruct (better _ _ _); [|destruct H]. destruct H as [H|[]]. inversion H; subst. auto.
  Qed.

  (* the best offers come from the received offers *)
  Lemma find_best_offer_spec (G : Z * Z * Z -> Prop) s all :
    (forall p os vp vme pg, In (p, os) all -> In (vp, vme, pg) os -> G (vp, vme, p)) ->
    forall t, In t (fst (find_best_offer d n s all)) -> G t.
  Proof.
    unfold find_best_offer. cbv zeta.
    assert (Gen : forall all acc,
      (forall p os vp vme pg, In (p, os) all -> In (vp, vme, pg) os -> G (vp, vme, p)) ->
      (forall t, In t (fst acc) -> G t) ->
      forall t, In t (fst (fold_left (fun acc po =>
        fold_left (fun acc2 o =>
          let '(vp, vme, pg) := o in
          let '(bests, best) := acc2 in
          let gg := cost2 s - cost_at (filter (fun c => negb (zmem (fst po) (c_scope c))) (cons_of d n))
                                      (view2 n (t_nv s) vme (fst po) vp) + pg in
          if (if d_max d then gg <? best else best <? gg) then ([(vp, vme, fst po)], gg)
          else if gg =? best then (bests ++ [(vp, vme, fst po)], best)
          else acc2) (snd po) acc) all acc)) -> G t).
    { clear all. induction all as [|[p os] all IH]; intros acc Hall Hacc; simpl; [exact Hacc|].
      apply IH; [intros; eapply Hall; [right|]; eauto|].
      assert (Hos : forall vp vme pg, In (vp, vme, pg) os -> G (vp, vme, p))
        by (intros; eapply Hall; [left; reflexivity|eauto]).
      clear Hall IH. revert acc Hacc. induction os as [|[[vp vme] pg] os IH2]; intros acc Hacc; simpl; [exact Hacc|].
      apply IH2; [intros vp' vme' pg' Hi; apply (Hos vp' vme' pg'); right; exact Hi|].
      destruct acc as [bests best]. cbn [fst] in Hacc.
      match goal with |- context [if ?c then _ else _] => destruct c end.
      - intros t [<-|[]]. apply (Hos vp vme pg). left; reflexivity.
      - match goal with |- context [if ?c then _ else _] => destruct c end; [|exact Hacc].
        cbn [fst]. intros t Ht. apply in_app_or in Ht. destruct Ht as [Ht|[<-|[]]]; auto.
        apply (Hos vp vme pg). left; reflexivity. }
    intros Hall. apply Gen; [exact Hall|]. intros t [].
  Qed.

  Lemma offering_In l p os : In (p, os) (offering l) -> In (p, M2Offer true os) l.
  Proof.
    unfold offering. intros H. apply in_flat_map in H. destruct H as ([src m] & Hin & H).
    cbn [fst snd] in H. destruct m as [| |o os'| |]; try destruct H. destruct o; [|destruct H].
    destruct H as [H|[]]. inversion H; subst. exact Hin.
  Qed.

  Lemma opt_is_true o x : opt_is o x = true -> o = Some x.
  Proof. destruct o as [y|]; simpl; [|discriminate]. intros H. apply Z.eqb_eq in H. now subst. Qed.

  Section Handlers2.
    Variable enter : Z -> m2st -> res2.
    Hypothesis Henter : forall k s, tP s -> rok2 tP Om E (enter k s).

    Lemma clear_agent_P s : tA s -> tS s -> tP (clear_agent s).
    Proof.
      intros HA HS. split; [exact HA|]. split; [|split; [|split]].
      - unfold tL. cbn. auto.
      - intros _. left. reflexivity.
      - unfold tO. cbn. constructor.
      - exact HS.
    Qed.

    Lemma finish_cycle_ok s : tA s -> tS s -> rok2 tP Om E (finish_cycle d stop n enter s).
    Proof.
      intros HA HS. unfold finish_cycle. eapply rok2_andthen; [|apply Henter].
      apply send_value2_ok. apply clear_agent_P; auto.
    Qed.

    Lemma finish_cycle_P s : tP s -> rok2 tP Om E (finish_cycle d stop n enter s).
    Proof. intros (HA & _ & _ & _ & HS). apply finish_cycle_ok; auto. Qed.

    Lemma hvm_ok s : tP s -> rok2 tP Om E (handle_value_messages d thr n enter s).
    Proof.
      intros (HA & HL & HK & HO & HS). unfold handle_value_messages. cbv zeta.
      destruct (draw (t_orc (set_t_cost s (Some (local_at d n (view1 n (t_nv s) (cur2 s))))))) as [k o1].
      assert (Hcur : InD (cur2 s)).
      { destruct HA as [v [Hv Hd]]. unfold cur2. rewrite Hv. exact Hd. }
      destruct (k <? thr).
      - destruct (draw o1) as [x o].
        match goal with |- context [compute_best_value2 d n ?nv] =>
          destruct (compute_best_value2 d n nv) as [vals best] eqn:Ec end.
        pose proof (cbv2_spec _ _ _ Ec) as Hc.
        match goal with |- context [if ?b then (let '(x, o) := draw ?oo in _) else _] =>
          destruct b; [destruct (draw oo) as [x' o']|] end;
        (eapply rok2_andthen; [|apply Henter]).
        + split; [|split]; cbn [fst snd]; [|shelve|constructor].
          split; [exact HA|split; [|split; [|split; [exact HO|exact HS]]]].
          * unfold tL. cbn. intros Hok. destruct (Hc Hok) as [Hne Hin]. apply Hin. apply sel_choose_In. exact Hne.
          * intros Hf. cbn in Hf. discriminate.
        + split; [|split]; cbn [fst snd]; [|shelve|constructor].
          split; [exact HA|split; [|split; [|split; [exact HO|exact HS]]]].
          * unfold tL. cbn. exact Hcur.
          * intros Hf. cbn in Hf. discriminate.
      - match goal with |- context [compute_best_value2 d n ?nv] =>
          destruct (compute_best_value2 d n nv) as [vals best] eqn:Ec end.
        pose proof (cbv2_spec _ _ _ Ec) as Hc.
        match goal with |- context [if ?b then (let '(x, o) := draw ?oo in _) else _] =>
          destruct b; [destruct (draw oo) as [x' o']|] end;
        (eapply rok2_andthen; [|apply Henter]).
        + split; [|split]; cbn [fst snd]; [|shelve|constructor].
          split; [exact HA|split; [|split; [|split; [exact HO|exact HS]]]].
          * unfold tL. cbn. intros Hok. destruct (Hc Hok) as [Hne Hin]. apply Hin. apply sel_choose_In. exact Hne.
          * intros _. left. reflexivity.
        + split; [|split]; cbn [fst snd]; [|shelve|constructor].
          split; [exact HA|split; [|split; [|split; [exact HO|exact HS]]]].
          * unfold tL. cbn. exact Hcur.
          * intros _. left. reflexivity.
      Unshelve.
      all: apply Forall_forall; intros [t m] Hin; apply in_map_iff in Hin; destruct Hin as (t' & Heq & _);
        match type of Heq with (if ?c then _ else _) = _ => destruct c end; inversion Heq; subst;
        unfold Om; cbn [fst snd Mok2]; intros a b g Hi; [eapply compute_offers_ok; exact Hi|destruct Hi].
    Qed.

    Lemma pval_InD s : tL s -> (t_pgain s <> 0 \/ t_canmove s = true) ->
      InD (match t_pval s with Some v => v | None => 0 end).
    Proof.
      unfold tL. destruct (t_pval s) as [v|]; [auto|]. intros [H1 H2] [H|H]; [tauto|congruence].
    Qed.

    Lemma hgm_ok s : tP s -> rok2 tP Om E (handle_gain_messages d stop n enter s).
    Proof.
      intros HP. pose proof HP as (HA & HL & HK & HO & HS). unfold handle_gain_messages. cbv zeta.
      destruct (t_pgain s =? 0) eqn:Eg; [apply finish_cycle_P; exact HP|]. apply Z.eqb_neq in Eg.
      destruct (t_committed s).
      - destruct (t_partner s) as [p|] eqn:Ep.
        + eapply rok2_andthen; [|apply Henter]. split; [|split]; cbn [fst snd]; [|repeat constructor|constructor].
          split; [exact HA|split; [|split; [exact HK|split; [exact HO|exact HS]]]].
          revert HL. unfold tL. cbn. destruct (t_pval s); [auto|]. intros [H _]. tauto.
        + split; [exact HP|split; repeat constructor].
      - eapply rok2_andthen; [|apply finish_cycle_P].
        match goal with |- context [if ?c then value_selection2 _ _ _ _ else _] => destruct c end.
        + apply value_selection2_ok; [split; [exact HL|split; [exact HK|split; [exact HO|exact HS]]]|].
          apply pval_InD; auto.
        + apply rok2_ret. exact HP.
    Qed.

    Lemma hgo_ok s go : tP s -> rok2 tP Om E (handle_go d stop n enter s go).
    Proof.
      intros HP. pose proof HP as (HA & HR). pose proof HR as (HL & _). unfold handle_go. cbv zeta.
      eapply rok2_andthen; [|apply finish_cycle_P].
      destruct (go && t_canmove s) eqn:Eg.
      - apply andb_true_iff in Eg. destruct Eg as [_ Eg].
        apply value_selection2_ok; [exact HR|]. apply pval_InD; auto.
      - apply rok2_ret. exact HP.
    Qed.

    Lemma hresp_ok s src acc v g : tP s -> Mok2 d src n (M2Answer acc v g) ->
      rok2 tP Om E (handle_response d n enter s src acc v g).
    Proof.
      intros HP Hm. pose proof HP as (HA & HL & HK & HO & HS). unfold handle_response.
      destruct (negb (opt_is (t_partner s) src) || negb (t_offerer s)).
      - split; [exact HP|split; repeat constructor].
      - eapply rok2_andthen; [|apply Henter]. apply send_gain2_ok.
        destruct acc.
        + cbn in Hm. destruct (Hm eq_refl) as (x & -> & Hx).
          split; [exact HA|split; [|split; [exact HK|split; [exact HO|exact HS]]]].
          unfold tL. cbn. intros _. exact Hx.
        + split; [exact HA|split; [|split; [exact HK|split; [exact HO|exact HS]]]]. exact HL.
    Qed.

    (* the offers stored by this node pair a value of the offerer with a value of this node *)
    Lemma offers_good s : tO s ->
      forall p os vp vme pg, In (p, os) (offering (t_offers s)) -> In (vp, vme, pg) os ->
        In vp (dom_of d p) /\ In vme (dom_of d n).
    Proof.
      intros HO p os vp vme pg Hin Hi. apply offering_In in Hin.
      unfold tO in HO. rewrite Forall_forall in HO. specialize (HO _ Hin). cbn in HO. eapply HO; eauto.
    Qed.

    Lemma hom_ok s : tP s -> (t_offerer s = false -> t_partner s = None) ->
      zlen (nbrs d n) <= zlen (t_offers s) -> rok2 tP Om E (handle_offer_messages d favor n enter s).
    Proof.
      intros HP Hpart Hlen. pose proof HP as (HA & HL & HK & HO & HS). unfold handle_offer_messages. cbv zeta.
      destruct (t_offerer s) eqn:Eo.
      - eapply rok2_andthen; [|apply Henter]. split; [exact HP|split]; cbn [fst snd]; [|constructor].
        apply Forall_forall. intros [t m] Hin. apply in_map_iff in Hin. destruct Hin as (t' & Heq & _).
        inversion Heq; subst. unfold Om. cbn. discriminate.
      - specialize (Hpart eq_refl).
        destruct (find_best_offer d n s (offering (t_offers s))) as [bests gain] eqn:Ef.
        pose proof (find_best_offer_spec (fun t => let '(vp, vme, p) := t in In vp (dom_of d p) /\ In vme (dom_of d n))
                      s (offering (t_offers s)) (offers_good s HO)) as Hb. rewrite Ef in Hb. cbn [fst] in Hb.
        match goal with |- context [let '(committed, o1) := ?c in _] => destruct c as [committed o1] eqn:Ecom end.
        destruct committed.
        + (* committed: the pair is one of the best offers *)
          assert (Hne : bests <> []).
          { intros ->. rewrite orb_true_r in Ecom. discriminate. }
          match goal with |- context [draw ?oo] => destruct (draw oo) as [x o] end.
          set (sorted := isort t3_leb bests).
          assert (Hs : In (nth (Z.to_nat (x mod zlen sorted)) sorted (0, 0, 0)) sorted).
          { assert (sorted <> []).
            { destruct bests as [|b0 br]; [tauto|]. intros Hnil.
              assert (In b0 sorted) by (apply sel_In_isort; left; reflexivity). rewrite Hnil in H. destruct H. }
            apply nth_In. unfold zlen.
            assert (0 < Z.of_nat (List.length sorted)) by (destruct sorted; [tauto|simpl; lia]).
            pose proof (Z.mod_pos_bound x (Z.of_nat (List.length sorted)) H0). lia. }
          apply sel_In_isort in Hs. apply Hb in Hs.
          destruct (nth (Z.to_nat (x mod zlen sorted)) sorted (0, 0, 0)) as [[vp vme] p].
          destruct Hs as [Hvp Hvme].
          eapply rok2_andthen; [|apply Henter]. eapply rok2_andthen; [|apply send_gain2_ok].
          split; [|split]; cbn [fst snd]; [| |constructor].
          * split; [exact HA|split; [|split; [|split; [exact HO|exact HS]]]].
            -- unfold tL. cbn. intros _. exact Hvme.
            -- intros _. right. exact Hlen.
          * apply Forall_forall. intros [t m] Hin. apply in_map_iff in Hin. destruct Hin as (so & Heq & _).
            cbn in Heq. destruct (fst so =? p) eqn:Ep; inversion Heq; subst; unfold Om; cbn; [|discriminate].
            intros _. apply Z.eqb_eq in Ep. rewrite Ep. exists vp. auto.
        + eapply rok2_andthen; [|apply Henter]. eapply rok2_andthen; [|apply send_gain2_ok].
          split; [|split]; cbn [fst snd]; [| |constructor].
          * split; [exact HA|split; [exact HL|split; [|split; [exact HO|exact HS]]]].
            intros _. left. exact Hpart.
          * apply Forall_forall. intros [t m] Hin. apply in_map_iff in Hin. destruct Hin as (so & Heq & _).
            cbn in Heq. rewrite Hpart in Heq. cbn in Heq. inversion Heq; subst. unfold Om. cbn. discriminate.
    Qed.

    Lemma on_msg_P s src m : tP s -> Mok2 d src n m ->
      rok2 tP Om E (on_msg d stop thr favor n enter s src m).
    Proof.
      intros HP Hm. pose proof HP as (HA & HL & HK & HO & HS). unfold on_msg. cbv zeta.
      destruct (negb (t_state s =? kind_of m)).
      { apply rok2_ret. apply tP_set_post; [exact HP|]. apply Forall_app. split; [apply tS_get; exact HS|].
        constructor; [exact Hm|constructor]. }
      destruct m as [v|g|ofg os|acc v g|go].
      - match goal with |- context [if ?c then _ else _] => destruct c end.
        + apply hvm_ok. exact HP.
        + apply rok2_ret. exact HP.
      - match goal with |- context [if ?c then _ else _] => destruct c end.
        + apply hgm_ok. exact HP.
        + apply rok2_ret. exact HP.
      - match goal with |- context [handle_offer_messages d favor n enter ?x] => set (s1 := x) end.
        assert (Hl1 : zlen (t_offers s1) = zlen (t_offers s) + 1).
        { unfold s1, zlen. cbn. rewrite app_length. simpl. lia. }
        assert (HP1 : tP s1).
        { split; [exact HA|split; [exact HL|split; [|split; [|exact HS]]]].
          - intros Hf. destruct (HK Hf) as [H|H]; [left; exact H|right]. rewrite Hl1. lia.
          - unfold tO, s1. cbn. apply Forall_app. split; [exact HO|]. constructor; [exact Hm|constructor]. }
        destruct (zlen (t_offers s1) =? zlen (nbrs d n)) eqn:El.
        + apply Z.eqb_eq in El. apply hom_ok; [exact HP1| |lia].
          intros Hf. destruct (HK Hf) as [H|H]; [exact H|]. lia.
        + apply rok2_ret. exact HP1.
      - apply hresp_ok; assumption.
      - apply hgo_ok; assumption.
    Qed.
  End Handlers2.

  (* _enter_state and its replay loop, for any fuel *)
  Lemma loop_eq fuel st s : loop d stop thr favor n fuel st s =
    match pop_last (get_post s st) with
    | None => ret2 s
    | Some (rest, (src, m)) =>
        match fuel with
        | 0%nat => (s, [], [EvErr n 7])
        | S f => andthen2 (on_msg d stop thr favor n (enter d stop thr favor n f) (set_post s st rest) src m)
                          (loop d stop thr favor n f st)
        end
    end.
  Proof. destruct fuel; reflexivity. Qed.
  Lemma enter_S f st s : enter d stop thr favor n (S f) st s = loop d stop thr favor n f st (set_t_state s st).
  Proof. reflexivity. Qed.

  Lemma enter_loop_ok fuel :
    (forall st s, tP s -> rok2 tP Om E (enter d stop thr favor n fuel st s)) /\
    (forall st s, tP s -> rok2 tP Om E (loop d stop thr favor n fuel st s)).
  Proof.
    induction fuel as [|f [IHe IHl]].
    - split; intros st s HP.
      + split; [exact HP|split; repeat constructor].
      + rewrite loop_eq.
        destruct (pop_last (get_post s st)) as [[rest [src m]]|]; [|apply rok2_ret; exact HP].
        split; [exact HP|split; repeat constructor].
    - assert (Hl : forall st s, tP s -> rok2 tP Om E (loop d stop thr favor n (S f) st s)).
      { intros st s HP. rewrite loop_eq.
        destruct (pop_last (get_post s st)) as [[rest [src m]]|] eqn:Ep; [|apply rok2_ret; exact HP].
        apply pop_last_spec in Ep.
        assert (Hg : Forall F (rest ++ [(src, m)])) by (rewrite <- Ep; apply tS_get; apply HP).
        apply Forall_app in Hg. destruct Hg as [Hrest Hm]. inversion Hm; subst.
        eapply rok2_andthen; [|apply IHl].
        apply on_msg_P; [exact IHe|apply tP_set_post; assumption|assumption]. }
      split; [|exact Hl].
      intros st s HP. rewrite enter_S. apply IHl. exact HP.
  Qed.

  Lemma enter_ok fuel st s : tP s -> rok2 tP Om E (enter d stop thr favor n fuel st s).
  Proof. apply enter_loop_ok. Qed.

  (* the node invariant: not started (state 0, no value) or started with a domain value *)
  Definition tJ (s : m2st) : Prop := ((t_state s = 0 /\ t_value s = None) \/ tA s) /\ tR s.

  Lemma tP_J s : tP s -> tJ s.
  Proof. intros [HA HR]. split; [right; exact HA|exact HR]. Qed.

  Lemma mgm2_start_ok s : tJ s -> rok2 tJ Om E (mgm2_start d stop thr favor n s).
  Proof.
    intros [_ HR]. apply rok2_weaken with (P := tP); [exact tP_J|].
    unfold mgm2_start. cbv zeta. destruct (nbrs d n) as [|t nb'].
    - destruct (compute_best_value2 d n []) as [vals cost] eqn:Ec.
      pose proof (cbv2_spec _ _ _ Ec) as Hc.
      destruct (draw (t_orc s)) as [x o].
      eapply rok2_andthen with (P := tP).
      + apply value_selection2_ok; [exact HR|].
        intros Hok. destruct (Hc Hok) as [Hne Hin]. apply Hin. apply sel_choose_In. exact Hne.
      + intros s1 H1. split; [exact H1|split; repeat constructor].
    - assert (Hv0 : forall v0 o, (match v_init (var_of d n) with
                           | Some v => (v, t_orc s)
                           | None => let '(x, o) := draw (t_orc s) in (choose (dom_of d n) x 0, o)
                           end) = (v0, o) -> InD v0).
      { intros v0 o H0 Hok. revert H0. destruct (v_init (var_of d n)) as [v|] eqn:Ei.
        - intros H; inversion H; subst. apply (proj2 Hok). exact Ei.
        - destruct (draw (t_orc s)) as [x o']. intros H; inversion H; subst.
          apply sel_choose_In. apply Hok. }
      destruct (match v_init (var_of d n) with
                | Some v => (v, t_orc s)
                | None => let '(x, o) := draw (t_orc s) in (choose (dom_of d n) x 0, o)
                end) as [v0 o] eqn:E0.
      specialize (Hv0 v0 o eq_refl).
      eapply rok2_andthen with (P := tP); [|apply enter_ok].
      eapply rok2_andthen with (P := tP); [|apply send_value2_ok].
      apply value_selection2_ok; [exact HR|exact Hv0].
  Qed.

  Lemma mgm2_recv_ok s src m : tJ s -> Mok2 d src n m -> rok2 tJ Om E (mgm2_recv d stop thr favor n s src m).
  Proof.
    intros [H0 HR] Hm. unfold mgm2_recv.
    destruct H0 as [[Hst Hv]|HA].
    - (* not started: state 0 is no message kind, everything is postponed *)
      unfold on_msg. cbv zeta. rewrite Hst.
      assert (Hk : negb (0 =? kind_of m) = true) by (destruct m; reflexivity). rewrite Hk.
      apply rok2_ret. split.
      + left. match goal with |- context [set_post s ?k ?l] => destruct (set_post_value s k l) as [E1 E2] end.
        rewrite E1, E2. auto.
      + apply tR_set_post; [exact HR|]. apply Forall_app. split; [apply tS_get; apply HR|].
        constructor; [exact Hm|constructor].
    - apply rok2_weaken with (P := tP); [exact tP_J|].
      apply on_msg_P; [intros k s'; apply enter_ok|split; assumption|exact Hm].
  Qed.
End Mgm2Node.

Lemma mgm2_net_inv d stop thr favor orc sched :
  good (tJ d) (Mok2 d) (fst (run (mgm2_proto d stop thr favor orc) sched))
  /\ Forall (sel_ev d) (snd (run (mgm2_proto d stop thr favor orc) sched)).
Proof.
  apply net_inv.
  - intros n. split; [left; split; reflexivity|].
    split; [|split; [|split]].
    + unfold tL. cbn. auto.
    + intros _. left. reflexivity.
    + unfold tO. cbn. constructor.
    + unfold tS. cbn. repeat split; constructor.
  - intros n s s' outs evs HJ Hs. cbn [p_start mgm2_proto] in Hs.
    pose proof (mgm2_start_ok d stop thr favor n s HJ) as (H1 & H2 & H3). rewrite Hs in H1, H2, H3.
    split; [exact H1|split; [exact H2|apply mE_sel_ev with (n := n); exact H3]].
  - intros n s src m s' outs evs HJ Hm Hs. cbn [p_recv mgm2_proto] in Hs.
    pose proof (mgm2_recv_ok d stop thr favor n s src m HJ Hm) as (H1 & H2 & H3). rewrite Hs in H1, H2, H3.
    split; [exact H1|split; [exact H2|apply mE_sel_ev with (n := n); exact H3]].
Qed.

(* per-node form: only node n has to be well-formed (the values proposed to n by its partners are
   values of n's domain whatever the partners' variables look like) *)
Theorem mgm2_selects_in_domain_node : forall d stop thr favor orc sched n, okn d n ->
  (forall v c k, In (EvValue n v c k) (snd (run (mgm2_proto d stop thr favor orc) sched)) -> In v (dom_of d n)) /\
  (forall v, t_value (w_st (nodes (fst (run (mgm2_proto d stop thr favor orc) sched)) n)) = Some v -> In v (dom_of d n)).
Proof.
  intros d stop thr favor orc sched n Hok.
  destruct (mgm2_net_inv d stop thr favor orc sched) as [[G _] Fe]. split.
  - intros v c k Hin. rewrite Forall_forall in Fe. exact (Fe _ Hin Hok).
  - intros v Hv. destruct (G n) as [[[_ H]|[v' [H1 H2]]] _]; [congruence|].
    rewrite H1 in Hv. inversion Hv; subst. exact (H2 Hok).
Qed.

Theorem mgm2_selects_in_domain : forall d stop thr favor orc sched, inst_okn d ->
  (forall n v c k, In n (map fst (d_vars d)) ->
     In (EvValue n v c k) (snd (run (mgm2_proto d stop thr favor orc) sched)) -> In v (dom_of d n)) /\
  (forall n v, In n (map fst (d_vars d)) ->
     t_value (w_st (nodes (fst (run (mgm2_proto d stop thr favor orc) sched)) n)) = Some v -> In v (dom_of d n)).
Proof.
  intros d stop thr favor orc sched Hd. split.
  - intros n v c k Hn. apply (mgm2_selects_in_domain_node d stop thr favor orc sched n (Hd n Hn)).
  - intros n v Hn. apply (mgm2_selects_in_domain_node d stop thr favor orc sched n (Hd n Hn)).
Qed.

(* by-products of the invariant, for every schedule: every OFFER in flight from s to t pairs a
   value of s with a value of t, every accepting ANSWER carries a value of its destination, and the
   value a node is about to move to (potential value) is a value of its domain *)
Corollary mgm2_messages_in_domain d stop thr favor orc sched s t m :
  In m (chan (fst (run (mgm2_proto d stop thr favor orc) sched)) s t) -> Mok2 d s t m.
Proof.
  intros Hin. destruct (mgm2_net_inv d stop thr favor orc sched) as [(_ & _ & G) _].
  specialize (G s t). rewrite Forall_forall in G. auto.
Qed.

Corollary mgm2_potential_value_in_domain d stop thr favor orc sched n v : okn d n ->
  t_pval (w_st (nodes (fst (run (mgm2_proto d stop thr favor orc) sched)) n)) = Some v -> In v (dom_of d n).
Proof.
  intros Hok Hv. destruct (mgm2_net_inv d stop thr favor orc sched) as [(G & _) _].
  destruct (G n) as [_ [HL _]]. unfold tL in HL. rewrite Hv in HL. exact (HL Hok).
Qed.

Example mgm2_undeclared_refuted :
  exists d stop thr favor orc sched n v c k, inst_okn d /\
    In (EvValue n v c k) (snd (run (mgm2_proto d stop thr favor orc) sched)) /\ ~ In v (dom_of d n).
Proof.
  exists inst_ex, 0, 500, 0, (fun _ => []), [Start 9], 9, 0.
  eexists. eexists. split; [exact inst_ok|]. split; [vm_compute; left; reflexivity|vm_compute; tauto].
Qed.

(* a non-trivial run of the example instance does select values (the theorems are not vacuous) *)
Example mgm_ex_selects :
  exists e, In e (snd (run (mgm_proto inst_ex 0 (fun _ => [3; 1; 4])) [Start 0; Start 1])) /\
            match e with EvValue _ _ _ _ => True | _ => False end.
Proof. eexists. split; [vm_compute; left; reflexivity|exact I]. Qed.

