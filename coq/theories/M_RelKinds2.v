(* M_RelKinds2.v -- correspondence extension for C11: slicing TREES.  A case of M_RelKinds builds a
   relation, slices it along a chain and probes the last relation.  Here, in addition, every
   relation of the chain may be probed again AFTER the later slices were taken, and a second,
   different slice may be taken from an intermediate relation (then probed).  The model is
   purely functional, so it predicts that relations are never changed by slicing them.
   Models only. *)
From PyDcop Require Import Base M_RelKinds.
Open Scope Z_scope.

(* the relations of the chain: number 0 is the relation as built, number i the result of step i *)
Fixpoint chain (r : rel) (ps : list asg) : list rel :=
  r :: match ps with
       | [] => []
       | p :: ps' => match slice r p with Ok s => chain s ps' | Err _ => [] end
       end.

Record case2 := mkCase2 {
  c2_base : case;
  (* (i, probes): relation number i probed after the whole chain (and the branches) were sliced *)
  c2_inter : list (nat * list probe);
  (* (i, q, dims-or-exception, probes): a second slice, on q, taken from relation number i *)
  c2_branch : list (nat * asg * res (list Z) * list probe)
}.

Definition check_inter (rs : list rel) (x : nat * list probe) : bool :=
  match nth_error rs (fst x) with
  | Some r => forallb (check_probe r) (snd x)
  | None => false
  end.

Definition check_branch (rs : list rel) (x : nat * asg * res (list Z) * list probe) : bool :=
  let '(i, q, o, probes) := x in
  match nth_error rs i with
  | None => false
  | Some r =>
      match slice r q with
      | Err e => res_eqb zl_eqb (Err e) o && is_nil probes
      | Ok s => res_eqb zl_eqb (Ok (names s)) o && forallb (check_probe s) probes
      end
  end.

Definition check_case2 (c : case2) : bool :=
  check_case (c2_base c) &&
  match build (c_spec (c2_base c)) with
  | Err _ => is_nil (c2_inter c) && is_nil (c2_branch c)
  | Ok r =>
      let rs := chain r (c_steps (c2_base c)) in
      forallb (check_inter rs) (c2_inter c) && forallb (check_branch rs) (c2_branch c)
  end.
