(* P_Dba2.v -- C09 deepening: round synchronisation of the asynchronous DBA model under per-channel
   FIFO, for EVERY schedule.
   Part A: node-local facts (the "core" of a state, the handlers as closed-form equations).
   Part B: the barrier invariant over all reachable configurations of Net.v (before any finished()).
   Part C: dba_refines_rounds and dba_finish_safe.  *)
From PyDcop Require Import Base Net M_Dba P_Dba M_Dba2.
From Coq Require Import ZifyBool Permutation.

Local Notation length := List.length.

(* ====================================================================== Part A.1: the core of a state *)
Lemma core_fields s t : core s = core t ->
  d_value s = d_value t /\ d_cost s = d_cost t /\ d_w s = d_w t /\ d_viol s = d_viol t /\ d_tc s = d_tc t
  /\ d_cons s = d_cons t /\ d_can s = d_can t /\ d_qlm s = d_qlm t /\ d_imp s = d_imp t /\ d_new s = d_new t
  /\ d_cycle s = d_cycle t /\ d_orc s = d_orc t.
Proof.
  intros H.
  pose proof (f_equal d_value H). pose proof (f_equal d_cost H). pose proof (f_equal d_w H).
  pose proof (f_equal d_viol H). pose proof (f_equal d_tc H). pose proof (f_equal d_cons H).
  pose proof (f_equal d_can H). pose proof (f_equal d_qlm H). pose proof (f_equal d_imp H).
  pose proof (f_equal d_new H). pose proof (f_equal d_cycle H). pose proof (f_equal d_orc H).
  simpl in *. repeat split; assumption.
Qed.

Ltac core_inj H :=
  let a := fresh "Cv" in let b := fresh "Cc" in let c := fresh "Cw" in let d := fresh "Cvi" in
  let e := fresh "Ct" in let f := fresh "Cco" in let g := fresh "Cca" in let h := fresh "Cq" in
  let i := fresh "Ci" in let j := fresh "Cn" in let k := fresh "Ccy" in let l := fresh "Co" in
  destruct (core_fields _ _ H) as [a [b [c [d [e [f [g [h [i [j [k l]]]]]]]]]]].

Lemma core_intro s t :
  d_value s = d_value t -> d_cost s = d_cost t -> d_w s = d_w t -> d_viol s = d_viol t -> d_tc s = d_tc t
  -> d_cons s = d_cons t -> d_can s = d_can t -> d_qlm s = d_qlm t -> d_imp s = d_imp t -> d_new s = d_new t
  -> d_cycle s = d_cycle t -> d_orc s = d_orc t -> core s = core t.
Proof. intros A B C D E G H I J K L M. unfold core. rewrite A, B, C, D, E, G, H, I, J, K, L, M. reflexivity. Qed.

Lemma core_set_mode m s : core (set_mode m s) = core s.
Proof. reflexivity. Qed.
Lemma core_set_nvals x s : core (set_nvals x s) = core s.
Proof. reflexivity. Qed.
Lemma core_set_pok x s : core (set_pok x s) = core s.
Proof. reflexivity. Qed.
Lemma core_set_pimp x s : core (set_pimp x s) = core s.
Proof. reflexivity. Qed.
Lemma core_idem s : core (core s) = core s.
Proof. reflexivity. Qed.

Lemma core_clear_view s t : core s = core t -> core (clear_view s) = core (clear_view t).
Proof.
  intros H. core_inj H. unfold core, clear_view; simpl.
  rewrite Cv, Cc, Cw, Ct, Cco, Cca, Cq, Ci, Cn, Ccy, Co. reflexivity.
Qed.

Lemma imp_core_core n s t src m : core s = core t -> core (imp_core n s src m) = core (imp_core n t src m).
Proof.
  intros H. core_inj H. destruct m as [[mi me] mtc]. unfold core, imp_core; simpl.
  rewrite Cv, Cc, Cw, Cvi, Ct, Cco, Cca, Cq, Ci, Cn, Ccy, Co. reflexivity.
Qed.

Lemma imp_core_comm n s a ma b mb :
  core (imp_core n (imp_core n s a ma) b mb) = core (imp_core n (imp_core n s b mb) a ma).
Proof.
  destruct ma as [[ai ae] at_]. destruct mb as [[bi be] bt]. unfold core, imp_core; simpl.
  f_equal.
  - lia.
  - destruct (0 <? be), (0 <? ae); reflexivity.
  - destruct (d_imp s <? bi), (d_imp s <? ai); try reflexivity;
      destruct ((bi =? d_imp s) && (b <? n)), ((ai =? d_imp s) && (a <? n)); reflexivity.
  - destruct (d_imp s <? bi), (d_imp s <? ai); reflexivity.
Qed.

Lemma F_core n mf l : forall s t, core s = core t -> core (F n mf l s) = core (F n mf l t).
Proof.
  induction l as [|a l IH]; simpl; intros s t H; auto.
  apply IH. now apply imp_core_core.
Qed.

Lemma F_perm n mf l l' : Permutation l l' -> forall s, core (F n mf l s) = core (F n mf l' s).
Proof.
  induction 1; intros s; simpl.
  - reflexivity.
  - apply IHPermutation.
  - apply F_core. apply imp_core_comm.
  - now rewrite IHPermutation1.
Qed.

Lemma F_app n mf l1 l2 s : F n mf (l1 ++ l2) s = F n mf l2 (F n mf l1 s).
Proof. unfold F. apply fold_left_app. Qed.

Lemma NoDup_app_intro' {T} (l1 l2 : list T) :
  NoDup l1 -> NoDup l2 -> (forall y, In y l1 -> In y l2 -> False) -> NoDup (l1 ++ l2).
Proof.
  induction l1 as [|x r IH]; simpl; intros H1 H2 H; auto.
  inversion H1; subst. constructor.
  - intros Hc. apply in_app_or in Hc as [Hc|Hc]; auto. eapply H; eauto.
  - apply IH; auto. intros y Hy1 Hy2. eapply H; eauto.
Qed.

Lemma NoDup_app_l' {T} (l1 l2 : list T) : NoDup (l1 ++ l2) -> NoDup l1.
Proof.
  induction l1 as [|x r IH]; simpl; intros H; [constructor|].
  inversion H; subst. constructor; auto. intros Hc. apply H2. apply in_or_app; auto.
Qed.

(* ====================================================================== Part A.2: node-local functions *)
Section NodeLocal.
  Variable cs : list constr.
  Variable ncs : node -> list nat.
  Variable dom : node -> list Z.
  Variable infinity maxd : Z.

  Notation node_cs := (node_cs cs ncs).
  Notation nbrs := (nbrs cs ncs).
  Notation nnb := (nnb cs ncs).
  Notation to_all := (to_all cs ncs).
  Notation eval_value := (eval_value infinity).
  Notation eval_at := (eval_at cs ncs infinity).
  Notation do_improve := (do_improve cs ncs dom infinity).
  Notation send_ok := (send_ok cs ncs maxd).
  Notation ok_step := (ok_step cs ncs dom infinity).
  Notation imp_step := (imp_step cs ncs maxd).
  Notation go_ok := (go_ok cs ncs dom infinity).
  Notation go_imp := (go_imp cs ncs maxd).
  Notation dba_recv := (dba_recv cs ncs dom infinity maxd).

  Lemma send_ok_core n s t : core s = core t ->
    core (fst (fst (send_ok n s))) = core (fst (fst (send_ok n t)))
    /\ snd (fst (send_ok n s)) = snd (fst (send_ok n t)) /\ snd (send_ok n s) = snd (send_ok n t).
  Proof.
    intros H. core_inj H. unfold M_Dba.send_ok. rewrite Cv, Cc, Cw, Cvi, Ct, Cco, Cca, Cq, Ci, Cn, Ccy, Co.
    destruct (d_cons t) as [[|]|]; simpl; [destruct (d_tc t + 1 =? maxd); simpl|..]; repeat split.
  Qed.

  Lemma eval_value_ext f f' i rels w :
    (forall c, In c rels -> forall v, In v (fst c) -> f v = f' v) -> eval_value f i rels w = eval_value f' i rels w.
  Proof.
    revert i w; induction rels as [|c rs IH]; intros i [|wi ws] H; simpl; auto.
    rewrite (IH (S i) ws) by (intros c0 Hc0; apply H; now right).
    rewrite (violated_ext infinity c f f') by (apply H; now left). reflexivity.
  Qed.

  Lemma best_imp_ext (e e' : Z -> Z) vals : (forall v, e v = e' v) ->
    forall bests best, best_imp e vals bests best = best_imp e' vals bests best.
  Proof.
    intros H. induction vals as [|v r IH]; simpl; intros bests best; auto.
    rewrite H. destruct (e' v <? best); [apply IH|]. destruct (e' v =? best); apply IH.
  Qed.

  (* the agent views [d_nvals] of two states agree on the neighbours of n *)
  Definition view_eq (n : node) (s t : dst) : Prop :=
    forall v, In v (nbrs n) -> oz (zlookup v (d_nvals s)) = oz (zlookup v (d_nvals t)).

  Lemma eval_at_ext n s t own : d_w s = d_w t -> view_eq n s t -> eval_at n s own = eval_at n t own.
  Proof.
    intros Hw Hv. unfold M_Dba.eval_at. rewrite Hw. apply eval_value_ext.
    intros c Hc v Hin. unfold asg. destruct (v =? n) eqn:E; auto.
    apply Hv. destruct (scope_in_nbrs cs ncs n c v Hc Hin) as [->|H]; auto.
    rewrite Z.eqb_refl in E. discriminate.
  Qed.

  Lemma do_improve_ext n s t : core s = core t -> view_eq n s t ->
    core (fst (fst (do_improve n s))) = core (fst (fst (do_improve n t)))
    /\ snd (fst (do_improve n s)) = snd (fst (do_improve n t)) /\ snd (do_improve n s) = snd (do_improve n t).
  Proof.
    intros H Hv. core_inj H. unfold M_Dba.do_improve.
    rewrite (eval_at_ext n s t _ Cw Hv).
    rewrite (best_imp_ext (fun v => fst (eval_at n s v)) (fun v => fst (eval_at n t v)))
      by (intros v; now rewrite (eval_at_ext n s t v Cw Hv)).
    rewrite ?Cv, ?Cw, ?Cvi, ?Ct, ?Cn, ?Ccy, ?Co.
    destruct (eval_at n t (oz (d_value t))) as [ce viol].
    destruct (best_imp _ (dom n) [] infinity) as [bests be].
    destruct (0 <? ce - be).
    - destruct (pick (d_orc t) bests) as [[nv|] o]; simpl; repeat split.
    - simpl. rewrite ?Cn. repeat split.
  Qed.

  (* what improve() leaves untouched, and the message it sends *)
  Lemma do_improve_frame n s :
    let r := fst (fst (do_improve n s)) in
    d_mode r = d_mode s /\ d_nvals r = d_nvals s /\ d_nimps r = d_nimps s /\ d_pok r = d_pok s
    /\ d_pimp r = d_pimp s /\ d_cycle r = d_cycle s /\ d_value r = d_value s
    /\ (snd (do_improve n s) = false ->
        snd (fst (do_improve n s)) = to_all n (MImp (d_imp r) (oz (d_cost r)) (d_tc r)))
    /\ (snd (do_improve n s) = true -> snd (fst (do_improve n s)) = []).
  Proof.
    unfold M_Dba.do_improve.
    destruct (eval_at n s (oz (d_value s))) as [ce viol].
    destruct (best_imp _ (dom n) [] infinity) as [bests be].
    destruct (0 <? ce - be).
    - destruct (pick (d_orc s) bests) as [[nv|] o]; simpl; repeat split; auto; discriminate.
    - simpl; repeat split; auto; discriminate.
  Qed.

  Lemma send_ok_frame n s :
    let r := fst (fst (send_ok n s)) in
    d_nvals r = d_nvals s /\ d_nimps r = d_nimps s /\ d_pok r = d_pok s /\ d_pimp r = d_pimp s
    /\ d_cycle r = d_cycle s + 1.
  Proof.
    unfold M_Dba.send_ok.
    destruct (d_cons s) as [[|]|]; simpl; [destruct (d_tc s + 1 =? maxd); simpl|..]; repeat split.
  Qed.

  (* _send_ok either stops (finished(), dba_end flood) or sends the ok? message of the next cycle *)
  Lemma send_ok_cases n s :
    let istc := match d_cons s with Some true => true | _ => false end in
    (istc && ((if istc then d_tc s + 1 else d_tc s) =? maxd) = true
     /\ In (EvFinished n) (snd (send_ok n s)))
    \/ (istc && ((if istc then d_tc s + 1 else d_tc s) =? maxd) = false
        /\ (forall m, ~ In (EvFinished m) (snd (send_ok n s)))
        /\ snd (fst (send_ok n s)) = to_all n (MOk (oz (d_value (fst (fst (send_ok n s))))))).
  Proof.
    clear dom infinity. unfold M_Dba.send_ok. simpl.
    destruct (match d_cons s with Some true => true | _ => false end); simpl.
    - destruct (d_tc s + 1 =? maxd); simpl.
      + left. split; auto.
      + right. split; auto. split; auto.
        intros m. destruct (d_can s && _); simpl; intuition discriminate.
    - right. split; auto. split; auto.
      intros m. destruct (d_can s && _); simpl; intuition discriminate.
  Qed.

  Lemma send_ok_stop_value n s : In (EvFinished n) (snd (send_ok n s)) ->
    d_value (fst (fst (send_ok n s))) = d_value s.
  Proof.
    clear dom infinity. unfold M_Dba.send_ok.
    destruct (match d_cons s with Some true => true | _ => false end); simpl.
    - destruct (d_tc s + 1 =? maxd); simpl; auto.
      destruct (d_can s && _); simpl; intuition discriminate.
    - destruct (d_can s && _); simpl; intuition discriminate.
  Qed.

  (* ---------------------------------------------------------------- replay of postponed messages *)
  Definition foldI (n : node) (l : list (node * (Z * Z * Z))) (s : dst) : dst :=
    fold_left (fun s p => imp_core n s (fst p) (snd p)) l s.
  Definition foldO (l : list (node * Z)) (s : dst) : dst :=
    fold_left (fun s p => set_nvals (dict_set Z.eqb (fst p) (snd p) (d_nvals s)) s) l s.

  Lemma replay_app {M} (h : dst -> node -> M -> res) l1 l2 s :
    replay h s (l1 ++ l2) =
    let '(s1, o1, e1, r1) := replay h s l1 in
    if r1 then (s1, o1, e1, true)
    else let '(s2, o2, e2, r2) := replay h s1 l2 in (s2, o1 ++ o2, e1 ++ e2, r2).
  Proof.
    revert s; induction l1 as [|[src m] l1 IH]; intros s; simpl.
    - destruct (replay h s l2) as [[[s2 o2] e2] r2]. reflexivity.
    - destruct (h s src m) as [[[s1 o1] e1] r1]. destruct r1; [reflexivity|].
      rewrite IH. destruct (replay h s1 l1) as [[[s2 o2] e2] r2]. destruct r2; [reflexivity|].
      destruct (replay h s2 l2) as [[[s3 o3] e3] r3]. now rewrite !app_assoc.
  Qed.

  Lemma replay_one {M} (h : dst -> node -> M -> res) src m s :
    replay h s [(src, m)] = h s src m.
  Proof.
    simpl. destruct (h s src m) as [[[s1 o1] e1] r1]. destruct r1; [reflexivity|].
    now rewrite !app_nil_r.
  Qed.

  Lemma set_add_new x l : ~ In x l -> set_add x l = l ++ [x].
  Proof.
    intros H. unfold set_add. destruct (zmem x l) eqn:E; auto. apply zmem_In in E. contradiction.
  Qed.

  Lemma imp_core_nimps n s src m : d_nimps (imp_core n s src m) = set_add src (d_nimps s).
  Proof. destruct m as [[a b] c]. reflexivity. Qed.

  Lemma imp_core_frame n s src m :
    d_mode (imp_core n s src m) = d_mode s /\ d_nvals (imp_core n s src m) = d_nvals s
    /\ d_pok (imp_core n s src m) = d_pok s /\ d_pimp (imp_core n s src m) = d_pimp s
    /\ d_cycle (imp_core n s src m) = d_cycle s /\ d_value (imp_core n s src m) = d_value s.
  Proof. destruct m as [[a b] c]. repeat split. Qed.

  (* postponed improve messages that do not complete the phase: a plain fold *)
  Lemma replay_imp_quiet n nested l : forall s,
    NoDup (map fst l) -> (forall x, In x (map fst l) -> ~ In x (d_nimps s)) ->
    (length (d_nimps s) + length l < nnb n)%nat ->
    replay (imp_step n nested) s l = (foldI n l s, [], [], false)
    /\ d_nimps (foldI n l s) = d_nimps s ++ map fst l.
  Proof.
    induction l as [|[src m] l IH]; intros s Hnd Hnew Hlen; simpl.
    - now rewrite app_nil_r.
    - inversion Hnd as [|? ? Hnin Hnd']; subst.
      unfold M_Dba.imp_step at 1.
      assert (Hn : d_nimps (imp_core n s src m) = d_nimps s ++ [src]).
      { rewrite imp_core_nimps. apply set_add_new. apply Hnew. now left. }
      rewrite Hn. rewrite app_length. simpl in *.
      replace (Nat.eqb (length (d_nimps s) + 1) (nnb n)) with false by (symmetry; apply Nat.eqb_neq; lia).
      destruct (IH (imp_core n s src m)) as [E1 E2]; auto.
      + intros x Hx. rewrite Hn. intros Hc. apply in_app_or in Hc as [Hc|[Hc|[]]].
        * apply (Hnew x); auto.
        * subst. contradiction.
      + rewrite Hn, app_length. simpl. lia.
      + rewrite E1. split; [reflexivity|]. rewrite E2, Hn, <- app_assoc. reflexivity.
  Qed.

  Lemma foldI_frame n l : forall s,
    d_mode (foldI n l s) = d_mode s /\ d_nvals (foldI n l s) = d_nvals s /\ d_pok (foldI n l s) = d_pok s
    /\ d_pimp (foldI n l s) = d_pimp s /\ d_cycle (foldI n l s) = d_cycle s /\ d_value (foldI n l s) = d_value s.
  Proof.
    induction l as [|[src m] l IH]; intros s; simpl; [repeat split|].
    destruct (IH (imp_core n s src m)) as [A [B [C [D [E G]]]]].
    destruct (imp_core_frame n s src m) as [A' [B' [C' [D' [E' G']]]]].
    repeat split; congruence.
  Qed.

  Lemma foldI_F n (mf : node -> Z * Z * Z) l : forall s,
    (forall p, In p l -> snd p = mf (fst p)) -> foldI n l s = F n mf (map fst l) s.
  Proof.
    induction l as [|[src m] l IH]; intros s H; simpl; auto.
    pose proof (H (src, m) (or_introl eq_refl)) as E. simpl in E. subst m. apply IH. intros p Hp. apply H. now right.
  Qed.

  Lemma dict_set_new (k : node) (v : Z) l : ~ In k (map fst l) -> dict_set Z.eqb k v l = l ++ [(k, v)].
  Proof.
    induction l as [|[k' v'] r IH]; simpl; intros H; auto.
    destruct (Z.eqb_spec k k') as [->|Hne]; [exfalso; apply H; now left|].
    rewrite IH; auto.
  Qed.

  (* postponed ok? messages that do not complete the phase: a plain fold *)
  Lemma replay_ok_quiet n nested l : forall s,
    NoDup (map fst l) -> (forall x, In x (map fst l) -> ~ In x (map fst (d_nvals s))) ->
    (length (d_nvals s) + length l < nnb n)%nat ->
    replay (ok_step n nested) s l = (foldO l s, [], [], false)
    /\ d_nvals (foldO l s) = d_nvals s ++ l.
  Proof.
    induction l as [|[src v] l IH]; intros s Hnd Hnew Hlen; simpl.
    - now rewrite app_nil_r.
    - inversion Hnd as [|? ? Hnin Hnd']; subst.
      unfold M_Dba.ok_step at 1.
      assert (Hn : dict_set Z.eqb src v (d_nvals s) = d_nvals s ++ [(src, v)]).
      { apply dict_set_new. apply Hnew. now left. }
      simpl d_nvals at 1. rewrite Hn. rewrite app_length. simpl in *.
      replace (Nat.eqb (length (d_nvals s) + 1) (nnb n)) with false by (symmetry; apply Nat.eqb_neq; lia).
      destruct (IH (set_nvals (d_nvals s ++ [(src, v)]) s)) as [E1 E2]; auto.
      + intros x Hx. simpl. rewrite map_app. intros Hc. apply in_app_or in Hc as [Hc|[Hc|[]]].
        * apply (Hnew x); auto.
        * simpl in Hc. subst. contradiction.
      + simpl. rewrite app_length. simpl. lia.
      + rewrite E1. split; [reflexivity|]. rewrite E2. simpl. rewrite <- app_assoc. reflexivity.
  Qed.

  Lemma foldO_frame l : forall s,
    d_mode (foldO l s) = d_mode s /\ d_nimps (foldO l s) = d_nimps s /\ d_pok (foldO l s) = d_pok s
    /\ d_pimp (foldO l s) = d_pimp s /\ core (foldO l s) = core s.
  Proof.
    induction l as [|[src m] l IH]; intros s; simpl; [repeat split|].
    destruct (IH (set_nvals (dict_set Z.eqb src m (d_nvals s)) s)) as [A [B [C [D E]]]].
    repeat split; auto.
  Qed.

  Lemma foldO_eq l : forall s, foldO l s = set_nvals (d_nvals (foldO l s)) s.
  Proof.
    induction l as [|[src v] l IH]; intros s; simpl.
    - destruct s; reflexivity.
    - rewrite IH at 1. reflexivity.
  Qed.

  Lemma foldI_snoc n l x m s : foldI n (l ++ [(x, m)]) s = imp_core n (foldI n l s) x m.
  Proof. unfold foldI. rewrite fold_left_app. reflexivity. Qed.

  (* ---------------------------------------------------------------- the handlers in closed form *)
  (* an ok? message handled in wait_ok mode *)
  Lemma recv_ok_spec n s a0 v :
    d_mode s = OkM -> d_nimps s = [] -> d_pok s = [] ->
    ~ In a0 (map fst (d_nvals s)) -> (length (d_nvals s) < nnb n)%nat ->
    NoDup (map fst (d_pimp s)) -> (length (d_pimp s) <= nnb n)%nat ->
    let s1 := set_nvals (d_nvals s ++ [(a0, v)]) s in
    dba_recv n s a0 (MOk v) =
      if (S (length (d_nvals s)) <? nnb n)%nat then (s1, [], [])
      else
        let r := do_improve n s1 in
        if snd r then (fst (fst r), snd (fst r), [EvRaise n 1])
        else
          let s4 := foldI n (d_pimp s) (set_mode ImpM (fst (fst r))) in
          if (length (d_pimp s) <? nnb n)%nat then (set_pimp [] s4, snd (fst r), [])
          else let r5 := send_ok n s4 in
               (set_pimp [] (set_mode OkM (clear_view (fst (fst r5)))), snd (fst r) ++ snd (fst r5), snd r5).
  Proof.
    intros Hm Hni Hpok Hnew Hlen Hnd Hlp s1.
    unfold M_Dba.dba_recv. rewrite Hm. unfold M_Dba.ok_step.
    rewrite (dict_set_new a0 v (d_nvals s) Hnew). fold s1.
    assert (L1 : length (d_nvals s1) = S (length (d_nvals s))).
    { unfold s1; simpl. rewrite app_length. simpl. lia. }
    rewrite L1.
    destruct (Nat.ltb_spec (S (length (d_nvals s))) (nnb n)) as [Hlt|Hge].
    - replace (Nat.eqb (S (length (d_nvals s))) (nnb n)) with false by (symmetry; apply Nat.eqb_neq; lia).
      reflexivity.
    - replace (Nat.eqb (S (length (d_nvals s))) (nnb n)) with true by (symmetry; apply Nat.eqb_eq; lia).
      destruct (do_improve_frame n s1) as [Fm [Fnv [Fni [Fpok [Fpimp [Fcy [Fv [Fo1 Fo2]]]]]]]].
      destruct (do_improve n s1) as [[s2 o2] raised]. simpl in *.
      destruct raised; [reflexivity|].
      unfold M_Dba.go_imp. simpl d_pimp. rewrite Fpimp.
      destruct (Nat.ltb_spec (length (d_pimp s)) (nnb n)) as [Hq|Hfull].
      + destruct (replay_imp_quiet n (guard_pok n) (d_pimp s) (set_mode ImpM s2)) as [E1 E2]; auto.
        { simpl. rewrite Fni, Hni. auto. }
        { simpl. rewrite Fni, Hni. simpl. lia. }
        rewrite E1. simpl. now rewrite app_nil_r.
      + assert (Hne : d_pimp s <> []) by (intros E; rewrite E in Hfull; simpl in Hfull; lia).
        destruct (exists_last Hne) as [l' [[x m] El]]. rewrite El in *.
        rewrite map_app in Hnd. simpl in Hnd. rewrite app_length in Hlp, Hfull. simpl in Hlp, Hfull.
        rewrite replay_app.
        destruct (replay_imp_quiet n (guard_pok n) l' (set_mode ImpM s2)) as [E1 E2].
        { eapply NoDup_app_l'; eauto. }
        { simpl. rewrite Fni, Hni. auto. }
        { simpl. rewrite Fni, Hni. simpl. lia. }
        rewrite E1. rewrite replay_one. unfold M_Dba.imp_step.
        rewrite imp_core_nimps, E2. simpl d_nimps. rewrite Fni, Hni. simpl app.
        rewrite set_add_new.
        2:{ apply NoDup_remove_2 in Hnd. rewrite app_nil_r in Hnd. exact Hnd. }
        rewrite app_length, map_length. simpl length.
        replace (Nat.eqb (length l' + 1) (nnb n)) with true by (symmetry; apply Nat.eqb_eq; lia).
        rewrite foldI_snoc.
        destruct (send_ok_frame n (imp_core n (foldI n l' (set_mode ImpM s2)) x m)) as [_ [_ [Gpok _]]].
        destruct (send_ok n (imp_core n (foldI n l' (set_mode ImpM s2)) x m)) as [[s5 o5] e5]. simpl in Gpok.
        unfold M_Dba.guard_pok. simpl d_pok. rewrite Gpok.
        destruct (imp_core_frame n (foldI n l' (set_mode ImpM s2)) x m) as [_ [_ [Ipok _]]]. rewrite Ipok.
        destruct (foldI_frame n l' (set_mode ImpM s2)) as [_ [_ [Jpok _]]]. rewrite Jpok. simpl d_pok.
        rewrite Fpok, Hpok. simpl. now rewrite !app_nil_r.
  Qed.

  (* an improve message handled in wait_improve mode *)
  Lemma recv_imp_spec n s a0 m1 m2 m3 :
    d_mode s = ImpM -> d_pimp s = [] ->
    ~ In a0 (d_nimps s) -> (length (d_nimps s) < nnb n)%nat ->
    NoDup (map fst (d_pok s)) -> (length (d_pok s) <= nnb n)%nat ->
    let s1 := imp_core n s a0 (m1, m2, m3) in
    dba_recv n s a0 (MImp m1 m2 m3) =
      if (S (length (d_nimps s)) <? nnb n)%nat then (s1, [], [])
      else
        let r := send_ok n s1 in
        let s4 := set_nvals (d_pok s) (set_mode OkM (clear_view (fst (fst r)))) in
        if (length (d_pok s) <? nnb n)%nat then (set_pok [] s4, snd (fst r), snd r)
        else
          let r2 := do_improve n s4 in
          if snd r2 then (fst (fst r2), snd (fst r) ++ snd (fst r2), snd r ++ [EvRaise n 1])
          else (set_pok [] (set_mode ImpM (fst (fst r2))), snd (fst r) ++ snd (fst r2), snd r).
  Proof.
    intros Hm Hpimp Hnew Hlen Hnd Hlp s1.
    unfold M_Dba.dba_recv. rewrite Hm. unfold M_Dba.imp_step. fold s1.
    assert (L1 : length (d_nimps s1) = S (length (d_nimps s))).
    { unfold s1. rewrite imp_core_nimps, set_add_new by auto. rewrite app_length. simpl. lia. }
    rewrite L1.
    destruct (Nat.ltb_spec (S (length (d_nimps s))) (nnb n)) as [Hlt|Hge].
    - replace (Nat.eqb (S (length (d_nimps s))) (nnb n)) with false by (symmetry; apply Nat.eqb_neq; lia).
      reflexivity.
    - replace (Nat.eqb (S (length (d_nimps s))) (nnb n)) with true by (symmetry; apply Nat.eqb_eq; lia).
      destruct (send_ok_frame n s1) as [_ [_ [Gpok [Gpimp _]]]].
      destruct (imp_core_frame n s a0 (m1, m2, m3)) as [_ [_ [Ipok [Ipimp _]]]]. fold s1 in Ipok, Ipimp.
      destruct (send_ok n s1) as [[s2 o2] e2]. simpl in Gpok, Gpimp. simpl fst. simpl snd.
      set (s3 := set_mode OkM (clear_view s2)).
      assert (P3 : d_pok s3 = d_pok s) by (unfold s3; simpl; congruence).
      assert (Q3 : d_pimp s3 = []) by (unfold s3; simpl; congruence).
      assert (N3 : d_nvals s3 = []) by reflexivity.
      unfold M_Dba.go_ok. rewrite P3.
      destruct (Nat.ltb_spec (length (d_pok s)) (nnb n)) as [Hq|Hfull].
      + destruct (replay_ok_quiet n (guard_pimp n) (d_pok s) s3) as [E1 E2]; auto.
        rewrite E1. simpl. rewrite !app_nil_r. rewrite (foldO_eq (d_pok s) s3), E2, N3. reflexivity.
      + assert (Hne : d_pok s <> []) by (intros E; rewrite E in Hfull; simpl in Hfull; lia).
        destruct (exists_last Hne) as [l' [[x v] El]]. rewrite El in *.
        rewrite map_app in Hnd. simpl in Hnd. rewrite app_length in Hlp, Hfull. simpl in Hlp, Hfull.
        rewrite replay_app.
        destruct (replay_ok_quiet n (guard_pimp n) l' s3) as [E1 E2].
        { eapply NoDup_app_l'; eauto. }
        { rewrite N3. auto. }
        { rewrite N3. simpl. lia. }
        rewrite E1. rewrite replay_one. unfold M_Dba.ok_step.
        rewrite E2, N3. simpl app.
        rewrite dict_set_new.
        2:{ apply NoDup_remove_2 in Hnd. rewrite app_nil_r in Hnd. exact Hnd. }
        simpl d_nvals. rewrite app_length. simpl length.
        replace (Nat.eqb (length l' + 1) (nnb n)) with true by (symmetry; apply Nat.eqb_eq; lia).
        replace (set_nvals (l' ++ [(x, v)]) (foldO l' s3)) with (set_nvals (l' ++ [(x, v)]) s3)
          by (rewrite (foldO_eq l' s3); reflexivity).
        destruct (do_improve_frame n (set_nvals (l' ++ [(x, v)]) s3)) as [_ [_ [_ [_ [Fpimp _]]]]].
        destruct (do_improve n (set_nvals (l' ++ [(x, v)]) s3)) as [[s5 o5] raised]. simpl in Fpimp. simpl fst; simpl snd.
        destruct raised; [simpl; reflexivity|].
        unfold M_Dba.guard_pimp. simpl d_pimp. rewrite Fpimp, Gpimp, Hpimp. simpl. now rewrite !app_nil_r.
  Qed.
End NodeLocal.

(* ====================================================================== Part B: the network *)
Lemma app_eq_len {T} (X X' Y Y' : list T) : X ++ Y = X' ++ Y' -> length X = length X' -> X = X' /\ Y = Y'.
Proof.
  revert X'; induction X as [|x X IH]; intros [|x' X'] H L; simpl in *; try discriminate; auto.
  inversion H; subst. destruct (IH X' H2) as [A B]; [lia|]. subst. auto.
Qed.

Lemma seq_split_pipe {T} (f : nat -> T) X Y h k :
  X ++ Y = map f (seq h k) ->
  (length X <= k)%nat /\ X = map f (seq h (length X)) /\ Y = map f (seq (h + length X) (k - length X)).
Proof.
  intros H.
  assert (L : (length X <= k)%nat).
  { apply (f_equal (@List.length T)) in H. rewrite app_length, map_length, seq_length in H. lia. }
  split; auto.
  replace k with (length X + (k - length X))%nat in H by lia.
  rewrite seq_app, map_app in H. apply app_eq_len in H; [exact H|].
  now rewrite map_length, seq_length.
Qed.

Lemma fromH_app a (l1 l2 : list (node * dmsg)) : fromH a (l1 ++ l2) = fromH a l1 ++ fromH a l2.
Proof. unfold fromH. now rewrite filter_app, map_app. Qed.
Lemma fromI_app a l1 l2 : fromI a (l1 ++ l2) = fromI a l1 ++ fromI a l2.
Proof. unfold fromI. now rewrite filter_app, map_app. Qed.
Lemma fromO_app a l1 l2 : fromO a (l1 ++ l2) = fromO a l1 ++ fromO a l2.
Proof. unfold fromO. now rewrite filter_app, map_app. Qed.

Lemma send_all_spec outs : forall (c : node -> node -> list dmsg) src x y,
  send_all c src outs x y = if Z.eqb x src then c x y ++ fromH y outs else c x y.
Proof.
  induction outs as [|[d m] r IH]; intros c src x y; simpl.
  - unfold fromH; simpl. rewrite app_nil_r. destruct (Z.eqb x src); auto.
  - rewrite IH. unfold upd_chan, fromH. simpl.
    destruct (Z.eqb x src) eqn:Ex; simpl; [|reflexivity].
    rewrite (Z.eqb_sym d y).
    destruct (Z.eqb y d) eqn:Ey; simpl.
    + apply Z.eqb_eq in Ex. apply Z.eqb_eq in Ey. subst. rewrite <- app_assoc. reflexivity.
    + reflexivity.
Qed.

Lemma reinject_all_spec l : forall (c : node -> node -> list dmsg) dst x y,
  reinject_all c dst l x y = if Z.eqb y dst then fromH x l ++ c x y else c x y.
Proof.
  induction l as [|[s0 m] r IH]; intros c dst x y; simpl.
  - unfold fromH; simpl. destruct (Z.eqb y dst); auto.
  - unfold upd_chan. rewrite !IH. unfold fromH. simpl.
    rewrite (Z.eqb_sym s0 x).
    destruct (Z.eqb x s0) eqn:Ex; simpl.
    + apply Z.eqb_eq in Ex; subst.
      destruct (Z.eqb y dst) eqn:Ey; simpl.
      * apply Z.eqb_eq in Ey; subst. rewrite Z.eqb_refl. reflexivity.
      * reflexivity.
    + destruct (Z.eqb y dst); reflexivity.
Qed.

Lemma filter_none' {T} (f : T -> bool) (l : list T) : (forall x, In x l -> f x = false) -> filter f l = [].
Proof. induction l as [|x r IH]; simpl; intros H; auto. rewrite (H x); auto. Qed.

Lemma impm_inj m m' : impm m = impm m' -> m = m'.
Proof. destruct m as [[a b] c], m' as [[a' b'] c']. simpl. intros H. inversion H. reflexivity. Qed.

Lemma filt_in {V} (a : node) (l : list (node * V)) :
  In a (map fst l) <-> filter (fun p => Z.eqb (fst p) a) l <> [].
Proof.
  induction l as [|[k v] l IH]; simpl; [tauto|].
  destruct (Z.eqb_spec k a) as [->|Hne]; split; intros H; auto; try discriminate.
  - apply IH. destruct H as [H|H]; [contradiction|auto].
  - right. now apply IH.
Qed.

Lemma filt_nodup {V} (l : list (node * V)) :
  (forall a, (length (filter (fun p => Z.eqb (fst p) a) l) <= 1)%nat) -> NoDup (map fst l).
Proof.
  induction l as [|[k v] l IH]; simpl; intros H; [constructor|].
  constructor.
  - intros Hin. apply filt_in in Hin. specialize (H k). rewrite Z.eqb_refl in H. simpl in H.
    destruct (filter (fun p : Z * V => (fst p =? k)%Z) l); [congruence | simpl in H; lia].
  - apply IH. intros a. specialize (H a). destruct (Z.eqb k a); simpl in H; lia.
Qed.

Lemma filt_len_nodup {V} (a : node) (l : list (node * V)) : NoDup (map fst l) ->
  length (filter (fun p => Z.eqb (fst p) a) l) = if zmem a (map fst l) then 1%nat else 0%nat.
Proof.
  induction l as [|[k v] l IH]; simpl; intros H; auto.
  inversion H as [|? ? Hnin Hnd]; subst. rewrite (Z.eqb_sym a k).
  destruct (Z.eqb_spec k a) as [->|Hne]; simpl.
  - rewrite filter_none'; auto. intros [k' v'] Hin. simpl.
    destruct (Z.eqb_spec k' a); auto. subst. exfalso. apply Hnin. apply in_map_iff. now exists (a, v').
  - now apply IH.
Qed.

Lemma zlookup_some {V} (x : node) (l : list (node * V)) :
  In x (map fst l) -> exists v, zlookup x l = Some v /\ In (x, v) l.
Proof.
  unfold zlookup. induction l as [|[k v] l IH]; simpl; intros H; [contradiction|].
  destruct (Z.eqb_spec x k) as [->|Hne].
  - exists v. auto.
  - destruct H as [H|H]; [congruence|]. destruct (IH H) as [v' [A B]]. exists v'. auto.
Qed.

Lemma complete_but_one (l N : list node) a0 :
  NoDup l -> NoDup N -> incl l N -> In a0 N -> ~ In a0 l -> (length l + 1 = length N)%nat ->
  forall a, In a N -> a <> a0 -> In a l.
Proof.
  intros Hl HN Hi Ha0 Hn Hlen a Ha Hne.
  assert (H : incl N (a0 :: l)).
  { apply NoDup_length_incl.
    - constructor; auto.
    - simpl. lia.
    - intros x [<-|Hx]; auto. }
  destruct (H a Ha) as [E|E]; [congruence | exact E].
Qed.

Lemma incl_nodup_len (l N : list node) : NoDup l -> incl l N -> (length l <= length N)%nat.
Proof. intros. now apply NoDup_incl_length. Qed.

Lemma incl_nodup_lt (l N : list node) a0 : NoDup l -> incl l N -> In a0 N -> ~ In a0 l -> (length l < length N)%nat.
Proof.
  intros Hl Hi Ha Hn.
  assert (length (a0 :: l) <= length N)%nat; [|simpl in *; lia].
  apply NoDup_incl_length; [constructor; auto|]. intros x [<-|Hx]; auto.
Qed.

Section Refine.
  Variable cs : list constr.
  Variable ncs : node -> list nat.
  Variable dom : node -> list Z.
  Variable infinity maxd : Z.
  Variable orc0 : node -> list Z.

  Notation nbrs := (nbrs cs ncs).
  Notation nnb := (nnb cs ncs).
  Notation to_all := (to_all cs ncs).
  Notation do_improve := (do_improve cs ncs dom infinity).
  Notation send_ok := (send_ok cs ncs maxd).
  Notation dba_recv := (dba_recv cs ncs dom infinity maxd).
  Notation dba_start := (dba_start cs ncs dom infinity).
  Notation dba_init := (dba_init ncs orc0).
  Notation P := (dba_proto cs ncs dom infinity maxd orc0).
  Notation G := (G cs ncs dom infinity maxd orc0).
  Notation aok := (aok cs ncs dom infinity maxd orc0).
  Notation mimp := (mimp cs ncs dom infinity maxd orc0).
  Notation aimp := (aimp cs ncs dom infinity maxd orc0).
  Notation msg_of := (msg_of cs ncs dom infinity maxd orc0).
  Notation node_ok := (node_ok cs ncs dom infinity maxd orc0).
  Notation Inv := (Inv cs ncs dom infinity maxd orc0).
  Notation cfg := (config dst dmsg).
  Notation sround := (sround cs ncs dom infinity maxd).
  Notation after_imp := (after_imp cs ncs dom infinity).
  Notation stops := (stops cs ncs dom infinity maxd).

  Hypothesis Hsym : forall a b, In a (nbrs b) -> In b (nbrs a).

  Local Open Scope nat_scope.
  Local Arguments Nat.mul : simpl never.

  Definition rn (cf : cfg) (n : node) : bool := w_running (nodes cf n).

  Lemma nbrs_nodup b : NoDup (nbrs b).
  Proof. unfold M_Dba.nbrs. apply NoDup_nodup. Qed.
  Lemma nbrs_irr b : ~ In b (nbrs b).
  Proof. intros H. now apply (nbrs_neq cs ncs b b). Qed.

  Lemma msg_of_even c a : msg_of a (2 * c) = MOk (sassign (G c) a).
  Proof.
    unfold M_Dba2.msg_of. rewrite Nat.even_mul. simpl Nat.even. simpl orb. cbv iota.
    now rewrite Nat.div2_double.
  Qed.
  Lemma msg_of_odd c a : msg_of a (2 * c + 1) = impm (mimp c a).
  Proof.
    unfold M_Dba2.msg_of. replace (2 * c + 1) with (S (2 * c)) by lia.
    rewrite Nat.even_succ, Nat.odd_mul. simpl Nat.odd. simpl andb. cbv iota.
    now rewrite Nat.div2_succ_double.
  Qed.
  Lemma msg_of_not_end a i : msg_of a i <> MEnd.
  Proof.
    unfold M_Dba2.msg_of. destruct (Nat.even i); [discriminate|].
    destruct (mimp (Nat.div2 i) a) as [[x y] z]. discriminate.
  Qed.

  Lemma fromH_to_all y b m : fromH y (to_all b m) = if zmem y (nbrs b) then [m] else [].
  Proof.
    unfold M_Dba.to_all, fromH. pose proof (nbrs_nodup b) as Hnd.
    induction (nbrs b) as [|x l IH]; simpl; auto.
    inversion Hnd as [|? ? Hnin Hnd']; subst.
    rewrite (Z.eqb_sym y x). destruct (Z.eqb_spec x y) as [->|Hne]; simpl.
    - rewrite filter_none'; auto.
      intros [t m'] Hin. simpl. apply in_map_iff in Hin as [t' [E Hin]]. inversion E; subst.
      destruct (Z.eqb_spec t y); auto. subst. contradiction.
    - now apply IH.
  Qed.

  Definition bcast (b : node) (p j : nat) : list (node * dmsg) :=
    flat_map (fun i => to_all b (msg_of b i)) (seq p j).

  Lemma fromH_bcast y b p j :
    fromH y (bcast b p j) = if zmem y (nbrs b) then map (msg_of b) (seq p j) else [].
  Proof.
    unfold bcast. revert p; induction j as [|j IH]; intros p; simpl.
    - destruct (zmem y (nbrs b)); reflexivity.
    - rewrite fromH_app, IH, fromH_to_all. destruct (zmem y (nbrs b)); reflexivity.
  Qed.

  Lemma ph_upd (cf : cfg) b0 w x : x <> b0 -> upd_node (nodes cf) b0 w x = nodes cf x.
  Proof. intros H. unfold upd_node. destruct (Z.eqb_spec x b0); [contradiction|reflexivity]. Qed.
  Lemma upd_same (f : node -> nwrap dst dmsg) n w : upd_node f n w n = w.
  Proof. unfold upd_node. now rewrite Z.eqb_refl. Qed.

  Lemma seq_extend (f : nat -> dmsg) h p j : h <= p ->
    map f (seq h (p - h)) ++ map f (seq p j) = map f (seq h (p + j - h)).
  Proof.
    intros H. rewrite <- map_app. f_equal.
    replace (p + j - h) with ((p - h) + j) by lia. rewrite seq_app. f_equal. f_equal. lia.
  Qed.

  (* ---------------------------------------------------------------- generic preservation lemmas *)
  Lemma Inv_deliver cf a0 b0 m q s' j :
    Inv cf -> rn cf b0 = true -> chan cf a0 b0 = m :: q -> In a0 (nbrs b0) ->
    ph (mkWrap true (w_held (nodes cf b0)) s') = ph (nodes cf b0) + j ->
    (forall a, In a (nbrs b0) -> exists X,
        post (st cf b0) a ++ (if Z.eqb a a0 then m :: q else chan cf a b0)
          = X ++ post s' a ++ (if Z.eqb a a0 then q else chan cf a b0)
        /\ hd s' a = hd (st cf b0) a + length X) ->
    (forall a, ~ In a (nbrs b0) -> post s' a = []) ->
    node_ok b0 s' ->
    Inv (mkConfig (upd_node (nodes cf) b0 (mkWrap true (w_held (nodes cf b0)) s'))
                  (send_all (upd_chan (chan cf) a0 b0 q) b0 (bcast b0 (ph (nodes cf b0)) j))).
  Proof.
    intros HI Hr Hc Ha0 Hph Hcons Hnon Hnode.
    set (cf' := mkConfig _ _).
    assert (Hne0 : a0 <> b0) by (intros ->; now apply (nbrs_irr b0)).
    assert (Hheld := I_held _ _ _ _ _ _ cf HI b0 Hr).
    assert (Hn : forall x, x <> b0 -> nodes cf' x = nodes cf x) by (intros x Hx; unfold cf'; simpl; now apply ph_upd).
    assert (Hn0 : nodes cf' b0 = mkWrap true (w_held (nodes cf b0)) s') by (unfold cf'; simpl; apply upd_same).
    assert (Hch : forall a b, chan cf' a b =
              (if Z.eqb a a0 && Z.eqb b b0 then q else chan cf a b)
              ++ (if Z.eqb a b0 then fromH b (bcast b0 (ph (nodes cf b0)) j) else [])).
    { intros a b. unfold cf'; simpl. rewrite send_all_spec. unfold upd_chan.
      destruct (Z.eqb a b0); [reflexivity | now rewrite app_nil_r]. }
    constructor.
    - intros b Hb. destruct (Z.eq_dec b b0) as [->|Hbn]; [rewrite Hn0 in Hb; discriminate|].
      rewrite Hn in * by auto. now apply (I_idle _ _ _ _ _ _ cf HI).
    - intros b Hb. destruct (Z.eq_dec b b0) as [->|Hbn]; [rewrite Hn0; simpl; exact Hheld|].
      rewrite Hn in * by auto. now apply (I_held _ _ _ _ _ _ cf HI).
    - intros a b Hab. unfold pipe. rewrite Hch.
      destruct (Z.eq_dec b b0) as [->|Hbn].
      + assert (Han : a <> b0) by (intros ->; now apply (nbrs_irr b0)).
        rewrite Hn0, (Hn a Han). simpl w_st. simpl w_held. rewrite Hheld. simpl fromH at 1.
        rewrite Z.eqb_refl, andb_true_r. apply Z.eqb_neq in Han. rewrite Han, app_nil_r. simpl app.
        destruct (Hcons a Hab) as [X [E1 E2]].
        destruct (I_pipe _ _ _ _ _ _ cf HI a b0 Hab) as [Hp Hle]. unfold pipe in Hp.
        rewrite Hheld in Hp. simpl in Hp.
        assert (Hold : post (st cf b0) a ++ (if Z.eqb a a0 then m :: q else chan cf a b0)
                       = post (w_st (nodes cf b0)) a ++ chan cf a b0).
        { unfold st. destruct (Z.eqb_spec a a0) as [->|]; [now rewrite Hc | reflexivity]. }
        rewrite Hold, Hp in E1. symmetry in E1. apply seq_split_pipe in E1 as [L [_ E1]].
        fold (st cf b0) in *. rewrite E2. split; [|lia].
        rewrite E1. f_equal. f_equal. lia.
      + rewrite (Hn b Hbn). apply Z.eqb_neq in Hbn. rewrite Hbn, andb_false_r.
        destruct (Z.eq_dec a b0) as [->|Han].
        * rewrite Z.eqb_refl, Hn0, Hph. rewrite fromH_bcast.
          assert (Hb : zmem b (nbrs b0) = true) by (apply zmem_In; now apply Hsym).
          rewrite Hb.
          destruct (I_pipe _ _ _ _ _ _ cf HI b0 b Hab) as [Hp Hle]. unfold pipe in Hp.
          rewrite !app_assoc. rewrite <- (app_assoc (post _ _)). rewrite Hp.
          split; [|lia]. now apply seq_extend.
        * rewrite (Hn a Han). apply Z.eqb_neq in Han. rewrite Han, app_nil_r.
          apply (I_pipe _ _ _ _ _ _ cf HI a b Hab).
    - intros a b Hab. unfold pipe. rewrite Hch.
      pose proof (I_non _ _ _ _ _ _ cf HI a b Hab) as Hp. unfold pipe in Hp.
      apply app_eq_nil in Hp as [Hp1 Hp2]. apply app_eq_nil in Hp2 as [Hp2 Hp3].
      assert (Hbc : (if Z.eqb a b0 then fromH b (bcast b0 (ph (nodes cf b0)) j) else []) = []).
      { destruct (Z.eqb_spec a b0) as [->|]; auto. rewrite fromH_bcast.
        destruct (zmem b (nbrs b0)) eqn:E; auto. apply zmem_In in E. apply Hsym in E. contradiction. }
      rewrite Hbc, app_nil_r.
      destruct (Z.eq_dec b b0) as [->|Hbn].
      + rewrite Hn0. simpl w_st. simpl w_held. rewrite Hheld, (Hnon a Hab). simpl.
        destruct (Z.eqb_spec a a0) as [->|]; [contradiction|]. simpl. exact Hp3.
      + rewrite (Hn b Hbn). apply Z.eqb_neq in Hbn. rewrite Hbn, andb_false_r.
        rewrite Hp1, Hp2, Hp3. reflexivity.
    - intros b Hb. destruct (Z.eq_dec b b0) as [->|Hbn]; [rewrite Hn0; exact Hnode|].
      rewrite Hn in * by auto. now apply (I_node _ _ _ _ _ _ cf HI).
  Qed.

  Lemma hd_init b a : hd (dba_init b) a = 0.
  Proof. reflexivity. Qed.
  Lemma post_init b a : post (dba_init b) a = [].
  Proof. reflexivity. Qed.

  (* a message delivered to a computation that has not started goes to its buffer *)
  Lemma Inv_hold cf a0 b0 m q :
    Inv cf -> rn cf b0 = false -> chan cf a0 b0 = m :: q ->
    Inv (mkConfig (upd_node (nodes cf) b0 (mkWrap false (w_held (nodes cf b0) ++ [(a0, m)]) (w_st (nodes cf b0))))
                  (upd_chan (chan cf) a0 b0 q)).
  Proof.
    intros HI Hr Hc. set (cf' := mkConfig _ _).
    assert (Hn : forall x, x <> b0 -> nodes cf' x = nodes cf x) by (intros x Hx; unfold cf'; simpl; now apply ph_upd).
    assert (Hn0 : nodes cf' b0 = mkWrap false (w_held (nodes cf b0) ++ [(a0, m)]) (w_st (nodes cf b0)))
      by (unfold cf'; simpl; apply upd_same).
    assert (Hst : forall x, w_st (nodes cf' x) = w_st (nodes cf x)).
    { intros x. destruct (Z.eq_dec x b0) as [->|Hx]; [now rewrite Hn0 | now rewrite Hn]. }
    assert (Hrn : forall x, w_running (nodes cf' x) = w_running (nodes cf x)).
    { intros x. destruct (Z.eq_dec x b0) as [->|Hx]; [rewrite Hn0; simpl; now rewrite <- Hr | now rewrite Hn]. }
    assert (Hph : forall x, ph (nodes cf' x) = ph (nodes cf x)) by (intros; unfold ph; now rewrite Hrn, Hst).
    assert (Hpipe : forall a b, pipe cf' a b = pipe cf a b).
    { intros a b. unfold pipe. rewrite Hst. f_equal. unfold cf'; simpl. unfold upd_chan.
      destruct (Z.eq_dec b b0) as [->|Hb].
      - rewrite upd_same. simpl. rewrite fromH_app, Z.eqb_refl, andb_true_r, <- app_assoc. f_equal.
        unfold fromH at 1. simpl. rewrite (Z.eqb_sym a0 a).
        destruct (Z.eqb_spec a a0) as [->|]; simpl; [now rewrite Hc | reflexivity].
      - rewrite ph_upd by auto. apply Z.eqb_neq in Hb. now rewrite Hb, andb_false_r. }
    constructor.
    - intros b Hb. rewrite Hrn in Hb. rewrite Hst. now apply (I_idle _ _ _ _ _ _ cf HI).
    - intros b Hb. rewrite Hrn in Hb. destruct (Z.eq_dec b b0) as [->|Hx]; [unfold rn in Hr; congruence|].
      rewrite Hn by auto. now apply (I_held _ _ _ _ _ _ cf HI).
    - intros a b Hab. rewrite Hpipe, Hst, Hph. now apply (I_pipe _ _ _ _ _ _ cf HI).
    - intros a b Hab. rewrite Hpipe. now apply (I_non _ _ _ _ _ _ cf HI).
    - intros b Hb. rewrite Hrn in Hb. rewrite Hst. now apply (I_node _ _ _ _ _ _ cf HI).
  Qed.

  (* start(): j = 0 if on_start raised (empty domain), 1 if the first ok? message was broadcast *)
  Lemma Inv_start cf n s' j :
    Inv cf -> rn cf n = false ->
    (forall a, post s' a = []) -> (forall a, hd s' a = 0) -> ph (mkWrap true [] s') = j -> j <= 1 ->
    node_ok n s' ->
    Inv (mkConfig (upd_node (nodes cf) n (mkWrap true [] s'))
                  (reinject_all (send_all (chan cf) n (bcast n 0 j)) n (reinject (w_held (nodes cf n))))).
  Proof.
    intros HI Hr Hpost Hhd Hph Hj Hnode. set (cf' := mkConfig _ _).
    pose proof (I_idle _ _ _ _ _ _ cf HI n Hr) as Hinit.
    assert (Hn : forall x, x <> n -> nodes cf' x = nodes cf x) by (intros x Hx; unfold cf'; simpl; now apply ph_upd).
    assert (Hn0 : nodes cf' n = mkWrap true [] s') by (unfold cf'; simpl; apply upd_same).
    assert (Hph0 : ph (nodes cf n) = 0) by (unfold ph; unfold rn in Hr; now rewrite Hr).
    assert (Hch : forall a b, chan cf' a b =
              (if Z.eqb b n then fromH a (w_held (nodes cf n)) else [])
              ++ chan cf a b ++ (if Z.eqb a n then fromH b (bcast n 0 j) else [])).
    { intros a b. unfold cf'; simpl. rewrite reinject_all_spec, send_all_spec. unfold reinject.
      destruct (Z.eqb b n), (Z.eqb a n); simpl; rewrite ?app_nil_r; reflexivity. }
    constructor.
    - intros b Hb. destruct (Z.eq_dec b n) as [->|Hbn]; [rewrite Hn0 in Hb; discriminate|].
      rewrite Hn in * by auto. now apply (I_idle _ _ _ _ _ _ cf HI).
    - intros b Hb. destruct (Z.eq_dec b n) as [->|Hbn]; [now rewrite Hn0|].
      rewrite Hn in * by auto. now apply (I_held _ _ _ _ _ _ cf HI).
    - intros a b Hab. unfold pipe. rewrite Hch.
      destruct (I_pipe _ _ _ _ _ _ cf HI a b Hab) as [Hp Hle]. unfold pipe in Hp.
      destruct (Z.eq_dec b n) as [->|Hbn].
      + assert (Han : a <> n) by (intros ->; now apply (nbrs_irr n)).
        rewrite Hn0, (Hn a Han). simpl w_st. simpl w_held. rewrite Z.eqb_refl.
        apply Z.eqb_neq in Han. rewrite Han, app_nil_r. rewrite Hpost, Hhd. simpl.
        rewrite Hinit, post_init, hd_init in Hp. simpl in Hp. rewrite Hinit, hd_init in Hle. auto.
      + rewrite (Hn b Hbn). apply Z.eqb_neq in Hbn. rewrite Hbn. simpl app at 2.
        destruct (Z.eq_dec a n) as [->|Han].
        * rewrite Z.eqb_refl, Hn0, Hph, fromH_bcast.
          assert (Hb : zmem b (nbrs n) = true) by (apply zmem_In; now apply Hsym).
          rewrite Hb. rewrite Hph0 in Hp, Hle.
          rewrite !app_assoc. rewrite <- (app_assoc (post _ _)). rewrite Hp.
          split; [|lia]. replace j with (0 + j) at 2 by lia. apply seq_extend. lia.
        * rewrite (Hn a Han). apply Z.eqb_neq in Han. rewrite Han, app_nil_r. auto.
    - intros a b Hab. unfold pipe. rewrite Hch.
      pose proof (I_non _ _ _ _ _ _ cf HI a b Hab) as Hp. unfold pipe in Hp.
      apply app_eq_nil in Hp as [Hp1 Hp2]. apply app_eq_nil in Hp2 as [Hp2 Hp3].
      assert (Hbc : (if Z.eqb a n then fromH b (bcast n 0 j) else []) = []).
      { destruct (Z.eqb_spec a n) as [->|]; auto. rewrite fromH_bcast.
        destruct (zmem b (nbrs n)) eqn:E; auto. apply zmem_In in E. apply Hsym in E. contradiction. }
      rewrite Hbc, app_nil_r, Hp3, app_nil_r.
      destruct (Z.eq_dec b n) as [->|Hbn].
      + rewrite Hn0. simpl w_st. simpl w_held. rewrite Hpost, Z.eqb_refl. simpl. exact Hp2.
      + rewrite (Hn b Hbn). apply Z.eqb_neq in Hbn. rewrite Hbn, Hp1, Hp2. reflexivity.
    - intros b Hb. destruct (Z.eq_dec b n) as [->|Hbn]; [rewrite Hn0; exact Hnode|].
      rewrite Hn in * by auto. now apply (I_node _ _ _ _ _ _ cf HI).
  Qed.

  (* ---------------------------------------------------------------- what the invariant says about a pipe *)
  Lemma ph_hd (w : nwrap dst dmsg) x : ph w <= S (hd (w_st w) x).
  Proof. unfold ph, hd, base. destruct (w_running w); [|lia]. destruct (d_mode (w_st w)); lia. Qed.

  (* neighbours are at most one broadcast apart *)
  Lemma ph_le cf a b : Inv cf -> In a (nbrs b) -> ph (nodes cf a) <= S (ph (nodes cf b)).
  Proof.
    intros HI Hab. apply Hsym in Hab. destruct (I_pipe _ _ _ _ _ _ cf HI b a Hab) as [_ H].
    pose proof (ph_hd (nodes cf a) b). lia.
  Qed.

  Lemma deliver_nbr cf a0 b0 m q : Inv cf -> chan cf a0 b0 = m :: q -> In a0 (nbrs b0).
  Proof.
    intros HI Hc. destruct (in_dec Z.eq_dec a0 (nbrs b0)) as [H|H]; auto.
    pose proof (I_non _ _ _ _ _ _ cf HI a0 b0 H) as Hp. unfold pipe in Hp.
    apply app_eq_nil in Hp as [_ Hp]. apply app_eq_nil in Hp as [_ Hp]. congruence.
  Qed.

  Lemma pipe_run cf a b : Inv cf -> rn cf b = true -> In a (nbrs b) ->
    post (st cf b) a ++ chan cf a b
      = map (msg_of a) (seq (hd (st cf b) a) (ph (nodes cf a) - hd (st cf b) a))
    /\ hd (st cf b) a <= ph (nodes cf a) /\ ph (nodes cf a) <= S (ph (nodes cf b)).
  Proof.
    intros HI Hr Hab. destruct (I_pipe _ _ _ _ _ _ cf HI a b Hab) as [Hp Hle]. unfold pipe in Hp.
    rewrite (I_held _ _ _ _ _ _ cf HI b Hr) in Hp. simpl in Hp.
    split; [exact Hp | split; [exact Hle | now apply ph_le]].
  Qed.

  Lemma fromI_kind a l x : In x (fromI a l) -> exists m, x = impm m.
  Proof. unfold fromI. intros H. apply in_map_iff in H as [p [E _]]. eauto. Qed.
  Lemma fromO_kind a l x : In x (fromO a l) -> exists v, x = MOk v.
  Proof. unfold fromO. intros H. apply in_map_iff in H as [p [E _]]. eauto. Qed.
  Lemma impm_not_ok m v : impm m <> MOk v.
  Proof. destruct m as [[x y] z]. discriminate. Qed.

  Lemma ph_okm cf b : rn cf b = true -> d_mode (st cf b) = OkM -> ph (nodes cf b) = S (2 * cyc (st cf b)).
  Proof. unfold rn, st, ph, base. intros -> ->. reflexivity. Qed.
  Lemma ph_impm cf b : rn cf b = true -> d_mode (st cf b) = ImpM -> ph (nodes cf b) = S (2 * cyc (st cf b) + 1).
  Proof. unfold rn, st, ph, base. intros -> ->. reflexivity. Qed.
  Lemma hd_okm s a : d_mode s = OkM -> hd s a = 2 * cyc s + (if got s a then 1 else 0).
  Proof. unfold hd, base. now intros ->. Qed.
  Lemma hd_impm s a : d_mode s = ImpM -> hd s a = 2 * cyc s + 1 + (if got s a then 1 else 0).
  Proof. unfold hd, base. now intros ->. Qed.

  (* wait_ok mode: at most one improve message per neighbour is postponed, the one of this cycle,
     and only from neighbours whose ok? message has been handled *)
  Lemma post_shape_okm cf a b : Inv cf -> rn cf b = true -> In a (nbrs b) -> d_mode (st cf b) = OkM ->
    post (st cf b) a = []
    \/ (got (st cf b) a = true /\ post (st cf b) a = [impm (mimp (cyc (st cf b)) a)] /\ chan cf a b = []).
  Proof.
    intros HI Hr Hab Hm. destruct (pipe_run cf a b HI Hr Hab) as [Hp [Hle Hph]].
    rewrite (ph_okm cf b Hr Hm) in Hph. rewrite (hd_okm _ a Hm) in *.
    apply seq_split_pipe in Hp as [L [EX EY]].
    destruct (post (st cf b) a) as [|x X'] eqn:E; [now left|right].
    assert (Hx : exists m, x = impm m).
    { apply (fromI_kind a (d_pimp (st cf b))). unfold post in E. rewrite Hm in E. rewrite E. now left. }
    destruct Hx as [mx ->]. simpl length in *. simpl in EX. inversion EX as [[E1 E2]].
    destruct (got (st cf b) a).
    - assert (X' = []) by (destruct X'; [reflexivity | simpl in L; lia]). subst X'.
      rewrite msg_of_odd in E1. split; auto. split; [now rewrite E1|].
      simpl in EY. replace (_ - 1) with 0 in EY by lia. exact EY.
    - rewrite Nat.add_0_r, msg_of_even in E1. exfalso. eapply impm_not_ok; eauto.
  Qed.

  Lemma post_shape_impm cf a b : Inv cf -> rn cf b = true -> In a (nbrs b) -> d_mode (st cf b) = ImpM ->
    post (st cf b) a = []
    \/ (got (st cf b) a = true /\ post (st cf b) a = [MOk (sassign (G (S (cyc (st cf b)))) a)] /\ chan cf a b = []).
  Proof.
    intros HI Hr Hab Hm. destruct (pipe_run cf a b HI Hr Hab) as [Hp [Hle Hph]].
    rewrite (ph_impm cf b Hr Hm) in Hph. rewrite (hd_impm _ a Hm) in *.
    apply seq_split_pipe in Hp as [L [EX EY]].
    destruct (post (st cf b) a) as [|x X'] eqn:E; [now left|right].
    assert (Hx : exists v, x = MOk v).
    { apply (fromO_kind a (d_pok (st cf b))). unfold post in E. rewrite Hm in E. rewrite E. now left. }
    destruct Hx as [vx ->]. simpl length in *. simpl in EX. inversion EX as [[E1 E2]].
    destruct (got (st cf b) a).
    - assert (X' = []) by (destruct X'; [reflexivity | simpl in L; lia]). subst X'.
      replace (2 * cyc (st cf b) + 1 + 1) with (2 * S (cyc (st cf b))) in E1 by lia.
      rewrite msg_of_even in E1. split; auto. split; [now rewrite E1|].
      simpl in EY. replace (_ - 1) with 0 in EY by lia. exact EY.
    - rewrite Nat.add_0_r, msg_of_odd in E1. exfalso. symmetry in E1. eapply impm_not_ok; eauto.
  Qed.

  (* the head of a channel into a computation in wait_ok mode *)
  Lemma head_okm cf a0 b0 m q : Inv cf -> rn cf b0 = true -> chan cf a0 b0 = m :: q -> d_mode (st cf b0) = OkM ->
    post (st cf b0) a0 = []
    /\ ((got (st cf b0) a0 = false /\ m = MOk (sassign (G (cyc (st cf b0))) a0))
        \/ (got (st cf b0) a0 = true /\ m = impm (mimp (cyc (st cf b0)) a0))).
  Proof.
    intros HI Hr Hc Hm. pose proof (deliver_nbr cf a0 b0 m q HI Hc) as Hab.
    destruct (post_shape_okm cf a0 b0 HI Hr Hab Hm) as [E|[_ [_ E]]]; [|congruence].
    split; auto. destruct (pipe_run cf a0 b0 HI Hr Hab) as [Hp _]. rewrite E, Hc in Hp. simpl in Hp.
    rewrite (hd_okm _ a0 Hm) in Hp.
    destruct (ph (nodes cf a0) - _) as [|k]; [discriminate|]. simpl in Hp. inversion Hp as [[E1 E2]].
    destruct (got (st cf b0) a0).
    - right. split; auto. now rewrite msg_of_odd.
    - left. split; auto. now rewrite Nat.add_0_r, msg_of_even.
  Qed.

  Lemma head_impm cf a0 b0 m q : Inv cf -> rn cf b0 = true -> chan cf a0 b0 = m :: q -> d_mode (st cf b0) = ImpM ->
    post (st cf b0) a0 = []
    /\ ((got (st cf b0) a0 = false /\ m = impm (mimp (cyc (st cf b0)) a0))
        \/ (got (st cf b0) a0 = true /\ m = MOk (sassign (G (S (cyc (st cf b0)))) a0))).
  Proof.
    intros HI Hr Hc Hm. pose proof (deliver_nbr cf a0 b0 m q HI Hc) as Hab.
    destruct (post_shape_impm cf a0 b0 HI Hr Hab Hm) as [E|[_ [_ E]]]; [|congruence].
    split; auto. destruct (pipe_run cf a0 b0 HI Hr Hab) as [Hp _]. rewrite E, Hc in Hp. simpl in Hp.
    rewrite (hd_impm _ a0 Hm) in Hp.
    destruct (ph (nodes cf a0) - _) as [|k]; [discriminate|]. simpl in Hp. inversion Hp as [[E1 E2]].
    destruct (got (st cf b0) a0).
    - right. split; auto. replace (2 * cyc (st cf b0) + 1 + 1) with (2 * S (cyc (st cf b0))) by lia.
      now rewrite msg_of_even.
    - left. split; auto. now rewrite Nat.add_0_r, msg_of_odd.
  Qed.

  (* a computation whose on_start raised only ever sees the first ok? message of a neighbour *)
  Lemma head_starting cf a0 b0 m q : Inv cf -> rn cf b0 = true -> chan cf a0 b0 = m :: q ->
    d_mode (st cf b0) = Starting -> post (st cf b0) a0 = [] /\ exists v, m = MOk v.
  Proof.
    intros HI Hr Hc Hm. pose proof (deliver_nbr cf a0 b0 m q HI Hc) as Hab.
    destruct (pipe_run cf a0 b0 HI Hr Hab) as [Hp [Hle Hph]].
    assert (P0 : ph (nodes cf b0) = 0) by (unfold ph; unfold rn in Hr; unfold st in Hm; now rewrite Hr, Hm).
    assert (H0 : hd (st cf b0) a0 = 0) by (unfold hd, base, got; now rewrite Hm).
    rewrite H0, P0 in *. apply seq_split_pipe in Hp as [L [EX EY]]. rewrite Hc in *.
    pose proof (f_equal (@List.length dmsg) EY) as LY. simpl in LY. rewrite map_length, seq_length in LY.
    destruct (post (st cf b0) a0) as [|x X']; [|simpl in *; lia].
    split; auto. simpl in EY. destruct (ph (nodes cf a0) - 0) as [|k]; [discriminate|].
    simpl in EY. inversion EY. exists (sassign (G 0) a0). apply (msg_of_even 0 a0).
  Qed.

  Lemma post_non cf a b : Inv cf -> ~ In a (nbrs b) -> post (st cf b) a = [].
  Proof.
    intros HI H. pose proof (I_non _ _ _ _ _ _ cf HI a b H) as Hp. unfold pipe in Hp.
    now apply app_eq_nil in Hp as [Hp _].
  Qed.

  (* the postponed improve messages of a computation in wait_ok mode *)
  Lemma pimp_facts cf b : Inv cf -> rn cf b = true -> d_mode (st cf b) = OkM ->
    let s := st cf b in
    NoDup (map fst (d_pimp s)) /\ incl (map fst (d_pimp s)) (nbrs b)
    /\ (forall p, In p (d_pimp s) -> snd p = mimp (cyc s) (fst p))
    /\ (forall a, In a (map fst (d_pimp s)) -> got s a = true)
    /\ (forall a, post s a = [] -> ~ In a (map fst (d_pimp s))).
  Proof.
    intros HI Hr Hm s.
    assert (Hpost : forall a, post s a = fromI a (d_pimp s)) by (intros; unfold post, s; now rewrite Hm).
    assert (Sh : forall a, post s a = []
                 \/ (In a (nbrs b) /\ got s a = true /\ post s a = [impm (mimp (cyc s) a)])).
    { intros a. destruct (in_dec Z.eq_dec a (nbrs b)) as [H|H].
      - destruct (post_shape_okm cf a b HI Hr H Hm) as [E|[E1 [E2 _]]]; [now left | right; auto].
      - left. now apply post_non. }
    assert (Hlast : forall a, post s a = [] -> ~ In a (map fst (d_pimp s))).
    { intros a E Hin. apply filt_in in Hin. apply Hin. rewrite Hpost in E. unfold fromI in E.
      now apply map_eq_nil in E. }
    split; [|split; [|split; [|split]]]; auto.
    - apply filt_nodup. intros a. destruct (Sh a) as [E|[_ [_ E]]]; rewrite Hpost in E; unfold fromI in E.
      + apply map_eq_nil in E. rewrite E. simpl. lia.
      + apply (f_equal (@List.length dmsg)) in E. rewrite map_length in E. simpl in E. lia.
    - intros a Hin. destruct (Sh a) as [E|[H _]]; auto. exfalso. now apply (Hlast a E).
    - intros [a m] Hin. simpl.
      assert (Hf : In (impm m) (post s a)).
      { rewrite Hpost. unfold fromI. apply in_map_iff. exists (a, m). split; auto.
        apply filter_In. split; auto. simpl. apply Z.eqb_refl. }
      destruct (Sh a) as [E|[_ [_ E]]]; rewrite E in Hf; [destruct Hf|].
      destruct Hf as [Hf|[]]. symmetry. now apply impm_inj.
    - intros a Hin. destruct (Sh a) as [E|[_ [E _]]]; auto. exfalso. now apply (Hlast a E).
  Qed.

  (* the postponed ok? messages of a computation in wait_improve mode *)
  Lemma pok_facts cf b : Inv cf -> rn cf b = true -> d_mode (st cf b) = ImpM ->
    let s := st cf b in
    NoDup (map fst (d_pok s)) /\ incl (map fst (d_pok s)) (nbrs b)
    /\ (forall p, In p (d_pok s) -> snd p = sassign (G (S (cyc s))) (fst p))
    /\ (forall a, In a (map fst (d_pok s)) -> got s a = true)
    /\ (forall a, post s a = [] -> ~ In a (map fst (d_pok s))).
  Proof.
    intros HI Hr Hm s.
    assert (Hpost : forall a, post s a = fromO a (d_pok s)) by (intros; unfold post, s; now rewrite Hm).
    assert (Sh : forall a, post s a = []
                 \/ (In a (nbrs b) /\ got s a = true /\ post s a = [MOk (sassign (G (S (cyc s))) a)])).
    { intros a. destruct (in_dec Z.eq_dec a (nbrs b)) as [H|H].
      - destruct (post_shape_impm cf a b HI Hr H Hm) as [E|[E1 [E2 _]]]; [now left | right; auto].
      - left. now apply post_non. }
    assert (Hlast : forall a, post s a = [] -> ~ In a (map fst (d_pok s))).
    { intros a E Hin. apply filt_in in Hin. apply Hin. rewrite Hpost in E. unfold fromO in E.
      now apply map_eq_nil in E. }
    split; [|split; [|split; [|split]]]; auto.
    - apply filt_nodup. intros a. destruct (Sh a) as [E|[_ [_ E]]]; rewrite Hpost in E; unfold fromO in E.
      + apply map_eq_nil in E. rewrite E. simpl. lia.
      + apply (f_equal (@List.length dmsg)) in E. rewrite map_length in E. simpl in E. lia.
    - intros a Hin. destruct (Sh a) as [E|[H _]]; auto. exfalso. now apply (Hlast a E).
    - intros [a v] Hin. simpl.
      assert (Hf : In (MOk v) (post s a)).
      { rewrite Hpost. unfold fromO. apply in_map_iff. exists (a, v). split; auto.
        apply filter_In. split; auto. simpl. apply Z.eqb_refl. }
      destruct (Sh a) as [E|[_ [_ E]]]; rewrite E in Hf; [destruct Hf|].
      destruct Hf as [Hf|[]]. now inversion Hf.
    - intros a Hin. destruct (Sh a) as [E|[_ [E _]]]; auto. exfalso. now apply (Hlast a E).
  Qed.

  (* a delivered message that is merely postponed *)
  Lemma Inv_postpone cf a0 b0 m q s' :
    Inv cf -> rn cf b0 = true -> chan cf a0 b0 = m :: q ->
    d_mode s' = d_mode (st cf b0) -> d_cycle s' = d_cycle (st cf b0) -> d_nvals s' = d_nvals (st cf b0) ->
    d_nimps s' = d_nimps (st cf b0) ->
    (forall a, post s' a = post (st cf b0) a ++ (if Z.eqb a a0 then [m] else [])) ->
    node_ok b0 s' ->
    Inv (mkConfig (upd_node (nodes cf) b0 (mkWrap true (w_held (nodes cf b0)) s'))
                  (send_all (upd_chan (chan cf) a0 b0 q) b0 [])).
  Proof.
    intros HI Hr Hc Em Ec Env Eni Hpost Hnode.
    pose proof (deliver_nbr cf a0 b0 m q HI Hc) as Hab.
    assert (Hhd : forall a, hd s' a = hd (st cf b0) a).
    { intros a. unfold hd, base, got, cyc. now rewrite Em, Ec, Env, Eni. }
    apply (Inv_deliver cf a0 b0 m q s' 0 HI Hr Hc Hab).
    - unfold ph, base, cyc. simpl. unfold rn in Hr. unfold st in *. rewrite Hr, Em, Ec. lia.
    - intros a Ha. exists []. rewrite Hpost, Hhd. simpl. split; [|lia].
      destruct (Z.eqb a a0); [now rewrite <- app_assoc | now rewrite app_nil_r].
    - intros a Ha. rewrite Hpost, (post_non cf a b0 HI Ha).
      destruct (Z.eqb_spec a a0) as [->|]; [contradiction | reflexivity].
    - exact Hnode.
  Qed.

  Lemma zmem_false x l : zmem x l = false <-> ~ In x l.
  Proof. rewrite <- zmem_In. destruct (zmem x l); split; congruence. Qed.
  Lemma zmem_snoc x l y : zmem x (l ++ [y]) = zmem x l || Z.eqb x y.
  Proof. unfold zmem. rewrite existsb_app. simpl. now rewrite orb_false_r. Qed.

  Lemma ph_run_okm (h : list (node * dmsg)) s : d_mode s = OkM -> ph (mkWrap true h s) = S (2 * cyc s).
  Proof. unfold ph, base. simpl. now intros ->. Qed.
  Lemma ph_run_impm (h : list (node * dmsg)) s : d_mode s = ImpM -> ph (mkWrap true h s) = S (2 * cyc s + 1).
  Proof. unfold ph, base. simpl. now intros ->. Qed.

  Lemma bcast_one b p : bcast b p 1 = to_all b (msg_of b p).
  Proof. unfold bcast. simpl. now rewrite app_nil_r. Qed.

  Lemma view_complete b s c :
    NoDup (map fst (d_nvals s)) -> (forall x, In x (nbrs b) -> In x (map fst (d_nvals s))) ->
    (forall a v, In (a, v) (d_nvals s) -> v = sassign (G c) a) ->
    view_eq cs ncs b s (set_nvals (nvals_of cs ncs (G c) b) (G c b)).
  Proof.
    intros Hnd Hall Hv x Hx. simpl d_nvals.
    unfold M_Dba.nvals_of. rewrite (zlookup_map_in (fun m => oz (d_value (G c m))) _ _ Hx).
    destruct (zlookup_some x (d_nvals s) (Hall x Hx)) as [v [E Hin]]. rewrite E. simpl.
    now apply Hv.
  Qed.

  Lemma aok_unfold c b : aok c b = fst (fst (do_improve b (set_nvals (nvals_of cs ncs (G c) b) (G c b)))).
  Proof. reflexivity. Qed.

  Lemma aimp_snoc c b l a : aimp c b (l ++ [a]) = imp_core b (aimp c b l) a (mimp c a).
  Proof. unfold M_Dba2.aimp. now rewrite fold_left_app. Qed.
  Lemma aimp_F c b l : aimp c b l = F b (mimp c) l (aok c b).
  Proof. reflexivity. Qed.
  Lemma after_imp_aimp c b : after_imp (G c) b = aimp c b (nbrs b).
  Proof. reflexivity. Qed.
  Lemma G_succ c b : G (S c) b = set_mode OkM (clear_view (fst (fst (send_ok b (after_imp (G c) b))))).
  Proof. reflexivity. Qed.

  (* ---------------------------------------------------------------- the delivery cases *)
  (* an ok? message reaches a computation in wait_ok mode *)
  Lemma deliver_okm_ok cf a0 b0 v q :
    Inv cf -> rn cf b0 = true -> chan cf a0 b0 = MOk v :: q -> d_mode (st cf b0) = OkM ->
    let r := dba_recv b0 (st cf b0) a0 (MOk v) in
    Inv (mkConfig (upd_node (nodes cf) b0 (mkWrap true (w_held (nodes cf b0)) (fst (fst r))))
                  (send_all (upd_chan (chan cf) a0 b0 q) b0 (snd (fst r))))
    /\ (forall n, ~ In (EvFinished n) (snd r)).
  Proof.
    intros HI Hr Hc Hm. remember (st cf b0) as s eqn:Es.
    assert (Hm' : d_mode (st cf b0) = OkM) by (now rewrite <- Es).
    pose proof (deliver_nbr cf a0 b0 _ q HI Hc) as Hab.
    destruct (head_okm cf a0 b0 _ q HI Hr Hc Hm') as [Hp0 [[Hg Ev]|[Hg Ev]]]; rewrite <- Es in Hp0, Hg, Ev.
    2:{ exfalso. symmetry in Ev. eapply impm_not_ok; eauto. }
    injection Ev as Ev'.
    destruct (I_node _ _ _ _ _ _ cf HI b0 Hr) as [Hcy Hn]. fold (st cf b0) in Hcy, Hn. rewrite <- Es in Hcy, Hn.
    rewrite Hm in Hn. destruct Hn as [Hval [Hnd [Hincl [Hvals Hld]]]].
    assert (Hgk : got s a0 = zmem a0 (map fst (d_nvals s))) by (unfold got; now rewrite Hm).
    assert (Hnk : ~ In a0 (map fst (d_nvals s))) by (apply zmem_false; congruence).
    destruct Hld as [[Hopen [Hcore [Hpok Hni]]] | [Hfull Hne]].
    2:{ exfalso. apply Hnk.
        assert (Hrev : incl (nbrs b0) (map fst (d_nvals s))).
        { apply NoDup_length_incl; auto. rewrite map_length. unfold M_Dba.nnb in Hfull. lia. }
        now apply Hrev. }
    assert (Hne : nbrs b0 <> []) by (intros E; rewrite E in Hab; destruct Hab).
    specialize (Hopen Hne).
    destruct (pimp_facts cf b0 HI Hr Hm') as [Pnd [Pincl [Pcont [Pgot Plast]]]]. rewrite <- Es in Pnd, Pincl, Pcont, Pgot, Plast.
    assert (Hlp : length (d_pimp s) < nnb b0).
    { rewrite <- (map_length fst). apply (incl_nodup_lt _ _ a0); auto. }
    intros r. unfold r. clear r.
    pose proof (fun s' j => Inv_deliver cf a0 b0 (MOk v) q s' j HI Hr Hc Hab) as ID. rewrite <- Es in ID.
    rewrite (recv_ok_spec cs ncs dom infinity maxd b0 s a0 v Hm Hni Hpok Hnk Hopen Pnd) by lia.
    set (s1 := set_nvals (d_nvals s ++ [(a0, v)]) s).
    assert (K1 : map fst (d_nvals s1) = map fst (d_nvals s) ++ [a0]) by (unfold s1; simpl; now rewrite map_app).
    assert (Hnd1 : NoDup (map fst (d_nvals s1))).
    { rewrite K1. apply NoDup_app_intro'; auto; [repeat constructor; auto | intros y Hy [<-|[]]; contradiction]. }
    assert (Hincl1 : incl (map fst (d_nvals s1)) (nbrs b0)).
    { rewrite K1. intros y Hy. apply in_app_or in Hy as [Hy|[<-|[]]]; auto. }
    assert (Hvals1 : forall a v', In (a, v') (d_nvals s1) -> v' = sassign (G (cyc s)) a).
    { intros a v' Hin. unfold s1 in Hin; simpl in Hin. apply in_app_or in Hin as [Hin|[Hin|[]]]; eauto.
      injection Hin as <- <-. exact Ev'. }
    (* consumption of the message of a0, for every case that stays in wait_ok mode *)
    assert (Cons1 : forall s', d_mode s' = OkM -> d_cycle s' = d_cycle s -> d_nvals s' = d_nvals s1 ->
              d_pimp s' = d_pimp s ->
              forall a, In a (nbrs b0) -> exists X,
                post s a ++ (if Z.eqb a a0 then MOk v :: q else chan cf a b0)
                  = X ++ post s' a ++ (if Z.eqb a a0 then q else chan cf a b0)
                /\ hd s' a = hd s a + length X).
    { intros s' Em Ec Env Ep a Ha.
      assert (Epost : post s' a = post s a) by (unfold post; now rewrite Em, Hm, Ep).
      assert (Ehd : hd s' a = 2 * cyc s + (if zmem a (map fst (d_nvals s)) || Z.eqb a a0 then 1 else 0)).
      { unfold hd, base, got, cyc. rewrite Em, Ec, Env, K1, zmem_snoc. reflexivity. }
      rewrite Epost, Ehd, (hd_okm s a Hm). unfold got. rewrite Hm.
      destruct (Z.eqb_spec a a0) as [->|Hna].
      - exists [MOk v]. rewrite Hp0. simpl. split; auto.
        apply zmem_false in Hnk. rewrite Hnk. simpl. lia.
      - exists []. simpl. split; auto. rewrite orb_false_r. lia. }
    destruct (Nat.ltb_spec (S (length (d_nvals s))) (nnb b0)) as [Hlt|Hge]; simpl fst; simpl snd.
    - (* still waiting for other neighbours *)
      split; [|intros n []].
      apply (ID s1 0).
      + rewrite ph_run_okm by (unfold s1; simpl; auto). rewrite (ph_okm cf b0 Hr Hm'). rewrite <- Es. unfold cyc, s1; simpl. lia.
      + apply Cons1; auto.
      + intros a Ha. pose proof (post_non cf a b0 HI Ha) as E. rewrite <- Es in E.
        unfold post in *. unfold s1; simpl. rewrite Hm in *. exact E.
      + split; [exact Hcy|]. unfold s1 at 1. simpl d_mode. rewrite Hm.
        split; [exact Hval|]. split; [exact Hnd1|]. split; [exact Hincl1|]. split; [exact Hvals1|].
        left. split; [|split; [exact Hcore | split; [exact Hpok | exact Hni]]].
        intros _. unfold s1; simpl. rewrite app_length. simpl. lia.
    - (* the view is complete: improve() *)
      assert (Hall : forall x, In x (nbrs b0) -> In x (map fst (d_nvals s1))).
      { intros x Hx. rewrite K1. destruct (Z.eq_dec x a0) as [->|Hxa]; [apply in_or_app; right; now left|].
        apply in_or_app; left. apply (complete_but_one (map fst (d_nvals s)) (nbrs b0) a0); auto.
        - apply nbrs_nodup.
        - rewrite map_length. unfold M_Dba.nnb in *. lia. }
      pose proof (view_complete b0 s1 (cyc s) Hnd1 Hall Hvals1) as Hview.
      assert (Hc1 : core s1 = core (set_nvals (nvals_of cs ncs (G (cyc s)) b0) (G (cyc s) b0))) by exact Hcore.
      destruct (do_improve_ext cs ncs dom infinity b0 _ _ Hc1 Hview) as [Dc [Do Dr]].
      fold (aok (cyc s) b0) in Dc.
      destruct (do_improve_frame cs ncs dom infinity b0 s1) as [Fm [Fnv [Fni [Fpok [Fpimp [Fcy [Fv [Fo1 Fo2]]]]]]]].
      destruct (do_improve b0 s1) as [[s2 o2] raised] eqn:Edi. simpl fst in *. simpl snd in *.
      destruct raised.
      + (* IndexError: the computation is stuck *)
        simpl. split; [|intros n [H|[]]; discriminate].
        rewrite (Fo2 eq_refl).
        apply (ID s2 0).
        * rewrite ph_run_okm by (rewrite Fm; unfold s1; simpl; auto). rewrite (ph_okm cf b0 Hr Hm'). rewrite <- Es.
          unfold cyc. rewrite Fcy. unfold s1; simpl. lia.
        * apply Cons1; auto; rewrite ?Fm, ?Fcy, ?Fnv, ?Fpimp; unfold s1; simpl; auto.
        * intros a Ha. unfold post. rewrite Fm. unfold s1 at 1. simpl d_mode. rewrite Hm, Fpimp. unfold s1; simpl.
          pose proof (post_non cf a b0 HI Ha) as E. rewrite <- Es in E. unfold post in E. now rewrite Hm in E.
        * split; [rewrite Fcy; unfold s1; simpl; exact Hcy|]. rewrite Fm. unfold s1 at 1. simpl d_mode. rewrite Hm.
          assert (Ecy : cyc s2 = cyc s) by (unfold cyc; rewrite Fcy; reflexivity).
          rewrite Ecy, Fv, Fnv. split; [exact Hval|]. split; [exact Hnd1|]. split; [exact Hincl1|].
          split; [exact Hvals1|]. right. split; [|split; [exact Hne | symmetry; exact Dr]].
          unfold s1; simpl. rewrite app_length. simpl. unfold M_Dba.nnb in *.
          rewrite <- (map_length fst) in Hopen. pose proof (incl_nodup_len _ _ Hnd1 Hincl1) as L.
          rewrite K1, app_length in L. simpl in L. rewrite map_length in *. lia.
      + (* improve message broadcast; wait_improve mode; postponed improve messages replayed *)
        replace (length (d_pimp s) <? nnb b0) with true by (symmetry; apply Nat.ltb_lt; exact Hlp).
        simpl. split; [|intros n []].
        set (s3 := set_mode ImpM s2).
        destruct (replay_imp_quiet cs ncs maxd b0 (guard_pok b0) (d_pimp s) s3) as [_ Eni]; auto.
        { simpl. rewrite Fni. unfold s1; simpl. rewrite Hni. auto. }
        { simpl. rewrite Fni. unfold s1; simpl. rewrite Hni. simpl. exact Hlp. }
        assert (Eni' : d_nimps (foldI b0 (d_pimp s) s3) = map fst (d_pimp s)).
        { rewrite Eni. simpl. rewrite Fni. unfold s1; simpl. now rewrite Hni. }
        destruct (foldI_frame b0 (d_pimp s) s3) as [Jm [Jnv [Jpok [Jpimp [Jcy Jv]]]]].
        set (s4 := foldI b0 (d_pimp s) s3) in *.
        assert (Ecy : cyc (set_pimp [] s4) = cyc s).
        { unfold cyc. simpl. rewrite Jcy. simpl. rewrite Fcy. reflexivity. }
        assert (Eout : o2 = bcast b0 (ph (nodes cf b0)) 1).
        { rewrite bcast_one, (ph_okm cf b0 Hr Hm'). rewrite <- Es.
          replace (S (2 * cyc s)) with (2 * cyc s + 1) by lia. rewrite msg_of_odd.
          rewrite (Fo1 eq_refl). unfold M_Dba2.mimp, imp_msg, impm. core_inj Dc. now rewrite Ci, Cc, Ct. }
        rewrite Eout.
        apply (ID (set_pimp [] s4) 1).
        * rewrite ph_run_impm by (simpl; rewrite Jm; reflexivity). rewrite (ph_okm cf b0 Hr Hm'). rewrite <- Es.
          rewrite Ecy. lia.
        * intros a Ha.
          assert (Epost : post (set_pimp [] s4) a = []).
          { unfold post. simpl. rewrite Jm, Jpok. simpl. rewrite Fpok. unfold s1; simpl. now rewrite Hpok. }
          assert (Ehd : hd (set_pimp [] s4) a = 2 * cyc s + 1 + (if zmem a (map fst (d_pimp s)) then 1 else 0)).
          { unfold hd, base, got. simpl d_mode. rewrite Jm. simpl d_mode. fold (cyc (set_pimp [] s4)).
            rewrite Ecy. simpl d_nimps. now rewrite Eni'. }
          rewrite Epost, Ehd, (hd_okm s a Hm). unfold got. rewrite Hm.
          destruct (Z.eqb_spec a a0) as [->|Hna].
          -- exists [MOk v]. rewrite Hp0. simpl. split; auto.
             apply zmem_false in Hnk. rewrite Hnk.
             replace (zmem a0 (map fst (d_pimp s))) with false by (symmetry; apply zmem_false; auto).
             simpl. lia.
          -- exists (post s a). simpl. split; [reflexivity|].
             assert (Hk : zmem a (map fst (d_nvals s)) = true).
             { apply zmem_In. specialize (Hall a Ha). rewrite K1 in Hall.
               apply in_app_or in Hall as [H|[H|[]]]; [exact H | congruence]. }
             rewrite Hk. unfold post. rewrite Hm. unfold fromI. rewrite map_length.
             rewrite (filt_len_nodup a (d_pimp s) Pnd). lia.
        * intros a Ha. unfold post. simpl. rewrite Jm, Jpok. simpl. rewrite Fpok. unfold s1; simpl. now rewrite Hpok.
        * split; [simpl; rewrite Jcy; simpl; rewrite Fcy; unfold s1; simpl; exact Hcy|].
          simpl d_mode. rewrite Jm. simpl d_mode. rewrite Ecy.
          simpl d_value. rewrite Jv. simpl d_value. rewrite Fv. unfold s1 at 1. simpl d_value.
          split; [exact Hval|]. simpl d_nimps. rewrite Eni'.
          split; [exact Pnd|]. split; [exact Pincl|]. split; [rewrite map_length; exact Hlp|].
          split; [reflexivity|].
          rewrite core_set_pimp, aimp_F. unfold s4.
          rewrite (foldI_F b0 (mimp (cyc s)) (d_pimp s) s3 Pcont).
          apply F_core. unfold s3. rewrite core_set_mode. exact Dc.
  Qed.

  (* an improve message reaches a computation in wait_improve mode: the only step that can call
     finished() before any dba_end exists *)
  Lemma deliver_impm_imp cf a0 b0 x y z q :
    Inv cf -> rn cf b0 = true -> chan cf a0 b0 = MImp x y z :: q -> d_mode (st cf b0) = ImpM ->
    let r := dba_recv b0 (st cf b0) a0 (MImp x y z) in
    ((forall n, ~ In (EvFinished n) (snd r)) /\
     Inv (mkConfig (upd_node (nodes cf) b0 (mkWrap true (w_held (nodes cf b0)) (fst (fst r))))
                   (send_all (upd_chan (chan cf) a0 b0 q) b0 (snd (fst r)))))
    \/ (stops (G (cyc (st cf b0))) b0 = true /\ d_value (fst (fst r)) = d_value (st cf b0)
        /\ In (EvFinished b0) (snd r)).
  Proof.
    intros HI Hr Hc Hm. remember (st cf b0) as s eqn:Es.
    assert (Hm' : d_mode (st cf b0) = ImpM) by (now rewrite <- Es).
    pose proof (deliver_nbr cf a0 b0 _ q HI Hc) as Hab.
    destruct (head_impm cf a0 b0 _ q HI Hr Hc Hm') as [Hp0 [[Hg Ev]|[Hg Ev]]]; rewrite <- Es in Hp0, Hg, Ev.
    2:{ discriminate. }
    assert (Em : (x, y, z) = mimp (cyc s) a0).
    { destruct (mimp (cyc s) a0) as [[x' y'] z']. simpl in Ev. now injection Ev as -> -> ->. }
    clear Ev.
    destruct (I_node _ _ _ _ _ _ cf HI b0 Hr) as [Hcy Hn]. fold (st cf b0) in Hcy, Hn. rewrite <- Es in Hcy, Hn.
    rewrite Hm in Hn. destruct Hn as [Hval [Hnd [Hincl [Hopen [Hpimp Hcore]]]]].
    assert (Hnk : ~ In a0 (d_nimps s)) by (apply zmem_false; unfold got in Hg; now rewrite Hm in Hg).
    destruct (pok_facts cf b0 HI Hr Hm') as [Pnd [Pincl [Pcont [Pgot Plast]]]]. rewrite <- Es in Pnd, Pincl, Pcont, Pgot, Plast.
    assert (Hlp : length (d_pok s) < nnb b0).
    { rewrite <- (map_length fst). apply (incl_nodup_lt _ _ a0); auto. }
    intros r. unfold r. clear r.
    pose proof (fun s' j => Inv_deliver cf a0 b0 (MImp x y z) q s' j HI Hr Hc Hab) as ID. rewrite <- Es in ID.
    rewrite (recv_imp_spec cs ncs dom infinity maxd b0 s a0 x y z Hm Hpimp Hnk Hopen Pnd) by lia.
    set (s1 := imp_core b0 s a0 (x, y, z)).
    destruct (imp_core_frame b0 s a0 (x, y, z)) as [Im [Inv_ [Ipok [Ipimp [Icy Iv]]]]]. fold s1 in Im, Inv_, Ipok, Ipimp, Icy, Iv.
    assert (K1 : d_nimps s1 = d_nimps s ++ [a0]).
    { unfold s1. rewrite imp_core_nimps. now apply set_add_new. }
    assert (Hnd1 : NoDup (d_nimps s1)).
    { rewrite K1. apply NoDup_app_intro'; auto; [repeat constructor; auto | intros w Hw [<-|[]]; contradiction]. }
    assert (Hincl1 : incl (d_nimps s1) (nbrs b0)).
    { rewrite K1. intros w Hw. apply in_app_or in Hw as [Hw|[<-|[]]]; auto. }
    assert (Hc1 : core s1 = core (aimp (cyc s) b0 (d_nimps s ++ [a0]))).
    { rewrite aimp_snoc, <- Em. unfold s1. now apply imp_core_core. }
    assert (Ecy1 : cyc s1 = cyc s) by (unfold cyc; now rewrite Icy).
    destruct (Nat.ltb_spec (S (length (d_nimps s))) (nnb b0)) as [Hlt|Hge]; simpl fst; simpl snd.
    - (* still waiting for other neighbours *)
      left. split; [intros n []|].
      apply (ID s1 0).
      + rewrite ph_run_impm by (now rewrite Im). rewrite (ph_impm cf b0 Hr Hm'). rewrite <- Es, Ecy1. lia.
      + intros a Ha.
        assert (Epost : post s1 a = post s a) by (unfold post; now rewrite Im, Hm, Ipok).
        assert (Ehd : hd s1 a = 2 * cyc s + 1 + (if zmem a (d_nimps s) || Z.eqb a a0 then 1 else 0)).
        { unfold hd, base, got. rewrite Im, Hm, Ecy1, K1, zmem_snoc. reflexivity. }
        rewrite Epost, Ehd, (hd_impm s a Hm). unfold got. rewrite Hm.
        destruct (Z.eqb_spec a a0) as [->|Hna].
        * exists [MImp x y z]. rewrite Hp0. simpl. split; auto.
          apply zmem_false in Hnk. rewrite Hnk. simpl. lia.
        * exists []. simpl. split; auto. rewrite orb_false_r. lia.
      + intros a Ha. pose proof (post_non cf a b0 HI Ha) as E. rewrite <- Es in E.
        unfold post in *. rewrite Im, Ipok. rewrite Hm in *. exact E.
      + split; [rewrite Icy; exact Hcy|]. rewrite Im, Hm, Ecy1, Iv.
        split; [exact Hval|]. split; [exact Hnd1|]. split; [exact Hincl1|].
        split; [rewrite K1, app_length; simpl; lia|]. split; [now rewrite Ipimp|].
        rewrite K1. exact Hc1.
    - (* the last improve message of the cycle: _send_ok *)
      assert (Hall : forall w, In w (nbrs b0) -> w <> a0 -> In w (d_nimps s)).
      { apply (complete_but_one (d_nimps s) (nbrs b0) a0); auto.
        - apply nbrs_nodup.
        - unfold M_Dba.nnb in *. lia. }
      assert (Hperm : Permutation (d_nimps s ++ [a0]) (nbrs b0)).
      { apply NoDup_Permutation; [rewrite <- K1; exact Hnd1 | apply nbrs_nodup|].
        intros w. split; [rewrite <- K1; apply Hincl1|].
        intros Hw. destruct (Z.eq_dec w a0) as [->|Hwa]; apply in_or_app; [right; now left | left; auto]. }
      assert (Hc2 : core s1 = core (after_imp (G (cyc s)) b0)).
      { rewrite Hc1, after_imp_aimp, !aimp_F. now apply F_perm. }
      destruct (send_ok_core cs ncs maxd b0 _ _ Hc2) as [Sc [So Se]].
      destruct (send_ok_frame cs ncs maxd b0 s1) as [Gnv [Gni [Gpok [Gpimp Gcy]]]].
      replace (length (d_pok s) <? nnb b0) with true by (symmetry; apply Nat.ltb_lt; exact Hlp).
      simpl fst. simpl snd.
      destruct (send_ok_cases cs ncs maxd b0 s1) as [[Hstop Hfin] | [Hns [Hnofin Hout]]].
      + (* stop_condition: finished() *)
        right. split.
        * unfold M_Dba.stops. core_inj Hc2. rewrite <- Cco, <- Ct.
          destruct (d_cons s1) as [[|]|]; simpl in Hstop; try discriminate. exact Hstop.
        * split; [|exact Hfin]. simpl. rewrite (send_ok_stop_value cs ncs maxd b0 s1 Hfin). exact Iv.
      + left. split; [exact Hnofin|].
        set (s2 := fst (fst (send_ok b0 s1))) in *.
        set (s' := set_pok [] (set_nvals (d_pok s) (set_mode OkM (clear_view s2)))).
        assert (Ecy : cyc s' = S (cyc s)).
        { unfold cyc, s'. simpl. rewrite Gcy, Icy. lia. }
        assert (Eval : d_value s2 = d_value (G (S (cyc s)) b0)).
        { rewrite G_succ. simpl. core_inj Sc. exact Cv. }
        assert (Eout : snd (fst (send_ok b0 s1)) = bcast b0 (ph (nodes cf b0)) 1).
        { rewrite bcast_one, (ph_impm cf b0 Hr Hm'). rewrite <- Es.
          replace (S (2 * cyc s + 1)) with (2 * S (cyc s)) by lia. rewrite msg_of_even.
          rewrite Hout. fold s2. unfold sassign. now rewrite Eval. }
        rewrite Eout.
        apply (ID s' 1).
        * rewrite ph_run_okm by reflexivity. rewrite (ph_impm cf b0 Hr Hm'). rewrite <- Es, Ecy. lia.
        * intros a Ha.
          assert (Epost : post s' a = []).
          { unfold post, s'. simpl. rewrite Gpimp, Ipimp, Hpimp. reflexivity. }
          assert (Ehd : hd s' a = 2 * S (cyc s) + (if zmem a (map fst (d_pok s)) then 1 else 0)).
          { unfold hd, base, got. replace (d_mode s') with OkM by reflexivity. rewrite Ecy. reflexivity. }
          rewrite Epost, Ehd, (hd_impm s a Hm). unfold got. rewrite Hm.
          destruct (Z.eqb_spec a a0) as [->|Hna].
          -- exists [MImp x y z]. rewrite Hp0. simpl. split; auto.
             apply zmem_false in Hnk. rewrite Hnk.
             replace (zmem a0 (map fst (d_pok s))) with false by (symmetry; apply zmem_false; auto).
             simpl. lia.
          -- exists (post s a). simpl. split; [reflexivity|].
             assert (Hk : zmem a (d_nimps s) = true) by (apply zmem_In; auto).
             rewrite Hk. unfold post. rewrite Hm. unfold fromO. rewrite map_length.
             rewrite (filt_len_nodup a (d_pok s) Pnd). lia.
        * intros a Ha. unfold post, s'. simpl. rewrite Gpimp, Ipimp, Hpimp. reflexivity.
        * split; [unfold s'; simpl; rewrite Gcy, Icy; lia|].
          replace (d_mode s') with OkM by reflexivity. rewrite Ecy.
          split; [exact Eval|]. replace (d_nvals s') with (d_pok s) by reflexivity.
          split; [exact Pnd|]. split; [exact Pincl|].
          split; [intros a v Hin; apply (Pcont (a, v) Hin)|].
          left. split; [intros _; exact Hlp|]. split; [|split; reflexivity].
          rewrite G_succ, core_set_mode. unfold s'. rewrite core_set_pok, core_set_nvals, core_set_mode.
          apply core_clear_view. exact Sc.
  Qed.

  Lemma fromI_one a a0 t : fromI a [(a0, t)] = if Z.eqb a a0 then [impm t] else [].
  Proof. unfold fromI. simpl. rewrite (Z.eqb_sym a0 a). destruct (Z.eqb a a0); reflexivity. Qed.
  Lemma fromO_one a a0 v : fromO a [(a0, v)] = if Z.eqb a a0 then [MOk v] else [].
  Proof. unfold fromO. simpl. rewrite (Z.eqb_sym a0 a). destruct (Z.eqb a a0); reflexivity. Qed.

  (* messages that arrive in the wrong mode are postponed *)
  Lemma deliver_okm_imp cf a0 b0 x y z q :
    Inv cf -> rn cf b0 = true -> chan cf a0 b0 = MImp x y z :: q -> d_mode (st cf b0) = OkM ->
    let r := dba_recv b0 (st cf b0) a0 (MImp x y z) in
    Inv (mkConfig (upd_node (nodes cf) b0 (mkWrap true (w_held (nodes cf b0)) (fst (fst r))))
                  (send_all (upd_chan (chan cf) a0 b0 q) b0 (snd (fst r))))
    /\ (forall n, ~ In (EvFinished n) (snd r)).
  Proof.
    intros HI Hr Hc Hm. unfold M_Dba.dba_recv. rewrite Hm. simpl. split; [|intros n []].
    apply (Inv_postpone cf a0 b0 _ q _ HI Hr Hc); try reflexivity.
    - intros a. unfold post. simpl. rewrite Hm, fromI_app, fromI_one. reflexivity.
    - pose proof (I_node _ _ _ _ _ _ cf HI b0 Hr) as Hn. fold (st cf b0) in Hn.
      unfold M_Dba2.node_ok in *. simpl. rewrite Hm in *. exact Hn.
  Qed.

  Lemma deliver_impm_ok cf a0 b0 v q :
    Inv cf -> rn cf b0 = true -> chan cf a0 b0 = MOk v :: q -> d_mode (st cf b0) = ImpM ->
    let r := dba_recv b0 (st cf b0) a0 (MOk v) in
    Inv (mkConfig (upd_node (nodes cf) b0 (mkWrap true (w_held (nodes cf b0)) (fst (fst r))))
                  (send_all (upd_chan (chan cf) a0 b0 q) b0 (snd (fst r))))
    /\ (forall n, ~ In (EvFinished n) (snd r)).
  Proof.
    intros HI Hr Hc Hm. unfold M_Dba.dba_recv. rewrite Hm. simpl. split; [|intros n []].
    apply (Inv_postpone cf a0 b0 _ q _ HI Hr Hc); try reflexivity.
    - intros a. unfold post. simpl. rewrite Hm, fromO_app, fromO_one. reflexivity.
    - pose proof (I_node _ _ _ _ _ _ cf HI b0 Hr) as Hn. fold (st cf b0) in Hn.
      unfold M_Dba2.node_ok in *. simpl. rewrite Hm in *. exact Hn.
  Qed.

  Lemma deliver_starting_ok cf a0 b0 v q :
    Inv cf -> rn cf b0 = true -> chan cf a0 b0 = MOk v :: q -> d_mode (st cf b0) = Starting ->
    let r := dba_recv b0 (st cf b0) a0 (MOk v) in
    Inv (mkConfig (upd_node (nodes cf) b0 (mkWrap true (w_held (nodes cf b0)) (fst (fst r))))
                  (send_all (upd_chan (chan cf) a0 b0 q) b0 (snd (fst r))))
    /\ (forall n, ~ In (EvFinished n) (snd r)).
  Proof.
    intros HI Hr Hc Hm. unfold M_Dba.dba_recv. rewrite Hm. simpl. split; [|intros n []].
    apply (Inv_postpone cf a0 b0 _ q _ HI Hr Hc); try reflexivity.
    - intros a. unfold post. simpl. rewrite Hm, fromO_app, fromO_one. reflexivity.
    - pose proof (I_node _ _ _ _ _ _ cf HI b0 Hr) as Hn. fold (st cf b0) in Hn.
      unfold M_Dba2.node_ok in *. simpl. rewrite Hm in *. exact Hn.
  Qed.

  (* start() *)
  Lemma start_cases n0 :
    let r := dba_start n0 (dba_init n0) in
    (forall n, ~ In (EvFinished n) (snd r))
    /\ exists j, j <= 1 /\ snd (fst r) = bcast n0 0 j /\ (forall a, post (fst (fst r)) a = [])
         /\ (forall a, hd (fst (fst r)) a = 0) /\ ph (mkWrap true [] (fst (fst r))) = j
         /\ node_ok n0 (fst (fst r)).
  Proof.
    assert (G0 : G 0 n0 = fst (fst (dba_start n0 (dba_init n0)))) by reflexivity.
    revert G0. unfold M_Dba.dba_start, M_Dba.dba_init. simpl.
    destruct (pick (orc0 n0) (dom n0)) as [[v|] o] eqn:Ep; simpl; intros G0.
    - split; [intros n [H|[]]; discriminate|].
      exists 1. split; [lia|]. split; [|split; [|split; [|split]]]; try reflexivity.
      + rewrite bcast_one, app_nil_r. change 0 with (2 * 0). rewrite msg_of_even.
        unfold sassign. rewrite G0. reflexivity.
      + split; [simpl; lia|]. simpl d_mode. cbv iota.
        change (cyc _) with 0. rewrite G0. simpl.
        split; [reflexivity|]. split; [constructor|]. split; [intros w []|]. split; [intros a w []|].
        left. split; [|split; [|split]]; try reflexivity.
        intros Hne. unfold M_Dba.nnb. destruct (nbrs n0); [congruence | simpl; lia].
    - split; [intros n [H|[]]; discriminate|].
      exists 0. split; [lia|]. split; [|split; [|split; [|split]]]; try reflexivity.
      split; [simpl; lia|]. reflexivity.
  Qed.

  (* ---------------------------------------------------------------- one step of the network *)
  Theorem step_cases cf a : Inv cf ->
    ((forall n, ~ In (EvFinished n) (snd (step P cf a))) /\ Inv (fst (step P cf a)))
    \/ (exists s0 n, a = Deliver s0 n /\ rn cf n = true /\ d_mode (st cf n) = ImpM
          /\ stops (G (cyc (st cf n))) n = true
          /\ (forall x, held (fst (step P cf a)) x = held cf x)
          /\ In (EvFinished n) (snd (step P cf a))
          /\ (forall m, In (EvFinished m) (snd (step P cf a)) -> m = n)).
  Proof.
    intros HI. destruct a as [n0|a0 b0]; simpl.
    - destruct (w_running (nodes cf n0)) eqn:Ru; [left; split; [intros n []|exact HI]|].
      rewrite (I_idle _ _ _ _ _ _ cf HI n0 Ru).
      destruct (start_cases n0) as [Hnf [j [Hj [Eo [Hpost [Hhd [Hph Hnode]]]]]]].
      destruct (dba_start n0 (dba_init n0)) as [[s' o] e]. simpl in *.
      left. split; [exact Hnf|]. rewrite Eo. now apply Inv_start.
    - destruct (chan cf a0 b0) as [|m q] eqn:Hc; [left; split; [intros n []|exact HI]|].
      destruct (w_running (nodes cf b0)) eqn:Ru.
      2:{ left. split; [intros n []|]. now apply Inv_hold. }
      pose proof (I_node _ _ _ _ _ _ cf HI b0 Ru) as Hnode. fold (st cf b0) in Hnode.
      fold (st cf b0).
      destruct (d_mode (st cf b0)) eqn:Hm.
      + (* on_start raised *)
        destruct (head_starting cf a0 b0 m q HI Ru Hc Hm) as [_ [v ->]].
        destruct (deliver_starting_ok cf a0 b0 v q HI Ru Hc Hm) as [A B].
        destruct (dba_recv b0 (st cf b0) a0 (MOk v)) as [[s' o] e]. left. split; auto.
      + destruct (head_okm cf a0 b0 m q HI Ru Hc Hm) as [_ [[_ ->]|[_ ->]]].
        * destruct (deliver_okm_ok cf a0 b0 _ q HI Ru Hc Hm) as [A B].
          destruct (dba_recv b0 (st cf b0) a0 _) as [[s' o] e]. left. split; auto.
        * destruct (mimp (cyc (st cf b0)) a0) as [[x y] z]. simpl impm in *.
          destruct (deliver_okm_imp cf a0 b0 x y z q HI Ru Hc Hm) as [A B].
          destruct (dba_recv b0 (st cf b0) a0 _) as [[s' o] e]. left. split; auto.
      + destruct (head_impm cf a0 b0 m q HI Ru Hc Hm) as [_ [[_ ->]|[_ ->]]].
        * destruct (mimp (cyc (st cf b0)) a0) as [[x y] z]. simpl impm in *.
          destruct (deliver_impm_imp cf a0 b0 x y z q HI Ru Hc Hm) as [[B A]|[A [B C]]].
          -- destruct (dba_recv b0 (st cf b0) a0 _) as [[s' o] e]. left. split; auto.
          -- right. exists a0, b0. split; [reflexivity|]. split; [exact Ru|]. split; [exact Hm|].
             split; [exact A|].
             pose proof (dba_recv_ok cs ncs dom infinity maxd orc0 b0 (st cf b0) a0 (MImp x y z)) as OK.
             destruct (dba_recv b0 (st cf b0) a0 _) as [[s' o] e]. simpl in *.
             split; [|split; [exact C|]].
             ++ intros w. unfold held. simpl. unfold upd_node.
                destruct (Z.eqb_spec w b0) as [->|]; [|reflexivity]. simpl. unfold st in B. now rewrite B.
             ++ intros w Hw. destruct OK as [[Fa _] _]. rewrite Forall_forall in Fa.
                apply Fa in Hw. simpl in Hw. congruence.
        * destruct (deliver_impm_ok cf a0 b0 _ q HI Ru Hc Hm) as [A B].
          destruct (dba_recv b0 (st cf b0) a0 _) as [[s' o] e]. left. split; auto.
      + exfalso. unfold M_Dba2.node_ok in Hnode. rewrite Hm in Hnode. tauto.
  Qed.

  (* ====================================================================== Part C: every schedule *)
  Lemma Inv_init : Inv (init P).
  Proof.
    constructor; simpl; auto; try discriminate.
  Qed.

  Lemma exec_inv sched : forall cf, Inv cf ->
    (forall m, ~ In (EvFinished m) (snd (exec P cf sched))) -> Inv (fst (exec P cf sched)).
  Proof.
    induction sched as [|a r IH]; intros cf HI Hno; simpl; auto.
    simpl in Hno. pose proof (step_cases cf a HI) as S.
    destruct (step P cf a) as [cf1 e1]. specialize (IH cf1).
    destruct (exec P cf1 r) as [cf2 e2]. simpl in *.
    destruct S as [[_ HI1]|[s0 [n [_ [_ [_ [_ [_ [Hin _]]]]]]]]].
    - apply IH; auto. intros m Hm. apply (Hno m). apply in_or_app. now right.
    - exfalso. apply (Hno n). apply in_or_app. now left.
  Qed.

  (* round synchronisation: as long as nobody called finished(), every reachable configuration
     satisfies the barrier invariant, i.e. every started computation is in the state, and every
     message in flight is the message, that the synchronous rounds prescribe *)
  Theorem refines_rounds sched :
    (forall m, ~ In (EvFinished m) (snd (run P sched))) -> Inv (fst (run P sched)).
  Proof. apply exec_inv. apply Inv_init. Qed.

  Lemma within_ph cf d n x : Inv cf -> within cs ncs d n x -> ph (nodes cf n) <= ph (nodes cf x) + d.
  Proof.
    intros HI W. induction W as [k n|k n m x Hm W IH]; [lia|].
    pose proof (ph_le cf n m HI (Hsym _ _ Hm)). lia.
  Qed.

  Lemma ph_pos_running (w : nwrap dst dmsg) : 1 <= ph w ->
    w_running w = true /\ (d_mode (w_st w) = OkM \/ d_mode (w_st w) = ImpM) /\ ph w <= 2 * cyc (w_st w) + 2.
  Proof.
    unfold ph, base. destruct (w_running w); [|lia]. destruct (d_mode (w_st w)); try lia; intros _; repeat split; auto; lia.
  Qed.

  Lemma node_value cf x : Inv cf -> rn cf x = true -> d_mode (st cf x) = OkM \/ d_mode (st cf x) = ImpM ->
    held cf x = sassign (G (cyc (st cf x))) x.
  Proof.
    intros HI Hr Hm. destruct (I_node _ _ _ _ _ _ cf HI x Hr) as [_ Hn]. fold (st cf x) in Hn.
    unfold held, sassign. fold (st cf x).
    destruct Hm as [Hm|Hm]; rewrite Hm in Hn; destruct Hn as [Hv _]; now rewrite Hv.
  Qed.
End Refine.

(* symmetric neighbour lists follow from well-formedness of the problem *)
Lemma wf_sym cs ncs : wf_problem cs ncs -> forall a b, In a (nbrs cs ncs b) -> In b (nbrs cs ncs a).
Proof.
  intros [W1 [_ W3]] a b Hab.
  pose proof (nbrs_neq cs ncs b a Hab) as Hne.
  unfold nbrs in Hab. apply nodup_In in Hab. apply filter_In in Hab as [Hab _].
  apply in_flat_map in Hab as [c [Hc Ha]].
  destruct (W3 b c Hc) as [Hcs Hb].
  destruct (scope_in_nbrs cs ncs a c b (W1 c a Hcs Ha) Hb) as [E|H]; [congruence | exact H].
Qed.

Section Final.
  Variable cs : list constr.
  Variable ncs : node -> list nat.
  Variable dom : node -> list Z.
  Variable infinity maxd : Z.
  Variable orc0 : node -> list Z.
  Notation P := (dba_proto cs ncs dom infinity maxd orc0).
  Notation G := (G cs ncs dom infinity maxd orc0).

  Hypothesis Hwf : wf_problem cs ncs.
  Hypothesis Hinf : 0 < infinity.

  (* safety at the first finished(), for every schedule *)
  Theorem finish_safe sched a n :
    (forall m, ~ In (EvFinished m) (snd (run P sched))) ->
    In (EvFinished n) (snd (step P (fst (run P sched)) a)) ->
    (forall x, occurs cs x -> within cs ncs (Z.to_nat maxd) n x) ->
    satisfying cs infinity (held (fst (step P (fst (run P sched)) a))).
  Proof.
    intros Hno Hin Hconn.
    pose proof (wf_sym cs ncs Hwf) as Hsym.
    pose proof (refines_rounds cs ncs dom infinity maxd orc0 Hsym sched Hno) as HI.
    set (cf := fst (run P sched)) in *.
    destruct (step_cases cs ncs dom infinity maxd orc0 Hsym cf a HI)
      as [[Hnf _]|[s0 [n' [_ [Hr [Hm [Hs [Hheld [_ Honly]]]]]]]]]; [exfalso; now apply (Hnf n)|].
    assert (n' = n) by (symmetry; now apply Honly). subst n'.
    set (K := cyc (st cf n)) in *.
    pose proof (sinit_init cs ncs dom infinity orc0) as Hinit. destruct Hinit as [Hok Hz].
    assert (HokK : forall k, gst_ok ncs (G k)) by (intros k; apply srounds_ok; exact Hok).
    pose proof (stops_pos _ _ _ _ _ _ _ (HokK K) Hs) as Hpos.
    pose proof (stops_tc _ _ _ _ _ _ _ Hs) as Htc.
    change (sround cs ncs dom infinity maxd (G K) n) with (G (S K) n) in Htc.
    destruct (counter_radius cs ncs dom infinity maxd _ (conj Hok Hz) (Z.to_nat maxd) (S K) n) as [Hle R];
      [unfold M_Dba2.G in Htc; lia|].
    set (D := Z.to_nat maxd) in *.
    set (r := (S K - D)%nat).
    assert (Hzero : all_zero cs ncs infinity (G r)).
    { intros x. destruct (occurs_dec cs x) as [Ho|Hn].
      - replace r with (S K - 1 - (D - 1))%nat by (unfold r; lia). apply R; [lia|].
        replace (S (D - 1)) with D by lia. now apply Hconn.
      - now apply no_occurrence_zero. }
    assert (Hfrozen : forall j x, sassign (G (j + r)) x = sassign (G r) x).
    { intros j x. unfold M_Dba2.G. rewrite srounds_add.
      apply (all_zero_forever cs ncs dom infinity maxd (G r) j (HokK r)); [lia | exact Hzero]. }
    assert (Hval : forall x, occurs cs x -> held cf x = sassign (G r) x).
    { intros x Hx. pose proof (within_ph cs ncs dom infinity maxd orc0 Hsym cf D n x HI (Hconn x Hx)) as Hph.
      assert (Pn : ph (nodes cf n) = S (2 * K + 1)) by (apply ph_impm; auto).
      destruct (ph_pos_running (nodes cf x)) as [Rx [Mx Lx]]; [lia|].
      rewrite (node_value cs ncs dom infinity maxd orc0 cf x HI Rx Mx).
      fold (st cf x) in Lx.
      replace (cyc (st cf x)) with ((cyc (st cf x) - r) + r)%nat by (unfold r; lia).
      apply Hfrozen. }
    intros c Hc.
    rewrite (violated_ext infinity c _ (sassign (G r))).
    - apply (all_zero_sat cs ncs infinity (G r) Hwf (HokK r) Hzero c Hc).
    - intros v Hv. rewrite Hheld. apply Hval. now exists c.
  Qed.

  (* ---- the barrier invariant in words, for every schedule before the first finished() *)
  Section Barrier.
    Variable sched : list (@action).
    Hypothesis Hno : forall m, ~ In (EvFinished m) (snd (run P sched)).
    Let cf := fst (run P sched).

    Lemma run_Inv : Inv cs ncs dom infinity maxd orc0 cf.
    Proof. apply refines_rounds; auto. now apply wf_sym. Qed.

    (* neighbours are at most one phase (one broadcast) apart *)
    Theorem phase_gap a b : In a (nbrs cs ncs b) -> (ph (nodes cf a) <= S (ph (nodes cf b)))%nat.
    Proof. apply (ph_le cs ncs dom infinity maxd orc0); [now apply wf_sym | exact run_Inv]. Qed.

    (* the head of every channel into a started computation is either the current-phase message of a
       neighbour not heard yet in this phase (it is handled), or the next-phase message of a neighbour
       already heard (it is postponed); its content is the one the synchronous rounds prescribe *)
    Theorem delivery_expected a0 b0 m q :
      w_running (nodes cf b0) = true -> chan cf a0 b0 = m :: q ->
      let s := w_st (nodes cf b0) in
      In a0 (nbrs cs ncs b0) /\
      match d_mode s with
      | OkM => (got s a0 = false /\ m = MOk (sassign (G (cyc s)) a0))
               \/ (got s a0 = true /\ m = impm (mimp cs ncs dom infinity maxd orc0 (cyc s) a0))
      | ImpM => (got s a0 = false /\ m = impm (mimp cs ncs dom infinity maxd orc0 (cyc s) a0))
                \/ (got s a0 = true /\ m = MOk (sassign (G (S (cyc s))) a0))
      | Starting => exists v, m = MOk v
      | FinM => False
      end.
    Proof.
      intros Hr Hc s. pose proof run_Inv as HI. pose proof (wf_sym cs ncs Hwf) as Hsym.
      split; [eapply (deliver_nbr cs ncs dom infinity maxd orc0); eauto|].
      destruct (d_mode s) eqn:Hm.
      - eapply (head_starting cs ncs dom infinity maxd orc0 Hsym); eauto.
      - eapply (head_okm cs ncs dom infinity maxd orc0 Hsym); eauto.
      - eapply (head_impm cs ncs dom infinity maxd orc0 Hsym); eauto.
      - pose proof (I_node _ _ _ _ _ _ cf HI b0 Hr) as [_ Hn]. fold s in Hn. now rewrite Hm in Hn.
    Qed.

    (* postponed messages are exactly next-phase messages: at most one per neighbour, only from
       neighbours already heard in the current phase, with the content of the synchronous rounds *)
    Theorem postponed_next_phase b :
      w_running (nodes cf b) = true ->
      let s := w_st (nodes cf b) in
      match d_mode s with
      | OkM => NoDup (map fst (d_pimp s))
               /\ (forall a m, In (a, m) (d_pimp s) ->
                     In a (nbrs cs ncs b) /\ got s a = true /\ m = mimp cs ncs dom infinity maxd orc0 (cyc s) a)
      | ImpM => NoDup (map fst (d_pok s)) /\ d_pimp s = []
                /\ (forall a v, In (a, v) (d_pok s) ->
                      In a (nbrs cs ncs b) /\ got s a = true /\ v = sassign (G (S (cyc s))) a)
      | _ => True
      end.
    Proof.
      intros Hr s. pose proof run_Inv as HI. pose proof (wf_sym cs ncs Hwf) as Hsym.
      destruct (d_mode s) eqn:Hm; auto.
      - destruct (pimp_facts cs ncs dom infinity maxd orc0 Hsym cf b HI Hr Hm) as [A [B [C [D _]]]].
        split; [exact A|]. intros a m Hin.
        assert (Ha : In a (map fst (d_pimp s))) by (apply in_map_iff; now exists (a, m)).
        split; [now apply B | split; [now apply D | apply (C (a, m) Hin)]].
      - destruct (pok_facts cs ncs dom infinity maxd orc0 Hsym cf b HI Hr Hm) as [A [B [C [D _]]]].
        pose proof (I_node _ _ _ _ _ _ cf HI b Hr) as [_ Hn]. fold s in Hn. rewrite Hm in Hn.
        split; [exact A|]. split; [tauto|]. intros a v Hin.
        assert (Ha : In a (map fst (d_pok s))) by (apply in_map_iff; now exists (a, v)).
        split; [now apply B | split; [now apply D | apply (C (a, v) Hin)]].
    Qed.
  End Barrier.
End Final.

(* ---------------------------------------------------------------------- non-vacuity of finish_safe:
   the instance of P_Dba.v (two variables, one "different values" constraint, max_distance 1); after
   the first 8 actions of [ex_sched] nobody has finished, the 9th action makes computation 1 call
   finished(), and every hypothesis of finish_safe holds *)
Lemma ex_conn1 : forall x, occurs ex_cs x -> within ex_cs ex_ncs (Z.to_nat 1) 1 x.
Proof.
  intros x [c [[<-|[]] Hx]]. simpl in Hx. destruct Hx as [<-|[<-|[]]].
  - apply within_step with (m := 0); [vm_compute; now left | constructor].
  - constructor.
Qed.

Definition is_finished (e : dev) : bool := match e with EvFinished _ => true | _ => false end.
Definition is_finished_by (n : node) (e : dev) : bool := match e with EvFinished m => Z.eqb m n | _ => false end.

Lemma no_finished_b evs : existsb is_finished evs = false -> forall m, ~ In (EvFinished m) evs.
Proof.
  intros H m Hin. assert (existsb is_finished evs = true); [|congruence].
  apply existsb_exists. exists (EvFinished m). split; auto.
Qed.

Lemma finished_by_b n evs : existsb (is_finished_by n) evs = true -> In (EvFinished n) evs.
Proof.
  intros H. apply existsb_exists in H as [e [Hin He]]. destruct e; try discriminate.
  simpl in He. apply Z.eqb_eq in He. now subst.
Qed.

Lemma ex_first_finish :
  let PX := dba_proto ex_cs ex_ncs ex_dom 10000 1 ex_orc in
  (forall m, ~ In (EvFinished m) (snd (run PX (firstn 8 ex_sched))))
  /\ In (EvFinished 1) (snd (step PX (fst (run PX (firstn 8 ex_sched))) (Deliver 0 1)))
  /\ satisfyingb ex_cs 10000 (held (fst (step PX (fst (run PX (firstn 8 ex_sched))) (Deliver 0 1)))) = true.
Proof.
  split; [|split].
  - apply no_finished_b. vm_compute. reflexivity.
  - apply finished_by_b. vm_compute. reflexivity.
  - vm_compute. reflexivity.
Qed.

(* ---------------------------------------------------------------------- every run in which some
   computation calls finished() has a FIRST such step, and finish_safe applies to it *)
Section AnyRun.
  Variable cs : list constr.
  Variable ncs : node -> list nat.
  Variable dom : node -> list Z.
  Variable infinity maxd : Z.
  Variable orc0 : node -> list Z.
  Notation P := (dba_proto cs ncs dom infinity maxd orc0).

  Lemma finished_b_true evs : existsb is_finished evs = true -> exists n, In (EvFinished n) evs.
  Proof.
    intros H. apply existsb_exists in H as [e [Hin He]]. destruct e; try discriminate. eauto.
  Qed.

  Lemma first_finish_split sched : forall cf n, In (EvFinished n) (snd (exec P cf sched)) ->
    exists pre a rest n1, sched = pre ++ a :: rest
      /\ (forall m, ~ In (EvFinished m) (snd (exec P cf pre)))
      /\ In (EvFinished n1) (snd (step P (fst (exec P cf pre)) a)).
  Proof.
    induction sched as [|a r IH]; intros cf n Hin; [destruct Hin|].
    simpl in Hin. destruct (step P cf a) as [cf1 e1] eqn:E1.
    destruct (exec P cf1 r) as [cf2 e2] eqn:E2. simpl in Hin.
    destruct (existsb is_finished e1) eqn:B.
    - apply finished_b_true in B as [n1 Hn1].
      exists [], a, r, n1. simpl. rewrite E1. simpl. split; auto.
    - pose proof (no_finished_b e1 B) as Hno1.
      apply in_app_or in Hin as [Hin|Hin]; [exfalso; now apply (Hno1 n)|].
      destruct (IH cf1 n) as [pre [a' [rest [n1 [Es [Hno Hf]]]]]]; [rewrite E2; exact Hin|].
      exists (a :: pre), a', rest, n1. split; [simpl; now rewrite Es|].
      simpl. rewrite E1. destruct (exec P cf1 pre) as [cf3 e3]. simpl in *. split; auto.
      intros m Hm. apply in_app_or in Hm as [Hm|Hm]; [now apply (Hno1 m) | now apply (Hno m)].
  Qed.

  Theorem finish_safe_any_run sched n :
    wf_problem cs ncs -> 0 < infinity ->
    In (EvFinished n) (snd (run P sched)) ->
    exists pre a rest n1, sched = pre ++ a :: rest
      /\ (forall m, ~ In (EvFinished m) (snd (run P pre)))
      /\ In (EvFinished n1) (snd (step P (fst (run P pre)) a))
      /\ ((forall x, occurs cs x -> within cs ncs (Z.to_nat maxd) n1 x) ->
          satisfying cs infinity (held (fst (step P (fst (run P pre)) a)))).
  Proof.
    intros Hwf Hinf Hin. destruct (first_finish_split sched (init P) n Hin) as [pre [a [rest [n1 [Es [Hno Hf]]]]]].
    exists pre, a, rest, n1. repeat split; auto.
    intros Hconn. now apply (finish_safe cs ncs dom infinity maxd orc0 Hwf Hinf pre a n1).
  Qed.
End AnyRun.
