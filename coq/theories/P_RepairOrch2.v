(* P_RepairOrch2.v -- proofs about the composed repair pipeline (C27 deepening), part 1:
   ResilientAgent.setup_repair, the hard constraints of one agent and of the whole repair
   DCOP, the activation rule.  Part 2 (orchestrator + directory) is P_RepairOrch3.v. *)
From PyDcop Require Import Base P_Base M_Repair P_Repair M_RepairOrch2.
From PyDcop Require M_RepairOrch P_RepairOrch.
From Coq Require Import Permutation.

(* ---------- strings ---------- *)
Lemma slength_append (a b : string) : String.length (a ++ b) = (String.length a + String.length b)%nat.
Proof. induction a as [|ch a IH]; simpl; auto. Qed.

Lemma append_inj_r (t : string) : forall s1 s2 : string, (s1 ++ t = s2 ++ t)%string -> s1 = s2.
Proof.
  induction s1 as [|a s1 IH]; intros [|b s2] H; simpl in H; auto.
  - exfalso. apply (f_equal String.length) in H. simpl in H. rewrite slength_append in H. lia.
  - exfalso. apply (f_equal String.length) in H. simpl in H. rewrite slength_append in H. lia.
  - inversion H; subst. f_equal. now apply IH.
Qed.

Lemma bvname_inj_comp a c c' : bvname c a = bvname c' a -> c = c'.
Proof.
  unfold bvname. intros H. simpl in H. inversion H as [H1]. now apply append_inj_r in H1.
Qed.

(* ---------- dicts ---------- *)
Section DictFresh.
  Context {K V : Type} (keq : K -> K -> bool).
  Hypothesis keq_eq : forall a b, keq a b = true <-> a = b.

  Lemma dict_set_fresh k (v : V) l : ~ In k (map fst l) -> dict_set keq k v l = l ++ [(k, v)].
  Proof.
    induction l as [|[k' v'] r IH]; simpl; intros H; auto.
    destruct (keq k k') eqn:E.
    - apply keq_eq in E. subst. tauto.
    - f_equal. apply IH. tauto.
  Qed.

  Lemma dict_set_keys_in k (v : V) l x : In x (map fst (dict_set keq k v l)) <-> x = k \/ In x (map fst l).
  Proof.
    induction l as [|[k' v'] r IH]; simpl.
    - split; intros [H|[]]; auto.
    - destruct (keq k k') eqn:E; simpl.
      + apply keq_eq in E. subst. split; intros [H|H]; auto.
      + rewrite IH. tauto.
  Qed.

  Lemma dict_set_keys_nodup k (v : V) l : NoDup (map fst l) -> NoDup (map fst (dict_set keq k v l)).
  Proof.
    induction l as [|[k' v'] r IH]; simpl; intros H.
    - repeat constructor. intros [].
    - inversion H; subst. destruct (keq k k') eqn:E; simpl.
      + constructor; auto.
      + constructor; auto. rewrite dict_set_keys_in. intros [->|Hin]; auto.
        assert (keq k k = true) by now apply keq_eq. congruence.
  Qed.

  Lemma fold_dict_set_fresh {A} (f : A -> K) (g : A -> V) l : forall acc,
    NoDup (map f l) -> (forall a, In a l -> ~ In (f a) (map fst acc)) ->
    fold_left (fun d a => dict_set keq (f a) (g a) d) l acc = acc ++ map (fun a => (f a, g a)) l.
  Proof.
    induction l as [|a r IH]; simpl; intros acc Hnd Hf.
    - now rewrite app_nil_r.
    - inversion Hnd; subst. rewrite dict_set_fresh by (apply Hf; auto).
      rewrite IH; auto.
      + rewrite <- app_assoc. reflexivity.
      + intros b Hb. rewrite map_app, in_app_iff. simpl. intros [H|[H|[]]].
        * apply (Hf b); auto.
        * apply H1. rewrite H. now apply in_map.
  Qed.

  Lemma lookup_map_in {A} (f : A -> K) (g : A -> V) l a :
    In a l -> (forall b, In b l -> f b = f a -> g b = g a) ->
    lookup keq (f a) (map (fun a => (f a, g a)) l) = Some (g a).
  Proof.
    induction l as [|b r IH]; simpl; intros Hin Hg; [contradiction|].
    destruct (keq (f a) (f b)) eqn:E.
    - apply keq_eq in E. f_equal. apply Hg; auto.
    - destruct Hin as [->|Hin].
      + assert (keq (f a) (f a) = true) by now apply keq_eq. congruence.
      + apply IH; auto.
  Qed.
End DictFresh.

(* ---------- binary variables ---------- *)
Lemma mk_binvars_map c agts : NoDup agts ->
  mk_binvars c agts = map (fun a => ((c, a), bvname c a)) agts.
Proof.
  intros H. unfold mk_binvars.
  rewrite (fold_dict_set_fresh bkey_eqb bkey_eqb_iff (fun a => (c, a)) (fun a => bvname c a)); auto.
  apply FinFun.Injective_map_NoDup; auto. intros a b E. now inversion E.
Qed.

Lemma mk_binvars_keys c agts : NoDup agts -> map fst (mk_binvars c agts) = map (fun a => (c, a)) agts.
Proof. intros H. rewrite mk_binvars_map by auto. now rewrite map_map. Qed.

Lemma mk_binvars_lookup c agts a : NoDup agts -> In a agts ->
  lookup bkey_eqb (c, a) (mk_binvars c agts) = Some (bvname c a).
Proof.
  intros Hnd Hin. rewrite mk_binvars_map by auto.
  apply (lookup_map_in bkey_eqb bkey_eqb_iff (fun a => (c, a)) (fun a => bvname c a)); auto.
  intros b _ E. now inversion E.
Qed.

(* ---------- setup_repair on well formed repair information ---------- *)
Definition cands_of (ci : string * info) : list string := fst (fst (snd ci)).
(* every entry lists the agent itself among the candidates (the orchestrator only sends an
   agent the computations it holds a replica of) and candidate sets have no repetition *)
Definition wf_info (own : string) (inf : list (string * info)) : Prop :=
  NoDup (map fst inf) /\ forall ci, In ci inf -> In own (cands_of ci) /\ NoDup (cands_of ci).

Definition cbv_of (own : string) (inf : list (string * info)) : binvars :=
  map (fun ci => ((fst ci, own), bvname (fst ci) own)) inf.
Definition hosted_of (inf : list (string * info)) : list (string * (binvars * relation)) :=
  map (fun ci => (fst ci, (mk_binvars (fst ci) (cands_of ci),
                           create_hosted (fst ci) (mk_binvars (fst ci) (cands_of ci))))) inf.

Lemma setup_loop_ok own inf : forall cbv hs,
  wf_info own inf ->
  (forall ci, In ci inf -> ~ In (fst ci, own) (map fst cbv) /\ ~ In (fst ci) (map fst hs)) ->
  setup_loop own inf cbv hs = Ok (cbv ++ cbv_of own inf, hs ++ hosted_of inf).
Proof.
  induction inf as [|[c [[agts f] n]] r IH]; intros cbv hs [Hnd Hwf] Hfresh; simpl.
  - now rewrite !app_nil_r.
  - destruct (Hwf (c, (agts, f, n)) (or_introl eq_refl)) as [Hown Hnda]. unfold cands_of in *. simpl in *.
    rewrite mk_binvars_lookup by auto.
    destruct (Hfresh _ (or_introl eq_refl)) as [F1 F2]. simpl in F1, F2.
    rewrite (dict_set_fresh bkey_eqb bkey_eqb_iff) by auto.
    rewrite (dict_set_fresh String.eqb string_eqb_iff) by auto.
    inversion Hnd; subst.
    rewrite IH.
    + rewrite <- !app_assoc. reflexivity.
    + split; auto. intros ci Hci. apply (Hwf ci). auto.
    + intros ci Hci. destruct (Hfresh ci (or_intror Hci)) as [G1 G2].
      rewrite !map_app, !in_app_iff. simpl. split.
      * intros [H|[H|[]]]; auto. inversion H; subst. apply H1. now apply in_map.
      * intros [H|[H|[]]]; auto. subst. apply H1. now apply in_map.
Qed.

Lemma setup_repair_ok own rem fp inf : wf_info own inf ->
  setup_repair own rem fp inf
  = Ok (mkRD (cbv_of own inf) (hosted_of inf) (create_capacity own rem fp (cbv_of own inf))).
Proof.
  intros H. unfold setup_repair. rewrite setup_loop_ok; auto.
Qed.

(* without the agent among the candidates of an entry the real code raises KeyError *)
Lemma setup_repair_keyerror own rem fp c agts f n r :
  NoDup agts -> ~ In own agts -> setup_repair own rem fp ((c, (agts, f, n)) :: r) = Err EKey.
Proof.
  intros Hnd Hn. unfold setup_repair. simpl. rewrite mk_binvars_map by auto.
  assert (E : lookup bkey_eqb (c, own) (map (fun a => ((c, a), bvname c a)) agts) = None).
  { clear Hnd. induction agts as [|a t IH]; simpl; auto.
    destruct (bkey_eqb (c, own) (c, a)) eqn:E.
    - apply bkey_eqb_iff in E. inversion E; subst. simpl in Hn. tauto.
    - apply IH. simpl in Hn. tauto. }
  now rewrite E.
Qed.

(* ---------- sums of constraint values ---------- *)
Lemma sum_res_zero_iff l :
  (forall r, In r l -> exists v, r = Ok v /\ 0 <= v) ->
  (exists v, sum_res l = Ok v /\ 0 <= v) /\
  (sum_res l = Ok 0 <-> forall r, In r l -> r = Ok 0).
Proof.
  induction l as [|r t IH]; intros H.
  - split; [exists 0; split; [reflexivity|lia]|]. split; auto. intros _ r [].
  - destruct (H r (or_introl eq_refl)) as [v [-> Hv]].
    destruct IH as [[w [Hw Hw0]] IH]; [intros; apply H; simpl; auto|].
    simpl. rewrite Hw. simpl. split; [exists (v + w); split; [reflexivity|lia]|].
    split.
    + intros E. inversion E. assert (v = 0) by lia. assert (w = 0) by lia. subst.
      intros r [<-|Hr]; auto. apply IH; auto.
    + intros Hall. assert (Ev : @Ok Z v = Ok 0) by (apply Hall; simpl; auto). inversion Ev; subst.
      assert (E : sum_res t = Ok 0) by (apply IH; intros; apply Hall; simpl; auto).
      rewrite E in Hw. inversion Hw; subst. reflexivity.
Qed.

(* ---------- specification vocabulary ---------- *)
(* computation c is selected by exactly one of the agents agts *)
Definition exactly_one (x : bkey -> Z) (c : string) (agts : list string) : Prop :=
  exists a, In a agts /\ x (c, a) = 1 /\ forall a', In a' agts -> x (c, a') = 1 -> a' = a.
(* footprint the computations cs selected on agent own add to it *)
Definition load (fp : string -> Z) (x : bkey -> Z) (own : string) (cs : list string) : Z :=
  zsum (map (fun c => if x (c, own) =? 1 then fp c else 0) cs).
Definition binary_on (x : bkey -> Z) (inf : list (string * info)) : Prop :=
  forall ci a, In ci inf -> In a (cands_of ci) -> x (fst ci, a) = 0 \/ x (fst ci, a) = 1.

Lemma load_perm fp x own cs cs' : Permutation cs cs' -> load fp x own cs = load fp x own cs'.
Proof. intros H. unfold load. apply zsum_perm. now apply Permutation_map. Qed.

Lemma load_selected fp x own cs :
  zsum (map (fun k : bkey => fp (fst k)) (filter (fun k => x k =? 1) (map (fun c => (c, own)) cs)))
  = load fp x own cs.
Proof.
  unfold load. induction cs as [|c r IH]; simpl; auto.
  destruct (x (c, own) =? 1); simpl; rewrite IH; reflexivity.
Qed.

Lemma asg_x_asg_of bv x : asg_x bv x = asg_of bv x.
Proof. reflexivity. Qed.

Lemma cbv_names_nodup own inf : NoDup (map fst inf) -> NoDup (map snd (cbv_of own inf)).
Proof.
  intros H. unfold cbv_of. rewrite map_map. simpl.
  induction inf as [|ci r IH]; simpl; constructor; inversion H; subst; auto.
  intros Hin. apply in_map_iff in Hin as [cj [E Hj]]. apply bvname_inj_comp in E.
  apply H2. rewrite <- E. now apply in_map.
Qed.

Lemma cbv_keys own inf : map fst (cbv_of own inf) = map (fun c => (c, own)) (map fst inf).
Proof. unfold cbv_of. now rewrite !map_map. Qed.

(* ---------- the hard constraints of one agent ---------- *)
Lemma hosted_value_spec x ci : NoDup (cands_of ci) ->
  (forall a, In a (cands_of ci) -> x (fst ci, a) = 0 \/ x (fst ci, a) = 1) ->
  let vb := mk_binvars (fst ci) (cands_of ci) in
  exists r, rel_call (create_hosted (fst ci) vb) (asg_x vb x) = Ok r /\ (r = 0 \/ r = 10000) /\
            (r = 0 <-> exactly_one x (fst ci) (cands_of ci)).
Proof.
  intros Hnd Hb vb.
  destruct (hosted_exactly_one_candidate_l (fst ci) vb x) as [r [Hr [Hv Hz]]].
  - unfold vb. rewrite mk_binvars_keys by auto.
    apply FinFun.Injective_map_NoDup; auto. intros a b E. now inversion E.
  - unfold vb. rewrite mk_binvars_keys by auto. intros k Hk.
    apply in_map_iff in Hk as [a [<- Ha]]. auto.
  - exists r. split; auto. split; auto. rewrite Hz. unfold vb. rewrite mk_binvars_keys by auto.
    unfold exactly_one. split.
    + intros [k [Hk [Hx Hu]]]. apply in_map_iff in Hk as [a [<- Ha]]. exists a. repeat split; auto.
      intros a' Ha' Hx'. assert (E : (fst ci, a') = (fst ci, a)) by (apply Hu; auto; now apply in_map).
      now inversion E.
    + intros [a [Ha [Hx Hu]]]. exists (fst ci, a). split; [now apply in_map|]. split; auto.
      intros k' Hk' Hx'. apply in_map_iff in Hk' as [a' [<- Ha']]. f_equal. auto.
Qed.

Lemma capacity_value_spec own rem fp inf x : NoDup (map fst inf) ->
  (forall c, In c (map fst inf) -> x (c, own) = 0 \/ x (c, own) = 1) ->
  exists r, rel_call (create_capacity own rem fp (cbv_of own inf)) (asg_x (cbv_of own inf) x) = Ok r /\
            (r = 0 \/ r = 10000) /\ (r = 0 <-> load fp x own (map fst inf) <= rem).
Proof.
  intros Hnd Hb.
  destruct (capacity_zero_iff_fits_l own rem fp (cbv_of own inf) x (asg_x (cbv_of own inf) x))
    as [r [Hr [Hv Hz]]].
  - now apply cbv_names_nodup.
  - apply Permutation_refl.
  - rewrite cbv_keys. intros k Hk. apply in_map_iff in Hk as [c [<- Hc]]. auto.
  - exists r. split; auto. split; auto. rewrite Hz. unfold selected. rewrite cbv_keys.
    now rewrite load_selected.
Qed.

(* an agent's hard constraints are all satisfied iff every computation it is a candidate for
   is selected by exactly one of that computation's candidates and what the agent itself
   selects fits its remaining capacity *)
Lemma agent_hard_zero_iff own rem fp inf rd x :
  wf_info own inf -> binary_on x inf -> setup_repair own rem fp inf = Ok rd ->
  (exists v, agent_hard rd x = Ok v /\ 0 <= v) /\
  (agent_hard rd x = Ok 0 <->
   (forall ci, In ci inf -> exactly_one x (fst ci) (cands_of ci)) /\
   load fp x own (map fst inf) <= rem).
Proof.
  intros Hwf Hb Hs. rewrite setup_repair_ok in Hs by auto. inversion Hs; subst rd; clear Hs.
  destruct Hwf as [Hnd Hwf]. unfold agent_hard, capacity_value, hosted_values. cbn [rd_cbv rd_hosted rd_capacity].
  destruct (capacity_value_spec own rem fp inf x Hnd) as [rc [Hrc [Hvc Hzc]]].
  { intros c Hc. apply in_map_iff in Hc as [ci [<- Hci]]. apply Hb; auto. apply Hwf; auto. }
  assert (Hh : forall ci, In ci inf ->
            exists r, rel_call (create_hosted (fst ci) (mk_binvars (fst ci) (cands_of ci)))
                               (asg_x (mk_binvars (fst ci) (cands_of ci)) x) = Ok r /\
                      (r = 0 \/ r = 10000) /\ (r = 0 <-> exactly_one x (fst ci) (cands_of ci))).
  { intros ci Hci. apply hosted_value_spec; [apply Hwf; auto|]. intros a Ha. apply Hb; auto. }
  match goal with |- context [sum_res ?l] => destruct (sum_res_zero_iff l) as [Hex Hiff] end.
  { intros r [<-|Hr].
    - exists rc. split; auto. lia.
    - unfold hosted_of in Hr. rewrite map_map in Hr. apply in_map_iff in Hr as [ci [<- Hci]]. simpl.
      destruct (Hh ci Hci) as [r [Hr [Hv _]]]. exists r. split; auto. lia. }
  split; auto. rewrite Hiff. split.
  - intros Hall. split.
    + intros ci Hci. destruct (Hh ci Hci) as [r [Hr [_ Hz]]]. apply Hz.
      assert (E : rel_call (create_hosted (fst ci) (mk_binvars (fst ci) (cands_of ci)))
                    (asg_x (mk_binvars (fst ci) (cands_of ci)) x) = Ok 0).
      { apply Hall. right. unfold hosted_of. rewrite map_map. apply in_map_iff. exists ci. auto. }
      rewrite Hr in E. now inversion E.
    + apply Hzc. specialize (Hall _ (or_introl eq_refl)). rewrite Hrc in Hall. now inversion Hall.
  - intros [Hone Hcap] r [<-|Hr].
    + rewrite Hrc. f_equal. now apply Hzc.
    + unfold hosted_of in Hr. rewrite map_map in Hr. apply in_map_iff in Hr as [ci [<- Hci]]. simpl.
      destruct (Hh ci Hci) as [r [Hr [_ Hz]]]. rewrite Hr. f_equal. apply Hz. auto.
Qed.

(* ---------- activation: what the agent deploys and reports ---------- *)
Lemma repair_comps_map own inf : NoDup (map fst inf) ->
  repair_comps (cbv_of own inf) = map (fun ci => (bvname (fst ci) own, fst ci)) inf.
Proof.
  intros Hnd. unfold repair_comps.
  rewrite (fold_dict_set_fresh String.eqb string_eqb_iff (fun kv : bkey * string => snd kv)
             (fun kv => fst (fst kv))); auto.
  - unfold cbv_of. now rewrite map_map.
  - now apply cbv_names_nodup.
Qed.

Lemma agent_outcome_spec own inf x : NoDup (map fst inf) ->
  agent_outcome own (cbv_of own inf) x = filter (fun c => x (c, own) =? 1) (map fst inf).
Proof.
  intros Hnd. unfold agent_outcome, agent_values, M_RepairOrch.agent_selected.
  rewrite repair_comps_map by auto. rewrite map_map. simpl.
  clear Hnd. induction inf as [|ci r IH]; simpl; auto.
  destruct (x (fst ci, own) =? 1); simpl; now rewrite IH.
Qed.

Lemma agent_outcome_in own inf x c : NoDup (map fst inf) ->
  (In c (agent_outcome own (cbv_of own inf) x) <-> In c (map fst inf) /\ x (c, own) = 1).
Proof.
  intros H. rewrite agent_outcome_spec by auto. rewrite filter_In, Z.eqb_eq. tauto.
Qed.
