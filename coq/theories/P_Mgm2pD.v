(* P_Mgm2pD.v -- MGM2 payload refinement, part 4 (C03): the movers of a cycle WITH commitments.  Round level: two
   constraint-sharing variables that both move in one round of M_Mgm2r.mgm2_next are the two partners of one committed
   pair and both said go (a go needs a gain strictly better than every other neighbour's, a unilateral move a gain at
   least as good with a lexical tie-break); lifted to asynchronous executions by the refinement of P_Mgm2pC.v. *)
From Coq Require Import ZArith List Bool Lia.
From PyDcop Require Import Base Net M_Mgm M_Mgm2 M_Mgm2x M_Mgm2r P_Mgm P_Mgm3 P_Mgm2x P_Mgm2y P_Mgm2z P_Mgm2r P_Mgm2pA P_Mgm2pB P_Mgm2pC.
Import ListNotations.
Open Scope Z_scope.

Section Movers.
  Variable d : dcop.
  Variables thr favor : Z.
  Variable a : Z -> Z.
  Variable o : Z -> list Z.
  Notation G := (r2_pgain d thr favor a o).
  Notation mx := (d_max d).

  (* x is not better than y for the objective (signed gains: larger is better when minimising) *)
  Definition wk (x y : Z) : Prop := if mx then y <= x else x <= y.
  Definition st_ (x y : Z) : Prop := if mx then y < x else x < y.

  Lemma fold_best_ge r : forall b, wk b (fold_left (fun u v => if mx then Z.min u v else Z.max u v) r b) /\
    forall x, In x r -> wk x (fold_left (fun u v => if mx then Z.min u v else Z.max u v) r b).
  Proof.
    unfold wk. induction r as [|y r IH]; intros b; simpl.
    - split; [destruct mx; lia|intros x []].
    - destruct (IH (if mx then Z.min b y else Z.max b y)) as [I1 I2]. split.
      + destruct mx; lia.
      + intros x [<-|Hx]; [destruct mx; lia|apply I2; exact Hx].
  Qed.
  Lemma bestl_bound l x : In x l -> wk x (bestl d l).
  Proof.
    unfold bestl. destruct l as [|y r]; [intros []|]. intros [<-|Hx].
    - apply (proj1 (fold_best_ge r y)).
    - apply (proj2 (fold_best_ge r y) x Hx).
  Qed.

  Lemma ng_in n m : In m (nbrs d n) -> In (m, G m) (r2_ng d thr favor a o n).
  Proof. intros H. unfold r2_ng. apply in_map_iff. exists m. split; [reflexivity|exact H]. Qed.

  Lemma umoves_beats n m : r2_umoves d thr favor a o n = true -> In m (nbrs d n) ->
    wk (G m) (G n) /\ (G m = G n -> n < m).
  Proof.
    intros Hu Hm. unfold r2_umoves in Hu. cbv zeta in Hu.
    pose proof (ng_in n m Hm) as Hin.
    assert (Hb : wk (G m) (bestl d (map snd (r2_ng d thr favor a o n)))).
    { apply bestl_bound. apply in_map_iff. exists (m, G m). split; [reflexivity|exact Hin]. }
    set (B := bestl d (map snd (r2_ng d thr favor a o n))) in *.
    apply orb_true_iff in Hu as [Hu|Hu].
    - unfold wk in *. destruct mx; apply Z.ltb_lt in Hu; split; lia.
    - apply andb_true_iff in Hu as [E F]. apply Z.eqb_eq in E. rewrite forallb_forall in F.
      specialize (F (m, G m) Hin). simpl in F. split; [rewrite E; exact Hb|].
      intros Eq. apply orb_true_iff in F as [F|F]; [apply negb_true_iff, Z.eqb_neq in F; lia|apply Z.ltb_lt in F; exact F].
  Qed.

  Lemma go_beats n p m : r2_go d thr favor a o n = true -> r2_partner d thr favor a o n = Some p ->
    In m (nbrs d n) -> m <> p -> st_ (G m) (G n).
  Proof.
    intros Hg Hp Hm Hne. unfold r2_go in Hg. rewrite Hp in Hg.
    apply andb_true_iff in Hg as [_ Hg]. cbv zeta in Hg.
    assert (Hin : In (G m) (map snd (filter (fun q => negb (fst q =? p)) (r2_ng d thr favor a o n)))).
    { apply in_map_iff. exists (m, G m). split; [reflexivity|]. apply filter_In. split; [apply ng_in; exact Hm|].
      simpl. apply negb_true_iff. apply Z.eqb_neq. exact Hne. }
    pose proof (bestl_bound _ _ Hin) as Hb.
    destruct (map snd (filter (fun q => negb (fst q =? p)) (r2_ng d thr favor a o n))) as [|z r] eqn:E; [destruct Hin|].
    unfold wk, st_ in *. destruct mx; apply Z.ltb_lt in Hg; lia.
  Qed.

  Lemma partner_sym n p : r2_committed d thr favor a o n = true -> r2_partner d thr favor a o n = Some p ->
    r2_committed d thr favor a o p = true /\ r2_partner d thr favor a o p = Some n.
  Proof.
    unfold r2_committed, r2_partner. destruct (r2_offerer thr o n) eqn:Eo.
    - unfold r2_accepted_by. destruct (r2_choice d thr o n) as [p'|] eqn:Ec; [|discriminate].
      destruct (r2_acc d thr favor a o p') as [[[vo vp] o']|] eqn:Ea; [|discriminate].
      destruct (Z.eqb_spec o' n) as [->|]; [|discriminate]. intros _ Hp. injection Hp as <-.
      destruct (mgm2_pair_state_l d thr favor a o p' n vo vp Ea) as (_ & _ & _ & C1 & _ & P1 & _). split; assumption.
    - destruct (r2_acc d thr favor a o n) as [[[vo vp] o']|] eqn:Ea; [|discriminate]. intros _ Hp. injection Hp as <-.
      destruct (mgm2_pair_state_l d thr favor a o n o' vo vp Ea) as (_ & _ & _ & _ & C2 & _ & P2 & _). split; assumption.
  Qed.

  (* what a mover is *)
  Lemma moves_cases n : r2_moves d thr favor a o n = true ->
    (r2_committed d thr favor a o n = false /\ r2_umoves d thr favor a o n = true) \/
    (r2_committed d thr favor a o n = true /\ exists p, r2_partner d thr favor a o n = Some p /\
       r2_go d thr favor a o n = true /\ r2_go d thr favor a o p = true).
  Proof.
    unfold r2_moves. intros H. apply andb_true_iff in H as [_ H].
    destruct (r2_committed d thr favor a o n); [right|left; split; [reflexivity|exact H]].
    split; [reflexivity|]. destruct (r2_partner d thr favor a o n) as [p|]; [|discriminate].
    apply andb_true_iff in H as [H1 H2]. exists p. repeat split; assumption.
  Qed.

  (* two constraint-sharing movers of one round are the two partners of one committed pair, both with go *)
  Theorem r2_movers_adjacent n m : r2_moves d thr favor a o n = true -> r2_moves d thr favor a o m = true ->
    In m (nbrs d n) ->
    r2_committed d thr favor a o n = true /\ r2_partner d thr favor a o n = Some m /\
    r2_committed d thr favor a o m = true /\ r2_partner d thr favor a o m = Some n /\
    r2_go d thr favor a o n = true /\ r2_go d thr favor a o m = true.
  Proof.
    intros Mn Mm Hnm. pose proof (nbrs_sym d n m Hnm) as Hmn.
    assert (Hne : n <> m) by (intros ->; eapply nbrs_irrefl; eauto).
    destruct (moves_cases n Mn) as [[Cn Un]|[Cn (p & Pn & Gn & Gp)]];
    destruct (moves_cases m Mm) as [[Cm Um]|[Cm (q & Pm & Gm & Gq)]].
    - exfalso. destruct (umoves_beats n m Un Hnm) as [A1 A2]. destruct (umoves_beats m n Um Hmn) as [B1 B2].
      unfold wk in *. destruct mx; assert (E : G m = G n) by lia; specialize (A2 E); specialize (B2 (eq_sym E)); lia.
    - exfalso. destruct (Z.eq_dec q n) as [->|Hq].
      + destruct (partner_sym m n Cm Pm) as [C _]. congruence.
      + destruct (umoves_beats n m Un Hnm) as [A1 _]. pose proof (go_beats m q n Gm Pm Hmn ltac:(congruence)) as B.
        unfold wk, st_ in *. destruct mx; lia.
    - exfalso. destruct (Z.eq_dec p m) as [->|Hp].
      + destruct (partner_sym n m Cn Pn) as [C _]. congruence.
      + destruct (umoves_beats m n Um Hmn) as [A1 _]. pose proof (go_beats n p m Gn Pn Hnm ltac:(congruence)) as B.
        unfold wk, st_ in *. destruct mx; lia.
    - destruct (Z.eq_dec p m) as [->|Hp].
      + destruct (partner_sym n m Cn Pn) as [_ P']. repeat split; assumption.
      + exfalso. pose proof (go_beats n p m Gn Pn Hnm ltac:(congruence)) as B.
        destruct (Z.eq_dec q n) as [->|Hq].
        * destruct (partner_sym m n Cm Pm) as [_ P']. congruence.
        * pose proof (go_beats m q n Gm Pm Hmn ltac:(congruence)) as B'. unfold st_ in *. destruct mx; lia.
  Qed.
End Movers.

Lemma mgm2_async_movers_closed d stop thr favor orc fuel cf1 cf2 j n m : fuel_ok d fuel ->
  reachable (mgm2_proto_f d stop thr favor orc fuel) cf1 -> reachable (mgm2_proto_f d stop thr favor orc fuel) cf2 ->
  at_boundary2 d cf1 j -> at_boundary2 d cf2 (S j) ->
  In n (ids d) -> In m (ids d) -> held2 cf2 n <> held2 cf1 n -> held2 cf2 m <> held2 cf1 m -> In m (nbrs d n) ->
  let a := RA2 d thr favor orc j in let o := RO2 d thr favor orc j in
  r2_committed d thr favor a o n = true /\ r2_partner d thr favor a o n = Some m /\
  r2_committed d thr favor a o m = true /\ r2_partner d thr favor a o m = Some n /\
  r2_go d thr favor a o n = true /\ r2_go d thr favor a o m = true.
Proof.
  intros Hf R1 R2 B1 B2 Hn Hm Dn Dm Hnm. cbv zeta.
  apply r2_movers_adjacent; [| |exact Hnm].
  - apply (changed_moves d stop thr favor orc fuel Hf cf1 cf2 j n R1 R2 B1 B2 Hn Dn).
  - apply (changed_moves d stop thr favor orc fuel Hf cf1 cf2 j m R1 R2 B1 B2 Hm Dm).
Qed.
