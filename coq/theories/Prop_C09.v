(* Prop_C09.v -- C09: DBA declares termination only on a satisfying assignment.

   FULL STATEMENT:
     forall problem, max_distance >= every hop distance, 0 < infinity, forall sched,
       let (cf, evs) := run (dba_proto ...) sched in
       at every prefix of sched ending with an EvFinished event, satisfying (held cf_prefix).
   What is proved below:
     * [dba_finish_safe]: the statement for the FIRST EvFinished of a run, for EVERY asynchronous
       per-channel-FIFO schedule (any interleaving of start() calls and deliveries), all problems, all sizes,
       all random draws: the assignment held by ALL computations right after the step that calls finished()
       violates no constraint (hypotheses: well-formed problem, 0 < infinity, every variable of a constraint
       within max_distance hops of the finishing computation).  It rests on
     * [dba_refines_rounds] (round synchronisation): before the first finished() every reachable configuration
       satisfies the barrier invariant M_Dba2.Inv - every started computation is in the state, and every
       message in flight / buffered / postponed is the message, that the synchronous rounds [srounds]
       prescribe; readable consequences: [dba_phase_gap], [dba_delivery_expected], [dba_postponed_next_phase];
     * the synchronous-round theorems (dba_sync_finish_safe_partial, dba_sync_safe_forever, dba_counter_radius)
       and the all-schedule facts of the first build (second group).
     * [dba_finish_safe_all] / [dba_finish_safe_every] (P_Dba3.v): the FULL statement - every finished() of
       every run, not only the first.  After the first finished() the stopped computation skips one ok?
       broadcast (a quirk kept in the model), so the barrier invariant no longer holds; instead the
       frozen-assignment invariant P_Dba3.Fz (every variable of a constraint started and holding a satisfying
       assignment A, positive weights, every stored or travelling ok? value equal to A, _can_move False in
       wait_improve mode, only neighbours send) is established in the configuration of the first finished()
       and preserved by EVERY step [dba_frozen_step], so from then on nobody ever moves again;
     * [dba_end_flood] (P_Dba4.v): liveness of the dba_end flood in quiescence form, for every schedule and
       every problem; [dba_finished_kinds], [dba_end_is_last], [dba_finished_count_partial]: the finished()
       calls of one computation are (stop_condition firings)* followed by at most one dba_end call, after
       which the computation is silent for ever.
   Not proved: that stop_condition fires AT MOST ONCE per computation (then the count would be exactly 1 or
   2); it needs message counting across the broken barrier - see design_notes/C09.md. *)
From PyDcop Require Import Base Net M_Dba P_Dba M_Dba2 P_Dba2 P_Dba3 P_Dba4.

Theorem dba_sync_finish_safe_partial :
  forall (cs : list constr) (ncs : node -> list nat) (dom : node -> list Z) (infinity maxd : Z)
         (g0 : gst) (k : nat) (n : node),
    wf_problem cs ncs -> 0 < infinity -> gst_init ncs g0 ->
    (forall x, occurs cs x -> within cs ncs (Z.to_nat maxd) n x) ->
    stops cs ncs dom infinity maxd (srounds cs ncs dom infinity maxd k g0) n = true ->
    satisfying cs infinity (sassign (srounds cs ncs dom infinity maxd k g0)).
Proof. exact sync_finish_safe. Qed.

Theorem dba_sync_safe_forever :
  forall (cs : list constr) (ncs : node -> list nat) (dom : node -> list Z) (infinity maxd : Z)
         (g0 : gst) (k : nat) (n : node),
    wf_problem cs ncs -> 0 < infinity -> gst_init ncs g0 ->
    (forall x, occurs cs x -> within cs ncs (Z.to_nat maxd) n x) ->
    stops cs ncs dom infinity maxd (srounds cs ncs dom infinity maxd k g0) n = true ->
    forall j, satisfying cs infinity (sassign (srounds cs ncs dom infinity maxd (j + k) g0))
              /\ forall x, sassign (srounds cs ncs dom infinity maxd (j + k) g0) x
                           = sassign (srounds cs ncs dom infinity maxd k g0) x.
Proof. exact sync_safe_forever. Qed.

Theorem dba_counter_radius :
  forall (cs : list constr) (ncs : node -> list nat) (dom : node -> list Z) (infinity maxd : Z) (g0 : gst),
    gst_init ncs g0 ->
    forall (d k : nat) (n : node), Z.of_nat d <= d_tc (srounds cs ncs dom infinity maxd k g0 n) ->
      (d <= k)%nat /\
      forall i x, (i < d)%nat -> within cs ncs (S i) n x ->
                  seval cs ncs infinity (srounds cs ncs dom infinity maxd (k - 1 - i) g0) x = 0.
Proof. exact counter_radius. Qed.

(* ---- for EVERY asynchronous schedule of the network model *)
Theorem dba_first_finish_by_counter :
  forall cs ncs dom infinity maxd orc0 (sched : list (@action)) (a : @action) (n : node),
    let P := dba_proto cs ncs dom infinity maxd orc0 in
    (forall m, ~ In (EvFinished m) (snd (run P sched))) ->
    In (EvFinished n) (snd (step P (fst (run P sched)) a)) ->
    exists s m q, a = Deliver s n /\ chan (fst (run P sched)) s n = m :: q /\ m <> MEnd
                  /\ w_running (nodes (fst (run P sched)) n) = true.
Proof. exact first_finish_by_counter. Qed.

Theorem dba_stop_needs_counter :
  forall cs ncs maxd (n : node) (s : dst),
    In (EvFinished n) (snd (send_ok cs ncs maxd n s)) -> d_cons s = Some true /\ d_tc s + 1 = maxd.
Proof. exact (fun cs ncs maxd => stop_needs_counter cs ncs (fun _ => []) 0 maxd (fun _ => [])). Qed.

Theorem dba_end_after_finish :
  forall cs ncs dom infinity maxd orc0 (sched : list (@action)),
    let P := dba_proto cs ncs dom infinity maxd orc0 in
    ((forall s d, ~ In MEnd (chan (fst (run P sched)) s d))
     /\ (forall n s, ~ In (s, MEnd) (w_held (nodes (fst (run P sched)) n))))
    \/ exists n, In (EvFinished n) (snd (run P sched)).
Proof. exact end_after_finish. Qed.

Theorem dba_no_nested_replay :
  forall cs ncs dom infinity maxd orc0 (sched : list (@action)) (n : node),
    let P := dba_proto cs ncs dom infinity maxd orc0 in
    In (EvRaise n 9) (snd (run P sched)) -> In (EvRaise n 1) (snd (run P sched)).
Proof. exact no_nested_replay. Qed.

Theorem dba_sinit_is_initial :
  forall cs ncs dom infinity orc0, gst_init ncs (sinit cs ncs dom infinity orc0).
Proof. exact sinit_init. Qed.

(* ---- round synchronisation and safety for EVERY asynchronous schedule (P_Dba2.v; vocabulary in M_Dba2.v) *)
Theorem dba_refines_rounds :
  forall cs ncs dom infinity maxd orc0, wf_problem cs ncs ->
  forall (sched : list (@action)),
    (forall m, ~ In (EvFinished m) (snd (run (dba_proto cs ncs dom infinity maxd orc0) sched))) ->
    Inv cs ncs dom infinity maxd orc0 (fst (run (dba_proto cs ncs dom infinity maxd orc0) sched)).
Proof. exact run_Inv. Qed.

Theorem dba_phase_gap :
  forall cs ncs dom infinity maxd orc0, wf_problem cs ncs ->
  forall (sched : list (@action)),
    (forall m, ~ In (EvFinished m) (snd (run (dba_proto cs ncs dom infinity maxd orc0) sched))) ->
    forall a b, In a (nbrs cs ncs b) ->
      (ph (nodes (fst (run (dba_proto cs ncs dom infinity maxd orc0) sched)) a)
       <= S (ph (nodes (fst (run (dba_proto cs ncs dom infinity maxd orc0) sched)) b)))%nat.
Proof. exact phase_gap. Qed.

Theorem dba_delivery_expected :
  forall cs ncs dom infinity maxd orc0, wf_problem cs ncs ->
  forall (sched : list (@action)),
    (forall m, ~ In (EvFinished m) (snd (run (dba_proto cs ncs dom infinity maxd orc0) sched))) ->
    forall (a0 b0 : node) (m : dmsg) (q : list dmsg),
      let cf := fst (run (dba_proto cs ncs dom infinity maxd orc0) sched) in
      w_running (nodes cf b0) = true -> chan cf a0 b0 = m :: q ->
      let s := w_st (nodes cf b0) in
      In a0 (nbrs cs ncs b0) /\
      match d_mode s with
      | OkM => (got s a0 = false /\ m = MOk (sassign (G cs ncs dom infinity maxd orc0 (cyc s)) a0))
               \/ (got s a0 = true /\ m = impm (mimp cs ncs dom infinity maxd orc0 (cyc s) a0))
      | ImpM => (got s a0 = false /\ m = impm (mimp cs ncs dom infinity maxd orc0 (cyc s) a0))
                \/ (got s a0 = true /\ m = MOk (sassign (G cs ncs dom infinity maxd orc0 (S (cyc s))) a0))
      | Starting => exists v, m = MOk v
      | FinM => False
      end.
Proof. exact delivery_expected. Qed.

Theorem dba_postponed_next_phase :
  forall cs ncs dom infinity maxd orc0, wf_problem cs ncs ->
  forall (sched : list (@action)),
    (forall m, ~ In (EvFinished m) (snd (run (dba_proto cs ncs dom infinity maxd orc0) sched))) ->
    forall b : node,
      let cf := fst (run (dba_proto cs ncs dom infinity maxd orc0) sched) in
      w_running (nodes cf b) = true ->
      let s := w_st (nodes cf b) in
      match d_mode s with
      | OkM => NoDup (map fst (d_pimp s))
               /\ (forall a m, In (a, m) (d_pimp s) ->
                     In a (nbrs cs ncs b) /\ got s a = true /\ m = mimp cs ncs dom infinity maxd orc0 (cyc s) a)
      | ImpM => NoDup (map fst (d_pok s)) /\ d_pimp s = []
                /\ (forall a v, In (a, v) (d_pok s) ->
                      In a (nbrs cs ncs b) /\ got s a = true
                      /\ v = sassign (G cs ncs dom infinity maxd orc0 (S (cyc s))) a)
      | _ => True
      end.
Proof. exact postponed_next_phase. Qed.

(* the headline: for every schedule, right after the step that produces the first finished() of the run,
   the assignment held by all computations violates no constraint *)
Theorem dba_finish_safe :
  forall cs ncs dom infinity maxd orc0, wf_problem cs ncs -> 0 < infinity ->
  forall (sched : list (@action)) (a : @action) (n : node),
    let P := dba_proto cs ncs dom infinity maxd orc0 in
    (forall m, ~ In (EvFinished m) (snd (run P sched))) ->
    In (EvFinished n) (snd (step P (fst (run P sched)) a)) ->
    (forall x, occurs cs x -> within cs ncs (Z.to_nat maxd) n x) ->
    satisfying cs infinity (held (fst (step P (fst (run P sched)) a))).
Proof. exact finish_safe. Qed.

(* the same, phrased for an arbitrary run: if any computation calls finished() during a run, the run
   splits at its FIRST finished() and dba_finish_safe applies to that step *)
Theorem dba_finish_safe_any_run :
  forall cs ncs dom infinity maxd orc0 (sched : list (@action)) (n : node),
    wf_problem cs ncs -> 0 < infinity ->
    In (EvFinished n) (snd (run (dba_proto cs ncs dom infinity maxd orc0) sched)) ->
    exists pre a rest n1, sched = pre ++ a :: rest
      /\ (forall m, ~ In (EvFinished m) (snd (run (dba_proto cs ncs dom infinity maxd orc0) pre)))
      /\ In (EvFinished n1) (snd (step (dba_proto cs ncs dom infinity maxd orc0)
                                        (fst (run (dba_proto cs ncs dom infinity maxd orc0) pre)) a))
      /\ ((forall x, occurs cs x -> within cs ncs (Z.to_nat maxd) n1 x) ->
          satisfying cs infinity
            (held (fst (step (dba_proto cs ncs dom infinity maxd orc0)
                             (fst (run (dba_proto cs ncs dom infinity maxd orc0) pre)) a)))).
Proof. exact finish_safe_any_run. Qed.

(* non-vacuity: an instance meeting every hypothesis of dba_sync_finish_safe_partial, in which the
   assignment violates the constraint in round 0 and a computation stops in round 1; and an
   asynchronous run of the same instance that reaches finished() *)
Example dba_nonvacuous :
  wf_problem ex_cs ex_ncs /\ gst_init ex_ncs ex_g0
  /\ (forall x, occurs ex_cs x -> within ex_cs ex_ncs (Z.to_nat 1) 0 x)
  /\ stops ex_cs ex_ncs ex_dom 10000 1 (srounds ex_cs ex_ncs ex_dom 10000 1 1 ex_g0) 0 = true
  /\ satisfyingb ex_cs 10000 (sassign (srounds ex_cs ex_ncs ex_dom 10000 1 0 ex_g0)) = false
  /\ (let r := run (dba_proto ex_cs ex_ncs ex_dom 10000 1 ex_orc) ex_sched in
      existsb (fun e => match e with EvFinished 0 => true | _ => false end) (snd r) = true).
Proof.
  exact (conj ex_wf (conj (sinit_init _ _ _ _ _) (conj ex_conn
          (conj (proj1 ex_stops) (conj (proj1 (proj2 (proj2 ex_stops))) (proj1 ex_async)))))).
Qed.

(* non-vacuity of dba_finish_safe: on the same instance, nobody has finished after the first 8 actions
   of ex_sched, the 9th action (Deliver 0 1) makes computation 1 call finished(), and every hypothesis of
   the theorem holds for it *)
Example dba_finish_safe_nonvacuous :
  let PX := dba_proto ex_cs ex_ncs ex_dom 10000 1 ex_orc in
  wf_problem ex_cs ex_ncs /\ 0 < 10000
  /\ (forall m, ~ In (EvFinished m) (snd (run PX (firstn 8 ex_sched))))
  /\ In (EvFinished 1) (snd (step PX (fst (run PX (firstn 8 ex_sched))) (Deliver 0 1)))
  /\ (forall x, occurs ex_cs x -> within ex_cs ex_ncs (Z.to_nat 1) 1 x).
Proof.
  exact (conj ex_wf (conj eq_refl (conj (proj1 ex_first_finish) (conj (proj1 (proj2 ex_first_finish)) ex_conn1)))).
Qed.

(* ---- safety at EVERY finished() of every run (P_Dba3.v) *)
(* the frozen-assignment invariant is preserved by every step of the network, for any satisfying A *)
Theorem dba_frozen_step :
  forall cs ncs dom infinity maxd orc0 (A : node -> Z),
    wf_problem cs ncs -> 0 < infinity -> satisfying cs infinity A ->
    forall (cf : config dst dmsg) (a : @action),
      Fz cs ncs orc0 A cf -> Fz cs ncs orc0 A (fst (step (dba_proto cs ncs dom infinity maxd orc0) cf a)).
Proof. exact Fz_step. Qed.

(* it holds (for the assignment of the first all-zero round) in the configuration in which the first
   finished() of a run is about to happen *)
Theorem dba_first_finish_frozen :
  forall cs ncs dom infinity maxd orc0, wf_problem cs ncs -> 0 < infinity ->
  forall (sched : list (@action)) (a : @action) (n : node),
    let P := dba_proto cs ncs dom infinity maxd orc0 in
    (forall m, ~ In (EvFinished m) (snd (run P sched))) ->
    In (EvFinished n) (snd (step P (fst (run P sched)) a)) ->
    (forall x, occurs cs x -> within cs ncs (Z.to_nat maxd) n x) ->
    exists A, satisfying cs infinity A /\ Fz cs ncs orc0 A (fst (run P sched)).
Proof. exact first_finish_frozen. Qed.

(* from the first finished() of a run on, whatever the rest of the schedule does, the assignment held by
   all computations violates no constraint and is the one held at the first finished() *)
Theorem dba_finish_safe_all :
  forall cs ncs dom infinity maxd orc0, wf_problem cs ncs -> 0 < infinity ->
  forall (pre : list (@action)) (a : @action) (rest : list (@action)) (n1 : node),
    let P := dba_proto cs ncs dom infinity maxd orc0 in
    (forall m, ~ In (EvFinished m) (snd (run P pre))) ->
    In (EvFinished n1) (snd (step P (fst (run P pre)) a)) ->
    (forall x, occurs cs x -> within cs ncs (Z.to_nat maxd) n1 x) ->
    satisfying cs infinity (held (fst (run P (pre ++ a :: rest))))
    /\ forall x, occurs cs x ->
         held (fst (run P (pre ++ a :: rest))) x = held (fst (step P (fst (run P pre)) a)) x.
Proof. exact finish_safe_all. Qed.

(* C09 as stated: for every schedule, whenever a step makes ANY computation call finished() - the first time
   or any later time, by its termination counter or because a dba_end message arrived - the assignment held
   by all computations right after that step violates no constraint (max_distance at or above the hop
   distance between any two variables that occur in constraints) *)
Theorem dba_finish_safe_every :
  forall cs ncs dom infinity maxd orc0, wf_problem cs ncs -> 0 < infinity ->
  forall (sched : list (@action)) (a : @action) (n : node),
    let P := dba_proto cs ncs dom infinity maxd orc0 in
    (forall y x, occurs cs y -> occurs cs x -> within cs ncs (Z.to_nat maxd) y x) ->
    In (EvFinished n) (snd (step P (fst (run P sched)) a)) ->
    satisfying cs infinity (held (fst (step P (fst (run P sched)) a))).
Proof. exact finish_safe_every. Qed.

(* ---- the dba_end flood and the finished() calls of one computation (P_Dba4.v) *)
(* invariant of every run: for neighbours a, b with a finished, a dba_end of a is in the channel a->b, or in
   b's pre-start buffer, or b is in mode 'finished'; mode 'finished' implies an earlier finished() call *)
Theorem dba_flood_invariant :
  forall cs ncs dom infinity maxd orc0 (sched : list (@action)),
    FL cs ncs orc0 (fst (run (dba_proto cs ncs dom infinity maxd orc0) sched))
                   (snd (run (dba_proto cs ncs dom infinity maxd orc0) sched)).
Proof. exact run_FL. Qed.

(* liveness of the flood: in every quiescent configuration (all channels empty, every variable of a
   constraint started) in which some computation a has called finished(), every computation connected to a
   has called finished() and is in mode 'finished' - the dba_end message reached everyone *)
Theorem dba_end_flood :
  forall cs ncs dom infinity maxd orc0 (sched : list (@action)),
    wf_problem cs ncs ->
    let cf := fst (run (dba_proto cs ncs dom infinity maxd orc0) sched) in
    let evs := snd (run (dba_proto cs ncs dom infinity maxd orc0) sched) in
    (forall a b, chan cf a b = []) ->
    (forall y, occurs cs y -> w_running (nodes cf y) = true) ->
    forall a, In (EvFinished a) evs ->
    forall k x, within cs ncs k a x ->
      In (EvFinished x) evs /\ (nbrs cs ncs x <> [] -> d_mode (st cf x) = FinM).
Proof. exact end_flood. Qed.

(* every finished() of n is caused by a message delivered to n (not in mode 'finished'): a dba_end (exactly one
   call, n is left in mode 'finished') or an ok?/improve message (stop_condition; n is NOT left in mode
   'finished' - the quirk) *)
Theorem dba_finished_kinds :
  forall cs ncs dom infinity maxd orc0 (cf : config dst dmsg) (a : @action) (n : node),
    let P := dba_proto cs ncs dom infinity maxd orc0 in
    reachable P cf ->
    In (EvFinished n) (snd (step P cf a)) ->
    exists s m q, a = Deliver s n /\ chan cf s n = m :: q /\ w_running (nodes cf n) = true
      /\ d_mode (st cf n) <> FinM
      /\ ((m = MEnd /\ snd (step P cf a) = [EvFinished n] /\ d_mode (st (fst (step P cf a)) n) = FinM)
          \/ (m <> MEnd /\ d_mode (st (fst (step P cf a)) n) <> FinM)).
Proof. exact finished_kinds. Qed.

(* after a computation handled a dba_end it never produces an event again (no hook call at all) *)
Theorem dba_end_is_last :
  forall cs ncs dom infinity maxd orc0 (cf : config dst dmsg) (s n : node) (q : list dmsg) (rest : list (@action)),
    let P := dba_proto cs ncs dom infinity maxd orc0 in
    chan cf s n = MEnd :: q -> w_running (nodes cf n) = true ->
    forall e, In e (snd (exec P (fst (step P cf (Deliver s n))) rest)) -> ev_node e <> n.
Proof. exact end_is_last. Qed.

(* FULL STATEMENT wanted (dba_finished_count): every computation calls finished() at most twice in a run - once
   if a dba_end stops it, twice if its own stop_condition fired first.  Proved: the part contributed by the
   dba_end flood is EXACT - the number of finished() calls of n in a whole run is the number made before the
   first dba_end n handles, plus exactly one (zero if n is already in mode 'finished'), whatever follows.
   Missing: stop_condition fires at most once per computation (count before the first dba_end <= 1). *)
Theorem dba_finished_count_partial :
  forall cs ncs dom infinity maxd orc0 (sched : list (@action)) (s n : node) (q : list dmsg) (rest : list (@action)),
    let P := dba_proto cs ncs dom infinity maxd orc0 in
    chan (fst (run P sched)) s n = MEnd :: q -> w_running (nodes (fst (run P sched)) n) = true ->
    count_fin n (snd (run P (sched ++ Deliver s n :: rest)))
    = (count_fin n (snd (run P sched))
       + match d_mode (st (fst (run P sched)) n) with FinM => 0 | _ => 1 end)%nat.
Proof. exact finished_count_partial. Qed.

(* non-vacuity of dba_finish_safe_all / dba_finish_safe_every / dba_end_flood / dba_finished_count_partial: the
   two-variable instance run to quiescence - the schedule splits at its first finished() (9th action), every
   hypothesis holds, both computations call finished() twice (stop_condition, then the other's dba_end), all
   channels are empty at the end, both are in mode 'finished' and the assignment is satisfying *)
Example dba_finish_all_nonvacuous :
  let r := run (dba_proto ex_cs ex_ncs ex_dom 10000 1 ex_orc) ex_sched_q in
  wf_problem ex_cs ex_ncs
  /\ (forall y x, occurs ex_cs y -> occurs ex_cs x -> within ex_cs ex_ncs (Z.to_nat 1) y x)
  /\ forallb (fun a => forallb (fun b => match chan (fst r) a b with [] => true | _ => false end) [0; 1]) [0; 1] = true
  /\ count_fin 0 (snd r) = 2%nat /\ count_fin 1 (snd r) = 2%nat
  /\ d_mode (st (fst r) 0) = FinM /\ d_mode (st (fst r) 1) = FinM
  /\ satisfyingb ex_cs 10000 (held (fst r)) = true
  /\ ex_sched_q = firstn 8 ex_sched ++ Deliver 0 1 :: (skipn 9 ex_sched ++ [Deliver 0 1; Deliver 1 0]).
Proof. exact (conj ex_wf (conj ex_all_conn ex_quiescent)). Qed.
