(* Prop_C09.v -- C09: DBA declares termination only on a satisfying assignment.

   FULL STATEMENT (target, not proved as such):
     forall problem, max_distance >= every hop distance, 0 < infinity, forall sched,
       let (cf, evs) := run (dba_proto ...) sched in
       at every prefix of sched ending with an EvFinished event, satisfying (held cf_prefix).
   What is proved below:
     * the statement for the synchronous-round semantics of the same node-local functions
       (dba_sync_finish_safe_partial, dba_sync_safe_forever, dba_counter_radius), all problems, all sizes,
       all random draws, any number of rounds;
     * for EVERY asynchronous schedule: see the second group.
   Missing for the full statement: the round-synchronisation lemma (under per-channel FIFO every node
   computes in its k-th cycle exactly what [sround] computes in round k); it is checked on every run
   by the correspondence (M_Dba.sync_agrees). *)
From PyDcop Require Import Base Net M_Dba P_Dba.

Theorem dba_sync_finish_safe_partial :
  forall (cs : list constr) (ncs : node -> list nat) (dom : node -> list Z) (infinity maxd : Z)
         (g0 : gst) (k : nat) (n : node),
    wf_problem cs ncs -> 0 < infinity -> gst_init ncs g0 ->
    (forall x, occurs cs x -> within cs ncs (Z.to_nat maxd) n x) ->
    stops cs ncs dom infinity maxd (srounds cs ncs dom infinity maxd k g0) n = true ->
    satisfying cs infinity (sassign (srounds cs ncs dom infinity maxd k g0)).
Proof. exact sync_finish_safe. Qed.

Theorem dba_sync_safe_forever :
  forall (cs : list constr) (ncs : node -> list nat) (dom : node -> list Z) (infinity maxd : Z)
         (g0 : gst) (k : nat) (n : node),
    wf_problem cs ncs -> 0 < infinity -> gst_init ncs g0 ->
    (forall x, occurs cs x -> within cs ncs (Z.to_nat maxd) n x) ->
    stops cs ncs dom infinity maxd (srounds cs ncs dom infinity maxd k g0) n = true ->
    forall j, satisfying cs infinity (sassign (srounds cs ncs dom infinity maxd (j + k) g0))
              /\ forall x, sassign (srounds cs ncs dom infinity maxd (j + k) g0) x
                           = sassign (srounds cs ncs dom infinity maxd k g0) x.
Proof. exact sync_safe_forever. Qed.

Theorem dba_counter_radius :
  forall (cs : list constr) (ncs : node -> list nat) (dom : node -> list Z) (infinity maxd : Z) (g0 : gst),
    gst_init ncs g0 ->
    forall (d k : nat) (n : node), Z.of_nat d <= d_tc (srounds cs ncs dom infinity maxd k g0 n) ->
      (d <= k)%nat /\
      forall i x, (i < d)%nat -> within cs ncs (S i) n x ->
                  seval cs ncs infinity (srounds cs ncs dom infinity maxd (k - 1 - i) g0) x = 0.
Proof. exact counter_radius. Qed.

(* ---- for EVERY asynchronous schedule of the network model *)
Theorem dba_first_finish_by_counter :
  forall cs ncs dom infinity maxd orc0 (sched : list (@action)) (a : @action) (n : node),
    let P := dba_proto cs ncs dom infinity maxd orc0 in
    (forall m, ~ In (EvFinished m) (snd (run P sched))) ->
    In (EvFinished n) (snd (step P (fst (run P sched)) a)) ->
    exists s m q, a = Deliver s n /\ chan (fst (run P sched)) s n = m :: q /\ m <> MEnd
                  /\ w_running (nodes (fst (run P sched)) n) = true.
Proof. exact first_finish_by_counter. Qed.

Theorem dba_stop_needs_counter :
  forall cs ncs maxd (n : node) (s : dst),
    In (EvFinished n) (snd (send_ok cs ncs maxd n s)) -> d_cons s = Some true /\ d_tc s + 1 = maxd.
Proof. exact (fun cs ncs maxd => stop_needs_counter cs ncs (fun _ => []) 0 maxd (fun _ => [])). Qed.

Theorem dba_end_after_finish :
  forall cs ncs dom infinity maxd orc0 (sched : list (@action)),
    let P := dba_proto cs ncs dom infinity maxd orc0 in
    ((forall s d, ~ In MEnd (chan (fst (run P sched)) s d))
     /\ (forall n s, ~ In (s, MEnd) (w_held (nodes (fst (run P sched)) n))))
    \/ exists n, In (EvFinished n) (snd (run P sched)).
Proof. exact end_after_finish. Qed.

Theorem dba_no_nested_replay :
  forall cs ncs dom infinity maxd orc0 (sched : list (@action)) (n : node),
    let P := dba_proto cs ncs dom infinity maxd orc0 in
    In (EvRaise n 9) (snd (run P sched)) -> In (EvRaise n 1) (snd (run P sched)).
Proof. exact no_nested_replay. Qed.

Theorem dba_sinit_is_initial :
  forall cs ncs dom infinity orc0, gst_init ncs (sinit cs ncs dom infinity orc0).
Proof. exact sinit_init. Qed.

(* non-vacuity: an instance meeting every hypothesis of dba_sync_finish_safe_partial, in which the
   assignment violates the constraint in round 0 and a computation stops in round 1; and an
   asynchronous run of the same instance that reaches finished() *)
Example dba_nonvacuous :
  wf_problem ex_cs ex_ncs /\ gst_init ex_ncs ex_g0
  /\ (forall x, occurs ex_cs x -> within ex_cs ex_ncs (Z.to_nat 1) 0 x)
  /\ stops ex_cs ex_ncs ex_dom 10000 1 (srounds ex_cs ex_ncs ex_dom 10000 1 1 ex_g0) 0 = true
  /\ satisfyingb ex_cs 10000 (sassign (srounds ex_cs ex_ncs ex_dom 10000 1 0 ex_g0)) = false
  /\ (let r := run (dba_proto ex_cs ex_ncs ex_dom 10000 1 ex_orc) ex_sched in
      existsb (fun e => match e with EvFinished 0 => true | _ => false end) (snd r) = true).
Proof.
  exact (conj ex_wf (conj (sinit_init _ _ _ _ _) (conj ex_conn
          (conj (proj1 ex_stops) (conj (proj1 (proj2 (proj2 ex_stops))) (proj1 ex_async)))))).
Qed.
