(* M_SelectBest.v -- property C10, deepening 2: the best-value selection of A-DSA and GDBA inside
   the model.  In M_Select.v the list of best values is an INPUT of the selection-only models
   (a mask over the domain, one record per evaluation).  Here the record is COMPUTED by executable
   renderings of
     adsa.ADsaComputation.find_best_values            ([fbv]: for value in domain: cost == best ->
                                                       append / better -> replace; start +-inf)
     gdba.GdbaComputation._compute_best_improvement   ([cbi]: best None -> take / better -> replace /
                                                       == -> append)
   from the cost of every domain value (what assignment_cost + cost_for_val, resp.
   compute_eval_value, return: still an input, exact integers), together with the branch conditions
   the code derives from the best cost (adsa: delta = abs(current_cost - best_cost) > 0; gdba:
   _my_improve = cost - best_eval).  The protocols are the ones of M_Select.v fed with the computed
   records, so every theorem about them (for ALL record streams) applies.
   Models and the correspondence case only; proofs in P_SelectBest.v. *)
From PyDcop Require Import Base Net M_Select.

(* is cost c strictly better than b ? *)
Definition better (mx : bool) (c b : Z) : bool := if mx then b <? c else c <? b.

(* find_best_values: [best = None] is the initial +inf (min) / -inf (max): no integer cost equals it,
   every integer cost is better *)
Fixpoint fbv (mx : bool) (vals costs : list Z) (arg : list Z) (best : option Z) : list Z * option Z :=
  match vals, costs with
  | v :: vr, c :: cr =>
      match best with
      | None => fbv mx vr cr [v] (Some c)
      | Some b =>
          if c =? b then fbv mx vr cr (arg ++ [v]) best
          else if better mx c b then fbv mx vr cr [v] (Some c)
          else fbv mx vr cr arg best
      end
  | _, _ => (arg, best)
  end.

(* _compute_best_improvement *)
Fixpoint cbi (mx : bool) (vals evals : list Z) (arg : list Z) (best : option Z) : list Z * option Z :=
  match vals, evals with
  | v :: vr, c :: cr =>
      match best with
      | None => cbi mx vr cr [v] (Some c)
      | Some b =>
          if better mx c b then cbi mx vr cr [v] (Some c)
          else if c =? b then cbi mx vr cr (arg ++ [v]) best
          else cbi mx vr cr arg best
      end
  | _, _ => (arg, best)
  end.

(* the positions whose cost is b *)
Definition opt_mask (costs : list Z) (b : Z) : list bool := map (fun c => c =? b) costs.

(* one full tick of A-DSA: (cost of every domain value, cost of the current value WITHOUT the variable's
   own cost - as tick() computes it -, exists_violated_constraint()) |-> (delta > 0, violated, mask) *)
Definition adsa_rec (mx : bool) (d : list Z) (r : list Z * Z * bool) : bool * bool * list bool :=
  let '(costs, cur, viol) := r in
  match snd (fbv mx d costs [] None) with
  | None => (true, viol, [])                       (* empty domain: abs(cur - inf) > 0 *)
  | Some b => (0 <? Z.abs (cur - b), viol, opt_mask costs b)
  end.

(* one completed ok phase of GDBA: (__cost__, eval of every domain value) |-> (_my_improve, mask);
   an empty domain (best_eval None: TypeError in the code) yields no record *)
Definition gdba_rec (mx : bool) (d : list Z) (r : Z * list Z) : option (Z * list bool) :=
  let '(cur, evals) := r in
  match snd (cbi mx d evals [] None) with
  | None => None
  | Some b => Some (cur - b, opt_mask evals b)
  end.

Fixpoint somes {A} (l : list (option A)) : list A :=
  match l with [] => [] | Some x :: r => x :: somes r | None :: r => somes r end.

Definition adsa2_proto (dom : node -> list Z) (nbrs : node -> list node) (iso : node -> option Z)
    (orc : node -> list Z) (variant prob : Z) (mx : bool) (acosts : node -> list (list Z * Z * bool)) :=
  adsa_proto dom nbrs iso orc variant prob (fun n => map (adsa_rec mx (dom n)) (acosts n)).

Definition gdba2_proto (dom : node -> list Z) (init : node -> option Z) (nbrs : node -> list node)
    (iso : node -> option Z) (mx : bool) (orc : node -> list Z) (gcosts : node -> list (Z * list Z)) :=
  gdba_proto dom init nbrs iso mx orc (fun n => somes (map (gdba_rec mx (dom n)) (gcosts n))).

(* ------------------------------------------------------------------ correspondence *)
(* observed: what the implementation's find_best_values / _compute_best_improvement returned (as a
   mask over the domain) and the branch value it derived *)
Definition arec := (list Z * Z * bool * bool * list bool)%type.       (* costs, cur, viol, obs delta>0, obs mask *)
Definition grec := (Z * list Z * Z * list bool)%type.                 (* cost, evals, obs improve, obs mask *)

Inductive amodel2 :=
| A2Old (m : amodel)
| A2Adsa (r : srun) (variant prob : Z) (evs : list (node * list arec))
| A2Gdba (r : srun) (evs : list (node * list grec)).

Record case2 := mkCase2 { c2_funnel : list (list fcall); c2_model : amodel2 }.

Definition mask_eqb := list_eqb Bool.eqb.

Definition arec_in (x : arec) : list Z * Z * bool := let '(c, cur, viol, _, _) := x in (c, cur, viol).
Definition arec_ok (mx : bool) (d : list Z) (x : arec) : bool :=
  let '(c, cur, viol, od, om) := x in
  let '(dpos, _, mask) := adsa_rec mx d (c, cur, viol) in
  Bool.eqb dpos od && mask_eqb mask om
  && list_eqb Z.eqb (fst (fbv mx d c [] None)) (masked d om).

Definition grec_in (x : grec) : Z * list Z := let '(cur, ev, _, _) := x in (cur, ev).
Definition grec_ok (mx : bool) (d : list Z) (x : grec) : bool :=
  let '(cur, ev, oi, om) := x in
  match gdba_rec mx d (cur, ev) with
  | None => false
  | Some (imp, mask) => (imp =? oi) && mask_eqb mask om
                        && list_eqb Z.eqb (fst (cbi mx d ev [] None)) (masked d om)
  end.

Definition check_model2 (m : amodel2) : bool :=
  match m with
  | A2Old m0 => check_model m0
  | A2Adsa r variant prob evs =>
      let dom := assoc [] (r_dom r) in
      let P := adsa2_proto dom (assoc [] (r_nbrs r)) (assoc None (r_iso r)) (assoc [] (r_orc r)) variant prob
                           (r_max r) (fun n => map arec_in (assoc [] evs n)) in
      let '(cf, e) := run P (r_sched r) in
      list_eqb sev_eqb e (r_events r) && final_ok a_val (fun n => w_st (nodes cf n)) (r_final r)
      && forallb (fun q => forallb (arec_ok (r_max r) (dom (fst q))) (snd q)) evs
  | A2Gdba r evs =>
      let dom := assoc [] (r_dom r) in
      let P := gdba2_proto dom (assoc None (r_init r)) (assoc [] (r_nbrs r)) (assoc None (r_iso r))
                           (r_max r) (assoc [] (r_orc r)) (fun n => map grec_in (assoc [] evs n)) in
      let '(cf, e) := run P (r_sched r) in
      list_eqb sev_eqb e (r_events r) && final_ok g_val (fun n => w_st (nodes cf n)) (r_final r)
      && forallb (fun q => forallb (grec_ok (r_max r) (dom (fst q))) (snd q)) evs
  end.

Definition check_case2 (c : case2) : bool :=
  forallb (fun_replay fun_init) (c2_funnel c) && check_model2 (c2_model c).
